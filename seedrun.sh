#!/bin/sh
# seedrun.sh <patch.diff> <Cnn> [<Cnn> ...] — run checks against a scratch worktree of /repo with a
# seeded change applied (does not touch /repo itself). Prints each check's VIOLATION lines and rc.
# For the final confirmation the same patch is applied to /repo itself (git -C /repo apply) and undone.
set -u
patch=$(readlink -f "$1"); shift
wt=$(mktemp -d /tmp/seedwt.XXXXXX)
rmdir "$wt"
git -C /repo worktree add -q --detach "$wt" HEAD || exit 2
if ! git -C "$wt" apply "$patch"; then echo "patch does not apply"; git -C /repo worktree remove --force "$wt"; exit 2; fi
cd /verif
for p in "$@"; do
  VERIF_REPO="$wt" ./check "$p" ${SEED_TIER:+--tier $SEED_TIER} > "$wt.$p.out" 2>&1
  rc=$?
  echo "== $p rc=$rc"; grep -E '^(VIOLATION|KNOWN-FINDING|check broken)' "$wt.$p.out" | cut -c1-300; rm -f "$wt.$p.out"
done
git -C /repo worktree remove --force "$wt"
# restore facts generated from the unchanged tree
(cd /verif/extract && go build -o /tmp/verif_extract_restore . && /tmp/verif_extract_restore /repo /verif/lean/SfntV/Generated >/dev/null 2>&1; rm -f /tmp/verif_extract_restore)
