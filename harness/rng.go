package main

// Rng is SplitMix64; every random choice of the harness derives from one state.
type Rng struct{ s uint64 }

// NewRng mixes the seed first, so that nearby seeds give unrelated streams (the state is
// advanced by a constant per draw: an unmixed seed k+1 would be seed k shifted by one draw).
func NewRng(seed uint64) *Rng {
	r := &Rng{s: seed}
	a := r.U64()
	r.s = a ^ 0x1234567
	b := r.U64()
	r.s = a ^ (b << 1) ^ 0x9E3779B97F4A7C15*seed
	r.s = r.U64()
	return r
}

func (r *Rng) U64() uint64 {
	r.s += 0x9E3779B97F4A7C15
	z := r.s
	z = (z ^ (z >> 30)) * 0xBF58476D1CE4E5B9
	z = (z ^ (z >> 27)) * 0x94D049BB133111EB
	return z ^ (z >> 31)
}

// Intn returns a value in [0,n).
func (r *Rng) Intn(n int) int {
	if n <= 0 {
		return 0
	}
	return int(r.U64() % uint64(n))
}

// Range returns a value in [lo,hi].
func (r *Rng) Range(lo, hi int) int { return lo + r.Intn(hi-lo+1) }

func (r *Rng) Bool() bool { return r.U64()&1 == 1 }

// Chance is true with probability p/q.
func (r *Rng) Chance(p, q int) bool { return r.Intn(q) < p }

func (r *Rng) Bytes(n int) []byte {
	b := make([]byte, n)
	for i := range b {
		b[i] = byte(r.U64())
	}
	return b
}

func Pick[T any](r *Rng, xs []T) T { return xs[r.Intn(len(xs))] }
