package main

// Area "subset" (property C10): (*sfnt.Font).Subset on abstract fonts described by the case line.
//
// The case line describes a font (kind, glyph payloads, widths, names, composites, cmaps, private
// dicts, encoding, GIDToCID, GSUB, GPOS) and a requested glyph list; the handlers rebuild a real
// *sfnt.Font, run the real Subset and print a canonical description R of the result:
//
//	G@<glyph>,...;C@<cmaps>;P@<ids>;M@<ids>;FD@<list>;E@<enc>;CID@<list>;GS@<layout>;GP@<layout>

import (
	"bytes"
	"fmt"
	"sort"
	"strconv"
	"strings"
	"sync"
	"time"

	"golang.org/x/text/language"
	"seehuhn.de/go/geom/matrix"
	"seehuhn.de/go/postscript/cid"
	"seehuhn.de/go/postscript/funit"
	"seehuhn.de/go/postscript/type1"
	"seehuhn.de/go/sfnt"
	"seehuhn.de/go/sfnt/cff"
	"seehuhn.de/go/sfnt/cmap"
	"seehuhn.de/go/sfnt/glyf"
	"seehuhn.de/go/sfnt/glyph"
	"seehuhn.de/go/sfnt/mac"
	"seehuhn.de/go/sfnt/maxp"
	"seehuhn.de/go/sfnt/opentype/coverage"
	"seehuhn.de/go/sfnt/opentype/gtab"
)

// ---------------------------------------------------------------------------------------------
// abstract font

type subCmap struct {
	p, e, l, f int
	ents       [][2]int // code, gid
}

type subLig struct {
	in  []int
	out int
}

type subLigEntry struct {
	first int
	ligs  []subLig
}

// subSt is one lookup subtable: 's' = GSUB 1.1, 'l' = GSUB 4.1, 'p' = GPOS 2.1.
type subSt struct {
	typ   byte
	delta int
	cov   []int
	ents  []subLigEntry
	pairs [][3]int // left, right, adj
}

type subLayout struct {
	feats   [][]int
	lookups [][]subSt
}

type subCompDef struct {
	g  int
	cs []int
}

type subFont struct {
	kind    string
	n       int
	w       []int
	nmNil   bool
	nm      []int
	comps   []subCompDef
	cmapNil bool
	cmaps   []subCmap
	np      int
	pv      []int // private-dict id of every FD (FDs with the same id share ONE *type1.PrivateDict); nil = identity
	fd      []int
	encNil  bool
	enc     [][2]int
	cidNil  bool
	cid     []int
	gsub    *subLayout
	gpos    *subLayout
}

func subAtoi(s string) int {
	n, err := strconv.Atoi(s)
	if err != nil {
		panic("subset: bad integer " + strconv.Quote(s))
	}
	return n
}

func subSplit(s, sep string) []string {
	if s == "" {
		return nil
	}
	return strings.Split(s, sep)
}

func subIntList(s, sep string) []int {
	parts := subSplit(s, sep)
	out := make([]int, len(parts))
	for i, p := range parts {
		out[i] = subAtoi(p)
	}
	return out
}

func subJoin(l []int, sep string) string {
	s := make([]string, len(l))
	for i, x := range l {
		s[i] = strconv.Itoa(x)
	}
	return strings.Join(s, sep)
}

func subPairs(s string) [][2]int {
	parts := subSplit(s, ".")
	out := make([][2]int, len(parts))
	for i, p := range parts {
		j := strings.IndexByte(p, '-')
		if j < 0 {
			panic("subset: bad code-gid pair")
		}
		out[i] = [2]int{subAtoi(p[:j]), subAtoi(p[j+1:])}
	}
	return out
}

func subShowPairs(l [][2]int) string {
	s := make([]string, len(l))
	for i, x := range l {
		s[i] = fmt.Sprintf("%d-%d", x[0], x[1])
	}
	return strings.Join(s, ".")
}

func subParseLayout(s string) *subLayout {
	if s == "-" {
		return nil
	}
	i := strings.IndexByte(s, '|')
	if i < 0 {
		panic("subset: bad layout field")
	}
	l := &subLayout{}
	for _, f := range subSplit(s[:i], ",") {
		if !strings.HasPrefix(f, "F") {
			panic("subset: bad feature")
		}
		l.feats = append(l.feats, subIntList(f[1:], "."))
	}
	for _, lk := range subSplit(s[i+1:], "/") {
		if !strings.HasPrefix(lk, "L") {
			panic("subset: bad lookup")
		}
		sts := []subSt{}
		for _, st := range subSplit(lk[1:], "+") {
			sts = append(sts, subParseSt(st))
		}
		l.lookups = append(l.lookups, sts)
	}
	return l
}

func subParseSt(s string) subSt {
	if s == "" {
		panic("subset: empty subtable")
	}
	st := subSt{typ: s[0]}
	body := s[1:]
	switch s[0] {
	case 's':
		i := strings.IndexByte(body, ':')
		if i < 0 {
			panic("subset: bad 1.1 subtable")
		}
		st.delta = subAtoi(body[:i])
		st.cov = subIntList(body[i+1:], ".")
	case 'l':
		for _, e := range subSplit(body, "~") {
			i := strings.IndexByte(e, ':')
			if i < 0 {
				panic("subset: bad 4.1 entry")
			}
			ent := subLigEntry{first: subAtoi(e[:i])}
			for _, lg := range subSplit(e[i+1:], "_") {
				j := strings.IndexByte(lg, '>')
				if j < 0 {
					panic("subset: bad ligature")
				}
				ent.ligs = append(ent.ligs, subLig{in: subIntList(lg[:j], "."), out: subAtoi(lg[j+1:])})
			}
			st.ents = append(st.ents, ent)
		}
	case 'p':
		for _, p := range subSplit(body, ".") {
			x := subIntList(p, "-")
			if len(x) != 3 {
				panic("subset: bad pair")
			}
			st.pairs = append(st.pairs, [3]int{x[0], x[1], x[2]})
		}
	default:
		panic("subset: unknown subtable kind")
	}
	return st
}

func subShowSt(st subSt) string {
	switch st.typ {
	case 's':
		return fmt.Sprintf("s%d:%s", st.delta, subJoin(st.cov, "."))
	case 'l':
		es := make([]string, len(st.ents))
		for i, e := range st.ents {
			ls := make([]string, len(e.ligs))
			for j, lg := range e.ligs {
				ls[j] = subJoin(lg.in, ".") + ">" + strconv.Itoa(lg.out)
			}
			es[i] = strconv.Itoa(e.first) + ":" + strings.Join(ls, "_")
		}
		return "l" + strings.Join(es, "~")
	case 'p':
		ps := make([]string, len(st.pairs))
		for i, p := range st.pairs {
			ps[i] = fmt.Sprintf("%d-%d-%d", p[0], p[1], p[2])
		}
		return "p" + strings.Join(ps, ".")
	}
	return "x"
}

func subShowLayout(l *subLayout) string {
	if l == nil {
		return "-"
	}
	fs := make([]string, len(l.feats))
	for i, f := range l.feats {
		fs[i] = "F" + subJoin(f, ".")
	}
	ls := make([]string, len(l.lookups))
	for i, lk := range l.lookups {
		ss := make([]string, len(lk))
		for j, st := range lk {
			ss[j] = subShowSt(st)
		}
		ls[i] = "L" + strings.Join(ss, "+")
	}
	return strings.Join(fs, ",") + "|" + strings.Join(ls, "/")
}

func subParseFont(f Fields) *subFont {
	sf := &subFont{kind: f["kind"], n: f.Int("n")}
	sf.w = subIntList(f["w"], ",")
	if f["nm"] == "-" {
		sf.nmNil = true
	} else {
		sf.nm = subIntList(f["nm"], ",")
	}
	for _, c := range subSplit(f["comps"], ";") {
		i := strings.IndexByte(c, ':')
		if i < 0 {
			panic("subset: bad composite")
		}
		sf.comps = append(sf.comps, subCompDef{g: subAtoi(c[:i]), cs: subIntList(c[i+1:], ".")})
	}
	if f["cmaps"] == "-" {
		sf.cmapNil = true
	} else {
		for _, s := range subSplit(f["cmaps"], "/") {
			i := strings.IndexByte(s, ':')
			if i < 0 {
				panic("subset: bad cmap subtable")
			}
			h := subIntList(s[:i], ".")
			if len(h) != 4 {
				panic("subset: bad cmap key")
			}
			sf.cmaps = append(sf.cmaps, subCmap{p: h[0], e: h[1], l: h[2], f: h[3], ents: subPairs(s[i+1:])})
		}
	}
	sf.np = f.Int("np")
	if f["pv"] != "" {
		sf.pv = subIntList(f["pv"], ",")
	}
	sf.fd = subIntList(f["fd"], ",")
	if f["enc"] == "-" || f["enc"] == "" {
		sf.encNil = true
	} else {
		sf.enc = subPairs(f["enc"])
	}
	if f["cid"] == "-" || f["cid"] == "" {
		sf.cidNil = true
	} else {
		sf.cid = subIntList(f["cid"], ",")
	}
	sf.gsub = subParseLayout(f["gsub"])
	sf.gpos = subParseLayout(f["gpos"])
	return sf
}

// subFontArgs prints the font fields of a case line (without glyphs/order/res).
func subFontArgs(sf *subFont) string {
	var b strings.Builder
	fmt.Fprintf(&b, "kind=%s n=%d w=%s", sf.kind, sf.n, subJoin(sf.w, ","))
	if sf.nmNil {
		b.WriteString(" nm=-")
	} else {
		b.WriteString(" nm=" + subJoin(sf.nm, ","))
	}
	cs := make([]string, len(sf.comps))
	for i, c := range sf.comps {
		cs[i] = strconv.Itoa(c.g) + ":" + subJoin(c.cs, ".")
	}
	b.WriteString(" comps=" + strings.Join(cs, ";"))
	if sf.cmapNil {
		b.WriteString(" cmaps=-")
	} else {
		ms := make([]string, len(sf.cmaps))
		for i, m := range sf.cmaps {
			ms[i] = fmt.Sprintf("%d.%d.%d.%d:%s", m.p, m.e, m.l, m.f, subShowPairs(m.ents))
		}
		b.WriteString(" cmaps=" + strings.Join(ms, "/"))
	}
	fmt.Fprintf(&b, " np=%d fd=%s", sf.np, subJoin(sf.fd, ","))
	if sf.pv != nil {
		b.WriteString(" pv=" + subJoin(sf.pv, ","))
	}
	if sf.encNil {
		b.WriteString(" enc=-")
	} else {
		b.WriteString(" enc=" + subShowPairs(sf.enc))
	}
	if sf.cidNil {
		b.WriteString(" cid=-")
	} else {
		b.WriteString(" cid=" + subJoin(sf.cid, ","))
	}
	b.WriteString(" gsub=" + subShowLayout(sf.gsub))
	b.WriteString(" gpos=" + subShowLayout(sf.gpos))
	return b.String()
}

// ---------------------------------------------------------------------------------------------
// building the real font

type subBuilt struct {
	sf     *subFont
	font   *sfnt.Font
	simple map[*glyf.Glyph]int
	isComp []bool
	cffG   map[*cff.Glyph]int
}

const subCompURx = 1000 // composite glyph i has Rect16.URx = subCompURx+i

func subSimpleGlyph(i int) *glyf.Glyph {
	x := 10 + i
	// three points (0,0) (x,0) (x,10); x as a 16-bit delta, y as a short positive delta
	enc := []byte{0, 2, 0, 0, 0x31, 0x21, 0x35, byte(x >> 8), byte(x), 10}
	return &glyf.Glyph{
		Rect16: funit.Rect16{LLx: 0, LLy: 0, URx: funit.Int16(x), URy: 10},
		Data:   glyf.SimpleGlyph{NumContours: 1, Encoded: enc},
	}
}

func subCompGlyph(i int, cs []int) *glyf.Glyph {
	cc := make([]glyf.GlyphComponent, len(cs))
	for k, c := range cs {
		fl := glyf.ComponentFlag(0x0002) // ARGS_ARE_XY_VALUES, byte arguments
		if k+1 < len(cs) {
			fl |= 0x0020 // MORE_COMPONENTS
		}
		cc[k] = glyf.GlyphComponent{Flags: fl, GlyphIndex: glyph.ID(c), Data: []byte{0, 0}}
	}
	// Instruction blocks, chosen by the glyph id: none / WE_HAVE_INSTRUCTIONS (0x0100) on the
	// first component only / on the last only / on every component.  (The decoder accepts the
	// flag on any component.)
	var instr []byte
	if len(cc) > 0 && i%4 != 0 {
		for q := 0; q <= i%3; q++ {
			instr = append(instr, byte(0x40+i+q))
		}
		switch i % 4 {
		case 1:
			cc[0].Flags |= 0x0100
		case 2:
			cc[len(cc)-1].Flags |= 0x0100
		case 3:
			for k := range cc {
				cc[k].Flags |= 0x0100
			}
		}
	}
	return &glyf.Glyph{
		Rect16: funit.Rect16{URx: funit.Int16(subCompURx + i), URy: 10},
		Data:   glyf.CompositeGlyph{Components: cc, Instructions: instr},
	}
}

// subCompGlyphOf rebuilds the original composite glyph id of the font description.
func subCompGlyphOf(sf *subFont, id int) *glyf.Glyph {
	for _, c := range sf.comps {
		if c.g == id {
			return subCompGlyph(c.g, c.cs)
		}
	}
	return nil
}

// subSameComposite: g is the composite orig up to the glyph indices of its components (bounding
// box, component flags and argument bytes, instruction bytes all equal).
func subSameComposite(g, orig *glyf.Glyph) bool {
	if g == nil || orig == nil || g.Rect16 != orig.Rect16 {
		return false
	}
	a, ok1 := g.Data.(glyf.CompositeGlyph)
	b, ok2 := orig.Data.(glyf.CompositeGlyph)
	if !ok1 || !ok2 || len(a.Components) != len(b.Components) || !bytes.Equal(a.Instructions, b.Instructions) {
		return false
	}
	for k := range a.Components {
		if a.Components[k].Flags != b.Components[k].Flags || !bytes.Equal(a.Components[k].Data, b.Components[k].Data) {
			return false
		}
	}
	return true
}

func subName(kind string, k int) string {
	if kind != "ttf" && k == 0 {
		return ".notdef"
	}
	return "n" + strconv.Itoa(k)
}

// subNameID inverts subName; -1 if the string is not one of ours.
func subNameID(kind, s string) int {
	if kind != "ttf" && s == ".notdef" {
		return 0
	}
	if len(s) < 2 || s[0] != 'n' {
		return -1
	}
	k, err := strconv.Atoi(s[1:])
	if err != nil || k < 0 || subName(kind, k) != s {
		return -1
	}
	return k
}

func subBuildLayout(l *subLayout) *gtab.Info {
	if l == nil {
		return nil
	}
	// non-nil (possibly empty) lists: a nil FeatureList is written as offset 0, which the
	// reader rejects when lookups are present
	info := &gtab.Info{FeatureList: gtab.FeatureListInfo{}, LookupList: gtab.LookupList{}}
	opt := make([]gtab.FeatureIndex, len(l.feats))
	for i := range opt {
		opt[i] = gtab.FeatureIndex(i)
	}
	info.ScriptList = gtab.ScriptListInfo{
		language.MustParse("und-Zzzz"): {Required: 0xFFFF, Optional: opt},
	}
	for i, f := range l.feats {
		ft := &gtab.Feature{Tag: fmt.Sprintf("f%03d", i)}
		for _, x := range f {
			ft.Lookups = append(ft.Lookups, gtab.LookupIndex(x))
		}
		info.FeatureList = append(info.FeatureList, ft)
	}
	for _, lk := range l.lookups {
		lt := &gtab.LookupTable{Meta: &gtab.LookupMetaInfo{LookupType: 1}}
		for j, st := range lk {
			var sub gtab.Subtable
			var typ uint16
			switch st.typ {
			case 's':
				cov := coverage.Set{}
				for _, g := range st.cov {
					cov[glyph.ID(g)] = true
				}
				sub, typ = &gtab.Gsub1_1{Cov: cov, Delta: glyph.ID(st.delta)}, 1
			case 'l':
				s4 := &gtab.Gsub4_1{Cov: coverage.Table{}}
				for k, e := range st.ents {
					s4.Cov[glyph.ID(e.first)] = k
					ligs := make([]gtab.Ligature, len(e.ligs))
					for m, lg := range e.ligs {
						in := make([]glyph.ID, len(lg.in))
						for q, g := range lg.in {
							in[q] = glyph.ID(g)
						}
						ligs[m] = gtab.Ligature{In: in, Out: glyph.ID(lg.out)}
					}
					s4.Repl = append(s4.Repl, ligs)
				}
				sub, typ = s4, 4
			case 'p':
				p2 := gtab.Gpos2_1{}
				for _, p := range st.pairs {
					p2[glyph.Pair{Left: glyph.ID(p[0]), Right: glyph.ID(p[1])}] =
						&gtab.PairAdjust{First: &gtab.GposValueRecord{XAdvance: funit.Int16(p[2])}}
				}
				sub, typ = p2, 2
			}
			if j == 0 {
				lt.Meta.LookupType = typ
			}
			lt.Subtables = append(lt.Subtables, sub)
		}
		info.LookupList = append(info.LookupList, lt)
	}
	return info
}

// subCmapCache remembers encoded cmap subtables (Format4.Encode takes more than a millisecond
// and the search for the recorded glyph order rebuilds the same font many times).  The byte
// slices are never modified by the library.
var (
	subCmapCache   = map[string][]byte{}
	subCmapCacheMu sync.Mutex
)

func subEncodeCmap(m subCmap, st cmap.Subtable, lang uint16) []byte {
	key := fmt.Sprintf("%d.%d.%d:%s", m.p, m.f, lang, subShowPairs(m.ents))
	subCmapCacheMu.Lock()
	data, ok := subCmapCache[key]
	subCmapCacheMu.Unlock()
	if ok {
		return data
	}
	data = st.Encode(lang)
	subCmapCacheMu.Lock()
	if len(subCmapCache) > 2048 {
		subCmapCache = map[string][]byte{}
	}
	subCmapCache[key] = data
	subCmapCacheMu.Unlock()
	return data
}

func subBuild(sf *subFont) *subBuilt {
	b := &subBuilt{sf: sf}
	font := &sfnt.Font{FamilyName: "T", UnitsPerEm: 1000, Ascent: 800, Descent: -200}
	switch sf.kind {
	case "ttf":
		o := &glyf.Outlines{Maxp: &maxp.TTFInfo{}}
		b.simple = make(map[*glyf.Glyph]int, sf.n)
		b.isComp = make([]bool, sf.n)
		o.Glyphs = make(glyf.Glyphs, sf.n)
		for _, c := range sf.comps {
			o.Glyphs[c.g] = subCompGlyph(c.g, c.cs)
			b.isComp[c.g] = true
		}
		for i := 0; i < sf.n; i++ {
			if o.Glyphs[i] == nil {
				g := subSimpleGlyph(i)
				o.Glyphs[i] = g
				b.simple[g] = i
			}
		}
		o.Widths = make([]funit.Int16, len(sf.w))
		for i, w := range sf.w {
			o.Widths[i] = funit.Int16(w)
		}
		if !sf.nmNil {
			o.Names = make([]string, len(sf.nm))
			for i, k := range sf.nm {
				o.Names[i] = subName("ttf", k)
			}
		}
		font.Outlines = o
	case "cff", "cid":
		o := &cff.Outlines{}
		b.cffG = make(map[*cff.Glyph]int, sf.n)
		for i := 0; i < sf.n; i++ {
			g := cff.NewGlyph(subName(sf.kind, sf.nm[i]), float64(sf.w[i]))
			g.MoveTo(0, 0)
			g.LineTo(float64(10+i), 0)
			g.LineTo(float64(10+i), 10)
			o.Glyphs = append(o.Glyphs, g)
			b.cffG[g] = i
		}
		privObj := map[int]*type1.PrivateDict{}
		for j := 0; j < sf.np; j++ {
			id := j
			if sf.pv != nil {
				id = sf.pv[j]
			}
			if privObj[id] == nil {
				privObj[id] = &type1.PrivateDict{
					BlueScale: 0.039625, BlueShift: 7, BlueFuzz: 1, StdHW: float64(10*id + 1)}
			}
			o.Private = append(o.Private, privObj[id]) // FDs with the same id share the pointer
		}
		fd := sf.fd
		o.FDSelect = func(gid glyph.ID) int { return fd[gid] }
		if !sf.encNil {
			o.Encoding = make([]glyph.ID, 256)
			for _, e := range sf.enc {
				o.Encoding[e[0]] = glyph.ID(e[1])
			}
		}
		if sf.kind == "cid" {
			o.ROS = &cid.SystemInfo{Registry: "Adobe", Ordering: "Identity"}
			for j := 0; j < sf.np; j++ {
				o.FontMatrices = append(o.FontMatrices, matrix.Matrix{0.001, 0, 0, 0.001, float64(j), 0})
			}
			if !sf.cidNil {
				o.GIDToCID = make([]cid.CID, len(sf.cid))
				for i, x := range sf.cid {
					o.GIDToCID[i] = cid.CID(x)
				}
			}
		}
		font.Outlines = o
	default:
		panic("subset: unknown kind")
	}
	if !sf.cmapNil {
		font.CMapTable = cmap.Table{}
		for _, m := range sf.cmaps {
			key := cmap.Key{PlatformID: uint16(m.p), EncodingID: uint16(m.e), Language: uint16(m.l)}
			var st cmap.Subtable
			switch m.f {
			case 4:
				t := cmap.Format4{}
				for _, e := range m.ents {
					code := e[0]
					if m.p == 1 {
						// Macintosh platform: the line gives the character as the library reads
						// it (Unicode); the table stores its Mac Roman byte.
						code = int(mac.Encode(string(rune(code)))[0])
					}
					t[uint16(code)] = glyph.ID(e[1])
				}
				st = t
			case 12:
				t := cmap.Format12{}
				for _, e := range m.ents {
					t[uint32(e[0])] = glyph.ID(e[1])
				}
				st = t
			default:
				panic("subset: unknown cmap format")
			}
			font.CMapTable[key] = subEncodeCmap(m, st, key.Language)
		}
	}
	font.Gsub = subBuildLayout(sf.gsub)
	font.Gpos = subBuildLayout(sf.gpos)
	b.font = font
	return b
}

// ---------------------------------------------------------------------------------------------
// canonical description of the result

func subKeyLess(a, b cmap.Key) bool {
	if a.PlatformID != b.PlatformID {
		return a.PlatformID < b.PlatformID
	}
	if a.EncodingID != b.EncodingID {
		return a.EncodingID < b.EncodingID
	}
	return a.Language < b.Language
}

func subRenderCmaps(t cmap.Table) string {
	if t == nil {
		return "-"
	}
	keys := make([]cmap.Key, 0, len(t))
	for k := range t {
		keys = append(keys, k)
	}
	sort.Slice(keys, func(i, j int) bool { return subKeyLess(keys[i], keys[j]) })
	parts := make([]string, len(keys))
	for i, k := range keys {
		st, err := t.Get(k)
		var ents [][2]int
		f := "x"
		if err == nil {
			switch m := st.(type) {
			case cmap.Format4:
				f = "4"
				for c, g := range m {
					if g != 0 {
						ents = append(ents, [2]int{int(c), int(g)})
					}
				}
			case cmap.Format12:
				f = "12"
				for c, g := range m {
					if g != 0 {
						ents = append(ents, [2]int{int(c), int(g)})
					}
				}
			}
		}
		sort.Slice(ents, func(a, b int) bool { return ents[a][0] < ents[b][0] })
		parts[i] = fmt.Sprintf("%d.%d.%d.%s:%s", k.PlatformID, k.EncodingID, k.Language, f, subShowPairs(ents))
	}
	return strings.Join(parts, "/")
}

func subRenderLayout(info *gtab.Info) string {
	if info == nil {
		return "-"
	}
	fs := make([]string, len(info.FeatureList))
	for i, f := range info.FeatureList {
		l := make([]int, len(f.Lookups))
		for j, x := range f.Lookups {
			l[j] = int(x)
		}
		fs[i] = "F" + subJoin(l, ".")
	}
	ls := make([]string, len(info.LookupList))
	for i, lk := range info.LookupList {
		ss := make([]string, len(lk.Subtables))
		for j, st := range lk.Subtables {
			ss[j] = subRenderSt(st)
		}
		ls[i] = "L" + strings.Join(ss, "+")
	}
	return strings.Join(fs, ",") + "|" + strings.Join(ls, "/")
}

func subRenderSt(st gtab.Subtable) string {
	switch t := st.(type) {
	case *gtab.Gsub1_2:
		if t == nil {
			return "x"
		}
		// Entries are listed in COVERAGE-INDEX order (the model lists them by glyph id): the
		// two agree iff the coverage indices are 0..n-1 and increase with the glyph id, which is
		// what a valid coverage table requires.
		ents := make([][2]int, len(t.Cov))
		seen := make([]bool, len(t.Cov))
		if len(t.SubstituteGlyphIDs) != len(t.Cov) {
			return "x"
		}
		for from, idx := range t.Cov {
			if idx < 0 || idx >= len(ents) || seen[idx] {
				return "x"
			}
			seen[idx] = true
			ents[idx] = [2]int{int(from), int(t.SubstituteGlyphIDs[idx])}
		}
		return "m" + subShowPairs(ents)
	case *gtab.Gsub4_1:
		if t == nil {
			return "x"
		}
		out := subSt{typ: 'l'}
		if len(t.Repl) != len(t.Cov) {
			return "x"
		}
		out.ents = make([]subLigEntry, len(t.Cov))
		seenL := make([]bool, len(t.Cov))
		for first, idx := range t.Cov {
			if idx < 0 || idx >= len(out.ents) || seenL[idx] {
				return "x"
			}
			seenL[idx] = true
			e := subLigEntry{first: int(first)}
			for _, lg := range t.Repl[idx] {
				in := make([]int, len(lg.In))
				for q, g := range lg.In {
					in[q] = int(g)
				}
				e.ligs = append(e.ligs, subLig{in: in, out: int(lg.Out)})
			}
			out.ents[idx] = e // coverage-index order, see above
		}
		return subShowSt(out)
	case gtab.Gpos2_1:
		if t == nil {
			return "x"
		}
		out := subSt{typ: 'p'}
		for p, adj := range t {
			a := 0
			if adj != nil && adj.First != nil {
				a = int(adj.First.XAdvance)
			}
			out.pairs = append(out.pairs, [3]int{int(p.Left), int(p.Right), a})
		}
		sort.Slice(out.pairs, func(a, b int) bool {
			if out.pairs[a][0] != out.pairs[b][0] {
				return out.pairs[a][0] < out.pairs[b][0]
			}
			return out.pairs[a][1] < out.pairs[b][1]
		})
		return subShowSt(out)
	}
	return "x"
}

func subPayloadStr(p int) string {
	if p < 0 {
		return "?"
	}
	return strconv.Itoa(p)
}

// subRender returns the old-id order of the result ("," joined payloads) and the canonical string R.
func subRender(b *subBuilt, res *sfnt.Font) (string, string) {
	sf := b.sf
	var gl, order []string
	var pIDs, mIDs, fdl []string
	encS, cidS := "-", "-"
	nameStr := func(s string) string {
		if k := subNameID(sf.kind, s); k >= 0 {
			return strconv.Itoa(k)
		}
		return "?"
	}
	switch o := res.Outlines.(type) {
	case *glyf.Outlines:
		for i, g := range o.Glyphs {
			pay := -1
			var comps []int
			if g != nil {
				if id, ok := b.simple[g]; ok {
					pay = id
				} else if _, isC := g.Data.(glyf.CompositeGlyph); isC {
					id := int(g.URx) - subCompURx
					if id >= 0 && id < sf.n && b.isComp[id] && subSameComposite(g, subCompGlyphOf(sf, id)) {
						pay = id
					}
					for _, c := range g.Components() {
						comps = append(comps, int(c))
					}
				}
			}
			nm := "-"
			if o.Names != nil {
				nm = nameStr(o.Names[i])
			}
			order = append(order, subPayloadStr(pay))
			gl = append(gl, fmt.Sprintf("%s:%d:%s:%s", subPayloadStr(pay), int(o.Widths[i]), nm, subJoin(comps, ".")))
		}
	case *cff.Outlines:
		for i, g := range o.Glyphs {
			pay := -1
			if id, ok := b.cffG[g]; ok {
				pay = id
			}
			order = append(order, subPayloadStr(pay))
			wd, nm := "?", "?"
			if g != nil {
				wd = strconv.Itoa(int(g.Width))
				nm = nameStr(g.Name)
			}
			gl = append(gl, fmt.Sprintf("%s:%s:%s:", subPayloadStr(pay), wd, nm))
			fdl = append(fdl, strconv.Itoa(o.FDSelect(glyph.ID(i))))
		}
		for _, p := range o.Private {
			id := "?"
			if p != nil {
				j := (int(p.StdHW) - 1) / 10
				if j >= 0 && p.StdHW == float64(10*j+1) {
					id = strconv.Itoa(j)
				}
			}
			pIDs = append(pIDs, id)
		}
		for _, m := range o.FontMatrices {
			id := "?"
			j := int(m[4])
			if j >= 0 && j < sf.np && m == (matrix.Matrix{0.001, 0, 0, 0.001, float64(j), 0}) {
				id = strconv.Itoa(j)
			}
			mIDs = append(mIDs, id)
		}
		if o.Encoding != nil {
			var ents [][2]int
			for c, g := range o.Encoding {
				if g != 0 {
					ents = append(ents, [2]int{c, int(g)})
				}
			}
			encS = subShowPairs(ents)
		}
		if o.GIDToCID != nil {
			l := make([]int, len(o.GIDToCID))
			for i, x := range o.GIDToCID {
				l[i] = int(x)
			}
			cidS = subJoin(l, ",")
		}
	default:
		panic("subset: unexpected outlines in the result")
	}
	R := "G@" + strings.Join(gl, ",") +
		";C@" + subRenderCmaps(res.CMapTable) +
		";P@" + strings.Join(pIDs, ",") +
		";M@" + strings.Join(mIDs, ",") +
		";FD@" + strings.Join(fdl, ",") +
		";E@" + encS +
		";CID@" + cidS +
		";GS@" + subRenderLayout(res.Gsub) +
		";GP@" + subRenderLayout(res.Gpos)
	return strings.Join(order, ","), R
}

func subGlyphList(s string) []glyph.ID {
	l := subIntList(s, ",")
	out := make([]glyph.ID, len(l))
	for i, x := range l {
		if x < 0 || x > 0xFFFF {
			panic("subset: glyph id out of range")
		}
		out[i] = glyph.ID(x)
	}
	return out
}

// subRunFont builds a fresh font, runs the real Subset and renders the result.
// The status is "panic", "render-panic:<msg>" or "" (then order and R are valid).
func subRunFont(sf *subFont, glyphs []glyph.ID) (status, order, R string) {
	var b *subBuilt
	var res *sfnt.Font
	out := guard(func() string {
		b = subBuild(sf)
		res = b.font.Subset(glyphs)
		return ""
	})
	if out != "" {
		return "panic", "", ""
	}
	out = guard(func() string {
		order, R = subRender(b, res)
		return ""
	})
	if out != "" {
		return "render-" + out, "", ""
	}
	return "", order, R
}

// subParseCase parses the font and the glyph list of a case line; ok is false if the line is
// not well-formed (the handlers answer "panic" then).
func subParseCase(f Fields) (sf *subFont, glyphs []glyph.ID, ok bool) {
	out := guard(func() string {
		sf = subParseFont(f)
		glyphs = subGlyphList(f["glyphs"])
		return ""
	})
	return sf, glyphs, out == ""
}

// subOpCffRun drives (*cff.Outlines).Subset (cff/subset.go) directly: the outlines of the font of
// the case line are subsetted to the glyph list and rendered like a Font.Subset result without
// cmap and layout tables.  There is no closure here, so the result does not depend on any order.
func subOpCffRun(f Fields) string {
	sf, glyphs, ok := subParseCase(f)
	if !ok {
		return "panic"
	}
	var b *subBuilt
	var res *sfnt.Font
	out := guard(func() string {
		b = subBuild(sf)
		o, isCFF := b.font.Outlines.(*cff.Outlines)
		if !isCFF {
			return "not-cff"
		}
		res = &sfnt.Font{Outlines: o.Subset(glyphs)}
		return ""
	})
	if out == "not-cff" {
		return out
	}
	if out != "" {
		return "panic"
	}
	var R string
	out = guard(func() string {
		_, R = subRender(b, res)
		return ""
	})
	if out != "" {
		return "render-" + out
	}
	return R
}

// subOpEncRT: the built-in encoding of the subset after Write and Read, in terms of OLD glyph ids
// (`code-old` for every code that selects a glyph other than .notdef), or err:... if the subset
// cannot be written.  The run is repeated until the glyph order equals the `order` field.
func subOpEncRT(f Fields) string {
	want := f["order"]
	sf, glyphs, ok := subParseCase(f)
	if !ok {
		return "panic"
	}
	start := time.Now()
	for try := 0; try < subMaxTries; try++ {
		var b *subBuilt
		var res *sfnt.Font
		out := guard(func() string {
			b = subBuild(sf)
			res = b.font.Subset(glyphs)
			return ""
		})
		if out != "" {
			return "panic"
		}
		var order string
		out = guard(func() string {
			order, _ = subRender(b, res)
			return ""
		})
		if out != "" {
			return "render-" + out
		}
		if order != want {
			if try%16 == 15 && time.Since(start) > subMaxSearch {
				break
			}
			continue
		}
		olds := subIntList(order, ",")
		return canonPanic(guard(func() string {
			var buf bytes.Buffer
			if _, err := res.Write(&buf); err != nil {
				if strings.Contains(err.Error(), "encoded glyphs not contiguous") {
					return "err:encoding"
				}
				return "err:write:" + subErrClass(err)
			}
			back, err := sfnt.Read(bytes.NewReader(buf.Bytes()))
			if err != nil {
				return "err:read:" + subErrClass(err)
			}
			o, isCFF := back.Outlines.(*cff.Outlines)
			if !isCFF {
				return "not-cff"
			}
			if o.Encoding == nil {
				return "E@-"
			}
			var ents [][2]int
			for code, g := range o.Encoding {
				if g == 0 {
					continue
				}
				old := -1
				if int(g) < len(olds) {
					old = olds[g]
				}
				ents = append(ents, [2]int{code, old})
			}
			return "E@" + subShowPairs(ents)
		}))
	}
	return "order-not-reproduced"
}

// subRunFontAgain builds a fresh font, calls Subset(first) on it, discards the result, calls
// Subset(glyphs) on the SAME font value and renders the second result.
func subRunFontAgain(sf *subFont, first, glyphs []glyph.ID) (status, order, R string) {
	var b *subBuilt
	var res *sfnt.Font
	out := guard(func() string {
		b = subBuild(sf)
		_ = b.font.Subset(first)
		res = b.font.Subset(glyphs)
		return ""
	})
	if out != "" {
		return "panic", "", ""
	}
	out = guard(func() string {
		order, R = subRender(b, res)
		return ""
	})
	if out != "" {
		return "render-" + out, "", ""
	}
	return "", order, R
}

// subOpAgain: Subset must not change the font it is called on — the result of a second call on the
// same font value (after Subset(first)) is what the model gives for the original font.
func subOpAgain(f Fields) string {
	want := f["order"]
	sf, glyphs, ok := subParseCase(f)
	if !ok {
		return "panic"
	}
	var first []glyph.ID
	if guard(func() string { first = subGlyphList(f["first"]); return "" }) != "" {
		return "panic"
	}
	start := time.Now()
	last := "order-not-reproduced"
	for try := 0; try < subMaxTries; try++ {
		status, order, R := subRunFontAgain(sf, first, glyphs)
		if status != "" {
			return status
		}
		if order == want {
			return R
		}
		last = "order-not-reproduced:" + order
		if try%16 == 15 && time.Since(start) > 2*time.Second {
			break
		}
	}
	return last
}

// subScribble overwrites the caller's glyph slice (it is the caller's to reuse after the call).
func subScribble(gl []glyph.ID) {
	for i := range gl {
		gl[i] = 0
	}
}

// subOpIndep: the subset must not depend on its argument after the call.  Font.Subset is run until
// the glyph order is the `order` field, then the caller's glyph slice is overwritten, and only then
// is the result rendered; it must still be what the model gives.
func subOpIndep(f Fields) string {
	want := f["order"]
	sf, _, ok := subParseCase(f)
	if !ok {
		return "panic"
	}
	start := time.Now()
	last := "order-not-reproduced"
	for try := 0; try < subMaxTries; try++ {
		var b *subBuilt
		var res *sfnt.Font
		var gl []glyph.ID
		out := guard(func() string {
			b = subBuild(sf)
			gl = subGlyphList(f["glyphs"]) // a fresh slice, cap == len
			res = b.font.Subset(gl)
			return ""
		})
		if out != "" {
			return "panic"
		}
		var order, R string
		out = guard(func() string {
			order, _ = subRender(b, res)
			return ""
		})
		if out != "" {
			return "render-" + out
		}
		if order != want {
			last = "order-not-reproduced:" + order
			if try%16 == 15 && time.Since(start) > 2*time.Second {
				break
			}
			continue
		}
		subScribble(gl)
		out = guard(func() string {
			_, R = subRender(b, res)
			return ""
		})
		if out != "" {
			return "render-" + out
		}
		return R
	}
	return last
}

// subOpIndepCff: the same for (*cff.Outlines).Subset called directly.
func subOpIndepCff(f Fields) string {
	sf, _, ok := subParseCase(f)
	if !ok {
		return "panic"
	}
	var b *subBuilt
	var res *sfnt.Font
	var gl []glyph.ID
	out := guard(func() string {
		b = subBuild(sf)
		o, isCFF := b.font.Outlines.(*cff.Outlines)
		if !isCFF {
			return "not-cff"
		}
		gl = subGlyphList(f["glyphs"])
		res = &sfnt.Font{Outlines: o.Subset(gl)}
		return ""
	})
	if out == "not-cff" {
		return out
	}
	if out != "" {
		return "panic"
	}
	subScribble(gl)
	var R string
	out = guard(func() string {
		_, R = subRender(b, res)
		return ""
	})
	if out != "" {
		return "render-" + out
	}
	return R
}

const subMaxTries = 5000

// subMaxSearch bounds the search for the recorded order in wall-clock time (the harness gives up
// on a case after 10 s).
const subMaxSearch = 7 * time.Second

// subTries is the number of runs the last subOpRun needed (generator statistics).
var subTries int

func subOpRun(f Fields) string {
	want := f["order"]
	sf, glyphs, ok := subParseCase(f)
	if !ok {
		return "panic"
	}
	start := time.Now()
	for try := 0; try < subMaxTries; try++ {
		subTries = try + 1
		status, order, R := subRunFont(sf, glyphs)
		if status != "" {
			return status
		}
		if order == want {
			return R
		}
		if try%16 == 15 && time.Since(start) > subMaxSearch {
			break
		}
	}
	return "order-not-reproduced"
}

func subErrClass(err error) string {
	s := strings.Map(func(r rune) rune {
		switch r {
		case ' ', '\t', '\n', '=':
			return -1
		}
		return r
	}, err.Error())
	if len(s) > 48 {
		s = s[:48]
	}
	return s
}

// subWriteRead writes the font and reads it back.
func subWriteRead(font *sfnt.Font) string {
	var buf bytes.Buffer
	_, err := font.Write(&buf)
	if err != nil {
		if strings.Contains(err.Error(), "encoded glyphs not contiguous") {
			return "err:encoding"
		}
		return "err:write:" + subErrClass(err)
	}
	back, err := sfnt.Read(bytes.NewReader(buf.Bytes()))
	if err != nil {
		return "err:read:" + subErrClass(err)
	}
	return fmt.Sprintf("ok:%d", back.NumGlyphs())
}

// subWritableRuns: with a GSUB table the outcome of Subset+Write depends on Go's map iteration
// order (order of the appended glyphs; coverage indices of the new subtables), so the op is
// repeated and the worst outcome reported: panic > err:… (smallest string) > ok.
const subWritableRuns = 10

func subOpWritable(f Fields) string {
	sf, glyphs, ok := subParseCase(f)
	if !ok {
		return "panic"
	}
	// With an `order` field the outcome is that of the run whose glyph order is the given one:
	// whether a CFF encoding can be written depends on where the appended extras land, i.e. on
	// the map iteration order (seed 7 thorough: glyphs=0,6, extras 2 (encoded) and 8 (not encoded)
	// in either order).
	if want, has := f["order"]; has && want != "-" {
		start := time.Now()
		for try := 0; try < subMaxTries; try++ {
			var b *subBuilt
			var res *sfnt.Font
			out := guard(func() string {
				b = subBuild(sf)
				res = b.font.Subset(glyphs)
				return ""
			})
			if out != "" {
				return "panic"
			}
			var order string
			out = guard(func() string {
				order, _ = subRender(b, res)
				return ""
			})
			if out != "" {
				return "render-" + out
			}
			if order == want {
				return canonPanic(guard(func() string { return subWriteRead(res) }))
			}
			if try%16 == 15 && time.Since(start) > subMaxSearch {
				break
			}
		}
		return "order-not-reproduced"
	}
	once := func() string {
		return canonPanic(guard(func() string {
			res := subBuild(sf).font.Subset(glyphs)
			return subWriteRead(res)
		}))
	}
	first := once()
	if f["gsub"] == "-" || first == "panic" {
		return first
	}
	worst := first
	for i := 1; i < subWritableRuns; i++ {
		out := once()
		if out == "panic" {
			return out
		}
		if strings.HasPrefix(out, "err:") && (!strings.HasPrefix(worst, "err:") || out < worst) {
			worst = out
		}
	}
	return worst
}

func init() {
	areas["subset"] = areaSubset
	ops["subset.run"] = subOpRun
	ops["subset.check"] = func(f Fields) string { return "ok" }
	ops["subset.writable"] = subOpWritable
	ops["subset.cffrun"] = subOpCffRun
	ops["subset.encrt"] = subOpEncRT
	ops["subset.again"] = subOpAgain
	ops["subset.indep"] = subOpIndep
	ops["subset.indepcff"] = subOpIndepCff
	ops["subset.mustwrite"] = subOpWritable // D replay op: the property claims every subset can be written
}

// ---------------------------------------------------------------------------------------------
// generator

func subPerm(r *Rng, n int) []int {
	p := make([]int, n)
	for i := range p {
		p[i] = i
	}
	for i := n - 1; i > 0; i-- {
		j := r.Intn(i + 1)
		p[i], p[j] = p[j], p[i]
	}
	return p
}

var subCmapKeys = []subCmap{
	{p: 0, e: 3, l: 0, f: 4},
	{p: 3, e: 1, l: 0, f: 4},
	{p: 3, e: 10, l: 0, f: 12},
	{p: 0, e: 4, l: 0, f: 12},
	// Macintosh platform: cmap.Table.Get translates the codes through Mac Roman; the case line
	// gives the codes as Get reports them (Unicode), the table stores the Mac Roman bytes.
	{p: 1, e: 0, l: 0, f: 4},
}

// subGenComposites draws an acyclic composite structure; it returns the definitions (sorted by
// glyph id) and the maximal nesting depth.
func subGenComposites(r *Rng, n int) ([]subCompDef, int) {
	if r.Chance(1, 5) {
		return nil, 0
	}
	frac := r.Intn(41)
	want := n * frac / 100
	if want == 0 && n >= 3 && r.Bool() {
		want = 1
	}
	if want == 0 {
		return nil, 0
	}
	maxDepth := r.Range(1, 4)
	topo := subPerm(r, n) // a composite may use only glyphs earlier in topo
	pos := make([]int, n)
	for i, g := range topo {
		pos[g] = i
	}
	// choose which glyphs are composite: never the first in topological order
	cand := subPerm(r, n)
	isComp := make([]bool, n)
	cnt := 0
	for _, g := range cand {
		if cnt >= want {
			break
		}
		if pos[g] == 0 {
			continue
		}
		isComp[g] = true
		cnt++
	}
	depth := make([]int, n)
	var pool []int // shared components
	defs := map[int][]int{}
	deepest := 0
	for _, g := range topo {
		if !isComp[g] {
			continue
		}
		var avail []int
		for _, h := range topo[:pos[g]] {
			if depth[h] < maxDepth {
				avail = append(avail, h)
			}
		}
		if len(avail) == 0 {
			isComp[g] = false
			continue
		}
		k := r.Range(1, 4)
		var cs []int
		for len(cs) < k {
			var c int
			switch {
			case len(cs) > 0 && r.Chance(1, 8):
				c = cs[r.Intn(len(cs))] // repeated component
			case len(pool) > 0 && r.Chance(1, 2):
				c = Pick(r, pool)
				if pos[c] >= pos[g] || depth[c] >= maxDepth {
					c = Pick(r, avail)
				}
			case r.Chance(1, 2):
				// prefer deep components, so that nesting really happens
				c = Pick(r, avail)
				for t := 0; t < 3; t++ {
					if d := Pick(r, avail); depth[d] > depth[c] {
						c = d
					}
				}
			default:
				c = Pick(r, avail)
			}
			cs = append(cs, c)
			if r.Chance(1, 3) {
				pool = append(pool, c)
			}
		}
		d := 0
		for _, c := range cs {
			if depth[c]+1 > d {
				d = depth[c] + 1
			}
		}
		depth[g] = d
		if d > deepest {
			deepest = d
		}
		defs[g] = cs
	}
	var out []subCompDef
	for g := 0; g < n; g++ {
		if cs, ok := defs[g]; ok {
			out = append(out, subCompDef{g: g, cs: cs})
		}
	}
	return out, deepest
}

func subGenCmaps(r *Rng, sf *subFont) {
	if r.Chance(1, 20) {
		sf.cmapNil = true
		return
	}
	k := r.Intn(4)
	if r.Chance(1, 8) {
		k = 4
	}
	idx := subPerm(r, len(subCmapKeys))[:k]
	sort.Ints(idx)
	for _, i := range idx {
		m := subCmapKeys[i]
		cnt := r.Intn(31)
		if r.Chance(1, 6) {
			cnt = 0
		}
		if sf.n < 2 {
			cnt = 0
		}
		seen := map[int]bool{}
		base := 0x20 + r.Intn(0x60)
		for len(m.ents) < cnt {
			var code int
			if m.p == 1 {
				// any Mac Roman byte, as the Unicode character it stands for
				code = int(mac.DecodeOne(byte(r.Range(0x20, 0xFF))))
				if seen[code] {
					continue
				}
				seen[code] = true
				m.ents = append(m.ents, [2]int{code, r.Range(1, sf.n-1)})
				continue
			}
			switch r.Intn(4) {
			case 0:
				code = base + r.Intn(40) // dense cluster
			case 1:
				code = r.Intn(0x100)
			default:
				if m.f == 12 {
					code = r.Intn(0x20000)
				} else {
					code = r.Intn(0xFFFF)
				}
			}
			if seen[code] {
				continue
			}
			seen[code] = true
			m.ents = append(m.ents, [2]int{code, r.Range(1, sf.n-1)})
		}
		sort.Slice(m.ents, func(a, b int) bool { return m.ents[a][0] < m.ents[b][0] })
		sf.cmaps = append(sf.cmaps, m)
	}
}

// subGenGsub draws a GSUB table whose rule inputs come from `inputs` and whose outputs are < n.
func subGenGsub(r *Rng, n int, inputs []int) *subLayout {
	l := &subLayout{}
	nl := r.Intn(5)
	var chain []int // outputs of earlier rules which may be used as inputs
	allowed := map[int]bool{}
	for _, g := range inputs {
		allowed[g] = true
	}
	pickIn := func() int {
		if len(chain) > 0 && r.Chance(1, 2) {
			return Pick(r, chain)
		}
		return Pick(r, inputs)
	}
	addOut := func(g int) {
		if allowed[g] {
			chain = append(chain, g)
		}
	}
	pickOut := func() int {
		// outputs that are legal inputs make chains possible
		if r.Chance(1, 2) && len(inputs) > 0 {
			return Pick(r, inputs)
		}
		return r.Intn(n)
	}
	for i := 0; i < nl; i++ {
		var lk []subSt
		typ := byte('s')
		if r.Bool() {
			typ = 'l'
		}
		ns := r.Range(1, 2)
		if len(inputs) == 0 {
			ns = 0
		}
		for j := 0; j < ns; j++ {
			st := subSt{typ: typ}
			if typ == 's' {
				k := r.Range(1, 5)
				if r.Chance(3, 4) {
					k = r.Range(2, 5) // several covered glyphs: coverage indices of the subset matter
				}
				seen := map[int]bool{}
				lo, hi := n, -1
				for t := 0; t < k; t++ {
					g := pickIn()
					if seen[g] {
						continue
					}
					seen[g] = true
					st.cov = append(st.cov, g)
					if g < lo {
						lo = g
					}
					if g > hi {
						hi = g
					}
				}
				sort.Ints(st.cov)
				d := r.Range(-lo, n-1-hi) // every gid+d stays inside 0..n-1
				for _, g := range st.cov {
					addOut(g + d)
				}
				st.delta = (d + 65536) % 65536
			} else {
				k := r.Range(1, 3)
				if r.Bool() {
					k = r.Range(2, 4)
				}
				seen := map[int]bool{}
				for t := 0; t < k; t++ {
					first := pickIn()
					if seen[first] {
						continue
					}
					seen[first] = true
					e := subLigEntry{first: first}
					nlig := r.Range(1, 3)
					for q := 0; q < nlig; q++ {
						lg := subLig{out: pickOut()}
						for m := r.Intn(4); m > 0; m-- {
							lg.in = append(lg.in, pickIn())
						}
						addOut(lg.out)
						e.ligs = append(e.ligs, lg)
					}
					st.ents = append(st.ents, e)
				}
				// coverage indices must increase with the glyph id (valid coverage table)
				sort.Slice(st.ents, func(a, b int) bool { return st.ents[a].first < st.ents[b].first })
			}
			lk = append(lk, st)
		}
		l.lookups = append(l.lookups, lk)
	}
	nf := r.Intn(4)
	for i := 0; i < nf; i++ {
		var f []int
		if nl > 0 {
			for m := r.Intn(4); m > 0; m-- {
				f = append(f, r.Intn(nl))
			}
		}
		l.feats = append(l.feats, f)
	}
	return l
}

func subGenGpos(r *Rng, n int) *subLayout {
	l := &subLayout{}
	nl := r.Intn(3)
	for i := 0; i < nl; i++ {
		st := subSt{typ: 'p'}
		k := r.Intn(9)
		seen := map[[2]int]bool{}
		for t := 0; t < k; t++ {
			p := [2]int{r.Intn(n), r.Intn(n)}
			if seen[p] {
				continue
			}
			seen[p] = true
			st.pairs = append(st.pairs, [3]int{p[0], p[1], r.Range(1, 30000)})
		}
		l.lookups = append(l.lookups, []subSt{st})
	}
	nf := r.Intn(3)
	for i := 0; i < nf; i++ {
		var f []int
		if nl > 0 {
			for m := r.Intn(3); m > 0; m-- {
				f = append(f, r.Intn(nl))
			}
		}
		l.feats = append(l.feats, f)
	}
	return l
}

// subGenFont draws an abstract font; depth is the composite nesting depth, gsubFree tells that
// the GSUB inputs were NOT restricted to non-component glyphs.
func subGenFont(c *Ctx) (sf *subFont, depth int, gsubFree bool) {
	r := c.Rng
	sf = &subFont{encNil: true, cidNil: true}
	switch x := r.Intn(4); {
	case x < 2:
		sf.kind = "ttf"
	case x == 2:
		sf.kind = "cff"
	default:
		sf.kind = "cid"
	}
	switch {
	case c.Tier == "thorough" && r.Chance(1, 15):
		sf.n = r.Range(41, 300)
	case r.Chance(1, 8):
		sf.n = r.Range(2, 5)
	default:
		sf.n = r.Range(2, 40)
	}
	n := sf.n
	// widths: a few distinct values, repeats likely
	wvals := []int{0, 250, 500, 600, 1000, r.Intn(2001), r.Intn(2001), r.Intn(2001)}
	for i := 0; i < n; i++ {
		if r.Bool() {
			sf.w = append(sf.w, Pick(r, wvals))
		} else {
			sf.w = append(sf.w, r.Intn(2001))
		}
	}
	// names
	if sf.kind == "ttf" && r.Chance(1, 5) {
		sf.nmNil = true
	} else {
		top := n + 5
		if r.Chance(1, 3) {
			top = n/2 + 1 // many repeats
		}
		for i := 0; i < n; i++ {
			switch {
			case sf.kind != "ttf" && i == 0:
				sf.nm = append(sf.nm, 0)
			case sf.kind != "ttf":
				sf.nm = append(sf.nm, r.Range(1, top))
			default:
				sf.nm = append(sf.nm, r.Intn(top+1))
			}
		}
	}
	isComponent := make([]bool, n)
	switch sf.kind {
	case "ttf":
		sf.comps, depth = subGenComposites(r, n)
		for _, cd := range sf.comps {
			for _, x := range cd.cs {
				isComponent[x] = true
			}
		}
	case "cff":
		sf.np = 1
		sf.fd = make([]int, n)
		if !r.Chance(3, 10) {
			sf.encNil = false
			lim := n - 1
			if lim > 60 {
				lim = 60
			}
			m := r.Range(1, lim)
			codes := subPerm(r, 256)[:m]
			if r.Bool() {
				// an increasing run of codes (compact encoding) in half of the cases
				start := r.Intn(256 - m + 1)
				for i := range codes {
					codes[i] = start + i
				}
			}
			used := map[int]bool{}
			for g := 1; g <= m; g++ {
				sf.enc = append(sf.enc, [2]int{codes[g-1], g})
				used[codes[g-1]] = true
			}
			// several codes for one glyph (space at 0x20 and 0xA0, ...): the writer stores the
			// additional codes as supplemental encoding entries
			if r.Chance(1, 2) {
				for extra := r.Range(1, 4); extra > 0; extra-- {
					code := r.Intn(256)
					if used[code] {
						continue
					}
					used[code] = true
					sf.enc = append(sf.enc, [2]int{code, r.Range(1, m)})
				}
			}
			sort.Slice(sf.enc, func(a, b int) bool { return sf.enc[a][0] < sf.enc[b][0] })
			// A simple CFF font with a built-in encoding needs distinct glyph names:
			// supplemental encoding entries refer to glyphs by name (SID), and the reader
			// rejects a supplement whose name resolves to a glyph without a primary code.
			distinct := subPerm(r, n+5)
			for i := 1; i < n; i++ {
				sf.nm[i] = distinct[i] + 1
			}
		}
	case "cid":
		sf.np = r.Range(1, 5)
		sf.fd = make([]int, n)
		for i := range sf.fd {
			sf.fd[i] = r.Intn(sf.np)
		}
		if n >= sf.np {
			// every private dict is used at least once
			at := subPerm(r, n)
			for j := 0; j < sf.np; j++ {
				sf.fd[at[j]] = j
			}
		}
		if sf.np >= 2 && r.Chance(2, 5) {
			// font dictionaries that share one private dictionary (same pointer at 2-3 FD indices)
			// but have their own font matrix
			sf.pv = make([]int, sf.np)
			for j := range sf.pv {
				sf.pv[j] = j
			}
			a := r.Intn(sf.np)
			for k := r.Range(1, 2); k > 0; k-- {
				b := r.Intn(sf.np)
				sf.pv[b] = sf.pv[a]
			}
		}
		if !r.Chance(1, 10) {
			sf.cidNil = false
			sf.cid = make([]int, n)
			distinct := r.Bool()
			seen := map[int]bool{0: true}
			for i := 1; i < n; i++ {
				x := r.Intn(65536)
				if r.Chance(1, 3) {
					x = r.Intn(2 * n)
				}
				for distinct && seen[x] {
					x = r.Intn(65536)
				}
				seen[x] = true
				sf.cid[i] = x
			}
		}
	}
	subGenCmaps(r, sf)
	if r.Bool() {
		var inputs []int
		gsubFree = sf.kind == "ttf" && len(sf.comps) > 0 && r.Chance(1, 2)
		for g := 0; g < n; g++ {
			if gsubFree || !isComponent[g] {
				inputs = append(inputs, g)
			}
		}
		sf.gsub = subGenGsub(r, n, inputs)
	}
	if r.Bool() {
		sf.gpos = subGenGpos(r, n)
	}
	return sf, depth, gsubFree
}

func subGenList(c *Ctx, sf *subFont) []int {
	r, n := c.Rng, sf.n
	switch x := r.Intn(100); {
	case x < 10: // all glyphs
		p := subPerm(r, n-1)
		l := []int{0}
		for _, g := range p {
			l = append(l, g+1)
		}
		return l
	case x < 15:
		return []int{0}
	}
	maxLen := 30
	if c.Tier == "thorough" {
		maxLen = 100
	}
	if n < maxLen {
		maxLen = n
	}
	k := r.Range(2, maxLen) // n >= 2
	p := subPerm(r, n-1)
	for i := range p {
		p[i]++
	}
	if r.Bool() {
		// Prefer glyphs which pull further glyphs into the subset (composites, inputs of GSUB
		// rules) and keep the list short, so that their components/outputs are often missing.
		hot := map[int]bool{}
		for _, cd := range sf.comps {
			hot[cd.g] = true
		}
		ins, _ := subGsubRules(sf.gsub)
		for _, rule := range ins {
			for _, g := range rule {
				hot[g] = true
			}
		}
		sort.SliceStable(p, func(a, b int) bool { return hot[p[a]] && !hot[p[b]] })
		if k > n/2+1 {
			k = r.Range(2, n/2+1)
		}
	}
	l := append([]int{0}, p[:k-1]...)
	// random order of the requested glyphs (0 stays first)
	for i := len(l) - 1; i > 1; i-- {
		j := 1 + r.Intn(i)
		l[i], l[j] = l[j], l[i]
	}
	return l
}

// subGsubInputs returns the input glyphs of every GSUB rule and its output.
func subGsubRules(l *subLayout) (ins [][]int, outs []int) {
	if l == nil {
		return
	}
	for _, lk := range l.lookups {
		for _, st := range lk {
			switch st.typ {
			case 's':
				for _, g := range st.cov {
					ins = append(ins, []int{g})
					outs = append(outs, (g+st.delta)%65536)
				}
			case 'l':
				for _, e := range st.ents {
					for _, lg := range e.ligs {
						ins = append(ins, append([]int{e.first}, lg.in...))
						outs = append(outs, lg.out)
					}
				}
			}
		}
	}
	return
}

// subOutsideDomain: some GSUB rule has an input glyph which is in the subset only because it
// is a component of a composite glyph (not requested and not produced by the GSUB closure).
func subOutsideDomain(sf *subFont, list []int, order string) bool {
	if sf.kind != "ttf" || sf.gsub == nil || order == "-" {
		return false
	}
	ins, outs := subGsubRules(sf.gsub)
	in := map[int]bool{}
	for _, g := range list {
		in[g] = true
	}
	for changed := true; changed; {
		changed = false
		for i, rule := range ins {
			all := true
			for _, g := range rule {
				all = all && in[g]
			}
			if all && !in[outs[i]] {
				in[outs[i]] = true
				changed = true
			}
		}
	}
	compOnly := map[int]bool{}
	for _, s := range subSplit(order, ",") {
		if g, err := strconv.Atoi(s); err == nil && !in[g] {
			compOnly[g] = true
		}
	}
	for _, rule := range ins {
		for _, g := range rule {
			if compOnly[g] {
				return true
			}
		}
	}
	return false
}

func subClass(out string) string {
	switch {
	case strings.HasPrefix(out, "G@"):
		return "R"
	case strings.HasPrefix(out, "E@"):
		return "E"
	case strings.HasPrefix(out, "ok:"):
		return "ok"
	case strings.HasPrefix(out, "err:write:"), strings.HasPrefix(out, "err:read:"):
		return out
	case strings.HasPrefix(out, "render-panic"):
		return "render-panic"
	}
	return out
}

// subSampleOrders runs Subset k times on the font without its cmap table (the cmaps do not
// influence the glyph order, and re-encoding them dominates the running time) and returns the
// histogram of the observed outcomes (glyph order, or "-" for a panic).
func subSampleOrders(sf *subFont, list []int, k int) map[string]int {
	light := *sf
	light.cmapNil, light.cmaps = true, nil
	glyphs := make([]glyph.ID, len(list))
	for i, g := range list {
		glyphs[i] = glyph.ID(g)
	}
	hist := map[string]int{}
	for i := 0; i < k; i++ {
		st, order, _ := subRunFont(&light, glyphs)
		if st != "" {
			order = "-"
		}
		hist[order]++
	}
	return hist
}

const (
	subOrderSamples = 40
	subOrderMaxKind = 12 // more distinct orders than this among the samples: simplify the case
)

// subPickOrder runs the real Subset once on the full font and returns the observed order and
// result.  If that order is a rare one (seen at most once among the samples), the run is
// repeated a few times: the handler must be able to find the order again by re-running.
func subPickOrder(sf *subFont, list []int, hist map[string]int) (status, order, R string) {
	glyphs := make([]glyph.ID, len(list))
	for i, g := range list {
		glyphs[i] = glyph.ID(g)
	}
	for try := 0; ; try++ {
		status, order, R = subRunFont(sf, glyphs)
		if status != "" || hist[order] >= 2 || try >= 8 {
			return
		}
	}
}

// subGenEncFamily draws a simple CFF font with a built-in encoding in which a requested glyph
// carries two codes that interleave with the codes of other retained glyphs, and a GSUB 1.1
// subtable that appends two extras — one encoded, one not — in map-iteration order, so that
// whether the subset's encoding can be written depends on the order; the multiply-encoded glyph
// is requested first or last.
func subGenEncFamily(r *Rng) (*subFont, []int) {
	n := r.Range(9, 14)
	m := n - 3 // glyphs 1..m carry codes, m+1..n-1 do not
	sf := &subFont{kind: "cff", n: n, np: 1, cmapNil: r.Bool(), cidNil: true}
	names := subPerm(r, n+5)
	for i := 0; i < n; i++ {
		sf.w = append(sf.w, r.Intn(2001))
		sf.fd = append(sf.fd, 0)
		if i == 0 {
			sf.nm = append(sf.nm, 0)
		} else {
			sf.nm = append(sf.nm, names[i]+1)
		}
	}
	base := r.Range(32, 120)
	for g := 1; g <= m; g++ {
		sf.enc = append(sf.enc, [2]int{base + 2*g, g})
	}
	// requested: a (two codes), x and x2 = m; extras: y = x+d (encoded), z = m+d (not encoded)
	d := r.Range(1, 2)
	x := r.Range(1, m-d-2)
	y := x + d
	a := x + d + 1 // distinct from x, y; a < m
	if a >= m {
		a = m - 1
	}
	if a == y {
		a = y + 1
	}
	b := r.Range(1, m) // the second code of a sits between the codes of b and b+1
	sf.enc = append(sf.enc, [2]int{base + 2*b + 1, a})
	if r.Bool() {
		sf.enc = append(sf.enc, [2]int{base - 1 - r.Intn(20), a})
	}
	sort.Slice(sf.enc, func(i, j int) bool { return sf.enc[i][0] < sf.enc[j][0] })
	sf.gsub = &subLayout{
		feats:   [][]int{{0}},
		lookups: [][]subSt{{{typ: 's', delta: d, cov: []int{x, m}}}},
	}
	rest := []int{x, m}
	if r.Bool() {
		rest[0], rest[1] = rest[1], rest[0]
	}
	list := []int{0}
	if a == x || a == m || a == y {
		list = append(list, rest...)
	} else if r.Bool() {
		list = append(append(list, a), rest...)
	} else {
		list = append(append(list, rest...), a)
	}
	return sf, list
}

func areaSubset(c *Ctx) {
	r := c.Rng
	for i := 0; i < c.N; i++ {
		sf, depth, gsubFree := subGenFont(c)
		list := subGenList(c, sf)
		if i%16 == 4 {
			// family: multiply-encoded retained glyph + extras whose order decides writability
			sf, list = subGenEncFamily(r)
			depth, gsubFree = 0, false
			c.Stat("family", "enc-multi-code+order-dependent-extras")
		}
		fontArgs := subFontArgs(sf)

		// Map iteration makes the order of the appended glyphs random.  The handler has to
		// reproduce the order recorded in the case line by re-running: keep the number of possible
		// orders small by dropping requested composites while too many orders are observed.
		shrunk := 0
		hist := subSampleOrders(sf, list, subOrderSamples)
		for len(hist) > subOrderMaxKind && len(list) > 1 {
			// drop a requested composite (or, failing that, any glyph) from the list
			at := -1
			isC := map[int]bool{}
			for _, cd := range sf.comps {
				isC[cd.g] = true
			}
			for _, j := range subPerm(r, len(list)-1) {
				if isC[list[j+1]] {
					at = j + 1
					break
				}
			}
			if at < 0 {
				at = 1 + r.Intn(len(list)-1)
			}
			list = append(list[:at:at], list[at+1:]...)
			hist = subSampleOrders(sf, list, subOrderSamples)
			shrunk++
		}
		c.Stat("list_shrunk_for_order", bucket(shrunk))
		c.Stat("distinct_orders_in_40_runs", bucket(len(hist)))

		// the pre-run uses the font as the handlers will see it (parsed from the case line)
		sfLine := subParseFont(parseFields(fontArgs))
		status, order, R := subPickOrder(sfLine, list, hist)
		if status != "" {
			order = "-"
		}
		glyphsArg := " glyphs=" + subJoin(list, ",")

		outside := subOutsideDomain(sf, list, order)
		nontrivial := len(list) >= 2 && sf.n >= 3

		out := c.Case(Verdict, "subset.run", fontArgs+glyphsArg+" order="+order, nontrivial)
		c.Stat("run_outcome", subClass(out))
		c.Stat("run_tries", bucket(subTries))
		if status == "" {
			// outside the stated domain the property check is recorded but never alarms
			// (GSUB rules over glyphs that enter only as composite components were outside the
			// domain before the joint closure of GSUB outputs and components; they are inside now)
			kind := Direct
			_ = outside
			res := c.Case(kind, "subset.check", fontArgs+glyphsArg+" res="+R, nontrivial)
			c.Stat("check_outcome", kind+":"+res)
		}
		// Subset twice on the same font value: the second result must be that of a fresh font
		if status == "" && (len(sf.comps) > 0 || i%8 == 3) {
			g2 := make([]glyph.ID, len(list))
			for q, g := range list {
				g2[q] = glyph.ID(g)
			}
			firsts := [][]int{list}
			// a different first list: .notdef and all composites (in a random order), so that every
			// composite has been through FixComponents under another numbering
			other := []int{0}
			for _, q := range subPerm(r, len(sf.comps)) {
				if sf.comps[q].g != 0 {
					other = append(other, sf.comps[q].g)
				}
			}
			if len(other) > 1 {
				firsts = append(firsts, other)
			}
			for _, fl := range firsts {
				f1 := make([]glyph.ID, len(fl))
				for q, g := range fl {
					f1[q] = glyph.ID(g)
				}
				var st2, ord2 string
				for try := 0; try < 8; try++ {
					st2, ord2, _ = subRunFontAgain(sfLine, f1, g2)
					if st2 != "" || hist[ord2] >= 1 {
						break
					}
				}
				if st2 != "" {
					ord2 = "-"
				}
				ag := c.Case(Direct, "subset.again", fontArgs+" first="+subJoin(fl, ",")+glyphsArg+" order="+ord2, nontrivial)
				c.Stat("again_outcome", subClass(ag))
			}
		}
		// the subset must not share memory with the caller's glyph slice
		if sf.kind != "ttf" && status == "" {
			in1 := c.Case(Direct, "subset.indep", fontArgs+glyphsArg+" order="+order, nontrivial)
			c.Stat("indep_outcome", subClass(in1))
			in2 := c.Case(Direct, "subset.indepcff", fontArgs+glyphsArg, nontrivial)
			c.Stat("indepcff_outcome", subClass(in2))
		}
		if sf.kind == "cff" && !sf.encNil && status == "" {
			er := c.Case(Direct, "subset.encrt", fontArgs+glyphsArg+" order="+order, nontrivial)
			c.Stat("encrt_outcome", subClass(er))
		}
		if sf.kind != "ttf" && i%2 == 0 {
			cr := c.Case(Verdict, "subset.cffrun", fontArgs+glyphsArg, nontrivial)
			c.Stat("cffrun_outcome", subClass(cr))
		}
		// (a CID-keyed font without GIDToCID cannot be written: cff.Write panics in encodeCharset)
		if i%4 == 0 && !(sf.kind == "cid" && sf.cidNil) {
			wr := c.Case(Verdict, "subset.writable", fontArgs+glyphsArg+" order="+order, true)
			c.Stat("writable_outcome", subClass(wr))
			if sf.kind == "cff" && !sf.encNil {
				c.Stat("writable_cff_enc", subClass(wr))
			}
			// the original font itself must be writable
			orig := canonPanic(guard(func() string { return subWriteRead(subBuild(sf).font) }))
			c.Stat("orig_writable", sf.kind+":"+subClass(orig))
		}

		// distribution
		c.Stat("kind", sf.kind)
		c.Stat("N", bucket(sf.n))
		c.Stat("list_len", bucket(len(list)))
		switch {
		case len(list) == sf.n:
			c.Stat("list_shape", "all")
		case len(list) == 1:
			c.Stat("list_shape", "only-notdef")
		default:
			c.Stat("list_shape", "proper")
		}
		if status == "" {
			extras := len(subSplit(order, ",")) - len(list)
			c.Stat("extras", bucket(extras))
			if strings.Contains(R, "?") {
				c.Stat("unidentified", "yes")
			}
		}
		if sf.kind == "ttf" {
			c.Stat("composites", bucket(len(sf.comps)))
			c.Stat("composite_depth", strconv.Itoa(depth))
			if sf.nmNil {
				c.Stat("ttf_names", "nil")
			} else {
				c.Stat("ttf_names", "present")
			}
		}
		if sf.cmapNil {
			c.Stat("cmap_subtables", "nil")
		} else {
			c.Stat("cmap_subtables", strconv.Itoa(len(sf.cmaps)))
			for _, m := range sf.cmaps {
				c.Stat("cmap_format", fmt.Sprintf("%d.%d.%d:f%d", m.p, m.e, m.l, m.f))
				c.Stat("cmap_entries", bucket(len(m.ents)))
			}
		}
		c.Stat("np", strconv.Itoa(sf.np))
		if sf.kind == "cff" {
			if sf.encNil {
				c.Stat("enc", "nil")
			} else {
				c.Stat("enc", "non-nil")
			}
		}
		if sf.kind == "cid" {
			if sf.cidNil {
				c.Stat("gid2cid", "nil")
			} else {
				c.Stat("gid2cid", "present")
			}
		}
		for name, l := range map[string]*subLayout{"gsub": sf.gsub, "gpos": sf.gpos} {
			if l == nil {
				c.Stat(name, "nil")
				continue
			}
			c.Stat(name, "present")
			c.Stat(name+"_lookups", strconv.Itoa(len(l.lookups)))
			c.Stat(name+"_features", strconv.Itoa(len(l.feats)))
			for _, lk := range l.lookups {
				for _, st := range lk {
					c.Stat(name+"_subtable", string(st.typ))
				}
				if len(lk) == 0 {
					c.Stat(name+"_subtable", "none")
				}
			}
		}
		if sf.kind == "ttf" && sf.gsub != nil {
			switch {
			case outside:
				c.Stat("domain", "inside(rule-over-components: second round needed)")
			case gsubFree:
				c.Stat("domain", "inside(unrestricted-gsub)")
			default:
				c.Stat("domain", "inside")
			}
		} else {
			c.Stat("domain", "inside")
		}
		c.Stat("line_bytes", bucket(len(fontArgs)+len(glyphsArg)+len(order)))
	}

	// malformed stream: outside the documented domain of Subset (verdict only)
	for i := 0; i < c.N/20+3; i++ {
		sf, _, _ := subGenFont(c)
		list := subGenList(c, sf)
		what := ""
		switch i % 4 {
		case 0:
			what = "list-not-starting-with-0"
			if len(list) > 1 && r.Bool() {
				j := 1 + r.Intn(len(list)-1)
				list[0], list[j] = list[j], list[0]
			} else {
				list = list[1:]
				if len(list) == 0 {
					list = []int{r.Range(1, sf.n-1)}
				}
			}
		case 1:
			what = "duplicate-entries"
			for k := r.Range(1, 3); k > 0; k-- {
				at := 1 + r.Intn(len(list))
				g := list[r.Intn(len(list))]
				list = append(list[:at:at], append([]int{g}, list[at:]...)...)
			}
		case 2:
			what = "gid-out-of-range"
			at := 1 + r.Intn(len(list))
			g := sf.n + r.Intn(3)
			if r.Chance(1, 4) {
				g = 65535
			}
			list = append(list[:at:at], append([]int{g}, list[at:]...)...)
		case 3:
			what = "component-out-of-range"
			sf.kind, sf.np, sf.fd, sf.encNil, sf.cidNil = "ttf", 0, nil, true, true
			sf.enc, sf.cid = nil, nil
			bad := sf.n + r.Intn(3)
			if len(sf.comps) > 0 && r.Bool() {
				cd := &sf.comps[r.Intn(len(sf.comps))]
				cd.cs[r.Intn(len(cd.cs))] = bad
			} else {
				g := r.Intn(sf.n)
				found := false
				for k := range sf.comps {
					if sf.comps[k].g == g {
						sf.comps[k].cs = append(sf.comps[k].cs, bad)
						found = true
					}
				}
				if !found {
					sf.comps = append(sf.comps, subCompDef{g: g, cs: []int{bad}})
					sort.Slice(sf.comps, func(a, b int) bool { return sf.comps[a].g < sf.comps[b].g })
				}
			}
		}
		fontArgs := subFontArgs(sf)
		hist := subSampleOrders(sf, list, subOrderSamples)
		if len(hist) > subOrderMaxKind {
			c.Stat("malformed", what+":dropped(too-many-orders)")
			continue
		}
		status, order, _ := subPickOrder(subParseFont(parseFields(fontArgs)), list, hist)
		if status != "" {
			order = "-"
		}
		out := c.Case(Verdict, "subset.run", fontArgs+" glyphs="+subJoin(list, ",")+" order="+order, false)
		c.Stat("malformed", what+":"+subClass(out))
	}
}
