module seehuhn.de/go/sfnt/verifharness

go 1.23.2

require seehuhn.de/go/sfnt v0.0.0

replace seehuhn.de/go/sfnt => /repo
