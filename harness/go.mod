module seehuhn.de/go/sfnt/verifharness

go 1.23.2

require (
	golang.org/x/image v0.18.0
	golang.org/x/text v0.16.0
	seehuhn.de/go/geom v0.0.0-20250115091222-3cab61c7096a
	seehuhn.de/go/postscript v0.5.1-0.20250316102127-8863e3a3d4c4
	seehuhn.de/go/sfnt v0.0.0
)

require (
	golang.org/x/exp v0.0.0-20240409090435-93d18d7e34b8 // indirect
	seehuhn.de/go/dijkstra v0.9.3 // indirect
)

replace seehuhn.de/go/sfnt => /repo
