package main

// Area `total`, group `otl` (property C02): verdict streams of the checked-index Lean models of
// coverage.Read, coverage.ReadSet and classdef.Read.
//
// V lines `tmotl.<fn> bytes=<hex> pos=<n>` run the real reader on parser.New(bytes) at position
// pos and print the outcome class (err:io | err:invalid | err:unsupported | panic) or "ok:" and
// the decoded map in a run-compressed canonical form:
//   coverage  s-e:i   maximal runs in which gid and coverage index both step by one (i = index of s)
//   covset    s-e     maximal runs of consecutive gids
//   classdef  s-e:c   maximal runs of one non-zero class (class 0 = absent)
// The generator registers itself in totalModelGens["otl"] and is called from areaTotal.

import (
	"bytes"
	"sort"
	"strconv"
	"strings"

	"seehuhn.de/go/sfnt/glyph"
	"seehuhn.de/go/sfnt/opentype/classdef"
	"seehuhn.de/go/sfnt/opentype/coverage"
	"seehuhn.de/go/sfnt/parser"
)

var totalOtlFns = []string{"coverage", "covset", "classdef"}

// totalOtlW encodes big-endian 16-bit words (values are taken modulo 65536).
func totalOtlW(ws ...int) []byte {
	b := make([]byte, 0, 2*len(ws))
	for _, w := range ws {
		b = append(b, byte(w>>8), byte(w))
	}
	return b
}

func totalOtlCat(parts ...[]byte) []byte {
	var b []byte
	for _, p := range parts {
		b = append(b, p...)
	}
	return b
}

// totalOtlF2 is the shared 16-bit layout [2, count, (a, b, c)*] of coverage format 2 and
// classdef format 2.
func totalOtlF2(count int, ranges ...[3]int) []byte {
	ws := []int{2, count}
	for _, g := range ranges {
		ws = append(ws, g[0], g[1], g[2])
	}
	return totalOtlW(ws...)
}

// totalOtlCov1 is coverage format 1 with an explicit count word.
func totalOtlCov1(count int, gids ...int) []byte {
	return totalOtlW(append([]int{1, count}, gids...)...)
}

// totalOtlCd1 is classdef format 1 with explicit start and count words.
func totalOtlCd1(start, count int, classes ...int) []byte {
	return totalOtlW(append([]int{1, start, count}, classes...)...)
}

func totalOtlShowCoverage(t coverage.Table) string {
	keys := make([]int, 0, len(t))
	for g := range t {
		keys = append(keys, int(g))
	}
	sort.Ints(keys)
	var sb strings.Builder
	for i := 0; i < len(keys); {
		j := i
		for j+1 < len(keys) && keys[j+1] == keys[j]+1 && t[glyph.ID(keys[j+1])] == t[glyph.ID(keys[j])]+1 {
			j++
		}
		if sb.Len() > 0 {
			sb.WriteByte(',')
		}
		sb.WriteString(strconv.Itoa(keys[i]))
		sb.WriteByte('-')
		sb.WriteString(strconv.Itoa(keys[j]))
		sb.WriteByte(':')
		sb.WriteString(strconv.Itoa(t[glyph.ID(keys[i])]))
		i = j + 1
	}
	return sb.String()
}

func totalOtlShowSet(s coverage.Set) string {
	keys := make([]int, 0, len(s))
	for g := range s {
		keys = append(keys, int(g))
	}
	sort.Ints(keys)
	var sb strings.Builder
	for i := 0; i < len(keys); {
		j := i
		for j+1 < len(keys) && keys[j+1] == keys[j]+1 {
			j++
		}
		if sb.Len() > 0 {
			sb.WriteByte(',')
		}
		sb.WriteString(strconv.Itoa(keys[i]))
		sb.WriteByte('-')
		sb.WriteString(strconv.Itoa(keys[j]))
		i = j + 1
	}
	return sb.String()
}

func totalOtlShowClassDef(t classdef.Table) string {
	arr := new([65536]uint16)
	for g, cl := range t {
		arr[int(g)&0xffff] = cl
	}
	var sb strings.Builder
	for i := 0; i < 65536; {
		if arr[i] == 0 {
			i++
			continue
		}
		j := i
		for j+1 < 65536 && arr[j+1] == arr[i] {
			j++
		}
		if sb.Len() > 0 {
			sb.WriteByte(',')
		}
		sb.WriteString(strconv.Itoa(i))
		sb.WriteByte('-')
		sb.WriteString(strconv.Itoa(j))
		sb.WriteByte(':')
		sb.WriteString(strconv.Itoa(int(arr[i])))
		i = j + 1
	}
	return sb.String()
}

// totalOtlClass: stat bucket of an outcome returned by c.Case.
func totalOtlClass(out string) string {
	if strings.HasPrefix(out, "ok:") {
		return "ok"
	}
	return out
}

func init() {
	ops["tmotl.coverage"] = func(f Fields) string {
		return totalCanonPanic(guard(func() string {
			b, pos := f.Hex("bytes"), f.Int("pos")
			if pos < 0 {
				return "bad-case"
			}
			p := parser.New(bytes.NewReader(b))
			t, err := coverage.Read(p, int64(pos))
			if err != nil {
				return totalErrClass(err)
			}
			return "ok:" + totalOtlShowCoverage(t)
		}))
	}
	ops["tmotl.covset"] = func(f Fields) string {
		return totalCanonPanic(guard(func() string {
			b, pos := f.Hex("bytes"), f.Int("pos")
			if pos < 0 {
				return "bad-case"
			}
			p := parser.New(bytes.NewReader(b))
			s, err := coverage.ReadSet(p, int64(pos))
			if err != nil {
				return totalErrClass(err)
			}
			return "ok:" + totalOtlShowSet(s)
		}))
	}
	ops["tmotl.classdef"] = func(f Fields) string {
		return totalCanonPanic(guard(func() string {
			b, pos := f.Hex("bytes"), f.Int("pos")
			if pos < 0 {
				return "bad-case"
			}
			p := parser.New(bytes.NewReader(b))
			t, err := classdef.Read(p, int64(pos))
			if err != nil {
				return totalErrClass(err)
			}
			return "ok:" + totalOtlShowClassDef(t)
		}))
	}
	totalModelGens["otl"] = totalOtlGen
}

// totalOtlTab is one structured table; pos marks the tables that are also read at positions
// inside, at the end of and beyond the data.
type totalOtlTab struct {
	name string
	b    []byte
	pos  bool
}

// totalOtlIncr returns n increasing gids starting near lo (gaps 1 half of the time).
func totalOtlIncr(r *Rng, n, lo, maxGap int) []int {
	out := make([]int, 0, n)
	g := lo
	for i := 0; i < n && g <= 0xffff; i++ {
		out = append(out, g)
		if r.Bool() {
			g++
		} else {
			g += r.Range(2, maxGap)
		}
	}
	return out
}

// totalOtlRanges returns n ascending ranges; idx selects the third word: 0 = running coverage
// index, 1 = random small class (0..4), 2 = class 1..3 never 0.
func totalOtlRanges(r *Rng, n, lo, idx int) [][3]int {
	out := make([][3]int, 0, n)
	s, run := lo, 0
	for i := 0; i < n; i++ {
		e := s + r.Range(0, 20)
		if r.Chance(1, 4) {
			e = s
		}
		if e > 0xffff {
			break
		}
		third := run
		switch idx {
		case 1:
			third = r.Range(0, 4)
		case 2:
			third = r.Range(1, 3)
		}
		out = append(out, [3]int{s, e, third})
		run += e - s + 1
		if r.Chance(1, 3) {
			s = e + 1
		} else {
			s = e + r.Range(2, 60)
		}
	}
	return out
}

// totalOtlRandValid builds a random table that at least one of the three readers accepts.
func totalOtlRandValid(r *Rng) ([]byte, string) {
	lo := r.Range(0, 120)
	switch r.Intn(5) {
	case 0:
		lo = 0
	case 1:
		lo = 0xffff - r.Range(0, 90)
	}
	switch r.Intn(11) {
	case 0, 1, 8, 9: // coverage format 1, strictly increasing
		g := totalOtlIncr(r, r.Range(0, 30), lo, Pick(r, []int{3, 9, 300}))
		return totalOtlCov1(len(g), g...), "valid-cov1"
	case 2, 3, 10: // coverage format 2, contiguous indices
		rr := totalOtlRanges(r, r.Range(0, 12), lo, 0)
		return totalOtlF2(len(rr), rr...), "valid-cov2"
	case 4: // classdef format 1
		n := r.Range(0, 30)
		start := lo
		if start+n > 0x10000 {
			start = 0x10000 - n
		}
		cl := make([]int, n)
		for i := range cl {
			cl[i] = Pick(r, []int{0, 1, 1, 1, 2, 2, 3, 0xffff, r.Intn(65536)})
			if i > 0 && r.Bool() {
				cl[i] = cl[i-1]
			}
		}
		return totalOtlCd1(start, n, cl...), "valid-cd1"
	case 5: // classdef format 2
		rr := totalOtlRanges(r, r.Range(0, 12), lo, r.Range(1, 2))
		return totalOtlF2(len(rr), rr...), "valid-cd2"
	case 6: // format 1 list in any order with duplicates: ReadSet only
		n := r.Range(1, 24)
		g := make([]int, n)
		for i := range g {
			g[i] = lo&0xff + r.Intn(40)
		}
		return totalOtlCov1(n, g...), "valid-set1"
	}
	// format 2 where a range may start at the previous end: ReadSet only (the running index
	// counts the repeated glyph twice)
	var rr [][3]int
	s, run := lo, 0
	for i, n := 0, r.Range(1, 10); i < n; i++ {
		e := s + r.Range(0, 12)
		if e > 0xffff {
			break
		}
		rr = append(rr, [3]int{s, e, run})
		run += e - s + 1
		if r.Bool() {
			s = e
		} else {
			s = e + r.Range(1, 30)
		}
	}
	return totalOtlF2(len(rr), rr...), "valid-set2"
}

func totalOtlStructured(r *Rng) []totalOtlTab {
	var tt []totalOtlTab
	add := func(name string, b []byte) { tt = append(tt, totalOtlTab{name, b, false}) }
	addPos := func(name string, b []byte) { tt = append(tt, totalOtlTab{name, b, true}) }
	type rg = [3]int

	// ---- valid tables, counts 0, 1, 2, many
	addPos("cov1-n0", totalOtlCov1(0))
	add("cov1-n1", totalOtlCov1(1, 7))
	addPos("cov1-n2", totalOtlCov1(2, 3, 4))
	add("cov1-n2-gap", totalOtlCov1(2, 3, 9))
	for i := 0; i < 3; i++ {
		g := totalOtlIncr(r, r.Range(5, 40), r.Range(0, 60), 9)
		add("cov1-many", totalOtlCov1(len(g), g...))
	}
	add("cov2-n0", totalOtlF2(0))
	add("cov2-n1", totalOtlF2(1, rg{3, 5, 0}))
	addPos("cov2-n2", totalOtlF2(2, rg{3, 5, 0}, rg{7, 9, 3}))
	add("cov2-n2-adjacent", totalOtlF2(2, rg{3, 5, 0}, rg{6, 9, 3}))
	for i := 0; i < 3; i++ {
		rr := totalOtlRanges(r, r.Range(5, 40), r.Range(0, 60), 0)
		add("cov2-many", totalOtlF2(len(rr), rr...))
	}
	add("cd2-n1", totalOtlF2(1, rg{3, 5, 2}))
	add("cd2-n2", totalOtlF2(2, rg{3, 5, 2}, rg{7, 9, 1}))
	add("cd2-n2-sameclass-adjacent", totalOtlF2(2, rg{3, 5, 2}, rg{6, 9, 2}))
	for i := 0; i < 3; i++ {
		rr := totalOtlRanges(r, r.Range(5, 40), r.Range(0, 60), 1)
		add("cd2-many", totalOtlF2(len(rr), rr...))
	}
	add("cd1-n0", totalOtlCd1(0, 0))
	add("cd1-n0-startmax", totalOtlCd1(0xffff, 0))
	add("cd1-n1", totalOtlCd1(5, 1, 3))
	addPos("cd1-n2", totalOtlCd1(5, 2, 3, 1))
	for i := 0; i < 3; i++ {
		n := r.Range(5, 40)
		cl := make([]int, n)
		for j := range cl {
			cl[j] = r.Range(0, 4)
			if j > 0 && r.Bool() {
				cl[j] = cl[j-1]
			}
		}
		add("cd1-many", totalOtlCd1(r.Range(0, 300), n, cl...))
	}
	// classdef format 1 with small start words is also a readable coverage format 1
	add("cd1-as-cov1", totalOtlCd1(3, 4, 6, 9, 9, 2))
	add("cd1-as-cov1-incr", totalOtlCd1(3, 4, 6, 9))

	// ---- count word against the data
	add("cov1-count+1", totalOtlCov1(4, 3, 5, 8))
	add("cov1-count-max", totalOtlCov1(0xffff, 3, 5, 8))
	add("cov1-count-less", totalOtlCov1(2, 3, 5, 8, 11))
	add("cov1-count-less-badtail", totalOtlCov1(2, 3, 5, 4, 1))
	add("cov2-count+1", totalOtlF2(3, rg{3, 5, 0}, rg{7, 9, 3}))
	add("cov2-count-max", totalOtlF2(0xffff, rg{3, 5, 0}, rg{7, 9, 3}))
	add("cov2-count-less", totalOtlF2(1, rg{3, 5, 0}, rg{7, 9, 3}))
	add("cov2-count-less-badtail", totalOtlF2(1, rg{3, 5, 0}, rg{2, 1, 9}))
	add("cov2-partial-range", totalOtlCat(totalOtlF2(2, rg{3, 5, 0}), totalOtlW(7, 9)))
	add("cd1-count+1", totalOtlCd1(5, 4, 1, 2, 3))
	add("cd1-count-less", totalOtlCd1(5, 2, 1, 2, 3, 4))
	add("cd1-count-max-nodata", totalOtlCd1(0, 0xffff))
	add("cd1-count-max-start1-nodata", totalOtlCd1(1, 0xffff))
	add("cd1-count-max-start2-nodata", totalOtlCd1(2, 0xffff))
	add("cd1-count-max-somedata", totalOtlCd1(0, 0xffff, 1, 1, 2))

	// ---- format 1 lists
	add("cov1-descending", totalOtlCov1(4, 9, 7, 5, 3))
	add("cov1-duplicate", totalOtlCov1(4, 3, 5, 5, 8))
	add("cov1-duplicate-first", totalOtlCov1(3, 3, 3, 8))
	add("cov1-duplicate-last", totalOtlCov1(3, 3, 8, 8))
	add("cov1-out-of-order", totalOtlCov1(6, 2, 4, 6, 5, 8, 10))
	add("cov1-0-max", totalOtlCov1(2, 0, 0xffff))
	add("cov1-max-0", totalOtlCov1(2, 0xffff, 0))
	add("cov1-0", totalOtlCov1(1, 0))
	add("cov1-0-0", totalOtlCov1(2, 0, 0))
	add("cov1-max", totalOtlCov1(1, 0xffff))
	add("cov1-max-max", totalOtlCov1(2, 0xffff, 0xffff))
	add("cov1-0-1-2", totalOtlCov1(3, 0, 1, 2))
	add("cov1-top3", totalOtlCov1(3, 0xfffd, 0xfffe, 0xffff))

	// ---- format 2 ranges
	add("f2-descending", totalOtlF2(2, rg{10, 12, 0}, rg{3, 5, 3}))
	add("f2-start-eq-prev-end", totalOtlF2(2, rg{3, 5, 0}, rg{5, 8, 3}))
	add("f2-start-eq-prev-end-then", totalOtlF2(3, rg{3, 5, 0}, rg{5, 8, 3}, rg{10, 11, 7}))
	add("f2-start-eq-prev-end-then-dedupidx", totalOtlF2(3, rg{3, 5, 0}, rg{5, 8, 3}, rg{10, 11, 6}))
	add("f2-single-twice", totalOtlF2(2, rg{4, 4, 0}, rg{4, 4, 1}))
	add("f2-overlap", totalOtlF2(2, rg{3, 8, 0}, rg{6, 10, 6}))
	add("f2-contained", totalOtlF2(2, rg{3, 20, 0}, rg{6, 10, 18}))
	add("f2-idx+1", totalOtlF2(2, rg{3, 5, 0}, rg{7, 9, 4}))
	add("f2-idx-1", totalOtlF2(2, rg{3, 5, 0}, rg{7, 9, 2}))
	add("f2-idx-first-1", totalOtlF2(1, rg{3, 5, 1}))
	add("f2-idx-all-0", totalOtlF2(3, rg{3, 5, 0}, rg{7, 9, 0}, rg{11, 12, 0}))
	add("f2-idx-max", totalOtlF2(1, rg{3, 5, 0xffff}))
	add("f2-idx-max-second", totalOtlF2(2, rg{3, 5, 0}, rg{7, 9, 0xffff}))
	add("f2-end-lt-start", totalOtlF2(1, rg{5, 3, 0}))
	add("f2-end-lt-start-second", totalOtlF2(2, rg{3, 5, 0}, rg{9, 7, 3}))
	add("f2-end-lt-start-class", totalOtlF2(3, rg{3, 5, 2}, rg{9, 7, 3}, rg{8, 10, 4}))
	add("f2-end-lt-start-then-low", totalOtlF2(3, rg{20, 25, 2}, rg{30, 7, 3}, rg{8, 10, 4}))
	add("f2-end-eq-start", totalOtlF2(2, rg{4, 4, 0}, rg{6, 6, 1}))
	add("f2-class0-mixed", totalOtlF2(3, rg{3, 5, 0}, rg{7, 9, 2}, rg{11, 12, 0}))
	add("f2-class0-overlap", totalOtlF2(2, rg{3, 9, 0}, rg{5, 6, 7}))
	add("f2-class-max", totalOtlF2(2, rg{3, 5, 0xffff}, rg{6, 6, 0xfffe}))
	add("f2-second-start-eq-0-end-0", totalOtlF2(2, rg{0, 0, 0}, rg{0, 0, 1}))
	add("f2-first-start-0-prev", totalOtlF2(1, rg{0, 0, 0}))
	add("f2-top16", totalOtlF2(1, rg{0xfff0, 0xffff, 0}))
	add("f2-top2-singles", totalOtlF2(2, rg{0xfffe, 0xfffe, 0}, rg{0xffff, 0xffff, 1}))
	add("f2-max-then-0", totalOtlF2(2, rg{0xffff, 0xffff, 0}, rg{0, 0, 1}))
	add("f2-max-then-max", totalOtlF2(2, rg{0xffff, 0xffff, 0}, rg{0xffff, 0xffff, 1}))
	add("f2-top-class", totalOtlF2(2, rg{0xff00, 0xfffe, 3}, rg{0xffff, 0xffff, 3}))
	add("f2-full-range", totalOtlF2(1, rg{0, 0xffff, 0}))
	add("f2-full-range-class1", totalOtlF2(1, rg{0, 0xffff, 1}))
	add("f2-halves-shared", totalOtlF2(2, rg{0, 32767, 0}, rg{32767, 65535, 32768}))
	add("f2-halves", totalOtlF2(2, rg{0, 32767, 0}, rg{32768, 65535, 32768}))
	add("f2-halves-classes", totalOtlF2(2, rg{0, 32767, 1}, rg{32768, 65535, 2}))
	add("f2-index-wrap", totalOtlF2(2, rg{0, 0xffff, 0}, rg{0xffff, 0xffff, 0}))

	// ---- classdef format 1
	{
		c16 := []int{1, 1, 2, 0, 0, 3, 3, 3, 0xffff, 0, 1, 2, 2, 2, 0, 5}
		add("cd1-end-exact", totalOtlCd1(0xfff0, 16, c16...))
		add("cd1-end+1", totalOtlCd1(0xfff0, 17, append(append([]int{}, c16...), 6)...))
		add("cd1-end+1-short", totalOtlCd1(0xfff0, 17, c16...))
	}
	add("cd1-startmax-n1", totalOtlCd1(0xffff, 1, 7))
	add("cd1-startmax-n2", totalOtlCd1(0xffff, 2, 7, 8))
	add("cd1-startmax-n1-class0", totalOtlCd1(0xffff, 1, 0))
	add("cd1-classes-0-max", totalOtlCd1(10, 8, 1, 0, 0xffff, 0xffff, 0, 2, 2, 1))
	add("cd1-all-0", totalOtlCd1(10, 4, 0, 0, 0, 0))
	add("cd1-start0", totalOtlCd1(0, 3, 4, 4, 5))

	// ---- classdef format 2 zigzag: (1, 65534, c), (65535, 0, c) repeated (finding #36; since the
	// repair classdef.Read rejects the range with end < start: err:invalid on both sides)
	for n := 1; n <= 3; n++ {
		var same, diff []rg
		for k := 1; k <= n; k++ {
			same = append(same, rg{1, 65534, 1}, rg{65535, 0, 1})
			diff = append(diff, rg{1, 65534, k}, rg{65535, 0, k})
		}
		add("cd2-zigzag-"+strconv.Itoa(n), totalOtlF2(2*n, same...))
		if n > 1 {
			add("cd2-zigzag-classes-"+strconv.Itoa(n), totalOtlF2(2*n, diff...))
		}
	}
	add("cd2-zigzag-shrinking", totalOtlF2(4, rg{1, 1000, 1}, rg{1001, 0, 9}, rg{200, 300, 2}, rg{301, 301, 3}))
	add("cd2-zigzag-class0-erase", totalOtlF2(4, rg{1, 1000, 1}, rg{1001, 0, 9}, rg{200, 300, 0}, rg{400, 500, 4}))

	// ---- format words; short inputs
	for _, fw := range []int{0, 3, 0xffff, 0x0100, 0x0200, 0x0102} {
		add("format-"+strconv.Itoa(fw), totalOtlW(fw, 2, 3, 5, 0, 7, 9, 3))
	}
	add("format-0-only", totalOtlW(0))
	add("format-3-only", totalOtlW(3))
	addPos("empty", nil)
	add("len1-00", []byte{0})
	add("len1-01", []byte{1})
	add("len1-02", []byte{2})
	add("len2-1", totalOtlW(1))
	add("len2-2", totalOtlW(2))
	add("len3-1", []byte{0, 1, 0})
	add("len3-2", []byte{0, 2, 0})
	add("len3-3", []byte{0, 3, 0})
	add("len4-1-1", totalOtlW(1, 1))
	add("len4-2-1", totalOtlW(2, 1))
	add("len5-1", []byte{0, 1, 0, 1, 0})
	add("len5-2", []byte{0, 2, 0, 1, 0})
	add("len6-cd1-n1-nodata", totalOtlCd1(5, 1))
	return tt
}

func totalOtlGen(c *Ctx, r *Rng, seeds []totalSeed) {
	budget := c.N / 3
	cnt := map[string]int{}
	seen := map[string]bool{}
	limit := 0
	emit := func(fn, gen string, b []byte, pos int, force bool) bool {
		if !force && cnt[fn] >= limit {
			return false
		}
		key := fn + " " + strconv.Itoa(pos) + " " + string(b)
		if seen[key] {
			return false
		}
		seen[key] = true
		out := c.Case(Verdict, "tmotl."+fn, "bytes="+hx(b)+" pos="+strconv.Itoa(pos), len(b) >= 4)
		cnt[fn]++
		c.Stat("tmotl:"+fn, totalOtlClass(out))
		c.Stat("tmotl:"+fn+":gen", gen)
		return true
	}
	// emitAll sends one byte string to all three readers; the budget is counted per reader.
	emitAll := func(gen string, b []byte, pos int, force bool) bool {
		any := false
		for _, fn := range totalOtlFns {
			if emit(fn, gen, b, pos, force) {
				any = true
			}
		}
		return any
	}
	full := func() bool {
		for _, fn := range totalOtlFns {
			if cnt[fn] < limit {
				return false
			}
		}
		return true
	}
	withPrefix := func(b []byte) ([]byte, int) {
		pre := r.Bytes(r.Range(1, 9))
		return totalOtlCat(pre, b), len(pre)
	}

	// 1. structured tables (always): at pos 0, behind a junk prefix, and for a few of them at
	// positions inside / at the end / beyond the end of the data
	tabs := totalOtlStructured(r)
	for _, t := range tabs {
		emitAll("structured", t.b, 0, true)
		pb, pp := withPrefix(t.b)
		emitAll("structured-prefix", pb, pp, true)
		if t.pos {
			for _, p := range []int{len(t.b), len(t.b) + 1, len(t.b) + 1000, 1, 3, 2, 4} {
				emitAll("structured-pos", t.b, p, true)
			}
			emitAll("structured-pos", pb, len(pb), true)
			emitAll("structured-pos", pb, pp+2, true)
			emitAll("structured-pos", pb, 0, true)
		}
	}
	// the two large tables of the run.  The Lean model works on lists (a read at position q costs
	// O(q)), so the full-size tables (65535 entries; checked by hand: no difference) take minutes
	// there: 3000 entries in the quick tier, 20000 in the thorough tier.
	{
		nLarge := 3000
		if c.Tier == "thorough" {
			nLarge = 20000
		}
		ws := make([]int, 0, 2+3*nLarge)
		ws = append(ws, 2, nLarge)
		for k := 0; k < nLarge; k++ {
			ws = append(ws, 3*k, 3*k, k)
		}
		emitAll("large-f2-singles", totalOtlW(ws...), 0, true)
		c.Stat("tmotl:large", "f2-singles")
		ws = ws[:0]
		ws = append(ws, 1, nLarge)
		for k := 0; k < nLarge; k++ {
			ws = append(ws, k+k/2000) // increasing; one gap (2000 is skipped)
		}
		emitAll("large-f1-gids", totalOtlW(ws...), 0, true)
		c.Stat("tmotl:large", "f1-gids")
	}

	base := 0
	for _, fn := range totalOtlFns {
		if cnt[fn] > base {
			base = cnt[fn]
		}
	}
	rem := budget - base
	if rem < 0 {
		rem = 0
	}
	const parts = 6 // seeds 1, random valid 2, mutations 1, truncations 1, random 1
	phase := func(k int) { limit = base + rem*k/parts }

	// 2. seeds, unmodified, each to its own reader ("*" seeds to all three)
	type seedT struct {
		fns []string
		s   totalSeed
	}
	var pool, own []seedT // own: the seeds made for one of the three readers (pool = own + "*")
	for _, s := range seeds {
		if len(s.bytes) > 4000 {
			continue
		}
		switch {
		case s.dec == "coverage" || s.dec == "covset" || s.dec == "classdef":
			own = append(own, seedT{[]string{s.dec}, s})
		case s.dec == "*" && len(s.bytes) <= 2000:
			pool = append(pool, seedT{totalOtlFns, s})
		}
	}
	phase(1)
	shuffle := func(l []seedT) {
		for i := len(l) - 1; i > 0; i-- {
			j := r.Intn(i + 1)
			l[i], l[j] = l[j], l[i]
		}
	}
	shuffle(own)
	shuffle(pool) // the "*" seeds: at most 20 of them (they are mostly other formats)
	if len(pool) > 20 {
		pool = pool[:20]
	}
	pool = append(append([]seedT{}, own...), pool...)
	for _, s := range pool {
		if full() {
			break
		}
		for _, fn := range s.fns {
			if emit(fn, "seed", s.s.bytes, 0, false) {
				c.Stat("tmotl:seed", s.s.src)
			}
		}
	}

	// 3. random valid tables (random counts and gaps), a third of them behind a prefix
	phase(3)
	for it := 0; !full() && it < 20*rem+100; it++ {
		b, kind := totalOtlRandValid(r)
		pos := 0
		if r.Chance(1, 3) {
			b, pos = withPrefix(b)
		}
		if emitAll("valid", b, pos, false) {
			c.Stat("tmotl:valid", kind)
		}
	}

	// 4. mutations of a structured table or of a matching seed
	phase(4)
	for it := 0; !full() && it < 20*rem+100; it++ {
		if len(pool) == 0 || r.Bool() {
			t := Pick(r, tabs)
			m, what := totalMutate(r, t.b)
			if emitAll("mutation", m, 0, false) {
				c.Stat("tmotl:mutation", what)
			}
			continue
		}
		s := Pick(r, pool)
		if len(own) > 0 && r.Chance(3, 4) {
			s = Pick(r, own)
		}
		m, what := totalMutate(r, s.s.bytes)
		for _, fn := range s.fns {
			if emit(fn, "mutation-seed", m, 0, false) {
				c.Stat("tmotl:mutation", what)
			}
		}
	}

	// 5. truncation at every offset of the small structured tables
	phase(5)
	var small []totalOtlTab
	for _, t := range tabs {
		if len(t.b) > 0 && len(t.b) <= 40 {
			small = append(small, t)
		}
	}
	for it := 0; !full() && len(small) > 0 && it < 30*len(small); it++ {
		t := Pick(r, small)
		for n := 0; n < len(t.b); n++ {
			emitAll("truncate-every", t.b[:n], 0, false)
		}
	}

	// 6. random bytes with the format and count words forced half of the time
	limit = budget
	if limit < base {
		limit = base
	}
	for it := 0; !full() && it < 20*rem+100; it++ {
		b := r.Bytes(r.Range(0, 48))
		if r.Bool() && len(b) >= 2 {
			b[0], b[1] = 0, byte(r.Range(1, 2))
		}
		if r.Bool() && len(b) >= 4 {
			b[2], b[3] = 0, byte(r.Range(0, 6))
		}
		pos := 0
		if r.Chance(1, 4) {
			pos = r.Range(0, len(b)+2)
		}
		emitAll("random", b, pos, false)
	}
}
