package main

// Area "otl" (property C08): OpenType layout codecs — coverage tables, class definition tables,
// lookup-list layout (chunks, reordering, extension records) and GSUB/GPOS subtables.

import (
	"bytes"
	"fmt"
	"hash/fnv"
	"reflect"
	"sort"
	"strconv"
	"strings"

	"seehuhn.de/go/sfnt/glyph"
	"seehuhn.de/go/sfnt/opentype/anchor"
	"seehuhn.de/go/sfnt/opentype/classdef"
	"seehuhn.de/go/sfnt/opentype/coverage"
	"seehuhn.de/go/sfnt/opentype/gdef"
	"seehuhn.de/go/sfnt/opentype/gtab"
	"seehuhn.de/go/sfnt/opentype/markarray"
	"seehuhn.de/go/sfnt/parser"
)

// ---------------------------------------------------------------- shared helpers

func otlShowBytes(b []byte) string {
	if len(b) <= 4096 {
		return hx(b)
	}
	h := fnv.New64a()
	h.Write(b)
	return fmt.Sprintf("len:%d;fnv:%d", len(b), h.Sum64())
}

func otlParser(data []byte) *parser.Parser { return parser.New(bytes.NewReader(data)) }

type otlRun struct{ a, b, c int } // glyphs a..b (class c for classdef)

func otlRunsString(rs []otlRun, withClass bool) string {
	parts := make([]string, len(rs))
	for i, r := range rs {
		s := strconv.Itoa(r.a)
		if r.b != r.a {
			s += "-" + strconv.Itoa(r.b)
		}
		if withClass {
			s += ":" + strconv.Itoa(r.c)
		}
		parts[i] = s
	}
	return strings.Join(parts, ",")
}

func otlParseRuns(s string, withClass bool) []otlRun {
	if s == "" {
		return nil
	}
	var out []otlRun
	for _, t := range strings.Split(s, ",") {
		var r otlRun
		if withClass {
			i := strings.IndexByte(t, ':')
			r.c, _ = strconv.Atoi(t[i+1:])
			t = t[:i]
		}
		if i := strings.IndexByte(t, '-'); i >= 0 {
			r.a, _ = strconv.Atoi(t[:i])
			r.b, _ = strconv.Atoi(t[i+1:])
		} else {
			r.a, _ = strconv.Atoi(t)
			r.b = r.a
		}
		out = append(out, r)
	}
	return out
}

// ---------------------------------------------------------------- coverage ops

func otlCovFromRuns(rs []otlRun) coverage.Table {
	t := coverage.Table{}
	i := 0
	for _, r := range rs {
		for g := r.a; g <= r.b; g++ {
			t[glyph.ID(g)] = i
			i++
		}
	}
	return t
}

func otlCovEncode(t coverage.Table) string {
	return canonPanic(guard(func() string {
		b := t.Encode()
		n := t.EncodeLen()
		return fmt.Sprintf("ok:%s;len=%d", otlShowBytes(b), n)
	}))
}

func otlShowCov(t coverage.Table) string {
	gs := t.Glyphs()
	parts := make([]string, len(gs))
	for i, g := range gs {
		parts[i] = fmt.Sprintf("%d:%d", g, t[g])
	}
	return strings.Join(parts, ",")
}

// ---------------------------------------------------------------- classdef ops

func otlClassFromRuns(rs []otlRun) classdef.Table {
	t := classdef.Table{}
	for _, r := range rs {
		for g := r.a; g <= r.b; g++ {
			t[glyph.ID(g)] = uint16(r.c)
		}
	}
	return t
}

func otlShowClass(t classdef.Table) string {
	var arr [65537]uint16
	for g, c := range t {
		arr[g] = c
	}
	var parts []string
	start := -1
	for g := 0; g <= 65536; g++ {
		c := arr[g]
		if start >= 0 && c != arr[start] {
			parts = append(parts, fmt.Sprintf("%d-%d:%d", start, g-1, arr[start]))
			start = -1
		}
		if start < 0 && c != 0 {
			start = g
		}
	}
	return strings.Join(parts, ",")
}

// ---------------------------------------------------------------- lookup list ops

func otlBlob(n, seed int) []byte {
	b := make([]byte, n)
	for k := range b {
		b[k] = byte((seed + k*(2*seed+1) + k/256) % 256)
	}
	return b
}

// otlParseLL decodes `type/flags/mfs/sub|sub;...`; it also returns the extension lookup type
// the encoder should pick (0 if no GSUB/GPOS-specific subtable is present).
func otlParseLL(s string) (gtab.LookupList, int) {
	ll := gtab.LookupList{}
	ext := 0
	if s == "" {
		return ll, 0
	}
	for _, ls := range strings.Split(s, ";") {
		p := strings.Split(ls, "/")
		tp, _ := strconv.Atoi(p[0])
		fl, _ := strconv.Atoi(p[1])
		mfs, _ := strconv.Atoi(p[2])
		l := &gtab.LookupTable{Meta: &gtab.LookupMetaInfo{LookupType: uint16(tp),
			LookupFlags: gtab.LookupFlags(fl), MarkFilteringSet: uint16(mfs)}}
		if p[3] != "" {
			for _, ss := range strings.Split(p[3], "|") {
				q := strings.Split(ss, ":")
				switch q[0] {
				case "n":
					n, _ := strconv.Atoi(q[1])
					seed, _ := strconv.Atoi(q[2])
					l.Subtables = append(l.Subtables, gtab.VerifBlob(otlBlob(n, seed)))
				case "h":
					l.Subtables = append(l.Subtables, gtab.VerifBlob(mustHex(q[1])))
				case "g":
					g, _ := strconv.Atoi(q[1])
					d, _ := strconv.Atoi(q[2])
					l.Subtables = append(l.Subtables, &gtab.Gsub1_1{Cov: coverage.Set{glyph.ID(g): true}, Delta: glyph.ID(d)})
					if ext == 0 {
						ext = 7
					}
				case "c": // GPOS 3.1 with one record: c:<glyph>:<ex>.<ey>.<xx>.<xy>
					g, _ := strconv.Atoi(q[1])
					a := strings.Split(q[2], ".")
					l.Subtables = append(l.Subtables, &gtab.Gpos3_1{Cov: coverage.Table{glyph.ID(g): 0},
						Records: []gtab.EntryExitRecord{{Entry: otlAnchor(a[0], a[1]), Exit: otlAnchor(a[2], a[3])}}})
					if ext == 0 {
						ext = 9
					}
				case "p":
					g, _ := strconv.Atoi(q[1])
					d, _ := strconv.Atoi(q[2])
					vr := &gtab.GposValueRecord{}
					reflect.ValueOf(&vr.XAdvance).Elem().SetInt(int64(int16(d))) // funit.Int16, without importing the package
					l.Subtables = append(l.Subtables, &gtab.Gpos1_1{Cov: coverage.Table{glyph.ID(g): 0}, Adjust: vr})
					if ext == 0 {
						ext = 9
					}
				}
			}
		}
		ll = append(ll, l)
	}
	return ll, ext
}

func init() {
	areas["otl"] = areaOtl

	ops["otl.cov.encode"] = func(f Fields) string {
		if r, ok := f["rev"]; ok {
			return otlCovEncode(otlCovFromRuns(otlParseRuns(r, false)))
		}
		t := coverage.Table{}
		for _, e := range f.List("tab", ",") {
			i := strings.IndexByte(e, ':')
			g, _ := strconv.Atoi(e[:i])
			x, _ := strconv.Atoi(e[i+1:])
			t[glyph.ID(g)] = x
		}
		return otlCovEncode(t)
	}
	ops["otl.cov.read"] = func(f Fields) string {
		return canonPanic(guard(func() string {
			t, err := coverage.Read(otlParser(f.Hex("data")), 0)
			if err != nil {
				return errKind(err)
			}
			return "ok:" + otlShowCov(t)
		}))
	}
	ops["otl.cov.readset"] = func(f Fields) string {
		return canonPanic(guard(func() string {
			t, err := coverage.ReadSet(otlParser(f.Hex("data")), 0)
			if err != nil {
				return errKind(err)
			}
			gs := t.Glyphs()
			l := make([]int, len(gs))
			for i, g := range gs {
				l[i] = int(g)
			}
			return "ok:" + ints(l)
		}))
	}
	// direct predicate; the real encoder is run again and must give the bytes in the line
	ops["otl.cov.prop"] = func(f Fields) string {
		return canonPanic(guard(func() string {
			t := otlCovFromRuns(otlParseRuns(f["rev"], false))
			if hx(t.Encode()) != f["data"] || t.EncodeLen() != f.Int("len") {
				return "stale-case"
			}
			return "ok"
		}))
	}

	ops["otl.classdef.append"] = func(f Fields) string {
		t := otlClassFromRuns(otlParseRuns(f["runs"], true))
		n := -1
		ln := guard(func() string { n = t.AppendLen(); return "" })
		if ln != "" {
			return "panic-in-len"
		}
		out := canonPanic(guard(func() string { return "ok:" + otlShowBytes(t.Append(nil)) }))
		return fmt.Sprintf("%s;len=%d", out, n)
	}
	ops["otl.classdef.read"] = func(f Fields) string {
		return canonPanic(guard(func() string {
			t, err := classdef.Read(otlParser(f.Hex("data")), 0)
			if err != nil {
				return errKind(err)
			}
			return "ok:" + otlShowClass(t)
		}))
	}
	ops["otl.classdef.prop"] = func(f Fields) string {
		return canonPanic(guard(func() string {
			t := otlClassFromRuns(otlParseRuns(f["runs"], true))
			if hx(t.Append(nil)) != f["data"] || t.AppendLen() != f.Int("len") {
				return "stale-case"
			}
			return "ok"
		}))
	}

	ops["otl.ll.encode"] = func(f Fields) string {
		return canonPanic(guard(func() string {
			ll, _ := otlParseLL(f["ll"])
			return "ok:" + otlShowBytes(gtab.VerifEncodeLookupList(ll))
		}))
	}
	ops["otl.ll.prop"] = func(f Fields) string {
		return canonPanic(guard(func() string {
			if f["st"] != "" {
				// a list of real subtables: the `ll` field carries their encodings as blobs
				real, want := otlRealLL(f)
				if f["ll"] != want || hx(gtab.VerifEncodeLookupList(real)) != f["data"] {
					return "stale-case"
				}
				return "ok"
			}
			ll, _ := otlParseLL(f["ll"])
			b := gtab.VerifEncodeLookupList(ll)
			if d, ok := f["data"]; ok {
				if hx(b) != d {
					return "stale-case"
				}
			} else if otlShowBytes(b) != f["sum"] {
				return "stale-case"
			}
			return "ok"
		}))
	}
}

// otlRealLL builds [lookup{ctx, ctx}, lookup{Gsub1_1}] from the context-subtable fields of a case
// line, and the `ll` field that describes it with the encoded subtables as blobs.
func otlRealLL(f Fields) (gtab.LookupList, string) {
	ctx := otlCtxFromFields(f)
	g := &gtab.Gsub1_1{Cov: coverage.Set{5: true}, Delta: 3}
	tp := 5
	if f["st"][0] == 'C' {
		tp = 6
	}
	real := gtab.LookupList{
		{Meta: &gtab.LookupMetaInfo{LookupType: uint16(tp)}, Subtables: []gtab.Subtable{ctx, ctx}},
		{Meta: &gtab.LookupMetaInfo{LookupType: 1}, Subtables: []gtab.Subtable{g}},
	}
	cb := hx(gtab.VerifSubtableEncode(ctx))
	return real, fmt.Sprintf("%d/0/0/h:%s|h:%s;1/0/0/h:%s", tp, cb, cb, hx(gtab.VerifSubtableEncode(g)))
}

func init() {
	// the reader accepts what Gpos4_1.encode wrote: nb base glyphs x nc classes, all anchors empty but one
	ops["otl.gpos.rt41"] = func(f Fields) string {
		return canonPanic(guard(func() string {
			nb, nc := f.Int("nb"), f.Int("nc")
			l := &gtab.Gpos4_1{MarkCov: coverage.Table{1: 0}, BaseCov: coverage.Table{}, MarkArray: []markarray.Record{{Class: uint16(nc - 1)}}}
			for i := 0; i < nb; i++ {
				l.BaseCov[glyph.ID(10+i)] = i
				l.BaseArray = append(l.BaseArray, make([]anchor.Table, nc))
			}
			reflect.ValueOf(&l.BaseArray[nb-1][nc-1].X).Elem().SetInt(7)
			var b []byte
			if guard(func() string { b = gtab.VerifSubtableEncode(l); return "" }) != "" {
				return "ok" // refused by the encoder (repair 19)
			}
			if _, err := gtab.VerifReadGposSubtable(b, 0, 4); err != nil {
				return "fail:" + errKind(err)
			}
			return "ok"
		}))
	}
	// the reader accepts what the encoder of a context subtable wrote (or the encoder refuses)
	ops["otl.ctx.rt"] = func(f Fields) string {
		return canonPanic(guard(func() string {
			st := otlCtxFromFields(f)
			var b []byte
			if guard(func() string { b = gtab.VerifSubtableEncode(st); return "" }) != "" {
				return "ok"
			}
			tp := uint16(5)
			if f["st"][0] == 'C' {
				tp = 6
			}
			out, err := gtab.VerifReadGsubSubtable(b, 0, tp)
			if err != nil {
				return "fail:" + errKind(err)
			}
			if f["cmp"] != "no" {
				want, got := otlShowCtx(st), otlShowCtx(out)
				if want != got {
					k := 0
					for k < len(want) && k < len(got) && want[k] == got[k] {
						k++
					}
					return fmt.Sprintf("fail:value differs at %d: wrote[%s]read[%s]", k,
						want[max(0, k-20):min(len(want), k+30)], got[max(0, k-20):min(len(got), k+30)])
				}
			}
			return "ok"
		}))
	}
	// lookup list through the real code: Encode then readLookupList gives every lookup back: type,
	// flags, mark filtering set, and subtables that start with the bytes written (no extension lookups
	// in these small lists)
	ops["otl.ll.rt"] = func(f Fields) string {
		return canonPanic(guard(func() string {
			ll, ext := otlParseLL(f["ll"])
			if ext == 0 {
				ext = 9
			}
			var b []byte
			if guard(func() string { b = gtab.VerifEncodeLookupList(ll); return "" }) != "" {
				if f["refuse"] == "no" {
					return "fail:encode-panics"
				}
				return "ok"
			}
			out, err := gtab.VerifReadLookupList(b, 0, uint16(ext))
			if err != nil {
				return "fail:" + errKind(err)
			}
			if len(out) != len(ll) {
				return fmt.Sprintf("fail:%d lookups read, %d written", len(out), len(ll))
			}
			for i, l := range ll {
				o := out[i]
				mfs := uint16(0)
				if l.Meta.LookupFlags&gtab.UseMarkFilteringSet != 0 {
					mfs = l.Meta.MarkFilteringSet
				}
				if o.Meta.LookupType != l.Meta.LookupType || o.Meta.LookupFlags != l.Meta.LookupFlags || o.Meta.MarkFilteringSet != mfs {
					return fmt.Sprintf("fail:lookup %d read as %d/%d/%d, written %d/%d/%d", i, o.Meta.LookupType, o.Meta.LookupFlags,
						o.Meta.MarkFilteringSet, l.Meta.LookupType, l.Meta.LookupFlags, mfs)
				}
				if len(o.Subtables) != len(l.Subtables) {
					return fmt.Sprintf("fail:lookup %d: %d subtables read, %d written", i, len(o.Subtables), len(l.Subtables))
				}
				for j, st := range l.Subtables {
					r, ok := o.Subtables[j].(*gtab.VerifRef)
					if !ok {
						return fmt.Sprintf("fail:lookup %d subtable %d unresolved", i, j)
					}
					enc := gtab.VerifSubtableEncode(st)
					if int(r.Pos)+len(enc) > len(b) || !bytes.Equal(b[r.Pos:int(r.Pos)+len(enc)], enc) {
						return fmt.Sprintf("fail:lookup %d subtable %d not at %d", i, j, r.Pos)
					}
				}
			}
			return "ok"
		}))
	}
	// |encode()| = encodeLen() on the real code; the line carries both numbers
	ops["otl.ctx.len"] = func(f Fields) string {
		return canonPanic(guard(func() string {
			st := otlCtxFromFields(f)
			if len(gtab.VerifSubtableEncode(st)) != f.Int("size") || gtab.VerifSubtableEncodeLen(st) != f.Int("declared") {
				return "stale-case"
			}
			return "ok"
		}))
	}
}

// ---------------------------------------------------------------- generators

// otlGenRuns draws an increasing sequence of disjoint glyph runs.
func otlGenRuns(r *Rng, classes bool) []otlRun {
	var rs []otlRun
	mode := r.Intn(20)
	nRuns := 0
	switch {
	case mode < 2:
		nRuns = r.Intn(3)
	case mode < 14:
		nRuns = r.Range(1, 12)
	case mode < 18:
		nRuns = r.Range(10, 120)
	default:
		nRuns = r.Range(100, 1500)
	}
	lenStyle := r.Intn(5) // 0: singletons, 1: length 3 (format tie), 2: 1-4, 3: 1-40, 4: mixed
	gapStyle := r.Intn(3) // 0: gap 1 mostly (adjacent for classdef), 1: small, 2: wide
	pos := 0
	switch r.Intn(4) {
	case 0:
		pos = 0
	case 1:
		pos = r.Intn(10)
	default:
		pos = r.Intn(30000)
	}
	atEnd := r.Chance(1, 6)
	for i := 0; i < nRuns && pos <= 65535; i++ {
		n := 1
		switch lenStyle {
		case 1:
			n = 3
		case 2:
			n = r.Range(1, 4)
		case 3:
			n = r.Range(1, 40)
		case 4:
			n = Pick(r, []int{1, 1, 2, 3, 3, 4, 5, 17, 300})
		}
		a, b := pos, pos+n-1
		if b > 65535 {
			b = 65535
		}
		c := 0
		if classes {
			c = Pick(r, []int{1, 1, 2, 2, 3, 7, 0, 65535})
		}
		rs = append(rs, otlRun{a, b, c})
		gap := 1
		switch gapStyle {
		case 0:
			if classes {
				gap = Pick(r, []int{0, 0, 0, 1, 2})
			} else {
				gap = Pick(r, []int{1, 1, 1, 2, 3})
			}
		case 1:
			gap = r.Range(1, 6)
		case 2:
			gap = r.Range(1, 800)
		}
		if !classes && gap == 0 {
			gap = 1
		}
		pos = b + 1 + gap
	}
	if atEnd && len(rs) > 0 {
		// shift the last run so that it ends at 65535
		l := &rs[len(rs)-1]
		n := l.b - l.a
		if 65535-n > l.a {
			l.a, l.b = 65535-n, 65535
		}
	}
	if classes {
		// adjacent runs with the same class would be one segment; keep them (the encoder must merge)
		return rs
	}
	// for coverage, runs must be maximal to be "runs"; merging is not needed for the case line
	return rs
}

func otlCountGlyphs(rs []otlRun) int {
	n := 0
	for _, r := range rs {
		n += r.b - r.a + 1
	}
	return n
}

// otlMutate returns a damaged copy of a table.
func otlMutate(r *Rng, b []byte) ([]byte, string) {
	c := append([]byte{}, b...)
	switch k := r.Intn(7); {
	case k == 0 && len(c) > 0:
		return c[:r.Intn(len(c))], "truncate"
	case k == 1 && len(c) >= 2:
		c[1] = byte(r.Intn(4))
		return c, "format"
	case k == 2 && len(c) >= 4:
		v := int(c[2])<<8 | int(c[3])
		v += Pick(r, []int{-1, 1, 2, 100})
		c[2], c[3] = byte(v>>8), byte(v)
		return c, "count"
	case k == 3 && len(c) >= 6:
		i := 2 * r.Range(2, len(c)/2-1)
		v := int(c[i])<<8 | int(c[i+1])
		v += Pick(r, []int{-3, -2, -1, 1, 2, 3})
		c[i], c[i+1] = byte(v>>8), byte(v)
		return c, "word±"
	case k == 4 && len(c) >= 6:
		i := 2 * r.Range(2, len(c)/2-1)
		c[i], c[i+1] = byte(r.Intn(256)), byte(r.Intn(256))
		return c, "word-random"
	case k == 5:
		return append(c, r.Bytes(r.Range(1, 7))...), "trailing"
	}
	if len(c) >= 8 {
		i := 2 * r.Range(2, len(c)/2-2)
		c[i], c[i+1], c[i+2], c[i+3] = c[i+2], c[i+3], c[i], c[i+1]
		return c, "swap"
	}
	return c, "none"
}

func areaOtl(c *Ctx) {
	r := c.Rng
	nCov := c.N * 14 / 100
	nCd := c.N * 14 / 100
	nGsub := c.N * 12 / 100
	nGpos := c.N * 10 / 100
	nGposMark := c.N * 8 / 100
	nCtx := c.N * 8 / 100
	nFL := c.N * 4 / 100
	nGdef := c.N * 5 / 100
	nSL := c.N * 5 / 100
	nGtab := c.N * 5 / 100
	nLL := c.N - nCov - nCd - nGsub - nGpos - nGposMark - nCtx - nFL - nGdef - nSL - nGtab

	// ---- coverage
	special := [][]otlRun{
		{}, {{0, 0, 0}}, {{65535, 65535, 0}}, {{0, 65535, 0}}, {{0, 2, 0}}, {{5, 7, 0}, {9, 11, 0}},
		{{0, 0, 0}, {2, 2, 0}, {4, 4, 0}}, {{65533, 65535, 0}}, {{0, 3, 0}}, {{1, 65534, 0}},
	}
	for i := 0; i < nCov; i++ {
		var rs []otlRun
		switch {
		case i < len(special):
			rs = special[i]
		case i == len(special): // 32768 singletons: the largest format-1 table
			for g := 0; g < 65536; g += 2 {
				rs = append(rs, otlRun{g, g, 0})
			}
		case i == len(special)+1: // 16384 runs of length 3 over the full range (tie)
			for g := 0; g+2 < 65536; g += 4 {
				rs = append(rs, otlRun{g, g + 2, 0})
			}
		default:
			rs = otlGenRuns(r, false)
		}
		n := otlCountGlyphs(rs)
		c.Stat("cov.glyphs", bucket(n))
		c.Stat("cov.runs", bucket(len(rs)))
		line := "rev=" + otlRunsString(rs, false)
		out := c.Case(Verdict, "otl.cov.encode", line, n >= 2)
		t := otlCovFromRuns(rs)
		if strings.HasPrefix(out, "ok:") {
			b := t.Encode()
			c.Stat("cov.format", fmt.Sprint(b[1]))
			switch d := (4 + 2*n) - (4 + 6*len(rs)); {
			case d == 0:
				c.Stat("cov.choice", "tie")
			case d < 0:
				c.Stat("cov.choice", "fmt1-smaller")
			default:
				c.Stat("cov.choice", "fmt2-smaller")
			}
			if len(b) <= 20000 || i < len(special)+2 {
				c.Case(Direct, "otl.cov.prop", fmt.Sprintf("data=%s %s len=%d", hx(b), line, t.EncodeLen()), n >= 2)
			}
			if n <= 3000 || r.Chance(1, 8) {
				c.Case(Verdict, "otl.cov.read", "data="+hx(b), n >= 2)
				c.Case(Verdict, "otl.cov.readset", "data="+hx(b), n >= 2)
			}
			if n <= 3000 {
				for k := 0; k < 2; k++ {
					m, what := otlMutate(r, b)
					c.Stat("cov.mutation", what)
					o := c.Case(Verdict, "otl.cov.read", "data="+hx(m), true)
					c.Stat("cov.read-outcome", outcomeClass(o))
					o = c.Case(Verdict, "otl.cov.readset", "data="+hx(m), true)
					c.Stat("cov.readset-outcome", outcomeClass(o))
				}
			}
		}
		// malformed tables: permuted or out-of-range indices (no duplicate indices: with those
		// the bytes depend on Go's map iteration order)
		if n >= 2 && n <= 200 && r.Chance(1, 4) {
			var gs []int
			for _, x := range rs {
				for g := x.a; g <= x.b; g++ {
					gs = append(gs, g)
				}
			}
			idx := make([]int, len(gs))
			for k := range idx {
				idx[k] = k
			}
			what := "swap"
			if r.Bool() {
				a, b := r.Intn(len(idx)), r.Intn(len(idx))
				idx[a], idx[b] = idx[b], idx[a]
			} else {
				what = "out-of-range"
				idx[r.Intn(len(idx))] = Pick(r, []int{-1, len(idx), len(idx) + 5})
			}
			parts := make([]string, len(gs))
			for k := range gs {
				parts[k] = fmt.Sprintf("%d:%d", gs[k], idx[k])
			}
			o := c.Case(Verdict, "otl.cov.encode", "tab="+strings.Join(parts, ","), true)
			c.Stat("cov.malformed-table", what+":"+outcomeClass(o))
		}
	}

	// ---- class definitions
	cdSpecial := [][]otlRun{
		{}, {{5, 6, 1}}, {{0, 0, 1}}, {{65535, 65535, 2}}, {{7, 7, 0}}, {{0, 65535, 1}}, {{0, 65535, 0}},
		{{0, 0, 1}, {65535, 65535, 1}}, {{3, 4, 1}, {5, 6, 2}}, {{3, 4, 1}, {5, 6, 1}}, {{10, 12, 1}, {14, 14, 0}},
	}
	for i := 0; i < nCd; i++ {
		var rs []otlRun
		switch {
		case i < len(cdSpecial):
			rs = cdSpecial[i]
		case i == len(cdSpecial): // full range, every glyph differs from its neighbour: not representable
			for g := 0; g < 65536; g++ {
				rs = append(rs, otlRun{g, g, 1 + g%2})
			}
		case i == len(cdSpecial)+1: // full range, 21846 ranges: format 1 impossible, format 2 fits
			for g := 0; g < 65536; g += 3 {
				rs = append(rs, otlRun{g, min(g+2, 65535), 1 + (g/3)%2})
			}
		case i == len(cdSpecial)+2: // 65535 glyphs, alternating: the largest format-1 table
			for g := 1; g < 65536; g++ {
				rs = append(rs, otlRun{g, g, 1 + g%2})
			}
		default:
			rs = otlGenRuns(r, true)
		}
		line := "runs=" + otlRunsString(rs, true)
		span := 0
		if len(rs) > 0 {
			span = rs[len(rs)-1].b - rs[0].a + 1
		}
		c.Stat("classdef.span", bucket(span))
		c.Stat("classdef.runs", bucket(len(rs)))
		out := c.Case(Verdict, "otl.classdef.append", line, len(rs) >= 2)
		c.Stat("classdef.append-outcome", outcomeClass(out))
		if !strings.HasPrefix(out, "ok:") {
			continue
		}
		t := otlClassFromRuns(rs)
		b := t.Append(nil)
		c.Stat("classdef.format", fmt.Sprint(b[1]))
		if len(b) <= 20000 || i < len(cdSpecial)+3 {
			c.Case(Direct, "otl.classdef.prop", fmt.Sprintf("data=%s %s len=%d", hx(b), line, t.AppendLen()), len(rs) >= 2)
		}
		if len(b) <= 20000 || r.Chance(1, 8) {
			c.Case(Verdict, "otl.classdef.read", "data="+hx(b), len(rs) >= 2)
		}
		if len(b) <= 20000 {
			for k := 0; k < 2; k++ {
				m, what := otlMutate(r, b)
				c.Stat("classdef.mutation", what)
				o := c.Case(Verdict, "otl.classdef.read", "data="+hx(m), true)
				c.Stat("classdef.read-outcome", outcomeClass(o))
			}
		}
	}
	// crafted class tables: a range with end < start lowers prevEnd (DESIGN §9 #36)
	for _, d := range []string{
		"00020003000a00140001001e00050002000800" + "0c0003",
		"0002000200050003000100040004" + "0002",
		"0001fff0002000010002",
		"0001ffff000100070000",
		// end < start is refused (repair of DESIGN §9 #36); end == start is fine
		"00020001000500030001",
		"00020001000500050001",
		"000200020001fffe0001ffff00000002",
		"0002000200050003000000040004" + "0002",
		"00020002000100020001000300020001",
	} {
		o := c.Case(Verdict, "otl.classdef.read", "data="+d, true)
		c.Stat("classdef.crafted", outcomeClass(o))
	}

	// ---- GSUB subtables
	for i := 0; i < nGsub; i++ {
		otlGenGsub(c, i)
	}

	// ---- GPOS subtables
	for i := 0; i < nGpos; i++ {
		otlGenGpos(c, i)
	}

	// ---- GDEF
	for i := 0; i < nGdef; i++ {
		otlGenGdef(c, i)
	}

	// ---- GPOS 2.2 / 3.1 / 4.1 / 6.1
	for i := 0; i < nGposMark; i++ {
		otlGenGposMark(c, i)
	}

	// ---- contextual lookups
	for i := 0; i < nCtx; i++ {
		otlGenCtx(c, i)
	}

	// ---- whole GSUB tables
	for i := 0; i < nGtab; i++ {
		otlGenGtab(c, i)
	}

	// ---- script lists
	otlSLArrangements(c)
	for i := 0; i < nSL; i++ {
		otlGenSL(c, i)
	}

	// ---- feature lists
	otlFLCrafted(c)
	for i := 0; i < nFL; i++ {
		otlGenFL(c, i)
	}

	otlGenCtxShapes(c)
	otlGenCountFamilies(c)

	// ---- lookup lists
	otlLLSweep(c)
	otlLLOffsetFamily(c)
	otlLLWindowFamily(c)
	otlLLBigFamily(c)
	otlLLCursiveFamily(c)
	// the reader's budget: lookups + subtables <= 6000
	for _, line := range []string{
		"1/0/0/" + strings.TrimSuffix(strings.Repeat("n:2:1|", 5999), "|"),
		"1/0/0/" + strings.TrimSuffix(strings.Repeat("n:2:1|", 6000), "|"),
		strings.TrimSuffix(strings.Repeat("2/0/0/n:2:1;", 3000), ";"),
		strings.TrimSuffix(strings.Repeat("2/0/0/n:2:1;", 3001), ";"),
		strings.TrimSuffix(strings.Repeat("2/16/3/;", 6000), ";"),
		strings.TrimSuffix(strings.Repeat("2/16/3/;", 6001), ";"),
		// 300 lookups x 19 subtables = 6000 exactly / one subtable less / one more
		strings.TrimSuffix(strings.Repeat("1/0/0/"+strings.TrimSuffix(strings.Repeat("n:2:1|", 19), "|")+";", 300), ";"),
		strings.TrimSuffix(strings.Repeat("1/0/0/"+strings.TrimSuffix(strings.Repeat("n:2:1|", 19), "|")+";", 299), ";") + ";1/0/0/" + strings.TrimSuffix(strings.Repeat("n:2:1|", 18), "|"),
		strings.TrimSuffix(strings.Repeat("1/0/0/"+strings.TrimSuffix(strings.Repeat("n:2:1|", 19), "|")+";", 299), ";") + ";1/0/0/" + strings.TrimSuffix(strings.Repeat("n:2:1|", 20), "|"),
	} {
		out := c.Case(Verdict, "otl.ll.encode", "ll="+line, true)
		if strings.HasPrefix(out, "ok:") {
			ll, _ := otlParseLL(line)
			o := c.Case(Verdict, "otl.ll.read", "ext=9 data="+hx(gtab.VerifEncodeLookupList(ll)), true)
			c.Stat("ll.budget", outcomeClass(o))
			total := len(ll)
			for _, l := range ll {
				total += len(l.Subtables)
			}
			if total <= 6000 {
				// within the budget of the reader: Encode then readLookupList on the real code gives the list back
				o := c.Case(Direct, "otl.ll.rt", "ll="+line+" refuse=no", true)
				c.Stat("ll.budget-rt", fmt.Sprintf("%d:%s", total, outcomeClass(o)))
			}
		}
	}
	nLargeRead := 0
	for i := 0; i < nLL/4; i++ {
		ext := Pick(r, []int{7, 9})
		b := otlSynthLL(r, ext)
		o := c.Case(Verdict, "otl.ll.read", fmt.Sprintf("ext=%d data=%s", ext, hx(b)), true)
		c.Stat("ll.read-outcome", "synthetic:"+outcomeClass(o))
		m, _ := otlMutate(r, b)
		o = c.Case(Verdict, "otl.ll.read", fmt.Sprintf("ext=%d data=%s", ext, hx(m)), true)
		c.Stat("ll.read-outcome", "synthetic-mutated:"+outcomeClass(o))
	}
	for i := 0; i < nLL; i++ {
		line, info := otlGenLL(r, i)
		for k, v := range info {
			c.Stat("ll."+k, v)
		}
		out := c.Case(Verdict, "otl.ll.encode", "ll="+line, true)
		c.Stat("ll.outcome", outcomeClass(out))
		c.Stat("ll.plan-outcome", info["plan"]+":"+outcomeClass(out))
		if out == "panic" {
			c.Stat("ll.refusal", guard(func() string {
				ll, _ := otlParseLL(line)
				gtab.VerifEncodeLookupList(ll)
				return "none"
			}))
		}
		if strings.HasPrefix(out, "ok:") {
			ll, ext := otlParseLL(line)
			if ext == 0 {
				ext = 9 // generated lookup types are 1..8
			}
			b := gtab.VerifEncodeLookupList(ll)
			c.Stat("ll.bytes", bucket(len(b)))
			nExt := 0
			for k := 0; k < len(ll); k++ {
				o := int(b[2+2*k])<<8 | int(b[3+2*k])
				if int(b[o])<<8|int(b[o+1]) == ext && len(ll[k].Subtables) > 0 {
					nExt++
				}
			}
			c.Stat("ll.lookups-via-extension", bucket(nExt))
			if len(b) <= 6000 || (nExt > 0 && nLargeRead < 6) {
				if len(b) > 6000 {
					nLargeRead++
				}
				o := c.Case(Verdict, "otl.ll.read", fmt.Sprintf("ext=%d data=%s", ext, hx(b)), true)
				c.Stat("ll.read-outcome", "encoded:"+outcomeClass(o))
			}
			if len(b) <= 3000 {
				m, mw := otlMutate(r, b)
				c.Stat("ll.mutation", mw)
				o := c.Case(Verdict, "otl.ll.read", fmt.Sprintf("ext=%d data=%s", ext, hx(m)), true)
				c.Stat("ll.read-outcome", "mutated:"+outcomeClass(o))
			}
			if len(b) <= 6000 {
				c.Case(Direct, "otl.ll.rt", "ll="+line, true)
				c.Case(Direct, "otl.ll.prop", fmt.Sprintf("ll=%s ext=%d data=%s", line, ext, hx(b)), true)
			} else {
				c.Case(Direct, "otl.ll.prop", fmt.Sprintf("ll=%s ext=%d sum=%s", line, ext, otlShowBytes(b)), true)
			}
		}
	}
}

// ---------------------------------------------------------------- GSUB subtables

func otlParseSeqs(s string) [][]glyph.ID {
	if s == "" {
		return nil
	}
	var out [][]glyph.ID
	for _, t := range strings.Split(s, "|") {
		var r []glyph.ID
		if t != "-" {
			for _, x := range strings.Split(t, ".") {
				v, _ := strconv.Atoi(x)
				r = append(r, glyph.ID(v))
			}
		}
		if r == nil {
			r = []glyph.ID{}
		}
		out = append(out, r)
	}
	return out
}

func otlShowSeqs(l [][]glyph.ID) string {
	parts := make([]string, len(l))
	for i, r := range l {
		if len(r) == 0 {
			parts[i] = "-"
			continue
		}
		q := make([]string, len(r))
		for k, g := range r {
			q[k] = strconv.Itoa(int(g))
		}
		parts[i] = strings.Join(q, ".")
	}
	return strings.Join(parts, "|")
}

func otlParseLigSets(s string) [][]gtab.Ligature {
	if s == "" {
		return nil
	}
	var out [][]gtab.Ligature
	for _, t := range strings.Split(s, "|") {
		set := []gtab.Ligature{}
		if t != "-" {
			for _, q := range strings.Split(t, ",") {
				i := strings.IndexByte(q, '<')
				o, _ := strconv.Atoi(q[:i])
				lig := gtab.Ligature{Out: glyph.ID(o), In: []glyph.ID{}}
				if q[i+1:] != "" {
					for _, x := range strings.Split(q[i+1:], ".") {
						v, _ := strconv.Atoi(x)
						lig.In = append(lig.In, glyph.ID(v))
					}
				}
				set = append(set, lig)
			}
		}
		out = append(out, set)
	}
	return out
}

func otlShowLigSets(l [][]gtab.Ligature) string {
	parts := make([]string, len(l))
	for i, set := range l {
		if len(set) == 0 {
			parts[i] = "-"
			continue
		}
		q := make([]string, len(set))
		for k, lig := range set {
			in := make([]string, len(lig.In))
			for j, g := range lig.In {
				in[j] = strconv.Itoa(int(g))
			}
			q[k] = fmt.Sprintf("%d<%s", lig.Out, strings.Join(in, "."))
		}
		parts[i] = strings.Join(q, ",")
	}
	return strings.Join(parts, "|")
}

func otlGids(l []glyph.ID) string {
	x := make([]int, len(l))
	for i, g := range l {
		x[i] = int(g)
	}
	return ints(x)
}

func otlGsubFromFields(f Fields) gtab.Subtable {
	cov := otlCovFromRuns(otlParseRuns(f["cov"], false))
	switch f["st"] {
	case "11":
		return &gtab.Gsub1_1{Cov: cov.ToSet(), Delta: glyph.ID(f.Int("delta"))}
	case "12":
		var subs []glyph.ID
		for _, x := range f.Ints("subs") {
			subs = append(subs, glyph.ID(x))
		}
		return &gtab.Gsub1_2{Cov: cov, SubstituteGlyphIDs: subs}
	case "21":
		return &gtab.Gsub2_1{Cov: cov, Repl: otlParseSeqs(f["seqs"])}
	case "31":
		return &gtab.Gsub3_1{Cov: cov, Alternates: otlParseSeqs(f["seqs"])}
	case "41":
		return &gtab.Gsub4_1{Cov: cov, Repl: otlParseLigSets(f["ligs"])}
	case "81":
		covs := func(k string) []coverage.Table {
			var out []coverage.Table
			for _, q := range f.List(k, "/") {
				if q == "e" {
					out = append(out, coverage.Table{})
				} else {
					out = append(out, otlCovFromRuns(otlParseRuns(q, false)))
				}
			}
			return out
		}
		var subs []glyph.ID
		for _, x := range f.Ints("subs") {
			subs = append(subs, glyph.ID(x))
		}
		return &gtab.Gsub8_1{Input: cov, Backtrack: covs("back"), Lookahead: covs("look"), SubstituteGlyphIDs: subs}
	}
	panic("bad st")
}

func otlShowSubtable(st gtab.Subtable) string {
	switch t := st.(type) {
	case *gtab.Gsub1_1:
		return fmt.Sprintf("1.1;cov=%s;delta=%d", otlGids(t.Cov.Glyphs()), t.Delta)
	case *gtab.Gsub1_2:
		return fmt.Sprintf("1.2;cov=%s;subs=%s", otlShowCov(t.Cov), otlGids(t.SubstituteGlyphIDs))
	case *gtab.Gsub2_1:
		return fmt.Sprintf("2.1;cov=%s;seqs=%s", otlShowCov(t.Cov), otlShowSeqs(t.Repl))
	case *gtab.Gsub3_1:
		return fmt.Sprintf("3.1;cov=%s;seqs=%s", otlShowCov(t.Cov), otlShowSeqs(t.Alternates))
	case *gtab.Gsub4_1:
		return fmt.Sprintf("4.1;cov=%s;ligs=%s", otlShowCov(t.Cov), otlShowLigSets(t.Repl))
	case *gtab.Gsub8_1:
		covs := func(l []coverage.Table) string {
			q := make([]string, len(l))
			for i, c := range l {
				q[i] = otlShowCov(c)
			}
			return strings.Join(q, "/")
		}
		return fmt.Sprintf("8.1;in=%s;back=%s;look=%s;subs=%s", otlShowCov(t.Input), covs(t.Backtrack), covs(t.Lookahead), otlGids(t.SubstituteGlyphIDs))
	}
	return fmt.Sprintf("other:%T", st)
}

func init() {
	ops["otl.gsub.encode"] = func(f Fields) string {
		var st gtab.Subtable
		if f["st"][0] == 'c' || f["st"][0] == 'C' {
			st = otlCtxFromFields(f)
		} else {
			st = otlGsubFromFields(f)
		}
		n := -1
		if guard(func() string { n = gtab.VerifSubtableEncodeLen(st); return "" }) != "" {
			return "panic"
		}
		out := canonPanic(guard(func() string { return "ok:" + otlShowBytes(gtab.VerifSubtableEncode(st)) }))
		return fmt.Sprintf("%s;len=%d", out, n)
	}
	ops["otl.gsub.prop"] = func(f Fields) string {
		return canonPanic(guard(func() string {
			if hx(gtab.VerifSubtableEncode(otlGsubFromFields(f))) != f["data"] {
				return "stale-case"
			}
			return "ok"
		}))
	}
	ops["otl.gsub.read"] = func(f Fields) string {
		return canonPanic(guard(func() string {
			st, err := gtab.VerifReadGsubSubtable(f.Hex("data"), 0, uint16(f.Int("type")))
			if err != nil {
				return errKind(err)
			}
			if x := otlShowCtx(st); x != "" {
				return "ok:" + x
			}
			return "ok:" + otlShowSubtable(st)
		}))
	}
}

func otlGenSeq(r *Rng, long bool) []glyph.ID {
	n := Pick(r, []int{0, 1, 1, 1, 2, 2, 3, 4, 6})
	if long {
		n = r.Range(5, 40)
	}
	out := make([]glyph.ID, n)
	for i := range out {
		out[i] = glyph.ID(Pick(r, []int{0, 1, 65535, r.Intn(65536), r.Intn(300)}))
	}
	return out
}

// otlGenGsub writes the cases for one GSUB subtable.
func otlGenGsub(c *Ctx, i int) {
	r := c.Rng
	st := Pick(r, []string{"11", "12", "12", "21", "21", "31", "41", "41", "81", "81"})
	var rs []otlRun
	for {
		rs = otlGenRuns(r, false)
		if otlCountGlyphs(rs) <= 1500 {
			break
		}
	}
	n := otlCountGlyphs(rs)
	args := ""
	what := "regular"
	switch {
	case i == 4 || i == 5:
		st = "41"
	case i == 6 || i == 7:
		st = "81"
	case i < 4: // the coverage offset at the 16-bit boundary: 65534 is written, 65536 is refused
		st = []string{"12", "12", "21", "31"}[i]
		if st == "12" {
			n = 32764 + i%2 // covOffs = 6 + 2n = 65534 / 65536
			rs = []otlRun{{0, n - 1, 0}}
		} else {
			// 6 + 2c + sum(2 + 2 len) with c sequences of length 10: 6 + 24c
			cnt := 2730 // 6 + 24*2730 = 65526
			rs = []otlRun{{0, cnt - 1, 0}}
			n = cnt
		}
		what = "boundary"
	case r.Chance(1, 12):
		what = "count-mismatch"
	}
	c.Stat("gsub.kind", st+":"+what)
	c.Stat("gsub.cov-glyphs", bucket(n))
	switch st {
	case "11":
		args = fmt.Sprintf("st=11 cov=%s delta=%d", otlRunsString(rs, false), Pick(r, []int{0, 1, 65535, r.Intn(65536)}))
	case "12":
		m := n
		if what == "count-mismatch" {
			m = max(0, n+Pick(r, []int{-2, -1, 1, 3}))
		}
		subs := make([]int, m)
		for k := range subs {
			subs[k] = r.Intn(65536)
		}
		args = fmt.Sprintf("st=12 cov=%s subs=%s", otlRunsString(rs, false), ints(subs))
	case "81":
		m := n
		if what == "count-mismatch" {
			m = max(0, n+Pick(r, []int{-2, -1, 1, 3}))
		}
		covs := func() string {
			k := r.Intn(4)
			q := make([]string, k)
			for j := range q {
				q[j] = otlRunsString(otlSmallCov(r, 40), false)
				if q[j] == "" {
					q[j] = "e"
				}
			}
			return strings.Join(q, "/")
		}
		back, look := covs(), covs()
		if i == 6 || i == 7 {
			// the lookahead coverage starts at 65534 (written) / 65536 (refused):
			// 10 + 2 + 2m + 10 (input coverage, one range) = 65534 for m = 32756
			m, n = 32756+(i%2), 32756+(i%2)
			rs = []otlRun{{0, n - 1, 0}}
			back, look = "", "40000,40002"
			what = "boundary"
		}
		subs := make([]int, m)
		for k := range subs {
			subs[k] = r.Intn(65536)
		}
		args = fmt.Sprintf("st=81 cov=%s back=%s look=%s subs=%s", otlRunsString(rs, false), back, look, ints(subs))
	case "41":
		m := n
		if what == "count-mismatch" {
			m = max(0, n+Pick(r, []int{-2, -1, 1, 3}))
		}
		if i == 4 || i == 5 {
			// coverage offset 65534 (written) / 65536 (refused): m sets of one ligature with 2 components
			// each cost 2 (offset) + 2 + 2 + 4 + 4 = 14 bytes; 6 + 14*4680 = 65526, plus 4/5 extra components
			m, n = 4680, 4680
			rs = []otlRun{{0, n - 1, 0}}
			what = "boundary"
		}
		sets := make([]string, m)
		for k := range sets {
			nl := Pick(r, []int{0, 1, 1, 2, 3})
			if what == "boundary" {
				nl = 1
			}
			q := make([]string, nl)
			for j := range q {
				nin := Pick(r, []int{0, 1, 1, 2, 3, 5})
				if what == "boundary" {
					nin = 2
					if k == 0 {
						nin = 2 + 4 + i%2 // 65534 for i == 4, 65536 for i == 5
					}
				}
				in := make([]string, nin)
				for x := range in {
					in[x] = strconv.Itoa(r.Intn(65536))
				}
				q[j] = fmt.Sprintf("%d<%s", r.Intn(65536), strings.Join(in, "."))
			}
			sets[k] = strings.Join(q, ",")
			if nl == 0 {
				sets[k] = "-"
			}
		}
		args = fmt.Sprintf("st=41 cov=%s ligs=%s", otlRunsString(rs, false), strings.Join(sets, "|"))
	default:
		m := n
		if what == "count-mismatch" {
			m = max(0, n+Pick(r, []int{-2, -1, 1, 3}))
		}
		seqs := make([][]glyph.ID, m)
		for k := range seqs {
			seqs[k] = otlGenSeq(r, r.Chance(1, 30))
		}
		if what == "boundary" {
			for k := range seqs {
				seqs[k] = make([]glyph.ID, 10)
				for q := range seqs[k] {
					seqs[k][q] = glyph.ID(r.Intn(65536))
				}
			}
			// total = 65526 + 2*extra: 65534 (written) or 65536 (refused)
			extra := 4 + i%2
			seqs[r.Intn(m)] = append(seqs[r.Intn(m)][:10:10], make([]glyph.ID, extra)...)
		}
		args = fmt.Sprintf("st=%s cov=%s seqs=%s", st, otlRunsString(rs, false), otlShowSeqs(seqs))
	}
	out := c.Case(Verdict, "otl.gsub.encode", args, true)
	c.Stat("gsub.encode-outcome", outcomeClass(out))
	if !strings.HasPrefix(out, "ok:") {
		return
	}
	f := parseFields(args)
	b := gtab.VerifSubtableEncode(otlGsubFromFields(f))
	c.Stat("gsub.bytes", bucket(len(b)))
	tp := map[string]int{"11": 1, "12": 1, "21": 2, "31": 3, "41": 4, "81": 8}[st]
	if what != "count-mismatch" && len(b) <= 30000 && st != "41" && st != "81" {
		c.Case(Direct, "otl.gsub.prop", args+" data="+hx(b), true)
	}
	if len(b) <= 30000 || what == "boundary" {
		c.Case(Verdict, "otl.gsub.read", fmt.Sprintf("type=%d data=%s", tp, hx(b)), true)
	}
	if len(b) <= 8000 {
		for k := 0; k < 3; k++ {
			m, mw := otlMutate(r, b)
			t2 := tp
			if r.Chance(1, 6) {
				t2 = Pick(r, []int{1, 2, 3, 4, 8})
			}
			c.Stat("gsub.mutation", mw)
			o := c.Case(Verdict, "otl.gsub.read", fmt.Sprintf("type=%d data=%s", t2, hx(m)), true)
			c.Stat("gsub.read-outcome", outcomeClass(o))
		}
	}
}

// ---------------------------------------------------------------- GPOS subtables

// otlVR: "-" is nil, otherwise the eight fields as unsigned 16-bit values.
func otlParseVR(s string) *gtab.GposValueRecord {
	if s == "-" {
		return nil
	}
	v := &gtab.GposValueRecord{}
	q := strings.Split(s, ".")
	rv := reflect.ValueOf(v).Elem()
	for k := 0; k < 8; k++ {
		x, _ := strconv.Atoi(q[k])
		if k < 4 {
			rv.Field(k).SetInt(int64(int16(uint16(x))))
		} else {
			rv.Field(k).SetUint(uint64(x))
		}
	}
	return v
}

// otlVRNilAsZero makes otlShowVR print a nil record as a zero record (the normal form of the
// GPOS 1.2 / 2.1 / 2.2 readers); only set inside otl.gpos.rt.
var otlVRNilAsZero bool

func otlShowVR(v *gtab.GposValueRecord) string {
	if v == nil {
		if otlVRNilAsZero {
			return "0.0.0.0.0.0.0.0"
		}
		return "-"
	}
	rv := reflect.ValueOf(v).Elem()
	q := make([]string, 8)
	for k := 0; k < 8; k++ {
		if k < 4 {
			q[k] = strconv.Itoa(int(uint16(rv.Field(k).Int())))
		} else {
			q[k] = strconv.Itoa(int(rv.Field(k).Uint()))
		}
	}
	return strings.Join(q, ".")
}

func otlGposFromFields(f Fields) gtab.Subtable {
	switch f["st"] {
	case "11":
		return &gtab.Gpos1_1{Cov: otlCovFromRuns(otlParseRuns(f["cov"], false)), Adjust: otlParseVR(f["vr"])}
	case "12":
		var vrs []*gtab.GposValueRecord
		for _, x := range f.List("vrs", ",") {
			vrs = append(vrs, otlParseVR(x))
		}
		return &gtab.Gpos1_2{Cov: otlCovFromRuns(otlParseRuns(f["cov"], false)), Adjust: vrs}
	case "41", "61":
		mc := otlCovFromRuns(otlParseRuns(f["mcov"], false))
		bc := otlCovFromRuns(otlParseRuns(f["bcov"], false))
		var marks []markarray.Record
		for _, t := range f.List("marks", ",") {
			q := strings.Split(t, ".")
			c, _ := strconv.Atoi(q[0])
			marks = append(marks, markarray.Record{Class: uint16(c), Table: otlAnchor(q[1], q[2])})
		}
		var rows [][]anchor.Table
		for _, t := range f.List("bases", ";") {
			row := []anchor.Table{}
			if t != "e" {
				for _, a := range strings.Split(t, ",") {
					q := strings.Split(a, ".")
					row = append(row, otlAnchor(q[0], q[1]))
				}
			}
			rows = append(rows, row)
		}
		if f["st"] == "41" {
			return &gtab.Gpos4_1{MarkCov: mc, BaseCov: bc, MarkArray: marks, BaseArray: rows}
		}
		return &gtab.Gpos6_1{Mark1Cov: mc, Mark2Cov: bc, Mark1Array: marks, Mark2Array: rows}
	case "31":
		l := &gtab.Gpos3_1{Cov: otlCovFromRuns(otlParseRuns(f["cov"], false))}
		for _, t := range f.List("recs", ",") {
			q := strings.Split(t, ".")
			l.Records = append(l.Records, gtab.EntryExitRecord{Entry: otlAnchor(q[0], q[1]), Exit: otlAnchor(q[2], q[3])})
		}
		return l
	case "22":
		l := &gtab.Gpos2_2{Cov: otlCovFromRuns(otlParseRuns(f["cov"], false)).ToSet(), Class1: otlClassField(f["c1"]), Class2: otlClassField(f["c2"])}
		for _, t := range f.List("rows", ";") {
			row := []*gtab.PairAdjust{}
			if t != "e" {
				for _, q := range strings.Split(t, ",") {
					vs := strings.Split(q, "/")
					row = append(row, &gtab.PairAdjust{First: otlParseVR(vs[0]), Second: otlParseVR(vs[1])})
				}
			}
			l.Adjust = append(l.Adjust, row)
		}
		return l
	case "21":
		l := gtab.Gpos2_1{}
		for _, t := range f.List("pairs", ";") {
			i := strings.IndexByte(t, '>')
			first, _ := strconv.Atoi(t[:i])
			for _, q := range strings.Split(t[i+1:], ",") {
				j := strings.IndexByte(q, ':')
				sec, _ := strconv.Atoi(q[:j])
				vs := strings.Split(q[j+1:], "/")
				l[glyph.Pair{Left: glyph.ID(first), Right: glyph.ID(sec)}] = &gtab.PairAdjust{First: otlParseVR(vs[0]), Second: otlParseVR(vs[1])}
			}
		}
		return l
	}
	panic("bad st")
}

func otlAnchor(x, y string) anchor.Table {
	var a anchor.Table
	xv, _ := strconv.Atoi(x)
	yv, _ := strconv.Atoi(y)
	reflect.ValueOf(&a.X).Elem().SetInt(int64(int16(uint16(xv))))
	reflect.ValueOf(&a.Y).Elem().SetInt(int64(int16(uint16(yv))))
	return a
}

func otlShowAnchor(a anchor.Table) string {
	return fmt.Sprintf("%d.%d", uint16(a.X), uint16(a.Y))
}

func otlShowMarkBase(tp int, mc, bc coverage.Table, marks []markarray.Record, rows [][]anchor.Table) string {
	ms := make([]string, len(marks))
	for i, m := range marks {
		ms[i] = fmt.Sprintf("%d.%s", m.Class, otlShowAnchor(m.Table))
	}
	rs := make([]string, len(rows))
	for i, row := range rows {
		if len(row) == 0 {
			rs[i] = "e"
			continue
		}
		q := make([]string, len(row))
		for j, a := range row {
			q[j] = otlShowAnchor(a)
		}
		rs[i] = strings.Join(q, ",")
	}
	return fmt.Sprintf("%d.1;mcov=%s;bcov=%s;marks=%s;bases=%s", tp, otlShowCov(mc), otlShowCov(bc), strings.Join(ms, ","), strings.Join(rs, ";"))
}

func otlShowGpos(st gtab.Subtable) string {
	switch t := st.(type) {
	case *gtab.Gpos4_1:
		return otlShowMarkBase(4, t.MarkCov, t.BaseCov, t.MarkArray, t.BaseArray)
	case *gtab.Gpos6_1:
		return otlShowMarkBase(6, t.Mark1Cov, t.Mark2Cov, t.Mark1Array, t.Mark2Array)
	case *gtab.Gpos3_1:
		q := make([]string, len(t.Records))
		for i, r := range t.Records {
			q[i] = otlShowAnchor(r.Entry) + "." + otlShowAnchor(r.Exit)
		}
		return fmt.Sprintf("3.1;cov=%s;recs=%s", otlShowCov(t.Cov), strings.Join(q, ","))
	case *gtab.Gpos2_2:
		rs := make([]string, len(t.Adjust))
		for i, row := range t.Adjust {
			if len(row) == 0 {
				rs[i] = "e"
				continue
			}
			q := make([]string, len(row))
			for j, a := range row {
				q[j] = otlShowVR(a.First) + "/" + otlShowVR(a.Second)
			}
			rs[i] = strings.Join(q, ",")
		}
		return fmt.Sprintf("2.2;cov=%s;c1=%s;c2=%s;rows=%s", otlGids(t.Cov.Glyphs()), otlShowClass(t.Class1), otlShowClass(t.Class2), strings.Join(rs, ";"))
	case *gtab.Gpos1_1:
		return fmt.Sprintf("1.1;cov=%s;vr=%s", otlShowCov(t.Cov), otlShowVR(t.Adjust))
	case *gtab.Gpos1_2:
		q := make([]string, len(t.Adjust))
		for i, v := range t.Adjust {
			q[i] = otlShowVR(v)
		}
		return fmt.Sprintf("1.2;cov=%s;vrs=%s", otlShowCov(t.Cov), strings.Join(q, ","))
	case gtab.Gpos2_1:
		byFirst := map[int][]int{}
		for p := range t {
			byFirst[int(p.Left)] = append(byFirst[int(p.Left)], int(p.Right))
		}
		firsts := make([]int, 0, len(byFirst))
		for g := range byFirst {
			firsts = append(firsts, g)
		}
		sort.Ints(firsts)
		groups := make([]string, len(firsts))
		for i, g := range firsts {
			secs := byFirst[g]
			sort.Ints(secs)
			q := make([]string, len(secs))
			for k, s2 := range secs {
				a := t[glyph.Pair{Left: glyph.ID(g), Right: glyph.ID(s2)}]
				q[k] = fmt.Sprintf("%d:%s/%s", s2, otlShowVR(a.First), otlShowVR(a.Second))
			}
			groups[i] = fmt.Sprintf("%d>%s", g, strings.Join(q, ","))
		}
		return "2.1;" + strings.Join(groups, ";")
	}
	return fmt.Sprintf("other:%T", st)
}

func init() {
	ops["otl.gpos.encode"] = func(f Fields) string {
		st := otlGposFromFields(f)
		n := -1
		if guard(func() string { n = gtab.VerifSubtableEncodeLen(st); return "" }) != "" {
			return "panic"
		}
		out := canonPanic(guard(func() string { return "ok:" + otlShowBytes(gtab.VerifSubtableEncode(st)) }))
		return fmt.Sprintf("%s;len=%d", out, n)
	}
	// every GPOS subtable through the real code: Encode (a panic is a loud refusal) then Read gives the
	// subtable back, value records compared with nil = zeros
	ops["otl.gpos.rt"] = func(f Fields) string {
		return canonPanic(guard(func() string {
			st := otlGposFromFields(f)
			var b []byte
			if guard(func() string { b = gtab.VerifSubtableEncode(st); return "" }) != "" {
				return "ok"
			}
			tp := map[string]int{"11": 1, "12": 1, "21": 2, "22": 2, "31": 3, "41": 4, "61": 6}[f["st"]]
			out, err := gtab.VerifReadGposSubtable(b, 0, uint16(tp))
			if err != nil {
				return "fail:" + errKind(err)
			}
			otlVRNilAsZero = true
			defer func() { otlVRNilAsZero = false }()
			want, got := otlShowGpos(st), otlShowGpos(out)
			if want != got {
				k := 0
				for k < len(want) && k < len(got) && want[k] == got[k] {
					k++
				}
				lo, hiW, hiG := max(0, k-20), min(len(want), k+30), min(len(got), k+30)
				return fmt.Sprintf("fail:wrote[%s]read[%s]", want[lo:hiW], got[lo:hiG])
			}
			return "ok"
		}))
	}
	// |encode()| = encodeLen() on the real code, for every GPOS subtable; the line carries both numbers
	ops["otl.gpos.len"] = func(f Fields) string {
		return canonPanic(guard(func() string {
			st := otlGposFromFields(f)
			if len(gtab.VerifSubtableEncode(st)) != f.Int("size") || gtab.VerifSubtableEncodeLen(st) != f.Int("declared") {
				return "stale-case"
			}
			return "ok"
		}))
	}
	ops["otl.gpos.read"] = func(f Fields) string {
		return canonPanic(guard(func() string {
			st, err := gtab.VerifReadGposSubtable(f.Hex("data"), 0, uint16(f.Int("type")))
			if err != nil {
				return errKind(err)
			}
			return "ok:" + otlShowGpos(st)
		}))
	}
}

func otlGenVR(r *Rng) string {
	switch r.Intn(8) {
	case 0:
		return "-"
	case 1:
		return "0.0.0.0.0.0.0.0"
	}
	q := make([]string, 8)
	mask := Pick(r, []int{4, 4, 1, 5, 15, 0x84, 0xFF, r.Intn(256)})
	for k := range q {
		v := 0
		if mask>>k&1 == 1 {
			v = Pick(r, []int{1, 65535, 32768, 32767, r.Intn(65536), r.Intn(200)})
		}
		q[k] = strconv.Itoa(v)
	}
	return strings.Join(q, ".")
}

func otlGenAnchor(r *Rng) string {
	if r.Chance(1, 5) {
		return "0.0"
	}
	coord := func() int { return Pick(r, []int{0, 0, 1, 65535, 32768, 32767, r.Intn(500), 65536 - 1 - r.Intn(500), r.Intn(65536)}) }
	return fmt.Sprintf("%d.%d", coord(), coord())
}

func otlSmallCov(r *Rng, maxGlyphs int) []otlRun {
	for {
		rs := otlGenRuns(r, false)
		if otlCountGlyphs(rs) <= maxGlyphs {
			return rs
		}
	}
}

// otlGenGposMark writes the cases for a GPOS 2.2 / 3.1 / 4.1 / 6.1 subtable.
func otlGenGposMark(c *Ctx, i int) {
	r := c.Rng
	st := Pick(r, []string{"41", "41", "61", "31", "22", "22"})
	what := "regular"
	args := ""
	tp := map[string]int{"41": 4, "61": 6, "31": 3, "22": 2}[st]
	if i < 8 {
		st = []string{"41", "41", "61", "61", "31", "31", "22", "22"}[i]
		tp = map[string]int{"41": 4, "61": 6, "31": 3, "22": 2}[st]
		what = []string{"boundary-ok", "boundary-refused"}[i%2]
	}
	switch st {
	case "41", "61":
		mrs, brs := otlSmallCov(r, 60), otlSmallCov(r, 60)
		nm, nb := otlCountGlyphs(mrs), otlCountGlyphs(brs)
		nc := r.Range(1, 4)
		if what != "regular" {
			// last anchor offset inside the base array at 65534 / above: 2 + 2*nb*nc + 6*(anchors-1);
			// nb = 2046 bases x 4 classes: 2 + 16368 + 6*8183 = 65468; pad with i%2 more rows
			nc = 4
			nb = 2048 + (i % 2)
			brs = []otlRun{{0, nb - 1, 0}}
			mrs = []otlRun{{40000, 40000, 0}}
			nm = 1
		}
		marks := make([]string, nm)
		for k := range marks {
			marks[k] = fmt.Sprintf("%d.%s", r.Intn(nc), otlGenAnchor(r))
		}
		rows := make([]string, nb)
		for k := range rows {
			q := make([]string, nc)
			for j := range q {
				q[j] = otlGenAnchor(r)
				if what != "regular" {
					q[j] = fmt.Sprintf("%d.%d", 1+k%100, 1+j)
				}
			}
			rows[k] = strings.Join(q, ",")
		}
		if what == "regular" && r.Chance(1, 10) && nm > 0 {
			marks = marks[:nm-1]
			what = "count-mismatch"
		}
		args = fmt.Sprintf("st=%s mcov=%s bcov=%s marks=%s bases=%s", st, otlRunsString(mrs, false), otlRunsString(brs, false), strings.Join(marks, ","), strings.Join(rows, ";"))
	case "31":
		rs := otlSmallCov(r, 200)
		n := otlCountGlyphs(rs)
		if what != "regular" {
			n = 4095 + (i % 2) // 6 + 4n + 12n = 65526 / 65542
			rs = []otlRun{{0, n - 1, 0}}
		}
		recs := make([]string, n)
		for k := range recs {
			recs[k] = otlGenAnchor(r) + "." + otlGenAnchor(r)
			if r.Chance(1, 3) { // entry and exit anchor identical
				a := otlGenAnchor(r)
				recs[k] = a + "." + a
			}
			if what != "regular" {
				recs[k] = fmt.Sprintf("%d.1.2.%d", 1+k%50, 1+k%70)
			}
		}
		args = fmt.Sprintf("st=31 cov=%s recs=%s", otlRunsString(rs, false), strings.Join(recs, ","))
	case "22":
		rs := otlSmallCov(r, 100)
		n1, n2 := r.Range(0, 5), r.Range(0, 5)
		if what != "regular" {
			n1, n2 = 128, 128+(i%2)*2 // 16 + 128*128*4 = 65552 ... see below
		}
		cls := func(n int) string {
			if n == 0 {
				return "empty"
			}
			var q []otlRun
			g := r.Intn(50)
			for k := 1; k < n; k++ {
				q = append(q, otlRun{g, g + r.Intn(3), k})
				g += 3 + r.Intn(10)
			}
			if len(q) == 0 {
				return "empty"
			}
			return otlRunsString(q, true)
		}
		rows := make([]string, n1)
		for k := range rows {
			q := make([]string, n2)
			for j := range q {
				q[j] = otlGenVR(r) + "/" + Pick(r, []string{"-", "-", otlGenVR(r)})
				if what != "regular" {
					q[j] = fmt.Sprintf("0.0.%d.0.0.0.0.0/-", 1+(k+j)%9)
				}
			}
			rows[k] = strings.Join(q, ",")
			if n2 == 0 {
				rows[k] = "e"
			}
		}
		c1, c2 := cls(n1), cls(n2)
		if what != "regular" {
			// one value per pair: 16 + 2*n1*n2 (+ coverage 4+... + class1) must straddle 0xFFFF:
			// n1 = 181, n2 = 181: 16 + 65522 = 65538 -> choose n2 so that classDef2Offset is 65534 / 65536+
			n1 = 180
			n2 = 181 + (i % 2)
			rows = make([]string, n1)
			for k := range rows {
				q := make([]string, n2)
				for j := range q {
					q[j] = fmt.Sprintf("0.0.%d.0.0.0.0.0/-", 1+(k+j)%9)
				}
				rows[k] = strings.Join(q, ",")
			}
			rs = []otlRun{{0, 9, 0}}
			c1, c2 = "5:1", "7:1"
		}
		args = fmt.Sprintf("st=22 cov=%s c1=%s c2=%s rows=%s", otlRunsString(rs, false), c1, c2, strings.Join(rows, ";"))
	}
	c.Stat("gposmark.kind", st+":"+what)
	out := c.Case(Verdict, "otl.gpos.encode", args, true)
	c.Stat("gposmark.encode-outcome", outcomeClass(out))
	if what != "count-mismatch" {
		c.Case(Direct, "otl.gpos.rt", args, true)
	}
	if strings.HasPrefix(out, "ok:") {
		x := otlGposFromFields(parseFields(args))
		c.Case(Direct, "otl.gpos.len", fmt.Sprintf("%s size=%d declared=%d", args, len(gtab.VerifSubtableEncode(x)), gtab.VerifSubtableEncodeLen(x)), true)
	}
	if !strings.HasPrefix(out, "ok:") {
		return
	}
	b := gtab.VerifSubtableEncode(otlGposFromFields(parseFields(args)))
	c.Stat("gposmark.bytes", bucket(len(b)))
	if len(b) <= 30000 || what != "regular" {
		o := c.Case(Verdict, "otl.gpos.read", fmt.Sprintf("type=%d data=%s", tp, hx(b)), true)
		c.Stat("gposmark.read-outcome", "encoded:"+outcomeClass(o))
	}
	if len(b) <= 6000 {
		for k := 0; k < 3; k++ {
			m, mw := otlMutate(r, b)
			t2 := tp
			if r.Chance(1, 6) {
				t2 = Pick(r, []int{1, 2, 3, 4, 6})
			}
			c.Stat("gposmark.mutation", mw)
			o := c.Case(Verdict, "otl.gpos.read", fmt.Sprintf("type=%d data=%s", t2, hx(m)), true)
			c.Stat("gposmark.read-outcome", "mutated:"+outcomeClass(o))
		}
	}
}

// otlGenGpos writes the cases for one GPOS subtable.
func otlGenGpos(c *Ctx, i int) {
	r := c.Rng
	st := Pick(r, []string{"11", "12", "12", "21", "21"})
	what := "regular"
	var rs []otlRun
	for {
		rs = otlGenRuns(r, false)
		if otlCountGlyphs(rs) <= 600 {
			break
		}
	}
	n := otlCountGlyphs(rs)
	args := ""
	switch {
	case i == 0: // GPOS 1.2 with the coverage offset at the 16-bit boundary: 8 + 2n = 65534
		st, what = "12", "boundary-ok"
		n = 32763
		rs = []otlRun{{0, n - 1, 0}}
	case i == 1: // ... and 65536: refused
		st, what = "12", "boundary-refused"
		n = 32764
		rs = []otlRun{{0, n - 1, 0}}
	case i == 2 || i == 3: // GPOS 2.1 whose last pair set starts at 65534 / 65536
		st = "21"
		what = "boundary-ok"
		if i == 3 {
			what = "boundary-refused"
		}
	}
	c.Stat("gpos.kind", st+":"+what)
	switch st {
	case "11":
		args = fmt.Sprintf("st=11 cov=%s vr=%s", otlRunsString(rs, false), otlGenVR(r))
	case "12":
		vrs := make([]string, n)
		one := otlGenVR(r)
		for k := range vrs {
			if strings.HasPrefix(what, "boundary") {
				vrs[k] = fmt.Sprintf("0.0.%d.0.0.0.0.0", 1+k%9)
			} else if r.Chance(1, 3) {
				vrs[k] = one
			} else {
				vrs[k] = otlGenVR(r)
			}
		}
		if what == "regular" && r.Chance(1, 12) && n > 0 {
			vrs = vrs[:len(vrs)-1]
			what = "count-mismatch"
		}
		args = fmt.Sprintf("st=12 cov=%s vrs=%s", otlRunsString(rs, false), strings.Join(vrs, ","))
	case "21":
		var groups []string
		nFirst := r.Range(0, 12)
		first := r.Intn(200)
		if strings.HasPrefix(what, "boundary") {
			// 2 first glyphs; header 10+4, coverage 4+2*2=8 -> the second pair set starts at
			// 22 + 2 + 4*k for k pairs with one value each; 65534 = 24 + 4*16377 + 2 ... use k so that
			// the start is 65534 (i==2) or, with one more glyph pair and padding, 65536 (i==3)
			k := 16377 // 22 + 2 + 4*16377 = 65532
			if i == 3 {
				k = 16378 // 65536
			}
			q := make([]string, k)
			for j := range q {
				q[j] = fmt.Sprintf("%d:0.0.%d.0.0.0.0.0/-", j, 1+j%5)
			}
			groups = append(groups, "5>"+strings.Join(q, ","), "9>7:0.0.3.0.0.0.0.0/-")
			if i == 2 {
				what = "boundary-ok"
			}
		} else {
			for a := 0; a < nFirst; a++ {
				nSec := r.Range(1, 6)
				sec := r.Intn(300)
				q := make([]string, nSec)
				for j := range q {
					q[j] = fmt.Sprintf("%d:%s/%s", sec, otlGenVR(r), Pick(r, []string{"-", "-", otlGenVR(r)}))
					sec += r.Range(1, 50)
				}
				groups = append(groups, fmt.Sprintf("%d>%s", first, strings.Join(q, ",")))
				first += r.Range(1, 40)
			}
		}
		args = "st=21 pairs=" + strings.Join(groups, ";")
	}
	out := c.Case(Verdict, "otl.gpos.encode", args, true)
	c.Stat("gpos.encode-outcome", outcomeClass(out))
	if what == "regular" || strings.HasPrefix(what, "boundary") {
		c.Case(Direct, "otl.gpos.rt", args, true)
	}
	if strings.HasPrefix(out, "ok:") {
		x := otlGposFromFields(parseFields(args))
		c.Case(Direct, "otl.gpos.len", fmt.Sprintf("%s size=%d declared=%d", args, len(gtab.VerifSubtableEncode(x)), gtab.VerifSubtableEncodeLen(x)), true)
	}
	if !strings.HasPrefix(out, "ok:") {
		return
	}
	b := gtab.VerifSubtableEncode(otlGposFromFields(parseFields(args)))
	c.Stat("gpos.bytes", bucket(len(b)))
	tp := map[string]int{"11": 1, "12": 1, "21": 2}[st]
	if len(b) <= 30000 || strings.HasPrefix(what, "boundary") {
		c.Case(Verdict, "otl.gpos.read", fmt.Sprintf("type=%d data=%s", tp, hx(b)), true)
	}
	if len(b) <= 6000 {
		for k := 0; k < 3; k++ {
			m, mw := otlMutate(r, b)
			t2 := tp
			if r.Chance(1, 6) {
				t2 = r.Range(1, 2)
			}
			c.Stat("gpos.mutation", mw)
			o := c.Case(Verdict, "otl.gpos.read", fmt.Sprintf("type=%d data=%s", t2, hx(m)), true)
			c.Stat("gpos.read-outcome", outcomeClass(o))
		}
	}
}

// ---------------------------------------------------------------- feature lists

func otlParseFL(s string) gtab.FeatureListInfo {
	fl := gtab.FeatureListInfo{}
	if s == "" {
		return fl
	}
	for _, t := range strings.Split(s, "|") {
		i := strings.IndexByte(t, ':')
		f := &gtab.Feature{Tag: string(mustHex(t[:i]))}
		if t[i+1:] != "-" {
			for _, x := range strings.Split(t[i+1:], ".") {
				v, _ := strconv.Atoi(x)
				f.Lookups = append(f.Lookups, gtab.LookupIndex(v))
			}
		}
		fl = append(fl, f)
	}
	return fl
}

func otlShowFL(fl gtab.FeatureListInfo) string {
	parts := make([]string, len(fl))
	for i, f := range fl {
		ls := "-"
		if len(f.Lookups) > 0 {
			q := make([]string, len(f.Lookups))
			for k, l := range f.Lookups {
				q[k] = strconv.Itoa(int(l))
			}
			ls = strings.Join(q, ".")
		}
		parts[i] = hx([]byte(f.Tag)) + ":" + ls
	}
	return strings.Join(parts, "|")
}

func init() {
	ops["otl.fl.encode"] = func(f Fields) string {
		return canonPanic(guard(func() string {
			return "ok:" + otlShowBytes(gtab.VerifEncodeFeatureList(otlParseFL(f["fl"])))
		}))
	}
	// the result of the real readFeatureList, to be judged by the specification reader
	ops["otl.fl.spec"] = func(f Fields) string {
		return canonPanic(guard(func() string {
			fl, err := gtab.VerifReadFeatureList(f.Hex("data"), 0)
			if err != nil || otlShowFL(fl) != f["got"] {
				return "stale-case"
			}
			return "ok"
		}))
	}
	// post-condition of the subtable readers: every coverage index is an index of the array it indexes
	ops["otl.sub.inrange"] = func(f Fields) string {
		return canonPanic(guard(func() string {
			var st gtab.Subtable
			var err error
			if f["kind"] == "gpos" {
				st, err = gtab.VerifReadGposSubtable(f.Hex("data"), 0, uint16(f.Int("type")))
			} else {
				st, err = gtab.VerifReadGsubSubtable(f.Hex("data"), 0, uint16(f.Int("type")))
			}
			if err != nil {
				return "ok"
			}
			chk := func(name string, cov coverage.Table, n int) string {
				for g, idx := range cov {
					if idx < 0 || idx >= n {
						return fmt.Sprintf("fail:%s[%d]=%d>=%d", name, g, idx, n)
					}
				}
				return ""
			}
			res := ""
			switch t := st.(type) {
			case *gtab.Gsub1_2:
				res = chk("Cov", t.Cov, len(t.SubstituteGlyphIDs))
			case *gtab.Gsub2_1:
				res = chk("Cov", t.Cov, len(t.Repl))
			case *gtab.Gsub3_1:
				res = chk("Cov", t.Cov, len(t.Alternates))
			case *gtab.Gsub4_1:
				res = chk("Cov", t.Cov, len(t.Repl))
			case *gtab.Gsub8_1:
				res = chk("Input", t.Input, len(t.SubstituteGlyphIDs))
			case *gtab.Gpos1_2:
				res = chk("Cov", t.Cov, len(t.Adjust))
			case *gtab.Gpos3_1:
				res = chk("Cov", t.Cov, len(t.Records))
			case *gtab.Gpos4_1:
				res = chk("MarkCov", t.MarkCov, len(t.MarkArray)) + chk("BaseCov", t.BaseCov, len(t.BaseArray))
			case *gtab.Gpos6_1:
				res = chk("Mark1Cov", t.Mark1Cov, len(t.Mark1Array)) + chk("Mark2Cov", t.Mark2Cov, len(t.Mark2Array))
			case *gtab.SeqContext1:
				res = chk("Cov", t.Cov, len(t.Rules))
			case *gtab.ChainedSeqContext1:
				res = chk("Cov", t.Cov, len(t.Rules))
			}
			if res != "" {
				return res
			}
			return "ok"
		}))
	}
	ops["otl.fl.read"] = func(f Fields) string {
		return canonPanic(guard(func() string {
			fl, err := gtab.VerifReadFeatureList(f.Hex("data"), 0)
			if err != nil {
				return errKind(err)
			}
			return "ok:" + otlShowFL(fl)
		}))
	}
}

// otlFLRead: the reader on these bytes (V), and - if it accepts them - its result before the
// specification reader (D)
func otlFLRead(c *Ctx, b []byte, nontrivial bool) string {
	o := c.Case(Verdict, "otl.fl.read", "data="+hx(b), nontrivial)
	if strings.HasPrefix(o, "ok:") {
		c.Case(Direct, "otl.fl.spec", fmt.Sprintf("data=%s got=%s", hx(b), o[3:]), nontrivial)
	}
	return o
}

// otlFLCrafted: feature lists the encoder never writes: records sharing one feature table, the same
// tag twice, tags out of order, overlapping tables
func otlFLCrafted(c *Ctx) {
	w := func(ws ...int) []byte {
		b := make([]byte, 0, 2*len(ws))
		for _, x := range ws {
			b = append(b, byte(x>>8), byte(x))
		}
		return b
	}
	rec := func(tag string, off int) []byte { return append([]byte(tag), byte(off>>8), byte(off)) }
	cat := func(parts ...[]byte) []byte {
		var b []byte
		for _, p := range parts {
			b = append(b, p...)
		}
		return b
	}
	for _, b := range [][]byte{
		// three records, one table
		cat(w(3), rec("aaaa", 20), rec("bbbb", 20), rec("cccc", 20), w(0, 2, 5, 7)),
		// two records share the first table, the third has its own
		cat(w(3), rec("kern", 20), rec("liga", 20), rec("mark", 26), w(0, 1, 3), w(0, 2, 1, 2)),
		// the second and third record share a table
		cat(w(3), rec("kern", 20), rec("liga", 26), rec("mark", 26), w(0, 1, 3), w(0, 2, 1, 2)),
		// first and last share
		cat(w(3), rec("kern", 20), rec("liga", 26), rec("mark", 20), w(0, 1, 3), w(0, 0)),
		// the same tag twice, different tables
		cat(w(2), rec("liga", 14), rec("liga", 20), w(0, 1, 3), w(0, 1, 4)),
		// the same tag twice, one table
		cat(w(2), rec("liga", 14), rec("liga", 14), w(0, 1, 3)),
		// tags out of order, tables in reverse order
		cat(w(3), rec("zzzz", 30), rec("mmmm", 26), rec("aaaa", 20), w(0, 1, 1), w(0, 0), w(0, 1, 9)),
		// overlapping tables: the second starts inside the first
		cat(w(2), rec("aaaa", 14), rec("bbbb", 16), w(0, 2, 0, 1, 6)),
		// shared table with feature parameters offset set
		cat(w(2), rec("ss01", 14), rec("ss02", 14), w(4, 1, 2)),
	} {
		o := otlFLRead(c, b, true)
		c.Stat("fl.crafted", outcomeClass(o))
	}
}

// otlGenFL writes the cases for one feature list.
func otlGenFL(c *Ctx, i int) {
	r := c.Rng
	n := Pick(r, []int{0, 1, 2, 3, 5, 8, 20, 60})
	what := "regular"
	lk := func() int { return Pick(r, []int{0, 0, 1, 1, 2, 3, 7}) }
	switch i {
	case 0: // the last feature table starts at 65534 (written) ...
		n, what = 6553, "boundary-ok" // 2 + 6n = 39320; tables 4 bytes each -> last offset 39320 + 4*6552 = 65528
	case 1: // ... or above 0xFFFF (refused)
		n, what = 6554, "boundary-refused"
	case 2:
		what = "short-tag"
	}
	parts := make([]string, n)
	for k := range parts {
		tag := Pick(r, []string{"kern", "liga", "mark", "ss01", "c2sc", string(r.Bytes(4))})
		nl := lk()
		if strings.HasPrefix(what, "boundary") {
			nl = 0
			if k == 0 {
				nl = 3 // 65528 + 6 = 65534 for n = 6553; 65538 for n = 6554
			}
		}
		if what == "short-tag" && k == n/2 {
			tag = "ab"
		}
		ls := "-"
		if nl > 0 {
			q := make([]string, nl)
			for j := range q {
				q[j] = strconv.Itoa(Pick(r, []int{0, 1, 2, 65535, r.Intn(300)}))
			}
			ls = strings.Join(q, ".")
		}
		parts[k] = hx([]byte(tag)) + ":" + ls
	}
	c.Stat("fl.kind", what)
	c.Stat("fl.features", bucket(n))
	line := "fl=" + strings.Join(parts, "|")
	out := c.Case(Verdict, "otl.fl.encode", line, n >= 2)
	c.Stat("fl.encode-outcome", outcomeClass(out))
	if !strings.HasPrefix(out, "ok:") {
		return
	}
	b := gtab.VerifEncodeFeatureList(otlParseFL(strings.TrimPrefix(line, "fl=")))
	otlFLRead(c, b, n >= 2)
	if len(b) <= 4000 {
		for k := 0; k < 2; k++ {
			m, mw := otlMutate(r, b)
			c.Stat("fl.mutation", mw)
			o := otlFLRead(c, m, true)
			c.Stat("fl.read-outcome", outcomeClass(o))
		}
	}
}

// ---------------------------------------------------------------- readLookupList

func init() {
	ops["otl.ll.read"] = func(f Fields) string {
		return canonPanic(guard(func() string {
			ll, err := gtab.VerifReadLookupList(f.Hex("data"), 0, uint16(f.Int("ext")))
			if err != nil {
				return errKind(err)
			}
			parts := make([]string, len(ll))
			for i, l := range ll {
				ps := make([]string, len(l.Subtables))
				for j, st := range l.Subtables {
					r, ok := st.(*gtab.VerifRef)
					if !ok {
						return fmt.Sprintf("unresolved:%T", st)
					}
					ps[j] = strconv.FormatInt(r.Pos, 10)
				}
				parts[i] = fmt.Sprintf("%d/%d/%d/%s", l.Meta.LookupType, l.Meta.LookupFlags, l.Meta.MarkFilteringSet, strings.Join(ps, "|"))
			}
			return "ok:" + strings.Join(parts, ";")
		}))
	}
}

// otlSynthLL builds a small lookup list by hand, with extension lookups whose records point to
// nearby positions (real extension records only arise above 64 KiB).
func otlSynthLL(r *Rng, ext int) []byte {
	w := func(b []byte, v int) []byte { return append(b, byte(v>>8), byte(v)) }
	n := r.Range(0, 5)
	type lk struct{ hdr, body []byte }
	var lks []lk
	for i := 0; i < n; i++ {
		isExt := r.Chance(1, 2)
		tp := Pick(r, []int{1, 2, 4, 5, 6, 8})
		if isExt {
			tp = ext
		}
		flags := Pick(r, []int{0, 1, 16, 0x10 | 0x0200})
		ns := r.Range(0, 4)
		hdrLen := 6 + 2*ns
		if flags&16 != 0 {
			hdrLen += 2
		}
		var hdr, body []byte
		hdr = w(hdr, tp)
		hdr = w(hdr, flags)
		hdr = w(hdr, ns)
		et := Pick(r, []int{1, 2, 4})
		for j := 0; j < ns; j++ {
			hdr = w(hdr, hdrLen+len(body))
			if isExt {
				e := et
				if r.Chance(1, 12) {
					e = Pick(r, []int{ext, 3}) // inconsistent / self-referring extension type
				}
				body = w(body, Pick(r, []int{1, 1, 1, 1, 1, 2}))
				body = w(body, e)
				off := r.Intn(40)
				body = w(body, Pick(r, []int{0, 0, 0, 1}))
				body = w(body, off)
			} else {
				body = append(body, r.Bytes(r.Range(0, 6))...)
			}
		}
		if flags&16 != 0 {
			hdr = w(hdr, r.Intn(5))
		}
		lks = append(lks, lk{hdr, body})
	}
	var out []byte
	out = w(out, n)
	pos := 2 + 2*n
	for _, l := range lks {
		out = w(out, pos)
		pos += len(l.hdr) + len(l.body)
	}
	for _, l := range lks {
		out = append(out, l.hdr...)
		out = append(out, l.body...)
	}
	return out
}

// ---------------------------------------------------------------- GDEF

func otlClassField(s string) classdef.Table {
	switch s {
	case "-":
		return nil
	case "empty":
		return classdef.Table{}
	}
	return otlClassFromRuns(otlParseRuns(s, true))
}

func otlGdefFromFields(f Fields) *gdef.Table {
	t := &gdef.Table{GlyphClass: otlClassField(f["gc"]), MarkAttachClass: otlClassField(f["mac"])}
	switch f["sets"] {
	case "-":
	case "none":
		t.MarkGlyphSets = []coverage.Set{}
	default:
		for _, q := range strings.Split(f["sets"], ";") {
			set := coverage.Set{}
			if q != "e" {
				for _, r := range otlParseRuns(q, false) {
					for g := r.a; g <= r.b; g++ {
						set[glyph.ID(g)] = true
					}
				}
			}
			t.MarkGlyphSets = append(t.MarkGlyphSets, set)
		}
	}
	return t
}

func init() {
	ops["otl.gdef.encode"] = func(f Fields) string {
		return canonPanic(guard(func() string { return "ok:" + otlShowBytes(otlGdefFromFields(f).Encode()) }))
	}
	// GDEF through the real code: Encode (a panic is a loud refusal) then Read gives the same class
	// functions and the same mark glyph sets
	ops["otl.gdef.rt"] = func(f Fields) string {
		return canonPanic(guard(func() string {
			t := otlGdefFromFields(f)
			var b []byte
			if guard(func() string { b = t.Encode(); return "" }) != "" {
				return "ok"
			}
			out, err := gdef.Read(bytes.NewReader(b))
			if err != nil {
				return "fail:" + errKind(err)
			}
			same := func(a, c classdef.Table) bool {
				for g, v := range a {
					if c[g] != v {
						return false
					}
				}
				for g, v := range c {
					if a[g] != v {
						return false
					}
				}
				return true
			}
			if !same(t.GlyphClass, out.GlyphClass) {
				return "fail:GlyphClass"
			}
			if !same(t.MarkAttachClass, out.MarkAttachClass) {
				return "fail:MarkAttachClass"
			}
			if len(t.MarkGlyphSets) != len(out.MarkGlyphSets) {
				return "fail:MarkGlyphSets"
			}
			for i, set := range t.MarkGlyphSets {
				if otlGids(set.Glyphs()) != otlGids(out.MarkGlyphSets[i].Glyphs()) {
					return "fail:MarkGlyphSets"
				}
			}
			return "ok"
		}))
	}
	ops["otl.gdef.read"] = func(f Fields) string {
		return canonPanic(guard(func() string {
			t, err := gdef.Read(bytes.NewReader(f.Hex("data")))
			if err != nil {
				return errKind(err)
			}
			cls := func(c classdef.Table) string {
				if c == nil {
					return "-"
				}
				return otlShowClass(c)
			}
			sets := "-"
			if t.MarkGlyphSets != nil {
				sets = ""
				for _, set := range t.MarkGlyphSets {
					sets += "{" + otlGids(set.Glyphs()) + "}"
				}
			}
			return fmt.Sprintf("ok:gc=%s;mac=%s;sets=%s", cls(t.GlyphClass), cls(t.MarkAttachClass), sets)
		}))
	}
}

// otlGenGdef writes the cases for one GDEF table.
func otlGenGdef(c *Ctx, i int) {
	r := c.Rng
	small := func(classes bool) []otlRun {
		for {
			rs := otlGenRuns(r, classes)
			if len(rs) <= 120 {
				if classes {
					for k := range rs {
						if rs[k].c > 4 {
							rs[k].c = 1 + rs[k].c%4
						}
					}
				}
				return rs
			}
		}
	}
	cls := func() string {
		switch r.Intn(6) {
		case 0:
			return "-"
		case 1:
			return "empty"
		}
		rs := small(true)
		if len(rs) == 0 {
			return "empty"
		}
		return otlRunsString(rs, true)
	}
	gc, mac := cls(), cls()
	sets := "-"
	switch r.Intn(5) {
	case 0:
	case 1:
		sets = "none"
	default:
		n := r.Range(1, 5)
		q := make([]string, n)
		for k := range q {
			rs := small(false)
			// glyph sets need maximal runs: merge is not needed, runs are disjoint and increasing
			q[k] = otlRunsString(rs, false)
			if q[k] == "" {
				q[k] = "e"
			}
		}
		sets = strings.Join(q, ";")
	}
	what := "regular"
	switch i {
	case 0, 1: // the mark attachment class table starts at 65534 (written) / 65536 (refused):
		// glyph class table in format 1 over n glyphs with alternating classes: 6 + 2n bytes after the 12-byte header
		n := 32758 + i // 12 + 6 + 2n = 65534 / 65536
		var rs []otlRun
		for g := 0; g < n; g++ {
			rs = append(rs, otlRun{g, g, 1 + g%2})
		}
		gc, mac, sets = otlRunsString(rs, true), "5:1", "-"
		what = []string{"boundary-ok", "boundary-refused"}[i]
	case 6, 7, 8, 9: // three / four mark glyph sets: the third coverage table lies 65536-2 / 65536 / 65536+2 bytes
		// behind the first one (format 1, 4+2m bytes: even gids 0..32762 = 32768 bytes)
		step := func(from, m int) string {
			q := make([]string, m)
			for k := range q {
				q[k] = strconv.Itoa(from + 2*k)
			}
			return strings.Join(q, ",")
		}
		d := []int{-1, 0, 1, 0}[i-6]
		gc, mac = "3:1,5:3", "-"
		sets = step(0, 16382) + ";" + step(1, 16382+d) + ";5,9"
		if i == 9 {
			sets = "40000;" + sets // first offset 20 instead of 16
		}
		what = "offsets-mod-65536"
	case 2, 3, 4, 5: // the same with mark glyph sets (header 14 bytes), and far above the limit
		n := []int{32757, 32758, 40000, 40000}[i-2] // 14 + 6 + 2n = 65534 / 65536
		var rs []otlRun
		for g := 0; g < n; g++ {
			rs = append(rs, otlRun{g, g, 1 + g%2})
		}
		gc, mac, sets = otlRunsString(rs, true), "5:1,6:2,7:1", []string{"3-4", "3-4", "-", "3-4;e"}[i-2]
		what = []string{"boundary-ok", "boundary-refused", "boundary-refused", "boundary-refused"}[i-2]
	}
	c.Stat("gdef.kind", what)
	c.Stat("gdef.parts", fmt.Sprintf("gc:%v mac:%v sets:%v", gc != "-", mac != "-", sets != "-"))
	args := fmt.Sprintf("gc=%s mac=%s sets=%s", gc, mac, sets)
	out := c.Case(Verdict, "otl.gdef.encode", args, true)
	c.Stat("gdef.encode-outcome", outcomeClass(out))
	c.Case(Direct, "otl.gdef.rt", args, true)
	if !strings.HasPrefix(out, "ok:") {
		return
	}
	b := otlGdefFromFields(parseFields(args)).Encode()
	if len(b) <= 30000 || what != "regular" {
		c.Case(Verdict, "otl.gdef.read", "data="+hx(b), true)
	}
	if len(b) <= 6000 {
		for k := 0; k < 3; k++ {
			m, mw := otlMutate(r, b)
			if r.Chance(1, 3) && len(m) >= 14 {
				// damage the header: version or one of the offsets
				j := Pick(r, []int{2, 4, 10, 12})
				m[j], m[j+1] = byte(r.Intn(2)), byte(r.Intn(40))
				mw = "header"
			}
			c.Stat("gdef.mutation", mw)
			o := c.Case(Verdict, "otl.gdef.read", "data="+hx(m), true)
			c.Stat("gdef.read-outcome", outcomeClass(o))
		}
	}
}

// ---------------------------------------------------------------- script lists

// otlParseSL builds the Go map from OpenType tag pairs with the library's own otfToBCP47.
func otlParseSL(s string) gtab.ScriptListInfo {
	sl := gtab.ScriptListInfo{}
	if s == "" {
		return sl
	}
	for _, t := range strings.Split(s, ",") {
		q := strings.Split(t, ":")
		lang := ""
		if q[1] != "-" {
			lang = string(mustHex(q[1]))
		}
		tag, err := gtab.VerifOtfToBCP47(string(mustHex(q[0])), lang)
		if err != nil {
			panic("bad tag in case line")
		}
		req, _ := strconv.Atoi(q[2])
		f := &gtab.Features{Required: gtab.FeatureIndex(req)}
		if q[3] != "-" {
			for _, x := range strings.Split(q[3], ".") {
				v, _ := strconv.Atoi(x)
				f.Optional = append(f.Optional, gtab.FeatureIndex(v))
			}
		}
		sl[tag] = f
	}
	return sl
}

func otlShowSL(sl gtab.ScriptListInfo) string {
	type ent struct{ script, lang, rest string }
	var es []ent
	for tag, f := range sl {
		sc, lg, err := gtab.VerifBCP47ToOtf(tag)
		if err != nil {
			return "unconvertible-tag:" + tag.String()
		}
		opt := "-"
		if len(f.Optional) > 0 {
			q := make([]string, len(f.Optional))
			for k, x := range f.Optional {
				q[k] = strconv.Itoa(int(x))
			}
			opt = strings.Join(q, ".")
		}
		l := "-"
		if lg != "" {
			l = hx([]byte(lg))
		}
		es = append(es, ent{sc, lg, fmt.Sprintf("%s:%s:%d:%s", hx([]byte(sc)), l, f.Required, opt)})
	}
	sort.Slice(es, func(i, j int) bool {
		if es[i].script != es[j].script {
			return es[i].script < es[j].script
		}
		return es[i].lang < es[j].lang
	})
	parts := make([]string, len(es))
	for i, e := range es {
		parts[i] = e.rest
	}
	return strings.Join(parts, ",")
}

func init() {
	ops["otl.sl.encode"] = func(f Fields) string {
		return canonPanic(guard(func() string {
			return "ok:" + otlShowBytes(gtab.VerifEncodeScriptList(otlParseSL(f["sl"])))
		}))
	}
	// script list through the real code: Read(Encode(sl)) = sl as a set of (script, language system,
	// required, optional features); these lists are small, so a panic of the encoder is a failure
	ops["otl.sl.rt"] = func(f Fields) string {
		return canonPanic(guard(func() string {
			sl := otlParseSL(f["sl"])
			var b []byte
			if msg := guard(func() string { b = gtab.VerifEncodeScriptList(sl); return "" }); msg != "" {
				return "fail:encode-panics"
			}
			out, err := gtab.VerifReadScriptList(b, 0)
			if err != nil {
				return "fail:" + errKind(err)
			}
			if want, got := otlShowSL(sl), otlShowSL(out); want != got {
				return "fail:wrote[" + want + "]read[" + got + "]"
			}
			return "ok"
		}))
	}
	ops["otl.sl.read"] = func(f Fields) string {
		return canonPanic(guard(func() string {
			sl, err := gtab.VerifReadScriptList(f.Hex("data"), 0)
			if err != nil {
				return errKind(err)
			}
			return "ok:" + otlShowSL(sl)
		}))
	}
}

var otlTagPairs [][2]string // (script, lang) pairs whose conversion round-trips in the library

func otlInitTags() {
	if otlTagPairs != nil {
		return
	}
	var scripts, langs []string
	for k := range gtab.VerifScriptBcp47() {
		scripts = append(scripts, k)
	}
	for k := range gtab.VerifLangBcp47() {
		langs = append(langs, k)
	}
	sort.Strings(scripts)
	sort.Strings(langs)
	langs = append([]string{""}, langs...)
	for _, s := range scripts {
		for _, l := range langs {
			tag, err := gtab.VerifOtfToBCP47(s, l)
			if err != nil {
				continue
			}
			s2, l2, err := gtab.VerifBCP47ToOtf(tag)
			if err == nil && s2 == s && l2 == l {
				otlTagPairs = append(otlTagPairs, [2]string{s, l})
			}
		}
	}
}

// otlGenSL writes the cases for one script list.
func otlGenSL(c *Ctx, i int) {
	otlInitTags()
	r := c.Rng
	c.Stat("sl.roundtripping-tag-pairs", bucket(len(otlTagPairs)))
	nScripts := Pick(r, []int{0, 1, 1, 2, 3, 5})
	what := "regular"
	seen := map[[2]string]bool{}
	var parts []string
	add := func(s, l string, nOpt int) {
		if seen[[2]string{s, l}] {
			return
		}
		seen[[2]string{s, l}] = true
		opt := "-"
		if nOpt > 0 {
			q := make([]string, nOpt)
			for k := range q {
				q[k] = strconv.Itoa(Pick(r, []int{0, 1, 2, 65534, r.Intn(300)}))
			}
			opt = strings.Join(q, ".")
		}
		lg := "-"
		if l != "" {
			lg = hx([]byte(l))
		}
		parts = append(parts, fmt.Sprintf("%s:%s:%d:%s", hx([]byte(s)), lg, Pick(r, []int{65535, 65535, 0, 3}), opt))
	}
	switch i {
	case 0, 1: // the second script table starts at 65534 (written) / 65536 (refused)
		// 2 + 12 = 14; script arab: 4 + 6 + 2k bytes with only a default language system
		k := (65534 + 2*i - 14 - 10) / 2
		add("arab", "", k)
		add("latn", "", 2)
		what = []string{"boundary-ok", "boundary-refused"}[i]
	case 2, 3: // the second named language system starts at 65534 / 65536 inside its script table
		// script table: 4 + 12 = 16; first LangSys 6 + 2k
		k := (65534 + 2*(i-2) - 16 - 6) / 2
		add("latn", "DEU ", k)
		add("latn", "TRK ", 1)
		what = []string{"boundary-ok", "boundary-refused"}[i-2]
	default:
		for a := 0; a < nScripts; a++ {
			p := Pick(r, otlTagPairs)
			s := p[0]
			if r.Chance(2, 3) {
				add(s, "", Pick(r, []int{0, 1, 2, 5}))
			}
			for b := r.Intn(4); b > 0; b-- {
				q := Pick(r, otlTagPairs)
				if q[1] != "" {
					// same script, another language system (pairs are independent of each other)
					if tag, err := gtab.VerifOtfToBCP47(s, q[1]); err == nil {
						if s2, l2, err := gtab.VerifBCP47ToOtf(tag); err == nil && s2 == s && l2 == q[1] {
							add(s, q[1], Pick(r, []int{0, 1, 3, 8}))
						}
					}
				}
			}
		}
	}
	c.Stat("sl.kind", what)
	c.Stat("sl.entries", bucket(len(parts)))
	// the map is unordered: give the entries in a shuffled order
	for k := len(parts) - 1; k > 0; k-- {
		j := r.Intn(k + 1)
		parts[k], parts[j] = parts[j], parts[k]
	}
	line := "sl=" + strings.Join(parts, ",")
	out := c.Case(Verdict, "otl.sl.encode", line, len(parts) >= 2)
	c.Stat("sl.encode-outcome", outcomeClass(out))
	if what == "regular" {
		c.Case(Direct, "otl.sl.rt", line, len(parts) >= 2)
	}
	if !strings.HasPrefix(out, "ok:") {
		return
	}
	b := gtab.VerifEncodeScriptList(otlParseSL(strings.TrimPrefix(line, "sl=")))
	o := c.Case(Verdict, "otl.sl.read", "data="+hx(b), len(parts) >= 2)
	c.Stat("sl.read-outcome", "encoded:"+outcomeClass(o))
	if len(b) <= 4000 {
		for k := 0; k < 3; k++ {
			m, mw := otlMutate(r, b)
			c.Stat("sl.mutation", mw)
			o := c.Case(Verdict, "otl.sl.read", "data="+hx(m), true)
			c.Stat("sl.read-outcome", "mutated:"+outcomeClass(o))
		}
	}
}

// otlSLArrangements: every arrangement of scripts with / without a default language system
// (D: default only, L: named language systems only, B: both), up to three scripts in tag order
func otlSLArrangements(c *Ctx) {
	otlInitTags()
	// a named language system that round-trips for each script
	langOf := map[string][]string{}
	for _, sc := range []string{"arab", "cyrl", "latn"} {
		for _, p := range otlTagPairs {
			if p[1] == "" {
				continue
			}
			if tag, err := gtab.VerifOtfToBCP47(sc, p[1]); err == nil {
				if s2, l2, err := gtab.VerifBCP47ToOtf(tag); err == nil && s2 == sc && l2 == p[1] {
					langOf[sc] = append(langOf[sc], p[1])
					if len(langOf[sc]) == 2 {
						break
					}
				}
			}
		}
	}
	n := 0
	entry := func(sc, lang string) string {
		n++
		lg := "-"
		if lang != "" {
			lg = hx([]byte(lang))
		}
		return fmt.Sprintf("%s:%s:%d:%d.%d", hx([]byte(sc)), lg, []int{65535, n}[n%2], n, n+1)
	}
	scripts := []string{"arab", "cyrl", "latn"}
	var shapes []string
	for _, a := range "DLB" {
		shapes = append(shapes, string(a))
		for _, b := range "DLB" {
			shapes = append(shapes, string(a)+string(b))
			for _, d := range "DLB" {
				shapes = append(shapes, string(a)+string(b)+string(d))
			}
		}
	}
	for _, shape := range shapes {
		var parts []string
		okShape := true
		for k, ch := range shape {
			sc := scripts[k]
			if ch != 'D' && len(langOf[sc]) == 0 {
				okShape = false
				break
			}
			if ch == 'D' || ch == 'B' {
				parts = append(parts, entry(sc, ""))
			}
			if ch == 'L' || ch == 'B' {
				for _, l := range langOf[sc] {
					parts = append(parts, entry(sc, l))
				}
			}
		}
		if !okShape {
			continue
		}
		line := "sl=" + strings.Join(parts, ",")
		out := c.Case(Verdict, "otl.sl.encode", line, true)
		c.Stat("sl.arrangement", outcomeClass(out))
		c.Case(Direct, "otl.sl.rt", line, true)
		if strings.HasPrefix(out, "ok:") {
			b := gtab.VerifEncodeScriptList(otlParseSL(strings.TrimPrefix(line, "sl=")))
			c.Case(Verdict, "otl.sl.read", "data="+hx(b), true)
		}
	}
}

// otlLLWindowFamily: small lists in which the header of a lookup table lies around the end of the
// reader's first 1024-byte window (lookup table offsets 990..1035 from the start of the list), with
// 1..4 subtable offsets behind it; D on the real code: every lookup comes back
func otlLLWindowFamily(c *Ctx) {
	for off := 990; off <= 1035; off++ {
		ns := 1 + off%4
		// [big, target(ns subtables, mark filtering set), small, filler]: header 2 + 2*4, big = 8 + v; the
		// filler makes the list longer than two windows, so that a refill overwrites the whole buffer
		v := off - 10 - 8
		subs := make([]string, ns)
		for k := range subs {
			subs[k] = fmt.Sprintf("n:%d:%d", 4+k, k+1)
		}
		fl := []int{16, 0x0110, 1, 0}[off%4]
		line := fmt.Sprintf("3/0/0/n:%d:%d;2/%d/%d/%s;1/0/0/g:5:3;4/0/0/n:1500:%d", v, off%251, fl, 7+off%5, strings.Join(subs, "|"), off%97)
		c.Case(Verdict, "otl.ll.encode", "ll="+line, true)
		o := c.Case(Direct, "otl.ll.rt", "ll="+line, true)
		c.Stat("ll.window", outcomeClass(o))
		ll, _ := otlParseLL(line)
		b := gtab.VerifEncodeLookupList(ll)
		c.Case(Verdict, "otl.ll.read", "ext=7 data="+hx(b), true)
		if got := int(b[4])<<8 | int(b[5]); got != off {
			c.Stat("ll.window", fmt.Sprintf("UNEXPECTED-offset-%d-for-%d", got, off))
		}
		// the same list inside a GSUB table: the lookup list starts at 10 + script list + feature list
		c.Case(Verdict, "otl.gtab.read", "data="+hx((&gtab.Info{ScriptList: gtab.ScriptListInfo{}, FeatureList: gtab.FeatureListInfo{}, LookupList: ll}).Encode()), true)
	}
}

// otlLLBigFamily: 2-5 lookups of 33-72 KB each (1-2 subtables); in the "all" shapes every lookup but the
// biggest - the SMALLEST too - has to go behind extension records, in the "some" shapes replacing the
// larger ones suffices, in "none" nothing is replaced
func otlLLBigFamily(c *Ctx) {
	type shape struct {
		what  string
		sizes [][]int // per lookup: subtable sizes
	}
	shapes := []shape{
		{"all", [][]int{{68000}, {72000}}},
		{"all", [][]int{{72000}, {68000}}},
		{"all", [][]int{{66000}, {70000}, {67000}}},
		{"all", [][]int{{36000, 36100}, {36200, 36300}, {36400, 36500}, {36600, 36700}}},
		{"all", [][]int{{66100}, {66200}, {33000, 33400}, {66300}, {72000}}},
		{"all", [][]int{{34000, 34001}, {70000}}},
		{"some", [][]int{{34000}, {36000}, {70000}}},
		{"some", [][]int{{72000}, {33000}, {34000}, {35000}, {36000}}},
		{"some", [][]int{{33000}, {36000, 36100}, {40000}}},
		{"none", [][]int{{40000}, {70000}}},
		{"reorder-only", [][]int{{70000}, {40000}}},
		{"all", [][]int{{65530}, {65531}}},
	}
	if c.Tier != "thorough" {
		// a dozen cases of 100-300 KB would dominate the quick tier: rotate, always with three "all" shapes
		k := c.Rng.Intn(3)
		shapes = []shape{shapes[k], shapes[3+k%3], shapes[11], shapes[6+k], shapes[9+k%2]}
	}
	for si, sh := range shapes {
		ls := make([]string, len(sh.sizes))
		for i, subs := range sh.sizes {
			q := make([]string, len(subs))
			for j, n := range subs {
				q[j] = fmt.Sprintf("n:%d:%d", n, (7*i+j+si)%251)
			}
			if i == 0 {
				q = append([]string{"g:5:3"}, q...) // decides the extension lookup type; first, so that its offset stays small
			}
			ls[i] = fmt.Sprintf("%d/%d/%d/%s", 1+i%4, []int{0, 16}[i%2], i+1, strings.Join(q, "|"))
		}
		line := strings.Join(ls, ";")
		out := c.Case(Verdict, "otl.ll.encode", "ll="+line, true)
		c.Stat("ll.big", sh.what+":"+outcomeClass(out))
		// on the real code: Encode does not panic and readLookupList gives every lookup back
		o := c.Case(Direct, "otl.ll.rt", "ll="+line+" refuse=no", true)
		c.Stat("ll.big-rt", sh.what+":"+outcomeClass(o))
		if strings.HasPrefix(out, "ok:") {
			ll, _ := otlParseLL(line)
			b := gtab.VerifEncodeLookupList(ll)
			c.Case(Direct, "otl.ll.prop", fmt.Sprintf("ll=%s ext=7 sum=%s", line, otlShowBytes(b)), true)
		}
	}
}

// otlLLCursiveFamily: GPOS 3.1 subtables (entry = exit, entry /= exit, one of them empty) followed by
// further subtables and lookups: everything behind them must still be found (D on the real code only:
// the case-line grammar of the model has no cursive subtable)
func otlLLCursiveFamily(c *Ctx) {
	for _, a := range []string{"100.200.100.200", "100.200.300.400", "0.0.5.6", "5.6.0.0", "65535.1.65535.1", "0.0.0.0"} {
		for _, line := range []string{
			fmt.Sprintf("3/0/0/c:7:%s;1/0/0/p:9:5", a),
			fmt.Sprintf("3/0/0/c:7:%s|c:8:%s;1/16/2/p:9:5;3/0/0/c:4:%s", a, a, a),
			fmt.Sprintf("1/0/0/p:9:5;3/0/0/c:7:%s|n:10:3;2/0/0/n:6:1", a),
		} {
			o := c.Case(Direct, "otl.ll.rt", "ll="+line+" refuse=no", true)
			c.Stat("ll.cursive", outcomeClass(o))
		}
	}
}

// otlLLOffsetFamily: the offset of the second (third) LOOKUP table in the lookup list is exactly
// 65534 ... 65538: from 65536 on the encoder has to reorder (the first lookup is moved to the end)
func otlLLOffsetFamily(c *Ctx) {
	for off := 65533; off <= 65538; off++ {
		for _, three := range []bool{false, true} {
			// [big, small]: header 2+2*2, big = 8 + v   |  [tiny, big, small]: header 2+2*3, tiny = 8+2
			v := off - (2 + 4) - 8
			line := fmt.Sprintf("2/0/0/n:%d:%d;1/0/0/g:5:3", v, off%251)
			if three {
				v = off - (2 + 6) - 10 - 8
				line = fmt.Sprintf("3/0/0/n:2:1;2/0/0/n:%d:%d;1/16/4/g:5:3", v, off%251)
			}
			out := c.Case(Verdict, "otl.ll.encode", "ll="+line, true)
			what := outcomeClass(out)
			if strings.HasPrefix(out, "ok:") {
				ll, _ := otlParseLL(line)
				b := gtab.VerifEncodeLookupList(ll)
				c.Case(Direct, "otl.ll.prop", fmt.Sprintf("ll=%s ext=7 sum=%s", line, otlShowBytes(b)), true)
				last := len(ll) - 1
				got := int(b[2+2*last])<<8 | int(b[3+2*last])
				if off <= 0xFFFF && got == off {
					what = "ok:in-place"
				} else if off > 0xFFFF && got != 0 && got < 100 {
					what = "ok:reordered"
				} else {
					what = fmt.Sprintf("ok:UNEXPECTED-offset-%d", got)
				}
			}
			c.Stat("ll.lookup-offset", fmt.Sprintf("%d:%s", off, what))
		}
	}
}

// ---------------------------------------------------------------- GSUB/GPOS table (header)

func otlInfoFromFields(f Fields) *gtab.Info {
	info := &gtab.Info{}
	if f["sl"] != "nil" {
		info.ScriptList = otlParseSL(f["sl"])
	}
	if f["fl"] != "nil" {
		info.FeatureList = otlParseFL(f["fl"])
	}
	if f["ll"] != "nil" {
		info.LookupList, _ = otlParseLL(f["ll"])
	}
	return info
}

func init() {
	ops["otl.gtab.encode"] = func(f Fields) string {
		return canonPanic(guard(func() string { return "ok:" + otlShowBytes(otlInfoFromFields(f).Encode()) }))
	}
	ops["otl.gtab.read"] = func(f Fields) string {
		return canonPanic(guard(func() string {
			info, err := gtab.Read(bytes.NewReader(f.Hex("data")), gtab.TypeGsub)
			if err != nil {
				return errKind(err)
			}
			fl := "nil"
			if info.FeatureList != nil {
				fl = otlShowFL(info.FeatureList)
			}
			ll := "nil"
			if info.LookupList != nil {
				parts := make([]string, len(info.LookupList))
				for i, l := range info.LookupList {
					ss := make([]string, len(l.Subtables))
					for j, st := range l.Subtables {
						ss[j] = otlShowSubtable(st)
					}
					parts[i] = fmt.Sprintf("%d/%d/%d/%s", l.Meta.LookupType, l.Meta.LookupFlags, l.Meta.MarkFilteringSet, strings.Join(ss, "&"))
				}
				ll = strings.Join(parts, "^")
			}
			return fmt.Sprintf("ok:sl=%s;fl=%s;ll=%s", otlShowSL(info.ScriptList), fl, ll)
		}))
	}
}

// otlGenGtab writes the cases for one whole GSUB table.
func otlGenGtab(c *Ctx, i int) {
	otlInitTags()
	r := c.Rng
	// script list
	var sl []string
	seen := map[[2]string]bool{}
	for a := r.Intn(4); a > 0; a-- {
		p := Pick(r, otlTagPairs)
		if seen[p] {
			continue
		}
		seen[p] = true
		lg := "-"
		if p[1] != "" {
			lg = hx([]byte(p[1]))
		}
		sl = append(sl, fmt.Sprintf("%s:%s:%d:%s", hx([]byte(p[0])), lg, 65535, Pick(r, []string{"-", "0", "0.1"})))
	}
	var fl []string
	for a := r.Intn(4); a > 0; a-- {
		fl = append(fl, hx([]byte(Pick(r, []string{"liga", "kern", "ss01"})))+":"+Pick(r, []string{"-", "0", "0.1"}))
	}
	// lookup list: real GSUB 1.1 subtables only, so that the real reader can decode them
	var ll []string
	for a := r.Intn(4); a > 0; a-- {
		n := r.Range(0, 3)
		subs := make([]string, n)
		for k := range subs {
			subs[k] = fmt.Sprintf("g:%d:%d", r.Intn(65536), r.Intn(65536))
		}
		ll = append(ll, fmt.Sprintf("1/%d/%d/%s", Pick(r, []int{0, 1, 16}), r.Intn(3), strings.Join(subs, "|")))
	}
	part := func(xs []string, sep string) string {
		if len(xs) == 0 && r.Chance(1, 2) {
			return "nil"
		}
		return strings.Join(xs, sep)
	}
	what := "regular"
	args := fmt.Sprintf("sl=%s fl=%s ll=%s", part(sl, ","), part(fl, "|"), part(ll, ";"))
	switch i {
	case 0, 1: // the lookup list starts at 65534 (written) / 65536 (refused): 10 + 2 (scripts) + feature list
		// feature list: 2 + 6n + 4n bytes for n features without lookups, plus 2 per lookup index
		n := 6552 // 2 + 10*6552 = 65522 -> lookup list offset 10 + 2 + 65522 = 65534
		q := make([]string, n)
		for k := range q {
			q[k] = "6b65726e:-"
		}
		if i == 1 {
			q[0] = "6b65726e:0" // + 2 bytes -> 65536
		}
		args = "sl= fl=" + strings.Join(q, "|") + " ll=1/0/0/g:5:1"
		what = []string{"boundary-ok", "boundary-refused"}[i]
	}
	c.Stat("gtab.kind", what)
	c.Stat("gtab.lists", fmt.Sprintf("sl:%v fl:%v ll:%v", !strings.Contains(args, "sl=nil"), !strings.Contains(args, "fl=nil"), !strings.Contains(args, "ll=nil")))
	out := c.Case(Verdict, "otl.gtab.encode", args, true)
	c.Stat("gtab.encode-outcome", outcomeClass(out))
	if !strings.HasPrefix(out, "ok:") {
		return
	}
	b := otlInfoFromFields(parseFields(args)).Encode()
	o := c.Case(Verdict, "otl.gtab.read", "data="+hx(b), true)
	c.Stat("gtab.read-outcome", "encoded:"+outcomeClass(o))
	if len(b) > 4000 {
		return
	}
	// header damage only (the lists have their own mutated streams)
	for k := 0; k < 3; k++ {
		m := append([]byte{}, b...)
		mw := ""
		switch r.Intn(7) {
		case 0:
			m[1] = byte(r.Intn(3))
			mw = "major"
		case 1:
			m[3] = byte(r.Intn(3))
			mw = "minor"
		case 2:
			j := Pick(r, []int{4, 6, 8})
			m[j], m[j+1] = 0, 0
			mw = "offset-0"
		case 3:
			j := Pick(r, []int{4, 6, 8})
			m[j], m[j+1] = 0, byte(r.Intn(14))
			mw = "offset-in-header"
		case 4:
			j := Pick(r, []int{4, 6, 8})
			v := len(m) + Pick(r, []int{-1, 0, 1, 100})
			m[j], m[j+1] = byte(v>>8), byte(v)
			mw = "offset-at-end"
		case 5:
			m = m[:r.Intn(12)]
			mw = "truncated-header"
		default:
			// version 1.1 with a FeatureVariations offset inserted is not what Encode writes; only flip minor
			m[3] = 1
			mw = "minor-1"
		}
		c.Stat("gtab.mutation", mw)
		o := c.Case(Verdict, "otl.gtab.read", "data="+hx(m), true)
		c.Stat("gtab.read-outcome", "mutated:"+outcomeClass(o))
	}
}

// ---------------------------------------------------------------- contextual lookups

func otlParseDots(s string) []int {
	if s == "" {
		return nil
	}
	var out []int
	for _, x := range strings.Split(s, ".") {
		v, _ := strconv.Atoi(x)
		out = append(out, v)
	}
	return out
}

func otlParseActs(s string) []gtab.SeqLookup {
	var out []gtab.SeqLookup
	if s == "" {
		return out
	}
	for _, t := range strings.Split(s, "+") {
		i := strings.IndexByte(t, ':')
		a, _ := strconv.Atoi(t[:i])
		b, _ := strconv.Atoi(t[i+1:])
		out = append(out, gtab.SeqLookup{SequenceIndex: uint16(a), LookupListIndex: gtab.LookupIndex(b)})
	}
	return out
}

func otlGidsOf(l []int) []glyph.ID {
	out := make([]glyph.ID, len(l))
	for i, x := range l {
		out[i] = glyph.ID(x)
	}
	return out
}

func otlU16sOf(l []int) []uint16 {
	out := make([]uint16, len(l))
	for i, x := range l {
		out[i] = uint16(x)
	}
	return out
}

// otlParseRuleSets returns, per set, nil (for "-") or the rules as (back, input, look, actions).
func otlParseRuleSets(s string) [][]otlRuleG {
	if s == "" {
		return nil
	}
	var out [][]otlRuleG
	for _, t := range strings.Split(s, "|") {
		switch t {
		case "-":
			out = append(out, nil)
		case "e":
			out = append(out, []otlRuleG{})
		default:
			var rs []otlRuleG
			for _, q := range strings.Split(t, ",") {
				i := strings.IndexByte(q, '>')
				parts := strings.Split(q[:i], "/")
				rs = append(rs, otlRuleG{otlParseDots(parts[0]), otlParseDots(parts[1]), otlParseDots(parts[2]), otlParseActs(q[i+1:])})
			}
			out = append(out, rs)
		}
	}
	return out
}

type otlRuleG struct {
	back, input, look []int
	acts              []gtab.SeqLookup
}

func otlCovSetList(s string) []coverage.Set {
	var out []coverage.Set
	if s == "" {
		return out
	}
	for _, q := range strings.Split(s, "/") {
		set := coverage.Set{}
		if q != "e" {
			for _, r := range otlParseRuns(q, false) {
				for g := r.a; g <= r.b; g++ {
					set[glyph.ID(g)] = true
				}
			}
		}
		out = append(out, set)
	}
	return out
}

func otlCtxFromFields(f Fields) gtab.Subtable {
	sets := otlParseRuleSets(f["sets"])
	cov := otlCovFromRuns(otlParseRuns(f["cov"], false))
	switch f["st"] {
	case "c1":
		l := &gtab.SeqContext1{Cov: cov}
		for _, rs := range sets {
			if rs == nil {
				l.Rules = append(l.Rules, nil)
				continue
			}
			x := []*gtab.SeqRule{}
			for _, r := range rs {
				x = append(x, &gtab.SeqRule{Input: otlGidsOf(r.input), Actions: r.acts})
			}
			l.Rules = append(l.Rules, x)
		}
		return l
	case "c2":
		l := &gtab.SeqContext2{Cov: cov, Input: otlClassField(f["cd"])}
		for _, rs := range sets {
			if rs == nil {
				l.Rules = append(l.Rules, nil)
				continue
			}
			x := []*gtab.ClassSeqRule{}
			for _, r := range rs {
				x = append(x, &gtab.ClassSeqRule{Input: otlU16sOf(r.input), Actions: r.acts})
			}
			l.Rules = append(l.Rules, x)
		}
		return l
	case "c3":
		return &gtab.SeqContext3{Input: otlCovSetList(f["covs"]), Actions: otlParseActs(f["acts"])}
	case "C1":
		l := &gtab.ChainedSeqContext1{Cov: cov}
		for _, rs := range sets {
			if rs == nil {
				l.Rules = append(l.Rules, nil)
				continue
			}
			x := []*gtab.ChainedSeqRule{}
			for _, r := range rs {
				x = append(x, &gtab.ChainedSeqRule{Backtrack: otlGidsOf(r.back), Input: otlGidsOf(r.input), Lookahead: otlGidsOf(r.look), Actions: r.acts})
			}
			l.Rules = append(l.Rules, x)
		}
		return l
	case "C2":
		l := &gtab.ChainedSeqContext2{Cov: cov, Backtrack: otlClassField(f["cb"]), Input: otlClassField(f["ci"]), Lookahead: otlClassField(f["cl"])}
		for _, rs := range sets {
			if rs == nil {
				l.Rules = append(l.Rules, nil)
				continue
			}
			x := []*gtab.ChainedClassSeqRule{}
			for _, r := range rs {
				x = append(x, &gtab.ChainedClassSeqRule{Backtrack: otlU16sOf(r.back), Input: otlU16sOf(r.input), Lookahead: otlU16sOf(r.look), Actions: r.acts})
			}
			l.Rules = append(l.Rules, x)
		}
		return l
	case "C3":
		return &gtab.ChainedSeqContext3{Backtrack: otlCovSetList(f["back"]), Input: otlCovSetList(f["input"]), Lookahead: otlCovSetList(f["look"]), Actions: otlParseActs(f["acts"])}
	}
	panic("bad st")
}

func otlShowDots[T ~uint16](l []T) string {
	q := make([]string, len(l))
	for i, x := range l {
		q[i] = strconv.Itoa(int(x))
	}
	return strings.Join(q, ".")
}

func otlShowActs(l []gtab.SeqLookup) string {
	q := make([]string, len(l))
	for i, a := range l {
		q[i] = fmt.Sprintf("%d:%d", a.SequenceIndex, a.LookupListIndex)
	}
	return strings.Join(q, "+")
}

func otlShowSetList(sets []string) string { return strings.Join(sets, "|") }

func otlShowCovSets(l []coverage.Set) string {
	q := make([]string, len(l))
	for i, c := range l {
		q[i] = otlGids(c.Glyphs())
	}
	return strings.Join(q, "/")
}

func otlShowCtx(st gtab.Subtable) string {
	setStr := func(n int, isNil func(int) bool, cnt func(int) int, rule func(i, j int) string) string {
		parts := make([]string, n)
		for i := 0; i < n; i++ {
			switch {
			case isNil(i):
				parts[i] = "-"
			case cnt(i) == 0:
				parts[i] = "e"
			default:
				q := make([]string, cnt(i))
				for j := range q {
					q[j] = rule(i, j)
				}
				parts[i] = strings.Join(q, ",")
			}
		}
		return strings.Join(parts, "|")
	}
	switch t := st.(type) {
	case *gtab.SeqContext1:
		return fmt.Sprintf("5.1;cov=%s;sets=%s", otlShowCov(t.Cov), setStr(len(t.Rules), func(i int) bool { return t.Rules[i] == nil }, func(i int) int { return len(t.Rules[i]) }, func(i, j int) string {
			r := t.Rules[i][j]
			return fmt.Sprintf("/%s/>%s", otlShowDots(r.Input), otlShowActs(r.Actions))
		}))
	case *gtab.SeqContext2:
		return fmt.Sprintf("5.2;cov=%s;classes=%s;sets=%s", otlShowCov(t.Cov), otlShowClass(t.Input), setStr(len(t.Rules), func(i int) bool { return t.Rules[i] == nil }, func(i int) int { return len(t.Rules[i]) }, func(i, j int) string {
			r := t.Rules[i][j]
			return fmt.Sprintf("/%s/>%s", otlShowDots(r.Input), otlShowActs(r.Actions))
		}))
	case *gtab.SeqContext3:
		return fmt.Sprintf("5.3;covs=%s;acts=%s", otlShowCovSets(t.Input), otlShowActs(t.Actions))
	case *gtab.ChainedSeqContext1:
		return fmt.Sprintf("6.1;cov=%s;sets=%s", otlShowCov(t.Cov), setStr(len(t.Rules), func(i int) bool { return t.Rules[i] == nil }, func(i int) int { return len(t.Rules[i]) }, func(i, j int) string {
			r := t.Rules[i][j]
			return fmt.Sprintf("%s/%s/%s>%s", otlShowDots(r.Backtrack), otlShowDots(r.Input), otlShowDots(r.Lookahead), otlShowActs(r.Actions))
		}))
	case *gtab.ChainedSeqContext2:
		return fmt.Sprintf("6.2;cov=%s;classes=%s/%s/%s;sets=%s", otlShowCov(t.Cov), otlShowClass(t.Backtrack), otlShowClass(t.Input), otlShowClass(t.Lookahead), setStr(len(t.Rules), func(i int) bool { return t.Rules[i] == nil }, func(i int) int { return len(t.Rules[i]) }, func(i, j int) string {
			r := t.Rules[i][j]
			return fmt.Sprintf("%s/%s/%s>%s", otlShowDots(r.Backtrack), otlShowDots(r.Input), otlShowDots(r.Lookahead), otlShowActs(r.Actions))
		}))
	case *gtab.ChainedSeqContext3:
		return fmt.Sprintf("6.3;back=%s;in=%s;look=%s;acts=%s", otlShowCovSets(t.Backtrack), otlShowCovSets(t.Input), otlShowCovSets(t.Lookahead), otlShowActs(t.Actions))
	}
	return ""
}

// otlGenCtx writes the cases for one contextual lookup subtable.
func otlGenCtx(c *Ctx, i int) {
	r := c.Rng
	st := Pick(r, []string{"c1", "c2", "c3", "C1", "C2", "C3"})
	if i < 4 {
		st = []string{"c1", "c1", "C1", "C1"}[i]
	}
	chained := st[0] == 'C'
	tp := 5
	if chained {
		tp = 6
	}
	what := "regular"
	dots := func(n, lim int) string {
		q := make([]string, n)
		for k := range q {
			q[k] = strconv.Itoa(Pick(r, []int{0, 1, 2, lim - 1, r.Intn(lim)}))
		}
		return strings.Join(q, ".")
	}
	acts := func() string {
		n := Pick(r, []int{0, 1, 1, 2, 3})
		q := make([]string, n)
		for k := range q {
			q[k] = fmt.Sprintf("%d:%d", r.Intn(4), Pick(r, []int{0, 1, 7, 65535}))
		}
		return strings.Join(q, "+")
	}
	lim := 65536
	if st == "c2" || st == "C2" {
		lim = 6
	}
	rule := func() string {
		b, l := "", ""
		if chained {
			b, l = dots(r.Intn(3), lim), dots(r.Intn(3), lim)
		}
		return fmt.Sprintf("%s/%s/%s>%s", b, dots(r.Intn(4), lim), l, acts())
	}
	ruleSets := func(n int) string {
		parts := make([]string, n)
		for k := range parts {
			switch r.Intn(6) {
			case 0:
				parts[k] = "-"
			case 1:
				parts[k] = "e"
			default:
				m := r.Range(1, 3)
				q := make([]string, m)
				for j := range q {
					q[j] = rule()
				}
				parts[k] = strings.Join(q, ",")
			}
		}
		return strings.Join(parts, "|")
	}
	cls := func(maxClass int) string {
		if maxClass == 0 {
			return "empty"
		}
		var q []otlRun
		g := r.Intn(50)
		for k := 1; k <= maxClass; k++ {
			q = append(q, otlRun{g, g + r.Intn(3), k})
			g += 3 + r.Intn(10)
		}
		return otlRunsString(q, true)
	}
	covList := func(n int) string {
		q := make([]string, n)
		for k := range q {
			q[k] = otlRunsString(otlSmallCov(r, 30), false)
			if q[k] == "" {
				q[k] = "e"
			}
		}
		return strings.Join(q, "/")
	}
	args := ""
	switch st {
	case "c1", "C1":
		rs := otlSmallCov(r, 12)
		n := otlCountGlyphs(rs)
		if r.Chance(1, 10) {
			n = max(0, n+Pick(r, []int{-1, 1}))
			what = "count-mismatch"
		}
		if i < 4 {
			// one rule per set, 4200 / 4000 sets: the coverage (c1) or the last rule set (C1) lies beyond 64 KiB / inside
			st = []string{"c1", "c1", "C1", "C1"}[i]
			chained = st == "C1"
			tp = map[bool]int{false: 5, true: 6}[chained]
			n = []int{4095, 4096, 3640, 3641}[i] // c1: 6+2n+14n = 65526/65542; C1: 6+2n+10 (cov) + 16n -> last set at 65518/65536
			rs = []otlRun{{0, n - 1, 0}}
			parts := make([]string, n)
			for k := range parts {
				if chained {
					parts[k] = "9/1/>0:1" // 2 + 2 + (2+2) + (2+2) + 2 + (2+4) = 18?  see sizes in the model
				} else {
					parts[k] = "/1.2/>0:1" // set: 2 + 2 + 4 + 4 + 4 = 16 -> adjust n below
				}
			}
			what = []string{"boundary-ok", "boundary-refused"}[i%2]
			args = fmt.Sprintf("st=%s cov=%s sets=%s", st, otlRunsString(rs, false), strings.Join(parts, "|"))
		} else {
			args = fmt.Sprintf("st=%s cov=%s sets=%s", st, otlRunsString(rs, false), ruleSets(n))
		}
	case "c2":
		nc := r.Range(0, 5)
		args = fmt.Sprintf("st=c2 cov=%s cd=%s sets=%s", otlRunsString(otlSmallCov(r, 30), false), cls(nc), ruleSets(r.Range(0, nc+1)))
	case "C2":
		nc := r.Range(0, 5)
		args = fmt.Sprintf("st=C2 cov=%s cb=%s ci=%s cl=%s sets=%s", otlRunsString(otlSmallCov(r, 30), false), cls(r.Intn(4)), cls(nc), cls(r.Intn(4)), ruleSets(r.Range(0, nc+1)))
	case "c3":
		args = fmt.Sprintf("st=c3 covs=%s acts=%s", covList(r.Range(1, 4)), acts())
	case "C3":
		args = fmt.Sprintf("st=C3 back=%s input=%s look=%s acts=%s", covList(r.Intn(3)), covList(r.Range(1, 3)), covList(r.Intn(3)), acts())
	}
	c.Stat("ctx.kind", st+":"+what)
	out := c.Case(Verdict, "otl.gsub.encode", args, true)
	c.Stat("ctx.encode-outcome", outcomeClass(out))
	if !strings.HasPrefix(out, "ok:") {
		return
	}
	ctxSt := otlCtxFromFields(parseFields(args))
	b := gtab.VerifSubtableEncode(ctxSt)
	c.Stat("ctx.bytes", bucket(len(b)))
	c.Case(Direct, "otl.ctx.len", fmt.Sprintf("%s size=%d declared=%d", args, len(b), gtab.VerifSubtableEncodeLen(ctxSt)), true)
	if what == "regular" {
		c.Case(Direct, "otl.ctx.rt", args, true)
	}
	if len(b) <= 2500 {
		real, line := otlRealLL(parseFields(args))
		c.Case(Direct, "otl.ll.prop", fmt.Sprintf("ll=%s ext=7 data=%s %s", line, hx(gtab.VerifEncodeLookupList(real)), args), true)
	}
	if len(b) <= 30000 || what != "regular" {
		o := c.Case(Verdict, "otl.gsub.read", fmt.Sprintf("type=%d data=%s", tp, hx(b)), true)
		c.Stat("ctx.read-outcome", "encoded:"+outcomeClass(o))
	}
	if len(b) <= 6000 {
		for k := 0; k < 3; k++ {
			m, mw := otlMutate(r, b)
			t2 := tp
			if r.Chance(1, 6) {
				t2 = Pick(r, []int{5, 6})
			}
			c.Stat("ctx.mutation", mw)
			o := c.Case(Verdict, "otl.gsub.read", fmt.Sprintf("type=%d data=%s", t2, hx(m)), true)
			c.Stat("ctx.read-outcome", "mutated:"+outcomeClass(o))
		}
	}
}

// otlGenCountFamilies: every subtable with a count next to a coverage table, with the array shorter
// and longer than the coverage (the encoders write what they are given); the readers must prune the
// coverage or cut the array: V on the read, D on the post-condition of the real reader.
func otlGenCountFamilies(c *Ctx) {
	run := func(kind string, tp int, args string) {
		op := "otl." + kind + ".encode"
		out := c.Case(Verdict, op, args, true)
		c.Stat("count-family", fmt.Sprintf("%s%d:encode:%s", kind, tp, outcomeClass(out)))
		if !strings.HasPrefix(out, "ok:") {
			return
		}
		f := parseFields(args)
		var st gtab.Subtable
		switch {
		case kind == "gpos":
			st = otlGposFromFields(f)
		case f["st"][0] == 'c' || f["st"][0] == 'C':
			st = otlCtxFromFields(f)
		default:
			st = otlGsubFromFields(f)
		}
		b := gtab.VerifSubtableEncode(st)
		o := c.Case(Verdict, "otl."+kind+".read", fmt.Sprintf("type=%d data=%s", tp, hx(b)), true)
		c.Stat("count-family", fmt.Sprintf("%s%d:read:%s", kind, tp, outcomeClass(o)))
		c.Case(Direct, "otl.sub.inrange", fmt.Sprintf("kind=%s type=%d data=%s", kind, tp, hx(b)), true)
	}
	rep := func(x string, n int, sep string) string {
		q := make([]string, n)
		for k := range q {
			q[k] = strings.ReplaceAll(x, "#", strconv.Itoa(k+1))
		}
		return strings.Join(q, sep)
	}
	for _, covs := range []string{"10-13", "10,12,20-21"} { // four glyphs, format 1 / format 2 or 1
		for _, m := range []int{0, 2, 3, 5, 7} {
			run("gsub", 1, fmt.Sprintf("st=12 cov=%s subs=%s", covs, rep("10#", m, ",")))
			run("gsub", 2, fmt.Sprintf("st=21 cov=%s seqs=%s", covs, rep("3#.4#", m, "|")))
			run("gsub", 3, fmt.Sprintf("st=31 cov=%s seqs=%s", covs, rep("5#", m, "|")))
			run("gsub", 4, fmt.Sprintf("st=41 cov=%s ligs=%s", covs, rep("9#<1.2", m, "|")))
			run("gsub", 8, fmt.Sprintf("st=81 cov=%s back=5 look= subs=%s", covs, rep("7#", m, ",")))
			run("gsub", 5, fmt.Sprintf("st=c1 cov=%s sets=%s", covs, rep("/#/>0:1", m, "|")))
			run("gsub", 6, fmt.Sprintf("st=C1 cov=%s sets=%s", covs, rep("3/#/4>0:1", m, "|")))
			run("gpos", 1, fmt.Sprintf("st=12 cov=%s vrs=%s", covs, rep("0.0.#.0.0.0.0.0", m, ",")))
			run("gpos", 3, fmt.Sprintf("st=31 cov=%s recs=%s", covs, rep("#.1.2.#", m, ",")))
			for _, st := range []string{"41", "61"} {
				// the mark array against the mark coverage, the base (mark2) array against its coverage
				run("gpos", int(st[0]-'0'), fmt.Sprintf("st=%s mcov=%s bcov=30-33 marks=%s bases=%s", st, covs, rep("1.#.7", m, ","), rep("1.#,2.#", 4, ";")))
				run("gpos", int(st[0]-'0'), fmt.Sprintf("st=%s mcov=40-43 bcov=%s marks=%s bases=%s", st, covs, rep("1.#.7", 4, ","), rep("1.#,2.#", m, ";")))
			}
		}
	}
	// GPOS 2.1: pairSetCount patched in the bytes (the structure is a map: no inconsistent value exists)
	{
		st := otlGposFromFields(parseFields("st=21 pairs=10>11:0.0.5.0.0.0.0.0/-;12>11:0.0.6.0.0.0.0.0/-;14>11:0.0.7.0.0.0.0.0/-"))
		b := gtab.VerifSubtableEncode(st)
		for _, cnt := range []int{0, 1, 2, 3} {
			m := append([]byte{}, b...)
			m[8], m[9] = 0, byte(cnt)
			o := c.Case(Verdict, "otl.gpos.read", "type=2 data="+hx(m), true)
			c.Stat("count-family", "gpos2.1:patched-count:"+outcomeClass(o))
		}
	}
}

// otlGenCtxShapes: nil / empty-but-non-nil rule sets, rules without anything, empty coverage lists,
// for all six context formats; each with the size predicate and inside a lookup list.
func otlGenCtxShapes(c *Ctx) {
	cd := otlRunsString([]otlRun{{20, 22, 1}, {30, 31, 2}}, true)
	setShapes := []string{"e", "-", "e|e", "-|e", "e|-", "-|-", "e|//>0:1", "//>0:1|e", "//>", "//>|-|e", "1/2/3>1:2,//>|e"}
	emit := func(st, args string) {
		tp := 5
		if st[0] == 'C' {
			tp = 6
		}
		out := c.Case(Verdict, "otl.gsub.encode", args, true)
		c.Stat("ctx.shape-outcome", st+":"+outcomeClass(out))
		if !strings.HasPrefix(out, "ok:") {
			return
		}
		f := parseFields(args)
		x := otlCtxFromFields(f)
		b := gtab.VerifSubtableEncode(x)
		c.Case(Direct, "otl.ctx.len", fmt.Sprintf("%s size=%d declared=%d", args, len(b), gtab.VerifSubtableEncodeLen(x)), true)
		if !strings.Contains(args, "covs= ") && !strings.Contains(args, "input= ") {
			c.Case(Direct, "otl.ctx.rt", args, true)
		}
		if len(b) <= 2500 {
			real, line := otlRealLL(f)
			c.Case(Direct, "otl.ll.prop", fmt.Sprintf("ll=%s ext=7 data=%s %s", line, hx(gtab.VerifEncodeLookupList(real)), args), true)
		}
		c.Case(Verdict, "otl.gsub.read", fmt.Sprintf("type=%d data=%s", tp, hx(b)), true)
	}
	for _, sets := range setShapes {
		n := strings.Count(sets, "|") + 1
		cov := otlRunsString([]otlRun{{10, 10 + n - 1, 0}}, false)
		unchained := strings.ReplaceAll(sets, "1/2/3>", "/2/>")
		emit("c1", fmt.Sprintf("st=c1 cov=%s sets=%s", cov, unchained))
		emit("C1", fmt.Sprintf("st=C1 cov=%s sets=%s", cov, sets))
		for _, k := range []string{"empty", cd} {
			cmp := ""
			if k == "empty" && n > 1 {
				cmp = " cmp=no" // the reader keeps NumClasses = 1 rule set (hypothesis hcls of the theorem)
			}
			emit("c2", fmt.Sprintf("st=c2 cov=%s cd=%s sets=%s%s", cov, k, unchained, cmp))
			emit("C2", fmt.Sprintf("st=C2 cov=%s cb=%s ci=%s cl=%s sets=%s", cov, k, cd, k, sets))
		}
	}
	// ChainedSeqContext1: one set of n rules of 16 bytes; the offset of the last rule inside the set is
	// 18n-14 = 65524 (n = 3641) or 65542 (n = 3642: refused)
	for _, n := range []int{3641, 3642} {
		q := make([]string, n)
		for k := range q {
			q[k] = "9/1/>0:1"
		}
		emit("C1", fmt.Sprintf("st=C1 cov=10 sets=%s", strings.Join(q, ",")))
	}
	// crafted: component / input glyph count 0 (REPAIRED C02-zero-count: refused; `count-1` in uint16 used to
	// ask for 65535 glyphs, and with enough data behind it the rule was accepted)
	words := func(ws ...int) []byte {
		b := make([]byte, 0, 2*len(ws))
		for _, w := range ws {
			b = append(b, byte(w>>8), byte(w))
		}
		return b
	}
	for _, trailing := range []int{0, 40, 2 * 65540} {
		z := make([]byte, trailing)
		g41 := append(words(1, 8, 1, 14, 1, 1, 5, 1, 4, 7, 0), z...)
		o := c.Case(Verdict, "otl.gsub.read", "type=4 data="+hx(g41), true)
		c.Stat("zero-count", fmt.Sprintf("gsub4.1,trailing=%d:%s", trailing, outcomeClass(o)))
		c1 := append(words(1, 8, 1, 14, 1, 1, 5, 1, 4, 0, 0), z...)
		o = c.Case(Verdict, "otl.gsub.read", "type=6 data="+hx(c1), true)
		c.Stat("zero-count", fmt.Sprintf("chained1,trailing=%d:%s", trailing, outcomeClass(o)))
		c2 := append(words(2, 14, 20, 24, 28, 1, 32, 1, 1, 5, 2, 0, 2, 0, 2, 0, 1, 4, 0, 0), z...)
		o = c.Case(Verdict, "otl.gsub.read", "type=6 data="+hx(c2), true)
		c.Stat("zero-count", fmt.Sprintf("chained2,trailing=%d:%s", trailing, outcomeClass(o)))
		// control: count 1 (no further glyphs) is fine
		g41b := append(words(1, 8, 1, 14, 1, 1, 5, 1, 4, 7, 1), z...)
		o = c.Case(Verdict, "otl.gsub.read", "type=4 data="+hx(g41b), true)
		c.Stat("zero-count", fmt.Sprintf("gsub4.1-count1,trailing=%d:%s", trailing, outcomeClass(o)))
		c1b := append(words(1, 8, 1, 14, 1, 1, 5, 1, 4, 0, 1, 0, 0), z...)
		o = c.Case(Verdict, "otl.gsub.read", "type=6 data="+hx(c1b), true)
		c.Stat("zero-count", fmt.Sprintf("chained1-count1,trailing=%d:%s", trailing, outcomeClass(o)))
	}
	// ChainedSeqContext2: the last rule set starts below 64 KiB and ends at 65534 / 65536 / far beyond
	// (set = 20 + 2n bytes after 50 bytes of header, coverage and class tables: the readers and the
	// encoder check where a set STARTS); and a second set that starts at 65534 / 65536
	for _, n := range []int{32732, 32733, 33000} {
		emit("C2", fmt.Sprintf("st=C2 cov=5-6 cb=7:1 ci=5-6:1 cl=8:1 sets=-|1/%s/1>0:0", strings.TrimSuffix(strings.Repeat("1.", n), ".")))
	}
	for k := 0; k < 2; k++ { // the second set starts at 65534 (written) / 65536 (refused)
		emit("C2", fmt.Sprintf("st=C2 cov=5-7 cb=7:1 ci=5:1,6-7:2 cl=8:1 sets=-|1/%s/1>0:0|//>", strings.TrimSuffix(strings.Repeat("1.", 32729+k), ".")))
		emit("C1", fmt.Sprintf("st=C1 cov=5-6 sets=1/%s/1>0:0|//>", strings.TrimSuffix(strings.Repeat("1.", 32748+k), ".")))
	}
	// long uint16 arrays (ReadUint16Slice): backtrack / lookahead class sequences of 32767 ... 65535
	// entries in the last rule set of a ChainedSeqContext2 (the encoder permits it: the set STARTS low)
	for _, n := range []int{32767, 32768, 32769, 40000, 65535} {
		long := strings.TrimSuffix(strings.Repeat("1.", n), ".")
		emit("C2", fmt.Sprintf("st=C2 cov=5-6 cb=7:1 ci=5-6:1 cl=8:1 sets=-|%s/1/1>0:0", long))
		emit("C2", fmt.Sprintf("st=C2 cov=5-6 cb=7:1 ci=5-6:1 cl=8:1 sets=-|1/1/%s>0:0", long))
	}
	// ChainedSeqContext2: one set of n rules of 16 bytes, last rule offset 65524 / 65542 (as for format 1)
	for _, n := range []int{3641, 3642} {
		q := make([]string, n)
		for k := range q {
			q[k] = "1/1/>0:1"
		}
		emit("C2", fmt.Sprintf("st=C2 cov=10 cb=7:1 ci=10:1 cl=empty sets=-|%s", strings.Join(q, ",")))
	}
	// SeqContext2: classDefOffset = 8 + 2*sets + sets' bytes + coverage at 65534 / 65536 / 65538
	for _, n := range []int{32751, 32752, 32753} {
		emit("c2", fmt.Sprintf("st=c2 cov=5-6 cd=5-6:1 sets=-|/%s/>0:0", strings.TrimSuffix(strings.Repeat("1.", n), ".")))
	}
	// formats 3 with big sparse coverage sets (16400 glyphs = 32804 bytes as format 1): the 16-bit overflow
	// falls on the k-th backtrack / input / lookahead coverage offset (refused), or nowhere (written);
	// D otl.ctx.rt: refused or faithful
	{
		q := make([]string, 16400)
		for k := range q {
			q[k] = strconv.Itoa(2 * k)
		}
		S := strings.Join(q, ",")
		for _, x := range [][3]string{
			{"", "7", S + "/" + S + "/9"},  // third lookahead offset overflows, the first two fit
			{"", "7", S + "/9/" + S},       // fits: the big table is last
			{"5", "7", S + "/9/" + S + "/3"}, // fourth lookahead offset overflows
			{S, "7", S + "/9"},             // second lookahead offset overflows
			{S + "/" + S, "7", ""},         // the input offset overflows
			{S + "/" + S + "/5", "7", "9"}, // third backtrack offset overflows
			{S, S + "/7", ""},              // second input offset overflows
			{S, "7/" + S, "9"},             // the lookahead offset overflows after a big input table
		} {
			emit("C3", fmt.Sprintf("st=C3 back=%s input=%s look=%s acts=0:1", x[0], x[1], x[2]))
		}
		emit("c3", fmt.Sprintf("st=c3 covs=%s/%s/9 acts=0:1", S, S))
		emit("c3", fmt.Sprintf("st=c3 covs=%s/9/%s acts=0:1", S, S))
		emit("c3", fmt.Sprintf("st=c3 covs=7/%s/%s/9 acts=", S, S))
	}
	// format 3 without (input) coverage: written by the encoders, rejected by the readers (known finding
	// C08-context3-no-input, D otl.ctx.rt)
	emit("c3", "st=c3 covs= acts=0:1")
	emit("c3", "st=c3 covs= acts=")
	emit("C3", "st=C3 back=5 input= look=6 acts=0:1")
	emit("C3", "st=C3 back= input= look= acts=")
	c.Case(Verdict, "otl.gsub.read", "type=5 data=000300000000", true)
	c.Case(Verdict, "otl.gsub.read", "type=6 data=00030000000000000000", true)
	// limits of the readers that the encoders now enforce (repairs 18, 19)
	for _, nb := range []int{6552, 6553} {
		for _, st := range []string{"41", "61"} {
			rows := make([]string, nb)
			for k := range rows {
				rows[k] = "0.0,0.0,0.0,0.0,0.0"
			}
			rows[nb-1] = "0.0,0.0,0.0,0.0,7.8"
			args := fmt.Sprintf("st=%s mcov=40000 bcov=%s marks=4.1.1 bases=%s", st, otlRunsString([]otlRun{{0, nb - 1, 0}}, false), strings.Join(rows, ";"))
			out := c.Case(Verdict, "otl.gpos.encode", args, true)
			c.Stat("reader-limit", fmt.Sprintf("gpos%s,%dx5:%s", st, nb, outcomeClass(out)))
			if strings.HasPrefix(out, "ok:") {
				b := gtab.VerifSubtableEncode(otlGposFromFields(parseFields(args)))
				o := c.Case(Verdict, "otl.gpos.read", fmt.Sprintf("type=%s data=%s", st[:1], hx(b)), true)
				c.Stat("reader-limit", fmt.Sprintf("gpos%s,%dx5:read:%s", st, nb, outcomeClass(o)))
			}
		}
	}
	for _, n1 := range []int{255, 256} {
		row := strings.TrimSuffix(strings.Repeat("-/-,", 256+(256-n1)), ",") // 255 x 257 = 65535, 256 x 256 = 65536
		rows := make([]string, n1)
		for k := range rows {
			rows[k] = row
		}
		args := fmt.Sprintf("st=22 cov=0-9 c1=5:1 c2=7:1 rows=%s", strings.Join(rows, ";"))
		out := c.Case(Verdict, "otl.gpos.encode", args, true)
		c.Stat("reader-limit", fmt.Sprintf("gpos22,%dx%d:%s", n1, 512-n1, outcomeClass(out)))
		if strings.HasPrefix(out, "ok:") {
			b := gtab.VerifSubtableEncode(otlGposFromFields(parseFields(args)))
			o := c.Case(Verdict, "otl.gpos.read", "type=2 data="+hx(b), true)
			c.Stat("reader-limit", fmt.Sprintf("gpos22,%dx%d:read:%s", n1, 512-n1, outcomeClass(o)))
		}
	}
	// no rule sets at all
	emit("c1", "st=c1 cov= sets=")
	emit("C1", "st=C1 cov= sets=")
	emit("c2", "st=c2 cov= cd=empty sets=")
	emit("C2", "st=C2 cov= cb=empty ci=empty cl=empty sets=")
	for _, covs := range []string{"e", "e/e", "3-4/e", "e/3-4", "7"} {
		for _, acts := range []string{"", "0:1"} {
			emit("c3", fmt.Sprintf("st=c3 covs=%s acts=%s", covs, acts))
			for _, bl := range [][2]string{{"", ""}, {"e", ""}, {"", "e"}, {"e", "e/e"}, {"5", "6"}} {
				emit("C3", fmt.Sprintf("st=C3 back=%s input=%s look=%s acts=%s", bl[0], covs, bl[1], acts))
			}
		}
	}
}

// otlLLSweep: k lookups that are replaced by extension records (with or without a mark filtering
// set), one lookup that is kept, one tiny GSUB lookup and the biggest lookup, which is moved to the
// end; the length of the kept lookup's blob is chosen so that the offset of the moved lookup - with
// exactly the k lookups replaced - is R, for every R in 0xFFF0..0x10010.  (Above 0xFFFF the encoder
// has to replace the kept lookup as well.)
func otlLLSweep(c *Ctx) {
	type cfg struct {
		k   int
		mfs bool
	}
	cfgs := []cfg{{1, true}, {2, true}, {3, true}, {1, false}, {2, false}, {3, false}}
	if c.Tier != "thorough" {
		// every quick run: all 33 offsets for one configuration with mark filtering sets
		cfgs = cfgs[c.Rng.Intn(3):][:1]
	}
	for _, cf := range cfgs {
		for R := 0xFFF0; R <= 0x10010; R++ {
			n := cf.k + 3
			before := 2 + 2*n
			var ls []string
			for i := 1; i <= cf.k; i++ {
				ns := i // number of subtables of the i-th replaced lookup
				fl, hdr := 0, 6+2*ns
				if cf.mfs {
					fl, hdr = 16, 8+2*ns
				}
				before += hdr + 8*ns
				// payload: decreasing with i, always above the kept lookup (about 65 KiB)
				pay := 69000 - 700*i
				subs := make([]string, ns)
				for j := range subs {
					subs[j] = fmt.Sprintf("n:%d:%d", pay/ns+j, (7*i+j)%251)
				}
				ls = append(ls, fmt.Sprintf("%d/%d/%d/%s", 1+i%4, fl, i, strings.Join(subs, "|")))
			}
			sfl, shdr := 0, 8
			if R%2 == 1 {
				sfl, shdr = 16, 10 // the kept lookup with a mark filtering set on odd offsets
			}
			before += 20 // the GSUB 1.1 lookup: 8 + 12
			v := R - before - shdr
			kept := fmt.Sprintf("2/%d/2/n:%d:%d", sfl, v, R%251)
			tiny := "1/0/0/g:5:3"
			big := fmt.Sprintf("4/%d/1/n:%d:9", map[bool]int{true: 16, false: 0}[cf.mfs], 75000)
			// original order: vary where the biggest and the kept lookup stand
			var all []string
			switch R % 3 {
			case 0:
				all = append(append(append([]string{}, ls...), kept, tiny), big)
			case 1:
				all = append(append([]string{big, tiny}, ls...), kept)
			default:
				all = append(append([]string{kept}, ls...), big, tiny)
			}
			line := strings.Join(all, ";")
			out := c.Case(Verdict, "otl.ll.encode", "ll="+line, true)
			what := outcomeClass(out)
			if strings.HasPrefix(out, "ok:") {
				ll, _ := otlParseLL(line)
				b := gtab.VerifEncodeLookupList(ll)
				// where did the biggest lookup go?
				bi := 0
				for i, q := range all {
					if q == big {
						bi = i
					}
				}
				off := int(b[2+2*bi])<<8 | int(b[3+2*bi])
				switch {
				case off == R:
					what = "ok:offset=R"
				case R > 0xFFFF && off < R:
					what = "ok:more-replaced"
				default:
					what = fmt.Sprintf("ok:UNEXPECTED-offset-%d-for-R-%d", off, R)
				}
				c.Case(Direct, "otl.ll.prop", fmt.Sprintf("ll=%s ext=7 sum=%s", line, otlShowBytes(b)), true)
			}
			side := "R<=0xFFFF"
			if R > 0xFFFF {
				side = "R>0xFFFF"
			}
			c.Stat("ll.sweep", fmt.Sprintf("k=%d,mfs=%v,%s:%s", cf.k, cf.mfs, side, what))
		}
	}
}

func outcomeClass(o string) string {
	switch {
	case strings.HasPrefix(o, "ok"):
		return "ok"
	case strings.HasPrefix(o, "err:"):
		return o
	case strings.HasPrefix(o, "panic"):
		return "panic"
	}
	return "other"
}

// otlGenLL draws a lookup list in the case-line syntax.
func otlGenLL(r *Rng, i int) (string, map[string]string) {
	info := map[string]string{}
	nLookups := 0
	switch m := r.Intn(20); {
	case m == 0:
		nLookups = 0
	case m < 12:
		nLookups = r.Range(1, 6)
	case m < 17:
		nLookups = r.Range(5, 40)
	case m < 19:
		nLookups = r.Range(40, 300)
	default:
		nLookups = r.Range(1, 3)
	}
	// size plan: "small" stays far below 64 KiB; "edge" puts the total near 0xFFFF; "big" crosses
	// it with one or several large lookups; "huge" has subtables above 64 KiB
	plan := Pick(r, []string{"small", "small", "edge", "edge", "big", "big", "huge", "multi", "multi", "multi"})
	if nLookups == 0 {
		plan = "small"
	}
	if plan == "multi" && nLookups < 3 {
		nLookups = r.Range(3, 9)
	}
	info["plan"] = plan
	kindMode := Pick(r, []string{"gsub", "gsub", "gpos", "none", "late"})
	info["kinds"] = kindMode
	var lookups []string
	sizes := make([][]int, nLookups)
	budget := 0
	switch plan {
	case "edge":
		budget = 65536 + Pick(r, []int{-40, -9, -2, -1, 0, 1, 2, 9, 40})
	case "big":
		budget = r.Range(66000, 200000)
	case "multi":
		budget = r.Range(130000, 400000)
	case "huge":
		budget = r.Range(70000, 300000)
	}
	for k := range sizes {
		ns := Pick(r, []int{0, 1, 1, 1, 2, 3, 5})
		if nLookups <= 3 && r.Chance(1, 3) {
			ns = r.Range(1, 12)
		}
		for j := 0; j < ns; j++ {
			sizes[k] = append(sizes[k], Pick(r, []int{0, 1, 2, 6, 10, 33, 100, 257, 1000}))
		}
	}
	if budget > 0 && nLookups > 0 {
		switch plan {
		case "multi":
			// several medium-sized lookups (each below 64 KiB) which together exceed 16 bits: the
			// largest is moved to the end, others are replaced by extension records
			nBig := r.Range(3, min(8, nLookups))
			for b := 0; b < nBig; b++ {
				k := Pick(r, []int{0, nLookups - 1, r.Intn(nLookups), r.Intn(nLookups)})
				share := r.Range(12000, 64000)
				if len(sizes[k]) == 0 {
					sizes[k] = []int{0}
				}
				for j := range sizes[k] {
					sizes[k][j] = share / len(sizes[k])
				}
			}
		default:
			k := Pick(r, []int{0, nLookups - 1, r.Intn(nLookups)})
			if len(sizes[k]) == 0 {
				sizes[k] = []int{0}
			}
			switch r.Intn(4) {
			case 0: // everything in the last subtable: offsets inside the lookup stay small
				sizes[k][len(sizes[k])-1] = budget
			case 1: // a very large subtable followed by another one (its offset needs > 16 bits)
				sizes[k][r.Intn(len(sizes[k]))] = budget
				sizes[k] = append(sizes[k], r.Range(1, 70000))
			case 2: // spread evenly
				for j := range sizes[k] {
					sizes[k][j] = budget / len(sizes[k])
				}
			default: // the last subtable starts just below / at / above offset 0x10000
				hdr := 6 + 2*(len(sizes[k])+1) + Pick(r, []int{0, 2})
				before := 0
				for _, n := range sizes[k] {
					before += n
				}
				pad := 65536 - hdr - before + Pick(r, []int{-3, -2, -1, 0, 1, 2})
				if pad >= 0 {
					sizes[k] = append(sizes[k], pad, r.Range(1, 3000))
				}
			}
		}
	}
	kindPlaced := false
	total := 0
	for k := 0; k < nLookups; k++ {
		fl := Pick(r, []int{0, 0, 1, 8, 16, 16, 0x10 | 0x0200, 0xFF0E})
		// the lookup type of a Meta is never the extension type of its table (7 in GSUB, 9 in GPOS)
		tp := Pick(r, []int{1, 2, 3, 4, 5, 6, 8})
		if kindMode == "gpos" {
			tp = r.Range(1, 8)
		}
		mfs := r.Intn(4)
		var subs []string
		for j, n := range sizes[k] {
			s := fmt.Sprintf("n:%d:%d", n, r.Intn(251))
			wantKind := kindMode == "gsub" || kindMode == "gpos" || (kindMode == "late" && k == nLookups-1 && j == len(sizes[k])-1)
			if wantKind && !kindPlaced && n < 2000 {
				if kindMode == "gpos" {
					s = fmt.Sprintf("p:%d:%d", r.Intn(65536), r.Range(1, 32767))
					n = 14
				} else {
					s = fmt.Sprintf("g:%d:%d", r.Intn(65536), r.Intn(65536))
					n = 12
				}
				kindPlaced = true
			}
			total += n
			subs = append(subs, s)
		}
		lookups = append(lookups, fmt.Sprintf("%d/%d/%d/%s", tp, fl, mfs, strings.Join(subs, "|")))
	}
	info["lookups"] = bucket(nLookups)
	info["payload"] = bucket(total)
	keys := make([]string, 0, len(info))
	for k := range info {
		keys = append(keys, k)
	}
	sort.Strings(keys)
	return strings.Join(lookups, ";"), info
}
