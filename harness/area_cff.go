package main

// Area "cff" (property C13): CFF sections — INDEX, DICT operands (integers, reals), charset,
// FDSelect — hook-level byte-exact correspondence with the Lean model (V), the Lean
// specification readers (TN5176) applied to bytes written by the real code (D).

import (
	"bytes"
	"encoding/hex"
	"errors"
	"fmt"
	"io"
	"math"
	"math/big"
	"strconv"
	"strings"

	"seehuhn.de/go/geom/matrix"
	"seehuhn.de/go/postscript/cid"
	"seehuhn.de/go/postscript/funit"
	"seehuhn.de/go/postscript/type1"

	"seehuhn.de/go/sfnt/cff"
	"seehuhn.de/go/sfnt/glyph"
	"seehuhn.de/go/sfnt/parser"
)

func c13Err(err error) string {
	var e1 *parser.NotSupportedError
	var e2 *parser.InvalidFontError
	switch {
	case errors.As(err, &e1):
		return "err:unsupported"
	case errors.As(err, &e2):
		return "err:invalid"
	case errors.Is(err, io.ErrUnexpectedEOF), errors.Is(err, io.EOF):
		return "err:eof"
	}
	return "err:other"
}

func c13Guard(f func() string) string {
	s := guard(f)
	if strings.HasPrefix(s, "panic:") {
		return "panic"
	}
	return s
}

// blob syntax: hex, "-" (empty), "z<n>" (n zero bytes)
func c13ParseBlob(s string) []byte {
	switch {
	case s == "-":
		return []byte{}
	case strings.HasPrefix(s, "p"):
		i := strings.IndexByte(s, ':')
		n, err1 := strconv.Atoi(s[1:i])
		seed, err2 := strconv.Atoi(s[i+1:])
		if err1 != nil || err2 != nil {
			panic("bad blob")
		}
		b := make([]byte, n)
		x := uint64(seed)
		for j := range b {
			x = (x*1103515245 + 12345) % 2147483648
			b[j] = byte(x / 65536)
		}
		return b
	case strings.HasPrefix(s, "z"):
		n, err := strconv.Atoi(s[1:])
		if err != nil {
			panic("bad blob")
		}
		return make([]byte, n)
	}
	b, err := hex.DecodeString(s)
	if err != nil {
		panic("bad blob hex")
	}
	return b
}

func c13Sum(b []byte) uint32 {
	h := uint32(7)
	for _, x := range b {
		h = h*31 + uint32(x)
	}
	return h
}

func c13ParseBlobs(s string) [][]byte {
	if s == "" {
		return nil
	}
	parts := strings.Split(s, ",")
	out := make([][]byte, len(parts))
	for i, p := range parts {
		out[i] = c13ParseBlob(p)
	}
	return out
}

func c13ShowBlob(b []byte) string {
	if len(b) == 0 {
		return "-"
	}
	return hx(b)
}

func c13ShowBlobs(l [][]byte) string {
	parts := make([]string, len(l))
	for i, b := range l {
		parts[i] = c13ShowBlob(b)
	}
	return strings.Join(parts, ",")
}

// canonical form of a float64 delivered by the DICT decoder: r[-]<mantissa>e<exp> with the
// shortest decimal mantissa that identifies the float (no trailing zeros), r0e0 for zero.
func c13ShowReal(x float64) string {
	if x == 0 {
		return "r0e0"
	}
	sign := ""
	if x < 0 {
		sign = "-"
		x = -x
	}
	s := strconv.FormatFloat(x, 'e', -1, 64) // d.ddddde±XX
	i := strings.IndexByte(s, 'e')
	mant, exps := s[:i], s[i+1:]
	e, _ := strconv.Atoi(exps)
	digits := strings.Replace(mant, ".", "", 1)
	e -= len(digits) - 1
	for len(digits) > 1 && digits[len(digits)-1] == '0' {
		digits = digits[:len(digits)-1]
		e++
	}
	return fmt.Sprintf("r%s%se%d", sign, digits, e)
}

func c13ShowOperand(a interface{}) string {
	switch v := a.(type) {
	case int32:
		return fmt.Sprintf("i%d", v)
	case float64:
		return c13ShowReal(v)
	case string:
		return "s" + hx([]byte(v))
	}
	return "?"
}

// operand syntax: i<int> | r[-]<digits>e<l>  (0.digits · 10^l)
func c13ParseOperand(s string) interface{} {
	switch s[0] {
	case 'i':
		n, err := strconv.ParseInt(s[1:], 10, 64)
		if err != nil {
			panic("bad int operand")
		}
		return int32(n)
	case 'r':
		t := s[1:]
		sign := ""
		if strings.HasPrefix(t, "-") {
			sign, t = "-", t[1:]
		}
		i := strings.IndexByte(t, 'e')
		x, err := strconv.ParseFloat(sign+"0."+t[:i]+"e"+t[i+1:], 64)
		if err != nil {
			panic("bad real operand")
		}
		return x
	}
	panic("bad operand")
}

func c13ParseDict(s string) ([]uint16, [][]interface{}) {
	var ops []uint16
	var args [][]interface{}
	if s == "" {
		return ops, args
	}
	for _, e := range strings.Split(s, ",") {
		i := strings.IndexByte(e, ':')
		op, err := strconv.Atoi(e[:i])
		if err != nil {
			panic("bad op")
		}
		var as []interface{}
		if e[i+1:] != "" {
			for _, a := range strings.Split(e[i+1:], "|") {
				as = append(as, c13ParseOperand(a))
			}
		}
		ops = append(ops, uint16(op))
		args = append(args, as)
	}
	return ops, args
}

func c13ShowDict(ops []uint16, args [][]interface{}) string {
	parts := make([]string, len(ops))
	for i, op := range ops {
		as := make([]string, len(args[i]))
		for j, a := range args[i] {
			as[j] = c13ShowOperand(a)
		}
		parts[i] = fmt.Sprintf("%d:%s", op, strings.Join(as, "|"))
	}
	return strings.Join(parts, ",")
}

func c13Int32s(l []int) []int32 {
	out := make([]int32, len(l))
	for i, x := range l {
		out[i] = int32(x)
	}
	return out
}

func c13ShowInt32s(l []int32) string {
	parts := make([]string, len(l))
	for i, x := range l {
		parts[i] = strconv.Itoa(int(x))
	}
	return strings.Join(parts, ",")
}

func c13FdFn(fds []int) cff.FDSelectFn {
	return func(gid glyph.ID) int { return fds[gid] }
}

func c13Want(f Fields) string { return f["want"] }

func init() {
	areas["cff"] = areaCff
	ops["cff.index.enc"] = func(f Fields) string {
		return c13Guard(func() string { return "ok:" + hx(cff.VerifIndexEncode(c13ParseBlobs(f["blobs"]))) })
	}
	ops["cff.index.enchead"] = func(f Fields) string {
		return c13Guard(func() string {
			blobs := c13ParseBlobs(f["blobs"])
			body := 0
			for _, b := range blobs {
				body += len(b)
			}
			out := cff.VerifIndexEncode(blobs)
			return fmt.Sprintf("ok:%s;len=%d", hx(out[:len(out)-body]), len(out))
		})
	}
	ops["cff.index.encsum"] = func(f Fields) string {
		return c13Guard(func() string {
			out := cff.VerifIndexEncode(c13ParseBlobs(f["blobs"]))
			return fmt.Sprintf("ok:len=%d;sum=%d", len(out), c13Sum(out))
		})
	}
	ops["cff.index.readsum"] = func(f Fields) string {
		return c13Guard(func() string {
			k := f.Int("pre")
			enc := cff.VerifIndexEncode(c13ParseBlobs(f["blobs"]))
			data := append(append(make([]byte, k), enc...), 1, 2, 3)
			blobs, pos, err := cff.VerifReadIndex(data, int64(k))
			if err != nil {
				return c13Err(err)
			}
			var lens, all []byte
			for _, b := range blobs {
				lens = append(lens, byte(len(b)), byte(len(b)/256))
				all = append(all, b...)
			}
			return fmt.Sprintf("ok:n=%d;lens=%d;sum=%d;pos=%d", len(blobs), c13Sum(lens), c13Sum(all), pos)
		})
	}
	ops["cff.index.read"] = func(f Fields) string {
		return c13Guard(func() string {
			blobs, pos, err := cff.VerifReadIndex(f.Hex("data"), int64(f.Int("pos")))
			if err != nil {
				return c13Err(err)
			}
			return fmt.Sprintf("ok:%s;pos=%d", c13ShowBlobs(blobs), pos)
		})
	}
	ops["cff.index.spec"] = c13Want
	ops["cff.dict.enc"] = func(f Fields) string {
		return c13Guard(func() string {
			o, a := c13ParseDict(f["dict"])
			out, _ := cff.VerifDictEncode(o, a)
			return hx(out)
		})
	}
	ops["cff.dict.dec"] = func(f Fields) string {
		return c13Guard(func() string {
			var custom []string
			for _, b := range c13ParseBlobs(f["custom"]) {
				custom = append(custom, string(b))
			}
			o, a, err := cff.VerifDictDecode(f.Hex("data"), custom)
			if err != nil {
				return c13Err(err)
			}
			return "ok:" + c13ShowDict(o, a)
		})
	}
	ops["cff.dict.specdec"] = c13Want
	ops["cff.real.enc"] = func(f Fields) string {
		return c13Guard(func() string { return hx(cff.VerifEncodeFloat(c13ParseOperand(f["x"]).(float64))) })
	}
	ops["cff.real.dec"] = func(f Fields) string {
		return c13Guard(func() string {
			rest, x, err := cff.VerifDecodeFloat(f.Hex("data"))
			if err != nil {
				return c13Err(err)
			}
			return fmt.Sprintf("ok:%s;rest=%d", c13ShowReal(x), len(rest))
		})
	}
	ops["cff.charset.enc"] = func(f Fields) string {
		return c13Guard(func() string {
			out, err := cff.VerifEncodeCharset(c13Int32s(f.Ints("names")))
			if err != nil {
				return c13Err(err)
			}
			return "ok:" + hx(out)
		})
	}
	ops["cff.charset.read"] = func(f Fields) string {
		return c13Guard(func() string {
			names, pos, err := cff.VerifReadCharset(f.Hex("data"), f.Int("n"))
			if err != nil {
				return c13Err(err)
			}
			return fmt.Sprintf("ok:%s;pos=%d", c13ShowInt32s(names), pos)
		})
	}
	ops["cff.charset.spec"] = c13Want
	ops["cff.fdselect.enc"] = func(f Fields) string {
		return c13Guard(func() string {
			fds := f.Ints("fds")
			return hx(cff.VerifFDSelectEncode(c13FdFn(fds), len(fds)))
		})
	}
	ops["cff.fdselect.read"] = func(f Fields) string {
		return c13Guard(func() string {
			n := f.Int("n")
			fn, err := cff.VerifReadFDSelect(f.Hex("data"), n, f.Int("np"))
			if err != nil {
				return c13Err(err)
			}
			out := make([]int, n)
			for i := range out {
				out[i] = fn(glyph.ID(i))
			}
			return "ok:" + ints(out)
		})
	}
	ops["cff.fdselect.spec"] = c13Want
}

// ---------------------------------------------------------------------------------------
// generators

func areaCff(c *Ctx) {
	n := c.N
	c13GenIndex(c, n/5+1)
	c13GenDictInts(c, n/5+1)
	c13GenReals(c, n/5+1)
	c13GenCharset(c, n/5+1)
	c13GenFDSelect(c, n/5+1)
	c13GenFonts(c, n/8+1)
	c13GenWidths(c, n/8+1)
	c13GenEncoding(c, n/6+1)
	c13GenStrings(c, n/20+1)
	c13GenEncodingBoundary(c)
	c13GenOffsetSweep(c)
	c13GenRealBoundary(c)
	c13GenEncodingSubset(c)
	c13GenCrossDefaults(c)
	c13GenBlueGaps(c)
	c13GenLargeWidths(c)
	c13GenRound7(c)
	c13GenAngles(c)
	c13GenEmptyElements(c)
	c13GenMatrixTranslation(c)
}

// mutate returns a damaged copy of data (truncation, bit flip, byte overwrite, count inflation).
func c13Mutate(r *Rng, data []byte) []byte {
	m := append([]byte(nil), data...)
	switch r.Intn(5) {
	case 0:
		m = m[:r.Intn(len(m)+1)]
	case 1:
		if len(m) > 0 {
			m[r.Intn(len(m))] ^= byte(1 << r.Intn(8))
		}
	case 2:
		lim := len(m)
		if lim > 8 {
			lim = 8
		}
		for j := 0; j < r.Range(1, 2) && lim > 0; j++ {
			m[r.Intn(lim)] = byte(r.U64())
		}
	case 3:
		if len(m) > 0 {
			m[r.Intn(len(m))] = byte(r.U64())
		}
	case 4:
		m = append(m, r.Bytes(r.Range(1, 4))...)
	}
	return m
}

func c13OutcomeClass(s string) string {
	if strings.HasPrefix(s, "ok:") {
		return "ok"
	}
	return s
}

func c13GenIndex(c *Ctx, n int) {
	r := c.Rng
	// body lengths at the offSize steps (Appendix F): bodyLength+1 = 255,256,257 / 65535,65536,65537
	special := [][]int{{}, {0}, {0, 0, 0}, {1}, {254}, {255}, {256}, {100, 154}, {100, 155}, {100, 156},
		{65534}, {65535}, {65536}, {30000, 35534}, {30000, 35535}, {30000, 35536}, {0, 65535, 0}}
	for i := 0; i < n; i++ {
		var sizes []int
		if i < len(special) {
			sizes = special[i]
		} else {
			k := r.Range(1, 12)
			if r.Chance(1, 10) {
				k = r.Range(13, 300)
			}
			for j := 0; j < k; j++ {
				switch r.Intn(6) {
				case 0:
					sizes = append(sizes, 0)
				case 1:
					sizes = append(sizes, r.Range(1, 3))
				case 2:
					if k < 20 {
						sizes = append(sizes, r.Range(200, 300))
					} else {
						sizes = append(sizes, r.Range(0, 4))
					}
				default:
					sizes = append(sizes, r.Range(0, 20))
				}
			}
		}
		total := 0
		for _, s := range sizes {
			total += s
		}
		big := total > 3000
		parts := make([]string, len(sizes))
		blobs := make([][]byte, len(sizes))
		for j, s := range sizes {
			if big && s > 64 {
				parts[j] = fmt.Sprintf("z%d", s)
				blobs[j] = make([]byte, s)
			} else {
				blobs[j] = r.Bytes(s)
				parts[j] = c13ShowBlob(blobs[j])
			}
		}
		arg := "blobs=" + strings.Join(parts, ",")
		c.Stat("index_count", bucket(len(sizes)))
		c.Stat("index_body", bucket(total))
		switch {
		case len(sizes) == 0:
			c.Stat("index_offSize", "none")
		case total+1 < 1<<8:
			c.Stat("index_offSize", "1")
		case total+1 < 1<<16:
			c.Stat("index_offSize", "2")
		case total+1 < 1<<24:
			c.Stat("index_offSize", "3")
		}
		for _, t := range []int{254, 255, 256, 65534, 65535, 65536} {
			if total == t {
				c.Stat("index_body_threshold", fmt.Sprint(t))
			}
		}
		if big {
			c.Case(Verdict, "cff.index.enchead", arg, true)
			if total > 70000 || (c.Tier == "quick" && i%3 != 0) {
				continue
			}
		}
		out := c.Case(Verdict, "cff.index.enc", arg, len(sizes) > 0)
		if !strings.HasPrefix(out, "ok:") {
			continue
		}
		enc := c13HexMust(out[3:])
		pre := r.Bytes(r.Intn(6))
		rest := r.Bytes(r.Intn(6))
		file := append(append(append([]byte(nil), pre...), enc...), rest...)
		want := fmt.Sprintf("%s;pos=%d", c13ShowBlobs(blobs), len(pre)+len(enc))
		got := c.Case(Verdict, "cff.index.read", fmt.Sprintf("data=%s pos=%d", hx(file), len(pre)), len(sizes) > 0)
		if got != "ok:"+want {
			c.Stat("index_read_back", "DIFFERENT")
		} else {
			c.Stat("index_read_back", "same")
		}
		c.Case(Direct, "cff.index.spec", fmt.Sprintf("data=%s pos=%d want=%s", hx(file), len(pre), want), len(sizes) > 0)
		if big {
			continue
		}
		for k := 0; k < 3; k++ {
			m := c13Mutate(r, file)
			res := c.Case(Verdict, "cff.index.read", fmt.Sprintf("data=%s pos=%d", hx(m), len(pre)), true)
			c.Stat("index_read_mutated", c13OutcomeClass(res))
		}
	}
	// offSize 3 and 4 with pseudo-random content: only a compact description travels, both sides
	// expand it and compare length and checksum of the whole INDEX, and of what the reader returns
	big := []string{"p65535:3,p7:4", "p65536:5", "p100000:6,-,p255:7", "p16777214:8", "p16777000:9,p215:10", "p9000000:11,p8000000:12"}
	if c.Tier == "quick" {
		big = []string{"p65535:3,p7:4", "p100000:6,-,p255:7", "p16777214:8", "p16777000:9,p215:10"}
	}
	for _, b := range big {
		res := c.Case(Verdict, "cff.index.encsum", "blobs="+b, true)
		c.Stat("index_big_enc", b+" => "+res)
		res = c.Case(Verdict, "cff.index.readsum", "blobs="+b+" pre=5", true)
		c.Stat("index_big_read", c13OutcomeClass(res))
	}
	// too many items: 65535 is accepted, 65536 panics
	for _, k := range []int{65535, 65536} {
		arg := "blobs=" + strings.TrimSuffix(strings.Repeat("-,", k), ",")
		res := c.Case(Verdict, "cff.index.enchead", arg, true)
		c.Stat("index_count_limit", fmt.Sprintf("%d:%s", k, c13OutcomeClass(res)))
	}
	// random garbage
	for i := 0; i < n/4+1; i++ {
		m := r.Bytes(r.Range(0, 24))
		if len(m) > 2 && r.Bool() {
			m[0], m[2] = 0, byte(r.Range(0, 5))
		}
		res := c.Case(Verdict, "cff.index.read", fmt.Sprintf("data=%s pos=%d", hx(m), r.Intn(3)), true)
		c.Stat("index_read_mutated", c13OutcomeClass(res))
	}
}

func c13HexMust(s string) []byte {
	b, err := hex.DecodeString(s)
	if err != nil {
		panic("bad hex from op")
	}
	return b
}

var c13IntBoundaries = []int64{0, 1, -1, -107, 107, -108, 108, -106, 106, 109, -109, 1131, 1132, 1130, -1131, -1132, -1130,
	32767, 32768, 32766, -32768, -32769, -32767, 2147483647, 2147483646, -2147483648, -2147483647, 65535, 65536, -65536,
	16777215, 16777216, -16777216, 363, 364, 619, 620, 875, 876, -363, -364}

func c13RandInt(r *Rng) int64 {
	switch r.Intn(6) {
	case 0:
		return Pick(r, c13IntBoundaries)
	case 1:
		return int64(r.Range(-120, 120))
	case 2:
		return int64(r.Range(-1200, 1200))
	case 3:
		return int64(r.Range(-33000, 33000))
	case 4:
		return int64(int32(r.U64()))
	}
	return int64(int32(r.U64())) >> uint(r.Intn(31))
}

func c13IntClass(v int64) string {
	switch {
	case v >= -107 && v <= 107:
		return "1byte"
	case v >= 108 && v <= 1131:
		return "2byte+"
	case v >= -1131 && v <= -108:
		return "2byte-"
	case v >= -32768 && v <= 32767:
		return "3byte(28)"
	}
	return "5byte(29)"
}

// operators that are not string-valued (top and private DICT), including the two with a special rank
var c13PlainOps = []int{5, 6, 7, 8, 9, 10, 11, 15, 16, 17, 18, 19, 20, 21, 3073, 3074, 3075, 3076, 3078, 3079, 3081, 3082,
	3083, 3086, 3092, 3103, 3104, 3105, 3106, 3107, 3108, 3109, 3327}

// c13RandReal returns the operand text r[-]<digits>e<l> and its canonical decoded form.
func c13RandReal(r *Rng, nd int, l int) (string, string) {
	d := make([]byte, nd)
	for i := range d {
		d[i] = byte('0' + r.Intn(10))
	}
	d[0] = byte('1' + r.Intn(9))
	if r.Chance(1, 4) { // trailing zeros are stripped by the encoder
		for i := r.Range(1, nd); i < nd; i++ {
			d[i] = '0'
		}
	}
	sign := ""
	if r.Chance(1, 3) {
		sign = "-"
	}
	s := strings.TrimRight(string(d), "0")
	return fmt.Sprintf("r%s%se%d", sign, d, l), fmt.Sprintf("r%s%se%d", sign, s, l-len(s))
}

func c13GenDictInts(c *Ctx, n int) {
	r := c.Rng
	for i := 0; i < n; i++ {
		// a DICT with 1..5 operators, integer (and a few real) operands
		k := r.Range(1, 5)
		if i < len(c13IntBoundaries) {
			k = 1
		}
		used := map[int]bool{}
		var parts, wantParts []string
		type ent struct {
			op   int
			text string
		}
		var ents []ent
		for j := 0; j < k; j++ {
			op := Pick(r, c13PlainOps)
			if used[op] {
				continue
			}
			used[op] = true
			na := r.Range(0, 6)
			if i < len(c13IntBoundaries) {
				na = 1
			}
			var as, ws []string
			for a := 0; a < na; a++ {
				if i >= len(c13IntBoundaries) && r.Chance(1, 6) {
					t, w := c13RandReal(r, r.Range(1, 9), r.Range(-12, 12))
					as = append(as, t)
					ws = append(ws, w)
					c.Stat("dict_operand", "real")
					continue
				}
				v := c13RandInt(r)
				if i < len(c13IntBoundaries) {
					v = c13IntBoundaries[i]
				}
				as = append(as, fmt.Sprintf("i%d", v))
				ws = append(ws, fmt.Sprintf("i%d", v))
				c.Stat("dict_operand", c13IntClass(v))
				for _, b := range []int64{-107, 107, -108, 108, 1131, 1132, -1131, -1132, 32767, 32768, -32768, -32769, 2147483647, -2147483648} {
					if v == b {
						c.Stat("dict_int_boundary", fmt.Sprint(b))
					}
				}
			}
			parts = append(parts, fmt.Sprintf("%d:%s", op, strings.Join(as, "|")))
			ents = append(ents, ent{op, fmt.Sprintf("%d:%s", op, strings.Join(ws, "|"))})
		}
		// canonical order: SyntheticBase, ROS, then ascending
		rank := func(op int) int {
			switch op {
			case 3102:
				return -1
			case 3092:
				return -2
			}
			return op
		}
		for a := 0; a < len(ents); a++ {
			for b := a + 1; b < len(ents); b++ {
				if rank(ents[b].op) < rank(ents[a].op) {
					ents[a], ents[b] = ents[b], ents[a]
				}
			}
		}
		for _, e := range ents {
			wantParts = append(wantParts, e.text)
		}
		c.Stat("dict_ops", bucket(len(ents)))
		out := c.Case(Verdict, "cff.dict.enc", "dict="+strings.Join(parts, ","), true)
		if strings.HasPrefix(out, "panic") || out == "" {
			continue
		}
		c.Case(Direct, "cff.dict.specdec", fmt.Sprintf("data=%s custom= want=ok:%s", out, strings.Join(wantParts, ",")), true)
		res := c.Case(Verdict, "cff.dict.dec", fmt.Sprintf("data=%s custom=", out), true)
		if res == "ok:"+strings.Join(wantParts, ",") {
			c.Stat("dict_read_back", "same")
		} else {
			c.Stat("dict_read_back", "DIFFERENT")
		}
		data := c13HexMust(out)
		for m := 0; m < 3; m++ {
			mu := c13Mutate(r, data)
			c13DictDecCase(c, mu, "")
		}
	}
	// hand-made streams: string-valued operators with SIDs inside/outside the table, reserved bytes
	custom := "666f6f,626172" // foo, bar
	for i := 0; i < n/3+8; i++ {
		var b []byte
		for j := 0; j < r.Range(1, 4); j++ {
			switch r.Intn(8) {
			case 0:
				b = append(b, byte(r.Range(32, 246)))
			case 1:
				b = append(b, 28, byte(r.Range(0, 2)), byte(r.U64()))
			case 2:
				b = append(b, byte(r.Range(247, 254)), byte(r.U64()))
			case 3:
				b = append(b, 29, 0, 0, byte(r.Range(0, 2)), byte(r.U64()))
			case 4:
				b = append(b, 30, byte(r.Range(0, 9)<<4|r.Range(0, 9)), byte(r.Range(0, 9)<<4|15))
			case 5:
				b = append(b, byte(r.U64()))
			case 6:
				b = append(b, 28, 1, byte(r.Range(0x80, 0x8c))) // SID around 391
			case 7:
				b = append(b, 139)
			}
		}
		switch r.Intn(4) {
		case 0:
			b = append(b, byte(r.Range(0, 4)))
		case 1:
			b = append(b, 12, Pick(r, []byte{0, 21, 22, 30, 38, 7, 20}))
		case 2:
			b = append(b, byte(r.Range(0, 21)))
		case 3:
			b = append(b, byte(r.U64()))
		}
		c13DictDecCase(c, b, custom)
	}
}

// c13RealTooLong: a nibble string with more than 15 digit nibbles may follow a byte 0x1e;
// such reals are outside the compared domain (float64 rounding is not modelled).
func c13RealTooLong(b []byte) bool {
	for i, x := range b {
		if x != 0x1e {
			continue
		}
		digits := 0
	scan:
		for _, y := range b[i+1:] {
			for _, nib := range []byte{y >> 4, y & 15} {
				if nib == 15 {
					break scan
				}
				if nib <= 9 {
					digits++
				}
			}
		}
		if digits > 15 {
			return true
		}
	}
	return false
}

func c13DictDecCase(c *Ctx, data []byte, custom string) {
	if c13RealTooLong(data) {
		c.Stat("dict_dec_skipped", "real>15digits")
		return
	}
	res := c.Case(Verdict, "cff.dict.dec", fmt.Sprintf("data=%s custom=%s", hx(data), custom), true)
	c.Stat("dict_dec_mutated", c13OutcomeClass(res))
}

func c13GenReals(c *Ctx, n int) {
	r := c.Rng
	for i := 0; i < n; i++ {
		nd := 1 + i%9
		l := r.Range(-12, 12)
		switch r.Intn(8) {
		case 0:
			l = r.Range(-40, 40)
		case 1:
			l = Pick(r, []int{-290, -200, 200, 290, 299, -298})
		case 2:
			l = r.Range(nd-2, nd+4) // around the layout switch on l vs number of digits
		}
		text, want := c13RandReal(r, nd, l)
		c.Stat("real_digits", fmt.Sprint(nd))
		// the number of significant digits after stripping
		sig := len(strings.SplitN(strings.TrimPrefix(strings.TrimPrefix(want, "r"), "-"), "e", 2)[0])
		rel := l - sig
		switch {
		case rel > 2:
			c.Stat("real_layout", "digits e+N")
		case rel == 2:
			c.Stat("real_layout", "digits 00")
		case rel == 1:
			c.Stat("real_layout", "digits 0")
		case rel == 0:
			c.Stat("real_layout", "integer")
		case l > 0:
			c.Stat("real_layout", "dd.ddd")
		case l == 0:
			c.Stat("real_layout", ".ddd")
		case l == -1:
			c.Stat("real_layout", ".0ddd")
		default:
			c.Stat("real_layout", "digits e-N")
		}
		switch {
		case l <= -12:
			c.Stat("real_exponent", "<=-12")
		case l >= 12:
			c.Stat("real_exponent", ">=12")
		default:
			c.Stat("real_exponent", "-11..11")
		}
		out := c.Case(Verdict, "cff.real.enc", "x="+text, true)
		if strings.HasPrefix(out, "panic") {
			continue
		}
		res := c.Case(Verdict, "cff.real.dec", "data="+out+hx(r.Bytes(r.Intn(3))), true)
		if strings.HasPrefix(res, "ok:"+want+";") {
			c.Stat("real_read_back", "same")
		} else {
			c.Stat("real_read_back", "DIFFERENT")
		}
		// the property: the decimal comes back (Lean decoder on the Go bytes)
		c.Case(Direct, "cff.dict.specdec", fmt.Sprintf("data=1e%s11 custom= want=ok:17:%s", out, want), true)
		// mutated nibble strings
		data := c13HexMust(out)
		for k := 0; k < 2; k++ {
			m := c13Mutate(r, data)
			if c13RealTooLong(append([]byte{0x1e}, m...)) {
				continue
			}
			rr := c.Case(Verdict, "cff.real.dec", "data="+hx(m), true)
			c.Stat("real_dec_mutated", c13OutcomeClass(rr))
		}
	}
	// 10-12 significant digits: the float computation rounds to nine digits ("to nine significant
	// digits"); the expected value is the decimal rounding, ties and near-ties avoided
	for i := 0; i < n/3+3; i++ {
		nd := 10 + i%3
		d := make([]byte, nd)
		for j := range d {
			d[j] = byte('0' + r.Intn(10))
		}
		d[0] = byte('1' + r.Intn(9))
		// digit 10 decides the rounding; keep the tail away from 4999…/5000…
		if d[9] == '4' || d[9] == '5' {
			d[9] = '7'
		}
		l := r.Range(-12, 12)
		neg := r.Chance(1, 3)
		sign := ""
		if neg {
			sign = "-"
		}
		x, err := strconv.ParseFloat(sign+"0."+string(d)+"e"+strconv.Itoa(l), 64)
		if err != nil {
			continue
		}
		head, _ := strconv.Atoi(string(d[:9]))
		if d[9] >= '5' {
			head++
		}
		ll := l
		if head == 1000000000 {
			head = 100000000
			ll++
		}
		hs := strings.TrimRight(strconv.Itoa(head), "0")
		want := fmt.Sprintf("r%s%se%d", sign, hs, ll-len(hs))
		enc := cff.VerifEncodeFloat(x)
		c.Stat("real_digits", fmt.Sprint(nd))
		c.Case(Direct, "cff.dict.specdec", fmt.Sprintf("data=1e%s11 custom= want=ok:17:%s", hx(enc), want), true)
	}
	// zero and hand-made nibble strings (syntax classes of ParseFloat)
	for _, h := range []string{"0f", "ff", "a0f", "0aff", "1a2a3f", "e1f", "ee1f", "1bf", "1b2f", "1c2f", "1cc2f", "1be2f", "b1f",
		"1dff", "af", "eaf", "a5ff", "5aff", "1b999f", "1c999f", "1b300f", "1b301f", "9b307f", "2b308f", "1b309f", "1c300f", "1c301f", "9c301f",
		"0b999f", "00000001c5f", "12", "", "1e", "1b400f", "1c400f", "e0f", "e0a0f", "123456789012345f", "1b0005f"} {
		if len(h)%2 == 1 {
			h += "f"
		}
		rr := c.Case(Verdict, "cff.real.dec", "data="+h, true)
		c.Stat("real_dec_handmade", c13OutcomeClass(rr))
	}
	c.Case(Verdict, "cff.real.enc", "x=r000000000e0", true)
}

func c13GenCharset(c *Ctx, n int) {
	r := c.Rng
	for i := 0; i < n; i++ {
		// build the list from runs
		var names []int
		names = append(names, 0)
		var runLens []int
		switch {
		case i == 0:
			// only .notdef
		case i == 1:
			runLens = []int{1}
		case i == 2:
			runLens = []int{256}
		case i == 3:
			runLens = []int{257}
		case i == 4:
			runLens = []int{600}
		case i == 5:
			runLens = []int{1, 1, 1, 1}
		case i == 6:
			runLens = []int{2, 2, 2}
		case i == 7:
			runLens = []int{255, 1, 256, 3}
		case i == 8:
			runLens = []int{512, 513}
		case i == 9:
			runLens = []int{3, 3, 3}
		case i%50 == 49:
			runLens = []int{r.Range(1000, 3000), r.Range(1, 700)}
		default:
			k := r.Range(1, 8)
			for j := 0; j < k; j++ {
				switch r.Intn(5) {
				case 0:
					runLens = append(runLens, 1)
				case 1:
					runLens = append(runLens, r.Range(2, 4))
				case 2:
					runLens = append(runLens, Pick(r, []int{255, 256, 257, 300, 511, 512, 513, 600}))
				default:
					runLens = append(runLens, r.Range(1, 40))
				}
			}
		}
		for _, l := range runLens {
			start := r.Range(1, 65535-l)
			if r.Chance(1, 20) {
				start = 65536 - l // run ending at 0xFFFF
			}
			for j := 0; j < l; j++ {
				names = append(names, start+j)
			}
		}
		inDomain := true
		if i%40 == 39 { // outside the stated domain: verdict only
			inDomain = false
			switch r.Intn(4) {
			case 0:
				names[0] = r.Range(1, 5)
			case 1:
				names = nil
			case 2:
				names = append(names, 65536+r.Intn(1000), 70000)
			case 3:
				names = append(names, -r.Range(1, 300))
			}
		}
		for _, l := range runLens {
			for _, t := range []int{1, 256, 257, 600} {
				if l == t {
					c.Stat("charset_run_len", fmt.Sprint(t))
				}
			}
		}
		c.Stat("charset_glyphs", bucket(len(names)))
		c.Stat("charset_domain", map[bool]string{true: "inside", false: "outside"}[inDomain])
		out := c.Case(Verdict, "cff.charset.enc", "names="+ints(names), len(names) > 1)
		if !strings.HasPrefix(out, "ok:") {
			c.Stat("charset_format", c13OutcomeClass(out))
			continue
		}
		enc := c13HexMust(out[3:])
		c.Stat("charset_format", fmt.Sprint(enc[0]))
		if !inDomain {
			continue
		}
		rest := r.Bytes(r.Intn(4))
		file := append(append([]byte(nil), enc...), rest...)
		got := c.Case(Verdict, "cff.charset.read", fmt.Sprintf("data=%s n=%d", hx(file), len(names)), len(names) > 1)
		if got == fmt.Sprintf("ok:%s;pos=%d", ints(names), len(enc)) {
			c.Stat("charset_read_back", "same")
		} else {
			c.Stat("charset_read_back", "DIFFERENT")
		}
		c.Case(Direct, "cff.charset.spec", fmt.Sprintf("data=%s n=%d want=%s", hx(file), len(names), ints(names)), len(names) > 1)
		if len(names) > 400 {
			continue
		}
		for k := 0; k < 3; k++ {
			m := c13Mutate(r, file)
			ng := len(names)
			if r.Chance(1, 4) {
				ng += r.Range(-2, 2)
				if ng < 0 {
					ng = 0
				}
			}
			res := c.Case(Verdict, "cff.charset.read", fmt.Sprintf("data=%s n=%d", hx(m), ng), true)
			c.Stat("charset_read_mutated", c13OutcomeClass(res))
		}
	}
	for _, ng := range []int{0, 65536, 70000} {
		res := c.Case(Verdict, "cff.charset.read", fmt.Sprintf("data=00 n=%d", ng), true)
		c.Stat("charset_read_mutated", c13OutcomeClass(res))
	}
}

func c13GenFDSelect(c *Ctx, n int) {
	r := c.Rng
	for i := 0; i < n; i++ {
		ng := r.Range(1, 60)
		switch {
		case i%25 == 24:
			ng = r.Range(200, 2000)
		case i%7 == 0:
			ng = r.Range(1, 12)
		}
		np := Pick(r, []int{1, 2, 2, 3, 5, 16, 256})
		fds := make([]int, ng)
		var pattern string
		switch r.Intn(5) {
		case 0:
			pattern = "1 range"
			v := r.Intn(np)
			for j := range fds {
				fds[j] = v
			}
		case 1:
			pattern = "few ranges"
			v := r.Intn(np)
			for j := range fds {
				if r.Chance(1, 1+ng/4) {
					v = r.Intn(np)
				}
				fds[j] = v
			}
		case 2:
			pattern = "alternating"
			for j := range fds {
				fds[j] = j % np
			}
		case 3:
			pattern = "random"
			for j := range fds {
				fds[j] = r.Intn(np)
			}
		case 4:
			// number of segments S around the threshold 3S+4 < n
			pattern = "threshold"
			s := (ng - 4) / 3
			s += r.Range(-1, 1)
			if s < 1 {
				s = 1
			}
			if s > ng {
				s = ng
			}
			// s segments: boundaries at the first s-1 positions after 0
			for j := range fds {
				k := j
				if k > s-1 {
					k = s - 1
				}
				fds[j] = k % 2
				if np == 1 {
					fds[j] = 0
				}
			}
		}
		segs := 0
		for j := range fds {
			if j == 0 || fds[j] != fds[j-1] {
				segs++
			}
		}
		c.Stat("fdselect_pattern", pattern)
		c.Stat("fdselect_glyphs", bucket(ng))
		c.Stat("fdselect_ranges", bucket(segs))
		switch d := 3*segs + 4 - ng; {
		case d == 0:
			c.Stat("fdselect_threshold", "3S+4=n (format 0 by one)")
		case d == -1:
			c.Stat("fdselect_threshold", "3S+4=n-1 (format 3 by one)")
		case d < 0:
			c.Stat("fdselect_threshold", "format 3")
		default:
			c.Stat("fdselect_threshold", "format 0")
		}
		out := c.Case(Verdict, "cff.fdselect.enc", "fds="+ints(fds), true)
		if strings.HasPrefix(out, "panic") {
			continue
		}
		enc := c13HexMust(out)
		c.Stat("fdselect_format", fmt.Sprint(enc[0]))
		rest := r.Bytes(r.Intn(4))
		file := append(append([]byte(nil), enc...), rest...)
		maxfd := 0
		for _, v := range fds {
			if v > maxfd {
				maxfd = v
			}
		}
		npr := maxfd + 1 + r.Intn(2)
		got := c.Case(Verdict, "cff.fdselect.read", fmt.Sprintf("data=%s n=%d np=%d", hx(file), ng, npr), true)
		if got == "ok:"+ints(fds) {
			c.Stat("fdselect_read_back", "same")
		} else {
			c.Stat("fdselect_read_back", "DIFFERENT")
		}
		c.Case(Direct, "cff.fdselect.spec", fmt.Sprintf("data=%s n=%d want=%s", hx(file), ng, ints(fds)), true)
		if ng > 300 {
			continue
		}
		for k := 0; k < 3; k++ {
			m := c13Mutate(r, file)
			g2 := ng
			if r.Chance(1, 4) {
				g2 += r.Range(-2, 2)
				if g2 < 0 {
					g2 = 0
				}
			}
			p2 := npr
			if r.Chance(1, 4) {
				p2 = r.Range(0, npr)
			}
			res := c.Case(Verdict, "cff.fdselect.read", fmt.Sprintf("data=%s n=%d np=%d", hx(m), g2, p2), true)
			c.Stat("fdselect_read_mutated", c13OutcomeClass(res))
		}
	}
	// values outside 0..255 are truncated by byte(): outside the domain, verdict only
	c.Case(Verdict, "cff.fdselect.enc", "fds=0,256,256,1,257,-1,-1,-1,-1,-1,-1,-1,-1,-1,-1,-1,-1", true)
	c.Case(Verdict, "cff.fdselect.enc", "fds=", true)
}

// ---------------------------------------------------------------------------------------
// whole fonts: (*cff.Font).Write / cff.Read

// c13Font is the harness's description of a font: exactly the facts property C13 says must
// survive.  Its text form is canonical, so that "summary of the font read back" == "text of
// the description" is the property.
type c13Font struct {
	name     string
	strs     [6]string // Version, Notice, Copyright, FullName, FamilyName, Weight
	fixed    bool
	ulPos    float64
	ulThick  float64
	names    []string // simple fonts
	cids     []int    // CID-keyed fonts
	ros      [2]string
	sup      int
	isCID    bool
	fds      []int
	privs    []c13Priv
	widths   []float64
	encoding []int // simple fonts: 256 glyph ids, or nil (standard encoding)
	full     bool  // the description carries angle, font matrices and the real-valued private entries
	angle    float64
	fm       [6]float64
	fms      [][6]float64
}

type c13Priv struct {
	bv, ob         []int
	bs, bf         int
	forceBold      bool
	bscale, hw, vw float64
}

func c13M6(m [6]float64) string {
	parts := make([]string, 6)
	for i, x := range m {
		parts[i] = c13Short(x)
	}
	return strings.Join(parts, ",")
}

func c13ParseM6(s string) (m [6]float64) {
	for i, p := range strings.Split(s, ",") {
		m[i] = c13ParseDec(p)
	}
	return m
}

// c13Dec prints a float64 as the exact decimal [-]<mantissa>e<exp> (no trailing zeros).
func c13Dec(x float64) string {
	if x == 0 {
		return "0e0"
	}
	r := new(big.Rat).SetFloat64(x)
	num := new(big.Int).Set(r.Num())
	den := r.Denom()
	k := den.BitLen() - 1 // den = 2^k
	five := new(big.Int).Exp(big.NewInt(5), big.NewInt(int64(k)), nil)
	num.Mul(num, five)
	e := -k
	sign := ""
	if num.Sign() < 0 {
		sign = "-"
		num.Neg(num)
	}
	s := num.String()
	for len(s) > 1 && s[len(s)-1] == '0' {
		s = s[:len(s)-1]
		e++
	}
	return fmt.Sprintf("%s%se%d", sign, s, e)
}

func c13ParseDec(s string) float64 {
	i := strings.IndexByte(s, 'e')
	x, err := strconv.ParseFloat(s[:i]+"e"+s[i+1:], 64)
	if err != nil {
		panic("bad decimal")
	}
	return x
}

func c13HexList(l []string) string {
	if len(l) == 0 {
		return "-"
	}
	parts := make([]string, len(l))
	for i, s := range l {
		parts[i] = c13ShowBlob([]byte(s))
	}
	return strings.Join(parts, ",")
}

func c13IntList(l []int) string {
	if len(l) == 0 {
		return "-"
	}
	return ints(l)
}

func c13ParseIntList(s string) []int {
	if s == "-" || s == "" {
		return nil
	}
	var out []int
	for _, p := range strings.Split(s, ",") {
		n, err := strconv.Atoi(p)
		if err != nil {
			panic("bad int list")
		}
		out = append(out, n)
	}
	return out
}

func c13ParseHexList(s string) []string {
	if s == "-" || s == "" {
		return nil
	}
	var out []string
	for _, p := range strings.Split(s, ",") {
		out = append(out, string(c13ParseBlob(p)))
	}
	return out
}

func c13Bool(b bool) string {
	if b {
		return "1"
	}
	return "0"
}

func (f *c13Font) String() string {
	var b strings.Builder
	fmt.Fprintf(&b, "name:%s;strs:%s;fixed:%s;ul:%s,%s;n:%d", c13ShowBlob([]byte(f.name)), c13HexList(f.strs[:]), c13Bool(f.fixed),
		c13Dec(f.ulPos), c13Dec(f.ulThick), len(f.widths))
	if f.isCID {
		fmt.Fprintf(&b, ";cs:%s;names:-;ros:%s,%s,%d", c13IntList(f.cids), c13ShowBlob([]byte(f.ros[0])), c13ShowBlob([]byte(f.ros[1])), f.sup)
	} else {
		fmt.Fprintf(&b, ";cs:-;names:%s;ros:-", c13HexList(f.names))
	}
	fmt.Fprintf(&b, ";fds:%s;privs:", c13IntList(f.fds))
	for i, p := range f.privs {
		if i > 0 {
			b.WriteByte('/')
		}
		fmt.Fprintf(&b, "%s.%s.%d.%d.%s", c13IntList(p.bv), c13IntList(p.ob), p.bs, p.bf, c13Bool(p.forceBold))
		if f.full {
			fmt.Fprintf(&b, ".%s.%s.%s", c13Short(p.bscale), c13Short(p.hw), c13Short(p.vw))
		}
	}
	ws := make([]string, len(f.widths))
	for i, w := range f.widths {
		ws[i] = c13Dec(w)
	}
	fmt.Fprintf(&b, ";w:%s", strings.Join(ws, ","))
	if f.encoding != nil {
		fmt.Fprintf(&b, ";enc:%s", ints(f.encoding))
	}
	if f.full {
		fmt.Fprintf(&b, ";angle:%s;fm:%s", c13Real9(f.angle), c13M6(f.fm))
		if f.isCID {
			ms := make([]string, len(f.fms))
			for i, m := range f.fms {
				ms[i] = c13M6(m)
			}
			fmt.Fprintf(&b, ";fms:%s", strings.Join(ms, "/"))
		}
	}
	return b.String()
}

func c13ParseFont(s string) *c13Font {
	f := &c13Font{}
	kv := map[string]string{}
	for _, p := range strings.Split(s, ";") {
		i := strings.IndexByte(p, ':')
		kv[p[:i]] = p[i+1:]
	}
	f.name = string(c13ParseBlob(kv["name"]))
	for i, x := range strings.Split(kv["strs"], ",") {
		f.strs[i] = string(c13ParseBlob(x))
	}
	f.fixed = kv["fixed"] == "1"
	ul := strings.Split(kv["ul"], ",")
	f.ulPos, f.ulThick = c13ParseDec(ul[0]), c13ParseDec(ul[1])
	if kv["ros"] != "-" {
		f.isCID = true
		r := strings.Split(kv["ros"], ",")
		f.ros[0], f.ros[1] = string(c13ParseBlob(r[0])), string(c13ParseBlob(r[1]))
		f.sup, _ = strconv.Atoi(r[2])
		f.cids = c13ParseIntList(kv["cs"])
	} else {
		f.names = c13ParseHexList(kv["names"])
	}
	f.fds = c13ParseIntList(kv["fds"])
	for _, ps := range strings.Split(kv["privs"], "/") {
		q := strings.Split(ps, ".")
		var p c13Priv
		p.bv, p.ob = c13ParseIntList(q[0]), c13ParseIntList(q[1])
		p.bs, _ = strconv.Atoi(q[2])
		p.bf, _ = strconv.Atoi(q[3])
		p.forceBold = q[4] == "1"
		p.bscale = 0.039625
		if len(q) == 8 {
			p.bscale, p.hw, p.vw = c13ParseDec(q[5]), c13ParseDec(q[6]), c13ParseDec(q[7])
		}
		f.privs = append(f.privs, p)
	}
	for _, w := range strings.Split(kv["w"], ",") {
		f.widths = append(f.widths, c13ParseDec(w))
	}
	if e, ok := kv["enc"]; ok {
		f.encoding = c13ParseIntList(e)
	}
	if a, ok := kv["angle"]; ok {
		f.full = true
		f.angle = c13ParseDec(a)
		f.fm = c13ParseM6(kv["fm"])
		if ms, ok := kv["fms"]; ok {
			for _, m := range strings.Split(ms, "/") {
				f.fms = append(f.fms, c13ParseM6(m))
			}
		}
	}
	return f
}

func c13I16(l []int) []funit.Int16 {
	if len(l) == 0 {
		return nil
	}
	out := make([]funit.Int16, len(l))
	for i, x := range l {
		out[i] = funit.Int16(x)
	}
	return out
}

// build makes the cff.Font (glyphs without outlines).
func (f *c13Font) build() *cff.Font {
	info := &type1.FontInfo{
		FontName: f.name, Version: f.strs[0], Notice: f.strs[1], Copyright: f.strs[2], FullName: f.strs[3],
		FamilyName: f.strs[4], Weight: f.strs[5], IsFixedPitch: f.fixed,
		UnderlinePosition: funit.Float64(f.ulPos), UnderlineThickness: funit.Float64(f.ulThick),
		ItalicAngle: f.angle,
	}
	o := &cff.Outlines{}
	for i, w := range f.widths {
		g := &cff.Glyph{Width: w}
		if !f.isCID {
			g.Name = f.names[i]
		}
		o.Glyphs = append(o.Glyphs, g)
	}
	for _, p := range f.privs {
		o.Private = append(o.Private, &type1.PrivateDict{BlueValues: c13I16(p.bv), OtherBlues: c13I16(p.ob),
			BlueScale: p.bscale, BlueShift: int32(p.bs), BlueFuzz: int32(p.bf), ForceBold: p.forceBold,
			StdHW: p.hw, StdVW: p.vw})
	}
	fds := f.fds
	o.FDSelect = func(gid glyph.ID) int { return fds[gid] }
	if f.isCID {
		info.FontMatrix = matrix.Identity
		o.ROS = &cid.SystemInfo{Registry: f.ros[0], Ordering: f.ros[1], Supplement: int32(f.sup)}
		for _, c := range f.cids {
			o.GIDToCID = append(o.GIDToCID, cid.CID(c))
		}
		for i := range f.privs {
			m := matrix.Matrix{0.001, 0, 0, 0.001, 0, 0}
			if f.full && i < len(f.fms) {
				m = matrix.Matrix(f.fms[i])
			}
			o.FontMatrices = append(o.FontMatrices, m)
		}
	} else {
		info.FontMatrix = matrix.Matrix{0.001, 0, 0, 0.001, 0, 0}
		if f.encoding != nil {
			for _, g := range f.encoding {
				o.Encoding = append(o.Encoding, glyph.ID(g))
			}
		}
	}
	if f.full {
		info.FontMatrix = matrix.Matrix(f.fm)
	}
	return &cff.Font{FontInfo: info, Outlines: o}
}

// c13Summary describes a font delivered by cff.Read in the same canonical text.
func c13Summary(g *cff.Font, withEnc bool, full bool) string {
	f := &c13Font{full: full, angle: g.ItalicAngle, fm: [6]float64(g.FontInfo.FontMatrix),name: g.FontName, fixed: g.IsFixedPitch, ulPos: float64(g.UnderlinePosition), ulThick: float64(g.UnderlineThickness)}
	f.strs = [6]string{g.Version, g.Notice, g.Copyright, g.FullName, g.FamilyName, g.Weight}
	for gid, gl := range g.Glyphs {
		f.widths = append(f.widths, gl.Width)
		f.fds = append(f.fds, g.FDSelect(glyph.ID(gid)))
		if g.ROS == nil {
			f.names = append(f.names, gl.Name)
		}
	}
	if g.ROS != nil {
		f.isCID = true
		f.ros = [2]string{g.ROS.Registry, g.ROS.Ordering}
		f.sup = int(g.ROS.Supplement)
		for _, c := range g.GIDToCID {
			f.cids = append(f.cids, int(c))
		}
	}
	for _, p := range g.Private {
		q := c13Priv{bs: int(p.BlueShift), bf: int(p.BlueFuzz), forceBold: p.ForceBold, bscale: p.BlueScale, hw: p.StdHW, vw: p.StdVW}
		for _, x := range p.BlueValues {
			q.bv = append(q.bv, int(x))
		}
		for _, x := range p.OtherBlues {
			q.ob = append(q.ob, int(x))
		}
		f.privs = append(f.privs, q)
	}
	for _, m := range g.FontMatrices {
		f.fms = append(f.fms, [6]float64(m))
	}
	if withEnc && g.ROS == nil {
		for _, x := range g.Encoding {
			f.encoding = append(f.encoding, int(x))
		}
	}
	return f.String()
}

func init() {
	// the real writer followed by the real reader; expected: the description itself
	ops["cff.file.rt"] = func(f Fields) string {
		return c13Guard(func() string {
			d := c13ParseFont(f["font"])
			var buf bytes.Buffer
			if err := d.build().Write(&buf); err != nil {
				return "write-" + c13Err(err)
			}
			g, err := cff.Read(bytes.NewReader(buf.Bytes()))
			if err != nil {
				return "read-" + c13Err(err)
			}
			return c13Summary(g, d.encoding != nil, d.full)
		})
	}
	// the real writer's bytes (the generator put them into the case line) read by the Lean spec reader
	ops["cff.file.spec"] = c13Want
	// the real writer against the Lean model of Write (charstrings and chosen widths are inputs of the
	// model; the real code recomputes them)
	ops["cff.file.model"] = func(f Fields) string {
		return c13Guard(func() string {
			var buf bytes.Buffer
			if err := c13ParseFont(f["font"]).build().Write(&buf); err != nil {
				return c13Err(err)
			}
			return "ok:" + hx(buf.Bytes())
		})
	}
	// the real writer: bytes, for the generator
	ops["cff.file.write"] = func(f Fields) string {
		return c13Guard(func() string {
			var buf bytes.Buffer
			if err := c13ParseFont(f["font"]).build().Write(&buf); err != nil {
				return c13Err(err)
			}
			return "ok:" + hx(buf.Bytes())
		})
	}
}

var c13StdNames = []string{"space", "exclam", "A", "B", "C", "a", "b", "c", "zero", "one", "Aacute", "fi", "fl", "Semibold", "001.000", "Roman"}

func c13RandString(r *Rng, lo, hi int) string {
	n := r.Range(lo, hi)
	b := make([]byte, n)
	for i := range b {
		b[i] = byte(r.Range(0x21, 0x7e))
	}
	return string(b)
}

func c13RandWidth(r *Rng) float64 {
	if r.Chance(1, 25) { // the ends of the range: the nominal width must stay within reach of both
		return Pick(r, []float64{-32767, 32767, 32766.5, -32766.25, 32000, -31000})
	}
	switch r.Intn(7) {
	case 0:
		return float64(r.Range(0, 1000))
	case 1:
		return float64(r.Range(0, 2000)) / 2
	case 2:
		return float64(r.Range(0, 4000)) / 4
	case 3:
		return float64(r.Range(-65536*100, 65536*3000)) / 65536
	case 4:
		return float64(Pick(r, []int{500, 600, 1000, 250}))
	case 5:
		return Pick(r, []float64{500.5, 300.25, 0.5, 1000.75})
	}
	return float64(r.Range(200, 800))
}

func c13RandBlues(r *Rng, maxPairs int) []int {
	k := r.Range(0, maxPairs)
	var out []int
	v := r.Range(-300, 0)
	for i := 0; i < 2*k; i++ {
		out = append(out, v)
		v += r.Range(0, 400)
	}
	return out
}

func c13GenFonts(c *Ctx, n int) {
	r := c.Rng
	for i := 0; i < n; i++ {
		f := &c13Font{name: c13RandString(r, 1, 20), ulPos: -100, ulThick: 50}
		encKind := ""
		for j := range f.strs {
			switch r.Intn(4) {
			case 0:
				f.strs[j] = c13RandString(r, 1, 30)
			case 1:
				f.strs[j] = Pick(r, c13StdNames)
			}
		}
		f.fixed = r.Chance(1, 4)
		if r.Chance(1, 3) {
			f.ulPos = float64(r.Range(-400, 100))
			f.ulThick = float64(r.Range(1, 200))
		}
		if r.Chance(1, 6) {
			f.ulPos = float64(r.Range(-800, 200)) / 2
			f.ulThick = float64(r.Range(1, 400)) / 4
			c.Stat("file_underline", "fractional")
		} else {
			c.Stat("file_underline", "integral")
		}
		ng := r.Range(1, 12)
		switch {
		case i%20 == 19:
			ng = r.Range(300, 700)
		case i%5 == 4:
			ng = r.Range(13, 80)
		case i%11 == 0:
			ng = 1
		}
		// widths: a few distinct values so that a most frequent one exists
		palette := make([]float64, r.Range(1, 4))
		for j := range palette {
			palette[j] = c13RandWidth(r)
		}
		fracW := false
		for g := 0; g < ng; g++ {
			w := Pick(r, palette)
			if r.Chance(1, 4) {
				w = c13RandWidth(r)
			}
			if w != math.Trunc(w) {
				fracW = true
			}
			f.widths = append(f.widths, w)
		}
		c.Stat("file_widths", map[bool]string{true: "some fractional", false: "all integral"}[fracW])
		f.isCID = r.Chance(1, 2)
		np := 1
		if f.isCID {
			np = Pick(r, []int{1, 2, 2, 3, 5, 16})
			if i%40 == 7 {
				np = 256
			}
			f.ros = [2]string{Pick(r, []string{"Adobe", "Test", c13RandString(r, 1, 8)}), Pick(r, []string{"Identity", "Japan1", c13RandString(r, 1, 8)})}
			f.sup = r.Range(0, 7)
			// strictly valid GID->CID map: 0 first, then distinct CIDs (ascending runs or shuffled)
			f.cids = []int{0}
			used := map[int]bool{0: true}
			next := r.Range(1, 100)
			for len(f.cids) < ng {
				if r.Chance(1, 5) {
					next = r.Range(1, 65535)
				}
				for used[next] || next > 65535 {
					next = r.Range(1, 65535)
				}
				used[next] = true
				f.cids = append(f.cids, next)
				next++
			}
			v := r.Intn(np)
			for g := 0; g < ng; g++ {
				if r.Chance(1, 1+ng/6) {
					v = r.Intn(np)
				}
				f.fds = append(f.fds, v)
			}
			if r.Chance(1, 5) {
				for g := range f.fds {
					f.fds[g] = g % np
				}
			}
			c.Stat("file_kind", "CID-keyed")
		} else {
			f.names = []string{".notdef"}
			used := map[string]bool{".notdef": true}
			for len(f.names) < ng {
				var nm string
				if r.Chance(1, 2) {
					nm = Pick(r, c13StdNames)
				} else {
					nm = c13RandString(r, 1, 12)
				}
				if used[nm] {
					nm = fmt.Sprintf("g%d.%s", len(f.names), c13RandString(r, 0, 3))
				}
				if used[nm] {
					continue
				}
				used[nm] = true
				f.names = append(f.names, nm)
			}
			f.fds = make([]int, ng)
			c.Stat("file_kind", "simple")
			if r.Chance(1, 2) && ng >= 2 && ng <= 300 {
				// a custom encoding (never equal to the standard/expert one: glyph 1 has a private name)
				f.names[1] = fmt.Sprintf("c13.%d", i)
				ex := 0
				if r.Bool() {
					ex = r.Range(1, 5)
				}
				f.encoding = c13RandEncoding(r, ng, r.Intn(3), ex)
				has := false
				for _, g := range f.encoding {
					if g != 0 {
						has = true
					}
				}
				if !has {
					f.encoding[r.Range(0, 255)] = 1
				}
				c.Stat("file_encoding", "custom")
			} else if r.Chance(1, 3) && ng >= 2 {
				// the predefined Standard or Expert encoding, given explicitly
				expert := r.Bool()
				pool := c13StdNames
				if expert {
					pool = cff.VerifExpertNames()
				}
				used := map[string]bool{".notdef": true}
				for g := 1; g < ng; g++ {
					if r.Chance(2, 3) {
						nm := Pick(r, pool)
						if !used[nm] {
							f.names[g] = nm
						}
					}
					if used[f.names[g]] {
						f.names[g] = fmt.Sprintf("u%d.%d", i, g)
					}
					used[f.names[g]] = true
				}
				gl := make([]*cff.Glyph, ng)
				for g := range gl {
					gl[g] = &cff.Glyph{Name: f.names[g]}
				}
				var ev []glyph.ID
				if expert {
					ev = cff.VerifExpertEncoding(gl)
					encKind = "exp"
					// Write tests for the standard encoding first: a vector that is both is "standard"
					same := true
					for cidx, g := range cff.StandardEncoding(gl) {
						if ev[cidx] != g {
							same = false
						}
					}
					if same {
						encKind = "std"
					}
				} else {
					ev = cff.StandardEncoding(gl)
					encKind = "std"
				}
				f.encoding = make([]int, 256)
				for cidx, g := range ev {
					f.encoding[cidx] = int(g)
				}
				c.Stat("file_encoding", map[bool]string{true: "expert (explicit)", false: "standard (explicit)"}[expert])
			} else {
				c.Stat("file_encoding", "standard (none given)")
			}
		}
		c.Stat("file_private_dicts", bucket(np))
		c.Stat("file_glyphs", bucket(ng))
		f.full = true
		if f.isCID {
			f.fm = [6]float64{1, 0, 0, 1, 0, 0}
		} else {
			f.fm = [6]float64{0.001, 0, 0, 0.001, 0, 0}
		}
		if r.Chance(1, 4) {
			f.angle = float64(r.Range(-17999, 17999)) / 100
			c.Stat("file_italic_angle", "non-zero")
		} else {
			c.Stat("file_italic_angle", "zero")
		}
		randM := func() [6]float64 {
			return Pick(r, [][6]float64{{0.0005, 0, 0, 0.0005, 0, 0}, {0.001, 0, 0.000176, 0.001, 0, 0}, {1, 0, 0, 1, 0, 0},
				{0.001, 0, 0, 0.001, 0, 0}, {0.000488281, 0, 0, 0.000488281, 10.5, -3}, {2, 0.5, -0.25, 2, 0, 0}})
		}
		if r.Chance(1, 4) {
			f.fm = randM()
			c.Stat("file_font_matrix", "given")
		} else {
			c.Stat("file_font_matrix", "default")
		}
		for p := 0; p < np; p++ {
			q := c13Priv{bs: 7, bf: 1, bscale: 0.039625}
			if f.isCID {
				m := [6]float64{0.001, 0, 0, 0.001, 0, 0}
				if r.Chance(1, 4) {
					m = randM()
				}
				f.fms = append(f.fms, m)
			}
			if r.Chance(1, 4) {
				q.bscale = Pick(r, []float64{0.05, 0.03, 0.0375, 0.039625, 0.25, 1, 0})
			}
			if r.Chance(1, 3) {
				q.hw = float64(r.Range(0, 400)) / 2
				q.vw = float64(r.Range(0, 40000)) / 4
			}
			if np <= 16 || p < 3 {
				q.bv = c13RandBlues(r, 7)
				q.ob = c13RandBlues(r, 5)
				if r.Chance(1, 3) {
					q.bs, q.bf = r.Range(0, 20), r.Range(0, 5)
				}
				q.forceBold = r.Chance(1, 5)
			}
			f.privs = append(f.privs, q)
		}
		desc := f.String()
		got := c.Case(Direct, "cff.file.rt", "font="+desc, ng > 1)
		if got == desc {
			c.Stat("file_roundtrip", "same")
		} else {
			c.Stat("file_roundtrip", "DIFFERENT")
		}
		if len(desc) > 6000 && i%3 != 0 {
			continue
		}
		out := Exec("cff.file.write font=" + desc)
		if strings.HasPrefix(out, "ok:") {
			want := desc
			c.Case(Direct, "cff.file.spec", "file="+out[3:]+" want="+want, ng > 1)
			c.Stat("file_bytes", bucket(len(out[3:])/2))
			if len(out) < 6000 {
				c13ReadCases(c, c13HexMust(out[3:]), 6)
			}
			if !f.isCID && ng <= 87 {
				c13PredefinedCharsetCases(c, c13HexMust(out[3:]))
			}
		} else {
			c.Stat("file_write", out)
		}
		// whole-file correspondence with the model of Write
		if cs, dw, nw, err := cff.VerifEncodeCharStrings(f.build()); err == nil {
			line := fmt.Sprintf("font=%s cs=%s dw=%d nw=%d", desc, c13ShowBlobs(cs), int32(dw), int32(nw))
			// (the model decides itself whether the vector is the Standard or the Expert encoding)
			_ = encKind
			res := c.Case(Verdict, "cff.file.model", line, ng > 1)
			c.Stat("file_model", c13OutcomeClass(res))
		} else {
			c.Stat("file_model", "encodeCharStrings failed")
		}
	}
}

// ---------------------------------------------------------------------------------------
// selectWidths / makePrivateDict (defect #19, repaired)

func init() {
	ops["cff.widths.select"] = func(f Fields) string {
		return c13Guard(func() string {
			font := &cff.Font{FontInfo: &type1.FontInfo{}, Outlines: &cff.Outlines{Private: []*type1.PrivateDict{{}}}}
			for _, k := range f.Ints("ws") {
				font.Glyphs = append(font.Glyphs, &cff.Glyph{Width: float64(k) / 65536})
			}
			dw, nw, dOp, nOp := cff.VerifPrivateWidths(font)
			show := func(x float64) string {
				if math.IsInf(x, 0) {
					return "inf"
				}
				return c13Dec(x)
			}
			stored := func(op []interface{}) string {
				if len(op) == 0 {
					return "-"
				}
				return fmt.Sprint(op[0])
			}
			ns := stored(nOp)
			if math.IsInf(nw, 0) {
				ns = "?" // int32(+Inf) is implementation-defined; no charstring refers to it
			}
			return fmt.Sprintf("%s,%s;dict=%s,%s", show(dw), show(nw), stored(dOp), ns)
		})
	}
}

func c13GenWidths(c *Ctx, n int) {
	r := c.Rng
	for i := 0; i < n; i++ {
		ng := r.Range(0, 12)
		if i%10 == 9 {
			ng = r.Range(13, 200)
		}
		palette := make([]int, r.Range(1, 4))
		for j := range palette {
			palette[j] = int(c13RandWidth(r) * 65536)
		}
		ws := make([]int, ng)
		frac, allSame := false, true
		for j := range ws {
			ws[j] = Pick(r, palette)
			switch r.Intn(12) {
			case 0:
				ws[j] = int(c13RandWidth(r) * 65536)
			case 1:
				ws[j] = r.Range(-40000, 40000) * 65536 // beyond ±32767: never the default width
			case 2:
				ws[j] = r.Range(-1000, 1000)*65536 + 32768 // halves: rounding ties
			case 3:
				ws[j] = Pick(r, []int{-32767, 32767, -32766, 32766, 20000, -20000}) * 65536 // range of a charstring number
			}
			if ws[j]%65536 != 0 {
				frac = true
			}
			if ws[j] != ws[0] {
				allSame = false
			}
		}
		c.Stat("widths_glyphs", bucket(ng))
		c.Stat("widths_kind", map[bool]string{true: "some fractional", false: "all integral"}[frac])
		if allSame && ng > 1 {
			c.Stat("widths_all_equal", "yes")
		}
		res := c.Case(Verdict, "cff.widths.select", "ws="+ints(ws), ng > 1)
		// the property behind #19: what the private DICT stores is exactly what was chosen
		parts := strings.SplitN(res, ";dict=", 2)
		if len(parts) == 2 {
			ch := strings.Split(parts[0], ",")
			st := strings.Split(parts[1], ",")
			okd := st[0] == "-" && ch[0] == "0e0" || st[0] != "-" && c13Dec(c13AtoF(st[0])) == ch[0]
			okn := st[1] == "?" || st[1] == "-" && ch[1] == "0e0" || st[1] != "-" && c13Dec(c13AtoF(st[1])) == ch[1]
			if okd && okn {
				c.Stat("widths_stored_exactly", "yes")
			} else {
				c.Stat("widths_stored_exactly", "NO")
			}
		}
	}
}

func c13AtoF(s string) float64 {
	x, err := strconv.ParseFloat(s, 64)
	if err != nil {
		return math.NaN()
	}
	return x
}

// ---------------------------------------------------------------------------------------
// encodings

func init() {
	ops["cff.encoding.enc"] = func(f Fields) string {
		return c13Guard(func() string {
			var enc []glyph.ID
			for _, g := range f.Ints("enc") {
				enc = append(enc, glyph.ID(g))
			}
			out, err := cff.VerifEncodeEncoding(enc, c13Int32s(f.Ints("names")))
			if err != nil {
				return c13Err(err)
			}
			return "ok:" + hx(out)
		})
	}
	ops["cff.encoding.read"] = func(f Fields) string {
		return c13Guard(func() string {
			res, err := cff.VerifReadEncoding(f.Hex("data"), c13Int32s(f.Ints("charset")))
			if err != nil {
				return c13Err(err)
			}
			out := make([]int, len(res))
			for i, g := range res {
				out[i] = int(g)
			}
			return "ok:" + ints(out)
		})
	}
	ops["cff.encoding.spec"] = c13Want
	// the property on the real code alone: readEncoding(encodeEncoding(enc)) = enc (the Lean side echoes enc)
	ops["cff.encoding.rt"] = func(f Fields) string {
		return c13Guard(func() string {
			var enc []glyph.ID
			for _, g := range f.Ints("enc") {
				enc = append(enc, glyph.ID(g))
			}
			names := c13Int32s(f.Ints("names"))
			out, err := cff.VerifEncodeEncoding(enc, names)
			if err != nil {
				return "write-" + c13Err(err)
			}
			res, err := cff.VerifReadEncoding(out, names)
			if err != nil {
				return "read-" + c13Err(err)
			}
			back := make([]int, len(res))
			for i, g := range res {
				back[i] = int(g)
			}
			return "ok:" + ints(back)
		})
	}
}

// c13RandEncoding builds an encoding vector satisfying the documented rule: the encoded glyphs
// are 1..k; every glyph gets one code, some get more.  style: 0 random codes, 1 consecutive
// runs, 2 one run.
func c13RandEncoding(r *Rng, ng int, style int, extraCodes int) []int {
	enc := make([]int, 256)
	k := r.Range(0, ng-1)
	if k > 256 {
		k = 256
	}
	free := make([]int, 256)
	for i := range free {
		free[i] = i
	}
	switch style {
	case 0: // random distinct codes
		for i := len(free) - 1; i > 0; i-- {
			j := r.Intn(i + 1)
			free[i], free[j] = free[j], free[i]
		}
		for g := 1; g <= k; g++ {
			enc[free[g-1]] = g
		}
		free = free[k:]
	case 1: // a few runs of consecutive codes
		g := 1
		code := r.Range(0, 40)
		for g <= k && code < 256 {
			run := r.Range(1, 30)
			for j := 0; j < run && g <= k && code < 256; j++ {
				enc[code] = g
				g++
				code++
			}
			code += r.Range(1, 5)
		}
		// glyphs that did not fit are left unencoded only at the end: keep contiguity
		for ; g <= k; g++ {
			placed := false
			for c := 255; c >= 0; c-- {
				if enc[c] == 0 {
					enc[c] = g
					placed = true
					break
				}
			}
			if !placed {
				break
			}
		}
		free = free[:0]
		for c := 0; c < 256; c++ {
			if enc[c] == 0 {
				free = append(free, c)
			}
		}
	case 2: // one run
		start := r.Range(0, 256-k)
		for g := 1; g <= k; g++ {
			enc[start+g-1] = g
		}
		free = free[:0]
		for c := 0; c < 256; c++ {
			if enc[c] == 0 {
				free = append(free, c)
			}
		}
	}
	// multiply-encoded glyphs
	for e := 0; e < extraCodes && len(free) > 0 && k > 0; e++ {
		i := r.Intn(len(free))
		enc[free[i]] = r.Range(1, k)
		free = append(free[:i], free[i+1:]...)
	}
	return enc
}

func c13GenEncoding(c *Ctx, n int) {
	r := c.Rng
	for i := 0; i < n; i++ {
		ng := r.Range(1, 40)
		switch {
		case i%15 == 14:
			ng = r.Range(200, 300)
		case i%6 == 0:
			ng = r.Range(1, 6)
		}
		// distinct SIDs, .notdef first
		names := []int{0}
		used := map[int]bool{0: true}
		for len(names) < ng {
			s := r.Range(1, 700)
			if used[s] {
				continue
			}
			used[s] = true
			names = append(names, s)
		}
		style := r.Intn(3)
		extra := 0
		if r.Chance(1, 2) {
			extra = r.Range(1, 6)
		}
		enc := c13RandEncoding(r, ng, style, extra)
		inDomain := true
		if i%12 == 11 {
			inDomain = false
			switch r.Intn(4) {
			case 0: // a hole: drop all codes of one encoded glyph that is not the last
				mx := 0
				for _, g := range enc {
					if g > mx {
						mx = g
					}
				}
				if mx >= 2 {
					drop := r.Range(1, mx-1)
					for cidx, g := range enc {
						if g == drop {
							enc[cidx] = 0
						}
					}
				}
			case 1: // glyph id beyond the glyph names (supplement index panic, or plain)
				enc[r.Intn(256)] = ng + r.Range(0, 3)
			case 2:
				enc = enc[:r.Range(0, 255)]
			case 3: // 256 glyphs with non-consecutive codes: more than 255 segments
				names = names[:1]
				for s := 1; s <= 256; s++ {
					names = append(names, 1000+s)
				}
				for cidx := range enc {
					enc[cidx] = (cidx*7)%256 + 1
				}
			}
		}
		nCodes, nExtra, mx := 0, 0, 0
		seen := map[int]bool{}
		for _, g := range enc {
			if g == 0 {
				continue
			}
			nCodes++
			if seen[g] {
				nExtra++
			}
			seen[g] = true
			if g > mx {
				mx = g
			}
		}
		c.Stat("encoding_domain", map[bool]string{true: "inside", false: "outside"}[inDomain])
		c.Stat("encoding_supplement", map[bool]string{true: "with", false: "without"}[nExtra > 0])
		c.Stat("encoding_glyphs_encoded", bucket(mx))
		out := c.Case(Verdict, "cff.encoding.enc", fmt.Sprintf("enc=%s names=%s", ints(enc), ints(names)), mx > 0)
		if !strings.HasPrefix(out, "ok:") {
			c.Stat("encoding_format", c13OutcomeClass(out))
			continue
		}
		data := c13HexMust(out[3:])
		c.Stat("encoding_format", fmt.Sprintf("%d", data[0]&127))
		if !inDomain {
			continue
		}
		rest := r.Bytes(r.Intn(3))
		file := append(append([]byte(nil), data...), rest...)
		got := c.Case(Verdict, "cff.encoding.read", fmt.Sprintf("data=%s charset=%s", hx(file), ints(names)), mx > 0)
		if got == "ok:"+ints(enc) {
			c.Stat("encoding_read_back", "same")
		} else {
			c.Stat("encoding_read_back", "DIFFERENT")
		}
		c.Case(Direct, "cff.encoding.spec", fmt.Sprintf("data=%s charset=%s want=%s", hx(file), ints(names), ints(enc)), mx > 0)
		for k := 0; k < 3; k++ {
			m := c13Mutate(r, file)
			cs := names
			if r.Chance(1, 4) && len(cs) > 1 {
				cs = cs[:r.Range(1, len(cs))]
			}
			res := c.Case(Verdict, "cff.encoding.read", fmt.Sprintf("data=%s charset=%s", hx(m), ints(cs)), true)
			c.Stat("encoding_read_mutated", c13OutcomeClass(res))
		}
	}
}

// ---------------------------------------------------------------------------------------
// string table

func init() {
	ops["cff.strings.lookup"] = func(f Fields) string {
		return c13Guard(func() string {
			sids, custom := cff.VerifStringLookup(c13ParseHexList(f["names"]))
			out := make([]int, len(sids))
			for i, s := range sids {
				out[i] = int(s)
			}
			return ints(out) + ";" + c13HexList(custom)
		})
	}
}

func c13GenStrings(c *Ctx, n int) {
	r := c.Rng
	std := cff.VerifStdStrings()
	for i := 0; i < n; i++ {
		k := r.Range(1, 12)
		var names []string
		for j := 0; j < k; j++ {
			switch r.Intn(4) {
			case 0:
				names = append(names, Pick(r, std))
				c.Stat("strings_kind", "standard")
			case 1:
				names = append(names, c13RandString(r, 1, 10))
				c.Stat("strings_kind", "custom")
			case 2:
				if len(names) > 0 {
					names = append(names, Pick(r, names))
					c.Stat("strings_kind", "repeated")
				}
			case 3:
				names = append(names, Pick(r, []string{".notdef", "Semibold", "Semibol", "space", "Black", "001.003"}))
				c.Stat("strings_kind", "table ends")
			}
		}
		if len(names) == 0 {
			names = []string{"a"}
		}
		c.Case(Verdict, "cff.strings.lookup", "names="+c13HexList(names), true)
	}
	// the whole standard table: SID i <-> string i (duplicates in the table would show here)
	for lo := 0; lo < len(std); lo += 60 {
		hi := lo + 60
		if hi > len(std) {
			hi = len(std)
		}
		c.Case(Verdict, "cff.strings.lookup", "names="+c13HexList(std[lo:hi]), true)
	}
}

// ---------------------------------------------------------------------------------------
// cff.Read against its Lean model (stream cff.file.read)

// c13Real9 prints a float64 rounded to nine significant digits, [-]<mantissa>e<exp> without
// trailing zeros (values that went through float arithmetic in Read: the italic angle).
func c13Real9(x float64) string {
	if x == 0 {
		return "0e0"
	}
	sign := ""
	if x < 0 {
		sign = "-"
		x = -x
	}
	s := strconv.FormatFloat(x, 'e', 8, 64)
	i := strings.IndexByte(s, 'e')
	e, _ := strconv.Atoi(s[i+1:])
	digits := strings.Replace(s[:i], ".", "", 1)
	e -= len(digits) - 1
	for len(digits) > 1 && digits[len(digits)-1] == '0' {
		digits = digits[:len(digits)-1]
		e++
	}
	return fmt.Sprintf("%s%se%d", sign, digits, e)
}

// c13Short is the shortest decimal that identifies the float64 (values parsed from DICT reals).
func c13Short(x float64) string { return c13ShowReal(x)[1:] }

func c13Matrix(m matrix.Matrix) string {
	parts := make([]string, 6)
	for i, x := range m {
		parts[i] = c13Short(x)
	}
	return strings.Join(parts, ",")
}

func c13ReadSummary(g *cff.Font, withW bool) string {
	var b strings.Builder
	strs := []string{g.Version, g.Notice, g.Copyright, g.FullName, g.FamilyName, g.Weight}
	// normaliseAngle works in float64 (x+180, Mod 360): comparable with the exact model only on
	// written files, where the angle is a short decimal
	angle := "-"
	if withW {
		angle = c13Real9(g.ItalicAngle)
	}
	fmt.Fprintf(&b, "name:%s;strs:%s;fixed:%s;angle:%s;ul:%s,%s;fm:%s;n:%d", c13ShowBlob([]byte(g.FontName)),
		c13HexList(strs), c13Bool(g.IsFixedPitch), angle, c13Short(float64(g.UnderlinePosition)),
		c13Short(float64(g.UnderlineThickness)), c13Matrix(g.FontInfo.FontMatrix), len(g.Glyphs))
	if g.ROS != nil {
		cids := make([]string, len(g.GIDToCID))
		for i, c := range g.GIDToCID {
			cids[i] = fmt.Sprint(uint32(c))
		}
		fds := make([]int, len(g.Glyphs))
		for i := range fds {
			fds[i] = g.FDSelect(glyph.ID(i))
		}
		fms := make([]string, len(g.FontMatrices))
		for i, m := range g.FontMatrices {
			fms[i] = c13Matrix(m)
		}
		fmt.Fprintf(&b, ";kind:c;ros:%s,%s,%d;cids:%s;fds:%s;fms:%s", c13ShowBlob([]byte(g.ROS.Registry)),
			c13ShowBlob([]byte(g.ROS.Ordering)), g.ROS.Supplement, strings.Join(cids, ","), ints(fds), strings.Join(fms, "/"))
	} else {
		names := make([]string, len(g.Glyphs))
		for i, gl := range g.Glyphs {
			names[i] = gl.Name
		}
		enc := make([]int, len(g.Encoding))
		for i, x := range g.Encoding {
			enc[i] = int(x)
		}
		fmt.Fprintf(&b, ";kind:s;names:%s;enc:%s", c13HexList(names), ints(enc))
	}
	b.WriteString(";privs:")
	for i, p := range g.Private {
		if i > 0 {
			b.WriteByte('/')
		}
		var bv, ob []int
		for _, x := range p.BlueValues {
			bv = append(bv, int(x))
		}
		for _, x := range p.OtherBlues {
			ob = append(ob, int(x))
		}
		fmt.Fprintf(&b, "%s.%s.%s.%d.%d.%s.%s.%s", c13IntList(bv), c13IntList(ob), c13Short(p.BlueScale), p.BlueShift, p.BlueFuzz,
			c13Short(p.StdHW), c13Short(p.StdVW), c13Bool(p.ForceBold))
	}
	if withW {
		ws := make([]string, len(g.Glyphs))
		for i, gl := range g.Glyphs {
			ws[i] = c13Dec(gl.Width)
		}
		fmt.Fprintf(&b, ";w:%s", strings.Join(ws, ","))
	}
	return b.String()
}

func init() {
	ops["cff.file.read"] = func(f Fields) string {
		return c13Guard(func() string {
			g, err := cff.Read(bytes.NewReader(f.Hex("file")))
			if err != nil {
				return c13Err(err)
			}
			return "ok:" + c13ReadSummary(g, f["w"] == "1")
		})
	}
}

var c13CharstringErrors = []string{"cff: invalid store index", "curveTo before moveTo", "incomplete type 2 charstring",
	"invalid index", "invalid roll count", "invalid type 2 subroutine index", "lineTo before moveTo",
	"maximum call stack size exceeded", "too early for hintmask", "too late for stem commands", "type 2 stack overflow",
	"type 2 stack underflow", "unsupported type 2 opcode"}

// c13ReadCases emits the cff.file.read cases for one written font: the file as written (with
// widths) and damaged copies.  Damaged files whose outcome depends on the interpretation of a
// charstring (property C05, not modelled here), on reals of more than 15 digits or on the UTF-8
// sanitising of getString are not comparable and skipped.
func c13ReadCases(c *Ctx, file []byte, nmut int) {
	r := c.Rng
	res := c.Case(Verdict, "cff.file.read", "file="+hx(file)+" w=1", true)
	c.Stat("read_written", c13OutcomeClass(res))
	for k := 0; k < nmut; k++ {
		m := append([]byte(nil), file...)
		switch r.Intn(7) {
		case 0:
			m = m[:r.Intn(len(m)+1)]
		case 1, 2:
			m[r.Intn(len(m))] ^= byte(1 << r.Intn(8))
		case 3:
			m[r.Intn(len(m))] = byte(r.U64())
		case 4: // inside header, Name INDEX and Top DICT
			lim := 60
			if lim > len(m) {
				lim = len(m)
			}
			m[r.Intn(lim)] = byte(r.U64())
		case 5: // small operand values
			m[r.Intn(len(m))] = byte(r.Range(139-4, 139+4))
		case 6: // the tail: private DICTs and subrs
			lo := len(m) - 40
			if lo < 0 {
				lo = 0
			}
			m[lo+r.Intn(len(m)-lo)] = byte(r.U64())
		}
		if c13RealTooLong(m) {
			c.Stat("read_mutated", "skipped: real > 15 digits")
			continue
		}
		g, err := cff.Read(bytes.NewReader(m))
		if err != nil {
			skip := false
			for _, msg := range c13CharstringErrors {
				if strings.Contains(err.Error(), msg) {
					skip = true
				}
			}
			if skip {
				c.Stat("read_mutated", "skipped: charstring error")
				continue
			}
		} else if strings.ContainsRune(c13ReadSummaryStrings(g), '�') {
			c.Stat("read_mutated", "skipped: invalid UTF-8 in a string")
			continue
		}
		out := c.Case(Verdict, "cff.file.read", "file="+hx(m)+" w=0", true)
		c.Stat("read_mutated", c13OutcomeClass(out))
	}
}

func c13ReadSummaryStrings(g *cff.Font) string {
	return g.Version + g.Notice + g.Copyright + g.FullName + g.FamilyName + g.Weight
}


// c13PredefinedCharsetCases turns the charset offset of a written simple font into 0, 1, 2 (the
// predefined ISOAdobe, Expert, ExpertSubset charsets; the writer never uses them) by patching the
// one-byte operand in the Top DICT, and lets Read and its model read the result.
func c13PredefinedCharsetCases(c *Ctx, file []byte) {
	_, p1, err := cff.VerifReadIndex(file, 4)
	if err != nil {
		return
	}
	tops, p2, err := cff.VerifReadIndex(file, p1)
	if err != nil || len(tops) != 1 {
		return
	}
	strs, _, err := cff.VerifReadIndex(file, p2)
	if err != nil {
		return
	}
	custom := make([]string, len(strs))
	for i, b := range strs {
		custom[i] = string(b)
	}
	ops_, args, err := cff.VerifDictDecode(tops[0], custom)
	if err != nil {
		return
	}
	off := -1
	for i, op := range ops_ {
		if op == 15 && len(args[i]) == 1 {
			if v, ok := args[i][0].(int32); ok {
				off = int(v)
			}
		}
	}
	if off < 4 || off > 107 {
		c.Stat("predefined_charset", "skipped: offset not a one-byte operand")
		return
	}
	start := int(p2) - len(tops[0]) // the only object of the Top DICT INDEX ends where the INDEX ends
	idx := -1
	for i := 0; i+1 < len(tops[0]); i++ {
		if tops[0][i] == byte(off+139) && tops[0][i+1] == 15 {
			idx = start + i
		}
	}
	if idx < 0 {
		return
	}
	for k, name := range []string{"ISOAdobe", "Expert", "ExpertSubset"} {
		m := append([]byte(nil), file...)
		m[idx] = byte(139 + k)
		res := c.Case(Verdict, "cff.file.read", "file="+hx(m)+" w=1", true)
		c.Stat("predefined_charset", name+": "+c13OutcomeClass(res))
	}
}

// ---------------------------------------------------------------------------------------
// boundary families (seeded changes C13-m2, C13-m3)

// c13RunsEncoding: glyphs 1..nEnc get one code each; in glyph order they form exactly `ranges`
// runs of consecutive codes (runs are laid out in code space in reverse or shuffled order, never
// continuing the previous run), the codes used start at `base`.
func c13RunsEncoding(r *Rng, nEnc, ranges, base int, shuffled bool) []int {
	if ranges > nEnc {
		ranges = nEnc
	}
	if ranges < 1 {
		ranges = 1
	}
	// run lengths: all 1, the remainder spread at random
	lens := make([]int, ranges)
	for i := range lens {
		lens[i] = 1
	}
	for k := nEnc - ranges; k > 0; k-- {
		lens[r.Intn(ranges)]++
	}
	order := make([]int, ranges) // order[j] = run placed j-th in code space
	for i := range order {
		order[i] = ranges - 1 - i
	}
	if shuffled && ranges > 2 {
		for try := 0; try < 50; try++ {
			for i := ranges - 1; i > 0; i-- {
				j := r.Intn(i + 1)
				order[i], order[j] = order[j], order[i]
			}
			ok := true
			for j := 0; j+1 < ranges; j++ {
				if order[j+1] == order[j]+1 { // run k+1 directly after run k: they would merge
					ok = false
				}
			}
			if ok {
				break
			}
			for i := range order {
				order[i] = ranges - 1 - i
			}
		}
	}
	start := make([]int, ranges)
	code := base
	for _, run := range order {
		start[run] = code
		code += lens[run]
	}
	enc := make([]int, 256)
	g := 1
	for run := 0; run < ranges; run++ {
		for j := 0; j < lens[run]; j++ {
			enc[start[run]+j] = g
			g++
		}
	}
	return enc
}

// refused: more than 255 primary ranges for 256 encoded glyphs - neither format can hold the vector and
// encodeEncoding returns an error (documented limit of C13_encoding_roundtrip); only the verdict is compared
func c13EncodingCases(c *Ctx, enc []int, names []int, label string, refused bool) {
	r := c.Rng
	line := fmt.Sprintf("enc=%s names=%s", ints(enc), ints(names))
	out := c.Case(Verdict, "cff.encoding.enc", line, true)
	rt := ""
	if !refused {
		rt = c.Case(Direct, "cff.encoding.rt", line, true)
	}
	if strings.HasPrefix(out, "ok:") {
		data := c13HexMust(out[3:])
		c.Stat("encoding_boundary", fmt.Sprintf("%s format %d", label, data[0]&127))
		if rt == "ok:"+ints(enc) {
			c.Stat("encoding_boundary_rt", "same")
		} else {
			c.Stat("encoding_boundary_rt", "DIFFERENT")
		}
		file := append(append([]byte(nil), data...), r.Bytes(r.Intn(3))...)
		c.Case(Verdict, "cff.encoding.read", fmt.Sprintf("data=%s charset=%s", hx(file), ints(names)), true)
		c.Case(Direct, "cff.encoding.spec", fmt.Sprintf("data=%s charset=%s want=%s", hx(file), ints(names), ints(enc)), true)
		m := c13Mutate(r, file)
		c.Case(Verdict, "cff.encoding.read", fmt.Sprintf("data=%s charset=%s", hx(m), ints(names)), true)
	} else {
		c.Stat("encoding_boundary", label+" "+c13OutcomeClass(out))
	}
}

// encodings using 250..256 codes: contiguous, scrambled and partly ranged glyph orders with
// range counts around the format 0 / format 1 break-even (127/128/129) and the 255-segment limit
func c13GenEncodingBoundary(c *Ctx) {
	r := c.Rng
	rangeCounts := []int{1, 2, 3, 64, 100, 124, 125, 126, 127, 128, 129, 130, 131, 160, 200, 250, 254, 255, 256}
	for nEnc := 250; nEnc <= 256; nEnc++ {
		names := []int{0}
		for s := 1; s <= nEnc+r.Range(0, 2); s++ {
			names = append(names, 390+s)
		}
		for _, rc := range rangeCounts {
			if rc > nEnc {
				continue
			}
			if c.Tier != "thorough" && nEnc < 255 && !(rc == 1 || rc >= 124 && rc <= 131 || rc >= 250) && !r.Chance(1, 3) {
				continue
			}
			base := r.Range(0, 256-nEnc)
			enc := c13RunsEncoding(r, nEnc, rc, base, r.Bool())
			label := fmt.Sprintf("codes=%d ranges=%s", nEnc, bucket(rc))
			// supplements: multiply-encoded glyphs on the free codes
			if nEnc < 256 && r.Bool() {
				k := 0
				for code := range enc {
					if enc[code] == 0 && r.Chance(2, 3) {
						enc[code] = r.Range(1, nEnc)
						k++
					}
				}
				if k > 0 {
					label += " +sup"
				}
			}
			c13EncodingCases(c, enc, names, label, rc > 255)
		}
	}
	// whole fonts: 255 and 256 encoded glyphs through Write and Read
	for _, nEnc := range []int{255, 256} {
		for _, rc := range []int{1, 127, 128, 129, 200, 255} {
			f := &c13Font{name: "EncB", ulPos: -100, ulThick: 50, full: true, fm: [6]float64{0.001, 0, 0, 0.001, 0, 0}}
			ng := nEnc + 1 + r.Range(0, 1)
			for g := 0; g < ng; g++ {
				nm := fmt.Sprintf("e%03d", g)
				if g == 0 {
					nm = ".notdef"
				}
				f.names = append(f.names, nm)
				f.widths = append(f.widths, float64(500+g%3*100))
			}
			f.fds = make([]int, ng)
			f.privs = []c13Priv{{bs: 7, bf: 1, bscale: 0.039625}}
			f.encoding = c13RunsEncoding(r, nEnc, rc, 256-nEnc, r.Bool())
			c.Stat("file_encoding", fmt.Sprintf("boundary codes=%d ranges=%d", nEnc, rc))
			c13EmitFont(c, f, true)
		}
	}
}

// c13EmitFont: the round trip on the real code (D), the model of Write (V) and, for small files, the
// spec reader (D) and the model of Read (V)
func c13EmitFont(c *Ctx, f *c13Font, readers bool) {
	desc := f.String()
	got := c.Case(Direct, "cff.file.rt", "font="+desc, true)
	if got == desc {
		c.Stat("file_roundtrip", "same")
	} else {
		c.Stat("file_roundtrip", "DIFFERENT")
	}
	if cs, dw, nw, err := cff.VerifEncodeCharStrings(f.build()); err == nil {
		line := fmt.Sprintf("font=%s cs=%s dw=%d nw=%d", desc, c13ShowBlobs(cs), int32(dw), int32(nw))
		res := c.Case(Verdict, "cff.file.model", line, true)
		c.Stat("file_model", c13OutcomeClass(res))
	}
	if !readers {
		return
	}
	out := Exec("cff.file.write font=" + desc)
	if strings.HasPrefix(out, "ok:") {
		c.Case(Direct, "cff.file.spec", "file="+out[3:]+" want="+desc, true)
		if len(out) < 6000 {
			c13ReadCases(c, c13HexMust(out[3:]), 1)
		}
	}
}


// c13SweepFont: a tiny font whose section offsets are steered by the string lengths
func c13SweepFont(r *Rng, lens [5]int, nFD int, variant int) *c13Font {
	f := &c13Font{name: strings.Repeat("N", lens[0]), ulPos: -100, ulThick: 50, full: true}
	for j, ch := range []string{"x", "c", "F", "v"} {
		// Notice, Copyright, FullName, Version
		idx := []int{1, 2, 3, 0}[j]
		f.strs[idx] = strings.Repeat(ch, lens[j+1])
	}
	f.widths = []float64{500}
	f.fds = []int{0}
	np := 1
	if nFD > 0 {
		f.isCID = true
		np = nFD
		f.ros = [2]string{"Adobe", "Identity"}
		f.cids = []int{0}
		f.fm = [6]float64{1, 0, 0, 1, 0, 0}
	} else {
		f.names = []string{".notdef"}
		f.fm = [6]float64{0.001, 0, 0, 0.001, 0, 0}
	}
	for p := 0; p < np; p++ {
		q := c13Priv{bs: 7, bf: 1, bscale: 0.039625}
		switch (variant + p) % 3 {
		case 0:
			q.bv = []int{-10, 0, 700, 710}
			q.vw = 80
		case 1:
			q.bv = []int{-12, 0, 480, 492, 690, 702}
			q.ob = []int{-210, -200}
			q.hw, q.vw = 40, 90
			q.forceBold = true
		}
		f.privs = append(f.privs, q)
		if f.isCID {
			f.fms = append(f.fms, [6]float64{0.001, 0, 0, 0.001, 0, 0})
		}
	}
	return f
}

// the offset fixed point of Write: sweeps of string lengths such that every section offset crosses
// the DICT operand-size thresholds 107/108, 1131/1132 and 32767/32768
func c13GenOffsetSweep(c *Ctx) {
	r := c.Rng
	thorough := c.Tier == "thorough"
	emit := func(lens [5]int, nFD, variant int, label string) {
		f := c13SweepFont(r, lens, nFD, variant)
		c.Stat("offset_sweep", label)
		c13EmitFont(c, f, r.Chance(1, 8))
	}
	kinds := []int{0, 0, 1, 2, 3} // number of FDs; 0 = simple font
	// (a) FontName 1..127 x Notice 0..60, one glyph
	for a := 1; a <= 127; a++ {
		for b := 0; b <= 60; b++ {
			sum := a + b
			take := thorough
			if !take {
				switch {
				case sum >= 70 && sum <= 80:
					take = (a*7+b*3+int(r.U64()%5))%5 == 0 || r.Chance(1, 6)
				case sum >= 40 && sum <= 110:
					take = r.Chance(1, 25)
				default:
					take = r.Chance(1, 120)
				}
			}
			if !take {
				continue
			}
			lab := "name x notice, sum other"
			if sum >= 70 && sum <= 80 {
				lab = "name x notice, sum 70..80"
			}
			emit([5]int{a, b, 0, 0, 0}, 0, 0, lab)
			if thorough && (a+b)%4 == 0 || !thorough && r.Chance(1, 3) {
				emit([5]int{a, b, 0, 0, 0}, Pick(r, []int{1, 2, 3}), r.Intn(3), lab+" (CID)")
			}
		}
	}
	// (b) every total in a window: the first threshold for all kinds and private DICT variants
	for total := 20; total <= 140; total++ {
		if !thorough && !(total >= 55 && total <= 100) && !r.Chance(1, 4) {
			continue
		}
		for _, nFD := range kinds {
			if !thorough && !r.Chance(1, 2) {
				continue
			}
			a := r.Range(1, min(127, total))
			rest := total - a
			b := r.Range(0, rest)
			cc := r.Range(0, rest-b)
			emit([5]int{a, b, cc, rest - b - cc, 0}, nFD, r.Intn(3), "window 107/108")
		}
	}
	// (c) the second threshold: totals around 1131
	for total := 900; total <= 1200; total++ {
		if !thorough && !(total >= 1000 && total <= 1140 && total%2 == int(r.U64()%2)) && !r.Chance(1, 10) {
			continue
		}
		nFD := Pick(r, kinds)
		a := r.Range(1, 127)
		rest := total - a
		b := r.Range(0, rest)
		emit([5]int{a, b, rest - b, r.Range(0, 3), 0}, nFD, r.Intn(3), "window 1131/1132")
	}
	// (c') deepest cascades seen (6 passes): CID-keyed fonts with 2-3 FDs, every total near the threshold
	for total := 1000; total <= 1150; total++ {
		for _, nFD := range []int{2, 3} {
			if !thorough && nFD == 2 && total%3 != 0 {
				continue
			}
			emit([5]int{20, total - 20, 0, 0, 0}, nFD, 0, "window 1131/1132 (CID, every total)")
		}
	}
	// (d) the third threshold: totals around 32767
	step := 7
	if thorough {
		step = 1
	}
	for total := 32560 + r.Intn(step); total <= 32780; total += step {
		nFD := Pick(r, kinds)
		a := r.Range(1, 127)
		b := r.Range(0, 40)
		emit([5]int{a, total - a - b, b, 0, 0}, nFD, r.Intn(3), "window 32767/32768")
	}
}

// ---------------------------------------------------------------------------------------
// reals at the edges of the nine-digit mantissa (seeded change C13-r4m1)

// c13RealCase: a decimal 0.<digits>e<l> (at most nine digits: exact for the model) through the encoder,
// the decoder and the spec decoder
func c13RealCase(c *Ctx, digits string, l int, neg bool, label string) {
	sign := ""
	if neg {
		sign = "-"
	}
	s := strings.TrimRight(digits, "0")
	text := fmt.Sprintf("r%s%se%d", sign, digits, l)
	want := fmt.Sprintf("r%s%se%d", sign, s, l-len(s))
	c.Stat("real_boundary", label)
	out := c.Case(Verdict, "cff.real.enc", "x="+text, true)
	if strings.HasPrefix(out, "panic") {
		return
	}
	res := c.Case(Verdict, "cff.real.dec", "data="+out, true)
	if strings.HasPrefix(res, "ok:"+want+";") {
		c.Stat("real_boundary_read_back", "same")
	} else {
		c.Stat("real_boundary_read_back", "DIFFERENT")
	}
	c.Case(Direct, "cff.dict.specdec", fmt.Sprintf("data=1e%s11 custom= want=ok:17:%s", out, want), true)
}

// c13RoundCase: more than nine digits; the expected value is the decimal rounding to nine digits
func c13RoundCase(c *Ctx, digits string, l int, neg bool, label string) {
	sign := ""
	if neg {
		sign = "-"
	}
	x, err := strconv.ParseFloat(sign+"0."+digits+"e"+strconv.Itoa(l), 64)
	if err != nil || x == 0 || math.IsInf(x, 0) {
		return
	}
	head, _ := strconv.Atoi(digits[:9])
	if digits[9] >= '5' {
		head++
	}
	ll := l
	if head == 1000000000 {
		head = 100000000
		ll++
	}
	hs := strings.TrimRight(strconv.Itoa(head), "0")
	want := fmt.Sprintf("r%s%se%d", sign, hs, ll-len(hs))
	c.Stat("real_boundary", label)
	enc := cff.VerifEncodeFloat(x)
	c.Case(Direct, "cff.dict.specdec", fmt.Sprintf("data=1e%s11 custom= want=ok:17:%s", hx(enc), want), true)
}

func c13GenRealBoundary(c *Ctx) {
	r := c.Rng
	thorough := c.Tier == "thorough"
	exact := []string{"999999999", "999999998", "999999990", "99999999", "9999999", "999", "9", "99", "100000000", "100000001",
		"100000009", "1", "10000001", "199999999", "899999999", "989999999", "999999989", "500000000", "499999999"}
	exps := []int{-9, -8, -3, -2, -1, 0, 1, 2, 3, 4, 8, 9, 10, 11, 12}
	for l := -40; l <= 40; l++ {
		exps = append(exps, l)
	}
	exps = append(exps, -290, -200, -100, 100, 200, 290)
	for _, d := range exact {
		for _, l := range exps {
			if !thorough && len(d) < 9 && d != "9" && !r.Chance(1, 4) {
				continue
			}
			if !thorough && (l < -12 || l > 12) && !r.Chance(1, 3) {
				continue
			}
			c13RealCase(c, d, l, r.Chance(1, 3), "exact "+d)
		}
	}
	// values that round to 10^9 or just below it, and to 10^8 or just above it (no exact ties)
	rounding := []string{"9999999996", "9999999994", "99999999951", "99999999949", "999999999501", "999999999499", "9999999989",
		"1000000004", "1000000006", "10000000049", "10000000051", "9999999986", "99999999899"}
	for _, d := range rounding {
		for l := -20; l <= 20; l++ {
			if !thorough && (l < -10 || l > 10) && !r.Chance(1, 3) {
				continue
			}
			c13RoundCase(c, d, l, r.Chance(1, 3), "rounds "+d)
		}
	}
	// whole fonts: every real-valued operand at an all-nines (and a 10^8) mantissa
	type rv struct{ angle, hw, vw, bscale, ul, m float64 }
	vals := []rv{
		{-9.99999999, 99.9999999, 999.999999, 0.0999999999, -99.9999999, 0.0999999999},
		{9.99999998, 99.9999998, 9.99999999, 0.00999999999, -9.99999999, 0.00999999998},
		{99.9999999, 0.999999999, 9999.99999, 0.999999999, -999.999999, 0.999999999},
		{-1.00000001, 10.0000001, 100.000001, 0.0100000001, -100.000001, 0.0100000001},
		{-0.999999999, 9.99999999, 99.9999999, 0.0999999998, -0.999999999, 0.0000999999999},
	}
	for vi, v := range vals {
		for _, nFD := range []int{0, 2} {
			f := c13SweepFont(r, [5]int{6 + vi, 3, 0, 0, 0}, nFD, 2)
			f.angle = v.angle
			// (the description carries the underline as an exact binary fraction: a dyadic value here; the
			// all-nines mantissas go through the same encodeFloat in the other operands)
			f.ulPos = -99.5 - float64(vi)
			f.ulThick = 49.75
			// (matrices within 1e-5 of the default are not written: keep away from 0.001 and from the identity)
			top := v.m
			if nFD > 0 && math.Abs(top-1) < 0.01 {
				top = 9.99999999
			}
			f.fm = [6]float64{top, 0, 0, top, 0, 0}
			for p := range f.privs {
				f.privs[p].hw, f.privs[p].vw, f.privs[p].bscale = v.hw, v.vw, v.bscale
				if f.isCID {
					f.fms[p] = [6]float64{v.m, 0, 0, v.m, v.ul, 0}
				}
			}
			c.Stat("real_boundary", "whole font")
			c13EmitFont(c, f, true)
		}
	}
}

// ---------------------------------------------------------------------------------------
// built-in encodings that are a proper part of a predefined encoding (seeded change C10-r5m2)

var c13StdGlyphNames = []string{"space", "exclam", "period", "comma", "hyphen", "colon", "zero", "one", "two", "three", "four",
	"five", "six", "seven", "eight", "nine", "A", "B", "C", "D", "E", "F", "G", "H", "I", "J", "K", "L", "M", "N", "O", "P", "Q", "R",
	"S", "T", "U", "V", "W", "X", "Y", "Z", "a", "b", "c", "d", "e", "f", "g", "h", "i", "j", "k", "l", "m", "n", "o", "p", "q", "r",
	"s", "t", "u", "v", "w", "x", "y", "z", "fi", "fl", "ae", "oe", "germandbls"}

// glyph names taken from a predefined encoding; the built-in encoding is that encoding restricted to
// the glyphs 1..k (the others stay unencoded although their names have codes), optionally with one
// more, non-predefined code.  What is written must come back code by code.
func c13GenEncodingSubset(c *Ctx) {
	r := c.Rng
	n := 60
	if c.Tier == "thorough" {
		n = 600
	}
	for i := 0; i < n; i++ {
		expert := i%3 == 2
		pool := c13StdGlyphNames
		if expert {
			pool = cff.VerifExpertNames()
		}
		ng := r.Range(3, 12)
		if i%7 == 0 {
			ng = r.Range(13, min(60, len(pool)))
		}
		if ng > len(pool) {
			ng = len(pool)
		}
		perm := make([]int, len(pool))
		for j := range perm {
			perm[j] = j
		}
		for j := len(perm) - 1; j > 0; j-- {
			k := r.Intn(j + 1)
			perm[j], perm[k] = perm[k], perm[j]
		}
		f := &c13Font{name: "Sub" + strconv.Itoa(i), ulPos: -100, ulThick: 50, full: true, fm: [6]float64{0.001, 0, 0, 0.001, 0, 0}}
		f.names = []string{".notdef"}
		for g := 1; g < ng; g++ {
			f.names = append(f.names, pool[perm[g-1]])
		}
		// (some fonts: one glyph without a predefined name, at the end)
		if r.Chance(1, 4) {
			f.names[ng-1] = "c13x" + strconv.Itoa(i)
		}
		gl := make([]*cff.Glyph, ng)
		for g := range gl {
			gl[g] = &cff.Glyph{Name: f.names[g]}
			f.widths = append(f.widths, float64(400+100*(g%4)))
		}
		f.fds = make([]int, ng)
		f.privs = []c13Priv{{bs: 7, bf: 1, bscale: 0.039625}}
		var full []glyph.ID
		if expert {
			full = cff.VerifExpertEncoding(gl)
		} else {
			full = cff.StandardEncoding(gl)
		}
		kind := i % 4
		k := ng - 1 // all glyphs: the predefined encoding itself
		if kind != 3 {
			k = r.Range(1, ng-2)
		}
		f.encoding = make([]int, 256)
		nEnc := 0
		for code, g := range full {
			if int(g) <= k && g != 0 {
				f.encoding[code] = int(g)
				nEnc++
			}
		}
		label := "proper part"
		switch kind {
		case 2: // control: one more code outside the predefined encoding
			for try := 0; try < 50; try++ {
				code := r.Intn(256)
				if f.encoding[code] == 0 && full[code] == 0 {
					f.encoding[code] = r.Range(1, k)
					break
				}
			}
			label = "part + extra code"
		case 3:
			label = "whole"
		}
		if nEnc == 0 {
			continue
		}
		// contiguity: the encoded glyphs must be 1..m
		seen := map[int]bool{}
		mx := 0
		for _, g := range f.encoding {
			if g != 0 {
				seen[g] = true
				if g > mx {
					mx = g
				}
			}
		}
		if len(seen) != mx {
			continue
		}
		c.Stat("encoding_subset", map[bool]string{true: "expert ", false: "standard "}[expert]+label)
		c13EmitFont(c, f, true)
	}
}

// ---------------------------------------------------------------------------------------
// cross-defaults: every numeric field takes the default value of each other field of the same DICT,
// and its own default +-1 (seeded change C13-r5m2)

func c13GenCrossDefaults(c *Ctx) {
	r := c.Rng
	base := func(cidFDs int) *c13Font {
		f := c13SweepFont(r, [5]int{5, 2, 0, 0, 0}, cidFDs, 2)
		for p := range f.privs {
			f.privs[p] = c13Priv{bs: 7, bf: 1, bscale: 0.039625}
		}
		return f
	}
	ulVals := []float64{-100, 50, 0, 1, 7, -99, -101, 49, 51, -50, 100, 0.5, -100.5, 50.5}
	angleVals := []float64{0, -100, 50, 1, 7, -1, 0.001, 0.039625, -0.5}
	intVals := []int{7, 1, 0, 6, 8, 2, 50, -100, -1}
	scaleVals := []float64{0.039625, 0.039627, 0.039623, 0.03962, 0.001, 1, 0.05, 0.5} // (within 1e-6 of the default is not written)
	stemVals := []float64{0, 1, 7, 50, 100, 0.039625, 0.001, 0.5}
	matVals := []float64{0.001, 1, 0.039625, 0.002, 0.5}
	emit := func(f *c13Font, label string) {
		c.Stat("cross_default", label)
		c13EmitFont(c, f, r.Chance(1, 3))
	}
	for _, nFD := range []int{0, 2} {
		// one field at a time
		for _, v := range ulVals {
			f := base(nFD)
			f.ulPos = v
			emit(f, "UnderlinePosition")
			f = base(nFD)
			f.ulThick = v
			emit(f, "UnderlineThickness")
		}
		for _, v := range angleVals {
			f := base(nFD)
			f.angle = v
			emit(f, "ItalicAngle")
		}
		for _, v := range intVals {
			f := base(nFD)
			f.privs[len(f.privs)-1].bs = v
			emit(f, "BlueShift")
			f = base(nFD)
			f.privs[0].bf = v
			emit(f, "BlueFuzz")
		}
		for _, v := range scaleVals {
			f := base(nFD)
			f.privs[0].bscale = v
			emit(f, "BlueScale")
		}
		for _, v := range stemVals {
			f := base(nFD)
			f.privs[0].hw = v
			emit(f, "StdHW")
			f = base(nFD)
			f.privs[len(f.privs)-1].vw = v
			emit(f, "StdVW")
		}
		for _, v := range matVals {
			f := base(nFD)
			f.fm = [6]float64{v, 0, 0, v, 0, 0}
			emit(f, "FontMatrix")
			if nFD > 0 {
				f = base(nFD)
				f.fms[1] = [6]float64{v, 0, 0, v, 0, 0}
				emit(f, "FontMatrix (FD)")
			}
		}
		for _, b := range []bool{true} {
			f := base(nFD)
			f.fixed = b
			f.privs[0].forceBold = b
			emit(f, "IsFixedPitch/ForceBold")
		}
		// widths at the defaults of the width operands and of their neighbours
		for _, w := range []float64{0, 1, 7, 50, -100} {
			f := base(nFD)
			f.widths = []float64{w}
			emit(f, "width")
		}
	}
	// all fields at once, drawn from the pools
	n := 40
	if c.Tier == "thorough" {
		n = 400
	}
	for i := 0; i < n; i++ {
		f := base(Pick(r, []int{0, 0, 1, 2, 3}))
		f.ulPos, f.ulThick, f.angle = Pick(r, ulVals), Pick(r, ulVals), Pick(r, angleVals)
		f.fixed = r.Bool()
		for p := range f.privs {
			f.privs[p] = c13Priv{bs: Pick(r, intVals), bf: Pick(r, intVals), bscale: Pick(r, scaleVals), hw: Pick(r, stemVals),
				vw: Pick(r, stemVals), forceBold: r.Bool()}
			if f.isCID {
				v := Pick(r, matVals)
				f.fms[p] = [6]float64{v, 0, 0, v, 0, 0}
			}
		}
		v := Pick(r, matVals)
		f.fm = [6]float64{v, 0, 0, v, 0, 0}
		emit(f, "all fields")
	}
}

// ---------------------------------------------------------------------------------------
// blue arrays with neighbouring values more than an int16 apart (seeded change C13-r6m1; repair e13ef76):
// the writer stores the plain differences, the reader adds them up modulo 2^16, the spec reader plainly:
// every int16 array comes back from both

func c13GenBlueGaps(c *Ctx) {
	r := c.Rng
	gaps := []int{32766, 32767, 32768, 32769, 40000, 50000, 65534, 65535}
	var arrays [][]int
	for _, g := range gaps {
		for _, lo := range []int{-32768, -32767, -20000, -1, 0} {
			hi := lo + g
			if hi > 32767 {
				continue
			}
			arrays = append(arrays, []int{lo, hi})
			if lo+10 < hi {
				arrays = append(arrays, []int{lo, lo + 10, hi - 5, hi}) // gap in the middle
			}
		}
	}
	arrays = append(arrays, []int{-20000, 20000}, []int{-32768, 0}, []int{-32768, 32767}, []int{32767, 32767}, []int{-32768, -32768},
		[]int{20000, 30000}, []int{32760, 32767}, []int{-32768, -32760, 32760, 32767}, []int{-32768, 32767, 32767, 32767},
		// descending arrays (negative deltas below -32768): not meaningful as zones, but int16 arrays all the same
		[]int{20000, -20000}, []int{32767, -32768}, []int{0, -32768}, []int{32767, -1})
	for i, a := range arrays {
		if c.Tier != "thorough" && i%2 == 1 && !r.Chance(1, 2) {
			continue
		}
		for _, nFD := range []int{0, 2} {
			if nFD == 2 && !r.Chance(1, 2) {
				continue
			}
			f := c13SweepFont(r, [5]int{4, 2, 0, 0, 0}, nFD, 2)
			for p := range f.privs {
				f.privs[p] = c13Priv{bs: 7, bf: 1, bscale: 0.039625}
			}
			which := r.Intn(3)
			q := &f.privs[len(f.privs)-1]
			if which != 1 {
				q.bv = a
			}
			if which != 0 {
				q.ob = a
			}
			wraps := false
			prev := 0
			for _, v := range a {
				if v-prev > 32767 || v-prev < -32768 {
					wraps = true
				}
				prev = v
			}
			c.Stat("blue_gap", map[bool]string{true: "a delta outside int16", false: "all deltas int16"}[wraps])
			c13EmitFont(c, f, true)
		}
	}
}

// ---------------------------------------------------------------------------------------
// all widths large (seeded change C13-r6m2): the nominal width must follow them

func c13GenLargeWidths(c *Ctx) {
	r := c.Rng
	sets := [][]float64{
		{70000, 70010, 70020}, {100000}, {100000, 100000, 100500}, {1000000, 1000010}, {65534, 65535, 65536, 65537},
		{65535}, {65536, 65536, 65540, 65541}, {70000, 70000, 70000, 80000, 90000, 102767}, {98304.5, 98305.25, 98400},
		{2000000, 2000000, 2032767}, {40000, 50000, 60000, 70000}, {32768, 65535}, {65535, 98302}, {-70000, -70010, -70020},
		{-100000}, {-65536, -65540, -98303}, {33000, 33000, 33001}, {32768}, {-32768}, {131072, 131073.5},
	}
	for i, ws := range sets {
		for _, nFD := range []int{0, 2} {
			if c.Tier != "thorough" && nFD == 2 && i%2 == 1 {
				continue
			}
			f := c13SweepFont(r, [5]int{4, 2, 0, 0, 0}, nFD, 2)
			for p := range f.privs {
				f.privs[p] = c13Priv{bs: 7, bf: 1, bscale: 0.039625}
			}
			// .notdef and one more glyph carry the most frequent (default) width of the set
			f.widths = []float64{ws[0], ws[0]}
			f.widths = append(f.widths, ws...)
			ng := len(f.widths)
			f.fds = make([]int, ng)
			if f.isCID {
				f.cids = make([]int, ng)
				for g := range f.cids {
					f.cids[g] = g * 3
					f.fds[g] = g % nFD
				}
			} else {
				f.names = []string{".notdef"}
				for g := 1; g < ng; g++ {
					f.names = append(f.names, "w"+strconv.Itoa(g))
				}
			}
			c.Stat("large_widths", bucket(int(math.Abs(ws[len(ws)-1]))))
			c13EmitFont(c, f, r.Chance(1, 2))
		}
	}
}

// ---------------------------------------------------------------------------------------
// round 7: numbers beyond int32 in the Top DICT, FDSelect beyond the parser buffer, INDEX data of
// exactly 2^8k-1 bytes

func c13GenRound7(c *Ctx) {
	r := c.Rng
	plain := func(nFD int) *c13Font {
		f := c13SweepFont(r, [5]int{4, 2, 0, 0, 0}, nFD, 2)
		for p := range f.privs {
			f.privs[p] = c13Priv{bs: 7, bf: 1, bscale: 0.039625}
		}
		return f
	}
	// (a) integral underline values at and beyond the int32 range (nine significant digits at most, so
	// that the real operand is exact)
	for _, v := range []float64{2147483647, -2147483648, -2147483647, 2147483650, -2147483650, 2147480000, 3e9, -5e9, 1e10, 4294967300,
		-4294967300, 1e15, -1e15, 1e12, 2.5e9} {
		for _, nFD := range []int{0, 2} {
			if nFD == 2 && !r.Chance(1, 2) {
				continue
			}
			f := plain(nFD)
			if r.Bool() {
				f.ulPos = v
			} else {
				f.ulThick = v
			}
			c.Stat("topdict_big_number", map[bool]string{true: "int32", false: "beyond int32"}[math.Abs(v) <= 2147483648])
			c13EmitFont(c, f, true)
		}
	}
	// (b) FDSelect for more glyphs than the parser buffer holds
	for _, ng := range []int{1023, 1024, 1025, 1026, 3000} {
		for pat := 0; pat < 3; pat++ {
			fds := make([]int, ng)
			label := ""
			switch pat {
			case 0:
				label = "alternating (format 0)"
				for g := range fds {
					fds[g] = g % 3
				}
			case 1:
				label = "blocks (format 3)"
				for g := range fds {
					fds[g] = g * 3 / ng
				}
			case 2:
				label = "half alternating"
				for g := range fds {
					if g < ng/2 {
						fds[g] = g % 2
					} else {
						fds[g] = 2
					}
				}
			}
			c.Stat("fdselect_long", fmt.Sprintf("%d %s", ng, label))
			out := c.Case(Verdict, "cff.fdselect.enc", "fds="+ints(fds), true)
			if !strings.HasPrefix(out, "panic") {
				enc := c13HexMust(out)
				c.Case(Verdict, "cff.fdselect.read", fmt.Sprintf("data=%s n=%d np=3", hx(enc), ng), true)
				c.Case(Direct, "cff.fdselect.spec", fmt.Sprintf("data=%s n=%d want=%s", hx(enc), ng, ints(fds)), true)
			}
			if (pat == 2 || ng > 1100) && c.Tier != "thorough" {
				continue
			}
			f := plain(3)
			f.fds = fds
			f.widths = make([]float64, ng)
			f.cids = make([]int, ng)
			for g := 0; g < ng; g++ {
				f.widths[g] = float64(500 + g%2*100)
				f.cids[g] = g * 2
			}
			c13EmitFont(c, f, true)
		}
	}
	// (c) INDEX data of exactly 2^8k - 2, - 1, - 0 bytes, in one and in two objects; a font whose Name INDEX
	// holds exactly 255 bytes
	for _, total := range []int{254, 255, 256, 65534, 65535, 65536} {
		for _, split := range []int{0, 100} {
			arg := fmt.Sprintf("blobs=z%d", total)
			if split > 0 {
				arg = fmt.Sprintf("blobs=z%d,z%d", split, total-split)
			}
			c.Stat("index_body_exact", fmt.Sprint(total))
			out := c.Case(Verdict, "cff.index.enc", arg, true)
			if strings.HasPrefix(out, "ok:") && (total < 1000 || split == 0) {
				var blobs [][]byte
				if split > 0 {
					blobs = [][]byte{make([]byte, split), make([]byte, total-split)}
				} else {
					blobs = [][]byte{make([]byte, total)}
				}
				enc := c13HexMust(out[3:])
				want := fmt.Sprintf("%s;pos=%d", c13ShowBlobs(blobs), len(enc))
				c.Case(Verdict, "cff.index.read", fmt.Sprintf("data=%s pos=0", hx(enc)), true)
				c.Case(Direct, "cff.index.spec", fmt.Sprintf("data=%s pos=0 want=%s", hx(enc), want), true)
			}
		}
	}
	nameLens := []int{254, 255, 256}
	if c.Tier == "thorough" {
		nameLens = append(nameLens, 65534, 65535, 65536)
	}
	for _, nl := range nameLens {
		for _, nFD := range []int{0, 2} {
			f := plain(nFD)
			f.name = strings.Repeat("N", nl)
			c.Stat("name_index_body", fmt.Sprint(nl))
			c13EmitFont(c, f, true)
		}
	}
}

// ---------------------------------------------------------------------------------------
// round 8: ItalicAngle far outside [-180, 180) - Read normalises it; a second Write/Read must not move it

func init() {
	// Write, Read, Write, Read on the real code: the second round trip must reproduce the first and the
	// angle must lie in [-180, 180).  The Lean side answers "stable".
	ops["cff.file.rt2"] = func(f Fields) string {
		return c13Guard(func() string {
			d := c13ParseFont(f["font"])
			var buf bytes.Buffer
			if err := d.build().Write(&buf); err != nil {
				return "write-" + c13Err(err)
			}
			g1, err := cff.Read(bytes.NewReader(buf.Bytes()))
			if err != nil {
				return "read-" + c13Err(err)
			}
			s1 := c13Summary(g1, d.encoding != nil, d.full)
			var buf2 bytes.Buffer
			if err := g1.Write(&buf2); err != nil {
				return "write2-" + c13Err(err)
			}
			g2, err := cff.Read(bytes.NewReader(buf2.Bytes()))
			if err != nil {
				return "read2-" + c13Err(err)
			}
			s2 := c13Summary(g2, d.encoding != nil, d.full)
			a1, a2 := g1.FontInfo.ItalicAngle, g2.FontInfo.ItalicAngle
			if s1 != s2 {
				return fmt.Sprintf("unstable: angle %s then %s", c13Real9(a1), c13Real9(a2))
			}
			if !(a1 >= -180 && a1 < 180) {
				return fmt.Sprintf("not normalised: angle %s", c13Real9(a1))
			}
			return "stable"
		})
	}
}

func c13GenAngles(c *Ctx) {
	r := c.Rng
	angles := []float64{540, -540, 541, -541, 539.5, -539.5, 720, -720, 900, 1000, -1000, 1e4, -1e4, 1e6, -1e6, 123456.75, -2000.25,
		1000.5, 360, -360, 180, -180, 181, -181, 179.5, -179.5, 200, -350, 359.75, 1080, 1259.5, -899.25, 65536, 0.5}
	for i, a := range angles {
		for _, nFD := range []int{0, 2} {
			if nFD == 2 && c.Tier != "thorough" && i%2 == 1 {
				continue
			}
			f := c13SweepFont(r, [5]int{4, 2, 0, 0, 0}, nFD, 2)
			for p := range f.privs {
				f.privs[p] = c13Priv{bs: 7, bf: 1, bscale: 0.039625}
			}
			f.angle = a
			desc := f.String()
			switch {
			case math.Abs(a) >= 540:
				c.Stat("italic_angle_far", ">= 540")
			case a >= 180 || a < -180:
				c.Stat("italic_angle_far", "outside [-180,180)")
			default:
				c.Stat("italic_angle_far", "inside")
			}
			c.Case(Direct, "cff.file.rt2", "font="+desc, true)
			if cs, dw, nw, err := cff.VerifEncodeCharStrings(f.build()); err == nil {
				c.Case(Verdict, "cff.file.model", fmt.Sprintf("font=%s cs=%s dw=%d nw=%d", desc, c13ShowBlobs(cs), int32(dw), int32(nw)), true)
			}
			out := Exec("cff.file.write font=" + desc)
			if strings.HasPrefix(out, "ok:") {
				// the model of Read (exact reduction modulo 360) against the real Read on the written file
				c13ReadCases(c, c13HexMust(out[3:]), 1)
			}
		}
	}
	// the convergence clause on ordinary fonts as well
	for i := 0; i < 12; i++ {
		f := c13SweepFont(r, [5]int{r.Range(1, 40), r.Range(0, 40), 0, 0, 0}, Pick(r, []int{0, 1, 3}), r.Intn(3))
		f.angle = float64(r.Range(-72000, 72000)) / 4
		c.Stat("italic_angle_far", "random quarter degrees")
		c.Case(Direct, "cff.file.rt2", "font="+f.String(), true)
	}
}

// ---------------------------------------------------------------------------------------
// round 9: zero-length INDEX elements (empty strings)

func init() {
	// the property on the real code alone: readIndex(encode(blobs)) = blobs (the Lean side echoes the blobs)
	ops["cff.index.rt"] = func(f Fields) string {
		return c13Guard(func() string {
			enc := cff.VerifIndexEncode(c13ParseBlobs(f["blobs"]))
			data := append(append([]byte{9, 9}, enc...), 7)
			blobs, pos, err := cff.VerifReadIndex(data, 2)
			if err != nil {
				return "read-" + c13Err(err)
			}
			if int(pos) != 2+len(enc) {
				return fmt.Sprintf("pos=%d", pos)
			}
			return "ok:" + c13ShowBlobs(blobs)
		})
	}
	// Write then Read on the real code: either Write refuses, or the font comes back (the Lean side
	// answers "faithful"); what is compared: the canonical summary of the font built and of the font read
	ops["cff.file.rtself"] = func(f Fields) string {
		return c13Guard(func() string {
			d := c13ParseFont(f["font"])
			font := d.build()
			var buf bytes.Buffer
			if err := font.Write(&buf); err != nil {
				return "faithful" // refused
			}
			g, err := cff.Read(bytes.NewReader(buf.Bytes()))
			if err != nil {
				return "written but not readable: " + c13Err(err)
			}
			s0 := c13Summary(font, d.encoding != nil, false)
			s1 := c13Summary(g, d.encoding != nil, false)
			if s0 != s1 {
				return "changed: " + s1
			}
			return "faithful"
		})
	}
}

func c13GenEmptyElements(c *Ctx) {
	r := c.Rng
	// INDEX level: empty elements first / middle / last / everywhere
	shapes := [][]int{{0}, {0, 0}, {0, 3}, {3, 0}, {2, 0, 2}, {0, 0, 5}, {5, 0, 0}, {0, 1, 0}, {1, 0, 0, 1}, {0, 0, 0, 0}, {0, 255}, {254, 0},
		{100, 0, 155}, {0, 300, 0}, {1}, {1, 1}}
	for _, sh := range shapes {
		parts := make([]string, len(sh))
		for j, n := range sh {
			parts[j] = c13ShowBlob(r.Bytes(n))
		}
		arg := "blobs=" + strings.Join(parts, ",")
		c.Stat("index_empty_elements", fmt.Sprint(len(sh)))
		c.Case(Direct, "cff.index.rt", arg, true)
		c.Case(Verdict, "cff.index.enc", arg, true)
	}
	// font level: empty strings that reach the string INDEX or the Name INDEX
	plain := func(nFD int) *c13Font {
		f := c13SweepFont(r, [5]int{4, 2, 0, 0, 0}, nFD, 2)
		for p := range f.privs {
			f.privs[p] = c13Priv{bs: 7, bf: 1, bscale: 0.039625}
		}
		return f
	}
	emit := func(f *c13Font, label string) {
		res := c.Case(Direct, "cff.file.rtself", "font="+f.String(), true)
		w := "written"
		if !strings.HasPrefix(Exec("cff.file.write font="+f.String()), "ok:") {
			w = "refused by Write"
		}
		c.Stat("empty_string_font", label+": "+w+", "+c13OutcomeClass(res))
	}
	for _, nFD := range []int{2, 1} {
		f := plain(nFD)
		f.ros = [2]string{"", "Identity"}
		emit(f, "empty Registry")
		f = plain(nFD)
		f.ros = [2]string{"Adobe", ""}
		emit(f, "empty Ordering")
		f = plain(nFD)
		f.ros = [2]string{"", ""}
		emit(f, "empty Registry and Ordering")
		f = plain(nFD)
		f.name = ""
		emit(f, "empty FontName (CID)")
	}
	f := plain(0)
	f.name = ""
	emit(f, "empty FontName")
	for _, at := range []int{1, 2, 3} {
		f := plain(0)
		f.names = []string{".notdef", "alpha.x", "beta.x", "gamma.x"}
		f.names[at] = ""
		f.widths = []float64{500, 600, 500, 700}
		f.fds = make([]int, 4)
		emit(f, fmt.Sprintf("empty glyph name at %d", at))
	}
}

// ---------------------------------------------------------------------------------------
// round 10: font matrices that equal the applicable default in the linear part only, or in all but one
// linear entry (the key may be dropped only if all six entries are the default)

func c13GenMatrixTranslation(c *Ctx) {
	r := c.Rng
	plain := func(nFD int) *c13Font {
		f := c13SweepFont(r, [5]int{4, 2, 0, 0, 0}, nFD, 2)
		for p := range f.privs {
			f.privs[p] = c13Priv{bs: 7, bf: 1, bscale: 0.039625}
		}
		return f
	}
	trans := []float64{0.25, -0.125, 0.5, 0.0625, 1e-4, 100, -3, 0.001}
	variants := func(d float64) [][6]float64 {
		var out [][6]float64
		for _, t := range trans {
			out = append(out, [6]float64{d, 0, 0, d, t, 0}, [6]float64{d, 0, 0, d, 0, t})
		}
		out = append(out, [6]float64{d, 0, 0, d, 0.5, -0.25},
			[6]float64{d * 2, 0, 0, d, 0, 0}, [6]float64{d, 0.25, 0, d, 0, 0}, [6]float64{d, 0, -0.125, d, 0, 0}, [6]float64{d, 0, 0, d / 2, 0, 0})
		return out
	}
	emit := func(f *c13Font, label string) {
		c.Stat("matrix_translation", label)
		c13EmitFont(c, f, r.Chance(1, 2))
	}
	for i, m := range variants(0.001) {
		f := plain(0)
		f.fm = m
		emit(f, "simple font, top DICT")
		if c.Tier == "thorough" || i%2 == 0 {
			f = plain(2)
			f.fms[i%2] = m
			emit(f, "Font DICT")
		}
	}
	for i, m := range variants(1) {
		if c.Tier != "thorough" && i%3 == 2 {
			continue
		}
		f := plain(1 + i%2)
		f.fm = m
		emit(f, "CID-keyed font, top DICT")
	}
}
