package main

// Area `layout` (property C15): feature selection (gtab.Info.FindLookups), legacy kern tables
// (kern.Read, the kern→GPOS conversion of sfnt.Read), synthesised standard ligatures, and the
// Layouter pipeline on real font files (Go Regular / Go Mono with tables swapped at container level).

import (
	"bytes"
	"fmt"
	"sort"
	"strings"
	"sync"

	"golang.org/x/image/font"
	"golang.org/x/image/font/gofont/gomono"
	"golang.org/x/image/font/gofont/goregular"
	ximage "golang.org/x/image/font/sfnt"
	"golang.org/x/image/math/fixed"
	"golang.org/x/text/language"

	"seehuhn.de/go/postscript/funit"
	"seehuhn.de/go/sfnt"
	"seehuhn.de/go/sfnt/cmap"
	"seehuhn.de/go/sfnt/opentype/classdef"
	"seehuhn.de/go/sfnt/opentype/coverage"
	"seehuhn.de/go/sfnt/opentype/gdef"
	"seehuhn.de/go/sfnt/glyph"
	"seehuhn.de/go/sfnt/header"
	"seehuhn.de/go/sfnt/kern"
	"seehuhn.de/go/sfnt/opentype/gtab"
)

// ---------- FindLookups ----------

type layFind struct {
	tags   []string // script records in canonical (sorted) order
	langs  map[string]*gtab.Features
	feats  []*gtab.Feature
	nl     int
	sw     map[string]bool // nil = nil map
	swText string
	lang   string
}

func layInts(s, sep string) []int {
	if s == "" {
		return nil
	}
	var out []int
	for _, p := range strings.Split(s, sep) {
		var n int
		if _, err := fmt.Sscan(p, &n); err != nil {
			panic("bad int list " + s)
		}
		out = append(out, n)
	}
	return out
}

func layJoin(l []int, sep string) string {
	s := make([]string, len(l))
	for i, x := range l {
		s[i] = fmt.Sprint(x)
	}
	return strings.Join(s, sep)
}

func layParseSw(s string) map[string]bool {
	switch s {
	case "nil":
		return nil
	case "-":
		return map[string]bool{}
	}
	m := map[string]bool{}
	for _, p := range strings.Split(s, ",") {
		i := strings.IndexByte(p, ':')
		m[string(mustHex(p[:i]))] = p[i+1:] == "1"
	}
	return m
}

func layShowSw(m map[string]bool) string {
	if m == nil {
		return "nil"
	}
	if len(m) == 0 {
		return "-"
	}
	keys := make([]string, 0, len(m))
	for k := range m {
		keys = append(keys, k)
	}
	sort.Strings(keys)
	parts := make([]string, len(keys))
	for i, k := range keys {
		v := "0"
		if m[k] {
			v = "1"
		}
		parts[i] = hx([]byte(k)) + ":" + v
	}
	return strings.Join(parts, ",")
}

func layParseFind(f Fields) *layFind {
	c := &layFind{langs: map[string]*gtab.Features{}, nl: f.Int("nl"), sw: layParseSw(f["sw"]), swText: f["sw"], lang: f["lang"]}
	for _, r := range f.List("scripts", "|") {
		p := strings.Split(r, ":")
		c.tags = append(c.tags, p[0])
		if len(p) == 2 && p[1] == "nil" {
			c.langs[p[0]] = nil
			continue
		}
		ft := &gtab.Features{Required: gtab.FeatureIndex(layInts(p[1], ";")[0])}
		for _, o := range layInts(p[2], ";") {
			ft.Optional = append(ft.Optional, gtab.FeatureIndex(o))
		}
		c.langs[p[0]] = ft
	}
	for _, r := range f.List("feats", "|") {
		p := strings.Split(r, ":")
		ft := &gtab.Feature{Tag: string(mustHex(p[0]))}
		for _, l := range layInts(p[1], ";") {
			ft.Lookups = append(ft.Lookups, gtab.LookupIndex(l))
		}
		c.feats = append(c.feats, ft)
	}
	return c
}

func (c *layFind) info() *gtab.Info {
	info := &gtab.Info{
		ScriptList:  map[language.Tag]*gtab.Features{},
		FeatureList: c.feats,
		LookupList:  make([]*gtab.LookupTable, c.nl),
	}
	for _, t := range c.tags {
		info.ScriptList[language.MustParse(t)] = c.langs[t]
	}
	return info
}

func (c *layFind) args(chosen int) string {
	sc := make([]string, len(c.tags))
	for i, t := range c.tags {
		ft := c.langs[t]
		if ft == nil {
			sc[i] = t + ":nil"
			continue
		}
		opt := make([]int, len(ft.Optional))
		for j, o := range ft.Optional {
			opt[j] = int(o)
		}
		sc[i] = fmt.Sprintf("%s:%d:%s", t, ft.Required, layJoin(opt, ";"))
	}
	fs := make([]string, len(c.feats))
	for i, ft := range c.feats {
		ll := make([]int, len(ft.Lookups))
		for j, l := range ft.Lookups {
			ll[j] = int(l)
		}
		fs[i] = hx([]byte(ft.Tag)) + ":" + layJoin(ll, ";")
	}
	return fmt.Sprintf("scripts=%s feats=%s nl=%d sw=%s lang=%s chosen=%d",
		strings.Join(sc, "|"), strings.Join(fs, "|"), c.nl, layShowSw(c.sw), c.lang, chosen)
}

// layChosen asks the real matcher which of the canonically ordered tags it picks for lang.
// This is the abstract matcher's answer handed to the model; it is NOT taken from FindLookups.
func layChosen(tags []string, lang string) int {
	if len(tags) == 0 {
		return 0
	}
	s := append([]string(nil), tags...)
	sort.Strings(s)
	tt := make([]language.Tag, len(s))
	for i, t := range s {
		tt[i] = language.MustParse(t)
	}
	_, idx, _ := language.NewMatcher(tt).Match(language.MustParse(lang))
	return idx
}

func layShowLookups(ll []gtab.LookupIndex) string {
	out := make([]int, len(ll))
	for i, l := range ll {
		out[i] = int(l)
	}
	return layJoin(out, ",")
}

var layScriptTags = []string{"de", "fr", "en", "en-GB", "ja", "zh-Hans", "zh-Hant", "ar", "ru", "und", "und-Latn",
	"und-Latn-x-latn", "und-Zzzz", "tr", "sr-Cyrl", "sr-Latn", "hi", "el", "he", "ko", "nl", "pt-BR", "es", "it",
	"und-Cyrl", "und-Arab", "und-Grek", "pt", "sv", "da", "nb", "pl", "cs", "uk", "th", "vi"}
var layAskTags = []string{"en", "en-US", "de", "de-AT", "de-CH", "fr-CA", "zu", "sw", "fi", "pt-PT", "pt", "sr", "zh-TW", "zh",
	"zh-HK", "ja", "ko-KR", "und", "ar-EG", "ru-RU", "tr", "es-MX", "nn", "no", "hr", "bs", "mul", "el-CY", "yi", "ur", "en-GB"}
var layFeatTags = []string{"liga", "kern", "calt", "ccmp", "clig", "locl", "mark", "mkmk", "smcp", "dlig", "ss01", "c2sc",
	"zzzz", "ab c", "LIGA", "liga"}

func layGenFind(c *Ctx, i int) {
	r := c.Rng
	fc := &layFind{langs: map[string]*gtab.Features{}}
	nScripts := r.Range(1, 6)
	switch {
	case i%40 == 0:
		nScripts = 0
	case i%10 == 3:
		nScripts = r.Range(7, 20)
	case i%10 == 4:
		nScripts = 1
	}
	nFeat := r.Range(0, 10)
	fc.nl = r.Range(0, 30)
	if r.Chance(1, 15) {
		fc.nl = 0
	}
	for j := 0; j < nFeat; j++ {
		ft := &gtab.Feature{Tag: Pick(r, layFeatTags)}
		for k := r.Range(0, 5); k > 0; k-- {
			l := r.Range(0, fc.nl+2)
			if r.Chance(1, 30) {
				l = Pick(r, []int{0xFFFF, 0xFFFE, 1000})
			}
			ft.Lookups = append(ft.Lookups, gtab.LookupIndex(l))
		}
		fc.feats = append(fc.feats, ft)
	}
	seen := map[string]bool{}
	for len(fc.tags) < nScripts {
		t := Pick(r, layScriptTags)
		if seen[t] {
			continue
		}
		seen[t] = true
		fc.tags = append(fc.tags, t)
		if r.Chance(1, 25) {
			fc.langs[t] = nil
			c.Stat("find.langsys", "nil")
			continue
		}
		ft := &gtab.Features{Required: 0xFFFF}
		switch r.Intn(6) {
		case 0, 1, 3:
			if nFeat > 0 {
				ft.Required = gtab.FeatureIndex(r.Intn(nFeat))
			}
		case 2:
			ft.Required = gtab.FeatureIndex(nFeat + r.Intn(3)) // out of range
		}
		for k := r.Range(0, 6); k > 0; k-- {
			ft.Optional = append(ft.Optional, gtab.FeatureIndex(r.Range(0, nFeat+1)))
		}
		fc.langs[t] = ft
	}
	sort.Strings(fc.tags)
	switch r.Intn(12) {
	case 0:
		fc.sw = nil
	case 1:
		fc.sw = map[string]bool{}
	case 2:
		fc.sw = gtab.GsubDefaultFeatures
	case 3:
		fc.sw = gtab.GposDefaultFeatures
	default:
		fc.sw = map[string]bool{}
		for k := r.Range(1, 6); k > 0; k-- {
			t := Pick(r, layFeatTags)
			if len(fc.feats) > 0 && r.Chance(3, 4) {
				t = Pick(r, fc.feats).Tag
			}
			fc.sw[t] = r.Chance(3, 4)
		}
	}
	fc.lang = Pick(r, layAskTags)
	if r.Chance(1, 4) && len(fc.tags) > 0 {
		fc.lang = Pick(r, fc.tags)
	}
	chosen := layChosen(fc.tags, fc.lang)
	args := fc.args(chosen)
	nontriv := nScripts >= 2 && nFeat >= 2
	out := c.Case(Verdict, "layout.find", args, nontriv)
	c.Stat("find.scripts", bucket(nScripts))
	c.Stat("find.features", bucket(nFeat))
	c.Stat("find.lookups", bucket(fc.nl))
	c.Stat("find.switches", map[bool]string{true: "nil", false: bucket(len(fc.sw))}[fc.sw == nil])
	c.Stat("find.result_len", bucket(len(layInts(out, ","))))
	if nScripts > 0 {
		if ft := fc.langs[func() string { s := append([]string(nil), fc.tags...); sort.Strings(s); return s[chosen] }()]; ft != nil {
			switch {
			case ft.Required == 0xFFFF:
				c.Stat("find.required", "none")
			case int(ft.Required) < nFeat:
				c.Stat("find.required", "in-range")
			default:
				c.Stat("find.required", "out-of-range")
			}
		}
	}
	if strings.HasPrefix(out, "panic") {
		c.Stat("find.outcome", "panic")
		return
	}
	c.Case(Direct, "layout.find.post", args+" got="+out, nontriv)
	if i%3 == 0 || nScripts >= 3 {
		c.Case(Direct, "layout.find.det", args, nontriv)
	}
}

// ---------- kern ----------

type laySub struct {
	version, format, flags int
	search                 [3]int
	pairs                  [][3]int // left, right, value
}

func layBE16(b []byte, v int) []byte { return append(b, byte(v>>8), byte(v)) }

func layEncKern(subs []laySub) []byte {
	b := layBE16(nil, 0)
	b = layBE16(b, len(subs))
	for _, s := range subs {
		b = layBE16(b, s.version)
		b = layBE16(b, 14+6*len(s.pairs))
		b = append(b, byte(s.format), byte(s.flags))
		b = layBE16(b, len(s.pairs))
		b = layBE16(b, s.search[0])
		b = layBE16(b, s.search[1])
		b = layBE16(b, s.search[2])
		for _, p := range s.pairs {
			b = layBE16(b, p[0])
			b = layBE16(b, p[1])
			b = layBE16(b, p[2]&0xFFFF)
		}
	}
	return b
}

func layShowSubs(subs []laySub) string {
	parts := make([]string, len(subs))
	for i, s := range subs {
		ps := make([]string, len(s.pairs))
		for j, p := range s.pairs {
			ps[j] = fmt.Sprintf("%d:%d:%d", p[0], p[1], p[2])
		}
		parts[i] = fmt.Sprintf("%d~%d~%d~%d;%d;%d~%s", s.version, s.format, s.flags, s.search[0], s.search[1], s.search[2],
			strings.Join(ps, ","))
	}
	return strings.Join(parts, "|")
}

func layShowKern(m kern.Info) string {
	type e struct{ l, r, v int }
	es := make([]e, 0, len(m))
	for k, v := range m {
		es = append(es, e{int(k.Left), int(k.Right), int(v)})
	}
	sort.Slice(es, func(i, j int) bool {
		if es[i].l != es[j].l {
			return es[i].l < es[j].l
		}
		return es[i].r < es[j].r
	})
	parts := make([]string, len(es))
	for i, x := range es {
		parts[i] = fmt.Sprintf("%d:%d:%d", x.l, x.r, x.v)
	}
	return strings.Join(parts, ",")
}

// layGenSubs draws a list of subtables over the glyph pool; small = values that cannot overflow.
func layGenSubs(c *Ctx, pool []int, small bool, dups bool) []laySub {
	r := c.Rng
	n := r.Range(0, 5)
	if r.Chance(1, 10) {
		n = r.Range(6, 9)
	}
	subs := make([]laySub, n)
	for i := range subs {
		s := &subs[i]
		s.flags = 1
		if r.Chance(1, 3) {
			s.flags |= 2
		}
		if r.Chance(1, 3) {
			s.flags |= 8
		}
		if r.Chance(1, 8) {
			s.flags |= 4
		}
		if r.Chance(1, 10) {
			s.flags &^= 1
		}
		if r.Chance(1, 12) {
			s.flags |= 16 << r.Intn(4)
		}
		if r.Chance(1, 12) {
			s.version = r.Range(1, 3)
		}
		if r.Chance(1, 12) {
			s.format = Pick(r, []int{1, 2, 3, 255})
		}
		np := r.Range(0, 10)
		if r.Chance(1, 20) {
			np = r.Range(20, 60)
		}
		seen := map[[2]int]bool{}
		distinct := map[int]bool{}
		for _, g := range pool {
			distinct[g] = true
		}
		for len(s.pairs) < np {
			k := [2]int{Pick(r, pool), Pick(r, pool)}
			if seen[k] && !dups {
				if len(seen) >= len(distinct)*len(distinct) {
					break
				}
				continue
			}
			seen[k] = true
			var v int
			switch {
			case small:
				v = r.Range(-300, 300)
			case r.Chance(1, 3):
				v = Pick(r, []int{32767, -32768, 30000, -30000, 20000, -20000, 0, 1, -1})
			default:
				v = r.Range(-32768, 32767)
			}
			s.pairs = append(s.pairs, [3]int{k[0], k[1], v})
		}
		if !dups {
			sort.Slice(s.pairs, func(a, b int) bool {
				if s.pairs[a][0] != s.pairs[b][0] {
					return s.pairs[a][0] < s.pairs[b][0]
				}
				return s.pairs[a][1] < s.pairs[b][1]
			})
		}
		if r.Chance(1, 2) { // correct search fields
			if np := len(s.pairs); np > 0 {
				es := 0
				for 1<<(es+1) <= np {
					es++
				}
				s.search = [3]int{6 << es, es, 6 * (np - 1<<es)}
			}
		} else {
			s.search = [3]int{r.Intn(65536), r.Intn(65536), r.Intn(65536)}
		}
		c.Stat("kern.flags", fmt.Sprintf("%04b", s.flags&15))
		c.Stat("kern.pairs", bucket(len(s.pairs)))
	}
	c.Stat("kern.subtables", bucket(n))
	return subs
}

func layMutate(r *Rng, data []byte) []byte {
	m := append([]byte(nil), data...)
	switch r.Intn(7) {
	case 0:
		m = m[:r.Intn(len(m)+1)]
	case 1:
		if len(m) > 0 {
			m[r.Intn(len(m))] ^= byte(1 << r.Intn(8))
		}
	case 2: // header fields
		if len(m) >= 4 {
			m[r.Intn(4)] = byte(r.Intn(4))
		}
	case 3: // a subtable length
		if len(m) >= 8 {
			m[6], m[7] = 0, byte(r.Intn(40))
		}
	case 4: // pair count larger than what is there (kept small: cost is C02's subject)
		if len(m) >= 12 {
			m[10], m[11] = 0, byte(r.Intn(64))
		}
	case 5:
		m = append(m, r.Bytes(r.Range(1, 20))...)
	case 6:
		for j := r.Range(1, 4); j > 0 && len(m) > 0; j-- {
			m[r.Intn(len(m))] = byte(r.U64())
		}
	}
	return m
}

func layGenKern(c *Ctx, i int) {
	r := c.Rng
	pool := []int{1, 2, 3, 5, 8}
	if r.Chance(1, 3) {
		pool = []int{0, 7, 300, 65535, 40000, 256}
	}
	small := i%2 == 0
	dups := !small && r.Chance(1, 4)
	subs := layGenSubs(c, pool, small, dups)
	data := layEncKern(subs)
	out := c.Case(Verdict, "layout.kern.read", "data="+hx(data), len(subs) >= 2)
	c.Stat("kern.read_outcome", strings.SplitN(out, ":", 2)[0])
	if small && strings.HasPrefix(out, "ok:") {
		c.Case(Direct, "layout.kern.spec", fmt.Sprintf("subs=%s data=%s got=%s", layShowSubs(subs), hx(data), out[3:]), len(subs) >= 2)
	}
	// malformed stream
	for k := 0; k < 2; k++ {
		m := layMutate(r, data)
		out := c.Case(Verdict, "layout.kern.read", "data="+hx(m), false)
		c.Stat("kern.mutated_outcome", strings.SplitN(out, ":", 2)[0])
	}
	if i%5 == 0 { // the repository's own encoder
		info := kern.Info{}
		for k := r.Range(0, 12); k > 0; k-- {
			info[glyph.Pair{Left: glyph.ID(Pick(r, pool)), Right: glyph.ID(Pick(r, pool))}] = funit.Int16(r.Range(-500, 500))
		}
		c.Case(Verdict, "layout.kern.read", "data="+hx(info.Encode()), len(info) >= 2)
	}
}

// ---------- fonts ----------

var (
	layBaseOnce sync.Once
	layBase     map[string]map[string][]byte // base name → table name → bytes
	layScaler   map[string]uint32
)

func layLoadBase() {
	layBase = map[string]map[string][]byte{}
	layScaler = map[string]uint32{}
	for name, data := range map[string][]byte{"regular": goregular.TTF, "mono": gomono.TTF} {
		rd := bytes.NewReader(data)
		h, err := header.Read(rd)
		if err != nil {
			panic(err)
		}
		tabs := map[string][]byte{}
		for t := range h.Toc {
			switch t {
			case "GSUB", "GPOS", "GDEF", "kern":
				continue
			}
			b, err := h.ReadTableBytes(rd, t)
			if err != nil {
				panic(err)
			}
			tabs[t] = b
		}
		layBase[name] = tabs
		layScaler[name] = h.ScalerType
	}
}

func layParseCm(s string) map[uint16]glyph.ID {
	if s == "-" || s == "" {
		return nil
	}
	m := map[uint16]glyph.ID{}
	for _, p := range strings.Split(s, ",") {
		var a, b int
		if _, err := fmt.Sscanf(p, "%d:%d", &a, &b); err != nil {
			panic("bad cm")
		}
		m[uint16(a)] = glyph.ID(b)
	}
	return m
}

func layShowCm(m map[uint16]glyph.ID) string {
	if m == nil {
		return "-"
	}
	keys := make([]int, 0, len(m))
	for k := range m {
		keys = append(keys, int(k))
	}
	sort.Ints(keys)
	parts := make([]string, len(keys))
	for i, k := range keys {
		parts[i] = fmt.Sprintf("%d:%d", k, m[uint16(k)])
	}
	return strings.Join(parts, ",")
}

// layFontBytes assembles a font file: the base font's tables, optionally with the cmap replaced by a
// single (3,1) format 4 subtable, optionally with a kern table; no GSUB/GPOS/GDEF.
func layFontBytes(base string, cm map[uint16]glyph.ID, kernData []byte) []byte {
	return layFontBytesVar(base, cm, kernData, "")
}

// layEmptyGtab is a GSUB/GPOS table (version 1.0) with empty script, feature and lookup lists.
var layEmptyGtab = []byte{0, 1, 0, 0, 0, 10, 0, 12, 0, 14, 0, 0, 0, 0, 0, 0}

// layVariants are the file-level variations of the fields sfnt.Read could consult when it decides
// whether to synthesise the liga / kern tables; combined with "+" in the case field var=.
//   post0 post1 postF : post.isFixedPitch = 0, 1, 0xFFFFFFFF
//   eqw difw          : all advance widths equal / differing (hhea.numberOfHMetrics and hmtx rewritten)
//   nohmtx            : no hmtx table
//   panose9 panose0   : OS/2 panose bProportion = 9 (monospaced) / 0
//   gsub gpos         : an empty GSUB / GPOS table is present in the file
func layHasVar(variant, v string) bool {
	for _, x := range strings.Split(variant, "+") {
		if x == v {
			return true
		}
	}
	return false
}

// layFontBytesVar assembles a font file: the base font's tables, optionally with the cmap replaced by a
// single (3,1) format 4 subtable, optionally with a kern table, with the variations of `variant`.
func layFontBytesVar(base string, cm map[uint16]glyph.ID, kernData []byte, variant string) []byte {
	layBaseOnce.Do(layLoadBase)
	tabs := map[string][]byte{}
	for k, v := range layBase[base] {
		tabs[k] = append([]byte(nil), v...)
	}
	if cm != nil {
		tabs["cmap"] = cmap.Table{{PlatformID: 3, EncodingID: 1}: cmap.Format4(cm).Encode(0)}.Encode()
	}
	if kernData != nil {
		tabs["kern"] = kernData
	}
	setWidths := func(w func(i int) int) {
		n := int(tabs["maxp"][4])<<8 | int(tabs["maxp"][5])
		hm := make([]byte, 0, 4*n)
		for i := 0; i < n; i++ {
			hm = append(hm, byte(w(i)>>8), byte(w(i)), 0, 0)
		}
		tabs["hmtx"] = hm
		tabs["hhea"][34], tabs["hhea"][35] = byte(n>>8), byte(n)
	}
	for _, v := range strings.Split(variant, "+") {
		switch v {
		case "", "-":
		case "post0":
			copy(tabs["post"][12:16], []byte{0, 0, 0, 0})
		case "post1":
			copy(tabs["post"][12:16], []byte{0, 0, 0, 1})
		case "postF":
			copy(tabs["post"][12:16], []byte{255, 255, 255, 255})
		case "eqw":
			setWidths(func(int) int { return 1000 })
		case "difw":
			setWidths(func(i int) int { return 500 + (i%7)*100 })
		case "nohmtx":
			delete(tabs, "hmtx")
		case "panose9":
			tabs["OS/2"][35] = 9
		case "panose0":
			tabs["OS/2"][35] = 0
		case "gsub":
			tabs["GSUB"] = layEmptyGtab
		case "gpos":
			tabs["GPOS"] = layEmptyGtab
		case "cmxF10", "cmxF13", "cmxF8", "cmxF2", "cmxTrunc12", "cmxF10at04":
			// a higher-ranked cmap subtable the library cannot decode, next to the good ones
			tbl, err := cmap.Decode(tabs["cmap"])
			if err != nil {
				panic(err)
			}
			key := cmap.Key{PlatformID: 3, EncodingID: 10}
			if v == "cmxF10at04" {
				key = cmap.Key{PlatformID: 0, EncodingID: 4}
			}
			tbl[key] = layBadCmap[v]
			tabs["cmap"] = tbl.Encode()
		default:
			panic("unknown font variant " + v)
		}
	}
	var buf bytes.Buffer
	if _, err := header.Write(&buf, layScaler[base], tabs); err != nil {
		panic(err)
	}
	return buf.Bytes()
}

// layBadCmap: cmap subtable bodies with a valid format number which cmap.Table.Get cannot decode.
var layBadCmap = map[string][]byte{
	"cmxF10":     {0, 10, 0, 0, 0, 0, 0, 22, 0, 0, 0, 0, 0, 0, 0, 65, 0, 0, 0, 1, 0, 5},
	"cmxF10at04": {0, 10, 0, 0, 0, 0, 0, 22, 0, 0, 0, 0, 0, 0, 0, 65, 0, 0, 0, 1, 0, 5},
	"cmxF13":     {0, 13, 0, 0, 0, 0, 0, 28, 0, 0, 0, 0, 0, 0, 0, 1, 0, 0, 0, 65, 0, 0, 0, 90, 0, 0, 0, 5},
	"cmxF8":      {0, 8, 0, 0, 0, 0, 0, 16, 0, 0, 0, 0, 0, 0, 0, 0},
	"cmxF2":      {0, 2, 0, 12, 0, 0, 0, 0, 0, 0, 0, 0},
	"cmxTrunc12": {0, 12, 0, 0, 0, 0, 0, 28, 0, 0, 0, 0, 0, 0, 0, 5, 0, 0, 0, 65, 0, 0, 0, 90, 0, 0, 0, 5},
}

// layStripCmx removes the cmx* tokens: the facts of a case (rune -> gid, widths) are read from the font
// without the undecodable subtable.
func layStripCmx(variant string) string {
	var out []string
	for _, v := range strings.Split(variant, "+") {
		if !strings.HasPrefix(v, "cmx") {
			out = append(out, v)
		}
	}
	if len(out) == 0 {
		return "-"
	}
	return strings.Join(out, "+")
}

// layFixedByWidths is the property's notion of a fixed-pitch font: all non-zero advance widths equal.
func layFixedByWidths(font *sfnt.Font) bool {
	var w0 float64
	for _, w := range font.Widths() {
		if w == 0 {
			continue
		}
		if w0 == 0 {
			w0 = w
		} else if w != w0 {
			return false
		}
	}
	return true
}

func layRunes(s string) []rune {
	var out []rune
	for _, x := range layInts(s, ",") {
		out = append(out, rune(x))
	}
	return out
}

func layShowGlyphs(seq []glyph.Info) string {
	parts := make([]string, len(seq))
	for i, g := range seq {
		t := make([]int, len(g.Text))
		for j, r := range g.Text {
			t[j] = int(r)
		}
		parts[i] = fmt.Sprintf("%d/%s/%d", g.GID, layJoin(t, "."), g.Advance)
		if g.XOffset != 0 || g.YOffset != 0 {
			parts[i] += fmt.Sprintf("/off%d,%d", g.XOffset, g.YOffset)
		}
	}
	return strings.Join(parts, ";")
}

var layLigRunes = []rune{'f', 'i', 'l', 0xFB00, 0xFB01, 0xFB02, 0xFB03, 0xFB04}

// layFacts reads rune→gid, gid→width and fixed-pitch from the font (inputs of the model).
func layFacts(font *sfnt.Font, text []rune) (mapArg, wArg string, fixed bool, gids map[rune]glyph.ID, ng int) {
	sub, err := font.CMapTable.GetBest()
	if err != nil {
		panic(err)
	}
	gids = map[rune]glyph.ID{}
	for _, r := range append(append([]rune(nil), layLigRunes...), text...) {
		gids[r] = sub.Lookup(r)
	}
	rk := make([]int, 0, len(gids))
	for r := range gids {
		rk = append(rk, int(r))
	}
	sort.Ints(rk)
	var mp []string
	gset := map[int]bool{0: true}
	for _, r := range rk {
		if g := gids[rune(r)]; g != 0 {
			mp = append(mp, fmt.Sprintf("%d:%d", r, g))
			gset[int(g)] = true
		}
	}
	gk := make([]int, 0, len(gset))
	for g := range gset {
		gk = append(gk, g)
	}
	sort.Ints(gk)
	var wp []string
	for _, g := range gk {
		if g < font.NumGlyphs() {
			wp = append(wp, fmt.Sprintf("%d:%d", g, uint16(funit.Int16(font.GlyphWidth(glyph.ID(g))))))
		}
	}
	mapArg, wArg = strings.Join(mp, ","), strings.Join(wp, ",")
	if mapArg == "" {
		mapArg = "-"
	}
	return mapArg, wArg, layFixedByWidths(font), gids, font.NumGlyphs()
}

func layGenText(c *Ctx, i int) {
	r := c.Rng
	base := "regular"
	if i%4 == 1 {
		base = "mono"
	}
	// text
	n := r.Range(0, 12)
	if r.Chance(1, 10) {
		n = r.Range(30, 60)
	}
	alphabet := []rune("ffffiillfiflabcxyzAVTo., ")
	switch r.Intn(5) {
	case 0:
		alphabet = []rune("fil")
	case 1:
		alphabet = append(alphabet, 0xFB01, 0xFB03, 0x4E00, 0x1F600, 0xFFFD, 0x0301, 0xE000)
	case 2:
		alphabet = []rune("abcdeAVWTo xyz")
	}
	text := make([]rune, n)
	for j := range text {
		text[j] = Pick(r, alphabet)
	}
	// control and boundary characters, runs of one character at the start / middle / end
	nulFamily := i%6 == 5
	if nulFamily {
		alphabet = []rune{0, 0, 1, 0xFFFF, 0x10FFFF, 'A', 'B', ' ', '.'}
		text = text[:0]
		for k := r.Range(1, 4); k > 0; k-- {
			x := Pick(r, alphabet)
			if len(text) == 0 && r.Chance(2, 3) {
				x = 0
			}
			for m := Pick(r, []int{1, 1, 2, 3}); m > 0; m-- {
				text = append(text, x)
			}
		}
		n = len(text)
	}
	// cmap replacement
	var cm map[uint16]glyph.ID
	cmKind := "font"
	if r.Chance(1, 3) || nulFamily {
		cm = map[uint16]glyph.ID{}
		cmKind = "replaced"
		for _, x := range alphabet {
			if x < 0x10000 && r.Chance(4, 5) {
				cm[uint16(x)] = glyph.ID(r.Range(1, 700))
			}
		}
		for _, x := range layLigRunes {
			switch {
			case r.Chance(1, 2):
				cm[uint16(x)] = glyph.ID(r.Range(1, 700))
			case r.Chance(1, 3):
				delete(cm, uint16(x))
			}
		}
		if r.Chance(1, 12) && len(text) > 0 { // #34: a glyph index beyond the glyph count
			cm[uint16(text[0]&0xFFFF)] = glyph.ID(Pick(r, []int{712, 5000, 65535, 651}))
			cmKind = "replaced-with-bad-gid"
		}
		if nulFamily { // many TrueType fonts map U+0000 to a .null glyph
			cm[0] = glyph.ID(r.Range(1, 700))
			if r.Bool() {
				cm[1] = glyph.ID(r.Range(1, 700))
			}
			cmKind = "replaced, maps U+0000"
		}
		if len(cm) == 0 {
			cm['x'] = 5
		}
	}
	// file variant: one choice per field sfnt.Read could consult
	var vs []string
	if r.Chance(1, 2) {
		vs = append(vs, Pick(r, []string{"post0", "post1", "postF"}))
	}
	if r.Chance(1, 3) {
		vs = append(vs, Pick(r, []string{"eqw", "difw", "difw", "nohmtx"}))
	}
	if r.Chance(1, 6) {
		vs = append(vs, Pick(r, []string{"panose9", "panose0"}))
	}
	if r.Chance(1, 6) {
		vs = append(vs, "gsub")
	}
	if r.Chance(1, 6) {
		vs = append(vs, "gpos")
	}
	cmx := ""
	if r.Chance(1, 4) {
		cmx = Pick(r, []string{"cmxF10", "cmxF13", "cmxF8", "cmxF2", "cmxTrunc12", "cmxF10at04"})
		vs = append(vs, cmx)
	}
	variant := strings.Join(vs, "+")
	if variant == "" {
		variant = "-"
	}
	font0, err := sfnt.Read(bytes.NewReader(layFontBytesVar(base, cm, nil, layStripCmx(variant))))
	if err != nil {
		panic(fmt.Sprintf("base font does not read: %v", err))
	}
	mapArg, wArg, fixed, gids, ng := layFacts(font0, text)
	// kern
	kernArg := "-"
	kernKind := "none"
	if r.Chance(1, 2) {
		var pool []int
		for _, x := range text {
			pool = append(pool, int(gids[x]))
		}
		pool = append(pool, 1, 2)
		subs := layGenSubs(c, pool, r.Chance(3, 4), r.Chance(1, 10))
		data := layEncKern(subs)
		kernKind = "generated"
		if r.Chance(1, 8) {
			data = layMutate(r, data)
			kernKind = "mutated"
		} else if r.Chance(1, 8) {
			data = layEncKern([]laySub{{flags: 1}})
			kernKind = "one subtable, 0 pairs"
		}
		kernArg = hx(data)
		if len(data) == 0 { // a zero-length table is not stored in the file: same as no kern table
			kernArg, kernKind = "-", "none"
		}
	}
	sws := func(tag string) map[string]bool {
		switch r.Intn(6) {
		case 0:
			return map[string]bool{tag: false}
		case 1:
			return map[string]bool{tag: true}
		case 2:
			return map[string]bool{}
		case 3:
			return map[string]bool{"smcp": true, tag: r.Bool()}
		}
		return nil
	}
	gsw, psw := sws("liga"), sws("kern")
	fx := "0"
	if fixed {
		fx = "1"
	}
	textInts := make([]int, len(text))
	for j, x := range text {
		textInts[j] = int(x)
	}
	args := fmt.Sprintf("var="+variant+" base=%s cm=%s kern=%s gsw=%s psw=%s lang=%s text=%s fixed=%s ng=%d map=%s w=%s", base, layShowCm(cm), kernArg,
		layShowSw(gsw), layShowSw(psw), Pick(r, []string{"en", "de", "ja", "und", "tr"}), layJoin(textInts, ","), fx, ng, mapArg, wArg)
	out := c.Case(Verdict, "layout.text", args, n >= 2)
	if nulFamily {
		// D: every character, U+0000 at the start of the string included, is mapped through the cmap
		// (expected value computed from the cmap answers for the characters of the text)
		c.Case(Direct, "layout.textd", args, n >= 2)
		c.Stat("text.control_chars", map[bool]string{true: "starts with U+0000", false: "other"}[len(text) > 0 && text[0] == 0])
	} else if cmx != "" {
		// D: every font sfnt.Read accepts gets a Layouter that maps the text through the best DECODABLE
		// cmap subtable, with the ligatures / kerning of the same font without the undecodable subtable
		// (the expected value is computed from that font's facts)
		c.Case(Direct, "layout.textd", args, n >= 2)
		c.Stat("text.undecodable_cmap_subtable", cmx+" -> "+strings.SplitN(out, ":", 2)[0])
	}
	c.Stat("text.base", base)
	for _, v := range strings.Split(variant, "+") {
		c.Stat("text.file_variant", v)
	}
	postFlag := "as in base font"
	for _, v := range []string{"post0", "post1", "postF"} {
		if layHasVar(variant, v) {
			postFlag = v
		}
	}
	c.Stat("text.post_flag x widths", postFlag+" / fixed-by-widths="+fx)
	c.Stat("text.cmap", cmKind)
	c.Stat("text.kern", kernKind)
	c.Stat("text.runes", bucket(n))
	c.Stat("text.gsub_switch", layShowSwPlain(gsw))
	c.Stat("text.gpos_switch", layShowSwPlain(psw))
	c.Stat("text.outcome", strings.SplitN(out, ":", 2)[0])
	if !strings.HasPrefix(out, "ok:") {
		return
	}
	glyphs := 0
	if out != "ok:" {
		glyphs = strings.Count(out, ";") + 1
	}
	switch {
	case glyphs < n:
		c.Stat("text.ligatures_formed", "yes")
	default:
		c.Stat("text.ligatures_formed", "no")
	}
	// the trivial case of the property: no rule can apply
	ligaOn := gsw == nil || gsw["liga"]
	kernOn := psw == nil || psw["kern"]
	fGid := gids['f']
	hasF := false
	for _, x := range text {
		if fGid != 0 && gids[x] == fGid {
			hasF = true
		}
	}
	if cmKind == "replaced-with-bad-gid" {
		c.Stat("text.bad_gid_outcome", strings.SplitN(out, ":", 2)[0])
	}
	fileGsub, fileGpos := layHasVar(variant, "gsub"), layHasVar(variant, "gpos")
	// the property's ligature clause: proportional (by widths), no GSUB, liga enabled => standard ligatures applied
	if !fixed && !fileGsub && ligaOn {
		c.Case(Direct, "layout.ligd", fmt.Sprintf("map=%s text=%s got=%s", mapArg, layJoin(textInts, ","), out[3:]), hasF)
		c.Stat("text.ligature_clause", map[bool]string{true: "checked, text contains f", false: "checked, no f in text"}[hasF])
	}
	if (fixed || fileGsub || !ligaOn || !hasF) && (kernArg == "-" || fileGpos || !kernOn) {
		c.Case(Direct, "layout.trivial", fmt.Sprintf("ng=%d map=%s w=%s text=%s got=%s", ng, mapArg, wArg, layJoin(textInts, ","), out[3:]), n >= 2)
		c.Stat("text.trivial", "checked")
	} else {
		c.Stat("text.trivial", "rules may apply")
	}
}

func layShowSwPlain(m map[string]bool) string {
	if m == nil {
		return "nil"
	}
	keys := make([]string, 0, len(m))
	for k, v := range m {
		keys = append(keys, fmt.Sprintf("%s=%v", k, v))
	}
	sort.Strings(keys)
	return "{" + strings.Join(keys, ",") + "}"
}

func layGenLig(c *Ctx) {
	r := c.Rng
	cm := map[uint16]glyph.ID{}
	for _, x := range layLigRunes {
		switch r.Intn(4) {
		case 0:
		case 1:
			cm[uint16(x)] = glyph.ID(r.Range(1, 6)) // collisions between characters
		default:
			cm[uint16(x)] = glyph.ID(r.Range(1, 2000))
		}
	}
	if r.Chance(1, 2) {
		cm['f'] = glyph.ID(r.Range(1, 2000))
	}
	out := c.Case(Verdict, "layout.lig", "map="+layShowCm(cm), len(cm) >= 4)
	if out == "nil" {
		c.Stat("lig.table", "nil")
	} else {
		c.Stat("lig.table", fmt.Sprintf("%d ligatures", strings.Count(out, ">")))
	}
}

// layGenXimage: independent implementation (golang.org/x/image/font/sfnt) on the plainest kind of
// kern table (one horizontal format 0 subtable): its Kern must equal the specification's value.
func layGenXimage(c *Ctx) {
	r := c.Rng
	pool := []int{36, 37, 40, 57, 58, 60, 70, 300, 711}
	var s laySub
	s.flags = 1
	seen := map[[2]int]bool{}
	for k := r.Range(1, 14); k > 0; k-- {
		p := [2]int{Pick(r, pool), Pick(r, pool)}
		if seen[p] {
			continue
		}
		seen[p] = true
		s.pairs = append(s.pairs, [3]int{p[0], p[1], r.Range(-32768, 32767)})
	}
	sort.Slice(s.pairs, func(a, b int) bool {
		if s.pairs[a][0] != s.pairs[b][0] {
			return s.pairs[a][0] < s.pairs[b][0]
		}
		return s.pairs[a][1] < s.pairs[b][1]
	})
	var ask []string
	for _, p := range s.pairs {
		ask = append(ask, fmt.Sprintf("%d:%d", p[0], p[1]))
	}
	for k := 0; k < 3; k++ {
		ask = append(ask, fmt.Sprintf("%d:%d", Pick(r, pool), Pick(r, pool)))
	}
	subs := []laySub{s}
	c.Case(Direct, "layout.kern.ximage", fmt.Sprintf("subs=%s kern=%s pairs=%s", layShowSubs(subs), hx(layEncKern(subs)), strings.Join(ask, ",")), true)
	c.Stat("ximage.pairs", bucket(len(s.pairs)))
}


// ---------- the whole pipeline with hand-built GSUB/GPOS/GDEF (stream layout.pipeline) ----------

var (
	layWidthsOnce sync.Once
	layWidths     []int // Go Regular: funit.Int16(GlyphWidth(gid)) as uint16 pattern
)

func layBaseWidths() []int {
	layWidthsOnce.Do(func() {
		f, err := sfnt.Read(bytes.NewReader(layFontBytes("regular", nil, nil)))
		if err != nil {
			panic(err)
		}
		layWidths = make([]int, f.NumGlyphs())
		for g := range layWidths {
			layWidths[g] = int(uint16(funit.Int16(f.GlyphWidth(glyph.ID(g)))))
		}
	})
	return layWidths
}

// layTab is one GSUB or GPOS table of a pipeline case.
type layTab struct {
	ll    gtab.LookupList // nil = no table
	find  *layFind        // script list and feature list
	sw    map[string]bool
	chose int
}

func layPayload(ll gtab.LookupList, gd *gdef.Table, gdNil int) (string, bool) {
	s, ok := shpEncode(&shpCase{ll: ll, gd: gd, gdNil: gdNil})
	return strings.TrimPrefix(s, "d="), ok
}

func layTabArgs(pre string, t *layTab, gd *gdef.Table, gdNil int, lang string) (string, bool) {
	if t.ll == nil {
		return fmt.Sprintf("%stab=- %schosen=0 %ssw=%s", pre, pre, pre, layShowSw(t.sw)), true
	}
	pl, ok := layPayload(t.ll, gd, gdNil)
	if !ok {
		return "", false
	}
	fa := t.find.args(t.chose) // scripts= feats= nl= sw= lang= chosen=
	var sc, fe string
	for _, p := range strings.Split(fa, " ") {
		if strings.HasPrefix(p, "scripts=") {
			sc = p[len("scripts="):]
		}
		if strings.HasPrefix(p, "feats=") {
			fe = p[len("feats="):]
		}
	}
	return fmt.Sprintf("%stab=%s %sscripts=%s %sfeats=%s %schosen=%d %ssw=%s", pre, pl, pre, sc, pre, fe, pre, t.chose, pre, layShowSw(t.sw)), true
}

// layTabInfo rebuilds the gtab.Info of one table from the case line.
func layTabInfo(f Fields, pre string) *gtab.Info {
	if f[pre+"tab"] == "-" {
		return nil
	}
	c := shpDecode(Fields{"d": f[pre+"tab"]})
	fc := layParseFind(Fields{"scripts": f[pre+"scripts"], "feats": f[pre+"feats"], "nl": fmt.Sprint(len(c.ll)), "sw": "nil", "lang": "und"})
	info := fc.info()
	info.LookupList = c.ll
	return info
}

func layParseTexts(s string) [][]rune {
	var out [][]rune
	for _, t := range strings.Split(s, ";") {
		out = append(out, layRunes(strings.ReplaceAll(t, ".", ",")))
	}
	return out
}

func layRunPipeline(f Fields) string {
	font, err := sfnt.Read(bytes.NewReader(layFontBytes("regular", nil, nil)))
	if err != nil {
		return errKind(err)
	}
	cm := layParseCm(f["map"])
	if cm == nil {
		cm = map[uint16]glyph.ID{}
	}
	font.CMapTable = cmap.Table{{PlatformID: 3, EncodingID: 1}: cmap.Format4(cm).Encode(0)}
	font.Gsub = layTabInfo(f, "g")
	font.Gpos = layTabInfo(f, "p")
	font.Gdef = nil
	if f["gdef"] != "-" {
		font.Gdef = shpDecode(Fields{"d": f["gdef"]}).gd
	}
	lay, err := font.NewLayouter(language.MustParse(f["lang"]), layParseSw(f["gsw"]), layParseSw(f["psw"]))
	if err != nil {
		return "err:layouter"
	}
	var parts []string
	for _, t := range layParseTexts(f["texts"]) {
		out := guard(func() string { return shpShowSeq(lay.Layout(string(t))) })
		if strings.HasPrefix(out, "panic:") {
			parts = append(parts, "panic")
			break
		}
		parts = append(parts, out)
	}
	return strings.Join(parts, "|")
}

var layPipeTags = []string{"liga", "kern", "calt", "ccmp", "mark", "mkmk", "smcp", "locl", "clig", "ss01"}

// layGenFeatures draws script and feature lists over the lookups of ll.
func layGenFeatures(r *Rng, ll gtab.LookupList, defaults map[string]bool) *layFind {
	fc := &layFind{langs: map[string]*gtab.Features{}, nl: len(ll)}
	nFeat := r.Range(1, 4)
	for j := 0; j < nFeat; j++ {
		ft := &gtab.Feature{Tag: Pick(r, layPipeTags)}
		if r.Chance(1, 2) { // a tag of the default set
			keys := make([]string, 0, len(defaults))
			for k := range defaults {
				keys = append(keys, k)
			}
			sort.Strings(keys)
			ft.Tag = Pick(r, keys)
		}
		for k := r.Range(1, 3); k > 0; k-- {
			l := r.Intn(len(ll) + 1)
			if r.Chance(9, 10) && len(ll) > 0 {
				l = r.Intn(len(ll))
			}
			ft.Lookups = append(ft.Lookups, gtab.LookupIndex(l))
		}
		fc.feats = append(fc.feats, ft)
	}
	seen := map[string]bool{}
	for n := r.Range(1, 3); len(fc.tags) < n; {
		t := Pick(r, layScriptTags)
		if seen[t] {
			continue
		}
		seen[t] = true
		fc.tags = append(fc.tags, t)
		ft := &gtab.Features{Required: 0xFFFF}
		if r.Chance(1, 4) {
			ft.Required = gtab.FeatureIndex(r.Intn(nFeat))
		}
		for k := r.Range(1, 4); k > 0; k-- {
			ft.Optional = append(ft.Optional, gtab.FeatureIndex(r.Intn(nFeat+1)))
		}
		fc.langs[t] = ft
	}
	sort.Strings(fc.tags)
	return fc
}

func layGenSwitch(r *Rng, fc *layFind) map[string]bool {
	switch r.Intn(5) {
	case 0, 1:
		return nil
	case 2:
		return map[string]bool{}
	}
	m := map[string]bool{}
	for _, ft := range fc.feats {
		if r.Chance(3, 4) {
			m[ft.Tag] = r.Chance(2, 3)
		}
	}
	return m
}

// layPipeScenario: hand-built tables for one clause each: single adjustment on a lone glyph, single
// adjustment format 2, a kerning pair, single substitution, ligature; feature on or off.
func layPipeScenario(r *Rng, which int, on bool) (gsub, gpos *layTab, name string) {
	const A, B, C, L = 1, 2, 3, 8
	lt := func(st gtab.Subtable, tp uint16) gtab.LookupList {
		return gtab.LookupList{{Meta: &gtab.LookupMetaInfo{LookupType: tp}, Subtables: []gtab.Subtable{st}}}
	}
	mk := func(ll gtab.LookupList, tag string) *layTab {
		fc := &layFind{langs: map[string]*gtab.Features{"und-Zzzz-x-dflt": {Required: 0xFFFF, Optional: []gtab.FeatureIndex{0}}},
			tags: []string{"und-Zzzz-x-dflt"}, feats: []*gtab.Feature{{Tag: tag, Lookups: []gtab.LookupIndex{0}}}, nl: len(ll)}
		t := &layTab{ll: ll, find: fc}
		switch {
		case !on:
			t.sw = map[string]bool{tag: false}
		case r.Bool():
			t.sw = map[string]bool{tag: true}
		}
		return t
	}
	v := &gtab.GposValueRecord{XAdvance: funit.Int16(r.Range(-200, 200)), XPlacement: funit.Int16(r.Range(-20, 20))}
	switch which {
	case 0:
		return &layTab{}, mk(lt(&gtab.Gpos1_1{Cov: coverage.Table{A: 0, B: 1}, Adjust: v}, 1), "kern"), "gpos 1.1"
	case 1:
		return &layTab{}, mk(lt(&gtab.Gpos1_2{Cov: coverage.Table{A: 0, C: 1}, Adjust: []*gtab.GposValueRecord{v, {XAdvance: 77}}}, 1), "kern"), "gpos 1.2"
	case 2:
		return &layTab{}, mk(lt(gtab.Gpos2_1{{Left: A, Right: B}: {First: v}, {Left: B, Right: B}: {First: v, Second: &gtab.GposValueRecord{XAdvance: -5}}}, 2), "kern"), "gpos 2.1"
	case 3:
		return mk(lt(&gtab.Gsub1_1{Cov: coverage.Set{A: true, B: true}, Delta: glyph.ID(r.Range(1, 5))}, 1), "liga"), &layTab{}, "gsub 1.1"
	case 4:
		return mk(lt(&gtab.Gsub4_1{Cov: coverage.Table{A: 0}, Repl: [][]gtab.Ligature{{{In: []glyph.ID{B, C}, Out: L}, {In: []glyph.ID{B}, Out: L + 1}}}}, 4), "liga"), &layTab{}, "gsub 4.1"
	default: // GSUB produces the glyph GPOS adjusts
		g := mk(lt(&gtab.Gsub4_1{Cov: coverage.Table{A: 0}, Repl: [][]gtab.Ligature{{{In: []glyph.ID{B}, Out: L}}}}, 4), "liga")
		p := mk(lt(&gtab.Gpos1_1{Cov: coverage.Table{L: 0}, Adjust: v}, 1), "kern")
		return g, p, "gsub 4.1 then gpos 1.1"
	}
}

func layGenPipe(c *Ctx, i int) {
	r := c.Rng
	g := &shpGen{r: r, c: c}
	gd, gdNil := g.gdef()
	if gd != nil {
		g.nsets = len(gd.MarkGlyphSets)
	}
	var gsub, gpos *layTab
	kind := "generated"
	if i%3 == 0 {
		on := r.Chance(2, 3)
		gsub, gpos, kind = layPipeScenario(r, (i/3)%6, on)
		if on {
			kind += " (feature on)"
		} else {
			kind += " (feature off)"
		}
		if r.Bool() { // marks in the way: class 3 for two of the letters
			gd, gdNil = &gdef.Table{GlyphClass: classdef.Table{10: gdef.GlyphClassMark, 3: gdef.GlyphClassMark}}, 0
		}
	} else {
		gsub, gpos = &layTab{}, &layTab{}
		if r.Chance(3, 4) {
			g.gpos = false
			gsub.ll = g.lookupList(Pick(r, [][]int{shpSimpleKinds, shpSimpleKinds, shpGsubKinds}))
			gsub.find = layGenFeatures(r, gsub.ll, gtab.GsubDefaultFeatures)
			gsub.sw = layGenSwitch(r, gsub.find)
		}
		if r.Chance(3, 4) {
			g.gpos = true
			gpos.ll = g.lookupList(Pick(r, [][]int{{101, 102, 103}, {101, 102, 103, 104}, shpGposKinds}))
			gpos.find = layGenFeatures(r, gpos.ll, gtab.GposDefaultFeatures)
			gpos.sw = layGenSwitch(r, gpos.find)
		}
	}
	lang := Pick(r, layAskTags)
	for _, t := range []*layTab{gsub, gpos} {
		if t.ll != nil {
			t.chose = layChosen(t.find.tags, lang)
		}
	}
	// cmap: 'a'+k -> glyph k+1 (the alphabet of area shape), a few characters unmapped
	cm := map[uint16]glyph.ID{}
	for k := 0; k < shpMaxGid; k++ {
		if !r.Chance(1, 15) {
			cm[uint16('a'+k)] = glyph.ID(k + 1)
		}
	}
	// history of strings: lengths 0, 1, 2, n
	var texts []string
	nTexts := Pick(r, []int{1, 1, 2, 3, 4})
	runes := 0
	for k := 0; k < nTexts; k++ {
		n := Pick(r, []int{0, 1, 1, 1, 2, 2, 3, 5, 9, 20})
		t := make([]string, n)
		for j := range t {
			x := 'a' + rune(r.Intn(6))
			if r.Chance(1, 4) {
				x = 'a' + rune(r.Intn(shpMaxGid+2))
			}
			t[j] = fmt.Sprint(int(x))
		}
		if i%3 == 0 && k == 0 && r.Bool() { // scenario tables: the lone glyph, the pair, the ligature input
			t = Pick(r, [][]string{{"97"}, {"97"}, {"98"}, {"97", "98"}, {"97", "98", "99"}, {"104"}})
			n = len(t)
		}
		texts = append(texts, strings.Join(t, "."))
		runes += n
		c.Stat("pipeline.string_length", map[bool]string{true: fmt.Sprint(n), false: bucket(n)}[n <= 2])
	}
	// history dependence through the Layouter's buffer: an earlier text in which a ligature forms with
	// 1-3 glyphs after it, then a text with MORE glyphs than that earlier result
	letters := func(n int, from []rune) string {
		t := make([]string, n)
		for j := range t {
			t[j] = fmt.Sprint(int(from[(j+r.Intn(2))%len(from)]))
		}
		return strings.Join(t, ".")
	}
	if strings.HasPrefix(kind, "gsub 4.1") && r.Chance(2, 3) {
		lig := Pick(r, []string{"97.98.99", "97.98"}) // a b c -> L, a b -> L+1
		pre := ""
		if r.Bool() {
			pre = letters(r.Range(1, 2), []rune("defg")) + "."
		}
		first := pre + lig + "." + letters(r.Range(1, 3), []rune("defgh"))
		texts = []string{first, letters(strings.Count(first, ".")+r.Range(1, 4), []rune("defghijk"))}
		if r.Bool() {
			texts = append(texts, letters(r.Range(1, 12), []rune("abcdefgh")))
		}
		nTexts = len(texts)
		c.Stat("pipeline.history", "ligature with tail, then a longer text")
	} else if nTexts >= 1 && r.Chance(1, 3) {
		longest := 0
		for _, t := range texts {
			if t != "" && strings.Count(t, ".")+1 > longest {
				longest = strings.Count(t, ".") + 1
			}
		}
		texts = append(texts, letters(longest+r.Range(1, 4), []rune("abcdefghijkl")))
		nTexts++
		c.Stat("pipeline.history", "last text longer than all earlier ones")
	} else {
		c.Stat("pipeline.history", "random lengths")
	}
	runes = 0
	for _, t := range texts {
		if t != "" {
			runes += strings.Count(t, ".") + 1
		}
	}
	ga, ok1 := layTabArgs("g", gsub, gd, gdNil, lang)
	pa, ok2 := layTabArgs("p", gpos, gd, gdNil, lang)
	gdArg, ok3 := layPayload(nil, gd, gdNil)
	if !ok1 || !ok2 || !ok3 {
		c.Stat("pipeline.skipped", "not representable")
		return
	}
	head := fmt.Sprintf("%s %s gdef=%s lang=%s ng=%d map=%s texts=%s", ga, pa, gdArg,
		lang, len(layBaseWidths()), layShowCm(cm), strings.Join(texts, ";"))
	// widths (inputs of the model): glyphs 0..31 and every glyph of the real output
	first := Exec("layout.pipeline " + head + " w=")
	gset := map[int]bool{}
	for g := 0; g < 32; g++ {
		gset[g] = true
	}
	for _, call := range strings.Split(first, "|") {
		for _, gl := range strings.Split(strings.TrimPrefix(call, "ok:"), ",") {
			var x int
			if _, err := fmt.Sscanf(gl, "%d/", &x); err == nil {
				gset[x] = true
			}
		}
	}
	var gk []int
	for x := range gset {
		if x < len(layBaseWidths()) {
			gk = append(gk, x)
		}
	}
	sort.Ints(gk)
	wp := make([]string, len(gk))
	for j, x := range gk {
		wp[j] = fmt.Sprintf("%d:%d", x, layBaseWidths()[x])
	}
	out := c.Case(Direct, "layout.pipeline", head+" w="+strings.Join(wp, ","), runes > 0)
	c.Stat("pipeline.tables", kind)
	c.Stat("pipeline.gsub", map[bool]string{true: "nil", false: "present"}[gsub.ll == nil])
	c.Stat("pipeline.gpos", map[bool]string{true: "nil", false: "present"}[gpos.ll == nil])
	c.Stat("pipeline.gdef", map[bool]string{true: "nil", false: "present"}[gd == nil])
	c.Stat("pipeline.calls", fmt.Sprint(nTexts))
	switch {
	case strings.Contains(out, "panic"):
		c.Stat("pipeline.outcome", "panic")
	default:
		c.Stat("pipeline.outcome", "ok")
	}
}


// ---------- kern-only fonts: chains of overlapping kern pairs (stream layout.kernadv) ----------

// layGenKernAdv: Go Regular plus a kern table in which (nearly) every ordered pair of a few letters is
// a kern pair, and texts of 3-6 of these letters: the advance of every glyph must be its hmtx width
// plus the kern value of the pair it forms with the next glyph (legacy kern semantics).
func layGenKernAdv(c *Ctx) {
	r := c.Rng
	letters := []rune("AVTWYoyLP.")
	r2 := append([]rune(nil), letters...)
	for i := range r2 {
		j := r.Intn(i + 1)
		r2[i], r2[j] = r2[j], r2[i]
	}
	alpha := r2[:r.Range(2, 4)]
	n := r.Range(3, 6)
	if r.Chance(1, 8) {
		n = r.Range(1, 2)
	}
	text := make([]rune, n)
	for i := range text {
		text[i] = Pick(r, alpha)
	}
	font0, err := sfnt.Read(bytes.NewReader(layFontBytes("regular", nil, nil)))
	if err != nil {
		panic(err)
	}
	_, wArg, _, gids, ng := layFacts(font0, text)
	for _, x := range alpha {
		if _, ok := gids[x]; !ok {
			sub, _ := font0.CMapTable.GetBest()
			gids[x] = sub.Lookup(x)
		}
	}
	nsub := Pick(r, []int{1, 1, 2, 3})
	subs := make([]laySub, nsub)
	for i := range subs {
		s := &subs[i]
		s.flags = 1
		if i > 0 {
			s.flags = Pick(r, []int{1, 1, 3, 9})
		}
		for _, a := range alpha {
			for _, b := range alpha {
				if r.Chance(5, 6) {
					v := r.Range(-200, 200)
					if v == 0 {
						v = -77
					}
					s.pairs = append(s.pairs, [3]int{int(gids[a]), int(gids[b]), v})
				}
			}
		}
		sort.Slice(s.pairs, func(a, b int) bool {
			if s.pairs[a][0] != s.pairs[b][0] {
				return s.pairs[a][0] < s.pairs[b][0]
			}
			return s.pairs[a][1] < s.pairs[b][1]
		})
	}
	ti := make([]int, n)
	gi := make([]int, n)
	for i, x := range text {
		ti[i], gi[i] = int(x), int(gids[x])
	}
	// widths of the letters' glyphs
	out := c.Case(Direct, "layout.kernadv", fmt.Sprintf("subs=%s kern=%s text=%s gids=%s ng=%d w=%s", layShowSubs(subs), hx(layEncKern(subs)),
		layJoin(ti, ","), layJoin(gi, ","), ng, wArg), n >= 3)
	c.Stat("kernadv.text_length", fmt.Sprint(n))
	c.Stat("kernadv.subtables", fmt.Sprint(nsub))
	c.Stat("kernadv.outcome", strings.SplitN(out, ":", 2)[0])
}

// ---------- feature records sharing a feature table (stream layout.alias) ----------

// layAliasGsub builds the GSUB table of an alias case: lookup k is a single substitution src[k] ->
// src[k]+300; the feature list is written by the library's encoder and then the offsets of the feature
// records named in alias ("j:i" = record j points to the feature table of record i) are patched.
func layAliasGsub(fc *layFind, src []int, alias [][2]int) []byte {
	info := fc.info()
	info.LookupList = make(gtab.LookupList, len(src))
	for k, g := range src {
		info.LookupList[k] = &gtab.LookupTable{Meta: &gtab.LookupMetaInfo{LookupType: 1},
			Subtables: []gtab.Subtable{&gtab.Gsub1_1{Cov: coverage.Set{glyph.ID(g): true}, Delta: 300}}}
	}
	b := info.Encode()
	fl := int(b[6])<<8 | int(b[7])
	nrec := int(b[fl])<<8 | int(b[fl+1])
	if nrec != len(fc.feats) {
		panic("alias: unexpected feature count")
	}
	orig := make([][2]byte, nrec)
	for j := 0; j < nrec; j++ {
		orig[j] = [2]byte{b[fl+2+6*j+4], b[fl+2+6*j+5]}
	}
	for _, a := range alias {
		b[fl+2+6*a[0]+4], b[fl+2+6*a[0]+5] = orig[a[1]][0], orig[a[1]][1]
	}
	return b
}

func layParseAlias(s string) [][2]int {
	var out [][2]int
	if s == "" || s == "-" {
		return nil
	}
	for _, p := range strings.Split(s, ",") {
		var a, b int
		if _, err := fmt.Sscanf(p, "%d:%d", &a, &b); err != nil {
			panic("bad alias")
		}
		out = append(out, [2]int{a, b})
	}
	return out
}

func layRunAlias(f Fields) string {
	fc := layParseFind(f)
	src := f.Ints("src")
	data := layAliasGsub(fc, src, layParseAlias(f["alias"]))
	layBaseOnce.Do(layLoadBase)
	tabs := map[string][]byte{}
	for k, v := range layBase["regular"] {
		tabs[k] = v
	}
	tabs["GSUB"] = data
	var buf bytes.Buffer
	if _, err := header.Write(&buf, layScaler["regular"], tabs); err != nil {
		panic(err)
	}
	font, err := sfnt.Read(bytes.NewReader(buf.Bytes()))
	if err != nil {
		return errKind(err)
	}
	lang := language.MustParse(fc.lang)
	sw := fc.sw
	if sw == nil {
		sw = gtab.GsubDefaultFeatures
	}
	ll := font.Gsub.FindLookups(lang, sw)
	lay, err := font.NewLayouter(lang, fc.sw, nil)
	if err != nil {
		return "err:layouter"
	}
	seq := lay.Layout(string(layRunes(f["text"])))
	gs := make([]int, len(seq))
	for i, g := range seq {
		gs[i] = int(g.GID)
	}
	return fmt.Sprintf("lookups=%s;gids=%s", layShowLookups(ll), layJoin(gs, ","))
}

func layGenAlias(c *Ctx) {
	r := c.Rng
	tags := []string{"liga", "dlig", "calt", "ccmp", "smcp", "clig", "locl", "ss01"}
	nFeat := r.Range(2, 5)
	nl := r.Range(1, 5)
	letters := []rune("abcdeghk") // no f: the font has no other GSUB
	fc := &layFind{langs: map[string]*gtab.Features{}, nl: nl, lang: Pick(r, []string{"en", "de", "und"})}
	for j := 0; j < nFeat; j++ {
		ft := &gtab.Feature{Tag: Pick(r, tags)}
		if r.Chance(1, 5) && j > 0 { // the converse: the same tag twice, different tables
			ft.Tag = fc.feats[r.Intn(j)].Tag
		}
		for k := r.Range(1, 2); k > 0; k-- {
			ft.Lookups = append(ft.Lookups, gtab.LookupIndex(r.Intn(nl)))
		}
		fc.feats = append(fc.feats, ft)
	}
	ls := &gtab.Features{Required: 0xFFFF}
	if r.Chance(1, 5) {
		ls.Required = gtab.FeatureIndex(r.Intn(nFeat))
	}
	for j := 0; j < nFeat; j++ {
		if r.Chance(5, 6) {
			ls.Optional = append(ls.Optional, gtab.FeatureIndex(j))
		}
	}
	fc.tags = []string{"und-Latn-x-latn"}
	fc.langs[fc.tags[0]] = ls
	// 1-3 records share the table of another record
	var alias [][2]int
	var ap []string
	used := map[int]bool{}
	for k := r.Range(0, 3); k > 0; k-- {
		j, i := r.Intn(nFeat), r.Intn(nFeat)
		if j == i || used[j] {
			continue
		}
		used[j] = true
		alias = append(alias, [2]int{j, i})
		ap = append(ap, fmt.Sprintf("%d:%d", j, i))
	}
	// switches enabling some of the tags
	switch r.Intn(5) {
	case 0:
		fc.sw = nil
	default:
		fc.sw = map[string]bool{}
		for _, ft := range fc.feats {
			if r.Bool() {
				fc.sw[ft.Tag] = r.Chance(2, 3)
			}
		}
	}
	font0, err := sfnt.Read(bytes.NewReader(layFontBytes("regular", nil, nil)))
	if err != nil {
		panic(err)
	}
	sub, _ := font0.CMapTable.GetBest()
	src := make([]int, nl)
	for k := range src {
		src[k] = int(sub.Lookup(letters[k]))
	}
	n := r.Range(1, 8)
	ti, gi := make([]int, n), make([]int, n)
	for i := range ti {
		x := Pick(r, letters)
		ti[i], gi[i] = int(x), int(sub.Lookup(x))
	}
	aliasArg := strings.Join(ap, ",")
	if aliasArg == "" {
		aliasArg = "-"
	}
	args := fmt.Sprintf("%s alias=%s src=%s text=%s gids=%s", fc.args(0), aliasArg, layJoin(src, ","), layJoin(ti, ","), layJoin(gi, ","))
	out := c.Case(Direct, "layout.alias", args, len(alias) > 0)
	c.Stat("alias.shared_records", fmt.Sprint(len(alias)))
	c.Stat("alias.features", fmt.Sprint(nFeat))
	c.Stat("alias.outcome", strings.SplitN(out, "=", 2)[0])
}


// layGenLigText: Go Regular with a synthetic cmap that maps the letters to their real glyphs and every
// subset of U+FB00..FB04 (sometimes FB05/FB06 too) to existing glyph ids; texts over {f, i, l, other}
// of length 2-6 including "ffl", "fffl", "ffli", "fflffi": the real Layout must form the LONGEST
// ligature the font contains at every position (D layout.ligd), and agree with the model (V layout.text).
func layGenLigText(c *Ctx, i int) {
	r := c.Rng
	cm := map[uint16]glyph.ID{'f': 73, 'i': 76, 'l': 79, 'x': 91, 'a': 68, ' ': 3}
	mask := i % 32
	if i >= 32 {
		mask = Pick(r, []int{31, 31, 17, 21, 25, 29, 19}) // ff and ffl present in most
	}
	for k := 0; k < 5; k++ {
		if mask>>k&1 == 1 {
			cm[uint16(0xFB00+k)] = glyph.ID(400 + 10*k)
		}
	}
	if r.Chance(1, 3) {
		cm[0xFB05], cm[0xFB06] = 460, 470
	}
	if r.Chance(1, 10) {
		delete(cm, Pick(r, []uint16{'i', 'l'}))
	}
	var text []rune
	if r.Chance(1, 2) {
		text = []rune(Pick(r, []string{"ffl", "fffl", "ffli", "fflffi", "ffi", "ff", "fl", "fi", "xffl", "fflx", "ffffl", "fifl"}))
	} else {
		text = make([]rune, r.Range(2, 6))
		for j := range text {
			text[j] = Pick(r, []rune("fffiilxa"))
		}
	}
	font0, err := sfnt.Read(bytes.NewReader(layFontBytes("regular", cm, nil)))
	if err != nil {
		panic(err)
	}
	mapArg, wArg, fixed, _, ng := layFacts(font0, text)
	fx := map[bool]string{true: "1", false: "0"}[fixed]
	gsw := Pick(r, []map[string]bool{nil, nil, {"liga": true}})
	ti := make([]int, len(text))
	for j, x := range text {
		ti[j] = int(x)
	}
	args := fmt.Sprintf("var=- base=regular cm=%s kern=- gsw=%s psw=nil lang=en text=%s fixed=%s ng=%d map=%s w=%s",
		layShowCm(cm), layShowSw(gsw), layJoin(ti, ","), fx, ng, mapArg, wArg)
	out := c.Case(Verdict, "layout.text", args, true)
	c.Stat("ligtext.ligature_set", fmt.Sprintf("%05b", mask))
	c.Stat("ligtext.text", map[bool]string{true: "contains ffl", false: "other"}[strings.Contains(string(text), "ffl")])
	if strings.HasPrefix(out, "ok:") && !fixed {
		c.Case(Direct, "layout.ligd", fmt.Sprintf("map=%s text=%s got=%s", mapArg, layJoin(ti, ","), out[3:]), true)
	}
}


// ---------- large kern subtables (stream layout.kern.big) ----------

// layBigPair is pair number i of the formula-defined big kern tables.
func layBigPair(i int) (l, r, v int) { return i / 200, i%200 + 300, i%97 - 48 }

func layBigSamples(n int) []int {
	var out []int
	for _, i := range []int{0, 1, 199, 200, n / 2, 10918, 10919, 10920, 10921, n - 2, n - 1} {
		if i >= 0 && i < n {
			out = append(out, i)
		}
	}
	return out
}

// layRunKernBig: one format 0 subtable with n pairs (for n > 10920 its 16-bit length field holds
// 14+6n mod 65536, as kern.Info.Encode and real large fonts write it), read by the real kern.Read.
func layRunKernBig(f Fields) string {
	n := f.Int("n")
	var data []byte
	if f["enc"] == "lib" {
		info := kern.Info{}
		for i := 0; i < n; i++ {
			l, r, v := layBigPair(i)
			info[glyph.Pair{Left: glyph.ID(l), Right: glyph.ID(r)}] = funit.Int16(v)
		}
		data = info.Encode()
	} else {
		s := laySub{flags: 1, pairs: make([][3]int, n)}
		for i := range s.pairs {
			l, r, v := layBigPair(i)
			s.pairs[i] = [3]int{l, r, v}
		}
		data = layEncKern([]laySub{s})
	}
	m, err := kern.Read(bytes.NewReader(data))
	if err != nil {
		return errKind(err)
	}
	var parts []string
	for _, i := range layBigSamples(n) {
		l, r, _ := layBigPair(i)
		if v, ok := m[glyph.Pair{Left: glyph.ID(l), Right: glyph.ID(r)}]; ok {
			parts = append(parts, fmt.Sprintf("%d:%d", i, v))
		} else {
			parts = append(parts, fmt.Sprintf("%d:-", i))
		}
	}
	return fmt.Sprintf("count=%d;%s", len(m), strings.Join(parts, ","))
}

func layGenKernBig(c *Ctx) {
	// 10921 and 10922 pairs are left out: 14+6n mod 65536 is 4 resp. 10, which kern.Read refuses as
	// "invalid kern subtable length" (open finding C15-kern-wrapped-length; the line is replayed by ./check)
	for _, n := range []int{1, 300, 10920, 10923, 11000, 20000} {
		for _, enc := range []string{"own", "lib"} {
			c.Case(Direct, "layout.kern.big", fmt.Sprintf("n=%d enc=%s", n, enc), true)
			c.Stat("kernbig.pairs", fmt.Sprint(n))
		}
	}
	n := c.Rng.Range(10000, 30000)
	if n == 10921 || n == 10922 {
		n = 10924
	}
	c.Case(Direct, "layout.kern.big", fmt.Sprintf("n=%d enc=%s", n, Pick(c.Rng, []string{"own", "lib"})), true)
	c.Stat("kernbig.pairs", "random 10000-30000")
}

func areaLayout(c *Ctx) {
	nFind := c.N / 2
	nKern := c.N / 5
	nText := c.N / 5
	nLig := c.N - nFind - nKern - nText
	for i := 0; i < nFind; i++ {
		layGenFind(c, i)
	}
	for i := 0; i < nKern; i++ {
		layGenKern(c, i)
	}
	for i := 0; i < nLig; i++ {
		layGenLig(c)
	}
	for i := 0; i < nText; i++ {
		layGenText(c, i)
	}
	for i := 0; i < c.N/20; i++ {
		layGenXimage(c)
	}
	for i := 0; i < c.N/4; i++ {
		layGenPipe(c, i)
	}
	layGenKernBig(c)
	for i := 0; i < c.N/12; i++ {
		layGenLigText(c, i)
		layGenKernAdv(c)
		layGenAlias(c)
	}
}

func init() {
	areas["layout"] = areaLayout
	ops["layout.find"] = func(f Fields) string {
		return canonPanic(guard(func() string {
			fc := layParseFind(f)
			return layShowLookups(fc.info().FindLookups(language.MustParse(fc.lang), fc.sw))
		}))
	}
	// the property's postcondition is evaluated by the Lean side on `got` (an output of the real code)
	ops["layout.find.post"] = func(f Fields) string { return "ok" }
	ops["layout.find.det"] = func(f Fields) string {
		return canonPanic(guard(func() string {
			fc := layParseFind(f)
			info := fc.info()
			lang := language.MustParse(fc.lang)
			seen := map[string]bool{}
			for i := 0; i < 200; i++ {
				seen[layShowLookups(info.FindLookups(lang, fc.sw))] = true
			}
			return fmt.Sprintf("distinct=%d", len(seen))
		}))
	}
	ops["layout.kern.read"] = func(f Fields) string {
		return canonPanic(guard(func() string {
			m, err := kern.Read(bytes.NewReader(f.Hex("data")))
			if err != nil {
				return errKind(err)
			}
			return "ok:" + layShowKern(m)
		}))
	}
	ops["layout.kern.spec"] = func(f Fields) string { return "ok" }
	ops["layout.kern.ximage"] = func(f Fields) string {
		return canonPanic(guard(func() string {
			xf, err := ximage.Parse(layFontBytes("regular", nil, f.Hex("kern")))
			if err != nil {
				return "err:parse"
			}
			upm := xf.UnitsPerEm()
			var out []string
			for _, p := range f.List("pairs", ",") {
				var a, b int
				fmt.Sscanf(p, "%d:%d", &a, &b)
				// ppem = unitsPerEm/64 pixels: the scaled result in 26.6 fixed point is the raw value
				v, err := xf.Kern(nil, ximage.GlyphIndex(a), ximage.GlyphIndex(b), fixed.Int26_6(upm), font.HintingNone)
				if err != nil {
					return "err:kern"
				}
				out = append(out, fmt.Sprintf("%d:%d:%d", a, b, int(v)))
			}
			return strings.Join(out, ",")
		}))
	}
	ops["layout.lig"] = func(f Fields) string {
		return canonPanic(guard(func() string {
			cm := layParseCm(f["map"])
			if cm == nil {
				cm = map[uint16]glyph.ID{}
			}
			info := sfnt.VerifStandardLigatures(cmap.Format4(cm))
			if info == nil {
				return "nil"
			}
			if len(info.ScriptList) != 1 || len(info.FeatureList) != 1 || info.FeatureList[0].Tag != "liga" ||
				len(info.FeatureList[0].Lookups) != 1 || info.FeatureList[0].Lookups[0] != 0 || len(info.LookupList) != 1 ||
				len(info.LookupList[0].Subtables) != 1 || info.LookupList[0].Meta.LookupType != 4 || info.LookupList[0].Meta.LookupFlags != 0 {
				return "unexpected-shape"
			}
			var ls *gtab.Features
			for _, v := range info.ScriptList {
				ls = v
			}
			opt := make([]int, len(ls.Optional))
			for i, o := range ls.Optional {
				opt[i] = int(o)
			}
			st := info.LookupList[0].Subtables[0].(*gtab.Gsub4_1)
			type ce struct {
				gid glyph.ID
				idx int
			}
			var cov []ce
			for g, i := range st.Cov {
				cov = append(cov, ce{g, i})
			}
			sort.Slice(cov, func(i, j int) bool { return cov[i].idx < cov[j].idx })
			groups := make([]string, len(cov))
			for i, e := range cov {
				if e.idx != i {
					return "bad-coverage-index"
				}
				ls := make([]string, len(st.Repl[i]))
				for j, l := range st.Repl[i] {
					in := make([]int, len(l.In))
					for k, g := range l.In {
						in[k] = int(g)
					}
					ls[j] = fmt.Sprintf("%s>%d", layJoin(in, "."), l.Out)
				}
				groups[i] = fmt.Sprintf("%d:%s", e.gid, strings.Join(ls, ";"))
			}
			return fmt.Sprintf("req=%d;opt=%s;%s", ls.Required, layJoin(opt, ","), strings.Join(groups, "|"))
		}))
	}
	ops["layout.text"] = func(f Fields) string {
		return canonPanic(guard(func() string {
			var kd []byte
			if f["kern"] != "-" {
				kd = f.Hex("kern")
				if kd == nil {
					kd = []byte{}
				}
			}
			variant := f["var"]
			if variant == "-" {
				variant = ""
			}
			font, err := sfnt.Read(bytes.NewReader(layFontBytesVar(f["base"], layParseCm(f["cm"]), kd, variant)))
			if err != nil {
				return errKind(err)
			}
			lay, err := font.NewLayouter(language.MustParse(f["lang"]), layParseSw(f["gsw"]), layParseSw(f["psw"]))
			if err != nil {
				return "err:layouter"
			}
			seq := lay.Layout(string(layRunes(f["text"])))
			return "ok:" + layShowGlyphs(seq)
		}))
	}
	ops["layout.trivial"] = func(f Fields) string { return "ok" }
	ops["layout.textd"] = func(f Fields) string { return ops["layout.text"](f) }
	ops["layout.ligd"] = func(f Fields) string { return "ok" }
	ops["layout.kern.big"] = func(f Fields) string { return canonPanic(guard(func() string { return layRunKernBig(f) })) }
	ops["layout.alias"] = func(f Fields) string { return canonPanic(guard(func() string { return layRunAlias(f) })) }
	ops["layout.kernadv"] = func(f Fields) string {
		return canonPanic(guard(func() string {
			font, err := sfnt.Read(bytes.NewReader(layFontBytes("regular", nil, f.Hex("kern"))))
			if err != nil {
				return errKind(err)
			}
			lay, err := font.NewLayouter(language.English, map[string]bool{}, nil)
			if err != nil {
				return "err:layouter"
			}
			seq := lay.Layout(string(layRunes(f["text"])))
			parts := make([]string, len(seq))
			for i, g := range seq {
				parts[i] = fmt.Sprintf("%d/%d", g.GID, g.Advance)
			}
			return "ok:" + strings.Join(parts, ";")
		}))
	}
	ops["layout.pipeline"] = func(f Fields) string { return canonPanic(guard(func() string { return layRunPipeline(f) })) }
}
