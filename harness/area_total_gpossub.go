package main

// Area `total`, group `gpossub` (property C02): verdict streams of the checked-index Lean models
// of the GPOS subtable readers of lookup types 1-3 (readGpos1_1, 1_2, 2_1, 2_2, 3_1 through
// readGposSubtable), of anchor.Read and of markarray.Read.
//
//   tmgpossub.read      bytes=<hex> pos=<n> type=<t>   gtab.VerifReadGposSubtable(bytes, pos, t)  (t = 1, 2, 3, 5)
//   tmgpossub.anchor    bytes=<hex> pos=<n>            anchor.Read(parser, pos)
//   tmgpossub.markarray bytes=<hex> pos=<n> num=<int>  markarray.Read(parser, pos, num)
//
// Outcome: err:io | err:invalid | err:unsupported | err:other (lookup type 4-9 with a format of a
// GPOS reader outside this group; types and formats above 9 are err:invalid since /repo 8867078) | panic | "ok:" + canonical value: a value record is
// "-" (nil) or its eight 16-bit fields joined by "."; coverage "s-e:i" runs, set "s-e" runs,
// classdef "s-e:c" runs; GPOS 2.1 is the decoded map sorted by (first, second).
// The generator registers itself in totalModelGens["gpossub"] and is called from areaTotal.

import (
	"bytes"
	"sort"
	"strconv"
	"strings"

	"seehuhn.de/go/sfnt/glyph"
	"seehuhn.de/go/sfnt/opentype/anchor"
	"seehuhn.de/go/sfnt/opentype/classdef"
	"seehuhn.de/go/sfnt/opentype/coverage"
	"seehuhn.de/go/sfnt/opentype/gtab"
	"seehuhn.de/go/sfnt/opentype/markarray"
	"seehuhn.de/go/sfnt/parser"
)

// totalGpossubW encodes big-endian 16-bit words (values are taken modulo 65536).
func totalGpossubW(ws ...int) []byte {
	b := make([]byte, 0, 2*len(ws))
	for _, w := range ws {
		b = append(b, byte(w>>8), byte(w))
	}
	return b
}

func totalGpossubCat(parts ...[]byte) []byte {
	var b []byte
	for _, p := range parts {
		b = append(b, p...)
	}
	return b
}

func totalGpossubShowCoverage(t coverage.Table) string {
	keys := make([]int, 0, len(t))
	for g := range t {
		keys = append(keys, int(g))
	}
	sort.Ints(keys)
	var sb strings.Builder
	for i := 0; i < len(keys); {
		j := i
		for j+1 < len(keys) && keys[j+1] == keys[j]+1 && t[glyph.ID(keys[j+1])] == t[glyph.ID(keys[j])]+1 {
			j++
		}
		if sb.Len() > 0 {
			sb.WriteByte(',')
		}
		sb.WriteString(strconv.Itoa(keys[i]) + "-" + strconv.Itoa(keys[j]) + ":" + strconv.Itoa(t[glyph.ID(keys[i])]))
		i = j + 1
	}
	return sb.String()
}

func totalGpossubShowSet(s coverage.Set) string {
	keys := make([]int, 0, len(s))
	for g := range s {
		keys = append(keys, int(g))
	}
	sort.Ints(keys)
	var sb strings.Builder
	for i := 0; i < len(keys); {
		j := i
		for j+1 < len(keys) && keys[j+1] == keys[j]+1 {
			j++
		}
		if sb.Len() > 0 {
			sb.WriteByte(',')
		}
		sb.WriteString(strconv.Itoa(keys[i]) + "-" + strconv.Itoa(keys[j]))
		i = j + 1
	}
	return sb.String()
}

func totalGpossubShowClassDef(t classdef.Table) string {
	arr := new([65536]uint16)
	for g, cl := range t {
		arr[int(g)&0xffff] = cl
	}
	var sb strings.Builder
	for i := 0; i < 65536; {
		if arr[i] == 0 {
			i++
			continue
		}
		j := i
		for j+1 < 65536 && arr[j+1] == arr[i] {
			j++
		}
		if sb.Len() > 0 {
			sb.WriteByte(',')
		}
		sb.WriteString(strconv.Itoa(i) + "-" + strconv.Itoa(j) + ":" + strconv.Itoa(int(arr[i])))
		i = j + 1
	}
	return sb.String()
}

func totalGpossubShowVR(v *gtab.GposValueRecord) string {
	if v == nil {
		return "-"
	}
	fs := []int{int(uint16(v.XPlacement)), int(uint16(v.YPlacement)), int(uint16(v.XAdvance)), int(uint16(v.YAdvance)),
		int(v.XPlacementDevOffs), int(v.YPlacementDevOffs), int(v.XAdvanceDevOffs), int(v.YAdvanceDevOffs)}
	ss := make([]string, len(fs))
	for i, f := range fs {
		ss[i] = strconv.Itoa(f)
	}
	return strings.Join(ss, ".")
}

func totalGpossubShowAnchor(a anchor.Table) string {
	return strconv.Itoa(int(uint16(a.X))) + "." + strconv.Itoa(int(uint16(a.Y)))
}

func totalGpossubShowPA(pa *gtab.PairAdjust) string {
	if pa == nil {
		return "nil"
	}
	return totalGpossubShowVR(pa.First) + "|" + totalGpossubShowVR(pa.Second)
}

func totalGpossubShowSub(st gtab.Subtable) string {
	switch l := st.(type) {
	case *gtab.Gpos1_1:
		return "1.1 cov=" + totalGpossubShowCoverage(l.Cov) + ";vr=" + totalGpossubShowVR(l.Adjust)
	case *gtab.Gpos1_2:
		ss := make([]string, len(l.Adjust))
		for i, v := range l.Adjust {
			ss[i] = totalGpossubShowVR(v)
		}
		return "1.2 cov=" + totalGpossubShowCoverage(l.Cov) + ";vrs=" + strings.Join(ss, ",")
	case gtab.Gpos2_1:
		keys := make([]glyph.Pair, 0, len(l))
		for k := range l {
			keys = append(keys, k)
		}
		sort.Slice(keys, func(i, j int) bool {
			if keys[i].Left != keys[j].Left {
				return keys[i].Left < keys[j].Left
			}
			return keys[i].Right < keys[j].Right
		})
		ss := make([]string, len(keys))
		for i, k := range keys {
			ss[i] = strconv.Itoa(int(k.Left)) + "/" + strconv.Itoa(int(k.Right)) + ":" + totalGpossubShowPA(l[k])
		}
		return "2.1 " + strings.Join(ss, ",")
	case *gtab.Gpos2_2:
		rows := make([]string, len(l.Adjust))
		for i, row := range l.Adjust {
			ss := make([]string, len(row))
			for j, pa := range row {
				ss[j] = totalGpossubShowPA(pa)
			}
			rows[i] = strings.Join(ss, ",")
		}
		return "2.2 cov=" + totalGpossubShowSet(l.Cov) + ";cd1=" + totalGpossubShowClassDef(l.Class1) +
			";cd2=" + totalGpossubShowClassDef(l.Class2) + ";n=" + strconv.Itoa(len(l.Adjust)) + ";adj=" + strings.Join(rows, "/")
	case *gtab.Gpos5_1:
		ms := make([]string, len(l.MarkArray))
		for i, m := range l.MarkArray {
			ms[i] = strconv.Itoa(int(m.Class)) + "." + totalGpossubShowAnchor(m.Table)
		}
		ligs := make([]string, len(l.LigArray))
		for i, lig := range l.LigArray {
			comps := make([]string, len(lig))
			for j, row := range lig {
				as := make([]string, len(row))
				for k, a := range row {
					as[k] = totalGpossubShowAnchor(a)
				}
				comps[j] = strings.Join(as, ",")
			}
			ligs[i] = strings.Join(comps, "|")
		}
		return "5.1 mcov=" + totalGpossubShowCoverage(l.MarkCov) + ";lcov=" + totalGpossubShowCoverage(l.LigCov) +
			";marks=" + strings.Join(ms, ",") + ";n=" + strconv.Itoa(len(l.LigArray)) + ";lig=" + strings.Join(ligs, "/")
	case *gtab.Gpos3_1:
		ss := make([]string, len(l.Records))
		for i, rec := range l.Records {
			ss[i] = totalGpossubShowAnchor(rec.Entry) + "." + totalGpossubShowAnchor(rec.Exit)
		}
		return "3.1 cov=" + totalGpossubShowCoverage(l.Cov) + ";recs=" + strings.Join(ss, ",")
	}
	return "other-type"
}

// totalGpossubOtherKeys: keys of gposReaders whose readers are outside this group.
var totalGpossubOtherKeys = map[uint16]bool{41: true, 61: true, 71: true, 72: true, 73: true, 81: true, 82: true, 83: true, 91: true}

func totalGpossubClass(fn, out string) string {
	if strings.HasPrefix(out, "ok:") {
		if fn == "read" && len(out) >= 6 && out[4] == '.' {
			return "ok-" + out[3:6]
		}
		return "ok"
	}
	return out
}

func init() {
	ops["tmgpossub.read"] = func(f Fields) string {
		return totalCanonPanic(guard(func() string {
			b, pos, tp := f.Hex("bytes"), f.Int("pos"), f.Int("type")
			if pos < 0 || tp < 0 || tp > 0xffff {
				return "bad-case"
			}
			if pos+2 <= len(b) && tp <= 9 {
				// a valid key of a reader outside this group (lookup types 4-9); types and formats
				// above 9 are rejected by the repaired dispatcher: the real code runs
				format := uint16(b[pos])<<8 | uint16(b[pos+1])
				if format <= 9 && totalGpossubOtherKeys[10*uint16(tp)+format] {
					return "err:other"
				}
			}
			st, err := gtab.VerifReadGposSubtable(b, int64(pos), uint16(tp))
			if err != nil {
				return totalErrClass(err)
			}
			return "ok:" + totalGpossubShowSub(st)
		}))
	}
	ops["tmgpossub.anchor"] = func(f Fields) string {
		return totalCanonPanic(guard(func() string {
			b, pos := f.Hex("bytes"), f.Int("pos")
			if pos < 0 {
				return "bad-case"
			}
			a, err := anchor.Read(parser.New(bytes.NewReader(b)), int64(pos))
			if err != nil {
				return totalErrClass(err)
			}
			return "ok:" + totalGpossubShowAnchor(a)
		}))
	}
	ops["tmgpossub.markarray"] = func(f Fields) string {
		return totalCanonPanic(guard(func() string {
			b, pos, num := f.Hex("bytes"), f.Int("pos"), f.Int("num")
			if pos < 0 {
				return "bad-case"
			}
			rr, err := markarray.Read(parser.New(bytes.NewReader(b)), int64(pos), num)
			if err != nil {
				return totalErrClass(err)
			}
			ss := make([]string, len(rr))
			for i, r := range rr {
				ss[i] = strconv.Itoa(int(r.Class)) + "." + totalGpossubShowAnchor(r.Table)
			}
			return "ok:" + strings.Join(ss, ",")
		}))
	}
	totalModelGens["gpossub"] = totalGpossubGen
}

// ---------------------------------------------------------------- builders

var totalGpossubFormats = []int{0, 1, 2, 4, 8, 5, 0xf, 0x10, 0x20, 0x40, 0x80, 0xf0, 0xff, 0x33, 0x100, 0x8000, 0xff00, 0xffff, 0x104}

func totalGpossubFmt(r *Rng) int {
	if r.Chance(1, 4) {
		return r.Intn(256)
	}
	return Pick(r, totalGpossubFormats)
}

// totalGpossubVR: the bytes of one value record of the given format.
func totalGpossubVR(r *Rng, vf int) []byte {
	var ws []int
	for k := 0; k < 8; k++ {
		if vf>>k&1 == 1 {
			ws = append(ws, Pick(r, []int{0, 1, 10, 0xffff, 0xff9c, 0x7fff, 0x8000, r.Intn(65536)}))
		}
	}
	return totalGpossubW(ws...)
}

// totalGpossubCov: a coverage table (format 1 or 2) of n glyphs starting near lo.
func totalGpossubCov(r *Rng, n, lo int) []byte {
	gids := make([]int, 0, n)
	g := lo
	for i := 0; i < n && g <= 0xffff; i++ {
		gids = append(gids, g)
		if r.Chance(2, 3) {
			g++
		} else {
			g += r.Range(2, 9)
		}
	}
	if r.Chance(1, 3) {
		ws := []int{2, 0}
		cnt := 0
		for i := 0; i < len(gids); {
			j := i
			for j+1 < len(gids) && gids[j+1] == gids[j]+1 {
				j++
			}
			ws = append(ws, gids[i], gids[j], i)
			cnt++
			i = j + 1
		}
		ws[1] = cnt
		return totalGpossubW(ws...)
	}
	return totalGpossubW(append([]int{1, len(gids)}, gids...)...)
}

// totalGpossubCd: a class definition table (format 1 or 2) with classes below maxClass+1.
func totalGpossubCd(r *Rng, lo, maxClass int) []byte {
	if maxClass < 1 {
		maxClass = 1
	}
	if r.Bool() {
		n := r.Range(0, 12)
		ws := []int{1, lo, n}
		for i := 0; i < n; i++ {
			ws = append(ws, r.Range(0, maxClass))
		}
		return totalGpossubW(ws...)
	}
	n := r.Range(0, 5)
	ws := []int{2, n}
	s := lo
	for i := 0; i < n; i++ {
		e := s + r.Range(0, 6)
		ws = append(ws, s, e, r.Range(0, maxClass))
		s = e + r.Range(1, 5)
	}
	return totalGpossubW(ws...)
}

// totalGpossubNear: a count near n (n-1, n, n+1, 0, large) for "count against coverage size".
func totalGpossubNear(r *Rng, n int) int {
	switch r.Intn(8) {
	case 0:
		if n > 0 {
			return n - 1
		}
	case 1:
		return n + 1
	case 2:
		return n + r.Range(2, 5)
	case 3:
		return n / 2
	}
	return n
}

func totalGpossub11(r *Rng) []byte {
	vf := totalGpossubFmt(r)
	vr := totalGpossubVR(r, vf)
	cov := totalGpossubCov(r, r.Range(0, 8), r.Range(0, 300))
	return totalGpossubCat(totalGpossubW(1, 6+len(vr), vf), vr, cov)
}

func totalGpossub12(r *Rng) []byte {
	vf := totalGpossubFmt(r)
	nCov := r.Range(0, 8)
	n := totalGpossubNear(r, nCov)
	var vrs []byte
	for i := 0; i < n; i++ {
		vrs = append(vrs, totalGpossubVR(r, vf)...)
	}
	cov := totalGpossubCov(r, nCov, r.Range(0, 300))
	return totalGpossubCat(totalGpossubW(2, 8+len(vrs), vf, n), vrs, cov)
}

// totalGpossub21: pair sets; alias = all offsets point at the first pair set.
func totalGpossub21(r *Rng, alias bool) []byte {
	vf1, vf2 := totalGpossubFmt(r), totalGpossubFmt(r)
	if r.Bool() {
		vf2 = 0
	}
	nCov := r.Range(0, 6)
	n := totalGpossubNear(r, nCov)
	cov := totalGpossubCov(r, nCov, r.Range(0, 300))
	base := 10 + 2*n + len(cov)
	var sets []byte
	offs := make([]int, n)
	for i := 0; i < n; i++ {
		if alias && i > 0 {
			offs[i] = offs[0]
			continue
		}
		if i > 0 && r.Chance(1, 5) {
			offs[i] = offs[r.Intn(i)]
			continue
		}
		offs[i] = base + len(sets)
		pvc := r.Range(0, 4)
		set := totalGpossubW(pvc)
		g := r.Range(0, 20)
		for j := 0; j < pvc; j++ {
			set = append(set, totalGpossubW(g)...)
			set = append(set, totalGpossubVR(r, vf1)...)
			set = append(set, totalGpossubVR(r, vf2)...)
			if !r.Chance(1, 6) { // sometimes a repeated second glyph
				g += r.Range(1, 4)
			}
		}
		sets = append(sets, set...)
	}
	return totalGpossubCat(totalGpossubW(1, 10+2*n, vf1, vf2, n), totalGpossubW(offs...), cov, sets)
}

func totalGpossub22(r *Rng) []byte {
	vf1, vf2 := totalGpossubFmt(r), totalGpossubFmt(r)
	if r.Bool() {
		vf2 = 0
	}
	c1, c2 := r.Range(0, 4), r.Range(0, 4)
	var recs []byte
	for i := 0; i < c1*c2; i++ {
		recs = append(recs, totalGpossubVR(r, vf1)...)
		recs = append(recs, totalGpossubVR(r, vf2)...)
	}
	cov := totalGpossubCov(r, r.Range(0, 8), r.Range(0, 100))
	cd1 := totalGpossubCd(r, r.Range(0, 100), c1-1)
	cd2 := totalGpossubCd(r, r.Range(0, 100), c2-1)
	o := 16 + len(recs)
	return totalGpossubCat(totalGpossubW(2, o, vf1, vf2, o+len(cov), o+len(cov)+len(cd1), c1, c2), recs, cov, cd1, cd2)
}

// totalGpossub22Counts: header with the given class counts and formats, and the three tables
// right behind `have` bytes of record data.
func totalGpossub22Counts(c1, c2, vf1, vf2, have int) []byte {
	cov := totalGpossubW(1, 2, 3, 4)
	cd := totalGpossubW(1, 3, 2, 1, 1)
	o := 16 + have
	return totalGpossubCat(totalGpossubW(2, o, vf1, vf2, o+len(cov), o+len(cov), c1, c2), make([]byte, have), cov, cd)
}

// totalGpossubAnchor: an anchor table of format 1, 2 or 3 (bad: of another format).
func totalGpossubAnchor(r *Rng, bad bool) []byte {
	f := Pick(r, []int{1, 1, 1, 2, 3})
	if bad {
		f = Pick(r, []int{0, 4, 0xffff, 0x100, 0x101})
	}
	b := totalGpossubW(f, Pick(r, []int{0, 1, 100, 0xffff, 0x8000, r.Intn(65536)}), Pick(r, []int{0, 7, 0xfff0, r.Intn(65536)}))
	switch f {
	case 2:
		b = append(b, totalGpossubW(r.Intn(20))...)
	case 3:
		b = append(b, totalGpossubW(r.Intn(40), r.Intn(40))...)
	}
	return b
}

func totalGpossub31(r *Rng, alias bool) []byte {
	nCov := r.Range(0, 6)
	n := totalGpossubNear(r, nCov)
	base := 6 + 4*n
	var anchors []byte
	offs := make([]int, 2*n)
	for i := range offs {
		switch {
		case r.Chance(1, 4):
			offs[i] = 0
		case (alias || r.Chance(1, 5)) && len(anchors) > 0:
			offs[i] = base
		default:
			offs[i] = base + len(anchors)
			anchors = append(anchors, totalGpossubAnchor(r, r.Chance(1, 12))...)
		}
	}
	cov := totalGpossubCov(r, nCov, r.Range(0, 300))
	return totalGpossubCat(totalGpossubW(1, base+len(anchors), n), totalGpossubW(offs...), anchors, cov)
}

func totalGpossubMarkArray(r *Rng, classCount int) ([]byte, int) {
	n := r.Range(0, 6)
	base := 2 + 4*n
	var anchors []byte
	ws := []int{n}
	for i := 0; i < n; i++ {
		cl := r.Range(0, classCount+1) // mark classes >= classCount included
		off := base + len(anchors)
		if len(anchors) > 0 && r.Chance(1, 4) {
			off = base
		} else {
			anchors = append(anchors, totalGpossubAnchor(r, r.Chance(1, 12))...)
		}
		ws = append(ws, cl, off)
	}
	return totalGpossubCat(totalGpossubW(ws...), anchors), n
}

// totalGpossubHeavy estimates what a `read` line costs in the Lean driver: for a GPOS 2.2 subtable
// whose record loop can run to the end (enough data for class1Count*class2Count records, product
// below 65536) the larger of class1Count and the product (the model fills the made slices with
// List.set: quadratic); 0 otherwise.
func totalGpossubHeavy(b []byte, pos, tp int) int {
	if pos < 0 || pos+16 > len(b) {
		return 0
	}
	u16 := func(i int) int { return int(b[pos+i])<<8 | int(b[pos+i+1]) }
	if tp != 2 || u16(0) != 2 {
		return 0
	}
	c1, c2 := u16(12), u16(14)
	nr := c1 * c2
	if nr >= 65536 {
		return 0
	}
	need := 0
	for k := 0; k < 8; k++ {
		need += 2 * (u16(4)>>k&1 + u16(6)>>k&1)
	}
	if pos+16+nr*need > len(b) {
		return 0 // the record loop fails early
	}
	if nr > c1 {
		return nr
	}
	return c1
}

// totalGpossub51 builds a GPOS 5.1 subtable: nMark marks, nLigCov glyphs in the ligature coverage,
// ligCount LigatureAttach offsets, mcc mark classes, cc(i) components of ligature i.  aliasLA: all
// LigatureAttach offsets point at the first table; aliasA: all anchor offsets of a table point at
// its first anchor; zeros: one anchor offset in four is 0.
func totalGpossub51(r *Rng, nMark, nLigCov, ligCount, mcc int, cc func(i int) int, aliasLA, aliasA, zeros bool) []byte {
	W, cat := totalGpossubW, totalGpossubCat
	mcov := totalGpossubCov(r, nMark, r.Range(0, 50))
	lcov := totalGpossubCov(r, nLigCov, r.Range(60, 200))
	// mark array
	mws := []int{nMark}
	var manch []byte
	for i := 0; i < nMark; i++ {
		mws = append(mws, r.Range(0, mcc+1), 2+4*nMark+len(manch))
		manch = append(manch, totalGpossubAnchor(r, r.Chance(1, 40))...)
	}
	ma := cat(W(mws...), manch)
	// ligature array
	var tabs []byte
	offs := make([]int, ligCount)
	base := 2 + 2*ligCount
	for i := 0; i < ligCount; i++ {
		if aliasLA && i > 0 {
			offs[i] = offs[0]
			continue
		}
		offs[i] = base + len(tabs)
		n := cc(i) * mcc
		ws := []int{cc(i)}
		var anch []byte
		tb := 2 + 2*n
		for k := 0; k < n; k++ {
			switch {
			case zeros && r.Chance(1, 4):
				ws = append(ws, 0)
			case aliasA && len(anch) > 0:
				ws = append(ws, tb)
			default:
				ws = append(ws, tb+len(anch))
				anch = append(anch, totalGpossubAnchor(r, r.Chance(1, 40))...)
			}
		}
		tabs = append(tabs, cat(W(ws...), anch)...)
	}
	la := cat(W(ligCount), W(offs...), tabs)
	o := 12
	return cat(W(1, o, o+len(mcov), mcc, o+len(mcov)+len(lcov), o+len(mcov)+len(lcov)+len(ma)), mcov, lcov, ma, la)
}

// totalGpossub51Cap: one ligature with cc components and mcc classes and `have` offset words of data
// (cap boundary: cc*mcc = 32764 is read, 32765 is rejected before any offset is read).
func totalGpossub51Cap(cc, mcc, have, ligCount int) []byte {
	W, cat := totalGpossubW, totalGpossubCat
	mcov := W(1, 1, 5)
	lcov := W(2, 1, 100, 100+ligCount-1, 0)
	ma := W(1, 0, 6, 1, 7, 8)
	offs := make([]int, ligCount)
	for i := range offs {
		offs[i] = 2 + 2*ligCount
	}
	la := cat(W(ligCount), W(offs...), W(cc), make([]byte, 2*have))
	o := 12
	return cat(W(1, o, o+len(mcov), mcc, o+len(mcov)+len(lcov), o+len(mcov)+len(lcov)+len(ma)), mcov, lcov, ma, la)
}

// totalGpossubTab is one structured input of the `read` op.
type totalGpossubTab struct {
	name string
	b    []byte
	tp   int
}

func totalGpossubStructured(r *Rng, thorough bool) []totalGpossubTab {
	var tt []totalGpossubTab
	add := func(name string, tp int, b []byte) { tt = append(tt, totalGpossubTab{name, b, tp}) }
	W, cat := totalGpossubW, totalGpossubCat
	cov3 := W(1, 3, 5, 6, 9)
	cov2 := W(2, 1, 10, 12, 0) // range 10..12
	// ---- 1.1: every value-format bit, device bits, high bits only, zero
	for k := 0; k < 16; k++ {
		vf := 1 << k
		vr := totalGpossubVR(r, vf)
		add("11-bit"+strconv.Itoa(k), 1, cat(W(1, 6+len(vr), vf), vr, cov3))
	}
	for _, vf := range []int{0, 0xff, 0xffff, 0xf, 0xf0, 0x55, 0xaa} {
		vr := totalGpossubVR(r, vf)
		add("11-vf"+strconv.Itoa(vf), 1, cat(W(1, 6+len(vr), vf), vr, cov3))
		add("11-vf"+strconv.Itoa(vf)+"-cov2", 1, cat(W(1, 6+len(vr), vf), vr, cov2))
	}
	add("11-covoff-0", 1, cat(W(1, 0, 1, 7), cov3))    // coverage offset 0: the subtable itself as coverage (format 1, count 0)
	add("11-covoff-self", 1, cat(W(1, 2, 1, 5, 6, 9))) // coverage inside the header
	add("11-covoff-beyond", 1, cat(W(1, 100, 1, 7), cov3))
	add("11-covoff-max", 1, cat(W(1, 0xffff, 1, 7), cov3))
	add("11-vr-short", 1, W(1, 8, 0xff, 1, 2, 3))
	add("11-badcov", 1, cat(W(1, 8, 1, 7), W(3, 0)))
	// ---- 1.2: valueCount against coverage size
	for _, n := range []int{0, 1, 2, 3, 4, 5} {
		var vrs []byte
		for i := 0; i < n; i++ {
			vrs = append(vrs, W(100+i, 200+i)...)
		}
		add("12-n"+strconv.Itoa(n)+"-cov3", 1, cat(W(2, 8+len(vrs), 5, n), vrs, cov3))
	}
	add("12-vf0-n3", 1, cat(W(2, 8, 0, 3), cov3))
	add("12-vf0-nmax", 1, cat(W(2, 8, 0, 0xffff), cov3))
	add("12-vfhigh-n3", 1, cat(W(2, 8, 0x100, 3), cov3))
	add("12-nmax-nodata", 1, cat(W(2, 8, 1, 0xffff), cov3))
	add("12-cov2-n2", 1, cat(W(2, 12, 1, 2, 7, 8), cov2))
	add("12-cov2-n4", 1, cat(W(2, 16, 1, 4, 7, 8, 9, 10), cov2))
	// ---- 2.1: pairSetCount against coverage, aliased pair sets
	{
		set := W(2, 20, 1, 2, 21, 3, 4) // vf1=4 vf2=4: (20: 1,2) (21: 3,4)
		set2 := W(1, 30, 5, 6)
		for _, n := range []int{0, 1, 2, 3, 4, 5} {
			offs := make([]int, n)
			base := 10 + 2*n + len(cov3)
			for i := range offs {
				offs[i] = base + (i%2)*len(set)
			}
			add("21-n"+strconv.Itoa(n)+"-cov3", 2, cat(W(1, 10+2*n, 4, 4, n), W(offs...), cov3, set, set2))
			for i := range offs {
				offs[i] = base
			}
			add("21-alias-n"+strconv.Itoa(n), 2, cat(W(1, 10+2*n, 4, 4, n), W(offs...), cov3, set, set2))
		}
		{ // the aliasing family of Proofs/TotalGposSubExamples.lean: K offsets -> one pair set of K records
			const K = 24
			offs := make([]int, K)
			gs := make([]int, K)
			for i := range offs {
				offs[i], gs[i] = 20+2*K, i
			}
			add("21-alias-family-24", 2, cat(W(1, 10+2*K, 0, 0, K), W(offs...), W(2, 1, 0, K-1, 0), W(K), W(gs...)))
		}
		add("21-dup-second", 2, cat(W(1, 12, 4, 0, 1, 20), W(1, 1, 5), W(3, 7, 1, 7, 2, 8, 3)))
		add("21-vf0-vf0", 2, cat(W(1, 12, 0, 0, 1, 20), W(1, 1, 5), W(3, 7, 8, 9)))
		add("21-pvc-max-nodata", 2, cat(W(1, 12, 0, 0, 1, 20), W(1, 1, 5), W(0xffff, 7, 8, 9)))
		add("21-off-0", 2, cat(W(1, 12, 0, 0, 1, 0), W(1, 1, 5))) // pair set = the subtable itself: pvc = 1
		add("21-off-beyond", 2, cat(W(1, 12, 0, 0, 1, 500), W(1, 1, 5)))
		add("21-off-in-cov", 2, cat(W(1, 12, 0, 0, 1, 14), W(1, 1, 5)))
		add("21-devbits", 2, cat(W(1, 12, 0x11, 0x80, 1, 20), W(1, 1, 5), W(1, 7, 1, 2, 3)))
		add("21-count-max-nodata", 2, cat(W(1, 12, 0, 0, 0xffff, 20), W(1, 1, 5)))
	}
	// ---- 2.2: class counts 0/1/2/large
	// The Lean model fills made slices with List.set (quadratic in the slice length): a successful
	// read with class1Count or class1Count*class2Count above a few thousand takes seconds in the
	// driver (65535 rows: 40 s).  Quick tier: the same shapes with 2000 rows and ONE line with
	// 20000 rows; thorough tier: 65535 rows (the emit filter lets two of them through).
	big := 2000
	if thorough {
		big = 0xffff
	}
	for _, cc := range [][2]int{{0, 0}, {0, 1}, {1, 0}, {1, 1}, {1, 2}, {2, 1}, {2, 2}, {3, 2}, {0, 0xffff}, {big, 0}, {1, 0xffff},
		{0xffff, 1}, {256, 256}, {256, 255}, {255, 257}, {0xffff, 0xffff}, {2, 0x8000}, {2, 0x7fff}, {300, 200}} {
		nm := "22-" + strconv.Itoa(cc[0]) + "x" + strconv.Itoa(cc[1])
		n := cc[0] * cc[1]
		if n < 65536 && n <= 600 {
			add(nm+"-full", 2, totalGpossub22Counts(cc[0], cc[1], 4, 1, 4*n))
		}
		add(nm+"-nodata", 2, totalGpossub22Counts(cc[0], cc[1], 4, 1, 0))
		if n <= 3000 {
			add(nm+"-vf0", 2, totalGpossub22Counts(cc[0], cc[1], 0, 0, 0))
			add(nm+"-vfhigh", 2, totalGpossub22Counts(cc[0], cc[1], 0x100, 0x200, 0))
		}
	}
	add("22-2000x0-vf0", 2, totalGpossub22Counts(2000, 0, 0, 0, 0))
	add("22-1x2000-vf0", 2, totalGpossub22Counts(1, 2000, 0, 0, 0))
	if !thorough {
		add("22-20000x0-heavy", 2, totalGpossub22Counts(20000, 0, 4, 1, 0)) // the one heavy line of the quick tier
	}
	add("22-50x60-vf0", 2, totalGpossub22Counts(50, 60, 0, 0, 0))
	add("22-short-header", 2, W(2, 16, 4, 1, 20, 20, 1))
	add("22-bad-cd2", 2, cat(W(2, 16, 0, 0, 24, 16, 1, 1), W(1, 2, 3, 4), W(1, 3, 2, 1, 1)))
	// ---- 3.1: anchor formats, zero offsets, aliased anchors, count against coverage
	{
		a1, a2, a3 := W(1, 10, 20), W(2, 30, 40, 5), W(3, 0xffff, 0x8000, 0, 0)
		for _, n := range []int{0, 1, 2, 3, 4, 5} {
			base := 6 + 4*n
			offs := make([]int, 2*n)
			for i := range offs {
				offs[i] = []int{base, base + 6, base + 14, 0}[i%4]
			}
			add("31-n"+strconv.Itoa(n)+"-cov3", 3, cat(W(1, base+24, n), W(offs...), a1, a2, a3, cov3))
			for i := range offs {
				offs[i] = base
			}
			add("31-alias-n"+strconv.Itoa(n), 3, cat(W(1, base+24, n), W(offs...), a1, a2, a3, cov3))
		}
		for _, f := range []int{0, 4, 0xffff, 0x101} {
			add("31-anchorfmt-"+strconv.Itoa(f), 3, cat(W(1, 16, 1, 10, 0), W(f, 1, 2), cov3))
			add("31-anchorfmt-exit-"+strconv.Itoa(f), 3, cat(W(1, 16, 1, 0, 10), W(f, 1, 2), cov3))
		}
		add("31-anchor-short", 3, cat(W(1, 4, 1, 10, 0), W(1, 1)))
		add("31-anchor-self", 3, cat(W(1, 10, 1, 2, 0), W(1, 1, 7))) // entry anchor at offset 2: bytes of the header
		add("31-count-max-nodata", 3, cat(W(1, 16, 0xffff, 10, 0), W(1, 1, 2), cov3))
	}
	// ---- 5.1: ligCount / markClassCount / componentCount in {0..3}^3, offsets 0, aliasing, cap, coverage mismatch
	for lc := 0; lc <= 3; lc++ {
		for mcc := 0; mcc <= 3; mcc++ {
			for cc := 0; cc <= 3; cc++ {
				cc := cc
				nm := "51-l" + strconv.Itoa(lc) + "-m" + strconv.Itoa(mcc) + "-c" + strconv.Itoa(cc)
				add(nm, 5, totalGpossub51(r, r.Range(0, 3), lc, lc, mcc, func(int) int { return cc }, false, false, false))
				if lc >= 2 && cc*mcc > 0 {
					add(nm+"-aliasLA", 5, totalGpossub51(r, 2, lc, lc, mcc, func(int) int { return cc }, true, false, false))
				}
				if cc*mcc >= 2 {
					add(nm+"-aliasA", 5, totalGpossub51(r, 2, lc, lc, mcc, func(int) int { return cc }, false, true, false))
					add(nm+"-zeros", 5, totalGpossub51(r, 2, lc, lc, mcc, func(int) int { return cc }, false, false, true))
				}
			}
		}
	}
	for _, d := range [][2]int{{0, 2}, {1, 3}, {3, 1}, {2, 0}, {4, 2}, {2, 5}} { // coverage size vs ligCount, both ways
		add("51-cov"+strconv.Itoa(d[0])+"-lig"+strconv.Itoa(d[1]), 5,
			totalGpossub51(r, 2, d[0], d[1], 2, func(i int) int { return 1 + i%2 }, false, false, false))
	}
	{ // mark coverage size against markCount, both ways
		lcov := W(1, 1, 100)
		la := cat(W(1, 4), W(1, 4), W(1, 9, 9))
		for _, v := range []struct {
			name     string
			mcov, ma []byte
		}{
			{"51-markcov3-marks1", W(1, 3, 5, 6, 7), cat(W(1, 0, 6), W(1, 7, 8))},
			{"51-markcov1-marks3", W(1, 1, 5), cat(W(3, 0, 14, 1, 14, 0, 14), W(1, 7, 8))},
			{"51-markcov0-marks2", W(1, 0), cat(W(2, 0, 10, 1, 10), W(1, 7, 8))},
			{"51-markcov2-marks0", W(1, 2, 5, 6), W(0)},
			{"51-mark-badanchor", W(1, 1, 5), cat(W(1, 0, 6), W(0, 7, 8))},
		} {
			o := 12
			add(v.name, 5, cat(W(1, o, o+len(v.mcov), 1, o+len(v.mcov)+len(lcov), o+len(v.mcov)+len(lcov)+len(v.ma)), v.mcov, lcov, v.ma, la))
		}
	}
	add("51-cap-32764-nodata", 5, totalGpossub51Cap(16382, 2, 3, 1))
	add("51-cap-32765-nodata", 5, totalGpossub51Cap(6553, 5, 3, 1))
	add("51-cap-4681x7-32767", 5, totalGpossub51Cap(4681, 7, 3, 1))
	add("51-cap-65535x1", 5, totalGpossub51Cap(65535, 1, 3, 1))
	add("51-cap-1x65535", 5, totalGpossub51Cap(1, 65535, 3, 1))
	add("51-cap-65535x65535", 5, totalGpossub51Cap(65535, 65535, 3, 1))
	add("51-mcc0-cc65535", 5, totalGpossub51Cap(65535, 0, 0, 1)) // no offsets: 65535 empty rows
	add("51-mcc0-cc2000-alias3", 5, totalGpossub51Cap(2000, 0, 0, 3))
	add("51-cc0-mcc65535", 5, totalGpossub51Cap(0, 65535, 0, 2))
	add("51-cap-full-1500", 5, totalGpossub51Cap(500, 3, 1500, 1)) // all 1500 offsets 0
	add("51-short-header", 5, totalGpossubW(1, 12, 16, 1, 20))
	// ---- dispatch: format words, key wrap, keys of other readers, short inputs
	body := cat(W(6, 1, 7), cov3)
	for _, tf := range [][2]int{{1, 0}, {1, 3}, {1, 11}, {1, 12}, {1, 21}, {1, 31}, {1, 61}, {1, 81}, {2, 3}, {2, 0}, {2, 11}, {2, 65527},
		{2, 65528}, {3, 2}, {3, 0}, {3, 11}, {3, 65517}, {3, 65518}, {3, 65527}, {3, 65528}, {1, 0xffff}, {0, 11}, {0, 1}, {4, 1}, {9, 1},
		{6554, 7}, {6555, 1}, {65535, 21}, {65535, 22},
		// the former key collisions (uint16 wrap): all err:invalid since the repair
		{6560, 7}, {6554, 0xffff}, {1, 0xffcf}, {2, 65497}, {3, 65497}, {9, 0xffb7}, {10, 1}, {10, 0xffad}, {6553, 7}, {6553, 17},
		{4, 1}, {5, 1}, {6, 1}, {7, 1}, {7, 3}, {8, 2}, {9, 1}, {4, 2}, {1, 9}, {1, 10}, {2, 9}, {3, 9}, {9, 9}, {9, 10}} {
		add("dispatch-"+strconv.Itoa(tf[0])+"-"+strconv.Itoa(tf[1]), tf[0], cat(W(tf[1]), body))
	}
	add("empty", 1, nil)
	add("len1", 1, []byte{0})
	add("len2-1", 1, W(1))
	add("len2-2", 2, W(2))
	add("len3", 3, []byte{0, 1, 0})
	return tt
}

// totalGpossubWalk finds the subtables of lookup types 1-3 (also behind extension records) in a
// GPOS table and returns (position, type) pairs.
func totalGpossubWalk(b []byte) [][2]int {
	u16 := func(p int) (int, bool) {
		if p < 0 || p+2 > len(b) {
			return 0, false
		}
		return int(b[p])<<8 | int(b[p+1]), true
	}
	var out [][2]int
	ll, ok := u16(8)
	if !ok {
		return nil
	}
	cnt, ok := u16(ll)
	if !ok {
		return nil
	}
	for i := 0; i < cnt && i < 200; i++ {
		lo, ok := u16(ll + 2 + 2*i)
		if !ok {
			break
		}
		lp := ll + lo
		tp, ok1 := u16(lp)
		sc, ok2 := u16(lp + 4)
		if !ok1 || !ok2 {
			continue
		}
		for j := 0; j < sc && j < 50; j++ {
			so, ok := u16(lp + 6 + 2*j)
			if !ok {
				break
			}
			sp, t := lp+so, tp
			if tp == 9 {
				f, ok1 := u16(sp)
				et, ok2 := u16(sp + 2)
				hi, ok3 := u16(sp + 4)
				lw, ok4 := u16(sp + 6)
				if !ok1 || !ok2 || !ok3 || !ok4 || f != 1 {
					continue
				}
				sp, t = sp+hi<<16+lw, et
			}
			if (t >= 1 && t <= 3) || t == 5 {
				out = append(out, [2]int{sp, t})
			}
		}
	}
	return out
}

func totalGpossubGen(c *Ctx, r *Rng, seeds []totalSeed) {
	budget := c.N / 3
	cnt := map[string]int{}
	seen := map[string]bool{}
	limit := map[string]int{}
	emit := func(fn, gen string, b []byte, pos int, extra string, force bool) bool {
		if !force && cnt[fn] >= limit[fn] {
			return false
		}
		args := "bytes=" + hx(b) + " pos=" + strconv.Itoa(pos) + extra
		if seen[fn+args] {
			return false
		}
		seen[fn+args] = true
		out := c.Case(Verdict, "tmgpossub."+fn, args, len(b) >= 6)
		cnt[fn]++
		c.Stat("tmgpossub:"+fn, totalGpossubClass(fn, out))
		c.Stat("tmgpossub:"+fn+":gen", gen)
		return true
	}
	heavyLeft := 1 // quick tier: one line of size <= 20000 (about 4 s in the driver)
	if c.Tier == "thorough" {
		heavyLeft = 2 // thorough tier: two lines of any size (40 s each for 65535 rows)
	}
	read := func(gen string, b []byte, pos, tp int, force bool) bool {
		if h := totalGpossubHeavy(b, pos, tp); h > 3000 {
			if heavyLeft == 0 || (c.Tier != "thorough" && h > 20000) {
				c.Stat("tmgpossub:read:skipped", "heavy-for-the-model")
				return false
			}
			if !emit("read", gen, b, pos, " type="+strconv.Itoa(tp), force) {
				return false
			}
			heavyLeft--
			c.Stat("tmgpossub:read:heavy", strconv.Itoa(h))
			return true
		}
		return emit("read", gen, b, pos, " type="+strconv.Itoa(tp), force)
	}
	anch := func(gen string, b []byte, pos int, force bool) bool { return emit("anchor", gen, b, pos, "", force) }
	mark := func(gen string, b []byte, pos, num int, force bool) bool {
		return emit("markarray", gen, b, pos, " num="+strconv.Itoa(num), force)
	}
	withPrefix := func(b []byte) ([]byte, int) {
		pre := r.Bytes(r.Range(1, 9))
		return totalGpossubCat(pre, b), len(pre)
	}

	// ---- 1. structured inputs (always), at pos 0 and behind a junk prefix
	tabs := totalGpossubStructured(r, c.Tier == "thorough")
	for _, t := range tabs {
		read("structured", t.b, 0, t.tp, true)
		if len(t.b) < 600 && !(strings.HasPrefix(t.name, "51-l") && r.Chance(2, 3)) {
			pb, pp := withPrefix(t.b)
			read("structured-prefix", pb, pp, t.tp, true)
		}
	}
	for _, p := range []int{1, 2, 5, 6, 100} {
		read("structured-pos", tabs[0].b, p, 1, true)
	}
	// anchors: formats 0..4 and others, short inputs, positions
	for _, f := range []int{0, 1, 2, 3, 4, 5, 0xff, 0x100, 0x101, 0x300, 0xffff} {
		anch("structured", totalGpossubW(f, 0x1234, 0xfffe), 0, true)
		anch("structured", totalGpossubW(f, 0x1234, 0xfffe, 7, 8), 0, true)
		anch("structured-pos", totalGpossubW(9, 9, f, 1, 2), 4, true)
	}
	for n := 0; n <= 6; n++ {
		anch("truncate-every", totalGpossubW(1, 2, 3)[:n], 0, true)
		anch("structured-pos", totalGpossubW(1, 2, 3), n, true)
	}
	// mark arrays: count against num (0, below, equal, above, huge, negative), class >= classCount,
	// aliased and bad anchors
	{
		W, cat := totalGpossubW, totalGpossubCat
		ma3 := cat(W(3, 0, 14, 5, 20, 0xffff, 14), W(1, 10, 20), W(2, 30, 40, 5))
		for _, num := range []int{0, 1, 2, 3, 4, 100, 65535, 65536, 1 << 20, -1, -2, -65536, -65535, -65533} {
			mark("structured", ma3, 0, num, true)
		}
		mark("structured", cat(W(0)), 0, 5, true)
		mark("structured", cat(W(1, 0, 6), W(0, 1, 2)), 0, 5, true)
		mark("structured", cat(W(1, 0, 6), W(4, 1, 2)), 0, 5, true)
		mark("structured", cat(W(2, 0, 10, 1, 10), W(3, 1, 2, 0, 0)), 0, 5, true)
		mark("structured", cat(W(2, 0, 10, 1, 10), W(3, 1, 2, 0, 0)), 0, 1, true)
		mark("structured", cat(W(2, 0, 10, 1, 500), W(3, 1, 2)), 0, 5, true)
		mark("structured", cat(W(2, 0, 10, 1, 500), W(3, 1, 2)), 0, 1, true) // the bad second record is cut off
		mark("structured", cat(W(0xffff, 0, 10)), 0, 70000, true)
		mark("structured", cat(W(0xffff, 0, 10)), 0, 0, true)
		mark("structured", cat(W(1, 7, 0), W(9)), 0, 3, true) // anchor offset 0: the mark array itself as an anchor (format 1)
		mark("structured", cat(W(2, 7, 0, 1, 2)), 0, 3, true)
		pb, pp := withPrefix(ma3)
		mark("structured-prefix", pb, pp, 3, true)
		mark("structured-pos", ma3, 2, 3, true)
		mark("structured-pos", ma3, len(ma3), 3, true)
		mark("structured-pos", ma3, len(ma3)+10, 3, true)
		for n := 0; n < len(ma3); n++ {
			mark("truncate-every", ma3[:n], 0, 3, true)
		}
	}

	base := map[string]int{}
	rem := map[string]int{}
	for _, fn := range []string{"read", "anchor", "markarray"} {
		base[fn] = cnt[fn]
		rem[fn] = budget - cnt[fn]
		if rem[fn] < 0 {
			rem[fn] = 0
		}
	}
	const parts = 7 // seeds 1, random valid 3, mutations 1, truncations 1, random 1
	phase := func(k int) {
		for fn := range base {
			limit[fn] = base[fn] + rem[fn]*k/parts
		}
	}
	full := func(fn string) bool { return cnt[fn] >= limit[fn] }

	// ---- 2. the GPOS seeds: every subtable of lookup types 1-3
	phase(1)
	type sub struct {
		b       []byte
		pos, tp int
		src     string
	}
	var subs []sub
	for _, s := range seeds {
		if s.dec != "gpos" {
			continue
		}
		for _, w := range totalGpossubWalk(s.bytes) {
			b, pos := s.bytes, w[0]
			if len(b) > 4000 { // keep the line short: the subtable and what follows it
				if pos >= len(b) {
					continue
				}
				end := pos + 4000
				if end > len(b) {
					end = len(b)
				}
				b, pos = b[pos:end], 0
			}
			subs = append(subs, sub{b, pos, w[1], s.src})
		}
	}
	for i := len(subs) - 1; i > 0; i-- {
		j := r.Intn(i + 1)
		subs[i], subs[j] = subs[j], subs[i]
	}
	for _, s := range subs {
		if full("read") {
			break
		}
		if read("seed", s.b, s.pos, s.tp, false) {
			c.Stat("tmgpossub:seed", s.src)
		}
	}

	// ---- 3. random valid tables, a third of them behind a prefix
	phase(4)
	for it := 0; !full("read") && it < 20*rem["read"]+100; it++ {
		var b []byte
		var tp int
		var kind string
		switch r.Intn(12) {
		case 9, 10, 11:
			lc := r.Range(0, 4)
			ccs := []int{r.Range(0, 3), r.Range(0, 3), r.Range(0, 3), r.Range(0, 3), r.Range(0, 3), r.Range(0, 3)}
			b, tp, kind = totalGpossub51(r, r.Range(0, 4), totalGpossubNear(r, lc), lc, r.Range(0, 3),
				func(i int) int { return ccs[i%6] }, r.Chance(1, 4), r.Chance(1, 4), r.Chance(1, 3)), 5, "51"
		case 0:
			b, tp, kind = totalGpossub11(r), 1, "11"
		case 1, 2:
			b, tp, kind = totalGpossub12(r), 1, "12"
		case 3, 4:
			b, tp, kind = totalGpossub21(r, false), 2, "21"
		case 5:
			b, tp, kind = totalGpossub21(r, true), 2, "21-alias"
		case 6:
			b, tp, kind = totalGpossub22(r), 2, "22"
		case 7:
			b, tp, kind = totalGpossub31(r, false), 3, "31"
		default:
			b, tp, kind = totalGpossub31(r, true), 3, "31-alias"
		}
		pos := 0
		if r.Chance(1, 3) {
			b, pos = withPrefix(b)
		}
		if read("valid", b, pos, tp, false) {
			c.Stat("tmgpossub:valid", kind)
		}
	}
	for it := 0; !full("anchor") && it < 20*rem["anchor"]+100; it++ {
		b := totalGpossubAnchor(r, r.Chance(1, 5))
		pos := 0
		if r.Chance(1, 3) {
			b, pos = withPrefix(b)
		}
		anch("valid", b, pos, false)
	}
	for it := 0; !full("markarray") && it < 20*rem["markarray"]+100; it++ {
		b, n := totalGpossubMarkArray(r, r.Range(1, 4))
		pos := 0
		if r.Chance(1, 3) {
			b, pos = withPrefix(b)
		}
		mark("valid", b, pos, Pick(r, []int{n, n, n, n + 1, n + 10, 65536, n / 2, 0, n - 1}), false)
	}

	// ---- 4. mutations of structured tables, random valid tables and seed subtables
	phase(5)
	for it := 0; !full("read") && it < 20*rem["read"]+100; it++ {
		var b []byte
		var pos, tp int
		switch {
		case len(subs) > 0 && r.Chance(1, 4):
			s := Pick(r, subs)
			b, pos, tp = s.b, s.pos, s.tp
			if len(b) > 1500 {
				continue
			}
		case r.Bool():
			t := Pick(r, tabs)
			if len(t.b) > 1500 {
				continue
			}
			b, tp = t.b, t.tp
		default:
			switch r.Intn(7) {
			case 5, 6:
				b, tp = totalGpossub51(r, r.Range(0, 3), 2, 2, r.Range(1, 3), func(i int) int { return 1 + i }, r.Bool(), false, r.Bool()), 5
			case 0:
				b, tp = totalGpossub11(r), 1
			case 1:
				b, tp = totalGpossub12(r), 1
			case 2:
				b, tp = totalGpossub21(r, r.Bool()), 2
			case 3:
				b, tp = totalGpossub22(r), 2
			default:
				b, tp = totalGpossub31(r, r.Bool()), 3
			}
		}
		m, what := totalMutate(r, b)
		if len(m) > 4000 {
			continue
		}
		if read("mutation", m, pos, tp, false) {
			c.Stat("tmgpossub:mutation", what)
		}
	}
	for it := 0; !full("anchor") && it < 20*rem["anchor"]+100; it++ {
		m, _ := totalMutate(r, totalGpossubAnchor(r, false))
		anch("mutation", m, 0, false)
	}
	for it := 0; !full("markarray") && it < 20*rem["markarray"]+100; it++ {
		b, n := totalGpossubMarkArray(r, 3)
		m, _ := totalMutate(r, b)
		if len(m) > 4000 {
			continue
		}
		mark("mutation", m, 0, Pick(r, []int{n, n + 1, 65536, 1}), false)
	}

	// ---- 5. truncation at every offset of small tables
	phase(6)
	for it := 0; !full("read") && it < 400; it++ {
		var b []byte
		var tp int
		switch r.Intn(8) {
		case 6, 7:
			b, tp = totalGpossub51(r, 1, 1, 1, r.Range(1, 2), func(i int) int { return r.Range(1, 2) }, false, false, false), 5
		case 0:
			b, tp = totalGpossub11(r), 1
		case 1:
			b, tp = totalGpossub12(r), 1
		case 2:
			b, tp = totalGpossub21(r, r.Bool()), 2
		case 3:
			b, tp = totalGpossub22(r), 2
		case 4:
			b, tp = totalGpossub31(r, r.Bool()), 3
		default:
			t := Pick(r, tabs)
			b, tp = t.b, t.tp
		}
		if len(b) > 90 {
			continue
		}
		for n := 0; n < len(b) && !full("read"); n++ {
			read("truncate-every", b[:n], 0, tp, false)
		}
	}
	for it := 0; !full("markarray") && it < 400; it++ {
		b, n := totalGpossubMarkArray(r, 3)
		for k := 0; k < len(b) && !full("markarray"); k++ {
			mark("truncate-every", b[:k], 0, n, false)
		}
	}

	// ---- 6. random bytes with the format word forced most of the time
	phase(7)
	for it := 0; !full("read") && it < 20*rem["read"]+100; it++ {
		b := r.Bytes(r.Range(0, 64))
		tp := Pick(r, []int{1, 2, 3, 5})
		if r.Chance(3, 4) && len(b) >= 2 {
			b[0], b[1] = 0, byte(r.Range(1, 2))
			if tp == 3 || tp == 5 {
				b[1] = 1
			}
		}
		for i := 2; i+1 < len(b) && i < 16; i += 2 { // small header words half of the time
			if r.Bool() {
				b[i] = 0
				b[i+1] = byte(r.Intn(40))
			}
		}
		if r.Chance(1, 8) && len(b) >= 2 {
			// a former key collision: 10*type+format wraps (uint16) to a key of this group
			tp = Pick(r, []int{0, 4, 5, 9, 10, 11, 6553, 6554, 6560, 65535})
			f := uint16(Pick(r, []int{11, 12, 21, 22, 31}) - 10*tp)
			b[0], b[1] = byte(f>>8), byte(f)
			c.Stat("tmgpossub:read:collision", strconv.Itoa(tp))
		}
		pos := 0
		if r.Chance(1, 5) {
			pos = r.Range(0, len(b)+2)
		}
		read("random", b, pos, tp, false)
	}
	for it := 0; !full("anchor") && it < 20*rem["anchor"]+100; it++ {
		b := r.Bytes(r.Range(0, 12))
		if r.Bool() && len(b) >= 2 {
			b[0], b[1] = 0, byte(r.Range(0, 4))
		}
		anch("random", b, r.Intn(3)*r.Intn(4), false)
	}
	for it := 0; !full("markarray") && it < 20*rem["markarray"]+100; it++ {
		b := r.Bytes(r.Range(0, 48))
		if len(b) >= 2 && r.Chance(3, 4) {
			b[0], b[1] = 0, byte(r.Intn(6))
		}
		for i := 2; i+1 < len(b); i += 2 {
			if r.Chance(2, 3) {
				b[i] = 0
				b[i+1] = byte(r.Intn(len(b) + 4))
			}
		}
		mark("random", b, 0, Pick(r, []int{0, 1, 2, 5, 65536, -1}), false)
	}
}
