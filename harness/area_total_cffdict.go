//go:build verif

// C02, group `cffdict`: verdict stream for the checked-index Lean models of cff decodeDict and
// decodeFloat (Model/TotalCffDict.lean).
//
//	tmcffdict.dict  bytes=<hex> [strings=<n>]  -> ok:<op:arg|arg,…> (sortedKeys order) | err | panic
//	                                              (custom strings s0 … s<n-1>)
//	tmcffdict.float bytes=<hex>                -> ok:<remaining length>:<r[-]mant e exp> | err | panic
//
// Reals are printed as the shortest decimal identifying the float64 (as in area_cff.go); the Lean
// side holds the exact decimal, which is the same for at most 15 significant digits.  Inputs with a
// longer nibble string are compared on the panic question only (long:nopanic / long:panic; the
// float op prints "long" in place of the value).
package main

import (
	"fmt"
	"strconv"
	"strings"

	"seehuhn.de/go/sfnt/cff"
)

func totalCffdictShowReal(x float64) string {
	if x == 0 {
		return "r0e0"
	}
	sign := ""
	if x < 0 {
		sign = "-"
		x = -x
	}
	s := strconv.FormatFloat(x, 'e', -1, 64) // d.ddddde±XX
	i := strings.IndexByte(s, 'e')
	mant, exps := s[:i], s[i+1:]
	e, _ := strconv.Atoi(exps)
	digits := strings.Replace(mant, ".", "", 1)
	e -= len(digits) - 1
	for len(digits) > 1 && digits[len(digits)-1] == '0' {
		digits = digits[:len(digits)-1]
		e++
	}
	return fmt.Sprintf("r%s%se%d", sign, digits, e)
}

func totalCffdictShowOperand(a interface{}) string {
	switch v := a.(type) {
	case int32:
		return fmt.Sprintf("i%d", v)
	case float64:
		return totalCffdictShowReal(v)
	case string:
		return "s" + hx([]byte(v))
	}
	return "?"
}

func totalCffdictShowDict(ops []uint16, args [][]interface{}) string {
	parts := make([]string, len(ops))
	for i, op := range ops {
		as := make([]string, len(args[i]))
		for j, a := range args[i] {
			as[j] = totalCffdictShowOperand(a)
		}
		parts[i] = fmt.Sprintf("%d:%s", op, strings.Join(as, "|"))
	}
	return strings.Join(parts, ",")
}

// totalCffdictDigitsAfter: digit nibbles up to the terminator nibble f.
func totalCffdictDigitsAfter(b []byte) int {
	n := 0
	for _, y := range b {
		hi, lo := y>>4, y&15
		if hi == 15 {
			return n
		}
		if hi <= 9 {
			n++
		}
		if lo == 15 {
			return n
		}
		if lo <= 9 {
			n++
		}
	}
	return n
}

// totalCffdictRealTooLong: some byte 0x1e is followed by a nibble string with more than 15 digits.
func totalCffdictRealTooLong(b []byte) bool {
	for i, x := range b {
		if x == 0x1e && totalCffdictDigitsAfter(b[i+1:]) > 15 {
			return true
		}
	}
	return false
}

func totalCffdictCustom(n int) []string {
	var out []string
	for i := 0; i < n; i++ {
		out = append(out, fmt.Sprintf("s%d", i))
	}
	return out
}

func totalCffdictDict(b []byte, n int) string {
	long := totalCffdictRealTooLong(b)
	s := totalCanonPanic(guard(func() string {
		o, a, err := cff.VerifDictDecode(b, totalCffdictCustom(n))
		if err != nil {
			return "err"
		}
		return "ok:" + totalCffdictShowDict(o, a)
	}))
	if long {
		if s == "panic" {
			return "long:panic"
		}
		return "long:nopanic"
	}
	return s
}

func totalCffdictFloat(b []byte) string {
	long := totalCffdictDigitsAfter(b) > 15
	return totalCanonPanic(guard(func() string {
		rest, x, err := cff.VerifDecodeFloat(b)
		if err != nil {
			return "err"
		}
		if long {
			return fmt.Sprintf("ok:%d:long", len(rest))
		}
		return fmt.Sprintf("ok:%d:%s", len(rest), totalCffdictShowReal(x))
	}))
}

func totalCffdictCls(out string) string {
	if i := strings.IndexByte(out, ':'); i >= 0 {
		if strings.HasPrefix(out, "long:") {
			return out
		}
		return out[:i]
	}
	return out
}

// ---- encoders for the generator

// totalCffdictInt encodes v in the given form: 0 = shortest, 1 = one byte, 2 = two bytes, 3 = 28, 5 = 29
// (forms that cannot hold v fall back to the shortest).
func totalCffdictInt(v int, form int) []byte {
	one := v >= -107 && v <= 107
	twoP := v >= 108 && v <= 1131
	twoN := v >= -1131 && v <= -108
	i16 := v >= -32768 && v <= 32767
	if form == 5 || (form == 0 && !i16) || (form != 0 && form != 3 && !one && !twoP && !twoN && !i16) {
		return totalDictInt5(v)
	}
	if form == 3 && i16 {
		return []byte{28, byte(uint16(v) >> 8), byte(v)}
	}
	switch {
	case one:
		return []byte{byte(v + 139)}
	case twoP:
		w := v - 108
		return []byte{byte(w>>8) + 247, byte(w)}
	case twoN:
		w := -108 - v
		return []byte{byte(w>>8) + 251, byte(w)}
	case i16:
		return []byte{28, byte(uint16(v) >> 8), byte(v)}
	}
	return totalDictInt5(v)
}

// totalCffdictPack packs nibbles two per byte; term: append the terminator f (ff if even).
func totalCffdictPack(nib []byte, term bool) []byte {
	if term {
		nib = append(append([]byte(nil), nib...), 15)
	}
	if len(nib)%2 == 1 {
		nib = append(nib, 15)
	}
	var out []byte
	for i := 0; i+1 < len(nib); i += 2 {
		out = append(out, nib[i]<<4|nib[i+1])
	}
	return out
}

// totalCffdictRealNibbles: a random real as nibbles; how names the syntax class.
func totalCffdictRealNibbles(r *Rng) (nib []byte, how string) {
	nd := r.Range(1, 12)
	var digs []byte
	for i := 0; i < nd; i++ {
		digs = append(digs, byte(r.Intn(10)))
	}
	if r.Chance(3, 4) && digs[0] == 0 {
		digs[0] = byte(r.Range(1, 9))
	}
	how = fmt.Sprintf("%ddig", nd)
	if r.Chance(1, 3) {
		nib = append(nib, 0xe)
		how += ",-"
	}
	switch r.Intn(4) {
	case 0:
		nib = append(nib, digs...)
	case 1:
		k := r.Intn(nd + 1)
		nib = append(nib, digs[:k]...)
		nib = append(nib, 0xa)
		nib = append(nib, digs[k:]...)
		how += ",."
	case 2:
		nib = append(nib, digs...)
		nib = append(nib, 0xb)
		nib = append(nib, byte(r.Range(0, 9)))
		if r.Bool() {
			nib = append(nib, byte(r.Range(0, 9)))
		}
		how += ",e"
	case 3:
		k := r.Intn(nd + 1)
		nib = append(nib, digs[:k]...)
		nib = append(nib, 0xa)
		nib = append(nib, digs[k:]...)
		nib = append(nib, 0xc)
		nib = append(nib, byte(r.Range(0, 9)))
		if r.Bool() {
			nib = append(nib, byte(r.Range(0, 9)))
		}
		how += ",.e-"
	}
	switch r.Intn(14) {
	case 0:
		nib[r.Intn(len(nib))] = 0xd
		how = "reserved-d"
	case 1:
		nib = append(nib, 0xb)
		how = "dangling-e"
	case 2:
		nib = append([]byte{0xe, 0xe}, nib...)
		how = "double-minus"
	case 3:
		nib = append(nib, 0xa, 0xa)
		how = "two-dots"
	case 4:
		nib = append(nib, 0xb, byte(r.Range(3, 9)), byte(r.Range(0, 9)), byte(r.Range(0, 9)))
		how = "e+3digits"
	case 5:
		nib = append(nib, 0xc, byte(r.Range(2, 9)), byte(r.Range(0, 9)), byte(r.Range(0, 9)))
		how = "e-3digits"
	case 6:
		nib = nil
		how = "empty"
	case 7:
		for i := 0; i < 8; i++ {
			nib = append(nib, byte(r.Intn(10)))
		}
		how = "more-digits"
	}
	return nib, how
}

var totalCffdictBoundary = []int{-1132, -1131, -108, -107, 107, 108, 1131, 1132, 32767, 32768, -32767, -32768,
	-32769, 2147483647, -2147483648, 0, 1, -1, 390, 391, 392, 393, 395, 396, 65535, 65536}

var totalCffdictStringOps = []int{0, 1, 2, 3, 4, 0x0c00, 0x0c15, 0x0c16, 0x0c1e, 0x0c26}

func totalCffdictOp(op int) []byte {
	if op >= 0x0c00 {
		return []byte{12, byte(op)}
	}
	return []byte{byte(op)}
}

// totalCffdictGen builds one structured DICT.
func totalCffdictGen(r *Rng) (b []byte, how string) {
	how = "structured"
	nEnt := r.Range(1, 6)
	for e := 0; e < nEnt; e++ {
		str := r.Chance(1, 3)
		var op int
		if str {
			op = Pick(r, totalCffdictStringOps)
		} else if r.Bool() {
			op = r.Range(0, 21)
			if op == 12 {
				op = 0x0c00 | r.Range(0, 40)
			}
		} else {
			op = 0x0c00 | r.Range(0, 40)
		}
		nArg := r.Range(0, 3)
		if r.Chance(1, 8) {
			nArg = r.Range(4, 14) // arrays (BlueValues, FontMatrix, XUID …)
		}
		for a := 0; a < nArg; a++ {
			switch r.Intn(10) {
			case 0, 1, 2:
				b = append(b, totalCffdictInt(Pick(r, totalCffdictBoundary), Pick(r, []int{0, 0, 3, 5}))...)
			case 3, 4:
				b = append(b, totalCffdictInt(r.Range(-1200, 1200), Pick(r, []int{0, 0, 0, 3, 5}))...)
			case 5:
				b = append(b, totalCffdictInt(r.Range(380, 400), Pick(r, []int{0, 3, 5}))...) // SIDs around nStdString
			case 6:
				b = append(b, totalCffdictInt(int(int32(r.U64())), 0)...)
			case 7, 8:
				nib, _ := totalCffdictRealNibbles(r)
				b = append(b, 30)
				b = append(b, totalCffdictPack(nib, true)...)
			case 9: // an integral real (usable as a SID)
				nib := []byte{byte(r.Range(0, 3)), byte(r.Range(0, 9)), byte(r.Range(0, 9))}
				if r.Bool() {
					nib = append(nib, 0xa, 0)
				}
				b = append(b, 30)
				b = append(b, totalCffdictPack(nib, true)...)
			}
		}
		b = append(b, totalCffdictOp(op)...)
	}
	switch r.Intn(12) {
	case 0:
		b = append(b, totalCffdictInt(r.Range(-5, 5), 0)...)
		how = "operand-left-on-stack"
	case 1:
		b = append(b, byte(Pick(r, []int{22, 23, 27, 31, 255})))
		how = "reserved-byte"
	case 2:
		b = append(b, Pick(r, [][]byte{{12}, {28}, {28, 1}, {29}, {29, 1}, {29, 1, 2}, {29, 1, 2, 3}, {30}, {30, 0x12}, {247}, {250}, {251}, {254}})...)
		how = "truncated-operand"
	}
	return b, how
}

func init() {
	ops["tmcffdict.dict"] = func(f Fields) string {
		n := 0
		if f["strings"] != "" {
			n = f.Int("strings")
		}
		return totalCffdictDict(f.Hex("bytes"), n)
	}
	ops["tmcffdict.float"] = func(f Fields) string { return totalCffdictFloat(f.Hex("bytes")) }

	totalModelGens["cffdict"] = func(c *Ctx, r *Rng, seeds []totalSeed) {
		budget := c.N / 3
		if budget < 60 {
			budget = 60
		}
		nd, nf := 0, 0
		dictCase := func(how string, b []byte, n int) {
			if len(b) > 8000 {
				return
			}
			arg := "bytes=" + hx(b)
			if n > 0 {
				arg += fmt.Sprintf(" strings=%d", n)
			}
			out := c.Case(Verdict, "tmcffdict.dict", arg, len(b) >= 2)
			nd++
			c.Stat("tmcffdict:dict", totalCffdictCls(out))
			c.Stat("tmcffdict:dict-how", how+" -> "+totalCffdictCls(out))
			c.Stat("tmcffdict:dict-len", bucket(len(b)))
		}
		floatCase := func(how string, b []byte) {
			out := c.Case(Verdict, "tmcffdict.float", "bytes="+hx(b), len(b) >= 1)
			nf++
			cls := totalCffdictCls(out)
			if strings.HasSuffix(out, ":long") {
				cls = "ok-long"
			}
			c.Stat("tmcffdict:float", cls)
			c.Stat("tmcffdict:float-how", how+" -> "+cls)
		}

		// ---- fixed: a Top DICT with integer, real, SID, array and escape operators
		// version=SID 391, Notice=SID 1, FontBBox array, ItalicAngle real -12.5, FontMatrix 6 reals,
		// charset/CharStrings offsets, Private size+offset, ROS (2 SIDs + int)
		top := []byte{}
		top = append(top, totalCffdictInt(391, 0)...)
		top = append(top, 0)
		top = append(top, totalCffdictInt(1, 0)...)
		top = append(top, 1)
		top = append(top, totalCffdictInt(-50, 0)...)
		top = append(top, totalCffdictInt(-250, 0)...)
		top = append(top, totalCffdictInt(1000, 0)...)
		top = append(top, totalCffdictInt(32767, 0)...)
		top = append(top, 5)
		top = append(top, 30, 0xe1, 0x2a, 0x5f, 12, 2)
		for i := 0; i < 6; i++ {
			if i == 0 || i == 3 {
				top = append(top, 30, 0xa0, 0x01, 0xff) // .001
			} else {
				top = append(top, 139)
			}
		}
		top = append(top, 12, 7)
		top = append(top, totalCffdictInt(100000, 0)...)
		top = append(top, 17)
		top = append(top, totalCffdictInt(45, 0)...)
		top = append(top, totalCffdictInt(3000, 0)...)
		top = append(top, 18)
		dictCase("fixed-top", top, 2)
		ros := append(append(append(totalCffdictInt(392, 0), totalCffdictInt(5, 0)...), totalCffdictInt(3, 0)...), 12, 30)
		dictCase("fixed-ros", append(append([]byte(nil), ros...), top...), 2)
		dictCase("fixed-ros-4args", append(totalCffdictInt(7, 0), ros...), 2)
		dictCase("fixed-ros-1arg", append(totalCffdictInt(7, 0), 12, 30), 0)
		dictCase("fixed-empty", nil, 0)
		dictCase("fixed-op-only", []byte{0}, 0)
		dictCase("fixed-real-sid", []byte{30, 0x5f, 0}, 0)                               // real 5 as SID
		dictCase("fixed-real-sid", []byte{30, 0x5a, 0x5f, 0}, 0)                         // real 5.5 as SID
		dictCase("fixed-real-sid", []byte{30, 0x5b, 0x12, 0xff, 0}, 0)                   // 5e12 as SID
		dictCase("fixed-real-sid", []byte{30, 0xe5, 0xff, 0}, 0)                         // -5 as SID
		dictCase("fixed-real-sid", []byte{30, 0x21, 0x47, 0x48, 0x36, 0x48, 0xff, 0}, 0) // 2147483648 as SID
		dictCase("fixed-real-sid", []byte{30, 0x39, 0x2f, 0}, 1)                         // 392 with 1 custom: out of range
		dictCase("fixed-real-sid", []byte{30, 0x39, 0x1f, 0}, 1)                         // 391 with 1 custom: in range
		// every operator once, with one operand
		for op := 0; op <= 21; op++ {
			if op != 12 {
				dictCase("every-op", []byte{140, byte(op)}, 0)
			}
		}
		for op := 0; op <= 40; op++ {
			dictCase("every-op", []byte{140, 12, byte(op)}, 0)
		}
		dictCase("every-op", []byte{140, 12, 255}, 0)
		// every boundary integer in every form, as a plain operand and as a SID
		for _, v := range totalCffdictBoundary {
			for _, form := range []int{0, 3, 5} {
				dictCase("boundary-int", append(totalCffdictInt(v, form), 17), 0)
				dictCase("boundary-sid", append(totalCffdictInt(v, form), 2), 3)
			}
		}
		// raw boundary encodings of the five operand classes
		for _, p := range [][]byte{{32}, {246}, {247, 0}, {250, 255}, {251, 0}, {254, 255}, {28, 0x80, 0}, {28, 0x7f, 0xff},
			{29, 0x80, 0, 0, 0}, {29, 0x7f, 0xff, 0xff, 0xff}, {29, 0xff, 0xff, 0xff, 0xff}} {
			dictCase("boundary-raw", append(append([]byte(nil), p...), 6), 0)
			for k := 1; k < len(p); k++ {
				dictCase("truncated-operand", p[:k], 0)
			}
		}
		// too many operands: 100 (and 300) on the stack, for an ordinary and a string operator
		for _, n := range []int{48, 49, 100, 300} {
			var b []byte
			for i := 0; i < n; i++ {
				b = append(b, byte(139+i%50))
			}
			dictCase("many-operands", append(append([]byte(nil), b...), 6), 0)
			dictCase("many-operands", append(append([]byte(nil), b...), 12, 30), 0)
			dictCase("many-operands", append(append([]byte(nil), b...), 2), 0)
			dictCase("many-operands", b, 0)
		}

		// ---- seeds: Top DICT and Private DICT of the CFF seeds
		var dictSeeds [][]byte
		var dictSeedN []int
		for _, s := range seeds {
			if s.dec != "cff" || len(s.bytes) < 4 {
				continue
			}
			b := s.bytes
			nameIdx, ok := totalCffReadIndex(b, int(b[2]))
			if !ok {
				continue
			}
			topIdx, ok := totalCffReadIndex(b, nameIdx.end)
			if !ok || len(topIdx.items) == 0 {
				continue
			}
			strIdx, ok := totalCffReadIndex(b, topIdx.end)
			ns := 0
			if ok {
				ns = len(strIdx.items)
			}
			td := topIdx.items[0]
			if len(dictSeeds) < 40 {
				dictSeeds = append(dictSeeds, td)
				dictSeedN = append(dictSeedN, ns)
				dictCase("seed-top", td, ns)
			}
			if ents, ok := totalCffParseDict(td); ok {
				for _, e := range ents {
					if e.op == 18 && len(e.args) == 2 && e.args[0] >= 0 && e.args[1] >= 0 && e.args[0]+e.args[1] <= len(b) && len(dictSeeds) < 40 {
						pd := b[e.args[1] : e.args[1]+e.args[0]]
						dictSeeds = append(dictSeeds, pd)
						dictSeedN = append(dictSeedN, ns)
						dictCase("seed-private", pd, ns)
					}
				}
			}
		}
		c.Stat("tmcffdict:dict-seeds", bucket(len(dictSeeds)))

		// ---- generated
		trunc := 0
		for i := 0; nd < budget && i < 4*budget; i++ {
			switch {
			case i%10 < 5:
				b, how := totalCffdictGen(r)
				n := Pick(r, []int{0, 0, 2, 5})
				dictCase(how, b, n)
				if len(b) <= 40 && trunc < budget/5 {
					for k := 0; k < len(b); k++ {
						dictCase("truncate-every", b[:k], n)
						trunc++
					}
				}
			case i%10 < 8:
				var b []byte
				var how string
				n := 0
				if len(dictSeeds) > 0 && r.Bool() {
					k := r.Intn(len(dictSeeds))
					b, how = totalMutate(r, dictSeeds[k])
					n = dictSeedN[k]
				} else {
					g, _ := totalCffdictGen(r)
					b, how = totalMutate(r, g)
					n = Pick(r, []int{0, 2})
				}
				dictCase("mutate:"+how, b, n)
			case i%10 < 9:
				dictCase("random", r.Bytes(r.Range(0, 24)), Pick(r, []int{0, 3}))
			default:
				// random bytes biased to operand/operator prefixes
				var b []byte
				for k := r.Range(1, 12); k > 0; k-- {
					b = append(b, Pick(r, []byte{12, 28, 29, 30, 31, 22, 247, 251, 254, 255, 0, 6, 139, byte(r.U64()), byte(r.U64())}))
				}
				dictCase("random-prefixes", b, 0)
			}
		}

		// ---- decodeFloat
		for _, h := range []string{"", "ff", "0f", "f0", "1f", "12", "1234", "e1ff", "a5ff", "1a5f", "1b2f", "1c2f", "1d2f", "d0", "0d",
			"eeff", "aaff", "bf", "cf", "ef", "af", "1b", "e2a25f", "a140541f", "0a140541c3ff", "1b309f", "1b308f", "1c320f", "9b999f",
			"123456789012345f", "1234567890123456ff", "a000000000000000000001ff"} {
			b := []byte{}
			for k := 0; k+1 < len(h); k += 2 {
				v, _ := strconv.ParseUint(h[k:k+2], 16, 8)
				b = append(b, byte(v))
			}
			floatCase("fixed", b)
		}
		truncF := 0
		for i := 0; nf < budget && i < 4*budget; i++ {
			switch {
			case i%10 < 6:
				nib, how := totalCffdictRealNibbles(r)
				term := !r.Chance(1, 10)
				if !term {
					how = "unterminated"
				}
				b := totalCffdictPack(nib, term)
				if !term && len(b) > 0 && b[len(b)-1]&15 == 15 { // the padding nibble must not terminate
					b[len(b)-1] &= 0xf0
				}
				b = append(b, r.Bytes(r.Intn(4))...)
				floatCase(how, b)
				if len(b) <= 10 && truncF < budget/5 {
					for k := 0; k < len(b); k++ {
						floatCase("truncate-every", b[:k])
						truncF++
					}
				}
			case i%10 < 8:
				nib, _ := totalCffdictRealNibbles(r)
				b, how := totalMutate(r, totalCffdictPack(nib, true))
				floatCase("mutate:"+how, b)
			default:
				floatCase("random", r.Bytes(r.Range(0, 12)))
			}
		}
	}
}
