package main

import (
	"errors"
	"fmt"
	"io"
	"strings"

	"seehuhn.de/go/sfnt/parser"
)

// chunkReader is an in-memory ReadSeekSizer whose Read delivers short reads according to
// a list of chunk sizes (the same oracle the Lean model is driven with).
type chunkReader struct {
	data   []byte
	pos    int64
	chunks []int
	calls  int
	// eofWithData: the read that delivers the last byte of the input returns (n, io.EOF) - what
	// io.Reader explicitly allows - instead of reporting EOF on a separate empty read
	eofWithData bool
	// zeroEvery > 0: every zeroEvery-th call of Read delivers nothing and no error, (0, nil) - the
	// extreme short read io.Reader permits; the model never sees these calls
	zeroEvery int
	reads     int
}

func (r *chunkReader) Size() int64 { return int64(len(r.data)) }
func (r *chunkReader) Seek(off int64, whence int) (int64, error) {
	if whence != io.SeekStart || off < 0 {
		return 0, errors.New("bad seek")
	}
	r.pos = off
	return off, nil
}
func (r *chunkReader) Read(p []byte) (int, error) {
	if r.pos >= int64(len(r.data)) {
		return 0, io.EOF
	}
	avail := len(r.data) - int(r.pos)
	w := len(p)
	if w == 0 {
		return 0, nil
	}
	r.reads++
	if r.zeroEvery > 0 && r.reads%r.zeroEvery == 0 {
		return 0, nil
	}
	c := w
	if len(r.chunks) > 0 {
		c = r.chunks[r.calls%len(r.chunks)]
	}
	if c > w {
		c = w
	}
	if c > avail {
		c = avail
	}
	if c < 1 {
		c = 1
	}
	r.calls++
	copy(p, r.data[r.pos:int(r.pos)+c])
	r.pos += int64(c)
	if r.eofWithData && r.pos == int64(len(r.data)) {
		return c, io.EOF
	}
	return c, nil
}

func errClass(err error) string {
	if err == io.ErrUnexpectedEOF {
		return "eof"
	}
	return "err:" + strings.ReplaceAll(err.Error(), " ", "_")
}

// runParserOps executes ops on the real parser; returns the verdict line and window line.
func runParserOps(input []byte, chunks []int, ops []string, eofWithData bool, zeroEvery int) (string, string) {
	var outs, wins []string
	res := guard(func() string {
		p := parser.New(&chunkReader{data: input, chunks: chunks, eofWithData: eofWithData, zeroEvery: zeroEvery})
		for _, op := range ops {
			var o string
			var n int
			name := op
			if i := strings.IndexByte(op, ':'); i >= 0 {
				name = op[:i]
				fmt.Sscan(op[i+1:], &n)
			}
			switch name {
			case "seek":
				if err := p.SeekPos(int64(n)); err != nil {
					o = errClass(err)
				} else {
					o = "unit"
				}
			case "discard":
				if err := p.Discard(n); err != nil {
					o = errClass(err)
				} else {
					o = "unit"
				}
			case "bytes":
				b, err := p.ReadBytes(n)
				if err != nil {
					o = errClass(err)
				} else {
					o = "data:" + hx(b)
				}
			case "read":
				buf := make([]byte, n)
				k, err := p.Read(buf)
				if err == nil {
					o = "data:" + hx(buf[:k])
				} else if err == io.ErrUnexpectedEOF {
					o = fmt.Sprintf("short:%d:%s", k, hx(buf[:k]))
				} else {
					o = errClass(err)
				}
			case "u8":
				v, err := p.ReadUint8()
				if err != nil {
					o = errClass(err)
				} else {
					o = fmt.Sprintf("num:%d", v)
				}
			case "u16":
				v, err := p.ReadUint16()
				if err != nil {
					o = errClass(err)
				} else {
					o = fmt.Sprintf("num:%d", v)
				}
			case "i16":
				v, err := p.ReadInt16()
				if err != nil {
					o = errClass(err)
				} else {
					o = fmt.Sprintf("int:%d", v)
				}
			case "u32":
				v, err := p.ReadUint32()
				if err != nil {
					o = errClass(err)
				} else {
					o = fmt.Sprintf("num:%d", v)
				}
			case "u16s":
				v, err := p.ReadUint16Slice()
				if err != nil {
					o = errClass(err)
				} else {
					l := make([]int, len(v))
					for i, x := range v {
						l[i] = int(x)
					}
					o = "nums:" + ints(l)
				}
			case "pos":
				o = fmt.Sprintf("num:%d", p.Pos())
			case "size":
				o = fmt.Sprintf("num:%d", p.Size())
			default:
				o = "bad-op"
			}
			outs = append(outs, fmt.Sprintf("%s@%d", o, p.Pos()))
			f, ps, u := p.VerifState()
			wins = append(wins, fmt.Sprintf("%d,%d,%d", f, ps, u))
		}
		return ""
	})
	if res != "" {
		return res, res
	}
	return strings.Join(outs, ";"), strings.Join(wins, ";")
}

func parserCase(c *Ctx, input []byte, chunks []int, ops []string) {
	args := fmt.Sprintf("input=%s chunks=%s ops=%s", hx(input), ints(chunks), strings.Join(ops, ";"))
	// the model knows nothing about how the source reports the end of the input (the property says
	// it must not matter): a third of the cases use a source that returns the last bytes together
	// with io.EOF
	if c.Rng.Chance(1, 3) {
		args += " eof=data"
		c.Stat("eof", "with-data")
	} else {
		c.Stat("eof", "separate")
	}
	// likewise for reads that deliver nothing without an error
	if c.Rng.Chance(1, 4) {
		k := Pick(c.Rng, []int{2, 2, 3, 5})
		args += fmt.Sprintf(" zero=%d", k)
		c.Stat("zero-reads", fmt.Sprintf("every-%d", k))
	} else {
		c.Stat("zero-reads", "none")
	}
	nontriv := len(ops) >= 2 && len(input) > 0
	v := c.Case(Verdict, "parser.ops", args, nontriv)
	c.Case(Direct, "parser.spec", args, nontriv)
	c.Case(Diagnostic, "parser.win", args, false)
	c.Stat("input_len", bucket(len(input)))
	c.Stat("ops", bucket(len(ops)))
	for _, o := range strings.Split(v, ";") {
		k := o
		if i := strings.IndexAny(o, ":@"); i >= 0 {
			k = o[:i]
		}
		c.Stat("outcome", k)
	}
	if len(chunks) == 0 {
		c.Stat("oracle", "all")
	} else if len(chunks) == 1 && chunks[0] == 1 {
		c.Stat("oracle", "one-byte")
	} else {
		c.Stat("oracle", "random")
	}
}

func init() {
	areas["parser"] = areaParser
	run := func(win bool) opFn {
		return func(f Fields) string {
			zero := 0
			if f["zero"] != "" {
				zero = f.Int("zero")
			}
			v, w := runParserOps(f.Hex("input"), f.Ints("chunks"), f.List("ops", ";"), f["eof"] == "data", zero)
			if win {
				return w
			}
			return v
		}
	}
	ops["parser.ops"] = run(false)
	ops["parser.spec"] = run(false)
	ops["parser.win"] = run(true)
}

func areaParser(c *Ctx) {
	r := c.Rng
	bs := 1024
	boundary := func(n int) []int {
		// far targets: positions whose low 32 (or 31) bits fall inside a buffered window must not be
		// mistaken for in-window positions (positions are int64 in the code, unbounded in the model)
		l := []int{0, 1, bs - 1, bs, bs + 1, 2*bs - 1, 2 * bs, 2*bs + 1, n - 1, n, n + 1,
			1 << 31, 1<<32 - 1, 1 << 32, 1<<32 + 1, 1<<32 + 8, 1<<32 + bs, 1<<32 + n, 1 << 40}
		out := l[:0]
		for _, x := range l {
			if x >= 0 {
				out = append(out, x)
			}
		}
		return out
	}
	sizes := []int{0, 1, 2, 4, bs - 1, bs}
	alphabet := func(n int) []string {
		var a []string
		for _, p := range boundary(n) {
			a = append(a, fmt.Sprintf("seek:%d", p))
		}
		for _, s := range sizes {
			a = append(a, fmt.Sprintf("bytes:%d", s))
		}
		a = append(a, "u8", "u16", "i16", "u32", "u16s", "pos", "size",
			"read:0", "read:3", fmt.Sprintf("read:%d", bs), fmt.Sprintf("read:%d", bs+1), fmt.Sprintf("read:%d", 3*bs),
			"discard:0", "discard:1", fmt.Sprintf("discard:%d", bs))
		return a
	}
	mkInput := func(n int) []byte {
		b := r.Bytes(n)
		// make u16s interesting: small counts at some even positions
		for i := 0; i+1 < n; i += 2 {
			if r.Chance(1, 3) {
				b[i] = 0
				b[i+1] = byte(r.Intn(6))
			}
		}
		return b
	}
	oracles := [][]int{nil, {1}, {3, 1, 1024, 7}}

	// exhaustive short sequences over the boundary alphabet
	depth := 2
	lens := []int{0, 1, 1025, 2049}
	if c.Tier == "thorough" {
		depth = 3
		lens = []int{0, 1, 2, 1023, 1024, 1025, 2048, 2049, 3000}
	}
	for _, n := range lens {
		input := mkInput(n)
		a := alphabet(n)
		var rec func(prefix []string, d int)
		rec = func(prefix []string, d int) {
			if len(prefix) > 0 {
				o := oracles[0]
				if k := r.Intn(10); k == 0 {
					o = oracles[1] // one byte at a time: costly in the model, sampled thinly
				} else if k < 5 {
					o = oracles[2]
				}
				parserCase(c, input, o, append([]string(nil), prefix...))
			}
			if d == 0 {
				return
			}
			for _, op := range a {
				rec(append(prefix, op), d-1)
			}
		}
		rec(nil, depth)
		c.Stat("exhaustive", fmt.Sprintf("len=%d depth=%d alphabet=%d", n, depth, len(a)))
	}

	// random histories
	for i := 0; i < c.N; i++ {
		var n int
		switch r.Intn(6) {
		case 0:
			n = r.Intn(8)
		case 1:
			n = Pick(r, []int{1023, 1024, 1025, 2047, 2048, 2049})
		default:
			n = r.Intn(5001)
		}
		input := mkInput(n)
		var chunks []int
		oneByte := false
		switch r.Intn(10) {
		case 0, 1, 2, 3:
		case 4:
			chunks = []int{1}
			oneByte = true
		default:
			k := r.Range(1, 6)
			for j := 0; j < k; j++ {
				chunks = append(chunks, Pick(r, []int{1, 2, 3, 100, 1023, 1024, r.Range(1, 1200)}))
			}
		}
		nops := r.Range(1, 40)
		if r.Chance(1, 10) {
			nops = r.Range(100, 200)
		}
		if oneByte {
			nops = r.Range(1, 8)
		}
		a := alphabet(n)
		var ops []string
		for j := 0; j < nops; j++ {
			switch r.Intn(8) {
			case 0:
				if r.Chance(1, 12) {
					// far seek whose low 32 bits are a small offset
					ops = append(ops, fmt.Sprintf("seek:%d", (1+r.Intn(3))<<32+r.Intn(n+3)))
				} else {
					ops = append(ops, fmt.Sprintf("seek:%d", r.Intn(n+3)))
				}
			case 1:
				ops = append(ops, fmt.Sprintf("bytes:%d", r.Intn(bs+1)))
			case 2:
				ops = append(ops, fmt.Sprintf("read:%d", r.Intn(4000)))
			case 3:
				ops = append(ops, fmt.Sprintf("discard:%d", r.Intn(600)))
			default:
				ops = append(ops, Pick(r, a))
			}
		}
		parserCase(c, input, chunks, ops)
	}
}
