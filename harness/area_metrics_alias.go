package main

// C12 — "results of earlier calls are not disturbed by later calls" for every encoder/decoder pair
// covered by C12 (hmtx/hhea, head, maxp, OS/2, post header): Encode(A) -> a, snapshot, Encode(B),
// a must equal the snapshot and still decode to A; Decode(a) -> x, Decode(b), x unchanged.

import (
	"bytes"
	"fmt"
	"strings"

	"seehuhn.de/go/postscript/funit"

	"seehuhn.de/go/sfnt/head"
	"seehuhn.de/go/sfnt/hmtx"
	"seehuhn.de/go/sfnt/maxp"
	"seehuhn.de/go/sfnt/os2"
	"seehuhn.de/go/sfnt/post"
)

// nested argument lists: ' ' -> '|', '=' -> '~'
func packArgs(s string) string {
	return strings.ReplaceAll(strings.ReplaceAll(s, " ", "|"), "=", "~")
}
func unpackArgs(s string) Fields {
	return parseFields(strings.ReplaceAll(strings.ReplaceAll(s, "|", " "), "~", "="))
}

func mMaxp(f Fields) *maxp.Info {
	m := &maxp.Info{NumGlyphs: f.Int("n")}
	if f["ttf"] != "-" {
		v := f.Ints("ttf")
		m.TTF = &maxp.TTFInfo{MaxPoints: uint16(v[0]), MaxContours: uint16(v[1]), MaxCompositePoints: uint16(v[2]),
			MaxCompositeContours: uint16(v[3]), MaxZones: uint16(v[4]), MaxTwilightPoints: uint16(v[5]),
			MaxStorage: uint16(v[6]), MaxFunctionDefs: uint16(v[7]), MaxInstructionDefs: uint16(v[8]),
			MaxStackElements: uint16(v[9]), MaxSizeOfInstructions: uint16(v[10]), MaxComponentElements: uint16(v[11]),
			MaxComponentDepth: uint16(v[12])}
	}
	return m
}

type codec struct {
	encode func(f Fields) [][]byte
	// decode returns a function printing the CURRENT contents of the decoded object
	decode func(tabs [][]byte) (func() string, error)
}

var codecs = map[string]codec{
	"hmtx": {
		encode: func(f Fields) [][]byte { a, b := mInfo(f).Encode(); return [][]byte{a, b} },
		decode: func(t [][]byte) (func() string, error) {
			info, err := hmtx.Decode(t[0], t[1])
			if err != nil {
				return nil, err
			}
			return func() string {
				return fmt.Sprintf("%d,%d,%d,%d;w=%s;lsb=%s", info.Ascent, info.Descent, info.LineGap, info.CaretOffset,
					mPlainInts(info.Widths), mPlainInts(info.LSB))
			}, nil
		},
	},
	"head": {
		encode: func(f Fields) [][]byte { return [][]byte{mHead(f).Encode()} },
		decode: func(t [][]byte) (func() string, error) {
			h, err := head.Read(bytes.NewReader(t[0]))
			if err != nil {
				return nil, err
			}
			return func() string { return mShowHead(h) }, nil
		},
	},
	"maxp": {
		encode: func(f Fields) [][]byte { return [][]byte{mMaxp(f).Encode()} },
		decode: func(t [][]byte) (func() string, error) {
			m, err := maxp.Read(bytes.NewReader(t[0]))
			if err != nil {
				return nil, err
			}
			return func() string { return fmt.Sprintf("%d;%v", m.NumGlyphs, m.TTF) }, nil
		},
	},
	"os2": {
		encode: func(f Fields) [][]byte { return [][]byte{mOs2(f).Encode()} },
		decode: func(t [][]byte) (func() string, error) {
			o, err := os2.Read(bytes.NewReader(t[0]))
			if err != nil {
				return nil, err
			}
			return func() string { return mShowOs2(o) }, nil
		},
	},
	"post": {
		encode: func(f Fields) [][]byte {
			p := &post.Info{ItalicAngle: float64(f.Int("angle")) / 65536, UnderlinePosition: funit.Int16(f.Int("upos")),
				UnderlineThickness: funit.Int16(f.Int("uthick")), IsFixedPitch: mBool(f, "fixed")}
			return [][]byte{p.Encode()}
		},
		decode: func(t [][]byte) (func() string, error) {
			p, err := post.Read(bytes.NewReader(t[0]))
			if err != nil {
				return nil, err
			}
			return func() string {
				return fmt.Sprintf("%v,%d,%d,%v", p.ItalicAngle, p.UnderlinePosition, p.UnderlineThickness, p.IsFixedPitch)
			}, nil
		},
	},
}

func copyTabs(t [][]byte) [][]byte {
	out := make([][]byte, len(t))
	for i, b := range t {
		if b != nil {
			out[i] = append([]byte{}, b...)
		}
	}
	return out
}

func sameTabs(a, b [][]byte) bool {
	for i := range a {
		if !bytes.Equal(a[i], b[i]) {
			return false
		}
	}
	return true
}

func init() {
	ops["metrics.nodisturb"] = func(f Fields) string {
		return canonPanic(guard(func() string {
			cd, ok := codecs[f["enc"]]
			if !ok {
				return "bad-codec"
			}
			A, B := unpackArgs(f["a"]), unpackArgs(f["b"])
			a := cd.encode(A)
			snap := copyTabs(a)
			showA0, err := cd.decode(copyTabs(a))
			if err != nil {
				return "ok" // not decodable (outside the codec's domain): nothing to compare
			}
			want := showA0()
			b := cd.encode(B)
			if !sameTabs(a, snap) {
				return "disturbed:bytes returned by Encode(A) changed during Encode(B)"
			}
			showA, err := cd.decode(a)
			if err != nil || showA() != want {
				return "disturbed:Encode(A) no longer decodes to A after Encode(B)"
			}
			// decoders: the first result must not alias the input of / be changed by the second call
			if showB, err := cd.decode(b); err == nil {
				_ = showB()
			}
			if showA() != want {
				return "disturbed:result of Decode(a) changed during Decode(b)"
			}
			// ... nor by later writes to the table bytes it was decoded from
			for _, t := range a {
				for i := range t {
					t[i] ^= 0xFF
				}
			}
			if showA() != want {
				return "disturbed:result of Decode(a) aliases the table bytes"
			}
			return "ok"
		}))
	}
}

func genHmtxArgs(r *Rng, g int) string {
	ws := widthsWithTail(r, g, r.Range(1, g), false, false)
	es := rectsFor(r, ws, 0)
	return fmt.Sprintf("w=%s ext=%s lsb=- asc=%d desc=%d gap=%d coff=%d rise=1 run=0",
		mShowInts(ws), mShowRects(es), mI16(r), mI16(r), mI16(r), mI16(r))
}

func genHeadArgs(r *Rng) string {
	return fmt.Sprintf("rev=%d y0=%d x0=%d nl=%d upm=%d created=%d:0 modified=%d:0 bbox=%d:%d:%d:%d bold=%d italic=%d shadow=%d cond=%d extd=%d ppem=%d loca=%d",
		r.Range(0, 1<<31), r.Intn(2), r.Intn(2), r.Intn(2), r.Range(16, 16384), r.Range(0, 1<<31), r.Range(0, 1<<31),
		mI16(r), mI16(r), mI16(r), mI16(r), r.Intn(2), r.Intn(2), r.Intn(2), r.Intn(2), r.Intn(2), r.Range(0, 65535), r.Intn(2))
}

func genMaxpArgs(r *Rng) string {
	ttf := "-"
	if r.Bool() {
		v := make([]int, 13)
		for j := range v {
			v[j] = r.Range(0, 65535)
		}
		ttf = ints(v)
	}
	return fmt.Sprintf("n=%d ttf=%s", r.Range(1, 65535), ttf)
}

func genOs2Args(r *Rng) string {
	sub := make([]int, 10)
	for j := range sub {
		sub[j] = mI16(r)
	}
	last := r.Range(0, 0xFFFE)
	return fmt.Sprintf("wc=%d wd=%d bold=%d italic=%d regular=0 oblique=%d first=%d last=%d asc=%d desc=%d wasc=%d wdesc=%d "+
		"gap=%d cap=%d xh=%d avg=%d sub=%s fam=%d panose=%s vendor=%s ur=%d,%d,%d,%d cpr=%d perm=%d nosub=%d bitmap=%d",
		r.Range(1, 1000), r.Range(1, 9), r.Intn(2), r.Intn(2), r.Intn(2), r.Range(0, last), last, mI16(r), mI16(r), mI16(r), mI16(r),
		mI16(r), r.Range(0, 1500), r.Range(0, 1200), mI16(r), ints(sub), mI16(r), hx(r.Bytes(10)), hx([]byte("VRFY")),
		uint32(r.U64()), uint32(r.U64())&^(1<<25), uint32(r.U64()), uint32(r.U64()), r.U64(), r.Intn(4), r.Intn(2), r.Intn(2))
}

func genPostArgs(r *Rng) string {
	return fmt.Sprintf("angle=%d upos=%d uthick=%d fixed=%d", r.Range(-30*65536, 30*65536), mI16(r), mI16(r), r.Intn(2))
}

// areaMetricsAlias is called from areaMetrics.
func areaMetricsAlias(c *Ctx) {
	r := c.Rng
	k := c.N/40 + 4
	for i := 0; i < k; i++ {
		// hmtx: B with the same number of glyphs, fewer, or more
		g := r.Range(1, 40)
		gb := Pick(r, []int{g, g, r.Range(1, g), g + r.Range(1, 10)})
		c.Case(Direct, "metrics.nodisturb", "enc=hmtx a="+packArgs(genHmtxArgs(r, g))+" b="+packArgs(genHmtxArgs(r, gb)), true)
		c.Case(Direct, "metrics.nodisturb", "enc=head a="+packArgs(genHeadArgs(r))+" b="+packArgs(genHeadArgs(r)), true)
		c.Case(Direct, "metrics.nodisturb", "enc=maxp a="+packArgs(genMaxpArgs(r))+" b="+packArgs(genMaxpArgs(r)), true)
		c.Case(Direct, "metrics.nodisturb", "enc=os2 a="+packArgs(genOs2Args(r))+" b="+packArgs(genOs2Args(r)), true)
		c.Case(Direct, "metrics.nodisturb", "enc=post a="+packArgs(genPostArgs(r))+" b="+packArgs(genPostArgs(r)), true)
		c.Stat("nodisturb", "5 codecs")
	}
}
