//go:build verif

package main

// Verdict stream of the checked-index model of cmap.decodeFormat4 (property C02, group cmap4):
//   tmcmap4.decode bytes=<hex>          -> ok:<code:gid sorted by code> | err | panic
//   tmcmap4.lazy   bytes=<hex> rs=<ints> -> ok:<low>,<high>;<Lookup(r) for every r> | err | panic

import (
	"fmt"
	"sort"
	"strings"

	"seehuhn.de/go/sfnt/cmap"
	"seehuhn.de/go/sfnt/glyph"
)

func totalCmap4Show(m map[uint16]glyph.ID) string {
	keys := make([]int, 0, len(m))
	for k, v := range m {
		if v != 0 {
			keys = append(keys, int(k))
		}
	}
	sort.Ints(keys)
	parts := make([]string, len(keys))
	for i, k := range keys {
		parts[i] = fmt.Sprintf("%d:%d", k, m[uint16(k)])
	}
	return strings.Join(parts, ",")
}

type totalCmap4Seg struct {
	start, end, delta, ro uint16
}

// totalCmap4Build lays out a format 4 subtable from its arrays (no validation).
func totalCmap4Build(segCountX2 int, segs []totalCmap4Seg, ga []uint16) []byte {
	var w []uint16
	n := len(segs)
	w = append(w, 4, uint16(16+8*n+2*len(ga)), 0, uint16(segCountX2), 0, 0, 0)
	for _, s := range segs {
		w = append(w, s.end)
	}
	w = append(w, 0)
	for _, s := range segs {
		w = append(w, s.start)
	}
	for _, s := range segs {
		w = append(w, s.delta)
	}
	for _, s := range segs {
		w = append(w, s.ro)
	}
	w = append(w, ga...)
	b := make([]byte, 0, 2*len(w))
	for _, x := range w {
		b = append(b, byte(x>>8), byte(x))
	}
	return b
}

// totalCmap4Gen builds a structured, mostly valid subtable; the returned tag names the variant.
func totalCmap4Gen(r *Rng) ([]byte, string) {
	n := r.Range(1, 6)
	if r.Chance(1, 25) {
		n = 0
	}
	segs := make([]totalCmap4Seg, 0, n+1)
	var ga []uint16
	pos := r.Intn(200)
	if r.Chance(1, 6) {
		pos = 0
	}
	for i := 0; i < n; i++ {
		start := pos + r.Intn(30)
		if r.Chance(1, 3) {
			start = pos // adjacent segments: start == prevEnd
		}
		w := r.Range(1, 30)
		if r.Chance(1, 8) {
			w = 1
		}
		if start+w > 0xFFF0 {
			break
		}
		s := totalCmap4Seg{start: uint16(start), end: uint16(start + w - 1)}
		switch r.Intn(5) {
		case 0: // wrap of uint16(idx)+delta, some codes map to glyph 0
			s.delta = uint16(0x10000 - start - r.Intn(w+1))
		case 1:
			s.delta = uint16(r.U64())
		default:
			s.delta = uint16(r.Intn(500))
		}
		segs = append(segs, s)
		pos = start + w
		if r.Chance(1, 10) {
			pos += 20000
		}
	}
	n = len(segs)
	// the terminating segment
	last := r.Chance(9, 10)
	if last {
		segs = append(segs, totalCmap4Seg{start: 0xFFFF, end: 0xFFFF, delta: 1})
		if r.Chance(1, 5) {
			segs[len(segs)-1].delta = uint16(r.U64())
		}
	}
	tot := len(segs)
	// glyph id arrays for some segments
	for i := 0; i < n; i++ {
		if !r.Chance(2, 5) {
			continue
		}
		w := int(segs[i].end) - int(segs[i].start) + 1
		segs[i].ro = uint16(2 * (tot - i + len(ga)))
		if r.Chance(1, 4) {
			segs[i].delta = uint16(r.U64()) // added to non-zero entries, wraps
		}
		for j := 0; j < w; j++ {
			g := uint16(r.Intn(400))
			if r.Chance(1, 6) {
				g = 0
			}
			if r.Chance(1, 10) {
				g = uint16(0x10000 - int(segs[i].delta)) // entry + delta wraps to 0
			}
			ga = append(ga, g)
		}
	}
	tag := "valid"
	x2 := 2 * tot
	switch v := r.Intn(30); {
	case v == 0 && len(ga) > 0: // glyph id array one short for the last user
		ga = ga[:len(ga)-1]
		tag = "ga-short"
	case v == 1 && last: // leniency: invalid data for the 0xFFFF segment
		segs[tot-1].ro = uint16(r.Range(1, 0xFFFF))
		tag = "ffff-lenient"
	case v == 2 && tot > 0: // same broken range offset on a segment that does not start at 0xFFFF
		i := r.Intn(tot)
		segs[i].ro = uint16(2*(tot-i+len(ga)) + 2*r.Intn(3))
		tag = "ro-past-end"
	case v == 3 && tot > 0: // d < 0
		i := r.Intn(tot)
		segs[i].ro = uint16(r.Intn(2 * (tot - i)))
		tag = "ro-small"
	case v == 4 && tot > 0: // odd range offset
		i := r.Intn(tot)
		segs[i].ro |= 1
		tag = "ro-odd"
	case v == 5:
		x2++
		tag = "x2-odd"
	case v == 6:
		x2 += 2 * r.Range(1, 3)
		tag = "x2-big"
	case v == 7 && tot > 0:
		x2 -= 2
		tag = "x2-small"
	case v == 8 && tot > 1: // overlap: start < prevEnd
		i := r.Range(1, tot-1)
		segs[i].start = segs[i-1].end
		tag = "overlap"
	case v == 9 && tot > 0: // end < start
		i := r.Intn(tot)
		segs[i].start, segs[i].end = segs[i].end+1, segs[i].start
		tag = "end-lt-start"
	case v == 10 && tot > 0: // end code 0xFFFF in the middle
		i := r.Intn(tot)
		segs[i].end = 0xFFFF
		tag = "end-ffff"
	case v == 11:
		x2 = 0
		tag = "x2-zero"
	case v == 12 && tot > 0:
		segs[tot-1].start = 0xFFFF
		segs[tot-1].end = 0xFFFF
		segs[tot-1].ro = uint16(2 * (1 + len(ga)))
		tag = "ffff-ro-at-end"
	}
	b := totalCmap4Build(x2, segs, ga)
	switch r.Intn(40) {
	case 0:
		b = append(b, byte(r.U64()))
		tag += "+odd"
	case 1:
		b = append(b, byte(r.U64()), byte(r.U64()))
		tag += "+2"
	case 2:
		if len(b) >= 2 {
			b = b[:len(b)-2]
			tag += "-2"
		}
	case 3: // exactly 4*segCountX2+16, +2, -2
		want := 8*tot + 16 + 2*(r.Intn(3)-1)
		for len(b) < want {
			b = append(b, 0, byte(r.Intn(4)))
		}
		if want >= 0 && want < len(b) {
			b = b[:want]
		}
		tag += "=len" + fmt.Sprint(want-(8*tot+16))
	}
	return b, tag
}

// totalCmap4Subtables extracts the format 4 subtables of a "cmap" table.
func totalCmap4Subtables(t []byte) [][]byte {
	var out [][]byte
	if len(t) < 4 {
		return nil
	}
	n := int(t[2])<<8 | int(t[3])
	seen := map[int]bool{}
	for i := 0; i < n && 4+8*i+8 <= len(t); i++ {
		rec := t[4+8*i:]
		off := int(rec[4])<<24 | int(rec[5])<<16 | int(rec[6])<<8 | int(rec[7])
		if off < 0 || off+4 > len(t) || seen[off] {
			continue
		}
		seen[off] = true
		if t[off] != 0 || t[off+1] != 4 {
			continue
		}
		l := int(t[off+2])<<8 | int(t[off+3])
		if l < 4 || off+l > len(t) {
			l = len(t) - off
		}
		out = append(out, append([]byte(nil), t[off:off+l]...))
	}
	return out
}

func totalCmap4Class(out string) string {
	switch {
	case strings.HasPrefix(out, "ok:"):
		if out == "ok:" || strings.HasPrefix(out, "ok:0,0;") {
			return "ok-empty"
		}
		return "ok"
	case out == "panic":
		return "panic"
	}
	return out
}

func init() {
	ops["tmcmap4.decode"] = func(f Fields) string {
		return totalCanonPanic(guard(func() string {
			m, err := cmap.VerifDecode4(f.Hex("bytes"))
			if err != nil {
				return "err"
			}
			return "ok:" + totalCmap4Show(m)
		}))
	}
	ops["tmcmap4.lazy"] = func(f Fields) string {
		return totalCanonPanic(guard(func() string {
			m, err := cmap.VerifDecode4(f.Hex("bytes"))
			if err != nil {
				return "err"
			}
			st := cmap.Format4(m)
			lo, hi := st.CodeRange()
			rs := f.Ints("rs")
			gs := make([]int, len(rs))
			for i, r := range rs {
				gs[i] = int(st.Lookup(rune(int32(r))))
			}
			return fmt.Sprintf("ok:%d,%d;%s", lo, hi, ints(gs))
		}))
	}

	totalModelGens["cmap4"] = func(c *Ctx, r *Rng, seeds []totalSeed) {
		emit := func(b []byte, how string) {
			if len(b) > 6000 && !strings.HasPrefix(how, "big") {
				b = b[:6000]
			}
			out := c.Case(Verdict, "tmcmap4.decode", "bytes="+hx(b), len(b) >= 16)
			c.Stat("tmcmap4:decode", totalCmap4Class(out))
			c.Stat("tmcmap4:decode-input", how)
		}
		lazy := func(b []byte) {
			rs := []int{-1, 0, 0xFFFF, 0x10000, -2147483648, 2147483647}
			for i := 0; i < 6; i++ {
				switch r.Intn(3) {
				case 0:
					rs = append(rs, r.Intn(0x10000))
				case 1:
					rs = append(rs, r.Intn(400))
				default:
					rs = append(rs, int(int32(r.U64())))
				}
			}
			out := c.Case(Verdict, "tmcmap4.lazy", "bytes="+hx(b)+" rs="+ints(rs), len(b) >= 16)
			c.Stat("tmcmap4:lazy", totalCmap4Class(out))
		}
		// the format 4 subtables inside the valid cmap tables of the seed pool
		var subs [][]byte
		for _, s := range seeds {
			if s.dec == "cmap" {
				subs = append(subs, totalCmap4Subtables(s.bytes)...)
			}
		}
		// hand-made boundary cases
		ffff := totalCmap4Seg{start: 0xFFFF, end: 0xFFFF, delta: 1}
		fixed := [][]byte{
			totalCmap4Build(0, nil, nil),                                                    // 16 bytes, segCount 0
			totalCmap4Build(2, []totalCmap4Seg{ffff}, nil),                                  // only the terminator
			totalCmap4Build(4, []totalCmap4Seg{{start: 65, end: 70, delta: 0xFFC0}, ffff}, nil),
			totalCmap4Build(2, []totalCmap4Seg{{start: 0xFFFF, end: 0xFFFF, delta: 0, ro: 2}}, []uint16{7}),
			totalCmap4Build(2, []totalCmap4Seg{{start: 0xFFFF, end: 0xFFFF, delta: 0, ro: 4}}, []uint16{7}),
			totalCmap4Build(2, []totalCmap4Seg{{start: 0xFFFE, end: 0xFFFF, delta: 0, ro: 2}}, []uint16{7}),
			totalCmap4Build(2, []totalCmap4Seg{{start: 0, end: 0, delta: 0}}, nil),
			totalCmap4Build(2, []totalCmap4Seg{{start: 10, end: 300, delta: 5}}, nil),
			totalCmap4Build(0xFFFE, nil, nil),
			totalCmap4Build(2, nil, nil),
			make([]byte, 15), make([]byte, 16), make([]byte, 17), make([]byte, 18), {},
		}
		for _, b := range fixed {
			emit(b, "fixed")
			lazy(b)
		}
		// the whole code space in one segment: 65535 map entries (the constant of the cost bound)
		emit(totalCmap4Build(2, []totalCmap4Seg{{start: 0, end: 0xFFFF, delta: 1}}, nil), "big-all")
		emit(totalCmap4Build(4, []totalCmap4Seg{{start: 0, end: 2999, delta: 3}, ffff}, nil), "big-3000")

		n := c.N / 3
		if n < 60 {
			n = 60
		}
		for i := 0; i < n; i++ {
			switch v := r.Intn(20); {
			case v < 9:
				b, tag := totalCmap4Gen(r)
				emit(b, "gen:"+tag)
				if i%4 == 0 {
					lazy(b)
				}
			case v < 12:
				b, _ := totalCmap4Gen(r)
				mb, how := totalMutate(r, b)
				emit(mb, "gen-mut:"+how)
			case v < 14 && len(subs) > 0:
				s := subs[r.Intn(len(subs))]
				if len(s) > 6000 {
					continue
				}
				emit(s, "seed")
				if i%4 == 0 {
					lazy(s)
				}
			case v < 16 && len(subs) > 0:
				s := subs[r.Intn(len(subs))]
				if len(s) > 6000 {
					continue
				}
				mb, how := totalMutate(r, s)
				emit(mb, "seed-mut:"+how)
			case v < 18: // truncation at an arbitrary offset
				b, _ := totalCmap4Gen(r)
				emit(b[:r.Intn(len(b)+1)], "truncate")
			case v == 18:
				emit(r.Bytes(r.Range(0, 64)), "random")
			default:
				// random body under a plausible header
				b := r.Bytes(2 * r.Range(8, 40))
				b[0], b[1] = 0, 4
				b[6], b[7] = 0, byte(2*r.Intn(6))
				emit(b, "random-header")
			}
		}
		// truncations at every offset of one small table
		b, _ := totalCmap4Gen(r)
		if len(b) > 120 {
			b = b[:120]
		}
		for k := 0; k <= len(b); k++ {
			emit(b[:k], "truncate-all")
		}
	}
}
