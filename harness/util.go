package main

import (
	"errors"
	"fmt"
	"strings"

	"seehuhn.de/go/sfnt/parser"
)

// Shared helpers of the harness areas (every area is built together with main.go, rng.go and util*.go).

func mustHex(s string) []byte {
	b := make([]byte, len(s)/2)
	for i := range b {
		var x byte
		fmt.Sscanf(s[2*i:2*i+2], "%02x", &x)
		b[i] = x
	}
	return b
}

func canonPanic(s string) string {
	if strings.HasPrefix(s, "panic:") {
		return "panic"
	}
	return s
}

func errKind(err error) string {
	var e1 *parser.NotSupportedError
	var e2 *parser.InvalidFontError
	switch {
	case errors.As(err, &e1):
		return "err:unsupported"
	case errors.As(err, &e2):
		return "err:invalid"
	}
	return "err:io"
}
