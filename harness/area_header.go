package main

import (
	"bytes"
	"fmt"
	"io"
	"sort"
	"strings"

	"seehuhn.de/go/sfnt/header"
)

// parseTabs decodes `tabs=<namehex>:<datahex or ->,...` into a Go map (order irrelevant).
// All table bodies are adjacent sub-slices of ONE buffer (followed by a 0xEE tail), so that every
// slice has spare capacity over live data of the next table: a writer that appends to or pads a
// caller's slice in place corrupts its neighbour, which shows in the written bytes (V header.write,
// D header.wf) and in the map afterwards (V header.tables).
func parseTabs(f Fields) map[string][]byte {
	type ent struct {
		name string
		data []byte
		null bool
	}
	var ents []ent
	total := 0
	for _, t := range f.List("tabs", ",") {
		i := strings.IndexByte(t, ':')
		name := string(mustHex(t[:i]))
		if t[i+1:] == "-" {
			ents = append(ents, ent{name, nil, true})
		} else {
			d := mustHex(t[i+1:])
			ents = append(ents, ent{name, d, false})
			total += len(d)
		}
	}
	image := make([]byte, total+8)
	for i := range image {
		image[i] = 0xEE
	}
	m := map[string][]byte{}
	pos := 0
	for _, e := range ents {
		if e.null {
			m[e.name] = nil
			continue
		}
		copy(image[pos:], e.data)
		m[e.name] = image[pos : pos+len(e.data)] // cap reaches to the end of the image
		pos += len(e.data)
	}
	return m
}

func showTabs(m map[string]string) string {
	keys := make([]string, 0, len(m))
	for k := range m {
		keys = append(keys, k)
	}
	sort.Strings(keys)
	parts := make([]string, len(keys))
	for i, k := range keys {
		parts[i] = hx([]byte(k)) + ":" + m[k]
	}
	return strings.Join(parts, ",")
}

func init() {
	areas["header"] = areaHeader
	ops["header.write"] = func(f Fields) string {
		return canonPanic(guard(func() string {
			var buf bytes.Buffer
			n, err := header.Write(&buf, uint32(f.Int("scaler")), parseTabs(f))
			if n != int64(buf.Len()) {
				return fmt.Sprintf("bad-count:n=%d len=%d", n, buf.Len())
			}
			if err != nil {
				switch {
				case strings.Contains(err.Error(), "no tables"):
					return "err:no tables"
				case strings.Contains(err.Error(), "head table too short"):
					return "err:head too short"
				}
				return "err:" + err.Error()
			}
			return "ok:" + hx(buf.Bytes())
		}))
	}
	// direct predicate for the documented rule "tables with nil data are skipped": writing a map gives
	// the same bytes (or the same refusal) as writing the map without its nil entries
	ops["header.nilequiv"] = func(f Fields) string {
		return canonPanic(guard(func() string {
			wr := func(m map[string][]byte) string {
				var buf bytes.Buffer
				_, err := header.Write(&buf, uint32(f.Int("scaler")), m)
				if err != nil {
					return "err:" + err.Error()
				}
				return "ok:" + hx(buf.Bytes())
			}
			full := parseTabs(f)
			a := wr(full)
			stripped := map[string][]byte{}
			for k, v := range parseTabs(f) {
				if v != nil {
					stripped[k] = v
				}
			}
			b := wr(stripped)
			if a != b {
				if len(a) > 60 {
					a = a[:60]
				}
				if len(b) > 60 {
					b = b[:60]
				}
				return "differs:with-nil=" + strings.ReplaceAll(a, " ", "_") + ":without=" + strings.ReplaceAll(b, " ", "_")
			}
			return "same"
		}))
	}
	ops["header.tables"] = func(f Fields) string {
		return canonPanic(guard(func() string {
			var buf bytes.Buffer
			m := parseTabs(f)
			_, err := header.Write(&buf, uint32(f.Int("scaler")), m)
			if err != nil {
				return "err"
			}
			out := map[string]string{}
			for k, v := range m {
				if v != nil && len(k) == 4 {
					out[k] = hx(v)
				}
			}
			return fmt.Sprintf("%d;", f.Int("scaler")) + showTabs(out)
		}))
	}
	// direct predicates on bytes produced by the real writer: the expected value is fixed
	ops["header.wf"] = func(f Fields) string { return "wf" }
	ops["header.parse"] = func(f Fields) string { return f["want"] }
	// direct predicate: the library's own reader returns exactly the tables that were written
	ops["header.readback"] = func(f Fields) string {
		return canonPanic(guard(func() string {
			data := f.Hex("file")
			rd := bytes.NewReader(data)
			info, err := header.Read(rd)
			if err != nil {
				return errKind(err)
			}
			if f["twice"] != "" {
				// the answer must not depend on what the caller did with earlier answers: read every
				// table, use the result (write a new container from it: Write patches the head table
				// it is given in place) and scribble over it, then read again
				first := map[string][]byte{}
				for k := range info.Toc {
					b, err := info.ReadTableBytes(rd, k)
					if err != nil {
						return "err:table:" + hx([]byte(k))
					}
					first[k] = b
				}
				header.Write(io.Discard, info.ScalerType, first)
				for _, b := range first {
					for i := range b {
						b[i] ^= 0xA5
					}
				}
				if !bytes.Equal(data, f.Hex("file")) {
					return "file-changed"
				}
			}
			out := map[string]string{}
			for k := range info.Toc {
				b, err := info.ReadTableBytes(rd, k)
				if err != nil {
					return "err:table:" + hx([]byte(k))
				}
				out[k] = hx(b)
			}
			return fmt.Sprintf("%d;", info.ScalerType) + showTabs(out)
		}))
	}
	// direct predicate on large tables (the bodies are too large to send through the line protocol):
	// a table of n bytes written by header.Write is read back byte for byte by the library reader
	ops["header.bigreadback"] = func(f Fields) string {
		return canonPanic(guard(func() string {
			n := f.Int("n")
			big := make([]byte, n)
			for i := range big {
				big[i] = byte(i*7 + i>>11 + 3)
			}
			tabs := map[string][]byte{"glyf": big, "cmap": {1, 2, 3, 4, 5}, "zzzz": big[:n/3]}
			var buf bytes.Buffer
			if _, err := header.Write(&buf, uint32(f.Int("scaler")), tabs); err != nil {
				return "write-error"
			}
			rd := bytes.NewReader(buf.Bytes())
			info, err := header.Read(rd)
			if err != nil {
				return errKind(err)
			}
			for name, want := range tabs {
				got, err := info.ReadTableBytes(rd, name)
				if err != nil {
					return "err:table:" + hx([]byte(name))
				}
				if !bytes.Equal(got, want) {
					return fmt.Sprintf("differs:table=%s:read=%d:written=%d", hx([]byte(name)), len(got), len(want))
				}
			}
			return "ok"
		}))
	}
	ops["header.read"] = func(f Fields) string {
		return canonPanic(guard(func() string {
			data := f.Hex("file")
			info, err := header.Read(bytes.NewReader(data))
			if err != nil {
				return errKind(err)
			}
			out := map[string]string{}
			for k, r := range info.Toc {
				out[k] = fmt.Sprintf("%d:%d", r.Offset, r.Length)
			}
			return fmt.Sprintf("ok:%d;", info.ScalerType) + showTabs(out)
		}))
	}
}

var knownTags = []string{"head", "hhea", "maxp", "OS/2", "hmtx", "LTSH", "VDMX", "hdmx", "cmap", "fpgm", "prep",
	"cvt ", "loca", "glyf", "kern", "name", "post", "gasp", "DSIG", "CFF ", "GSUB", "GPOS", "GDEF"}

// lastTag remembers the previous tag so that near-duplicates can be drawn: tags that differ from
// an earlier one in a single position (the directory order depends on every byte of the tag)
var lastTag string

func randTag(r *Rng) string {
	t := randTag1(r)
	lastTag = t
	return t
}

func randTag1(r *Rng) string {
	if lastTag != "" && r.Chance(1, 4) {
		b := []byte(lastTag)
		i := Pick(r, []int{3, 3, 3, 2, 1, 0})
		b[i] = byte(r.Range(0x20, 0x7e))
		return string(b)
	}
	if r.Chance(1, 2) {
		return Pick(r, knownTags)
	}
	b := make([]byte, 4)
	for i := range b {
		b[i] = byte(r.Range(0x20, 0x7e))
	}
	// keep the case line free of separators: tags are sent as hex, so anything printable is fine
	return string(b)
}

func areaHeader(c *Ctx) {
	// large tables around 2^24 bytes (one in quick, three in thorough)
	bigs := []int{1<<24 + 5}
	if c.Tier == "thorough" {
		bigs = []int{1<<24 - 1, 1 << 24, 1<<24 + 5, 1<<25 + 1}
	}
	for _, n := range bigs {
		c.Case(Direct, "header.bigreadback", fmt.Sprintf("scaler=65536 n=%d", n), true)
	}
	r := c.Rng
	scalers := []uint32{header.ScalerTypeTrueType, header.ScalerTypeCFF, header.ScalerTypeApple}
	counts := []int{1, 2, 3, 4, 5, 15, 16, 17, 31, 32, 33}
	for i := 0; i < c.N; i++ {
		var n int
		switch {
		case i < len(counts):
			n = counts[i]
		case i%200 == 199:
			n = Pick(r, []int{255, 256, 257, 280})
		default:
			n = r.Range(1, 24)
		}
		tabs := map[string][]byte{}
		withHead := r.Chance(2, 3)
		if withHead {
			hl := Pick(r, []int{12, 54, 54, 54, r.Range(12, 80)})
			tabs["head"] = r.Bytes(hl)
		}
		for len(tabs) < n {
			t := randTag(r)
			if t == "head" {
				continue
			}
			var l int
			switch r.Intn(10) {
			case 0:
				l = 0
			case 1:
				l = r.Range(1, 4)
			case 2:
				if n < 40 {
					l = r.Range(1000, 5000)
				}
			case 3:
				if n < 10 && r.Chance(1, 4) {
					l = r.Range(60000, 70000)
				} else {
					l = r.Range(0, 12)
				}
			default:
				l = r.Range(0, 64)
			}
			tabs[t] = r.Bytes(l)
		}
		sc := Pick(r, scalers)
		if r.Chance(1, 20) {
			sc = uint32(r.U64())
		}
		headerCase(c, sc, tabs, true)
	}
	// outside the stated domain: empty map, nil values, odd names, short head (verdict only)
	for i := 0; i < c.N/20+4; i++ {
		tabs := map[string][]byte{}
		k := r.Range(0, 4)
		for len(tabs) < k {
			tabs[randTag(r)] = r.Bytes(r.Range(0, 20))
		}
		switch i % 4 {
		case 0: // empty or as generated
			if i%8 == 0 {
				tabs = map[string][]byte{}
			}
		case 1:
			tabs[randTag(r)] = nil
		case 2:
			tabs[Pick(r, []string{"abc", "abcde", ""})] = r.Bytes(5)
		case 3:
			if r.Bool() {
				tabs["head"] = r.Bytes(r.Range(0, 11))
			} else {
				tabs["head"] = nil
			}
		}
		headerCase(c, Pick(r, scalers), tabs, false)
	}
}

func tabsArg(tabs map[string][]byte) string {
	keys := make([]string, 0, len(tabs))
	for k := range tabs {
		keys = append(keys, k)
	}
	sort.Strings(keys)
	parts := make([]string, len(keys))
	for i, k := range keys {
		if tabs[k] == nil {
			parts[i] = hx([]byte(k)) + ":-"
		} else {
			parts[i] = hx([]byte(k)) + ":" + hx(tabs[k])
		}
	}
	return strings.Join(parts, ",")
}

func headerCase(c *Ctx, sc uint32, tabs map[string][]byte, inDomain bool) {
	r := c.Rng
	args := fmt.Sprintf("scaler=%d tabs=%s", sc, tabsArg(tabs))
	nontriv := len(tabs) >= 2
	out := c.Case(Verdict, "header.write", args, nontriv)
	c.Stat("tables", bucket(len(tabs)))
	total := 0
	for _, d := range tabs {
		total += len(d)
		c.Stat("len_mod4", fmt.Sprint(len(d)%4))
	}
	c.Stat("total_bytes", bucket(total))
	if _, ok := tabs["head"]; ok {
		c.Stat("head", "with")
	} else {
		c.Stat("head", "without")
	}
	for _, d := range tabs {
		if d == nil {
			c.Case(Direct, "header.nilequiv", args, nontriv)
			break
		}
	}
	if !inDomain {
		c.Stat("domain", "outside")
		c.Stat("outside_outcome", strings.SplitN(out, ":", 2)[0])
		if strings.HasPrefix(out, "ok:") {
			// whatever was written without a panic must still be a well-formed container
			file := out[3:]
			c.Case(Direct, "header.wf", "file="+file, nontriv)
		}
		return
	}
	c.Stat("domain", "inside")
	if !strings.HasPrefix(out, "ok:") {
		return
	}
	file := out[3:]
	want := c.Case(Verdict, "header.tables", args, nontriv)
	c.Case(Direct, "header.wf", "file="+file, nontriv)
	c.Case(Direct, "header.parse", "file="+file+" want="+want, nontriv)
	c.Case(Verdict, "header.read", "file="+file, nontriv)
	if len(tabs) <= 280 && (sc == header.ScalerTypeTrueType || sc == header.ScalerTypeCFF || sc == header.ScalerTypeApple) {
		c.Case(Direct, "header.readback", "file="+file+" want="+want, nontriv)
		c.Case(Direct, "header.readback", "file="+file+" want="+want+" twice=1", nontriv)
	}
	// malformed stream for the reader: mutate the written file
	data := mustHex(file)
	for k := 0; k < 3; k++ {
		m := append([]byte(nil), data...)
		switch r.Intn(5) {
		case 0:
			m = m[:r.Intn(len(m)+1)]
		case 1:
			if len(m) > 0 {
				m[r.Intn(len(m))] ^= byte(1 << r.Intn(8))
			}
		case 2: // mutate inside the directory
			lim := 12 + 16*len(tabs)
			if lim > len(m) {
				lim = len(m)
			}
			for j := 0; j < r.Range(1, 3); j++ {
				m[r.Intn(lim)] = byte(r.U64())
			}
		case 3:
			if len(m) >= 6 {
				m[4], m[5] = byte(r.Intn(3)), byte(r.U64())
			}
		case 4:
			m = r.Bytes(r.Range(0, 64))
		}
		if len(m) > 4096 {
			m = m[:4096]
		}
		res := c.Case(Verdict, "header.read", "file="+hx(m), true)
		cls := res
		if strings.HasPrefix(res, "ok:") {
			cls = "ok"
		}
		c.Stat("read_outcome", cls)
	}
}
