package main

// C12 — OS/2 codec (os2.Encode / os2.Read) and the writer-side derivations of write.go/font.go.

import (
	"bytes"
	"fmt"
	"strconv"
	"strings"

	"seehuhn.de/go/postscript/funit"

	"seehuhn.de/go/geom/matrix"
	"seehuhn.de/go/postscript/type1"

	"seehuhn.de/go/sfnt"
	"seehuhn.de/go/sfnt/cff"
	"seehuhn.de/go/sfnt/cmap"
	"seehuhn.de/go/sfnt/glyf"
	"seehuhn.de/go/sfnt/glyph"
	"seehuhn.de/go/sfnt/os2"
)

// wFont builds a font from integral widths and boxes (glyf: boxes as given; cff: rectangles).
func wFont(kind string, ws []funit.Int16, es []funit.Rect16) *sfnt.Font {
	f := &sfnt.Font{FamilyName: "Verif", UnitsPerEm: 1000, FontMatrix: matrix.Matrix{0.001, 0, 0, 0.001, 0, 0}, Weight: 400, Width: 5, IsRegular: true}
	if kind == "cff" {
		o := &cff.Outlines{Private: []*type1.PrivateDict{{BlueScale: 0.039625, BlueShift: 7, BlueFuzz: 1}}, FDSelect: func(glyph.ID) int { return 0 }}
		for j := range ws {
			name := fmt.Sprintf("g%d", j)
			if j == 0 {
				name = ".notdef"
			}
			gl := cff.NewGlyph(name, float64(ws[j]))
			if j < len(es) && !es[j].IsZero() {
				e := es[j]
				gl.MoveTo(float64(e.LLx), float64(e.LLy))
				gl.LineTo(float64(e.URx), float64(e.LLy))
				gl.LineTo(float64(e.URx), float64(e.URy))
				gl.LineTo(float64(e.LLx), float64(e.URy))
			}
			o.Glyphs = append(o.Glyphs, gl)
		}
		f.Outlines = o
		return f
	}
	o := &glyf.Outlines{Widths: ws}
	for j := range ws {
		if j < len(es) {
			o.Glyphs = append(o.Glyphs, &glyf.Glyph{Rect16: es[j], Data: glyf.SimpleGlyph{}})
		} else {
			o.Glyphs = append(o.Glyphs, nil)
		}
	}
	f.Outlines = o
	return f
}

func wKind(f Fields) string {
	if f["kind"] == "cff" {
		return "cff"
	}
	return "glyf"
}

func mOs2(f Fields) *os2.Info {
	i16 := func(k string) funit.Int16 { return funit.Int16(f.Int(k)) }
	sub := f.Ints("sub")
	for len(sub) < 10 {
		sub = append(sub, 0)
	}
	var panose [10]byte
	copy(panose[:], f.Hex("panose"))
	var ur os2.UnicodeRange
	for i, p := range strings.Split(f["ur"], ",") {
		v, _ := strconv.ParseUint(p, 10, 32)
		if i < 4 {
			ur[i] = uint32(v)
		}
	}
	cpr, _ := strconv.ParseUint(f["cpr"], 10, 64)
	return &os2.Info{
		WeightClass: os2.Weight(f.Int("wc")), WidthClass: os2.Width(f.Int("wd")),
		IsBold: mBool(f, "bold"), IsItalic: mBool(f, "italic"), IsRegular: mBool(f, "regular"), IsOblique: mBool(f, "oblique"),
		FirstCharIndex: uint16(f.Int("first")), LastCharIndex: uint16(f.Int("last")),
		Ascent: i16("asc"), Descent: i16("desc"), WinAscent: i16("wasc"), WinDescent: i16("wdesc"),
		LineGap: i16("gap"), CapHeight: i16("cap"), XHeight: i16("xh"), AvgGlyphWidth: i16("avg"),
		SubscriptXSize: funit.Int16(sub[0]), SubscriptYSize: funit.Int16(sub[1]),
		SubscriptXOffset: funit.Int16(sub[2]), SubscriptYOffset: funit.Int16(sub[3]),
		SuperscriptXSize: funit.Int16(sub[4]), SuperscriptYSize: funit.Int16(sub[5]),
		SuperscriptXOffset: funit.Int16(sub[6]), SuperscriptYOffset: funit.Int16(sub[7]),
		StrikeoutSize: funit.Int16(sub[8]), StrikeoutPosition: funit.Int16(sub[9]),
		FamilyClass: int16(f.Int("fam")), Panose: panose, Vendor: string(f.Hex("vendor")),
		UnicodeRange: ur, CodePageRange: os2.CodePageRange(cpr),
		PermUse: os2.Permissions(f.Int("perm")), PermNoSubsetting: mBool(f, "nosub"), PermOnlyBitmap: mBool(f, "bitmap"),
	}
}

func mShowOs2(o *os2.Info) string {
	sub := []int{int(o.SubscriptXSize), int(o.SubscriptYSize), int(o.SubscriptXOffset), int(o.SubscriptYOffset),
		int(o.SuperscriptXSize), int(o.SuperscriptYSize), int(o.SuperscriptXOffset), int(o.SuperscriptYOffset),
		int(o.StrikeoutSize), int(o.StrikeoutPosition)}
	return fmt.Sprintf("wc=%d wd=%d bold=%s italic=%s regular=%s oblique=%s first=%d last=%d asc=%d desc=%d wasc=%d wdesc=%d "+
		"gap=%d cap=%d xh=%d avg=%d sub=%s fam=%d panose=%s vendor=%s ur=%d,%d,%d,%d cpr=%d perm=%d nosub=%s bitmap=%s",
		o.WeightClass, o.WidthClass, b01(o.IsBold), b01(o.IsItalic), b01(o.IsRegular), b01(o.IsOblique),
		o.FirstCharIndex, o.LastCharIndex, o.Ascent, o.Descent, o.WinAscent, o.WinDescent, o.LineGap, o.CapHeight,
		o.XHeight, o.AvgGlyphWidth, ints(sub), o.FamilyClass, hx(o.Panose[:]), hx([]byte(o.Vendor)),
		o.UnicodeRange[0], o.UnicodeRange[1], o.UnicodeRange[2], o.UnicodeRange[3], uint64(o.CodePageRange),
		int(o.PermUse), b01(o.PermNoSubsetting), b01(o.PermOnlyBitmap))
}

func init() {
	ops["metrics.os2enc"] = func(f Fields) string {
		return canonPanic(guard(func() string { return "ok:" + hx(mOs2(f).Encode()) }))
	}
	// D: Read(Encode(info)) on the real os2 package; the driver answers with info itself
	ops["metrics.os2rt"] = func(f Fields) string {
		return canonPanic(guard(func() string {
			o, err := os2.Read(bytes.NewReader(mOs2(f).Encode()))
			if err != nil {
				return mErrClass(err)
			}
			return "ok:" + mShowOs2(o)
		}))
	}
	ops["metrics.os2dec"] = func(f Fields) string {
		return canonPanic(guard(func() string {
			o, err := os2.Read(bytes.NewReader(f.Hex("b")))
			if err != nil {
				return mErrClass(err)
			}
			return "ok:" + mShowOs2(o)
		}))
	}
}

func init() {
	// font.go FontBBox on a font with the given glyph boxes
	ops["metrics.wbbox"] = func(f Fields) string {
		return canonPanic(guard(func() string {
			es := mParseRects(f["ext"])
			return mShowRect(wFont(wKind(f), make([]funit.Int16, len(es)), es).FontBBox())
		}))
	}
	// font.go IsFixedPitch
	ops["metrics.wfixed"] = func(f Fields) string {
		return canonPanic(guard(func() string {
			ws := mParseInts(f["w"])
			return b01(wFont(wKind(f), ws, nil).IsFixedPitch())
		}))
	}
	// write.go makeOS2 (hook VerifMakeOS2): xAvgCharWidth, usFirst/LastCharIndex, usWinAscent/Descent
	ops["metrics.wos2"] = func(f Fields) string {
		return canonPanic(guard(func() string {
			ws, es := mParseInts(f["w"]), mParseRects(f["ext"])
			font := wFont(wKind(f), ws, es)
			codes := mParseInts32(f["codes"])
			switch f["fmt"] {
			case "4":
				m := cmap.Format4{}
				for _, cp := range codes {
					m[uint16(cp)] = 1
				}
				font.InstallCMap(m)
			case "12":
				m := cmap.Format12{}
				for _, cp := range codes {
					m[uint32(cp)] = 1
				}
				font.InstallCMap(m)
			}
			b := font.VerifMakeOS2()
			i16 := func(o int) int { return int(int16(uint16(b[o])<<8 | uint16(b[o+1]))) }
			u16 := func(o int) int { return int(b[o])<<8 | int(b[o+1]) }
			return fmt.Sprintf("%d,%d,%d,%d,%d", i16(2), u16(64), u16(66), i16(74), i16(76))
		}))
	}
}

func mParseInts32(s string) []int {
	var out []int
	if s == "" || s == "-" {
		return out
	}
	for _, t := range strings.Split(s, ",") {
		v, _ := strconv.Atoi(t)
		out = append(out, v)
	}
	return out
}

// areaMetricsOs2 is called from areaMetrics.
func areaMetricsOs2(c *Ctx) {
	r := c.Rng
	n := c.N
	// the whole fsType / fsSelection flag space, exhaustively: PermUse x PermNoSubsetting x
	// PermOnlyBitmap x (regular | bold/italic combinations) x oblique, other fields varied at random
	// zero versus absent: the all-zero info (only the vendor id has its mandatory four bytes)
	zeroArgs := "wc=0 wd=0 bold=0 italic=0 regular=0 oblique=0 first=0 last=0 asc=0 desc=0 wasc=0 wdesc=0 " +
		"gap=0 cap=0 xh=0 avg=0 sub=0,0,0,0,0,0,0,0,0,0 fam=0 panose=00000000000000000000 vendor=20202020 ur=0,0,0,0 cpr=0 perm=0 nosub=0 bitmap=0"
	c.Case(Verdict, "metrics.os2enc", zeroArgs, true)
	c.Case(Direct, "metrics.os2rt", zeroArgs, true)
	styles := [][3]int{{1, 0, 0}, {0, 0, 0}, {0, 1, 0}, {0, 0, 1}, {0, 1, 1}} // regular, bold, italic
	for perm := 0; perm < 4; perm++ {
		for nosub := 0; nosub < 2; nosub++ {
			for bitmap := 0; bitmap < 2; bitmap++ {
				for _, st := range styles {
					for obl := 0; obl < 2; obl++ {
						last := Pick(r, []int{0xFFFF, 0x7E, r.Range(0, 0xFFFE)})
						ur1 := uint32(r.U64()) &^ (1 << 25)
						if last == 0xFFFF {
							ur1 |= 1 << 25
						}
						sub := make([]int, 10)
						for j := range sub {
							sub[j] = mI16(r)
						}
						args := fmt.Sprintf("wc=%d wd=%d bold=%d italic=%d regular=%d oblique=%d first=%d last=%d asc=%d desc=%d wasc=%d wdesc=%d "+
							"gap=%d cap=%d xh=%d avg=%d sub=%s fam=%d panose=%s vendor=%s ur=%d,%d,%d,%d cpr=%d perm=%d nosub=%d bitmap=%d",
							r.Range(1, 1000), r.Range(1, 9), st[1], st[2], st[0], obl, r.Range(0, last), last, mI16(r), mI16(r), mI16(r), mI16(r),
							mI16(r), r.Range(0, 1500), r.Range(0, 1200), mI16(r), ints(sub), mI16(r), hx(r.Bytes(10)), hx([]byte("VRFY")),
							uint32(r.U64()), ur1, uint32(r.U64()), uint32(r.U64()), r.U64(), perm, nosub, bitmap)
						c.Case(Verdict, "metrics.os2enc", args, true)
						c.Case(Direct, "metrics.os2rt", args, true)
						c.Stat("os2_flagspace", fmt.Sprintf("perm=%d nosub=%d bitmap=%d", perm, nosub, bitmap))
					}
				}
			}
		}
	}
	for i := 0; i < n/5+10; i++ {
		inDom := i%5 != 4
		last := Pick(r, []int{0xFFFF, 0xFFFE, 0x7E, r.Range(0, 0xFFFF)})
		first := r.Range(0, last)
		regular := r.Bool()
		bold, italic := r.Bool(), r.Bool()
		if regular && inDom {
			bold, italic = false, false
		}
		u32 := func() uint32 {
			switch r.Intn(4) {
			case 0:
				return 0
			case 1:
				return 0xFFFFFFFF
			}
			return uint32(r.U64())
		}
		ur := [4]uint32{u32(), u32(), u32(), u32()}
		if inDom || r.Bool() { // bit 57 ("Non-Plane 0") is forced by the codec
			if last == 0xFFFF {
				ur[1] |= 1 << 25
			} else {
				ur[1] &^= 1 << 25
			}
		}
		vendor := []byte(Pick(r, []string{"ADBE", "    ", "GOOG", "\x00\x01\xfe\xff"}))
		if r.Chance(1, 3) {
			vendor = r.Bytes(4)
		}
		xh, cap := r.Range(0, 1200), r.Range(0, 1500)
		if r.Chance(1, 6) {
			xh, cap = Pick(r, []int{0, 1, 32767}), Pick(r, []int{0, 1, 32767})
		}
		perm := r.Intn(4)
		if !inDom {
			switch r.Intn(5) {
			case 0:
				vendor = r.Bytes(Pick(r, []int{0, 1, 3, 5, 8}))
			case 1:
				xh, cap = -r.Range(1, 32768), -r.Range(1, 32768)
			case 2:
				perm = Pick(r, []int{4, -1, 100})
			}
		}
		sub := make([]int, 10)
		for j := range sub {
			sub[j] = mI16(r)
		}
		cpr := r.U64()
		if r.Chance(1, 4) {
			cpr = Pick(r, []uint64{0, 1, 1 << 31, 1 << 32, 1 << 63, ^uint64(0)})
		}
		args := fmt.Sprintf("wc=%d wd=%d bold=%s italic=%s regular=%s oblique=%d first=%d last=%d asc=%d desc=%d wasc=%d wdesc=%d "+
			"gap=%d cap=%d xh=%d avg=%d sub=%s fam=%d panose=%s vendor=%s ur=%d,%d,%d,%d cpr=%d perm=%d nosub=%d bitmap=%d",
			Pick(r, []int{400, 700, 0, 1, 1000, 65535, r.Range(0, 65535)}), Pick(r, []int{5, 1, 9, 0, 65535, r.Range(0, 65535)}),
			b01(bold), b01(italic), b01(regular), r.Intn(2), first, last, mI16(r), mI16(r), mI16(r), mI16(r),
			mI16(r), cap, xh, mI16(r), ints(sub), mI16(r), hx(r.Bytes(10)), hx(vendor), ur[0], ur[1], ur[2], ur[3], cpr,
			perm, r.Intn(2), r.Intn(2))
		out := c.Case(Verdict, "metrics.os2enc", args, true)
		if inDom {
			c.Stat("os2", "inside domain")
		} else {
			c.Stat("os2", "outside domain")
		}
		if !strings.HasPrefix(out, "ok:") {
			continue
		}
		res := c.Case(Verdict, "metrics.os2dec", "b="+out[3:], true)
		if inDom {
			c.Case(Direct, "metrics.os2rt", args, true)
			// the real decoder gives back the info the case line describes
			if strings.TrimPrefix(res, "ok:") == args {
				c.Stat("os2_roundtrip", "identity")
			} else {
				c.Stat("os2_roundtrip", "DIFFERENT")
			}
		}
		b := mustHex(out[3:])
		for k := 0; k < 3; k++ {
			m := append([]byte(nil), b...)
			mut := r.Intn(8)
			switch mut {
			case 0:
				m = m[:Pick(r, []int{0, 1, 67, 68, 69, 77, 78, 79, 85, 86, 87, 95, 96, r.Intn(97)})]
			case 1:
				m[1] = byte(r.Intn(7)) // version 0..6
			case 2:
				m[1] = byte(r.Intn(6))
				m = m[:Pick(r, []int{68, 78, 86, 96, 70, 80, 90})]
			case 3:
				m[8], m[9] = byte(r.U64()), byte(r.U64()) // fsType
				m[1] = byte(r.Intn(6))
			case 4:
				m[62], m[63] = byte(r.U64()), byte(r.U64()) // fsSelection
				m[1] = byte(r.Intn(6))
			case 5:
				m[r.Intn(len(m))] ^= byte(1 << r.Intn(8))
			case 6:
				copy(m[86:90], r.Bytes(4)) // xHeight, capHeight
			case 7:
				m = append(m, r.Bytes(r.Range(1, 6))...)
				m[0], m[1] = byte(r.Intn(2)), byte(r.Intn(8))
			}
			res := c.Case(Verdict, "metrics.os2dec", "b="+hx(m), true)
			c.Stat("os2dec_mutated", fmt.Sprintf("mut%d:%s", mut, outClass(res)))
		}
	}
	// ---- writer-side derivations against their models ----
	for i := 0; i < n/4+10; i++ {
		g := r.Range(1, 24)
		kind := Pick(r, []string{"glyf", "glyf", "cff"})
		mode := 0
		if kind == "glyf" {
			mode = r.Intn(3)
		}
		ws := make([]funit.Int16, g)
		fw := mWidth(r, false)
		fixed := r.Chance(1, 3)
		for j := range ws {
			ws[j] = mWidth(r, mode > 0)
			if fixed {
				ws[j] = fw
				if r.Chance(1, 8) {
					ws[j] = fw + funit.Int16(Pick(r, []int{1, -1}))
				}
			}
			if r.Chance(1, 6) {
				ws[j] = 0
			}
			if kind == "glyf" && r.Chance(1, 12) {
				ws[j] = funit.Int16(-r.Range(1, 900))
			}
		}
		switch i % 9 {
		case 7:
			for j := range ws {
				ws[j] = 0
			}
		case 8:
			for j := range ws {
				ws[j] = funit.Int16(Pick(r, []int{32767, 32766, 32767, 0}))
			}
		}
		es := rectsFor(r, ws, mode)
		if kind == "glyf" && r.Chance(1, 10) {
			// degenerate (inverted) boxes: outside the domain of C12_fontbbox_union, verdict only
			for j := range es {
				if r.Bool() {
					es[j].LLx, es[j].URx = es[j].URx, es[j].LLx
				}
			}
			if g >= 3 && r.Bool() {
				es[0] = funit.Rect16{LLx: 0, LLy: 0, URx: -5, URy: 0}
				es[1] = funit.Rect16{LLx: 7, LLy: 0, URx: 0, URy: 0}
			}
			c.Stat("writer_boxes", "some inverted")
		} else {
			c.Stat("writer_boxes", "well-formed")
		}
		c.Case(Verdict, "metrics.wbbox", fmt.Sprintf("kind=%s ext=%s", kind, mShowRects(es)), g >= 2)
		res := c.Case(Verdict, "metrics.wfixed", fmt.Sprintf("kind=%s w=%s", kind, mShowInts(ws)), g >= 2)
		c.Stat("writer_fixedpitch", res)
		// code points
		fmtc, codes := 0, []int{}
		if g > 1 {
			switch r.Intn(6) {
			case 0:
			case 1, 2:
				fmtc = 12
				base := Pick(r, []int{0x1F600, 0x10000, 0xFFFF, 0xFFFE, r.Range(1, 0x10FFF0)})
				for k := 0; k < r.Range(1, 5); k++ {
					codes = append(codes, base+k*r.Range(1, 3))
				}
				if r.Bool() {
					codes = append(codes, r.Range(1, 0x10FFFF))
				}
			default:
				fmtc = 4
				for k := 0; k < r.Range(1, 6); k++ {
					codes = append(codes, Pick(r, []int{r.Range(1, 0xFFFF), 0xFFFF, 0xFFFE, 0x20}))
				}
			}
		}
		// distinct codes, shuffled (the model must not depend on the order)
		seen := map[int]bool{}
		var cs []int
		for _, cp := range codes {
			if !seen[cp] {
				seen[cp] = true
				cs = append(cs, cp)
			}
		}
		for k := len(cs) - 1; k > 0; k-- {
			j := r.Intn(k + 1)
			cs[k], cs[j] = cs[j], cs[k]
		}
		c.Stat("writer_cmap", fmt.Sprintf("format%d", fmtc))
		c.Case(Verdict, "metrics.wos2", fmt.Sprintf("kind=%s w=%s ext=%s fmt=%d codes=%s", kind, mShowInts(ws), mShowRects(es), fmtc, ints(cs)), g >= 2)
	}
}
