package main

// C02, group lookuplist: verdict streams for the checked-index Lean model of readLookupList
// (through the hook gtab.VerifReadLookupList, whose stub subtable reader decodes extension records
// with the real readExtensionSubtable and records position and type for everything else) and of the
// dispatchers readGsubSubtable / readGposSubtable (the individual subtable readers are an abstract
// parameter of the model, tabulated in the field `sub`).

import (
	"bytes"
	"fmt"
	"strings"

	"seehuhn.de/go/sfnt/glyph"
	"seehuhn.de/go/sfnt/opentype/gtab"
)

// totalLookuplistApply: the direct predicate "a table which gtab.Read accepts can be applied": decodes
// the GSUB/GPOS table and applies every lookup on its own to a short glyph sequence.  The Lean side
// answers every non-model total.* line with the constant "total"; a panic is a violation.
// `total.lookuplist-apply table=gsub bytes=00010000000a000c000e00000000000100040007000000010008000119a0000000080007000100000000`
// panicked with "unreachable" before /repo 8867078 (finding C02-lookuplist-ext-ext: the extension
// record resolved, through the uint16 wrap of 10*6560+7 = 71, to another extension record, which
// readLookupList left in the lookup); the repaired dispatchers refuse the table (decode error).
func totalLookuplistApply(table string, data []byte, gids []int) string {
	return guard(func() string {
		var tp gtab.Type = gtab.TypeGsub
		if table == "gpos" {
			tp = gtab.TypeGpos
		}
		info, err := gtab.Read(bytes.NewReader(data), tp)
		if err != nil {
			return "total"
		}
		for i := range info.LookupList {
			seq := make([]glyph.Info, len(gids))
			for j, g := range gids {
				seq[j] = glyph.Info{GID: glyph.ID(g)}
			}
			ctx := gtab.NewContext(info.LookupList, nil, []gtab.LookupIndex{gtab.LookupIndex(i)})
			_ = ctx.Apply(seq)
		}
		return "total"
	})
}

// totalLookuplistList runs the real readLookupList and prints the canonical value.
func totalLookuplistList(data []byte, pos int64, ext uint16) string {
	return totalCanonPanic(guard(func() string {
		ll, err := gtab.VerifReadLookupList(data, pos, ext)
		if err != nil {
			return totalErrClass(err)
		}
		parts := make([]string, len(ll))
		for i, l := range ll {
			ps := make([]string, len(l.Subtables))
			for j, st := range l.Subtables {
				switch s := st.(type) {
				case *gtab.VerifRef:
					ps[j] = fmt.Sprintf("r%d.%d", s.Pos, s.LookupType)
				default:
					ps[j] = totalLookuplistExt(st)
				}
			}
			parts[i] = fmt.Sprintf("%d/%d/%d/%s", l.Meta.LookupType, l.Meta.LookupFlags, l.Meta.MarkFilteringSet, strings.Join(ps, "|"))
		}
		return "ok:" + strings.Join(parts, ";")
	}))
}

// totalLookuplistExt prints an *extensionSubtable (unexported) from its encoding.
func totalLookuplistExt(st gtab.Subtable) string {
	if st == nil {
		return "nil"
	}
	if fmt.Sprintf("%T", st) != "*gtab.extensionSubtable" {
		return fmt.Sprintf("?%T", st)
	}
	e := gtab.VerifSubtableEncode(st)
	if len(e) != 8 {
		return "?ext"
	}
	return fmt.Sprintf("x%d.%d", int(e[2])<<8|int(e[3]), int(e[4])<<24|int(e[5])<<16|int(e[6])<<8|int(e[7]))
}

var totalLookuplistNames = map[string]map[string]string{
	"gsub": {
		"*gtab.Gsub1_1": "1.1", "*gtab.Gsub1_2": "1.2", "*gtab.Gsub2_1": "2.1", "*gtab.Gsub3_1": "3.1",
		"*gtab.Gsub4_1": "4.1", "*gtab.SeqContext1": "5.1", "*gtab.SeqContext2": "5.2", "*gtab.SeqContext3": "5.3",
		"*gtab.ChainedSeqContext1": "6.1", "*gtab.ChainedSeqContext2": "6.2", "*gtab.ChainedSeqContext3": "6.3",
		"*gtab.Gsub8_1": "8.1",
	},
	"gpos": {
		"*gtab.Gpos1_1": "1.1", "*gtab.Gpos1_2": "1.2", "*gtab.Gpos2_1": "2.1", "*gtab.Gpos2_2": "2.2",
		"*gtab.Gpos3_1": "3.1", "*gtab.Gpos4_1": "4.1", "*gtab.Gpos5_1": "5.1", "*gtab.Gpos6_1": "6.1",
		"*gtab.SeqContext1": "7.1", "*gtab.SeqContext2": "7.2", "*gtab.SeqContext3": "7.3",
		"*gtab.ChainedSeqContext1": "8.1", "*gtab.ChainedSeqContext2": "8.2", "*gtab.ChainedSeqContext3": "8.3",
	},
}

// totalLookuplistDisp runs the real dispatcher; the second result tabulates the selected subtable
// reader for the model (ok | e<class> | p).
func totalLookuplistDisp(table string, data []byte, pos int64, tp uint16) (string, string) {
	hint := "ok"
	out := guard(func() string {
		var st gtab.Subtable
		var err error
		if table == "gsub" {
			st, err = gtab.VerifReadGsubSubtable(data, pos, tp)
		} else {
			st, err = gtab.VerifReadGposSubtable(data, pos, tp)
		}
		if err != nil {
			if strings.Contains(err.Error(), "unknown GSUB subtable format") || strings.Contains(err.Error(), "unknown GPOS subtable format") {
				return "err:miss"
			}
			cl := totalErrClass(err)
			hint = "e" + strings.TrimPrefix(cl, "err:")
			return cl
		}
		if name, ok := totalLookuplistNames[table]["*"+strings.TrimPrefix(fmt.Sprintf("%T", st), "*")]; ok {
			return "ok:" + name
		}
		return "ok:" + totalLookuplistExt(st)
	})
	if strings.HasPrefix(out, "panic:") {
		return "panic", "p"
	}
	return out, hint
}

// ---------------------------------------------------------------- builders

type totalLookuplistSub struct {
	isExt     bool
	format    int // extension record: format word
	etp, eoff int // extension record: type and 32-bit offset
	off       int // non-extension: the 16-bit offset itself (-1: place a 2-byte stub after the header)
}

type totalLookuplistLk struct {
	tp, flags, mfs int
	noWord         bool // flag 0x10 set but the markFilteringSet word is left out
	subs           []totalLookuplistSub
}

// totalLookuplistBuild lays out: count, offsets, then per lookup its header followed by its
// extension records / stubs.
func totalLookuplistBuild(lks []totalLookuplistLk) []byte {
	b := totalBe16b(len(lks))
	b = append(b, make([]byte, 2*len(lks))...)
	for i, l := range lks {
		start := len(b)
		b[2+2*i], b[3+2*i] = byte(start>>8), byte(start)
		hdr := 6 + 2*len(l.subs)
		if l.flags&0x10 != 0 && !l.noWord {
			hdr += 2
		}
		b = append(b, totalBe16b(l.tp)...)
		b = append(b, totalBe16b(l.flags)...)
		b = append(b, totalBe16b(len(l.subs))...)
		var body []byte
		for _, s := range l.subs {
			switch {
			case s.isExt:
				b = append(b, totalBe16b(hdr+len(body))...)
				body = append(body, totalBe16b(s.format)...)
				body = append(body, totalBe16b(s.etp)...)
				body = append(body, totalBe32b(s.eoff)...)
			case s.off < 0:
				b = append(b, totalBe16b(hdr+len(body))...)
				body = append(body, 0, 1)
			default:
				b = append(b, totalBe16b(s.off)...)
			}
		}
		if l.flags&0x10 != 0 && !l.noWord {
			b = append(b, totalBe16b(l.mfs)...)
		}
		b = append(b, body...)
	}
	return b
}

func totalLookuplistRandom(r *Rng, ext int) []totalLookuplistLk {
	n := Pick(r, []int{0, 1, 1, 2, 3, 5, 8})
	var lks []totalLookuplistLk
	for i := 0; i < n; i++ {
		l := totalLookuplistLk{tp: Pick(r, []int{1, 2, 3, 4, 5, 6, 8, 0, 10, 65535}), flags: Pick(r, []int{0, 0, 1, 8, 0x10, 0x0210, 0xff0f, 0xffff}), mfs: r.Intn(0x10000)}
		isExt := r.Chance(2, 5)
		if isExt {
			l.tp = ext
		}
		ns := Pick(r, []int{0, 1, 1, 2, 3, 7})
		etp := Pick(r, []int{1, 2, 4, 6, 8, 0, 65535})
		for j := 0; j < ns; j++ {
			if !isExt {
				s := totalLookuplistSub{off: -1}
				if r.Chance(1, 4) {
					s.off = Pick(r, []int{0, 1, 6, 100, 0x7fff, 0xffff})
				}
				l.subs = append(l.subs, s)
				continue
			}
			s := totalLookuplistSub{isExt: true, format: 1, etp: etp, eoff: Pick(r, []int{0, 8, 8, 16, 100, 0x10000, 0x7fffffff, 0xffffffff})}
			switch r.Intn(14) {
			case 0: // mixed extension types
				s.etp = etp + 1
			case 1: // extension -> extension
				s.etp = ext
			case 2: // unknown format
				s.format = Pick(r, []int{0, 2, 0x100})
			case 3: // a non-record among the records: the stub reads as format 1 followed by whatever comes next
				s = totalLookuplistSub{off: -1}
			}
			l.subs = append(l.subs, s)
		}
		lks = append(lks, l)
	}
	if n > 0 && r.Chance(1, 6) { // the flag without the word, at the very end of the data
		l := &lks[n-1]
		l.flags |= 0x10
		l.noWord = true
		l.subs = nil
	}
	return lks
}

// totalLookuplistAliased: `n` lookup offsets all pointing at one lookup with `k` subtable offsets
// all pointing at one place: n*(1+k) against the budget of 6000.
func totalLookuplistAliased(n, k, tp, ext int) []byte {
	b := totalBe16b(n)
	for i := 0; i < n; i++ {
		b = append(b, totalBe16b(2+2*n)...)
	}
	b = append(b, totalBe16b(tp)...)
	b = append(b, 0, 0)
	b = append(b, totalBe16b(k)...)
	for j := 0; j < k; j++ {
		b = append(b, totalBe16b(6+2*k)...)
	}
	if tp == ext {
		b = append(b, 0, 1, 0, 1, 0, 0, 0, 8)
	}
	return append(b, 0, 1, 0, 6, 0, 1)
}

// totalLookuplistSeedList: the lookup list position inside a GSUB/GPOS table.
func totalLookuplistSeedPos(b []byte) (int, bool) {
	if len(b) < 10 {
		return 0, false
	}
	return int(b[8])<<8 | int(b[9]), true
}

func totalLookuplistClass(out string) string {
	switch {
	case strings.HasPrefix(out, "ok"):
		return "ok"
	case strings.HasPrefix(out, "err"):
		return out
	}
	return out
}

func init() {
	ops["tmlookuplist.list"] = func(f Fields) string {
		return totalLookuplistList(f.Hex("bytes"), int64(f.Int("pos")), uint16(f.Int("ext")))
	}
	ops["total.lookuplist-apply"] = func(f Fields) string {
		gids := f.Ints("gids")
		if f["gids"] == "" {
			gids = []int{1, 2, 3}
		}
		return totalLookuplistApply(f["table"], f.Hex("bytes"), gids)
	}
	ops["tmlookuplist.gsub"] = func(f Fields) string {
		out, _ := totalLookuplistDisp("gsub", f.Hex("bytes"), int64(f.Int("pos")), uint16(f.Int("type")))
		return out
	}
	ops["tmlookuplist.gpos"] = func(f Fields) string {
		out, _ := totalLookuplistDisp("gpos", f.Hex("bytes"), int64(f.Int("pos")), uint16(f.Int("type")))
		return out
	}

	totalModelGens["lookuplist"] = func(c *Ctx, r *Rng, seeds []totalSeed) {
		list := func(b []byte, pos, ext int, how string) {
			out := c.Case(Verdict, "tmlookuplist.list", fmt.Sprintf("bytes=%s pos=%d ext=%d", hx(b), pos, ext), len(b) >= 8)
			c.Stat("tmlookuplist:list", totalLookuplistClass(out))
			c.Stat("tmlookuplist:list-input", how)
			if strings.HasPrefix(out, "ok:") {
				nl := 0
				if len(out) > 3 {
					nl = strings.Count(out, ";") + 1
				}
				c.Stat("tmlookuplist:list-lookups", bucket(nl))
				if strings.Contains(out, "/r") || strings.Contains(out, "|r") {
					c.Stat("tmlookuplist:list-ok-kind", "has-subtables")
				}
			}
		}
		disp := func(table string, b []byte, pos, tp int, how string) {
			_, hint := totalLookuplistDisp(table, b, int64(pos), uint16(tp))
			out := c.Case(Verdict, "tmlookuplist."+table, fmt.Sprintf("bytes=%s pos=%d type=%d sub=%s", hx(b), pos, tp, hint), len(b) >= 4)
			cl := out
			if strings.HasPrefix(out, "ok:x") {
				cl = "ok:ext"
			} else if strings.HasPrefix(out, "ok:") {
				cl = "ok:sub"
			}
			c.Stat("tmlookuplist:"+table, cl)
			c.Stat("tmlookuplist:"+table+"-input", how)
		}
		extOf := func() int { return Pick(r, []int{7, 7, 9, 9, 0, 3}) }
		budget := c.N / 3
		if budget < 60 {
			budget = 60
		}

		// --- readLookupList
		// 1. budget boundaries through aliased offsets (large outputs: a fixed handful)
		for _, nk := range [][2]int{{3000, 1}, {3001, 1}, {2999, 1}, {1, 5999}, {1, 5998}, {1, 6000}, {2, 2999}, {2, 3000},
			{5999, 0}, {6000, 0}, {6001, 0}, {1500, 3}, {1501, 3}, {0, 0}, {1, 0}, {1, 1}, {65535, 0}} {
			ext := 7
			b := totalLookuplistAliased(nk[0], nk[1], 1, ext)
			if nk[0] == 65535 { // the maximal count on a short input (the full 128 KB are slow in the list model)
				b = b[:40]
			}
			list(b, 0, ext, "aliased-budget")
		}
		for _, nk := range [][2]int{{3000, 1}, {3001, 1}, {100, 59}, {100, 60}} { // the same through extension lookups
			list(totalLookuplistAliased(nk[0], nk[1], 7, 7), 0, 7, "aliased-budget-ext")
		}
		// 2. structured lists
		var pool [][]byte
		for i := 0; i < budget*2/5; i++ {
			ext := extOf()
			b := totalLookuplistBuild(totalLookuplistRandom(r, ext))
			if r.Chance(1, 3) {
				b = append(b, r.Bytes(r.Intn(12))...)
			}
			pos := 0
			if r.Chance(1, 5) { // the list somewhere inside a larger table
				pos = r.Range(1, 9)
				b = append(r.Bytes(pos), b...)
			}
			list(b, pos, ext, "structured")
			if pos == 0 && len(pool) < 40 {
				pool = append(pool, b)
			}
		}
		// 3. offsets 0 / beyond the end / position beyond the end
		for i := 0; i < budget/20; i++ {
			n := r.Range(1, 4)
			b := totalBe16b(n)
			for j := 0; j < n; j++ {
				b = append(b, totalBe16b(Pick(r, []int{0, 1, 2, 2 + 2*n, 2 + 2*n + 6, 200, 0xffff}))...)
			}
			b = append(b, 0, 1, 0, 0, 0, 1, 0, 0, 0, 1)
			list(b, 0, extOf(), "offsets-extreme")
			list(b, Pick(r, []int{len(b), len(b) - 1, len(b) + 1, 1 << 20, 1 << 31}), extOf(), "pos-extreme")
		}
		// 4. the lookup lists inside the valid GSUB/GPOS tables of the seed pool
		var seedLists [][3]any
		for _, s := range seeds {
			if s.dec != "gsub" && s.dec != "gpos" {
				continue
			}
			pos, ok := totalLookuplistSeedPos(s.bytes)
			if !ok {
				continue
			}
			b := s.bytes
			if len(b) > pos+3000 {
				b = b[:pos+3000]
			}
			ext := 7
			if s.dec == "gpos" {
				ext = 9
			}
			if len(b) <= 6000 {
				seedLists = append(seedLists, [3]any{b, pos, ext})
			}
		}
		for i := 0; i < len(seedLists) && i < budget/6; i++ {
			s := seedLists[r.Intn(len(seedLists))]
			if i < len(seedLists) {
				s = seedLists[i]
			}
			list(s[0].([]byte), s[1].(int), s[2].(int), "seed")
			if b := s[0].([]byte); s[1].(int) <= len(b) && len(pool) < 80 {
				pool = append(pool, b[s[1].(int):])
			}
		}
		// 5. mutations
		for i := 0; i < budget/4 && len(pool) > 0; i++ {
			b, how := totalMutate(r, Pick(r, pool))
			if len(b) > 6000 {
				b = b[:6000]
			}
			list(b, 0, extOf(), "mutate:"+how)
		}
		// 6. truncation at every offset of small inputs
		for i := 0; i < 3 && len(pool) > 0; i++ {
			b := Pick(r, pool)
			if len(b) > 60 {
				b = totalLookuplistBuild(totalLookuplistRandom(r, 7))
			}
			for k := 0; k <= len(b) && k <= 60; k++ {
				list(b[:k], 0, 7, "truncate-all")
			}
		}
		// 7. random
		for i := 0; i < budget/10; i++ {
			b := r.Bytes(r.Range(0, 40))
			if len(b) >= 2 && r.Bool() {
				b[0], b[1] = 0, byte(r.Intn(4))
			}
			list(b, 0, extOf(), "random")
		}

		// --- direct: every lookup of an accepted table can be applied (valid seed tables and light
		// mutations of them; the constructed counterexample is replayed as a known finding)
		napply := 0
		for _, s := range seeds {
			if (s.dec != "gsub" && s.dec != "gpos") || len(s.bytes) > 3000 || napply >= budget/6 {
				continue
			}
			gids := []int{r.Intn(40), r.Intn(40), r.Intn(40), r.Intn(400)}
			out := c.Case(Direct, "total.lookuplist-apply", fmt.Sprintf("table=%s bytes=%s gids=%s", s.dec, hx(s.bytes), ints(gids)), true)
			c.Stat("tmlookuplist:apply", totalCanonPanic(out))
			napply++
		}

		// --- dispatchers
		for _, table := range []string{"gsub", "gpos"} {
			extT := 7
			if table == "gpos" {
				extT = 9
			}
			// every (type, format) of the table and its neighbours, on a short zero-ish body
			for tp := 0; tp <= 10; tp++ {
				for fm := 0; fm <= 4; fm++ {
					body := append(totalBe16b(fm), make([]byte, 40)...)
					if r.Bool() {
						body = append(totalBe16b(fm), r.Bytes(r.Range(0, 30))...)
					}
					disp(table, body, 0, tp, "grid")
					disp(table, append(append(totalBe16b(fm), 0, 6, 0, 1, 0, 1, 0, 0), make([]byte, 30)...), 0, tp, "grid-cov")
				}
			}
			// uint16 wrap of 10*type+format: colliding keys
			for _, tf := range [][2]int{{0, 11}, {0, 71}, {0, 91}, {0, 83}, {6560, 7}, {6553, 77}, {6562, 7}, {6554, 7}, {13107, 1 + 10*extT}, {6553, 6 + 11}, {65535, 21}, {65535, 81}, {65535, 101}, {1, 65527}, {7, 65467 + 71 - 1}, {9, 1}, {7, 1}, {3, 65517}} {
				body := append(totalBe16b(tf[1]), make([]byte, 40)...)
				disp(table, body, 0, tf[0], "key-wrap")
				// coverage offset 6, one word, then an empty format 1 coverage table
				disp(table, append(append(totalBe16b(tf[1]), 0, 6, 0, 1, 0, 1, 0, 0), make([]byte, 30)...), 0, tf[0], "key-wrap-cov")
				disp(table, append(totalBe16b(tf[1]), r.Bytes(3)...), 0, tf[0], "key-wrap-short")
			}
			// extension records, complete and truncated
			for k := 0; k <= 9; k++ {
				rec := []byte{0, 1, 0, byte(r.Intn(12)), byte(r.U64()), byte(r.U64()), byte(r.U64()), byte(r.U64()), 0xaa}
				disp(table, rec[:k], 0, extT, "ext-truncate")
				disp(table, append(r.Bytes(3), rec[:k]...), 3, extT, "ext-pos")
			}
			// subtables of the seed tables: the first subtable of each lookup, read leniently
			nseed := 0
			for _, s := range seeds {
				if s.dec != table || nseed >= budget/8 {
					continue
				}
				pos, ok := totalLookuplistSeedPos(s.bytes)
				b := s.bytes
				if !ok || pos+2 > len(b) {
					continue
				}
				n := int(b[pos])<<8 | int(b[pos+1])
				for i := 0; i < n && i < 6 && pos+4+2*i <= len(b); i++ {
					lp := pos + (int(b[pos+2+2*i])<<8 | int(b[pos+3+2*i]))
					if lp+8 > len(b) {
						continue
					}
					tp := int(b[lp])<<8 | int(b[lp+1])
					if int(b[lp+4])<<8|int(b[lp+5]) == 0 {
						continue
					}
					sp := lp + (int(b[lp+6])<<8 | int(b[lp+7]))
					if sp > len(b) {
						continue
					}
					sb := b[sp:]
					if len(sb) > 1500 {
						sb = sb[:1500]
					}
					disp(table, sb, 0, tp, "seed")
					if r.Chance(1, 3) {
						disp(table, sb, 0, Pick(r, []int{1, 2, 3, 4, 5, 6, 7, 8, 9}), "seed-other-type")
					}
					if r.Chance(1, 2) {
						m, how := totalMutate(r, sb)
						if len(m) > 1500 {
							m = m[:1500]
						}
						disp(table, m, 0, tp, "mutate:"+how)
					}
					nseed++
				}
			}
			for i := 0; i < budget/10; i++ {
				b := r.Bytes(r.Range(0, 24))
				if len(b) >= 2 && r.Chance(2, 3) {
					b[0], b[1] = 0, byte(r.Intn(5))
				}
				pos := 0
				if r.Chance(1, 6) {
					pos = r.Intn(len(b) + 3)
				}
				disp(table, b, pos, Pick(r, []int{0, 1, 2, 3, 4, 5, 6, 7, 8, 9, 10, r.Intn(0x10000)}), "random")
			}
		}
	}
}
