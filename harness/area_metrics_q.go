package main

// C12 — the font's own metric queries (Widths/WidthsPDF/GlyphWidthPDF, GlyphBBox/GlyphBBoxPDF,
// FontBBox/FontBBoxPDF, IsFixedPitch) against the exact-rational Lean model, fractional CFF
// widths in the writer, and makeHmtx.  Floats are transported as round(x·2^20); the generators
// use inputs on which the Go float evaluation is exact (dyadic matrices and coordinates) or, for
// glyf widths with arbitrary unitsPerEm, detect near-ties with exact big.Rat arithmetic and
// send those cases as diagnostics only.

import (
	"fmt"
	"math"
	"math/big"
	"strconv"
	"strings"

	"seehuhn.de/go/geom/matrix"
	"seehuhn.de/go/postscript/funit"
	"seehuhn.de/go/postscript/type1"

	"seehuhn.de/go/sfnt"
	"seehuhn.de/go/sfnt/cff"
	"seehuhn.de/go/sfnt/glyf"
	"seehuhn.de/go/sfnt/glyph"
	"seehuhn.de/go/sfnt/hmtx"
)

func q20(x float64) int64 { return int64(math.Round(x * 1048576)) }

func parseRatF(t string) float64 {
	if i := strings.IndexByte(t, '/'); i >= 0 {
		n, _ := strconv.ParseInt(t[:i], 10, 64)
		d, _ := strconv.ParseInt(t[i+1:], 10, 64)
		return float64(n) / float64(d)
	}
	n, _ := strconv.ParseInt(t, 10, 64)
	return float64(n)
}

func parseRatsF(s string) []float64 {
	var out []float64
	if s == "" {
		return out
	}
	for _, t := range strings.Split(s, ",") {
		out = append(out, parseRatF(t))
	}
	return out
}

func parseMatF(s string) matrix.Matrix {
	v := parseRatsF(s)
	var m matrix.Matrix
	copy(m[:], v)
	return m
}

func q20s(xs []float64) string {
	p := make([]string, len(xs))
	for i, x := range xs {
		p[i] = fmt.Sprint(q20(x))
	}
	return strings.Join(p, ",")
}

// qFont builds a font from a glyph list `-;l:b:r:t;…`.
func qFont(kind string, fm matrix.Matrix, glyphs string, widths []float64) *sfnt.Font {
	f := &sfnt.Font{FamilyName: "Verif", UnitsPerEm: 1000, FontMatrix: fm, Weight: 400, Width: 5, IsRegular: true}
	var gl []string
	if glyphs != "" {
		gl = strings.Split(glyphs, ";")
	}
	n := len(gl)
	if widths != nil {
		n = len(widths)
	}
	if kind == "cff" {
		o := &cff.Outlines{Private: []*type1.PrivateDict{{BlueScale: 0.039625, BlueShift: 7, BlueFuzz: 1}}, FDSelect: func(glyph.ID) int { return 0 }}
		for j := 0; j < n; j++ {
			name := fmt.Sprintf("g%d", j)
			if j == 0 {
				name = ".notdef"
			}
			w := 0.0
			if widths != nil {
				w = widths[j]
			}
			g := cff.NewGlyph(name, w)
			if j < len(gl) && gl[j] != "-" {
				c := strings.Split(gl[j], ":")
				l, b, r, t := parseRatF(c[0]), parseRatF(c[1]), parseRatF(c[2]), parseRatF(c[3])
				g.MoveTo(l, b)
				g.LineTo(r, b)
				g.LineTo(r, t)
				g.LineTo(l, t)
			}
			o.Glyphs = append(o.Glyphs, g)
		}
		f.Outlines = o
		return f
	}
	o := &glyf.Outlines{}
	for j := 0; j < n; j++ {
		if j < len(gl) && gl[j] != "-" {
			o.Glyphs = append(o.Glyphs, &glyf.Glyph{Rect16: mParseRect(gl[j]), Data: glyf.SimpleGlyph{}})
		} else {
			o.Glyphs = append(o.Glyphs, nil)
		}
		w := 0.0
		if widths != nil {
			w = widths[j]
		}
		o.Widths = append(o.Widths, funit.Int16(w))
	}
	f.Outlines = o
	return f
}

func init() {
	ops["metrics.qwidths"] = func(f Fields) string {
		return canonPanic(guard(func() string {
			var font *sfnt.Font
			if f["kind"] == "glyf" {
				ws := mParseInts(f["w"])
				fl := make([]float64, len(ws))
				for i, w := range ws {
					fl[i] = float64(w)
				}
				font = qFont("glyf", matrix.Matrix{}, "", fl)
				font.UnitsPerEm = uint16(f.Int("upem"))
			} else {
				font = qFont("cff", parseMatF(f["fm"]), "", parseRatsF(f["w"]))
			}
			n := font.NumGlyphs()
			g := make([]float64, n)
			for i := range g {
				g[i] = font.GlyphWidthPDF(glyph.ID(i))
			}
			return "pdf=" + q20s(font.WidthsPDF()) + ";gpdf=" + q20s(g)
		}))
	}
	ops["metrics.qbbox"] = func(f Fields) string {
		return canonPanic(guard(func() string {
			font := qFont(f["kind"], parseMatF(f["fm"]), f["g"], nil)
			n := font.NumGlyphs()
			gb := make([]string, n)
			gp := make([]string, n)
			for i := 0; i < n; i++ {
				gb[i] = mShowRect(font.GlyphBBox(glyph.ID(i)))
				r := font.Outlines.GlyphBBoxPDF(font.FontMatrix, glyph.ID(i))
				gp[i] = fmt.Sprintf("%d:%d:%d:%d", q20(r.LLx), q20(r.LLy), q20(r.URx), q20(r.URy))
			}
			fp := font.FontBBoxPDF()
			return "gb=" + strings.Join(gb, ";") + "|gp=" + strings.Join(gp, ";") + "|fb=" + mShowRect(font.FontBBox()) +
				fmt.Sprintf("|fp=%d:%d:%d:%d", q20(fp.LLx), q20(fp.LLy), q20(fp.URx), q20(fp.URy))
		}))
	}
	// D: GlyphBBox per glyph (real code); the driver answers with the smallest integer box that
	// encloses all outline points
	ops["metrics.dextent"] = func(f Fields) string {
		return canonPanic(guard(func() string {
			font := qFont(f["kind"], matrix.Matrix{0.0009765625, 0, 0, 0.0009765625, 0, 0}, f["g"], nil)
			n := font.NumGlyphs()
			gb := make([]string, n)
			for i := 0; i < n; i++ {
				gb[i] = mShowRect(font.GlyphBBox(glyph.ID(i)))
			}
			return strings.Join(gb, ";")
		}))
	}
	// D: GlyphBBoxPDF per glyph (real code); the driver answers with the bounding box of the images
	// of all corner / path points under the font matrix (scaled by 1000)
	ops["metrics.dbboxpdf"] = func(f Fields) string {
		return canonPanic(guard(func() string {
			font := qFont(f["kind"], parseMatF(f["fm"]), f["g"], nil)
			n := font.NumGlyphs()
			gp := make([]string, n)
			for i := 0; i < n; i++ {
				r := font.Outlines.GlyphBBoxPDF(font.FontMatrix, glyph.ID(i))
				gp[i] = fmt.Sprintf("%d:%d:%d:%d", q20(r.LLx), q20(r.LLy), q20(r.URx), q20(r.URy))
			}
			return strings.Join(gp, ";")
		}))
	}
	// fractional CFF widths through IsFixedPitch, makeOS2 (average) and makeHmtx (funit.Int16(w))
	ops["metrics.wcffq"] = func(f Fields) string {
		return canonPanic(guard(func() string {
			ws := parseRatsF(f["w"])
			font := qFont("cff", matrix.Matrix{0.0009765625, 0, 0, 0.0009765625, 0, 0}, "", ws)
			os2b := font.VerifMakeOS2()
			avg := int(int16(uint16(os2b[2])<<8 | uint16(os2b[3])))
			hhea, hm := font.VerifMakeHmtx()
			info, err := hmtx.Decode(hhea, hm)
			if err != nil {
				return mErrClass(err)
			}
			return fmt.Sprintf("%s;%d;%s", b01(font.IsFixedPitch()), avg, mPlainIntsComma(info.Widths))
		}))
	}
	// write.go makeHmtx (hook VerifMakeHmtx): byte-exact against hmtx.Encode's model; with an
	// italic angle the caret fields are masked (float trigonometry)
	ops["metrics.wmakehmtx"] = func(f Fields) string {
		return canonPanic(guard(func() string {
			ws, es := mParseInts(f["w"]), mParseRects(f["ext"])
			font := wFont("glyf", ws, es)
			font.Ascent, font.Descent, font.LineGap = funit.Int16(f.Int("asc")), funit.Int16(f.Int("desc")), funit.Int16(f.Int("gap"))
			if f["upright"] != "1" {
				font.ItalicAngle = -12.5
			}
			hhea, hm := font.VerifMakeHmtx()
			if f["upright"] != "1" {
				copy(hhea[18:22], []byte{0, 0, 0, 0})
			}
			s := "-"
			if hm != nil {
				s = hx(hm)
			}
			return "ok:" + hx(hhea) + ":" + s
		}))
	}
}

func mPlainIntsComma(l []funit.Int16) string {
	parts := make([]string, len(l))
	for i, x := range l {
		parts[i] = fmt.Sprint(x)
	}
	return strings.Join(parts, ",")
}

// nearTie reports whether num/den·2^20 lies within 1/64 of a half-integer (where a float error of a
// few ulps could flip the rounding).
func nearTie(num, den int64) bool {
	x := new(big.Rat).SetFrac(big.NewInt(num), big.NewInt(den))
	x.Mul(x, big.NewRat(1048576, 1))
	fl := new(big.Int).Div(x.Num(), x.Denom()) // floor for positive denominators
	frac := new(big.Rat).Sub(x, new(big.Rat).SetInt(fl))
	d := new(big.Rat).Sub(frac, big.NewRat(1, 2))
	d.Abs(d)
	return d.Cmp(big.NewRat(1, 64)) < 0
}

func dyadic(r *Rng, maxNum, logDenMax int) string {
	k := r.Range(0, logDenMax)
	n := r.Range(-maxNum, maxNum)
	if k == 0 {
		return fmt.Sprint(n)
	}
	return fmt.Sprintf("%d/%d", n, 1<<k)
}

// randMat: dyadic font matrix; `boxes`: also left slants and rotations (used for the box queries
// only: GlyphWidthPDF divides by fm[3], which must stay a power of two to be exact in float64)
func randMat(r *Rng, boxes bool) string {
	k := Pick(r, []int{10, 11, 10, 4, 12})
	a := fmt.Sprintf("1/%d", 1<<k)
	d := a
	b, c, e, f := "0", "0", "0", "0"
	sel := r.Intn(6)
	if boxes {
		sel = r.Intn(9)
	}
	switch sel {
	case 6: // left slant: negative shear (a*c < 0)
		c = fmt.Sprintf("%d/%d", -r.Range(50, 600), 1<<(k+10))
	case 7: // rotation with scale [p q -q p] (dyadic), any quadrant
		p, q := r.Range(-1000, 1000), r.Range(-1000, 1000)
		a, b = fmt.Sprintf("%d/%d", p, 1<<(k+10)), fmt.Sprintf("%d/%d", q, 1<<(k+10))
		c, d = fmt.Sprintf("%d/%d", -q, 1<<(k+10)), fmt.Sprintf("%d/%d", p, 1<<(k+10))
	case 8: // b*d < 0
		b = fmt.Sprintf("%d/%d", -r.Range(50, 600), 1<<(k+10))
		e, f = dyadic(r, 64, 3), dyadic(r, 64, 3)
	case 0: // shear (oblique font matrix)
		c = fmt.Sprintf("%d/%d", r.Range(-400, 400), 1<<(k+10))
	case 1: // general
		b = fmt.Sprintf("%d/%d", r.Range(-300, 300), 1<<(k+10))
		c = fmt.Sprintf("%d/%d", r.Range(-300, 300), 1<<(k+10))
		e, f = dyadic(r, 64, 3), dyadic(r, 64, 3)
	case 2: // flipped / anisotropic
		d = fmt.Sprintf("%d/%d", Pick(r, []int{-1, 1, 2}), 1<<k)
	case 3: // |fm[3]| <= 1e-6: GlyphWidthPDF takes the other branch
		d = Pick(r, []string{"0", "1/1048576", "-1/2097152"})
		b = fmt.Sprintf("%d/%d", r.Range(-300, 300), 1<<(k+10))
		c = fmt.Sprintf("%d/%d", r.Range(-300, 300), 1<<(k+10))
	}
	return strings.Join([]string{a, b, c, d, e, f}, ",")
}

// areaMetricsQ is called from areaMetrics.
func areaMetricsQ(c *Ctx) {
	r := c.Rng
	n := c.N
	// ---- widths in design and PDF units ----
	upems := []int{1000, 2048, 1024, 16, 4096, 16384, 2000, 250, 65535, 1, 3, 7}
	for i := 0; i < n/6+8; i++ {
		g := r.Range(1, 12)
		if r.Bool() {
			upem := Pick(r, upems)
			if r.Chance(1, 3) {
				upem = r.Range(16, 65535)
			}
			ws := make([]funit.Int16, g)
			tie := false
			for j := range ws {
				ws[j] = mWidth(r, r.Chance(1, 3))
				if r.Chance(1, 10) {
					ws[j] = funit.Int16(-r.Range(1, 2000))
				}
				if nearTie(int64(ws[j]), int64(upem)) || nearTie(int64(ws[j])*1000, int64(upem)) {
					tie = true
				}
			}
			kind := Verdict
			if tie {
				kind = Diagnostic
				c.Stat("query_float", "near-tie at 2^-20 (diagnostic only)")
			} else {
				c.Stat("query_float", "away from ties")
			}
			c.Stat("query_widths", "glyf")
			c.Case(kind, "metrics.qwidths", fmt.Sprintf("kind=glyf upem=%d w=%s", upem, mShowInts(ws)), true)
		} else {
			ws := make([]string, g)
			for j := range ws {
				ws[j] = Pick(r, []string{fmt.Sprint(r.Range(0, 2000)), dyadic(r, 4000, 2), "0", fmt.Sprintf("%d/2", 2*r.Range(0, 1500)+1)})
			}
			c.Stat("query_widths", "cff")
			c.Stat("query_float", "exact (dyadic)")
			c.Case(Verdict, "metrics.qwidths", fmt.Sprintf("kind=cff fm=%s w=%s", randMat(r, false), strings.Join(ws, ",")), true)
		}
	}
	// ---- glyph and font boxes in design and PDF units ----
	for i := 0; i < n/6+8; i++ {
		g := r.Range(1, 10)
		kind := Pick(r, []string{"glyf", "cff"})
		gl := make([]string, g)
		for j := range gl {
			if r.Chance(1, 5) {
				gl[j] = "-"
				continue
			}
			if kind == "glyf" {
				e := mRect(r, funit.Int16(r.Range(0, 2000)), Pick(r, []int{0, 0, 1}))
				gl[j] = mShowRect(e)
			} else {
				l, b := r.Range(-800, 800), r.Range(-800, 800)
				w, h := r.Range(0, 6000), r.Range(0, 6000)
				den := Pick(r, []int{1, 1, 2, 4})
				if r.Chance(1, 3) { // negative, fractional extremes (odd numerators)
					den = Pick(r, []int{2, 4})
					l, b = -(2*r.Range(0, 400) + 1), -(2*r.Range(0, 400) + 1)
					if r.Bool() {
						w, h = 2*r.Range(0, 100), 2*r.Range(0, 100) // all points negative
					}
					c.Stat("query_cff_coords", "negative fractional minimum")
				} else {
					c.Stat("query_cff_coords", "other")
				}
				gl[j] = fmt.Sprintf("%d/%d:%d/%d:%d/%d:%d/%d", l, den, b, den, l+w, den, b+h, den)
			}
		}
		fm := randMat(r, true)
		c.Stat("query_bbox", kind)
		c.Stat("query_float", "exact (dyadic)")
		c.Case(Verdict, "metrics.qbbox", fmt.Sprintf("kind=%s fm=%s g=%s", kind, fm, strings.Join(gl, ";")), g >= 2)
		// the properties themselves, judged on the real code against geometric definitions
		c.Case(Direct, "metrics.dextent", fmt.Sprintf("kind=%s g=%s", kind, strings.Join(gl, ";")), g >= 2)
		c.Case(Direct, "metrics.dbboxpdf", fmt.Sprintf("kind=%s fm=%s g=%s", kind, fm, strings.Join(gl, ";")), g >= 2)
		if mv := parseMatF(fm); mv[0]*mv[2] < 0 || mv[1]*mv[3] < 0 {
			c.Stat("query_matrix", "a*c<0 or b*d<0")
		} else {
			c.Stat("query_matrix", "other")
		}
	}
	// ---- fractional CFF widths in the writer ----
	for i := 0; i < n/8+8; i++ {
		g := r.Range(1, 10)
		base := r.Range(1, 1500)
		ws := make([]string, g)
		mode := r.Intn(4)
		for j := range ws {
			switch mode {
			case 0: // all within a quarter of the base: fixed pitch
				ws[j] = fmt.Sprintf("%d/4", 4*base+r.Range(-1, 1))
			case 1: // one differs by exactly a half
				ws[j] = fmt.Sprintf("%d/2", 2*base+Pick(r, []int{0, 0, 0, 1}))
			case 2:
				ws[j] = dyadic(r, 6000, 3)
			default:
				ws[j] = Pick(r, []string{"1/4", "3/4", "-1/2", "0", fmt.Sprint(base), fmt.Sprintf("%d/2", 2*base+1)})
			}
			if r.Chance(1, 8) {
				ws[j] = "0"
			}
		}
		res := c.Case(Verdict, "metrics.wcffq", "w="+strings.Join(ws, ","), g >= 2)
		c.Stat("cff_fractional_fixedpitch", strings.SplitN(res, ";", 2)[0])
	}
	// ---- makeHmtx ----
	for i := 0; i < n/8+8; i++ {
		g := r.Range(1, 20)
		ws := widthsWithTail(r, g, r.Range(1, g), r.Bool(), false)
		es := rectsFor(r, ws, Pick(r, []int{0, 1}))
		up := r.Intn(2)
		c.Stat("makehmtx", []string{"upright", "italic (caret masked)"}[up])
		c.Case(Verdict, "metrics.wmakehmtx", fmt.Sprintf("w=%s ext=%s asc=%d desc=%d gap=%d upright=%d",
			mShowInts(ws), mShowRects(es), mI16(r), mI16(r), mI16(r), 1-up), g >= 2)
	}
}
