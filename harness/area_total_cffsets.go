//go:build verif

// C02, group `cffsets`: verdict stream for the checked-index Lean models of the CFF readers
// readCharset, readEncoding and readFDSelect with the lazy accessor it returns
// (Model/TotalCffSets.lean).
//
//	tmcffsets.charset  bytes=<hex> n=<int>              -> ok:<names>;pos=<p> | err:<class> | panic
//	tmcffsets.encoding bytes=<hex> charset=<ints|->     -> ok:<256 gids> | err:<class> | panic
//	tmcffsets.fdselect bytes=<hex> n=<int> np=<int>     -> ok:<fn(0..n-1)>;oob=<fn(n),fn(n+1),fn(65535): fd|p> | err:<class> | panic
//
// error classes: eof, invalid, unsupported, other.
package main

import (
	"errors"
	"fmt"
	"io"
	"strconv"
	"strings"

	"seehuhn.de/go/sfnt/cff"
	"seehuhn.de/go/sfnt/glyph"
	"seehuhn.de/go/sfnt/parser"
)

func totalCffsetsErr(err error) string {
	var e1 *parser.NotSupportedError
	var e2 *parser.InvalidFontError
	switch {
	case errors.As(err, &e1):
		return "err:unsupported"
	case errors.As(err, &e2):
		return "err:invalid"
	case errors.Is(err, io.ErrUnexpectedEOF), errors.Is(err, io.EOF):
		return "err:eof"
	}
	return "err:other"
}

func totalCffsetsInt32s(l []int) []int32 {
	out := make([]int32, len(l))
	for i, x := range l {
		out[i] = int32(x)
	}
	return out
}

func totalCffsetsShowInts(l []int) string {
	if len(l) == 0 {
		return "-"
	}
	return ints(l)
}

func totalCffsetsCharset(b []byte, n int) string {
	return totalCanonPanic(guard(func() string {
		names, pos, err := cff.VerifReadCharset(b, n)
		if err != nil {
			return totalCffsetsErr(err)
		}
		parts := make([]string, len(names))
		for i, x := range names {
			parts[i] = strconv.Itoa(int(x))
		}
		return fmt.Sprintf("ok:%s;pos=%d", strings.Join(parts, ","), pos)
	}))
}

func totalCffsetsEncoding(b []byte, charset []int) string {
	return totalCanonPanic(guard(func() string {
		res, err := cff.VerifReadEncoding(b, totalCffsetsInt32s(charset))
		if err != nil {
			return totalCffsetsErr(err)
		}
		out := make([]int, len(res))
		for i, g := range res {
			out[i] = int(g)
		}
		return "ok:" + ints(out)
	}))
}

// totalCffsetsProbe evaluates the lazy accessor at one glyph: the FD or "p" for a panic.
func totalCffsetsProbe(fn cff.FDSelectFn, g int) string {
	s := guard(func() string { return strconv.Itoa(fn(glyph.ID(g))) })
	if strings.HasPrefix(s, "panic:") {
		return "p"
	}
	return s
}

func totalCffsetsFDSelect(b []byte, n, np int) string {
	return totalCanonPanic(guard(func() string {
		fn, err := cff.VerifReadFDSelect(b, n, np)
		if err != nil {
			return totalCffsetsErr(err)
		}
		out := make([]int, 0, 16)
		for g := 0; g < n; g++ {
			out = append(out, fn(glyph.ID(g)))
		}
		var oob []string
		for _, g := range []int{n, n + 1, 65535} {
			if g <= 65535 {
				oob = append(oob, totalCffsetsProbe(fn, g))
			}
		}
		return "ok:" + ints(out) + ";oob=" + strings.Join(oob, ",")
	}))
}

func totalCffsetsClass(out string) string {
	switch {
	case strings.HasPrefix(out, "ok:"):
		return "ok"
	case strings.HasPrefix(out, "err:"):
		return out
	}
	return out
}

// ---------------------------------------------------------------- seeds out of CFF font programs

type totalCffsetsSeedSet struct {
	charsets  [][2]any // bytes, nGlyphs
	encodings [][2]any // bytes, charset []int
	fdselects [][3]any // bytes, nGlyphs, nPrivate
}

// totalCffsetsFromCFF locates the charset / encoding / FDSelect data of a CFF font program through
// the offsets in its first Top DICT.
func totalCffsetsFromCFF(b []byte, out *totalCffsetsSeedSet) {
	if len(b) < 4 {
		return
	}
	nameIdx, ok := totalCffReadIndex(b, int(b[2]))
	if !ok {
		return
	}
	topIdx, ok := totalCffReadIndex(b, nameIdx.end)
	if !ok || len(topIdx.items) == 0 {
		return
	}
	ents, ok := totalCffParseDict(topIdx.items[0])
	if !ok {
		return
	}
	get := func(op int) int {
		for _, e := range ents {
			if e.op == op && len(e.args) > 0 {
				return e.args[len(e.args)-1]
			}
		}
		return 0
	}
	csOffs, encOffs, chOffs := get(15), get(16), get(17)
	fdaOffs, fdsOffs := get(0x0c24), get(0x0c25)
	if chOffs <= 0 || chOffs+2 > len(b) {
		return
	}
	n := int(b[chOffs])<<8 | int(b[chOffs+1])
	cut := func(offs, want int) []byte {
		end := offs + want
		if end > len(b) {
			end = len(b)
		}
		return b[offs:end]
	}
	var charset []int
	if csOffs > 2 && csOffs < len(b) {
		data := cut(csOffs, 2*n+16)
		out.charsets = append(out.charsets, [2]any{data, n})
		if names, _, err := cff.VerifReadCharset(data, n); err == nil {
			for _, x := range names {
				charset = append(charset, int(x))
			}
		}
	}
	if encOffs > 1 && encOffs < len(b) && charset != nil {
		out.encodings = append(out.encodings, [2]any{cut(encOffs, 1024), charset})
	}
	if fdsOffs > 3 && fdsOffs < len(b) && fdaOffs > 0 && fdaOffs+2 <= len(b) {
		np := int(b[fdaOffs])<<8 | int(b[fdaOffs+1])
		out.fdselects = append(out.fdselects, [3]any{cut(fdsOffs, n+3*n+16), n, np})
	}
}

// ---------------------------------------------------------------- structured generators

// totalCffsetsGenCharset: a charset table for about n glyphs; `how` names the shape.
//
// The Lean model works on lists: a format-0 table with n names costs it O(n^2) (36 s for n = 65535
// in the compiled driver), so sizes above 4000 are drawn for format 0 only when `big` is set
// (thorough tier); formats 1 and 2 are linear and keep the full range.
func totalCffsetsGenCharset(r *Rng, big bool) (b []byte, n int, how string) {
	n = Pick(r, []int{1, 1, 2, 2, 3, 5, 10, 17, 100, 255, 256, 257, 258, 600})
	if r.Chance(1, 40) {
		n = Pick(r, []int{65535, 65534, 4000})
	}
	format := r.Intn(3)
	if format == 0 && n > 4000 && !big {
		n = 4000
	}
	b = []byte{byte(format)}
	switch format {
	case 0:
		k := n - 1
		switch r.Intn(8) {
		case 0:
			k = n
		case 1:
			if k > 0 {
				k--
			}
		}
		for i := 0; i < k; i++ {
			b = append(b, totalBe16b(Pick(r, []int{r.Intn(400), r.Intn(65536), 0, 65535, i + 1}))...)
		}
		how = "f0"
	default:
		have := 1
		how = fmt.Sprintf("f%d", format)
		for have < n {
			rem := n - have
			maxLeft := 255
			if format == 2 {
				maxLeft = 65535
			}
			nLeft := Pick(r, []int{0, 0, 1, 2, r.Intn(maxLeft + 1), maxLeft, rem - 1, rem - 1, rem - 1, rem, rem - 2})
			if nLeft < 0 {
				nLeft = 0
			}
			if nLeft > maxLeft {
				nLeft = maxLeft
			}
			if nLeft+1 > rem {
				how += ":over"
			}
			first := Pick(r, []int{r.Intn(1000), r.Intn(65536), 1, have, 65535 - nLeft, 65536 - nLeft, 65535})
			if first < 0 {
				first = 0
			}
			if first+nLeft > 65535 {
				how += ":code>ffff"
			}
			b = append(b, totalBe16b(first)...)
			if format == 1 {
				b = append(b, byte(nLeft))
			} else {
				b = append(b, totalBe16b(nLeft)...)
			}
			have += nLeft + 1
			if r.Chance(1, 30) {
				break
			}
		}
	}
	switch r.Intn(10) {
	case 0:
		b = append(b, r.Bytes(r.Range(1, 5))...)
	case 1:
		if len(b) > 1 {
			b = b[:len(b)-1]
			how += ":short"
		}
	}
	// the caller's glyph count: mostly right, sometimes off by one or out of the accepted range
	switch r.Intn(12) {
	case 0:
		n++
		how += ":n+1"
	case 1:
		n--
		how += ":n-1"
	case 2:
		n = Pick(r, []int{0, -1, 65536, 65537, -70000, 1 << 40})
		how += ":n-bad"
	}
	return b, n, how
}

func totalCffsetsGenCharsetList(r *Rng) []int {
	n := Pick(r, []int{0, 1, 1, 2, 3, 5, 20, 40, 256, 257, 300})
	cs := make([]int, n)
	style := r.Intn(4)
	for i := range cs {
		switch style {
		case 0:
			cs[i] = i // sequential
		case 1:
			cs[i] = r.Intn(400)
		case 2:
			cs[i] = Pick(r, []int{i, i, r.Intn(8), 65535, 65536 + i, -1, -65536 + 5, 391 + i})
		default:
			cs[i] = 390 + i
		}
	}
	if n > 0 && r.Chance(3, 4) {
		cs[0] = 0
	}
	return cs
}

func totalCffsetsGenEncoding(r *Rng) (b []byte, cs []int, how string) {
	cs = totalCffsetsGenCharsetList(r)
	format := r.Intn(2)
	sup := r.Chance(1, 3)
	fb := byte(format)
	if sup {
		fb |= 0x80
	}
	if r.Chance(1, 25) {
		fb = Pick(r, []byte{2, 3, 0x7f, 0x82, 0xff})
	}
	b = []byte{fb}
	how = fmt.Sprintf("f%d", format)
	used := map[int]bool{}
	cur := 1
	switch format {
	case 0:
		nCodes := Pick(r, []int{0, 1, len(cs) - 1, len(cs) - 1, len(cs) - 2, len(cs), r.Intn(len(cs) + 1), 255})
		if nCodes < 0 {
			nCodes = 0
		}
		if nCodes > 255 {
			nCodes = 255
		}
		b = append(b, byte(nCodes))
		dup := r.Chance(1, 6)
		for i := 0; i < nCodes; i++ {
			c := r.Intn(256)
			for !dup && used[c] {
				c = (c + 1) % 256
			}
			if used[c] {
				how += ":dup"
			}
			used[c] = true
			b = append(b, byte(c))
			cur++
		}
	default:
		nRanges := Pick(r, []int{0, 1, 1, 2, 3, 5, 255})
		b = append(b, byte(nRanges))
		next := r.Intn(40)
		for i := 0; i < nRanges; i++ {
			first := next
			nLeft := Pick(r, []int{0, 0, 1, 3, 10, 255 - first, 256 - first, r.Intn(256)})
			if r.Chance(1, 8) {
				first = r.Intn(256)
			}
			if nLeft < 0 {
				nLeft = 0
			}
			if first > 255 {
				first = 255
			}
			if nLeft > 255 {
				nLeft = 255
			}
			b = append(b, byte(first), byte(nLeft))
			for j := first; j <= first+nLeft && j < 256; j++ {
				used[j] = true
				cur++
			}
			next = first + nLeft + 1 + r.Intn(3)
			if next > 255 {
				next = r.Intn(256)
			}
			if nRanges > 20 && i > 12 && r.Chance(1, 2) {
				break
			}
		}
	}
	if sup || r.Chance(1, 30) {
		nSups := Pick(r, []int{0, 1, 1, 2, 3, 8})
		b = append(b, byte(nSups))
		for i := 0; i < nSups; i++ {
			code := r.Intn(256)
			if r.Chance(4, 5) {
				for used[code] {
					code = (code + 1) % 256
					if len(used) >= 256 {
						break
					}
				}
			}
			sid := r.Intn(500)
			if len(cs) > 0 {
				switch r.Intn(4) {
				case 0, 1: // the name of an already encoded glyph
					g := r.Intn(len(cs))
					if cur > 1 {
						g = r.Intn(cur) % len(cs)
					}
					sid = cs[g] & 0xffff
				case 2: // the name of any glyph (may be beyond currentGid)
					sid = cs[r.Intn(len(cs))] & 0xffff
				}
			}
			b = append(b, byte(code))
			b = append(b, totalBe16b(sid)...)
			if r.Chance(1, 2) {
				used[code] = true
			}
		}
		how += ":sup"
	}
	switch r.Intn(12) {
	case 0:
		b = append(b, r.Bytes(r.Range(1, 4))...)
	case 1:
		if len(b) > 1 {
			b = b[:len(b)-1]
		}
	}
	return b, cs, how
}

// (format 0 with n above 5000 only when `big` is set: the model's lookups are O(n^2) there)
func totalCffsetsGenFDSelect(r *Rng, big bool) (b []byte, n, np int, how string) {
	n = Pick(r, []int{0, 1, 1, 2, 2, 3, 5, 10, 40, 100, 300, 1023, 1024, 1025, 2049})
	if r.Chance(1, 40) {
		n = Pick(r, []int{65535, 65534, 5000})
	}
	np = Pick(r, []int{1, 1, 2, 2, 3, 5, 256, 255, 0, -1, 1000})
	fdOf := func() int {
		switch {
		case np <= 0:
			return r.Intn(4)
		case r.Chance(1, 15):
			return Pick(r, []int{np, np + 1, 255, np - 1}) & 0xff
		}
		m := np
		if m > 256 {
			m = 256
		}
		return r.Intn(m)
	}
	if r.Bool() {
		how = "f0"
		if n > 5000 && !big {
			n = 5000
		}
		b = []byte{0}
		k := n
		switch r.Intn(10) {
		case 0:
			k = n + 1
		case 1:
			if k > 0 {
				k--
				how += ":short"
			}
		}
		run := fdOf()
		for i := 0; i < k; i++ {
			if r.Chance(1, 4) {
				run = fdOf()
			}
			b = append(b, byte(run))
		}
	} else {
		how = "f3"
		nRanges := Pick(r, []int{0, 1, 1, 2, 3, 4, 7, 20})
		if n > 0 && nRanges > n && r.Chance(3, 4) {
			nRanges = n
		}
		b = append([]byte{3}, totalBe16b(nRanges)...)
		first := 0
		if r.Chance(1, 12) {
			first = Pick(r, []int{1, 2, 65535})
			how += ":first!=0"
		}
		for i := 0; i < nRanges; i++ {
			b = append(b, totalBe16b(first)...)
			b = append(b, byte(fdOf()))
			step := 1
			left := n - first - (nRanges - 1 - i)
			if left > 1 {
				step = r.Range(1, left)
			}
			switch r.Intn(16) {
			case 0:
				step = 0
				how += ":not-increasing"
			case 1:
				step = r.Range(1, 70000)
			}
			first = (first + step) & 0xffff
		}
		sentinel := n
		switch r.Intn(10) {
		case 0:
			sentinel = Pick(r, []int{n + 1, n - 1, 0, 65535, first})
			how += ":sentinel"
		}
		b = append(b, totalBe16b(sentinel&0xffff)...)
	}
	switch r.Intn(12) {
	case 0:
		b = append(b, r.Bytes(r.Range(1, 4))...)
	case 1:
		if len(b) > 1 {
			b = b[:len(b)-1]
		}
	}
	switch r.Intn(14) {
	case 0:
		n = Pick(r, []int{-1, -2, 65536, 70000, n + 1, n - 1})
		how += ":n-other"
	}
	return b, n, np, how
}

// totalCffsetsGenFDSelect3 builds format-3 tables whose last range ends at / before / after the
// previous boundaries (the sentinel is not compared with the last `first`).
func totalCffsetsGenFDSelect3(r *Rng) (b []byte, n, np int) {
	np = r.Range(1, 6)
	nRanges := r.Range(1, 6)
	b = append([]byte{3}, totalBe16b(nRanges)...)
	first := 0
	for i := 0; i < nRanges; i++ {
		b = append(b, totalBe16b(first)...)
		b = append(b, byte(r.Intn(np)))
		first += r.Range(1, 9)
	}
	n = Pick(r, []int{first, first - 1, first + 3, r.Intn(first + 1), 1, 2, 0})
	if n < 0 {
		n = 0
	}
	b = append(b, totalBe16b(n)...)
	return b, n, np
}

func init() {
	ops["tmcffsets.charset"] = func(f Fields) string { return totalCffsetsCharset(f.Hex("bytes"), f.Int("n")) }
	ops["tmcffsets.encoding"] = func(f Fields) string {
		cs := f["charset"]
		if cs == "-" {
			cs = ""
		}
		return totalCffsetsEncoding(f.Hex("bytes"), Fields{"charset": cs}.Ints("charset"))
	}
	ops["tmcffsets.fdselect"] = func(f Fields) string {
		return totalCffsetsFDSelect(f.Hex("bytes"), f.Int("n"), f.Int("np"))
	}

	totalModelGens["cffsets"] = func(c *Ctx, r *Rng, seeds []totalSeed) {
		budget := c.N/3 + 1
		big := c.Tier == "thorough" // lines whose Lean side is slow (format-0 tables of > 4000 glyphs)

		csCase := func(src string, b []byte, n int) string {
			out := c.Case(Verdict, "tmcffsets.charset", fmt.Sprintf("bytes=%s n=%d", hx(b), n), len(b) > 0)
			c.Stat("tmcffsets:charset", totalCffsetsClass(out))
			c.Stat("tmcffsets:charset-src", src)
			return out
		}
		encCase := func(src string, b []byte, cs []int) string {
			out := c.Case(Verdict, "tmcffsets.encoding", "bytes="+hx(b)+" charset="+totalCffsetsShowInts(cs), len(b) > 0)
			c.Stat("tmcffsets:encoding", totalCffsetsClass(out))
			c.Stat("tmcffsets:encoding-src", src)
			return out
		}
		fdCase := func(src string, b []byte, n, np int) string {
			if n > 1<<20 { // format 0 would allocate n bytes
				n = 1 << 20
			}
			out := c.Case(Verdict, "tmcffsets.fdselect", fmt.Sprintf("bytes=%s n=%d np=%d", hx(b), n, np), len(b) > 0)
			cls := totalCffsetsClass(out)
			if cls == "ok" {
				// the accessor beyond nGlyphs: does any probe return a value instead of panicking?
				oob := out[strings.Index(out, ";oob=")+5:]
				if strings.ContainsAny(oob, "0123456789") {
					cls = "ok(oob-some-value)"
				} else {
					cls = "ok(oob-all-panic)"
				}
			}
			c.Stat("tmcffsets:fdselect", cls)
			c.Stat("tmcffsets:fdselect-src", src)
			return out
		}

		// ---- seeds: the tables inside the CFF font programs
		var ss totalCffsetsSeedSet
		for _, s := range seeds {
			if s.dec == "cff" && len(s.bytes) <= 200000 {
				totalCffsetsFromCFF(s.bytes, &ss)
			}
		}
		c.Stat("tmcffsets:seeds", fmt.Sprintf("charset=%d encoding=%d fdselect=%d", len(ss.charsets), len(ss.encodings), len(ss.fdselects)))
		small := func(b []byte) bool { return len(b) <= 1500 }
		for i, s := range ss.charsets {
			if i < 12 && small(s[0].([]byte)) {
				csCase("seed", s[0].([]byte), s[1].(int))
			}
		}
		for i, s := range ss.encodings {
			if i < 12 && len(s[1].([]int)) <= 400 {
				encCase("seed", s[0].([]byte), s[1].([]int))
			}
		}
		for i, s := range ss.fdselects {
			if i < 12 && small(s[0].([]byte)) {
				fdCase("seed", s[0].([]byte), s[1].(int), s[2].(int))
			}
		}

		// ---- readCharset
		for _, fx := range []struct {
			b []byte
			n int
		}{
			{nil, 1}, {nil, 0}, {[]byte{0}, 1}, {[]byte{1}, 1}, {[]byte{2}, 1}, {[]byte{3}, 1}, {[]byte{0}, 0}, {[]byte{0}, -1},
			{[]byte{0}, 65536}, {[]byte{0, 0, 7}, 2}, {[]byte{0, 0}, 2}, {[]byte{1, 0, 1, 0}, 2}, {[]byte{1, 0, 1, 1}, 2},
			{[]byte{1, 0, 1, 0}, 3}, {[]byte{1, 0, 1, 255}, 257}, {[]byte{1, 0, 1, 255}, 256}, {[]byte{1, 0xff, 0xff, 0}, 2},
			{[]byte{1, 0xff, 0xff, 1}, 3}, {[]byte{2, 0, 1, 0, 0}, 2}, {[]byte{2, 0, 1, 0xff, 0xfd}, 65535},
			{[]byte{2, 0, 1, 0xff, 0xfe}, 65535}, {[]byte{2, 0, 0, 0xff, 0xff}, 65535}, {[]byte{2, 0, 1, 0xff, 0xff}, 2},
			{[]byte{2, 0, 0, 0xff, 0xff}, 2}, {[]byte{2, 0, 1, 0, 0, 0, 5, 0xff, 0xff}, 3}, {[]byte{2, 0xff, 0xff, 0, 1}, 3},
			{[]byte{1, 0, 1}, 2}, {[]byte{2, 0, 1, 0}, 2}, {[]byte{0, 1}, 2},
		} {
			csCase("fixed", fx.b, fx.n)
		}
		{ // one moderately large format-0 table in every tier (≈ 2 s in the compiled driver)
			b := []byte{0}
			for i := 1; i < 14000; i++ {
				b = append(b, totalBe16b(i+390)...)
			}
			csCase("fixed:f0-14000", b, 14000)
		}
		if big {
			for _, n := range []int{65535, 65534} {
				b := append([]byte{0}, r.Bytes(2*(n-1))...)
				csCase("fixed:f0-max", b, n)
				fd := append([]byte{0}, make([]byte, n)...)
				fdCase("fixed:f0-max", fd, n, 1)
			}
		}
		trunc := 0
		for i := 0; i < budget; i++ {
			switch {
			case i%10 < 5:
				b, n, how := totalCffsetsGenCharset(r, big)
				csCase("gen:"+how, b, n)
				if len(b) <= 24 && trunc < budget/6 {
					for k := 0; k < len(b); k++ {
						csCase("truncate-every", b[:k], n)
						trunc++
					}
				}
			case i%10 < 7: // the library's own encoder
				k := Pick(r, []int{1, 2, 3, 8, 30, 200})
				names := make([]int32, k)
				v := int32(0)
				for j := 1; j < k; j++ {
					if r.Chance(1, 3) {
						v = int32(r.Intn(65536 - k))
					} else {
						v++
					}
					names[j] = v
				}
				enc, err := cff.VerifEncodeCharset(names)
				if err != nil {
					continue
				}
				csCase("encoder", enc, k)
				if r.Chance(1, 3) {
					csCase("encoder:n-other", enc, k+Pick(r, []int{-1, 1, 2}))
				}
			case i%10 < 9:
				var b []byte
				var n int
				if len(ss.charsets) > 0 && r.Chance(1, 3) {
					s := Pick(r, ss.charsets)
					b, n = s[0].([]byte), s[1].(int)
					if !small(b) {
						b, n, _ = totalCffsetsGenCharset(r, big)
					}
				} else {
					b, n, _ = totalCffsetsGenCharset(r, big)
				}
				if len(b) > 3000 {
					b = b[:3000]
				}
				b, how := totalMutate(r, b)
				csCase("mut:"+how, b, n)
			default:
				b := r.Bytes(r.Intn(16))
				if len(b) > 0 && r.Chance(2, 3) {
					b[0] = byte(r.Intn(3))
				}
				csCase("random", b, Pick(r, []int{1, 2, 3, 4, 6, 300}))
			}
		}

		// ---- readEncoding
		for _, fx := range []struct {
			b  []byte
			cs []int
		}{
			{nil, nil}, {[]byte{0}, nil}, {[]byte{0, 0}, nil}, {[]byte{0, 0}, []int{0}}, {[]byte{0, 1, 65}, []int{0}},
			{[]byte{0, 1, 65}, []int{0, 34}}, {[]byte{0, 2, 65, 65}, []int{0, 34, 35}}, {[]byte{0, 2, 65}, []int{0, 34, 35}},
			{[]byte{1, 0}, nil}, {[]byte{1, 1, 65, 0}, []int{0, 34}}, {[]byte{1, 1, 65, 1}, []int{0, 34}},
			{[]byte{1, 1, 65, 1}, []int{0, 34, 35}}, {[]byte{1, 1, 255, 1}, []int{0, 34, 35}}, {[]byte{1, 1, 255, 0}, []int{0, 34, 35}},
			{[]byte{1, 1, 0, 255}, []int{0, 1, 2}}, {[]byte{1, 2, 65, 0, 65, 0}, []int{0, 34, 35}}, {[]byte{2, 0}, []int{0}},
			{[]byte{0x80, 0, 0}, []int{0}}, {[]byte{0x80, 0}, []int{0}}, {[]byte{0x80, 1, 65, 1, 66, 0, 34}, []int{0, 34}},
			{[]byte{0x80, 1, 65, 1, 65, 0, 34}, []int{0, 34}}, {[]byte{0x80, 1, 65, 1, 66, 0, 35}, []int{0, 34, 35}},
			{[]byte{0x80, 1, 65, 1, 66, 0, 99}, []int{0, 34, 35}}, {[]byte{0x80, 1, 65, 1, 66, 0, 0}, []int{0, 34, 35}},
			{[]byte{0x81, 1, 65, 0, 1, 66, 0, 34}, []int{0, 34, 34}}, {[]byte{0x81, 1, 65, 1, 1, 70, 0, 34}, []int{0, 34, 34}},
			{[]byte{0x80, 1, 65, 1, 66, 0, 34}, []int{0, 65536 + 34}}, {[]byte{0x80, 1, 65, 1, 66, 0xff, 0xff}, []int{0, -1}},
			{[]byte{0x80, 1, 65, 1, 66, 0}, []int{0, 34}}, {[]byte{0x80, 1, 65, 2, 66, 0, 34}, []int{0, 34}},
		} {
			encCase("fixed", fx.b, fx.cs)
		}
		// full format-1 coverage: 256 codes in one range, long charset
		long := make([]int, 300)
		for i := range long {
			long[i] = i
		}
		encCase("fixed", []byte{1, 1, 0, 255}, long)
		encCase("fixed", []byte{1, 2, 0, 255, 0, 0}, long)
		encCase("fixed", []byte{0x81, 1, 0, 254, 1, 255, 0, 7}, long)
		trunc = 0
		for i := 0; i < budget; i++ {
			switch {
			case i%10 < 5:
				b, cs, how := totalCffsetsGenEncoding(r)
				encCase("gen:"+how, b, cs)
				if len(b) <= 24 && len(cs) <= 40 && trunc < budget/6 {
					for k := 0; k < len(b); k++ {
						encCase("truncate-every", b[:k], cs)
						trunc++
					}
				}
			case i%10 < 7: // the library's own encoder
				ng := Pick(r, []int{1, 2, 5, 30, 120, 257})
				names := make([]int32, ng)
				csl := make([]int, ng)
				for j := 1; j < ng; j++ {
					names[j] = int32(j + Pick(r, []int{0, 390}))
					csl[j] = int(names[j])
				}
				encv := make([]glyph.ID, 256)
				k := r.Intn(ng)
				if k > 200 {
					k = 200
				}
				code := r.Intn(256)
				for g := 1; g <= k; g++ {
					encv[code] = glyph.ID(g)
					if r.Chance(1, 4) {
						code = r.Intn(256)
					} else {
						code = (code + 1) % 256
					}
					for encv[code] != 0 {
						code = (code + 1) % 256
					}
				}
				if k > 0 && r.Bool() { // further codes for encoded glyphs: a supplement
					for x := r.Range(1, 3); x > 0; x-- {
						cd := r.Intn(256)
						if encv[cd] == 0 {
							encv[cd] = glyph.ID(r.Range(1, k))
						}
					}
				}
				enc, err := cff.VerifEncodeEncoding(encv, names)
				if err != nil {
					continue
				}
				encCase("encoder", enc, csl)
			case i%10 < 9:
				var b []byte
				var cs []int
				if len(ss.encodings) > 0 && r.Chance(1, 3) {
					s := Pick(r, ss.encodings)
					b, cs = s[0].([]byte), s[1].([]int)
					if len(cs) > 400 {
						b, cs, _ = totalCffsetsGenEncoding(r)
					}
				} else {
					b, cs, _ = totalCffsetsGenEncoding(r)
				}
				b, how := totalMutate(r, b)
				encCase("mut:"+how, b, cs)
			default:
				b := r.Bytes(r.Intn(16))
				if len(b) > 0 && r.Chance(2, 3) {
					b[0] = Pick(r, []byte{0, 1, 0x80, 0x81})
				}
				encCase("random", b, totalCffsetsGenCharsetList(r))
			}
		}

		// ---- readFDSelect and the accessor
		for _, fx := range []struct {
			b     []byte
			n, np int
		}{
			{nil, 0, 1}, {[]byte{0}, 0, 1}, {[]byte{0}, 0, 0}, {[]byte{0}, -1, 1}, {[]byte{0, 0}, -1, 1}, {[]byte{0}, 1, 1},
			{[]byte{0, 0}, 1, 1}, {[]byte{0, 0}, 1, 0}, {[]byte{0, 0}, 1, -1}, {[]byte{0, 1}, 1, 1}, {[]byte{0, 1}, 1, 2},
			{[]byte{0, 0, 1, 0}, 3, 2}, {[]byte{0, 0, 1, 0, 9}, 3, 2}, {[]byte{3}, 0, 1}, {[]byte{3, 0, 0}, 0, 1},
			{[]byte{3, 0, 0, 0, 0}, 0, 1}, {[]byte{3, 0, 0, 0, 0}, 0, 0}, {[]byte{3, 0, 0, 0, 1}, 1, 1}, {[]byte{3, 0, 0, 0, 0}, -1, 1},
			{[]byte{3, 0, 0, 0xff, 0xff}, -1, 1}, {[]byte{3, 0, 1, 0, 0, 0, 0, 0}, 0, 1}, {[]byte{3, 0, 1, 0, 0, 0, 0, 1}, 1, 1},
			{[]byte{3, 0, 1, 0, 0, 1, 0, 1}, 1, 1}, {[]byte{3, 0, 1, 0, 0, 1, 0, 1}, 1, 2}, {[]byte{3, 0, 1, 0, 1, 0, 0, 1}, 1, 1},
			{[]byte{3, 0, 2, 0, 0, 0, 0, 1, 1, 0, 2}, 2, 2}, {[]byte{3, 0, 2, 0, 0, 0, 0, 0, 1, 0, 2}, 2, 2},
			{[]byte{3, 0, 2, 0, 0, 0, 0, 10, 1, 0, 5}, 5, 2}, {[]byte{3, 0, 3, 0, 0, 0, 0, 10, 1, 0, 20, 0, 0, 5}, 5, 2},
			{[]byte{3, 0, 3, 0, 0, 0, 0, 10, 1, 0, 20, 1, 0, 15}, 15, 2}, {[]byte{3, 0, 1, 0, 0, 0, 0xff, 0xff}, 65535, 1},
			{[]byte{3, 0, 1, 0, 0, 0, 0, 0}, 65536, 1}, {[]byte{3, 0, 2, 0, 0, 0, 0xff, 0xff, 0, 0, 5}, 5, 1}, {[]byte{4}, 1, 1},
		} {
			fdCase("fixed", fx.b, fx.n, fx.np)
		}
		trunc = 0
		for i := 0; i < budget; i++ {
			switch {
			case i%10 < 4:
				b, n, np, how := totalCffsetsGenFDSelect(r, big)
				fdCase("gen:"+how, b, n, np)
				if len(b) <= 24 && trunc < budget/6 {
					for k := 0; k < len(b); k++ {
						fdCase("truncate-every", b[:k], n, np)
						trunc++
					}
				}
			case i%10 < 5:
				b, n, np := totalCffsetsGenFDSelect3(r)
				fdCase("gen:f3-sentinel-vs-last", b, n, np)
			case i%10 < 7: // the library's own encoder
				n := Pick(r, []int{0, 1, 2, 7, 50, 400})
				np := r.Range(1, 6)
				fds := make([]int, n)
				cur := r.Intn(np)
				for j := range fds {
					if r.Chance(1, Pick(r, []int{2, 10, 60})) {
						cur = r.Intn(np)
					}
					fds[j] = cur
				}
				enc := cff.VerifFDSelectEncode(func(g glyph.ID) int { return fds[g] }, n)
				fdCase("encoder", enc, n, np)
				if r.Chance(1, 3) {
					fdCase("encoder:n-other", enc, n+Pick(r, []int{-1, 1}), np)
				}
			case i%10 < 9:
				var b []byte
				var n, np int
				if len(ss.fdselects) > 0 && r.Chance(1, 3) {
					s := Pick(r, ss.fdselects)
					b, n, np = s[0].([]byte), s[1].(int), s[2].(int)
					if !small(b) {
						b, n, np, _ = totalCffsetsGenFDSelect(r, big)
					}
				} else {
					b, n, np, _ = totalCffsetsGenFDSelect(r, big)
				}
				if len(b) > 3000 {
					b = b[:3000]
				}
				b, how := totalMutate(r, b)
				fdCase("mut:"+how, b, n, np)
			default:
				b := r.Bytes(r.Intn(16))
				if len(b) > 0 && r.Chance(2, 3) {
					b[0] = Pick(r, []byte{0, 3})
				}
				fdCase("random", b, Pick(r, []int{0, 1, 2, 3, 5, 12}), Pick(r, []int{1, 2, 256}))
			}
		}
	}
}
