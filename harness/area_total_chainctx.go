package main

// Area `total`, group `chainctx` (property C02): verdict stream of the checked-index Lean model of
// readChainedSeqContext1/2/3 (opentype/gtab/nested.go), reached through
// gtab.VerifReadGsubSubtable(data, pos, 6).
//
// V lines `tmchainctx.read bytes=<hex> pos=<n>` print the outcome class (err:io | err:invalid |
// err:unsupported | panic) or "ok:" and the decoded subtable in canonical form:
//   c1|<coverage runs s-e:i>|<rule sets>
//   c2|<coverage>|<backtrack classes s-e:c>|<input classes>|<lookahead classes>|<rule sets>
//   c3|<backtrack sets>|<input sets>|<lookahead sets>|<actions>
// rule sets are joined by ';' ('-' = nil, '=' = no rules), rules by '/', a rule is
// b<list>i<list>l<list>a<list>, a list is its numbers joined by '.', or #<len>~<hash> beyond 32
// entries.  Format words whose uint16 key 10*6+format used to be the key of another reader (11, 21,
// 0xFFCF …: finding C02-dispatch-key) are refused since the repair of gsub.go:42: err:invalid.

import (
	"sort"
	"strconv"
	"strings"

	"seehuhn.de/go/sfnt/glyph"
	"seehuhn.de/go/sfnt/opentype/classdef"
	"seehuhn.de/go/sfnt/opentype/coverage"
	"seehuhn.de/go/sfnt/opentype/gtab"
)

func totalChainctxW(ws ...int) []byte {
	b := make([]byte, 0, 2*len(ws))
	for _, w := range ws {
		b = append(b, byte(w>>8), byte(w))
	}
	return b
}

func totalChainctxShowCoverage(t coverage.Table) string {
	keys := make([]int, 0, len(t))
	for g := range t {
		keys = append(keys, int(g))
	}
	sort.Ints(keys)
	var sb strings.Builder
	for i := 0; i < len(keys); {
		j := i
		for j+1 < len(keys) && keys[j+1] == keys[j]+1 && t[glyph.ID(keys[j+1])] == t[glyph.ID(keys[j])]+1 {
			j++
		}
		if sb.Len() > 0 {
			sb.WriteByte(',')
		}
		sb.WriteString(strconv.Itoa(keys[i]) + "-" + strconv.Itoa(keys[j]) + ":" + strconv.Itoa(t[glyph.ID(keys[i])]))
		i = j + 1
	}
	return sb.String()
}

func totalChainctxShowSet(s coverage.Set) string {
	keys := make([]int, 0, len(s))
	for g := range s {
		keys = append(keys, int(g))
	}
	sort.Ints(keys)
	var sb strings.Builder
	for i := 0; i < len(keys); {
		j := i
		for j+1 < len(keys) && keys[j+1] == keys[j]+1 {
			j++
		}
		if sb.Len() > 0 {
			sb.WriteByte(',')
		}
		sb.WriteString(strconv.Itoa(keys[i]) + "-" + strconv.Itoa(keys[j]))
		i = j + 1
	}
	return sb.String()
}

func totalChainctxShowClassDef(t classdef.Table) string {
	arr := new([65536]uint16)
	for g, cl := range t {
		arr[int(g)&0xffff] = cl
	}
	var sb strings.Builder
	for i := 0; i < 65536; {
		if arr[i] == 0 {
			i++
			continue
		}
		j := i
		for j+1 < 65536 && arr[j+1] == arr[i] {
			j++
		}
		if sb.Len() > 0 {
			sb.WriteByte(',')
		}
		sb.WriteString(strconv.Itoa(i) + "-" + strconv.Itoa(j) + ":" + strconv.Itoa(int(arr[i])))
		i = j + 1
	}
	return sb.String()
}

func totalChainctxShowList(l []int) string {
	if len(l) <= 32 {
		ss := make([]string, len(l))
		for i, v := range l {
			ss[i] = strconv.Itoa(v)
		}
		return strings.Join(ss, ".")
	}
	h := uint64(7)
	for _, v := range l {
		h = (h*31 + uint64(v) + 1) % 1000000007
	}
	return "#" + strconv.Itoa(len(l)) + "~" + strconv.FormatUint(h, 10)
}

func totalChainctxGids(l []glyph.ID) []int {
	out := make([]int, len(l))
	for i, v := range l {
		out[i] = int(v)
	}
	return out
}

func totalChainctxU16s(l []uint16) []int {
	out := make([]int, len(l))
	for i, v := range l {
		out[i] = int(v)
	}
	return out
}

func totalChainctxActs(l []gtab.SeqLookup) []int {
	out := make([]int, 0, 2*len(l))
	for _, a := range l {
		out = append(out, int(a.SequenceIndex), int(a.LookupListIndex))
	}
	return out
}

func totalChainctxShowRule(back, input, look, acts []int) string {
	return "b" + totalChainctxShowList(back) + "i" + totalChainctxShowList(input) + "l" +
		totalChainctxShowList(look) + "a" + totalChainctxShowList(acts)
}

func totalChainctxShowSub(st gtab.Subtable) string {
	sets := func(n int, isNil func(i int) bool, rules func(i int) []string) string {
		ss := make([]string, n)
		for i := 0; i < n; i++ {
			switch rr := rules(i); {
			case isNil(i):
				ss[i] = "-"
			case len(rr) == 0:
				ss[i] = "="
			default:
				ss[i] = strings.Join(rr, "/")
			}
		}
		return strings.Join(ss, ";")
	}
	covSets := func(l []coverage.Set) string {
		ss := make([]string, len(l))
		for i, s := range l {
			ss[i] = totalChainctxShowSet(s)
		}
		return strings.Join(ss, ";")
	}
	switch l := st.(type) {
	case *gtab.ChainedSeqContext1:
		return "c1|" + totalChainctxShowCoverage(l.Cov) + "|" + sets(len(l.Rules),
			func(i int) bool { return l.Rules[i] == nil },
			func(i int) []string {
				var out []string
				for _, r := range l.Rules[i] {
					out = append(out, totalChainctxShowRule(totalChainctxGids(r.Backtrack), totalChainctxGids(r.Input),
						totalChainctxGids(r.Lookahead), totalChainctxActs(r.Actions)))
				}
				return out
			})
	case *gtab.ChainedSeqContext2:
		return "c2|" + totalChainctxShowCoverage(l.Cov) + "|" + totalChainctxShowClassDef(l.Backtrack) + "|" +
			totalChainctxShowClassDef(l.Input) + "|" + totalChainctxShowClassDef(l.Lookahead) + "|" + sets(len(l.Rules),
			func(i int) bool { return l.Rules[i] == nil },
			func(i int) []string {
				var out []string
				for _, r := range l.Rules[i] {
					out = append(out, totalChainctxShowRule(totalChainctxU16s(r.Backtrack), totalChainctxU16s(r.Input),
						totalChainctxU16s(r.Lookahead), totalChainctxActs(r.Actions)))
				}
				return out
			})
	case *gtab.ChainedSeqContext3:
		return "c3|" + covSets(l.Backtrack) + "|" + covSets(l.Input) + "|" + covSets(l.Lookahead) + "|" +
			totalChainctxShowList(totalChainctxActs(l.Actions))
	}
	return "other"
}

func totalChainctxClass(out string) string {
	if strings.HasPrefix(out, "ok:") {
		return out[:5]
	}
	return out
}

// ---- builders

type totalChainctxRule struct {
	back, input, look []int
	acts              []int // pairs
	igc               int   // inputGlyphCount word; -1: len(input)+1
	slc               int   // seqLookupCount word; -1: len(acts)/2
}

func totalChainctxEncRule(r totalChainctxRule) []byte {
	igc, slc := r.igc, r.slc
	if igc < 0 {
		igc = len(r.input) + 1
	}
	if slc < 0 {
		slc = len(r.acts) / 2
	}
	ws := []int{len(r.back)}
	ws = append(ws, r.back...)
	ws = append(ws, igc)
	ws = append(ws, r.input...)
	ws = append(ws, len(r.look))
	ws = append(ws, r.look...)
	ws = append(ws, slc)
	ws = append(ws, r.acts...)
	return totalChainctxW(ws...)
}

// totalChainctxSetsBlock lays out rule sets from offset `start` (relative to the subtable) and
// returns the set offsets and the bytes.  A nil set has offset 0.  alias: 0 none, 1 all rule
// offsets of a set point at its first rule, 2 all set offsets point at the first non-nil set.
func totalChainctxSetsBlock(start int, sets [][]totalChainctxRule, alias int) ([]int, []byte) {
	offs := make([]int, len(sets))
	var out []byte
	first := 0
	for i, rr := range sets {
		if rr == nil {
			continue
		}
		if alias == 2 && first != 0 {
			offs[i] = first
			continue
		}
		base := start + len(out)
		offs[i] = base
		if first == 0 {
			first = base
		}
		ro := make([]int, len(rr))
		var body []byte
		hdr := 2 + 2*len(rr)
		for j, r := range rr {
			if alias == 1 && j > 0 {
				ro[j] = ro[0]
				continue
			}
			ro[j] = hdr + len(body)
			body = append(body, totalChainctxEncRule(r)...)
		}
		out = append(out, totalChainctxW(append([]int{len(rr)}, ro...)...)...)
		out = append(out, body...)
	}
	return offs, out
}

func totalChainctxCov(gids []int) []byte {
	return totalChainctxW(append([]int{1, len(gids)}, gids...)...)
}

// format 1: header, coverage, sets.  setCount < 0: len(sets).
func totalChainctxBuild1(cov []byte, sets [][]totalChainctxRule, setCount, alias int) []byte {
	n := len(sets)
	if setCount < 0 {
		setCount = n
	}
	hdr := 6 + 2*n
	covOff := hdr
	offs, body := totalChainctxSetsBlock(hdr+len(cov), sets, alias)
	ws := append([]int{1, covOff, setCount}, offs...)
	return append(append(totalChainctxW(ws...), cov...), body...)
}

// format 2: header, coverage, three class tables (nil = offset 0), sets.
func totalChainctxBuild2(cov []byte, cds [3][]byte, sets [][]totalChainctxRule, alias int) []byte {
	n := len(sets)
	hdr := 12 + 2*n
	pos := hdr + len(cov)
	var cdOff [3]int
	var cdBytes []byte
	for i, cd := range cds {
		if cd == nil {
			continue
		}
		cdOff[i] = pos + len(cdBytes)
		cdBytes = append(cdBytes, cd...)
	}
	offs, body := totalChainctxSetsBlock(pos+len(cdBytes), sets, alias)
	ws := append([]int{2, hdr, cdOff[0], cdOff[1], cdOff[2], n}, offs...)
	return append(append(append(totalChainctxW(ws...), cov...), cdBytes...), body...)
}

// format 3: counts nb/ni/nl (words) may differ from the number of coverage tables when forced.
func totalChainctxBuild3(back, input, look [][]byte, acts []int, alias bool) []byte {
	hdr := 2 + 2 + 2*len(back) + 2 + 2*len(input) + 2 + 2*len(look) + 2 + 2*len(acts)
	var body []byte
	first := -1
	place := func(l [][]byte) []int {
		out := make([]int, len(l))
		for i, cv := range l {
			if alias && first >= 0 {
				out[i] = first
				continue
			}
			out[i] = hdr + len(body)
			if first < 0 {
				first = out[i]
			}
			body = append(body, cv...)
		}
		return out
	}
	bo, io, lo := place(back), place(input), place(look)
	ws := []int{3, len(back)}
	ws = append(ws, bo...)
	ws = append(ws, len(input))
	ws = append(ws, io...)
	ws = append(ws, len(look))
	ws = append(ws, lo...)
	ws = append(ws, len(acts)/2)
	ws = append(ws, acts...)
	return append(totalChainctxW(ws...), body...)
}

func totalChainctxRandRule(r *Rng, maxv int) totalChainctxRule {
	seq := func(n int) []int {
		out := make([]int, n)
		for i := range out {
			out[i] = r.Intn(maxv + 1)
		}
		return out
	}
	ru := totalChainctxRule{back: seq(r.Range(0, 2)), input: seq(r.Range(0, 2)), look: seq(r.Range(0, 2)), igc: -1, slc: -1}
	for k := r.Range(0, 2); k > 0; k-- {
		ru.acts = append(ru.acts, r.Intn(3), r.Intn(5))
	}
	return ru
}

func totalChainctxRandSets(r *Rng, n, maxv int) [][]totalChainctxRule {
	sets := make([][]totalChainctxRule, n)
	for i := range sets {
		if r.Chance(1, 4) {
			continue // nil
		}
		sets[i] = []totalChainctxRule{}
		for k := r.Range(0, 3); k > 0; k-- {
			sets[i] = append(sets[i], totalChainctxRandRule(r, maxv))
		}
	}
	return sets
}

func totalChainctxRandCov(r *Rng, n int) []byte {
	g := r.Range(0, 50)
	if r.Chance(1, 3) { // format 2
		ws := []int{2, 0}
		idx, cnt := 0, 0
		for idx < n {
			k := r.Range(1, 3)
			if idx+k > n {
				k = n - idx
			}
			ws = append(ws, g, g+k-1, idx)
			idx += k
			g += k + r.Range(1, 5)
			cnt++
		}
		ws[1] = cnt
		return totalChainctxW(ws...)
	}
	gids := make([]int, n)
	for i := range gids {
		gids[i] = g
		g += r.Range(1, 4)
	}
	return totalChainctxCov(gids)
}

func totalChainctxRandCd(r *Rng, maxClass int) []byte {
	if r.Bool() { // format 1
		n := r.Range(0, 8)
		ws := []int{1, r.Range(0, 40), n}
		for i := 0; i < n; i++ {
			ws = append(ws, r.Intn(maxClass+1))
		}
		return totalChainctxW(ws...)
	}
	ws := []int{2, 0}
	g := r.Range(0, 20)
	n := r.Range(0, 4)
	for i := 0; i < n; i++ {
		e := g + r.Range(0, 4)
		ws = append(ws, g, e, r.Intn(maxClass+1))
		g = e + r.Range(1, 6)
	}
	ws[1] = n
	return totalChainctxW(ws...)
}

func totalChainctxRandValid(r *Rng) ([]byte, string) {
	switch r.Intn(3) {
	case 0:
		n := r.Range(0, 4)
		cov := totalChainctxRandCov(r, n+r.Range(0, 1)*r.Range(0, 2))
		sc := -1
		if r.Chance(1, 5) {
			sc = n + 1
		}
		return totalChainctxBuild1(cov, totalChainctxRandSets(r, n, 60), sc, Pick(r, []int{0, 0, 0, 1, 2})), "valid1"
	case 1:
		n := r.Range(0, 4)
		var cds [3][]byte
		for i := range cds {
			if r.Chance(4, 5) {
				cds[i] = totalChainctxRandCd(r, 4)
			}
		}
		return totalChainctxBuild2(totalChainctxRandCov(r, r.Range(0, 4)), cds, totalChainctxRandSets(r, n, 4), Pick(r, []int{0, 0, 0, 1, 2})), "valid2"
	}
	covs := func(n int) [][]byte {
		out := make([][]byte, n)
		for i := range out {
			out[i] = totalChainctxRandCov(r, r.Range(0, 4))
		}
		return out
	}
	var acts []int
	for k := r.Range(0, 2); k > 0; k-- {
		acts = append(acts, r.Intn(3), r.Intn(5))
	}
	ni := r.Range(1, 2)
	if r.Chance(1, 8) {
		ni = 0
	}
	return totalChainctxBuild3(covs(r.Range(0, 2)), covs(ni), covs(r.Range(0, 2)), acts, r.Chance(1, 4)), "valid3"
}

type totalChainctxTab struct {
	name string
	b    []byte
}

func totalChainctxStructured(r *Rng) []totalChainctxTab {
	var tt []totalChainctxTab
	add := func(name string, b []byte) { tt = append(tt, totalChainctxTab{name, b}) }
	R := func(back, input, look, acts []int) totalChainctxRule {
		return totalChainctxRule{back: back, input: input, look: look, acts: acts, igc: -1, slc: -1}
	}
	cov2 := totalChainctxCov([]int{5, 9})
	cov3 := totalChainctxCov([]int{5, 9, 12})
	cd := totalChainctxW(2, 2, 1, 3, 1, 7, 9, 2)
	oneSet := [][]totalChainctxRule{{R([]int{1}, []int{2}, []int{3}, []int{0, 1})}, nil}
	// format 1: counts 0/1/2 in every sequence
	for nb := 0; nb <= 2; nb++ {
		for ni := 0; ni <= 2; ni++ {
			for nl := 0; nl <= 2; nl++ {
				ru := R(make([]int, nb), make([]int, ni), make([]int, nl), []int{1, 2})
				for i := range ru.back {
					ru.back[i] = 20 + i
				}
				for i := range ru.input {
					ru.input[i] = 30 + i
				}
				for i := range ru.look {
					ru.look[i] = 40 + i
				}
				add("f1-counts", totalChainctxBuild1(cov2, [][]totalChainctxRule{{ru}, {}}, -1, 0))
				add("f2-counts", totalChainctxBuild2(cov2, [3][]byte{cd, cd, cd}, [][]totalChainctxRule{{ru}, {}, nil}, 0))
			}
		}
	}
	add("f1-valid", totalChainctxBuild1(cov2, oneSet, -1, 0))
	add("f1-empty", totalChainctxBuild1(totalChainctxCov(nil), nil, -1, 0))
	add("f1-allnil", totalChainctxBuild1(cov2, [][]totalChainctxRule{nil, nil}, -1, 0))
	add("f1-cov-longer", totalChainctxBuild1(cov3, oneSet, -1, 0))
	add("f1-cov-shorter", totalChainctxBuild1(totalChainctxCov([]int{5}), oneSet, -1, 0))
	add("f1-count-beyond", totalChainctxBuild1(cov2, oneSet, 3, 0))
	add("f1-count-fewer", totalChainctxBuild1(cov2, oneSet, 1, 0))
	two := [][]totalChainctxRule{{R([]int{1}, []int{2}, nil, []int{0, 1}), R(nil, nil, nil, nil), R(nil, []int{4, 5}, []int{6}, nil)},
		{R(nil, nil, nil, []int{0, 0})}, {R(nil, nil, nil, nil)}}
	add("f1-alias-rules", totalChainctxBuild1(cov3, two, -1, 1))
	add("f1-alias-sets", totalChainctxBuild1(cov3, two, -1, 2))
	add("f2-alias-rules", totalChainctxBuild2(cov3, [3][]byte{cd, cd, cd}, two, 1))
	add("f2-alias-sets", totalChainctxBuild2(cov3, [3][]byte{cd, cd, cd}, two, 2))
	add("f2-valid", totalChainctxBuild2(cov2, [3][]byte{cd, cd, cd}, two, 0))
	add("f2-nocd", totalChainctxBuild2(cov2, [3][]byte{nil, nil, nil}, two, 0))
	add("f2-noinput-cd", totalChainctxBuild2(cov2, [3][]byte{cd, nil, cd}, two, 0))
	add("f2-fewclasses", totalChainctxBuild2(cov2, [3][]byte{cd, totalChainctxW(2, 0), cd}, two, 0))
	add("f2-cd1", totalChainctxBuild2(cov2, [3][]byte{cd, totalChainctxW(1, 4, 3, 1, 0, 2), cd}, two, 0))
	add("f2-empty", totalChainctxBuild2(totalChainctxCov(nil), [3][]byte{cd, cd, cd}, nil, 0))
	// inputGlyphCount = 0: 65535 entries wanted, data missing
	z := R([]int{1}, nil, nil, nil)
	z.igc = 0
	add("f1-igc0-short", totalChainctxBuild1(cov2, [][]totalChainctxRule{{z}, nil}, -1, 0))
	add("f2-igc0-short", totalChainctxBuild2(cov2, [3][]byte{cd, cd, cd}, [][]totalChainctxRule{{z}, nil}, 0))
	// seqLookupCount beyond the data / too many actions
	y := R(nil, []int{3}, nil, []int{0, 1})
	y.slc = 2
	add("f1-slc-beyond", totalChainctxBuild1(cov2, [][]totalChainctxRule{{y}, nil}, -1, 0))
	// format 3
	cvA, cvB := totalChainctxCov([]int{1, 2, 3}), totalChainctxW(2, 1, 10, 12, 0)
	for nb := 0; nb <= 2; nb++ {
		for ni := 0; ni <= 2; ni++ {
			for nl := 0; nl <= 2; nl++ {
				mk := func(n int) [][]byte {
					out := make([][]byte, n)
					for i := range out {
						out[i] = [][]byte{cvA, cvB}[i%2]
					}
					return out
				}
				add("f3-counts", totalChainctxBuild3(mk(nb), mk(ni), mk(nl), []int{0, 1}, false))
				add("f3-alias", totalChainctxBuild3(mk(nb), mk(ni), mk(nl), []int{0, 1, 1, 2}, true))
			}
		}
	}
	add("f3-noacts", totalChainctxBuild3(nil, [][]byte{cvA}, nil, nil, false))
	add("f3-unsorted-set", totalChainctxBuild3(nil, [][]byte{totalChainctxCov([]int{9, 3, 3})}, nil, nil, false))
	// unknown formats, and the format words whose key used to collide with / wrap into another
	// reader's key (now err:invalid on both sides)
	add("fmt0", totalChainctxW(0, 1, 2, 3))
	add("fmt4", totalChainctxW(4, 1, 2, 3))
	add("fmt-wrap-1_1", totalChainctxW(0xffcf, 6, 1, 1, 1, 5))
	add("fmt-wrap-none", totalChainctxW(0xffc4, 6, 1, 1, 1, 5))
	add("fmt-65535", totalChainctxW(0xffff, 0, 0))
	// keys that collide without wrapping: 10*6+11 = 71 (7_1, extension), 10*6+21 = 81 (8_1)
	add("fmt-collide-7_1", totalChainctxW(11, 6, 0, 0, 8, 0, 1, 0))
	add("fmt-collide-8_1", totalChainctxW(21, 10, 0, 0, 0, 1, 1, 5))
	add("fmt-10", totalChainctxW(10, 6, 0, 0, 8, 0, 1, 0))
	add("fmt-9", totalChainctxW(9, 6, 0, 0, 8, 0, 1, 0))
	add("fmt-wrap-65497", totalChainctxW(65497, 6, 1, 1, 1, 5))
	for _, k := range []int{12, 21, 31, 41, 51, 52, 53, 71, 81} {
		add("fmt-wrap-key", totalChainctxW((k-60+65536)&0xffff, 6, 1, 1, 1, 5))
	}
	// size caps of formats 1 and 2: a rule set beyond 0xFFFF through aliased rules
	big := R(make([]int, 900), nil, nil, nil)
	bigSet := make([]totalChainctxRule, 40)
	for i := range bigSet {
		bigSet[i] = big
	}
	add("f1-ruleset-cap", totalChainctxBuild1(cov2, [][]totalChainctxRule{bigSet, nil}, -1, 1))
	add("f2-ruleset-cap", totalChainctxBuild2(cov2, [3][]byte{cd, cd, cd}, [][]totalChainctxRule{bigSet, nil}, 1))
	bigSet2 := bigSet[:30]
	add("f1-total-cap", totalChainctxBuild1(cov3, [][]totalChainctxRule{bigSet2, bigSet2, bigSet2}, -1, 1))
	add("f2-total-cap", totalChainctxBuild2(cov3, [3][]byte{cd, cd, cd}, [][]totalChainctxRule{bigSet2, bigSet2, bigSet2}, 1))
	add("f1-total-ok", totalChainctxBuild1(cov2, [][]totalChainctxRule{bigSet2, {R(nil, nil, nil, nil)}}, -1, 1))
	_ = r
	return tt
}

// totalChainctxFromGsub finds the type-6 subtables (also behind an extension, type 7) of a GSUB
// table: positions relative to the table.
func totalChainctxFromGsub(b []byte) []int {
	u16 := func(p int) int {
		if p < 0 || p+2 > len(b) {
			return -1
		}
		return int(b[p])<<8 | int(b[p+1])
	}
	var out []int
	ll := u16(8)
	if ll <= 0 {
		return nil
	}
	n := u16(ll)
	for i := 0; i < n && i < 200; i++ {
		lo := u16(ll + 2 + 2*i)
		if lo < 0 {
			break
		}
		lp := ll + lo
		tp, sc := u16(lp), u16(lp+4)
		for k := 0; k < sc && k < 50; k++ {
			so := u16(lp + 6 + 2*k)
			if so < 0 {
				break
			}
			sp := lp + so
			switch tp {
			case 6:
				out = append(out, sp)
			case 7:
				if u16(sp) == 1 && u16(sp+2) == 6 && sp+8 <= len(b) {
					ext := int(b[sp+4])<<24 | int(b[sp+5])<<16 | int(b[sp+6])<<8 | int(b[sp+7])
					if sp+ext < len(b) {
						out = append(out, sp+ext)
					}
				}
			}
		}
	}
	return out
}

func init() {
	ops["tmchainctx.read"] = func(f Fields) string {
		return totalCanonPanic(guard(func() string {
			b, pos := f.Hex("bytes"), f.Int("pos")
			if pos < 0 {
				return "bad-case"
			}
			st, err := gtab.VerifReadGsubSubtable(b, int64(pos), 6)
			if err != nil {
				return totalErrClass(err)
			}
			return "ok:" + totalChainctxShowSub(st)
		}))
	}
	totalModelGens["chainctx"] = totalChainctxGen
}

// totalChainctxHeavy: does the real reader decode more than `limit` map entries (coverage, class
// tables, coverage sets) from this input?  The Lean model keeps maps as association lists (the
// size pass of format 2 looks every glyph of a class range up in them), so one mutated line with a
// 65000-glyph class range costs seconds in the compiled driver; the quick tier leaves such
// generated lines out (the thorough tier keeps them).
func totalChainctxHeavy(b []byte, pos, limit int) (heavy bool) {
	defer func() {
		if recover() != nil {
			heavy = false
		}
	}()
	if pos < 0 || pos+2 > len(b) {
		return false
	}
	st, err := gtab.VerifReadGsubSubtable(b, int64(pos), 6)
	if err != nil {
		return false
	}
	n := 0
	switch l := st.(type) {
	case *gtab.ChainedSeqContext1:
		n = len(l.Cov)
	case *gtab.ChainedSeqContext2:
		n = len(l.Cov) + len(l.Backtrack) + len(l.Input) + len(l.Lookahead)
	case *gtab.ChainedSeqContext3:
		for _, ll := range [][]coverage.Set{l.Backtrack, l.Input, l.Lookahead} {
			for _, s := range ll {
				n += len(s)
			}
		}
	}
	return n > limit
}

func totalChainctxGen(c *Ctx, r *Rng, seeds []totalSeed) {
	budget := c.N / 3
	cnt, limit := 0, 0
	seen := map[string]bool{}
	emit := func(gen string, b []byte, pos int, force bool) bool {
		if !force && cnt >= limit {
			return false
		}
		key := strconv.Itoa(pos) + " " + string(b)
		if seen[key] {
			return false
		}
		seen[key] = true
		if !force && c.Tier != "thorough" && totalChainctxHeavy(b, pos, 6000) {
			c.Stat("tmchainctx:read:gen", "left-out-heavy")
			return false
		}
		out := c.Case(Verdict, "tmchainctx.read", "bytes="+hx(b)+" pos="+strconv.Itoa(pos), len(b) >= 6)
		cnt++
		c.Stat("tmchainctx:read", totalChainctxClass(out))
		c.Stat("tmchainctx:read:gen", gen)
		return true
	}
	full := func() bool { return cnt >= limit }

	// 1. structured subtables (always), at pos 0 and behind a junk prefix
	tabs := totalChainctxStructured(r)
	for _, t := range tabs {
		emit("structured", t.b, 0, true)
		c.Stat("tmchainctx:structured", t.name)
		if len(t.b) < 600 {
			pre := r.Bytes(r.Range(1, 9))
			emit("structured-prefix", append(append([]byte{}, pre...), t.b...), len(pre), true)
		}
	}
	// inputGlyphCount = 0 with all 65535 input glyphs present (3 big lines, thorough tier only).
	// Before the repair C02-zero-count (nested.go:746, 1083) the rule was accepted with a
	// 65535-entry input in format 1 and format 2; now it is refused as invalid.
	{
		z := totalChainctxRule{igc: 0, slc: -1, input: make([]int, 65535)}
		for i := range z.input {
			z.input[i] = (i * 7) & 0xffff
		}
		cov2 := totalChainctxCov([]int{5, 9})
		cd := totalChainctxW(2, 1, 1, 3, 1)
		f1 := totalChainctxBuild1(cov2, [][]totalChainctxRule{{z}, nil}, -1, 0)
		// (262 KB lines; while the rule was accepted one such line took 35 s in the compiled Lean
		// driver — lists, a read at position q costs O(q).  The quick tier keeps the zero-count
		// rules WITHOUT the data behind them: f1-igc0-short and f2-igc0-short above.)
		if c.Tier == "thorough" {
			emit("igc0-full", f1, 0, true)
			emit("igc0-full", totalChainctxBuild2(cov2, [3][]byte{cd, cd, cd}, [][]totalChainctxRule{{z}, nil}, 0), 0, true)
			emit("igc0-full", f1[:len(f1)-5], 0, true)
		}
	}
	base := cnt
	rem := budget - base
	if rem < 0 {
		rem = 0
	}
	const parts = 6
	phase := func(k int) { limit = base + rem*k/parts }

	// 2. chained subtables inside the GSUB seeds
	type seedT struct {
		b   []byte
		pos int
		src string
	}
	var pool []seedT
	for _, s := range seeds {
		if s.dec != "gsub" {
			continue
		}
		for _, sp := range totalChainctxFromGsub(s.bytes) {
			if len(s.bytes) <= 3000 {
				pool = append(pool, seedT{s.bytes, sp, s.src})
			} else {
				end := sp + 3000
				if end > len(s.bytes) {
					end = len(s.bytes)
				}
				pool = append(pool, seedT{s.bytes[sp:end], 0, s.src})
			}
		}
	}
	for i := len(pool) - 1; i > 0; i-- {
		j := r.Intn(i + 1)
		pool[i], pool[j] = pool[j], pool[i]
	}
	phase(1)
	for _, s := range pool {
		if full() {
			break
		}
		if emit("seed", s.b, s.pos, false) {
			c.Stat("tmchainctx:seed", s.src)
		}
	}

	// 3. random valid subtables
	phase(3)
	var valid [][]byte
	for it := 0; !full() && it < 20*rem+100; it++ {
		b, kind := totalChainctxRandValid(r)
		pos := 0
		if r.Chance(1, 4) {
			pre := r.Bytes(r.Range(1, 9))
			b, pos = append(append([]byte{}, pre...), b...), len(pre)
		}
		if emit("valid", b, pos, false) {
			c.Stat("tmchainctx:valid", kind)
			if pos == 0 && len(valid) < 400 {
				valid = append(valid, b)
			}
		}
	}

	// 4. mutations of structured / random valid / seed subtables
	phase(4)
	for it := 0; !full() && it < 20*rem+100; it++ {
		var src []byte
		pos := 0
		switch k := r.Intn(4); {
		case k == 0 && len(pool) > 0:
			s := Pick(r, pool)
			src, pos = s.b, s.pos
		case k == 1 && len(valid) > 0:
			src = Pick(r, valid)
		default:
			src = Pick(r, tabs).b
			if len(src) > 2000 {
				continue
			}
		}
		m, what := totalMutate(r, src)
		if pos > 0 && pos+2 <= len(m) && pos+2 <= len(src) { // keep the format word of a seed
			m[pos], m[pos+1] = src[pos], src[pos+1]
		}
		if emit("mutation", m, pos, false) {
			c.Stat("tmchainctx:mutation", what)
		}
	}

	// 5. truncation at every offset of small subtables
	phase(5)
	var small [][]byte
	for _, t := range tabs {
		if len(t.b) <= 80 {
			small = append(small, t.b)
		}
	}
	for _, v := range valid {
		if len(v) <= 80 {
			small = append(small, v)
		}
	}
	for it := 0; !full() && len(small) > 0 && it < 30*len(small); it++ {
		t := Pick(r, small)
		for n := 0; n < len(t) && !full(); n++ {
			emit("truncate-every", t[:n], 0, false)
		}
	}

	// 6. random bytes, the format word forced most of the time
	limit = budget
	if limit < base {
		limit = base
	}
	for it := 0; !full() && it < 20*rem+100; it++ {
		b := r.Bytes(r.Range(0, 64))
		if r.Chance(5, 6) && len(b) >= 2 {
			b[0], b[1] = 0, byte(r.Range(1, 3))
		}
		for k := 2; k+1 < len(b); k += 2 { // small words: plausible counts and offsets
			if r.Chance(2, 3) {
				b[k], b[k+1] = 0, byte(r.Intn(len(b)+2))
			}
		}
		pos := 0
		if r.Chance(1, 6) {
			pos = r.Range(0, len(b)+2)
		}
		emit("random", b, pos, false)
	}
}
