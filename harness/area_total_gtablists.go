//go:build verif

package main

// C02, group gtablists: verdict streams of the checked-index models of the GSUB/GPOS script-list,
// feature-list and header readers (lean/SfntV/Model/TotalGtabLists.lean).
//
//	tmgtablists.script  bytes=<hex> pos=<n>      -> ok:<script>:<lang|->:<req>:<o.o|->,... | err:<class> | panic
//	tmgtablists.feature bytes=<hex> pos=<n>      -> ok:<tag>:<l.l|->,...                | err:<class> | panic
//	tmgtablists.header  bytes=<hex> tp=gsub|gpos -> ok:empty | ok:sl=..;fl=..;ll=0       | err:<class> | panic
//
// The header stream only carries tables whose lookup list, where gtab.Read reaches it, is empty or
// unreadable (the lookup list has its own model); totalGtablistsEmptyLL enforces this.

import (
	"bytes"
	"fmt"
	"runtime"
	"sort"
	"strconv"
	"strings"

	"seehuhn.de/go/sfnt/opentype/gtab"
)

func totalGtablistsDots(n int, at func(int) int) string {
	if n == 0 {
		return "-"
	}
	q := make([]string, n)
	for k := range q {
		q[k] = strconv.Itoa(at(k))
	}
	return strings.Join(q, ".")
}

// totalGtablistsShowSL prints the map by OpenType tag pairs (the library's bcp47ToOtf inverts
// otfToBCP47 on every pair of known tags), sorted by (script, lang).
func totalGtablistsShowSL(sl gtab.ScriptListInfo) string {
	type ent struct{ script, lang, rest string }
	var es []ent
	for tag, f := range sl {
		sc, lg, err := gtab.VerifBCP47ToOtf(tag)
		if err != nil {
			return "unconvertible-tag:" + tag.String()
		}
		l := "-"
		if lg != "" {
			l = hx([]byte(lg))
		}
		opt := totalGtablistsDots(len(f.Optional), func(k int) int { return int(f.Optional[k]) })
		es = append(es, ent{sc, lg, fmt.Sprintf("%s:%s:%d:%s", hx([]byte(sc)), l, f.Required, opt)})
	}
	sort.Slice(es, func(i, j int) bool {
		if es[i].script != es[j].script {
			return es[i].script < es[j].script
		}
		return es[i].lang < es[j].lang
	})
	parts := make([]string, len(es))
	for i, e := range es {
		parts[i] = e.rest
	}
	return strings.Join(parts, ",")
}

func totalGtablistsShowFL(fl gtab.FeatureListInfo) string {
	parts := make([]string, len(fl))
	for i, f := range fl {
		parts[i] = hx([]byte(f.Tag)) + ":" + totalGtablistsDots(len(f.Lookups), func(k int) int { return int(f.Lookups[k]) })
	}
	return strings.Join(parts, ",")
}

func totalGtablistsScript(b []byte, pos int) string {
	return totalCanonPanic(guard(func() string {
		sl, err := gtab.VerifReadScriptList(b, int64(pos))
		if err != nil {
			return totalErrClass(err)
		}
		return "ok:" + totalGtablistsShowSL(sl)
	}))
}

func totalGtablistsFeature(b []byte, pos int) string {
	return totalCanonPanic(guard(func() string {
		fl, err := gtab.VerifReadFeatureList(b, int64(pos))
		if err != nil {
			return totalErrClass(err)
		}
		return "ok:" + totalGtablistsShowFL(fl)
	}))
}

func totalGtablistsHeader(b []byte, tp string) string {
	return totalCanonPanic(guard(func() string {
		t := gtab.Type(gtab.TypeGsub)
		if tp == "gpos" {
			t = gtab.TypeGpos
		}
		info, err := gtab.Read(bytes.NewReader(b), t)
		if err != nil {
			return totalErrClass(err)
		}
		if info.LookupList == nil {
			if info.FeatureList != nil || len(info.ScriptList) != 0 || info.ScriptList == nil {
				return "ok:unexpected-empty-shape"
			}
			return "ok:empty"
		}
		if info.FeatureList == nil {
			return "ok:unexpected-nil-feature-list"
		}
		return fmt.Sprintf("ok:sl=%s;fl=%s;ll=%d", totalGtablistsShowSL(info.ScriptList),
			totalGtablistsShowFL(info.FeatureList), len(info.LookupList))
	}))
}

// ---------------------------------------------------------------- builders

type totalGtablistsLS struct {
	order, req int
	idx        []int
	count      int // featureIndexCount field; -1 = len(idx)
}

func (ls *totalGtablistsLS) bytes() []byte {
	n := ls.count
	if n < 0 {
		n = len(ls.idx)
	}
	b := append(totalBe16b(ls.order), totalBe16b(ls.req)...)
	b = append(b, totalBe16b(n)...)
	for _, v := range ls.idx {
		b = append(b, totalBe16b(v)...)
	}
	return b
}

type totalGtablistsLang struct {
	tag string
	ls  *totalGtablistsLS
}

type totalGtablistsScriptT struct {
	tag   string
	dflt  *totalGtablistsLS
	langs []totalGtablistsLang
	alias bool // all named language systems share the first LangSys table
	count int  // langSysCount field; -1 = len(langs)
}

func totalGtablistsTag4(t string) []byte { return []byte((t + "    ")[:4]) }

func (s *totalGtablistsScriptT) bytes() []byte {
	n := s.count
	if n < 0 {
		n = len(s.langs)
	}
	head := 4 + 6*len(s.langs)
	var tail []byte
	dOff := 0
	if s.dflt != nil {
		dOff = head
		tail = append(tail, s.dflt.bytes()...)
	}
	b := append(totalBe16b(dOff), totalBe16b(n)...)
	first := -1
	for _, l := range s.langs {
		off := head + len(tail)
		if s.alias && first >= 0 {
			off = first
		} else {
			tail = append(tail, l.ls.bytes()...)
			if first < 0 {
				first = off
			}
		}
		b = append(b, totalGtablistsTag4(l.tag)...)
		b = append(b, totalBe16b(off)...)
	}
	return append(b, tail...)
}

// totalGtablistsSL lays out a script list; alias: every script record points at the first script
// table; count < 0: scriptCount = len(scripts).
func totalGtablistsSL(scripts []totalGtablistsScriptT, alias bool, count int) []byte {
	if count < 0 {
		count = len(scripts)
	}
	head := 2 + 6*len(scripts)
	b := totalBe16b(count)
	var tail []byte
	for i := range scripts {
		off := head + len(tail)
		if alias && i > 0 {
			off = head
		} else {
			tail = append(tail, scripts[i].bytes()...)
		}
		b = append(b, totalGtablistsTag4(scripts[i].tag)...)
		b = append(b, totalBe16b(off)...)
	}
	return append(b, tail...)
}

type totalGtablistsFeat struct {
	tag     string
	params  int
	lookups []int
	count   int // lookupIndexCount field; -1 = len(lookups)
}

func totalGtablistsFL(fs []totalGtablistsFeat, alias bool, count int) []byte {
	if count < 0 {
		count = len(fs)
	}
	head := 2 + 6*len(fs)
	b := totalBe16b(count)
	var tail []byte
	for i, f := range fs {
		off := head + len(tail)
		if alias && i > 0 {
			off = head
		} else {
			n := f.count
			if n < 0 {
				n = len(f.lookups)
			}
			tail = append(tail, totalBe16b(f.params)...)
			tail = append(tail, totalBe16b(n)...)
			for _, v := range f.lookups {
				tail = append(tail, totalBe16b(v)...)
			}
		}
		b = append(b, totalGtablistsTag4(f.tag)...)
		b = append(b, totalBe16b(off)...)
	}
	return append(b, tail...)
}

// totalGtablistsTable assembles a GSUB/GPOS table with an empty lookup list.
func totalGtablistsTable(minor int, sl, fl []byte, fvo int) []byte {
	h := 10
	if minor >= 1 {
		h = 14
	}
	so := h
	fo := so + len(sl)
	lo := fo + len(fl)
	b := append(totalBe16b(1), totalBe16b(minor)...)
	b = append(b, totalBe16b(so)...)
	b = append(b, totalBe16b(fo)...)
	b = append(b, totalBe16b(lo)...)
	if minor >= 1 {
		b = append(b, totalBe32b(fvo)...)
	}
	b = append(b, sl...)
	b = append(b, fl...)
	return append(b, 0, 0)
}

// totalGtablistsEmptyLL makes the lookup list of a (possibly malformed) table empty or unreadable:
// where gtab.Read would read the lookup count, it finds 0.
func totalGtablistsEmptyLL(b []byte) []byte {
	c := append([]byte(nil), b...)
	if len(c) >= 10 {
		lo := int(c[8])<<8 | int(c[9])
		if lo+1 < len(c) {
			c[lo], c[lo+1] = 0, 0
		}
	}
	return c
}

// totalGtablistsAliased: the aliasing adversary as a complete GSUB/GPOS table (version 1.0, empty
// feature and lookup lists): s script records all pointing at ONE script table, whose l LangSys
// records all point at ONE LangSys table with f feature indices: 6s+6l+2f+26 bytes, s*l LangSys
// visits of f reads and f allocated indices each.  distinct: the records carry distinct known tags
// (167 scripts, 620 languages), so the map RETAINS min(s,167)*min(l,620) feature sets.
func totalGtablistsAliased(s, l, f int, distinct bool) []byte {
	totalGtablistsInitTags()
	sl := totalBe16b(s)
	for i := 0; i < s; i++ {
		t := "latn"
		if distinct {
			t = totalGtablistsScripts[i%len(totalGtablistsScripts)]
		}
		sl = append(sl, t...)
		sl = append(sl, totalBe16b(2+6*s)...)
	}
	sl = append(sl, 0, 0)
	sl = append(sl, totalBe16b(l)...)
	for i := 0; i < l; i++ {
		t := "ENG "
		if distinct {
			t = totalGtablistsLangs[i%len(totalGtablistsLangs)]
		}
		sl = append(sl, t...)
		sl = append(sl, totalBe16b(4+6*l)...)
	}
	sl = append(sl, 0, 0, 0xFF, 0xFF)
	sl = append(sl, totalBe16b(f)...)
	for i := 0; i < f; i++ {
		sl = append(sl, 0, 1)
	}
	return totalGtablistsTable(0, sl, []byte{0, 0}, 0)
}

var totalGtablistsScripts, totalGtablistsLangs []string

func totalGtablistsInitTags() {
	if totalGtablistsScripts != nil {
		return
	}
	for k := range gtab.VerifScriptBcp47() {
		totalGtablistsScripts = append(totalGtablistsScripts, k)
	}
	for k := range gtab.VerifLangBcp47() {
		totalGtablistsLangs = append(totalGtablistsLangs, k)
	}
	sort.Strings(totalGtablistsScripts)
	sort.Strings(totalGtablistsLangs)
}

func totalGtablistsRandTag(r *Rng) string {
	switch r.Intn(4) {
	case 0:
		return string(r.Bytes(4))
	case 1:
		return "zzzz"
	case 2:
		return "latn" // a script tag in a language position and vice versa
	default:
		return "ENG "
	}
}

func totalGtablistsGenLS(r *Rng) *totalGtablistsLS {
	ls := &totalGtablistsLS{count: -1, req: Pick(r, []int{0xFFFF, 0xFFFF, 0, 1, 7, 0xFFFE})}
	for k := r.Intn(6); k > 0; k-- {
		ls.idx = append(ls.idx, Pick(r, []int{0, 1, 2, 3, 17, 0xFFFF, 0xFFFE, r.Intn(0x10000)}))
	}
	return ls
}

func totalGtablistsGenScript(r *Rng) totalGtablistsScriptT {
	totalGtablistsInitTags()
	s := totalGtablistsScriptT{tag: Pick(r, totalGtablistsScripts), count: -1}
	if r.Chance(1, 6) {
		s.tag = totalGtablistsRandTag(r)
	}
	if r.Chance(2, 3) {
		s.dflt = totalGtablistsGenLS(r)
	}
	for k := Pick(r, []int{0, 0, 1, 1, 2, 3, 5, 14}); k > 0; k-- {
		t := Pick(r, totalGtablistsLangs)
		if r.Chance(1, 6) {
			t = totalGtablistsRandTag(r)
		}
		if len(s.langs) > 0 && r.Chance(1, 8) {
			t = s.langs[r.Intn(len(s.langs))].tag // duplicate tag
		}
		s.langs = append(s.langs, totalGtablistsLang{t, totalGtablistsGenLS(r)})
	}
	s.alias = r.Chance(1, 5)
	return s
}

func totalGtablistsGenSL(r *Rng) []byte {
	var ss []totalGtablistsScriptT
	for k := Pick(r, []int{0, 1, 1, 2, 3, 5, 13, 20}); k > 0; k-- {
		s := totalGtablistsGenScript(r)
		if len(ss) > 0 && r.Chance(1, 8) {
			s.tag = ss[r.Intn(len(ss))].tag
		}
		ss = append(ss, s)
	}
	return totalGtablistsSL(ss, r.Chance(1, 5), -1)
}

func totalGtablistsGenFL(r *Rng) []byte {
	var fs []totalGtablistsFeat
	for k := Pick(r, []int{0, 1, 1, 2, 3, 5, 13, 30}); k > 0; k-- {
		f := totalGtablistsFeat{tag: Pick(r, []string{"liga", "kern", "calt", "mark", "locl", "ss01", string(r.Bytes(4))}), count: -1}
		if r.Chance(1, 5) {
			f.params = Pick(r, []int{1, 4, 0xFFFF, r.Intn(0x10000)})
		}
		for j := Pick(r, []int{0, 1, 1, 2, 3, 8}); j > 0; j-- {
			f.lookups = append(f.lookups, Pick(r, []int{0, 1, 2, 5, 0xFFFF, r.Intn(0x10000)}))
		}
		fs = append(fs, f)
	}
	return totalGtablistsFL(fs, r.Chance(1, 5), -1)
}

func totalGtablistsClass(res string) string {
	if strings.HasPrefix(res, "ok:") {
		return "ok"
	}
	return res
}

func init() {
	ops["tmgtablists.script"] = func(f Fields) string { return totalGtablistsScript(f.Hex("bytes"), f.Int("pos")) }
	ops["tmgtablists.feature"] = func(f Fields) string { return totalGtablistsFeature(f.Hex("bytes"), f.Int("pos")) }
	ops["tmgtablists.header"] = func(f Fields) string { return totalGtablistsHeader(f.Hex("bytes"), f["tp"]) }

	// reproduction of the aliasing adversary on the real gtab.Read (deterministic counts only)
	ops["tmgtablists.adv"] = func(f Fields) string {
		return totalCanonPanic(guard(func() string {
			b := totalGtablistsAliased(f.Int("s"), f.Int("l"), f.Int("f"), f["distinct"] == "1")
			var m0, m1 runtime.MemStats
			runtime.ReadMemStats(&m0)
			info, err := gtab.Read(bytes.NewReader(b), gtab.TypeGsub)
			runtime.ReadMemStats(&m1)
			if err != nil {
				return totalErrClass(err)
			}
			n := 0
			for _, ff := range info.ScriptList {
				n += len(ff.Optional)
			}
			mib := (m1.TotalAlloc - m0.TotalAlloc) >> 20
			// the allocation is reported as a threshold only, so that the line is deterministic
			return fmt.Sprintf("ok:bytes=%d;entries=%d;indices=%d;alloc>=%dMiB=%v", len(b), len(info.ScriptList), n,
				f.Int("mib"), int(mib) >= f.Int("mib"))
		}))
	}

	totalModelGens["gtablists"] = func(c *Ctx, r *Rng, seeds []totalSeed) {
		totalGtablistsInitTags()
		budget := c.N / 3
		if budget < 120 {
			budget = 120
		}
		const maxLen = 4000
		emit := func(fn string, b []byte, pos int, kind string) {
			if len(b) > maxLen {
				b = b[:maxLen]
			}
			args := "bytes=" + hx(b)
			if fn == "header" {
				b = totalGtablistsEmptyLL(b)
				args = "bytes=" + hx(b) + " tp=" + Pick(r, []string{"gsub", "gpos"})
			} else {
				args += " pos=" + strconv.Itoa(pos)
			}
			res := c.Case(Verdict, "tmgtablists."+fn, args, true)
			cl := totalGtablistsClass(res)
			c.Stat("tmgtablists:"+fn, cl)
			c.Stat("tmgtablists:"+fn+"-kind", kind+"/"+cl)
			if cl == "ok" {
				c.Stat("tmgtablists:"+fn+"-ok-entries", bucket(strings.Count(res, ",")+1))
			}
		}
		// a list at position pos behind `pos` bytes of padding
		at := func(pad int, b []byte) []byte { return append(r.Bytes(pad), b...) }

		ls := func(req int, idx ...int) *totalGtablistsLS { return &totalGtablistsLS{req: req, idx: idx, count: -1} }
		lang := func(t string, l *totalGtablistsLS) totalGtablistsLang { return totalGtablistsLang{t, l} }
		sc := func(tag string, d *totalGtablistsLS, langs ...totalGtablistsLang) totalGtablistsScriptT {
			return totalGtablistsScriptT{tag: tag, dflt: d, langs: langs, count: -1}
		}

		// ------------------------------------------------------------ script list
		{
			fixed := func(b []byte, kind string) { emit("script", b, 0, kind) }
			fixed(nil, "fixed")
			fixed([]byte{0}, "fixed")
			fixed([]byte{0, 0}, "fixed") // no scripts
			fixed(totalGtablistsSL([]totalGtablistsScriptT{sc("latn", ls(0xFFFF))}, false, -1), "fixed")
			fixed(totalGtablistsSL([]totalGtablistsScriptT{sc("latn", nil)}, false, -1), "fixed") // no langsys at all
			fixed(totalGtablistsSL([]totalGtablistsScriptT{sc("DFLT", ls(0xFFFF, 0, 1, 2))}, false, -1), "fixed")
			fixed(totalGtablistsSL([]totalGtablistsScriptT{sc("latn", ls(3, 0, 0xFFFF, 2), lang("ENG ", ls(0xFFFF, 5)), lang("DEU ", ls(1)))}, false, -1), "fixed")
			fixed(totalGtablistsSL([]totalGtablistsScriptT{sc("latn", nil, lang("ENG ", ls(0xFFFF, 5)))}, false, -1), "fixed")
			fixed(totalGtablistsSL([]totalGtablistsScriptT{sc("zzzz", ls(0xFFFF, 1))}, false, -1), "unknown-script")
			fixed(totalGtablistsSL([]totalGtablistsScriptT{sc("latn", ls(0xFFFF, 1), lang("qqqq", ls(2, 3)), lang("ENG ", ls(4)))}, false, -1), "unknown-lang")
			fixed(totalGtablistsSL([]totalGtablistsScriptT{sc("latn", ls(0xFFFF, 1), lang("ENG ", ls(2, 3)), lang("ENG ", ls(4)))}, false, -1), "dup-lang")
			fixed(totalGtablistsSL([]totalGtablistsScriptT{sc("latn", ls(0xFFFF, 1)), sc("latn", ls(7, 2))}, false, -1), "dup-script")
			fixed(totalGtablistsSL([]totalGtablistsScriptT{sc("latn", ls(0xFFFF, 1)), sc("cyrl", ls(7, 2)), sc("grek", nil)}, true, -1), "alias-scripts")
			{
				s := sc("latn", ls(0xFFFF, 1), lang("ENG ", ls(2, 3)), lang("DEU ", ls(4)), lang("FRA ", ls(5)))
				s.alias = true
				fixed(totalGtablistsSL([]totalGtablistsScriptT{s, sc("cyrl", nil)}, true, -1), "alias-both")
			}
			// 13 and 20 aliased records: beyond the insertion-sort threshold of sort.Slice
			for _, n := range []int{12, 13, 20, 40} {
				var ss []totalGtablistsScriptT
				for i := 0; i < n; i++ {
					ss = append(ss, sc(totalGtablistsScripts[(7*i)%len(totalGtablistsScripts)], ls(i, i)))
				}
				fixed(totalGtablistsSL(ss, true, -1), "alias-many")
				fixed(totalGtablistsSL(ss, false, -1), "many")
				s := sc("latn", ls(0xFFFF, 9))
				for i := 0; i < n; i++ {
					s.langs = append(s.langs, lang(totalGtablistsLangs[(11*i)%len(totalGtablistsLangs)], ls(i, i, i+1)))
				}
				s.alias = true
				fixed(totalGtablistsSL([]totalGtablistsScriptT{s}, false, -1), "alias-many-langs")
				s.alias = false
				fixed(totalGtablistsSL([]totalGtablistsScriptT{s}, false, -1), "many-langs")
			}
			// lookupOrderOffset != 0
			fixed(totalGtablistsSL([]totalGtablistsScriptT{sc("latn", &totalGtablistsLS{order: 1, req: 0xFFFF, count: -1})}, false, -1), "reorder")
			fixed(totalGtablistsSL([]totalGtablistsScriptT{sc("zzzz", &totalGtablistsLS{order: 0x8000, req: 0xFFFF, count: -1})}, false, -1), "reorder")
			// featureIndexCount beyond the data, exactly at the end, huge
			for _, cnt := range []int{0, 1, 2, 3, 4, 0xFFFF} {
				fixed(totalGtablistsSL([]totalGtablistsScriptT{sc("latn", &totalGtablistsLS{req: 1, idx: []int{5, 0xFFFF, 6}, count: cnt})}, false, -1), "ficount")
			}
			// scriptCount field vs records; the 6*count > size test
			base := totalGtablistsSL([]totalGtablistsScriptT{sc("latn", ls(0xFFFF, 1)), sc("cyrl", ls(1, 2))}, false, -1)
			for _, cnt := range []int{0, 1, 3, len(base) / 6, len(base)/6 + 1, 0xFFFF} {
				b := append([]byte(nil), base...)
				b[0], b[1] = byte(cnt>>8), byte(cnt)
				fixed(b, "scriptcount")
			}
			// script offsets: 0, inside the header (2+6n-1), exactly 2+6n, beyond the end, at the end
			for _, off := range []int{0, 1, 13, 14, 15, len(base) - 4, len(base) - 3, len(base), len(base) + 1, 0xFFFF} {
				b := append([]byte(nil), base...)
				b[6], b[7] = byte(off>>8), byte(off)
				fixed(b, "scriptoffset")
				b = append([]byte(nil), base...)
				b[12], b[13] = byte(off>>8), byte(off)
				fixed(b, "scriptoffset")
			}
			// script table: defaultLangSysOffset 0 / 1..3 / inside the records / wrap of 4+6*count
			st := totalGtablistsSL([]totalGtablistsScriptT{sc("latn", ls(0xFFFF, 1), lang("ENG ", ls(2, 3)), lang("DEU ", ls(4)))}, false, -1)
			for _, off := range []int{0, 1, 3, 4, 15, 16, 17, len(st) - 8, len(st), 0xFFFF} {
				b := append([]byte(nil), st...)
				b[8], b[9] = byte(off>>8), byte(off)
				fixed(b, "dflt-offset")
			}
			for _, cnt := range []int{0, 1, 2, 3, 10922, 10923, 21845, 0x8000, 0xFFFF} {
				b := append([]byte(nil), st...)
				b[10], b[11] = byte(cnt>>8), byte(cnt)
				fixed(b, "langsyscount")
				// with padding so that 8+12*count <= size can hold
				if cnt <= 3 {
					fixed(append(b, make([]byte, 40)...), "langsyscount")
				}
			}
			{ // 4+6*langSysCount wraps in uint16: count = 10923 -> 4+65538 mod 65536 = 6
				b := append([]byte(nil), st...)
				b[8], b[9] = 0, 5
				b[10], b[11] = 0x2a, 0xab
				fixed(b, "wrap")
				b = append([]byte(nil), st...)
				b[8], b[9] = 0, 7
				b[10], b[11] = 0x2a, 0xab
				fixed(b, "wrap")
			}
			// langsys offsets: 0 (the script table itself), beyond the end
			for _, off := range []int{0, 2, 4, len(st) - 8 - 6, len(st) - 8 - 5, len(st) - 8, 0xFFFF} {
				b := append([]byte(nil), st...)
				b[16], b[17] = byte(off>>8), byte(off)
				fixed(b, "langsys-offset")
			}
			// positions
			for _, pos := range []int{1, 5, 100} {
				emit("script", at(pos, st), pos, "pos")
				emit("script", at(pos, st), pos-1, "pos-off")
				emit("script", st, pos, "pos-beyond")
			}
			emit("script", st, len(st), "pos-beyond")
			emit("script", st, 1<<40, "pos-beyond")
			for i := 0; i <= len(st); i++ {
				fixed(st[:i], "truncate")
			}
		}

		// ------------------------------------------------------------ feature list
		ft := func(tag string, lookups ...int) totalGtablistsFeat {
			return totalGtablistsFeat{tag: tag, lookups: lookups, count: -1}
		}
		{
			fixed := func(b []byte, kind string) { emit("feature", b, 0, kind) }
			fixed(nil, "fixed")
			fixed([]byte{0}, "fixed")
			fixed([]byte{0, 0}, "fixed")
			fixed(totalGtablistsFL([]totalGtablistsFeat{ft("liga")}, false, -1), "fixed")
			fixed(totalGtablistsFL([]totalGtablistsFeat{ft("liga", 0)}, false, -1), "fixed")
			fixed(totalGtablistsFL([]totalGtablistsFeat{ft("liga", 0, 1), ft("kern", 2), ft("liga", 0xFFFF, 3)}, false, -1), "fixed")
			fixed(totalGtablistsFL([]totalGtablistsFeat{ft("liga", 0, 1), ft("kern", 2), ft("calt", 7)}, true, -1), "alias")
			fixed(totalGtablistsFL([]totalGtablistsFeat{{tag: "ss01", params: 0x1234, lookups: []int{4}, count: -1}}, false, -1), "params")
			for _, n := range []int{13, 40, 200} {
				var fs []totalGtablistsFeat
				for i := 0; i < n; i++ {
					fs = append(fs, ft("f"+strconv.Itoa(100+i), i, i+1))
				}
				fixed(totalGtablistsFL(fs, true, -1), "alias-many")
				fixed(totalGtablistsFL(fs, false, -1), "many")
			}
			// totalSize overflow: the running size passes 0xFFFF
			for _, cnt := range []int{32700, 32760, 32764, 32765, 32766, 0xFFFF} {
				// feature 1 (aliased by feature 2) claims cnt lookups; the data is short, so the outcome is
				// an I/O error or the overflow error, depending on which test comes first
				fs := []totalGtablistsFeat{{tag: "liga", lookups: []int{1, 2}, count: cnt}, ft("kern", 1)}
				fixed(totalGtablistsFL(fs, true, -1), "overflow")
			}
			// n features over ONE table of k lookups: the running totalSize 2+6n+i*(4+2k) reaches the
			// last feature below / above 0xFFFF (n=100: k=325 passes, k=326 is the overflow error)
			for _, nk := range [][2]int{{100, 325}, {100, 326}, {200, 160}, {199, 160}, {60, 100}, {500, 60}, {500, 62}} {
				fs := make([]totalGtablistsFeat, nk[0])
				for i := range fs {
					fs[i] = ft("liga")
				}
				for i := 0; i < nk[1]; i++ {
					fs[0].lookups = append(fs[0].lookups, i)
				}
				fixed(totalGtablistsFL(fs, true, -1), "alias-totalsize")
			}
			{ // two features over one table of k lookups: 2+12 + 2*(4+2k) vs 0xFFFF; small enough to emit: k = 1900
				fs := []totalGtablistsFeat{ft("liga"), ft("kern")}
				for i := 0; i < 1900; i++ {
					fs[0].lookups = append(fs[0].lookups, i)
				}
				fixed(totalGtablistsFL(fs, true, -1), "alias-long")
			}
			base := totalGtablistsFL([]totalGtablistsFeat{ft("liga", 0, 1), ft("kern", 2)}, false, -1)
			for _, cnt := range []int{0, 1, 3, len(base) / 6, len(base)/6 + 1, 10922, 10923, 0xFFFF} {
				b := append([]byte(nil), base...)
				b[0], b[1] = byte(cnt>>8), byte(cnt)
				fixed(b, "featurecount")
			}
			for _, off := range []int{0, 1, 2, 13, 14, len(base) - 4, len(base) - 3, len(base), 0xFFFF} {
				b := append([]byte(nil), base...)
				b[6], b[7] = byte(off>>8), byte(off)
				fixed(b, "featureoffset")
			}
			for _, cnt := range []int{0, 1, 2, 3, 4, 5, 0xFFFF} {
				b := append([]byte(nil), base...)
				b[16], b[17] = byte(cnt>>8), byte(cnt)
				fixed(b, "lookupcount")
			}
			// a list whose record area passes 0xFFFF: 10922 records fit (2+6n = 65534), 10923 do not
			for _, pos := range []int{1, 7, 64} {
				emit("feature", at(pos, base), pos, "pos")
				emit("feature", at(pos, base), pos+1, "pos-off")
				emit("feature", base, len(base)+pos, "pos-beyond")
			}
			emit("feature", base, 1<<40, "pos-beyond")
			for i := 0; i <= len(base); i++ {
				fixed(base[:i], "truncate")
			}
		}

		// ------------------------------------------------------------ header
		{
			sl := totalGtablistsSL([]totalGtablistsScriptT{sc("latn", ls(0xFFFF, 0), lang("ENG ", ls(1)))}, false, -1)
			fl := totalGtablistsFL([]totalGtablistsFeat{ft("liga", 0), ft("kern")}, false, -1)
			good := totalGtablistsTable(0, sl, fl, 0)
			good1 := totalGtablistsTable(1, sl, fl, 0)
			emit("header", good, 0, "fixed")
			emit("header", good1, 0, "fixed")
			emit("header", totalGtablistsTable(0, []byte{0, 0}, []byte{0, 0}, 0), 0, "fixed")
			for _, fvo := range []int{1, 13, 14, len(good1) - 1, len(good1), 0xFFFFFFFF, 0x80000000} {
				emit("header", totalGtablistsTable(1, sl, fl, fvo), 0, "fvo")
			}
			for _, v := range [][2]int{{0, 0}, {1, 2}, {2, 0}, {0, 1}, {1, 0xFFFF}, {0xFFFF, 0}} {
				b := append([]byte(nil), good...)
				copy(b[0:], totalBe16b(v[0]))
				copy(b[2:], totalBe16b(v[1]))
				emit("header", b, 0, "version")
			}
			for _, g := range [][]byte{good, good1} {
				h := 10
				if g[3] == 1 {
					h = 14
				}
				for _, field := range []int{4, 6, 8} {
					for _, off := range []int{0, 1, h - 1, h, h + 1, len(g) - 2, len(g) - 1, len(g), len(g) + 1, 0xFFFF} {
						b := append([]byte(nil), g...)
						copy(b[field:], totalBe16b(off))
						emit("header", b, 0, "offset")
					}
				}
				for i := 0; i <= len(g); i++ {
					emit("header", g[:i], 0, "truncate")
				}
			}
			// the three lists at one place
			{
				b := append([]byte(nil), good...)
				copy(b[4:], totalBe16b(len(good)-2))
				copy(b[6:], totalBe16b(len(good)-2))
				emit("header", b, 0, "overlap")
			}
		}

		// ------------------------------------------------------------ seeds
		type seedT struct {
			b      []byte
			so, fo int
		}
		var pool []seedT
		nSeeds := 0
		for _, s := range seeds {
			if s.dec != "gsub" && s.dec != "gpos" {
				continue
			}
			b := s.bytes
			if len(b) < 10 || len(b) > maxLen {
				continue
			}
			so, fo := int(b[4])<<8|int(b[5]), int(b[6])<<8|int(b[7])
			pool = append(pool, seedT{b, so, fo})
			if nSeeds < 24 {
				emit("script", b, so, "seed")
				emit("feature", b, fo, "seed")
				emit("header", b, 0, "seed")
				nSeeds++
			}
		}
		c.Stat("tmgtablists:seeds", "gsub/gpos-tables<=4000B="+strconv.Itoa(len(pool)))
		for i := 0; i < 6; i++ {
			sl, fl := totalGtablistsGenSL(r), totalGtablistsGenFL(r)
			t := totalGtablistsTable(r.Intn(2), sl, fl, 0)
			h := 10 + 4*int(t[3])
			pool = append(pool, seedT{t, h, h + len(sl)})
		}

		// ------------------------------------------------------------ random stream
		perFn := map[string]int{}
		for _, fn := range []string{"script", "feature", "header"} {
			for perFn[fn] < budget {
				perFn[fn]++
				var b []byte
				pos := 0
				kind := ""
				switch k := r.Intn(12); {
				case k < 4: // structured
					kind = "structured"
					switch fn {
					case "script":
						b = totalGtablistsGenSL(r)
					case "feature":
						b = totalGtablistsGenFL(r)
					default:
						b = totalGtablistsTable(Pick(r, []int{0, 0, 1}), totalGtablistsGenSL(r), totalGtablistsGenFL(r), Pick(r, []int{0, 0, 0, 20, 1 << 20}))
					}
					if fn != "header" && r.Chance(1, 4) {
						pos = r.Range(1, 40)
						b = at(pos, b)
					}
				case k < 8: // mutation of a structured list or of a seed table
					kind = "mutate"
					p := Pick(r, pool)
					switch fn {
					case "script":
						if r.Bool() {
							b, _ = totalMutate(r, totalGtablistsGenSL(r))
						} else {
							b, _ = totalMutate(r, p.b)
							pos = p.so
						}
					case "feature":
						if r.Bool() {
							b, _ = totalMutate(r, totalGtablistsGenFL(r))
						} else {
							b, _ = totalMutate(r, p.b)
							pos = p.fo
						}
					default:
						b, _ = totalMutate(r, p.b)
					}
					if r.Chance(1, 3) {
						b, _ = totalMutate(r, b)
					}
				case k < 10: // truncation
					kind = "truncate"
					p := Pick(r, pool)
					b = append([]byte(nil), p.b...)
					b = b[:r.Intn(len(b)+1)]
					switch fn {
					case "script":
						pos = p.so
					case "feature":
						pos = p.fo
					}
				case k < 11: // seed table read at a wrong position
					kind = "wrong-pos"
					p := Pick(r, pool)
					b = p.b
					pos = r.Intn(len(b) + 2)
					if fn == "header" {
						b = b[pos%len(b):]
					}
				default:
					kind = "random"
					b = r.Bytes(r.Range(0, 60))
					if fn == "header" && len(b) >= 4 && r.Chance(3, 4) {
						b[0], b[1], b[2], b[3] = 0, 1, 0, byte(r.Intn(2))
						if len(b) >= 10 {
							for _, f := range []int{4, 6, 8} {
								b[f], b[f+1] = 0, byte(r.Intn(len(b)+2))
							}
						}
					} else if len(b) >= 2 && r.Chance(3, 4) {
						b[0], b[1] = 0, byte(r.Intn(4))
						for i := 6; i+1 < len(b) && i < 6*4; i += 6 {
							b[i], b[i+1] = 0, byte(r.Intn(len(b)+2))
						}
					}
				}
				emit(fn, b, pos, kind)
			}
		}
	}
}
