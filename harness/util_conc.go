package main

// Deep structural hash used by the C16 purity correspondence (area conc).
//
// deepHash(v) walks the whole object graph below v with reflection: it follows pointers,
// interfaces, maps, slices (including the spare capacity beyond len, so that an append into
// shared backing storage is seen), arrays and struct fields (exported or not).  Map entries
// are combined order-independently.  Cycles are cut by an on-path set (a pointer met again
// while it is being visited contributes a fixed marker); completed pointers are memoised so
// shared substructures cost one visit.  Function values contribute their code pointer,
// channels and unsafe pointers their address.  The result depends only on the values stored
// in the graph and its shape — not on addresses of data (apart from code pointers) and not
// on map iteration order.

import (
	"encoding/binary"
	"fmt"
	"hash/fnv"
	"math"
	"reflect"
	"sort"
	"time"
	"unsafe"
)

type ptrKey struct {
	p uintptr
	t reflect.Type
	n int
}

type deepHasher struct {
	types  map[reflect.Type]uint64
	onPath map[ptrKey]bool
	memo   map[ptrKey]uint64
	taint  int // number of cycle markers emitted so far (memoise only untainted subgraphs)
	nodes  int
}

func newDeepHasher() *deepHasher {
	return &deepHasher{types: map[reflect.Type]uint64{}, onPath: map[ptrKey]bool{}, memo: map[ptrKey]uint64{}}
}

func mix(h uint64, x uint64) uint64 {
	h ^= x + 0x9E3779B97F4A7C15 + (h << 6) + (h >> 2)
	h *= 0xff51afd7ed558ccd
	h ^= h >> 33
	return h
}

func hashString(s string) uint64 {
	f := fnv.New64a()
	f.Write([]byte(s))
	return f.Sum64()
}

func hashBytes(b []byte) uint64 {
	f := fnv.New64a()
	f.Write(b)
	var l [8]byte
	binary.LittleEndian.PutUint64(l[:], uint64(len(b)))
	f.Write(l[:])
	return f.Sum64()
}

var timeType = reflect.TypeOf(time.Time{})

func (d *deepHasher) hash(v reflect.Value) uint64 {
	d.nodes++
	if !v.IsValid() {
		return 0x1111
	}
	t := v.Type()
	h, ok := d.types[t]
	if !ok {
		h = mix(0x5151, hashString(t.String()))
		d.types[t] = h
	}
	switch v.Kind() {
	case reflect.Bool:
		if v.Bool() {
			return mix(h, 1)
		}
		return mix(h, 2)
	case reflect.Int, reflect.Int8, reflect.Int16, reflect.Int32, reflect.Int64:
		return mix(h, uint64(v.Int()))
	case reflect.Uint, reflect.Uint8, reflect.Uint16, reflect.Uint32, reflect.Uint64, reflect.Uintptr:
		return mix(h, v.Uint())
	case reflect.Float32, reflect.Float64:
		return mix(h, math.Float64bits(v.Float()))
	case reflect.Complex64, reflect.Complex128:
		c := v.Complex()
		return mix(mix(h, math.Float64bits(real(c))), math.Float64bits(imag(c)))
	case reflect.String:
		return mix(h, hashString(v.String()))
	case reflect.Func:
		if v.IsNil() {
			return mix(h, 3)
		}
		return mix(h, uint64(v.Pointer()))
	case reflect.Chan, reflect.UnsafePointer:
		return mix(h, uint64(v.Pointer()))
	case reflect.Interface:
		if v.IsNil() {
			return mix(h, 4)
		}
		return mix(h, d.hash(v.Elem()))
	case reflect.Pointer:
		if v.IsNil() {
			return mix(h, 5)
		}
		k := ptrKey{v.Pointer(), t, 0}
		return mix(h, d.viaPointer(k, func() uint64 { return d.hash(v.Elem()) }))
	case reflect.Slice:
		if v.IsNil() {
			return mix(h, 6)
		}
		n, c := v.Len(), v.Cap()
		h = mix(mix(h, uint64(n)), uint64(c))
		if c == 0 {
			return h
		}
		k := ptrKey{v.Pointer(), t, c}
		return mix(h, d.viaPointer(k, func() uint64 {
			full := v.Slice(0, c) // the spare capacity is part of the shared storage
			if t.Elem().Kind() == reflect.Uint8 {
				return hashBytes(full.Bytes())
			}
			var x uint64 = 7
			for i := 0; i < c; i++ {
				x = mix(x, d.hash(full.Index(i)))
			}
			return x
		}))
	case reflect.Array:
		var x uint64 = 8
		for i := 0; i < v.Len(); i++ {
			x = mix(x, d.hash(v.Index(i)))
		}
		return mix(h, x)
	case reflect.Map:
		if v.IsNil() {
			return mix(h, 9)
		}
		k := ptrKey{v.Pointer(), t, 0}
		return mix(h, d.viaPointer(k, func() uint64 {
			var sum, xor uint64
			it := v.MapRange()
			for it.Next() {
				e := mix(mix(10, d.hash(it.Key())), d.hash(it.Value()))
				sum += e
				xor ^= e * 0x9E3779B97F4A7C15
			}
			return mix(mix(uint64(v.Len()), sum), xor)
		}))
	case reflect.Struct:
		if t == timeType && v.CanInterface() {
			tm := v.Interface().(time.Time)
			return mix(mix(h, uint64(tm.UnixNano())), hashString(tm.Location().String()))
		}
		var x uint64 = 11
		for i := 0; i < v.NumField(); i++ {
			x = mix(x, d.hash(v.Field(i)))
		}
		return mix(h, x)
	}
	return mix(h, 12)
}

func (d *deepHasher) viaPointer(k ptrKey, f func() uint64) uint64 {
	if x, ok := d.memo[k]; ok {
		return x
	}
	if d.onPath[k] {
		d.taint++
		return 0xC1C1E
	}
	d.onPath[k] = true
	t0 := d.taint
	x := f()
	delete(d.onPath, k)
	if d.taint == t0 {
		d.memo[k] = x
	}
	return x
}

func deepHash(x any) uint64 {
	return newDeepHasher().hash(reflect.ValueOf(x))
}

// deepHashParts hashes a struct (given by pointer) field by field, and one more level for
// pointer/interface-to-struct fields, so that a change can be located.
func deepHashParts(x any) map[string]uint64 {
	out := map[string]uint64{}
	v := reflect.ValueOf(x)
	for v.Kind() == reflect.Pointer || v.Kind() == reflect.Interface {
		if v.IsNil() {
			return out
		}
		v = v.Elem()
	}
	if v.Kind() != reflect.Struct {
		out["."] = deepHash(x)
		return out
	}
	for i := 0; i < v.NumField(); i++ {
		name := v.Type().Field(i).Name
		f := v.Field(i)
		out[name] = newDeepHasher().hash(f)
		g := f
		for g.Kind() == reflect.Pointer || g.Kind() == reflect.Interface {
			if g.IsNil() {
				break
			}
			g = g.Elem()
		}
		if g.Kind() == reflect.Struct && g.Type() != timeType {
			for j := 0; j < g.NumField(); j++ {
				out[name+"."+g.Type().Field(j).Name] = newDeepHasher().hash(g.Field(j))
			}
		}
	}
	return out
}

func diffParts(a, b map[string]uint64) string {
	var ks []string
	for k := range a {
		if a[k] != b[k] {
			ks = append(ks, k)
		}
	}
	for k := range b {
		if _, ok := a[k]; !ok {
			ks = append(ks, k)
		}
	}
	sort.Strings(ks)
	if len(ks) > 6 {
		ks = ks[:6]
	}
	return fmt.Sprint(ks)
}

// deepPoison fills the spare capacity (the bytes between len and cap) of every byte slice
// reachable from x with 0xEE, except where that memory is live data of another reachable byte
// slice (sub-slices of one image).  Spare capacity left by io.ReadAll is zero, so a stray
// append of zero padding into it would not change any hash; after poisoning it does.
// It returns the number of bytes poisoned.
func deepPoison(x any) int {
	type span struct {
		b []byte // the full capacity
		l int
	}
	var spans []span
	seen := map[ptrKey]bool{}
	var walk func(v reflect.Value)
	walk = func(v reflect.Value) {
		if !v.IsValid() {
			return
		}
		switch v.Kind() {
		case reflect.Interface:
			if !v.IsNil() {
				walk(v.Elem())
			}
		case reflect.Pointer:
			if v.IsNil() {
				return
			}
			k := ptrKey{v.Pointer(), v.Type(), 0}
			if seen[k] {
				return
			}
			seen[k] = true
			walk(v.Elem())
		case reflect.Struct:
			if v.Type() == timeType {
				return
			}
			for i := 0; i < v.NumField(); i++ {
				walk(v.Field(i))
			}
		case reflect.Array:
			for i := 0; i < v.Len(); i++ {
				walk(v.Index(i))
			}
		case reflect.Map:
			if v.IsNil() {
				return
			}
			it := v.MapRange()
			for it.Next() {
				walk(it.Value())
			}
		case reflect.Slice:
			if v.IsNil() || v.Cap() == 0 {
				return
			}
			k := ptrKey{v.Pointer(), v.Type(), v.Cap()}
			if seen[k] {
				return
			}
			seen[k] = true
			if v.Type().Elem().Kind() == reflect.Uint8 {
				spans = append(spans, span{v.Slice(0, v.Cap()).Bytes(), v.Len()})
				return
			}
			switch v.Type().Elem().Kind() {
			case reflect.Interface, reflect.Pointer, reflect.Struct, reflect.Array, reflect.Map, reflect.Slice:
				for i := 0; i < v.Len(); i++ {
					walk(v.Index(i))
				}
			}
		}
	}
	walk(reflect.ValueOf(x))
	// live intervals, by address
	type iv struct{ lo, hi uintptr }
	addr := func(b []byte) uintptr { return reflect.ValueOf(b).Pointer() }
	var live []iv
	for _, s := range spans {
		if s.l > 0 {
			live = append(live, iv{addr(s.b), addr(s.b) + uintptr(s.l)})
		}
	}
	sort.Slice(live, func(i, j int) bool { return live[i].lo < live[j].lo })
	var merged []iv // disjoint union
	for _, x := range live {
		if k := len(merged); k > 0 && x.lo <= merged[k-1].hi {
			if x.hi > merged[k-1].hi {
				merged[k-1].hi = x.hi
			}
		} else {
			merged = append(merged, x)
		}
	}
	n := 0
	for _, s := range spans {
		base := addr(s.b)
		p, end := base+uintptr(s.l), base+uintptr(len(s.b))
		for p < end {
			// first live interval ending after p
			i := sort.Search(len(merged), func(i int) bool { return merged[i].hi > p })
			if i < len(merged) && merged[i].lo <= p {
				p = merged[i].hi // inside live data: skip it
				continue
			}
			stop := end
			if i < len(merged) && merged[i].lo < stop {
				stop = merged[i].lo
			}
			for q := p; q < stop; q++ {
				s.b[q-base] = 0xEE
			}
			n += int(stop - p)
			p = stop
		}
	}
	return n
}

// ---- completeness self-test of the deep hash ----------------------------------------------------

func reflSettable(v reflect.Value) reflect.Value {
	if v.CanSet() {
		return v
	}
	if v.CanAddr() {
		return reflect.NewAt(v.Type(), unsafe.Pointer(v.UnsafeAddr())).Elem()
	}
	return reflect.Value{}
}

// reflMutate changes the value stored in v (which must be settable) to a different one.
func reflMutate(v reflect.Value) bool {
	switch v.Kind() {
	case reflect.Bool:
		v.SetBool(!v.Bool())
	case reflect.Int, reflect.Int8, reflect.Int16, reflect.Int32, reflect.Int64:
		v.SetInt(v.Int() ^ 1)
	case reflect.Uint, reflect.Uint8, reflect.Uint16, reflect.Uint32, reflect.Uint64, reflect.Uintptr:
		v.SetUint(v.Uint() ^ 1)
	case reflect.Float32, reflect.Float64:
		v.SetFloat(v.Float() + 1)
	case reflect.String:
		v.SetString(v.String() + "~")
	case reflect.Pointer:
		if v.IsNil() {
			v.Set(reflect.New(v.Type().Elem()))
		} else {
			v.Set(reflect.Zero(v.Type()))
		}
	case reflect.Slice:
		if v.IsNil() {
			v.Set(reflect.MakeSlice(v.Type(), 1, 1))
		} else {
			v.Set(reflect.Zero(v.Type()))
		}
	case reflect.Map:
		if v.IsNil() {
			v.Set(reflect.MakeMap(v.Type()))
		} else {
			v.Set(reflect.Zero(v.Type()))
		}
	case reflect.Interface, reflect.Func, reflect.Chan:
		if v.IsNil() {
			return false
		}
		v.Set(reflect.Zero(v.Type()))
	case reflect.Struct:
		if v.Type() == timeType {
			return false
		}
		for i := 0; i < v.NumField(); i++ {
			if f := reflSettable(v.Field(i)); f.IsValid() && reflMutate(f) {
				return true
			}
		}
		return false
	case reflect.Array:
		if v.Len() == 0 {
			return false
		}
		return reflMutate(v.Index(0))
	default:
		return false
	}
	return true
}

// deepHashSelfTest plants, one at a time, a write into every slice reachable from root (element 0,
// the last element, and the first element of the spare capacity) and into every map (one value
// replaced), checks that deepHash(root) changes, and undoes the write.  It returns the number of
// planted writes, the number of sites it could not write to, and the paths where the hash did
// NOT change.
func deepHashSelfTest(root any) (sites, skipped int, missed []string) {
	h0 := deepHash(root)
	seen := map[ptrKey]bool{}
	try := func(el reflect.Value, path string) {
		el = reflSettable(el)
		if !el.IsValid() {
			skipped++
			return
		}
		saved := reflect.New(el.Type()).Elem()
		saved.Set(el)
		if !reflMutate(el) {
			skipped++
			return
		}
		sites++
		if deepHash(root) == h0 {
			missed = append(missed, path)
		}
		el.Set(saved)
	}
	var visit func(v reflect.Value, path string)
	visit = func(v reflect.Value, path string) {
		if !v.IsValid() {
			return
		}
		switch v.Kind() {
		case reflect.Pointer:
			if v.IsNil() {
				return
			}
			k := ptrKey{v.Pointer(), v.Type(), 0}
			if seen[k] {
				return
			}
			seen[k] = true
			visit(v.Elem(), path)
		case reflect.Interface:
			if !v.IsNil() {
				visit(v.Elem(), path+"("+v.Elem().Type().String()+")")
			}
		case reflect.Struct:
			if v.Type() == timeType {
				return
			}
			for i := 0; i < v.NumField(); i++ {
				name := path + "." + v.Type().Field(i).Name
				switch v.Field(i).Kind() {
				case reflect.Pointer, reflect.Slice, reflect.Map:
					// the field itself: nil <-> non-nil (a planted pointer where nil was, and back)
					try(v.Field(i), name+"(nil<->set)")
				}
				visit(v.Field(i), name)
			}
		case reflect.Array:
			for i := 0; i < v.Len(); i++ {
				visit(v.Index(i), fmt.Sprintf("%s[%d]", path, i))
			}
		case reflect.Map:
			if v.IsNil() || v.Len() == 0 {
				return
			}
			k := ptrKey{v.Pointer(), v.Type(), 0}
			if seen[k] {
				return
			}
			seen[k] = true
			keys := v.MapKeys()
			key := keys[0]
			// plant: replace the value stored under one key
			func() {
				defer func() {
					if recover() != nil {
						skipped++ // map reached through an unexported field: reflect refuses to write
					}
				}()
				old := v.MapIndex(key)
				nv := reflect.New(v.Type().Elem()).Elem()
				nv.Set(old)
				if !reflMutate(nv) {
					skipped++
					return
				}
				v.SetMapIndex(key, nv)
				sites++
				if deepHash(root) == h0 {
					missed = append(missed, path+"[map value]")
				}
				v.SetMapIndex(key, old)
			}()
			for _, kk := range keys {
				visit(v.MapIndex(kk), path+"[k]")
			}
			if ek := v.Type().Elem().Kind(); ek == reflect.Pointer && len(keys) > 1 {
				for _, kk := range keys[1:] {
					func() {
						defer func() {
							if recover() != nil {
								skipped++
							}
						}()
						old := v.MapIndex(kk)
						nv := reflect.New(v.Type().Elem()).Elem()
						nv.Set(old)
						if !reflMutate(nv) {
							return
						}
						v.SetMapIndex(kk, nv)
						sites++
						if deepHash(root) == h0 {
							missed = append(missed, path+"[map pointer value]")
						}
						v.SetMapIndex(kk, old)
					}()
				}
			}
		case reflect.Slice:
			if v.IsNil() || v.Cap() == 0 {
				return
			}
			k := ptrKey{v.Pointer(), v.Type(), v.Cap()}
			if seen[k] {
				return
			}
			seen[k] = true
			n := v.Len()
			if n > 0 {
				try(v.Index(0), path+"[0]")
				if n > 1 {
					try(v.Index(n-1), path+"[last]")
				}
			}
			if v.Cap() > n {
				try(v.Slice(0, v.Cap()).Index(n), path+"[len..cap]")
			}
			switch v.Type().Elem().Kind() {
			case reflect.Interface, reflect.Pointer, reflect.Struct, reflect.Array, reflect.Map, reflect.Slice:
				for i := 0; i < n; i++ {
					if k := v.Type().Elem().Kind(); (k == reflect.Pointer || k == reflect.Slice) && i > 0 && i < n-1 {
						try(v.Index(i), fmt.Sprintf("%s[%d](nil<->set)", path, i)) // every pointer/slice element
					}
					visit(v.Index(i), fmt.Sprintf("%s[%d]", path, i))
				}
			}
		}
	}
	visit(reflect.ValueOf(root), "")
	if deepHash(root) != h0 {
		missed = append(missed, "(self-test did not restore the graph)")
	}
	return
}
