// Command verifharness runs the real go-sfnt code on generated cases and writes, for
// every case, the line to send to the Lean driver and the canonical output observed.
package main

import (
	"bufio"
	"encoding/hex"
	"encoding/json"
	"flag"
	"fmt"
	"os"
	"path/filepath"
	"sort"
	"strings"
	"sync/atomic"
	"time"
)

// Kinds of case lines.
const (
	Verdict    = "V" // model of the Go code vs the Go code (correspondence)
	Direct     = "D" // property predicate: Lean spec evaluated against the Go output
	Diagnostic = "G" // internal state; differences never alarm by themselves
)

type Ctx struct {
	Area    string
	Rng     *Rng
	N       int    // budget: number of generated cases
	Tier    string // quick | thorough
	w       *bufio.Writer
	count   map[string]int
	dist    map[string]map[string]int
	samples []string
	seen    map[string]bool
	nontriv int
	evals   int
	skipped int
	Replay  string
}

// Fields are the key=value arguments of a case line.
type Fields map[string]string

func parseFields(rest string) Fields {
	f := Fields{}
	for _, p := range strings.Split(rest, " ") {
		if i := strings.IndexByte(p, '='); i >= 0 {
			f[p[:i]] = p[i+1:]
		}
	}
	return f
}
func (f Fields) Hex(k string) []byte {
	b, err := hex.DecodeString(f[k])
	if err != nil {
		panic("bad hex in field " + k)
	}
	return b
}
func (f Fields) Int(k string) int {
	var n int
	if _, err := fmt.Sscan(f[k], &n); err != nil {
		panic("bad int in field " + k)
	}
	return n
}
func (f Fields) Ints(k string) []int {
	if f[k] == "" {
		return nil
	}
	var out []int
	for _, p := range strings.Split(f[k], ",") {
		var n int
		if _, err := fmt.Sscan(p, &n); err != nil {
			panic("bad int list in field " + k)
		}
		out = append(out, n)
	}
	return out
}
func (f Fields) List(k, sep string) []string {
	if f[k] == "" {
		return nil
	}
	return strings.Split(f[k], sep)
}

// opFn executes one case line on the real code and returns its canonical output.
type opFn func(f Fields) string

var ops = map[string]opFn{}

// Exec runs the real code for a case line (with panic and time-out capture).
func Exec(line string) string {
	op, rest := line, ""
	if i := strings.IndexByte(line, ' '); i >= 0 {
		op, rest = line[:i], line[i+1:]
	}
	fn, ok := ops[op]
	if !ok {
		return "unknown-op"
	}
	if timeouts >= maxTimeouts {
		// generators that call Exec themselves must not pile up more abandoned goroutines
		return "skipped"
	}
	done := make(chan string, 1)
	go func() { done <- guard(func() string { return fn(parseFields(rest)) }) }()
	select {
	case out := <-done:
		return out
	case <-time.After(caseTimeout):
		timeouts++
		return "timeout"
	}
}

var caseTimeout = 10 * time.Second

// timeouts counts cases whose goroutine was abandoned (it may still be spinning); after a
// few of them the run is cut short: the cases written so far are enough to report.
var timeouts int

const maxTimeouts = 3

// Case records one case: builds the line, runs the real code, writes line and output.
func (c *Ctx) Case(kind, op, args string, nontrivial bool) string {
	line := op
	if args != "" {
		line += " " + args
	}
	if strings.ContainsAny(line, "\n\t") {
		panic("case line contains separator")
	}
	lastProgress.Store(time.Now().UnixNano())
	if timeouts >= maxTimeouts {
		c.skipped++
		return "skipped"
	}
	lastLine.Store(line)
	expected := Exec(line)
	lastProgress.Store(time.Now().UnixNano())
	fmt.Fprintf(c.w, "%s\t%s\t%s\n", kind, line, expected)
	c.evals++
	c.count[kind+":"+op]++
	if !c.seen[line] {
		c.seen[line] = true
		if nontrivial {
			c.nontriv++
		}
	}
	if len(c.samples) < 3 || (len(c.samples) < 8 && c.Rng.Intn(200) == 0) {
		s := line
		if len(s) > 300 {
			s = s[:300] + "…"
		}
		c.samples = append(c.samples, s)
	}
	return expected
}

// Stat increments a named bucket of the input distribution.
func (c *Ctx) Stat(group, bucket string) {
	m := c.dist[group]
	if m == nil {
		m = map[string]int{}
		c.dist[group] = m
	}
	m[bucket]++
}

func bucket(n int) string {
	switch {
	case n == 0:
		return "0"
	case n == 1:
		return "1"
	case n <= 4:
		return "2-4"
	case n <= 16:
		return "5-16"
	case n <= 64:
		return "17-64"
	case n <= 256:
		return "65-256"
	case n <= 1024:
		return "257-1024"
	case n <= 4096:
		return "1025-4096"
	case n <= 65536:
		return "4097-65536"
	}
	return ">65536"
}

func hx(b []byte) string { return hex.EncodeToString(b) }

func ints(l []int) string {
	s := make([]string, len(l))
	for i, x := range l {
		s[i] = fmt.Sprint(x)
	}
	return strings.Join(s, ",")
}

// guard runs f and converts a panic into the outcome "panic:<msg>".
func guard(f func() string) (out string) {
	defer func() {
		if r := recover(); r != nil {
			msg := fmt.Sprint(r)
			msg = strings.Map(func(r rune) rune {
				if r == '\n' || r == '\t' {
					return ' '
				}
				return r
			}, msg)
			out = "panic:" + msg
		}
	}()
	return f()
}

type areaFn func(c *Ctx)

// Watchdog for library calls made by the generators themselves (outside Exec's per-op time-out):
// when no case has been produced for `stall` seconds the run is closed with one Direct line
// `harness.stalled` whose outcome the Lean driver never predicts, so the check reports a violation
// (the library did not return) instead of hanging.
var (
	lastProgress atomic.Int64
	lastLine     atomic.Value
)

func init() {
	ops["harness.stalled"] = func(f Fields) string { return "stalled" }
}

var areas = map[string]areaFn{}

func main() {
	area := flag.String("area", "", "area to run")
	seed := flag.Uint64("seed", 1, "PRNG seed")
	n := flag.Int("n", 1000, "number of generated cases")
	tier := flag.String("tier", "quick", "quick|thorough")
	out := flag.String("out", "", "output directory")
	replay := flag.String("lines", "", "file of `kind<TAB>case line` to execute instead of generating")
	stall := flag.Int("stall", 240, "seconds without a new case after which the run is closed as stalled")
	opt := flag.Int("optimeout", 10, "seconds after which a single operation is answered with `timeout`")
	flag.Parse()
	caseTimeout = time.Duration(*opt) * time.Second
	lines := *replay
	fn, ok := areas[*area]
	if lines != "" {
		ok = true
		fn = func(c *Ctx) {
			data, err := os.ReadFile(lines)
			if err != nil {
				panic(err)
			}
			for _, l := range strings.Split(string(data), "\n") {
				l = strings.TrimRight(l, "\r")
				if l == "" || strings.HasPrefix(l, "#") {
					continue
				}
				kind, line := Verdict, l
				if i := strings.IndexByte(l, '\t'); i >= 0 {
					kind, line = l[:i], l[i+1:]
				}
				if i := strings.IndexByte(line, '\t'); i >= 0 {
					line = line[:i]
				}
				op, args := line, ""
				if i := strings.IndexByte(line, ' '); i >= 0 {
					op, args = line[:i], line[i+1:]
				}
				c.Case(kind, op, args, true)
			}
		}
	}
	if !ok {
		names := []string{}
		for k := range areas {
			names = append(names, k)
		}
		sort.Strings(names)
		fmt.Fprintln(os.Stderr, "unknown area; have:", names)
		os.Exit(2)
	}
	if err := os.MkdirAll(*out, 0o755); err != nil {
		panic(err)
	}
	f, err := os.Create(filepath.Join(*out, "cases.tsv"))
	if err != nil {
		panic(err)
	}
	c := &Ctx{Area: *area, Rng: NewRng(*seed), N: *n, Tier: *tier, w: bufio.NewWriterSize(f, 1<<20),
		count: map[string]int{}, dist: map[string]map[string]int{}, seen: map[string]bool{}, Replay: *replay}
	finish := func() {
		c.w.Flush()
		f.Close()
		writeStats(c, *out)
		os.Exit(0) // abandoned goroutines must not keep the process alive
	}
	lastProgress.Store(time.Now().UnixNano())
	lastLine.Store("")
	go func() {
		for {
			time.Sleep(2 * time.Second)
			if time.Since(time.Unix(0, lastProgress.Load())) > time.Duration(*stall)*time.Second {
				// the main goroutine is stuck inside the library: it does not touch c any more
				last, _ := lastLine.Load().(string)
				if len(last) > 400 {
					last = last[:400]
				}
				last = strings.NewReplacer(" ", "_", "\t", "_").Replace(last)
				fmt.Fprintf(c.w, "%s\tharness.stalled area=%s after=%s\tstalled\n", Direct, *area, last)
				c.evals++
				c.count[Direct+":harness.stalled"]++
				finish()
			}
		}
	}()
	fn(c)
	finish()
}

func writeStats(c *Ctx, out string) {
	st := map[string]any{
		"evaluations":            c.evals,
		"distinct":               len(c.seen),
		"distinct_nontrivial":    c.nontriv,
		"streams":                c.count,
		"distribution":           c.dist,
		"samples":                c.samples,
		"timeouts":               timeouts,
		"skipped_after_timeouts": c.skipped,
	}
	js, _ := json.MarshalIndent(st, "", " ")
	_ = os.WriteFile(filepath.Join(out, "stats.json"), js, 0o644)
}
