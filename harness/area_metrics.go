package main

// C12 — metrics/header tables: hmtx/hhea, head (+ time), maxp, post header, and the derived
// fields inside the tables written by (*sfnt.Font).Write.

import (
	"bytes"
	"errors"
	"fmt"
	"io"
	"math"
	"strconv"
	"strings"
	"time"

	"seehuhn.de/go/geom/matrix"
	"seehuhn.de/go/postscript/funit"
	"seehuhn.de/go/postscript/type1"

	"seehuhn.de/go/sfnt"
	"seehuhn.de/go/sfnt/cff"
	"seehuhn.de/go/sfnt/cmap"
	"seehuhn.de/go/sfnt/glyf"
	"seehuhn.de/go/sfnt/glyph"
	"seehuhn.de/go/sfnt/head"
	"seehuhn.de/go/sfnt/header"
	"seehuhn.de/go/sfnt/hmtx"
	"seehuhn.de/go/sfnt/maxp"
	"seehuhn.de/go/sfnt/parser"
	"seehuhn.de/go/sfnt/post"
)

// ---- transport of int16 lists / rectangle lists (`v*k` = k copies, `-` = nil) ----

func mParseInts(s string) []funit.Int16 {
	if s == "-" {
		return nil
	}
	out := []funit.Int16{}
	if s == "" {
		return out
	}
	for _, t := range strings.Split(s, ",") {
		if p := strings.Split(t, "^"); len(p) == 3 {
			// arithmetic run `a^m^k`: the k values (a + i) mod m (neighbours differ)
			a, _ := strconv.Atoi(p[0])
			m, _ := strconv.Atoi(p[1])
			n, _ := strconv.Atoi(p[2])
			for i := 0; i < n; i++ {
				out = append(out, funit.Int16((a+i)%m))
			}
			continue
		}
		k := 1
		if i := strings.IndexByte(t, '*'); i >= 0 {
			k, _ = strconv.Atoi(t[i+1:])
			t = t[:i]
		}
		v, err := strconv.Atoi(t)
		if err != nil {
			panic("bad int list")
		}
		for j := 0; j < k; j++ {
			out = append(out, funit.Int16(v))
		}
	}
	return out
}

// mDigest: length, polynomial hash, first and last value of a long int16 vector
func mDigest(l []funit.Int16) string {
	h := uint64(7)
	for _, v := range l {
		h = (h*31 + uint64(uint16(v)) + 1) % 2147483647
	}
	first, last := 0, 0
	if len(l) > 0 {
		first, last = int(l[0]), int(l[len(l)-1])
	}
	return fmt.Sprintf("%d/%d/%d/%d", len(l), h, first, last)
}

func mParseRect(t string) funit.Rect16 {
	p := strings.Split(t, ":")
	if len(p) != 4 {
		panic("bad rect")
	}
	var v [4]int
	for i := range v {
		v[i], _ = strconv.Atoi(p[i])
	}
	return funit.Rect16{LLx: funit.Int16(v[0]), LLy: funit.Int16(v[1]), URx: funit.Int16(v[2]), URy: funit.Int16(v[3])}
}

func mParseRects(s string) []funit.Rect16 {
	if s == "-" {
		return nil
	}
	out := []funit.Rect16{}
	if s == "" {
		return out
	}
	for _, t := range strings.Split(s, ";") {
		k := 1
		if i := strings.IndexByte(t, '*'); i >= 0 {
			k, _ = strconv.Atoi(t[i+1:])
			t = t[:i]
		}
		r := mParseRect(t)
		for j := 0; j < k; j++ {
			out = append(out, r)
		}
	}
	return out
}

// run-length compressed printing (keeps 65535-glyph cases small when widths repeat)
func mShowInts(l []funit.Int16) string {
	if l == nil {
		return "-"
	}
	var parts []string
	for i := 0; i < len(l); {
		j := i
		for j < len(l) && l[j] == l[i] {
			j++
		}
		if j-i > 1 {
			parts = append(parts, fmt.Sprintf("%d*%d", l[i], j-i))
		} else {
			parts = append(parts, fmt.Sprint(l[i]))
		}
		i = j
	}
	return strings.Join(parts, ",")
}

func mPlainInts(l []funit.Int16) string {
	if len(l) == 0 {
		return "-"
	}
	parts := make([]string, len(l))
	for i, x := range l {
		parts[i] = fmt.Sprint(x)
	}
	return strings.Join(parts, ",")
}

func mShowRect(r funit.Rect16) string {
	return fmt.Sprintf("%d:%d:%d:%d", r.LLx, r.LLy, r.URx, r.URy)
}

func mShowRects(l []funit.Rect16) string {
	if l == nil {
		return "-"
	}
	var parts []string
	for i := 0; i < len(l); {
		j := i
		for j < len(l) && l[j] == l[i] {
			j++
		}
		if j-i > 1 {
			parts = append(parts, fmt.Sprintf("%s*%d", mShowRect(l[i]), j-i))
		} else {
			parts = append(parts, mShowRect(l[i]))
		}
		i = j
	}
	return strings.Join(parts, ";")
}

// ---- caret slope through the real code ----

func hheaStub(rise, run int) []byte {
	b := make([]byte, 36)
	b[1] = 1
	b[18], b[19] = byte(rise>>8), byte(rise)
	b[20], b[21] = byte(run>>8), byte(run)
	return b
}

// angleOf runs the real toAngle (through hmtx.Decode).
func angleOf(rise, run int) float64 {
	info, err := hmtx.Decode(hheaStub(rise, run), nil)
	if err != nil {
		panic(err)
	}
	return info.CaretAngle
}

// slopeOf runs the real fromAngle (through Encode).
func slopeOf(angle float64) (int, int) {
	hhea, _ := (&hmtx.Info{CaretAngle: angle}).Encode()
	return int(int16(uint16(hhea[18])<<8 | uint16(hhea[19]))), int(int16(uint16(hhea[20])<<8 | uint16(hhea[21])))
}

func caretTie(rise, run int) bool {
	if rise == -32768 {
		rise = -32767
	}
	if run == -32768 {
		run = -32767
	}
	return rise == 0 && run < 0
}

func mErrClass(err error) string {
	var e1 *parser.NotSupportedError
	var e2 *parser.InvalidFontError
	msg := err.Error()
	switch {
	case errors.As(err, &e1):
		return "err:unsupported"
	case errors.As(err, &e2):
		return "err:invalid"
	case errors.Is(err, io.EOF), errors.Is(err, io.ErrUnexpectedEOF):
		return "err:short"
	case strings.Contains(msg, "unsupported hhea version"), strings.Contains(msg, "unknown version"):
		return "err:version"
	case strings.Contains(msg, "unsupported metric data format"):
		return "err:format"
	case strings.Contains(msg, "hmtx too short"):
		return "err:hmtx-short"
	case strings.Contains(msg, "numGlyphs is zero"):
		return "err:zero"
	}
	return "err:other:" + strings.ReplaceAll(msg, " ", "_")
}

func mInfo(f Fields) *hmtx.Info {
	return &hmtx.Info{
		Widths:       mParseInts(f["w"]),
		GlyphExtents: mParseRects(f["ext"]),
		LSB:          mParseInts(f["lsb"]),
		Ascent:       funit.Int16(f.Int("asc")),
		Descent:      funit.Int16(f.Int("desc")),
		LineGap:      funit.Int16(f.Int("gap")),
		CaretOffset:  funit.Int16(f.Int("coff")),
		CaretAngle:   angleOf(f.Int("rise"), f.Int("run")),
	}
}

func mTime(s string) time.Time {
	p := strings.Split(s, ":")
	sec, _ := strconv.ParseInt(p[0], 10, 64)
	nsec, _ := strconv.ParseInt(p[1], 10, 64)
	return time.Unix(sec, nsec)
}

func mBool(f Fields, k string) bool { return f[k] == "1" }
func b01(b bool) string {
	if b {
		return "1"
	}
	return "0"
}

func mHead(f Fields) *head.Info {
	return &head.Info{
		FontRevision:  head.Version(uint32(f.Int("rev"))),
		HasYBaseAt0:   mBool(f, "y0"),
		HasXBaseAt0:   mBool(f, "x0"),
		IsNonlinear:   mBool(f, "nl"),
		UnitsPerEm:    uint16(f.Int("upm")),
		Created:       mTime(f["created"]),
		Modified:      mTime(f["modified"]),
		FontBBox:      mParseRect(f["bbox"]),
		IsBold:        mBool(f, "bold"),
		IsItalic:      mBool(f, "italic"),
		HasShadow:     mBool(f, "shadow"),
		IsCondensed:   mBool(f, "cond"),
		IsExtended:    mBool(f, "extd"),
		LowestRecPPEM: uint16(f.Int("ppem")),
		LocaFormat:    int16(f.Int("loca")),
	}
}

func mShowHead(h *head.Info) string {
	return fmt.Sprintf("rev=%d y0=%s x0=%s nl=%s upm=%d created=%d modified=%d bbox=%s bold=%s italic=%s shadow=%s cond=%s extd=%s ppem=%d loca=%d",
		uint32(h.FontRevision), b01(h.HasYBaseAt0), b01(h.HasXBaseAt0), b01(h.IsNonlinear), h.UnitsPerEm,
		h.Created.Unix(), h.Modified.Unix(), mShowRect(h.FontBBox), b01(h.IsBold), b01(h.IsItalic),
		b01(h.HasShadow), b01(h.IsCondensed), b01(h.IsExtended), h.LowestRecPPEM, h.LocaFormat)
}

func init() {
	areas["metrics"] = areaMetrics

	ops["metrics.hmtxenc"] = func(f Fields) string {
		return canonPanic(guard(func() string {
			hhea, hm := mInfo(f).Encode()
			s := "-"
			if hm != nil {
				s = hx(hm)
			}
			return "ok:" + hx(hhea) + ":" + s
		}))
	}
	// D: Decode(Encode(info)) on the real code, as digests (so that 65535-glyph cases stay small)
	ops["metrics.hmtxrt"] = func(f Fields) string {
		return canonPanic(guard(func() string {
			info := &hmtx.Info{Widths: mParseInts(f["w"]), GlyphExtents: mParseRects(f["ext"]), LSB: mParseInts(f["lsb"])}
			hhea, hm := info.Encode()
			out, err := hmtx.Decode(hhea, hm)
			if err != nil {
				return mErrClass(err)
			}
			return fmt.Sprintf("k=%d;w=%s;lsb=%s", int(hhea[34])<<8|int(hhea[35]), mDigest(out.Widths), mDigest(out.LSB))
		}))
	}
	// D: truncated / odd hmtx bodies are refused, accepted ones give two vectors of full length
	ops["metrics.hmtxtrunc"] = func(f Fields) string {
		return canonPanic(guard(func() string {
			hhea, hm := f.Hex("hhea"), f.Hex("hmtx")
			if hm == nil {
				hm = []byte{}
			}
			info, err := hmtx.Decode(hhea, hm)
			if err != nil {
				return "refused"
			}
			k := int(hhea[34])<<8 | int(hhea[35])
			if len(info.Widths) != len(info.LSB) || len(info.Widths) < k {
				return fmt.Sprintf("short:widths=%d,lsb=%d,numberOfHMetrics=%d", len(info.Widths), len(info.LSB), k)
			}
			return fmt.Sprintf("full:%d", len(info.Widths))
		}))
	}
	ops["metrics.maxprt"] = func(f Fields) string {
		return canonPanic(guard(func() string {
			m, err := maxp.Read(bytes.NewReader(mMaxp(f).Encode()))
			if err != nil {
				return mErrClass(err)
			}
			s := "-"
			if t := m.TTF; t != nil {
				s = ints([]int{int(t.MaxPoints), int(t.MaxContours), int(t.MaxCompositePoints), int(t.MaxCompositeContours),
					int(t.MaxZones), int(t.MaxTwilightPoints), int(t.MaxStorage), int(t.MaxFunctionDefs),
					int(t.MaxInstructionDefs), int(t.MaxStackElements), int(t.MaxSizeOfInstructions),
					int(t.MaxComponentElements), int(t.MaxComponentDepth)})
			}
			return fmt.Sprintf("ok:%d;%s", m.NumGlyphs, s)
		}))
	}
	ops["metrics.postrt"] = func(f Fields) string {
		return canonPanic(guard(func() string {
			p := &post.Info{ItalicAngle: float64(f.Int("angle")) / 65536, UnderlinePosition: funit.Int16(f.Int("upos")),
				UnderlineThickness: funit.Int16(f.Int("uthick")), IsFixedPitch: mBool(f, "fixed")}
			b := p.Encode()
			q, err := post.Read(bytes.NewReader(b))
			if err != nil {
				return mErrClass(err)
			}
			ver := uint32(b[0])<<24 | uint32(b[1])<<16 | uint32(b[2])<<8 | uint32(b[3])
			return fmt.Sprintf("ok:%d;%d,%d,%d,%s", ver, int64(math.Round(q.ItalicAngle*65536)), q.UnderlinePosition, q.UnderlineThickness, b01(q.IsFixedPitch))
		}))
	}
	ops["metrics.hmtxdec"] = func(f Fields) string {
		return canonPanic(guard(func() string {
			hhea := f.Hex("hhea")
			var hm []byte
			if f["hmtx"] != "-" {
				hm = f.Hex("hmtx")
				if hm == nil {
					hm = []byte{}
				}
			}
			info, err := hmtx.Decode(hhea, hm)
			if err != nil {
				return mErrClass(err)
			}
			rise := int(int16(uint16(hhea[18])<<8 | uint16(hhea[19])))
			run := int(int16(uint16(hhea[20])<<8 | uint16(hhea[21])))
			caret := "tie"
			if !caretTie(rise, run) {
				a, b := slopeOf(info.CaretAngle)
				caret = fmt.Sprintf("%d,%d", a, b)
			}
			return fmt.Sprintf("ok:%d,%d,%d,%d;%s;w=%s;lsb=%s", info.Ascent, info.Descent, info.LineGap,
				info.CaretOffset, caret, mPlainInts(info.Widths), mPlainInts(info.LSB))
		}))
	}
	ops["metrics.caret"] = func(f Fields) string {
		return canonPanic(guard(func() string {
			a, b := slopeOf(angleOf(f.Int("rise"), f.Int("run")))
			return fmt.Sprintf("%d,%d", a, b)
		}))
	}
	// D: Decode∘Encode∘Decode of the caret fields of an hhea table (real code); the driver answers
	// with the pair itself when it is in lowest terms (the round trip must be the identity)
	ops["metrics.caretrt"] = func(f Fields) string {
		return canonPanic(guard(func() string {
			a, b := slopeOf(angleOf(f.Int("rise"), f.Int("run")))
			a2, b2 := slopeOf(angleOf(a, b))
			if a2 != a || b2 != b {
				return fmt.Sprintf("unstable:%d,%d->%d,%d", a, b, a2, b2)
			}
			return fmt.Sprintf("%d,%d", a, b)
		}))
	}
	// direct predicates on bytes produced by the real code: the expected value is fixed
	ops["metrics.hheaderived"] = func(f Fields) string { return "ok" }
	ops["metrics.dfont"] = func(f Fields) string { return "ok" }
	// the derived hhea fields as the real Encode computes them (compared with the Lean definitions)
	ops["metrics.hheaspec"] = func(f Fields) string {
		return canonPanic(guard(func() string {
			info := &hmtx.Info{Widths: mParseInts(f["w"]), GlyphExtents: mParseRects(f["ext"]), LSB: mParseInts(f["lsb"])}
			h, _ := info.Encode()
			i16 := func(o int) int { return int(int16(uint16(h[o])<<8 | uint16(h[o+1]))) }
			return fmt.Sprintf("%d,%d,%d,%d,%d", i16(10), i16(12), i16(14), i16(16), int(h[34])<<8|int(h[35]))
		}))
	}

	ops["metrics.headenc"] = func(f Fields) string {
		return canonPanic(guard(func() string { return "ok:" + hx(mHead(f).Encode()) }))
	}
	ops["metrics.headrt"] = func(f Fields) string {
		return canonPanic(guard(func() string {
			h, err := head.Read(bytes.NewReader(mHead(f).Encode()))
			if err != nil {
				return mErrClass(err)
			}
			return "ok:" + mShowHead(h)
		}))
	}
	ops["metrics.headdec"] = func(f Fields) string {
		return canonPanic(guard(func() string {
			h, err := head.Read(bytes.NewReader(f.Hex("b")))
			if err != nil {
				return mErrClass(err)
			}
			return "ok:" + mShowHead(h)
		}))
	}
	ops["metrics.time"] = func(f Fields) string {
		return canonPanic(guard(func() string {
			t := mTime(f["t"])
			b := (&head.Info{Created: t}).Encode()
			var enc int64
			for i := 0; i < 8; i++ {
				enc = enc<<8 | int64(b[20+i])
			}
			h, err := head.Read(bytes.NewReader(b))
			if err != nil {
				return mErrClass(err)
			}
			return fmt.Sprintf("%d;%d", enc, h.Created.Unix())
		}))
	}
	ops["metrics.maxpenc"] = func(f Fields) string {
		return canonPanic(guard(func() string {
			m := &maxp.Info{NumGlyphs: f.Int("n")}
			if f["ttf"] != "-" {
				v := f.Ints("ttf")
				m.TTF = &maxp.TTFInfo{MaxPoints: uint16(v[0]), MaxContours: uint16(v[1]), MaxCompositePoints: uint16(v[2]),
					MaxCompositeContours: uint16(v[3]), MaxZones: uint16(v[4]), MaxTwilightPoints: uint16(v[5]),
					MaxStorage: uint16(v[6]), MaxFunctionDefs: uint16(v[7]), MaxInstructionDefs: uint16(v[8]),
					MaxStackElements: uint16(v[9]), MaxSizeOfInstructions: uint16(v[10]), MaxComponentElements: uint16(v[11]),
					MaxComponentDepth: uint16(v[12])}
			}
			return "ok:" + hx(m.Encode())
		}))
	}
	ops["metrics.maxpdec"] = func(f Fields) string {
		return canonPanic(guard(func() string {
			m, err := maxp.Read(bytes.NewReader(f.Hex("b")))
			if err != nil {
				return mErrClass(err)
			}
			s := "-"
			if t := m.TTF; t != nil {
				s = ints([]int{int(t.MaxPoints), int(t.MaxContours), int(t.MaxCompositePoints), int(t.MaxCompositeContours),
					int(t.MaxZones), int(t.MaxTwilightPoints), int(t.MaxStorage), int(t.MaxFunctionDefs),
					int(t.MaxInstructionDefs), int(t.MaxStackElements), int(t.MaxSizeOfInstructions),
					int(t.MaxComponentElements), int(t.MaxComponentDepth)})
			}
			return fmt.Sprintf("ok:%d;%s", m.NumGlyphs, s)
		}))
	}
	ops["metrics.postenc"] = func(f Fields) string {
		return canonPanic(guard(func() string {
			p := &post.Info{
				ItalicAngle:        float64(f.Int("angle")) / 65536, // exactly representable
				UnderlinePosition:  funit.Int16(f.Int("upos")),
				UnderlineThickness: funit.Int16(f.Int("uthick")),
				IsFixedPitch:       mBool(f, "fixed"),
			}
			return "ok:" + hx(p.Encode())
		}))
	}
	ops["metrics.postdec"] = func(f Fields) string {
		return canonPanic(guard(func() string {
			b := f.Hex("b")
			p, err := post.Read(bytes.NewReader(b))
			if err != nil {
				return mErrClass(err)
			}
			ver := uint32(b[0])<<24 | uint32(b[1])<<16 | uint32(b[2])<<8 | uint32(b[3])
			return fmt.Sprintf("ok:%d;%d,%d,%d,%s", ver, int64(math.Round(p.ItalicAngle*65536)),
				p.UnderlinePosition, p.UnderlineThickness, b01(p.IsFixedPitch))
		}))
	}
}

// ---- generators ----

func mI16(r *Rng) int {
	switch r.Intn(12) {
	case 0:
		return Pick(r, []int{-32768, -32767, 32767, 32766, 0, 1, -1})
	case 1, 2:
		return r.Range(-32768, 32767)
	case 3:
		return r.Range(-300, 0)
	}
	return r.Range(0, 2048)
}

func mWidth(r *Rng, extreme bool) funit.Int16 {
	if extreme {
		switch r.Intn(6) {
		case 0:
			return funit.Int16(Pick(r, []int{32767, 32766, 0, 1}))
		case 1:
			return funit.Int16(r.Range(0, 32767))
		}
	}
	return funit.Int16(r.Range(0, 2000))
}

// mRect: box for a glyph of advance width w. `mode` 0: ordinary, 1: extreme coordinates
// (still inside the domain of C12_hhea_derived, i.e. w - xMax fits int16), 2: anything.
func mRect(r *Rng, w funit.Int16, mode int) funit.Rect16 {
	if r.Chance(1, 6) {
		return funit.Rect16{}
	}
	var llx, urx int
	switch mode {
	case 0:
		llx = r.Range(-200, 300)
		urx = llx + r.Range(0, 1500)
	case 1:
		lo := int(w) - 32767 // urx >= w-32767
		if lo < -32768 {
			lo = -32768
		}
		urx = r.Range(lo, 32767)
		if r.Chance(1, 3) {
			urx = Pick(r, []int{lo, 32767, lo + 1})
		}
		llx = r.Range(-32768, urx)
	default:
		llx, urx = r.Range(-32768, 32767), r.Range(-32768, 32767)
	}
	lly := r.Range(-400, 200)
	ury := lly + r.Range(0, 1400)
	if mode > 0 && r.Chance(1, 3) {
		lly, ury = r.Range(-32767, 0), r.Range(0, 32767)
	}
	rc := funit.Rect16{LLx: funit.Int16(llx), LLy: funit.Int16(lly), URx: funit.Int16(urx), URy: funit.Int16(ury)}
	return rc
}

// widthsWithTail: n widths whose last `tail` entries are equal (and, if `exact`, entry
// n-tail-1 differs so that the constant tail has exactly that length).
func widthsWithTail(r *Rng, n, tail int, extreme, exact bool) []funit.Int16 {
	ws := make([]funit.Int16, n)
	v := mWidth(r, extreme)
	for i := range ws {
		if i >= n-tail {
			ws[i] = v
		} else {
			ws[i] = mWidth(r, extreme)
			if r.Chance(1, 3) && i > 0 {
				ws[i] = ws[i-1]
			}
		}
	}
	if exact && n-tail-1 >= 0 && ws[n-tail-1] == v {
		ws[n-tail-1] = v ^ 1
	}
	return ws
}

func rsbFits(ws []funit.Int16, es []funit.Rect16) bool {
	for i, e := range es {
		if e.IsZero() || i >= len(ws) {
			continue
		}
		d := int(ws[i]) - int(e.URx)
		if d < -32768 || d > 32767 {
			return false
		}
	}
	return true
}

func hmtxCase(c *Ctx, ws []funit.Int16, es []funit.Rect16, ls []funit.Int16, label string) {
	r := c.Rng
	rise, run := 1, 0
	switch r.Intn(6) {
	case 0:
		rise, run = r.Range(1, 32767), r.Range(-32767, 32767)
	case 1:
		rise, run = r.Range(-32768, 32767), r.Range(-32768, 32767)
	case 2:
		rise, run = Pick(r, []int{1000, 2048, 5, 32767}), Pick(r, []int{176, 364, 1, -1, 32767})
	}
	if caretTie(rise, run) {
		run = -run
	}
	args := fmt.Sprintf("w=%s ext=%s lsb=%s asc=%d desc=%d gap=%d coff=%d rise=%d run=%d",
		mShowInts(ws), mShowRects(es), mShowInts(ls), mI16(r), mI16(r), mI16(r), mI16(r), rise, run)
	nontriv := len(ws) >= 2
	out := c.Case(Verdict, "metrics.hmtxenc", args, nontriv)
	c.Stat("hmtx_kind", label)
	c.Stat("hmtx_glyphs", bucket(len(ws)))
	c.Stat("hmtx_outcome", strings.SplitN(out, ":", 2)[0])
	if !strings.HasPrefix(out, "ok:") {
		return
	}
	p := strings.Split(out[3:], ":")
	hheaHex, hmtxHex := p[0], p[1]
	if ws != nil && hmtxHex != "-" {
		hhea := mustHex(hheaHex)
		numLong := int(hhea[34])<<8 | int(hhea[35])
		c.Stat("hmtx_tail", bucket(len(ws)-numLong+1))
		if numLong == len(ws) {
			c.Stat("hmtx_compress", "none")
		} else if numLong == 1 {
			c.Stat("hmtx_compress", "all-equal")
		} else {
			c.Stat("hmtx_compress", "partial")
		}
	}
	// the real decoder on the real encoder's output
	c.Case(Verdict, "metrics.hmtxdec", "hhea="+hheaHex+" hmtx="+hmtxHex, nontriv)
	if ws != nil && len(ws) > 0 && hmtxHex != "-" {
		c.Case(Direct, "metrics.hmtxrt", fmt.Sprintf("w=%s ext=%s lsb=%s", mShowInts(ws), mShowRects(es), mShowInts(ls)), nontriv)
	}
	// derived fields against their definitions, inside the hypothesis of C12_hhea_derived
	if ws != nil && es != nil && len(ws) == len(es) && len(ws) > 0 {
		lsbOK := ls == nil
		if ls != nil && len(ls) == len(es) {
			lsbOK = true
			for i, e := range es {
				if !e.IsZero() && ls[i] != e.LLx {
					lsbOK = false
				}
			}
		}
		if lsbOK {
			if rsbFits(ws, es) {
				c.Stat("hhea_derived", "lsb=xMin,aw-xMax fits int16")
			} else {
				c.Stat("hhea_derived", "lsb=xMin,aw-xMax saturates")
			}
			c.Case(Direct, "metrics.hheaderived", fmt.Sprintf("w=%s ext=%s lsb=%s hhea=%s",
				mShowInts(ws), mShowRects(es), mShowInts(ls), hheaHex), nontriv)
			c.Case(Direct, "metrics.hheaspec", fmt.Sprintf("w=%s ext=%s lsb=%s",
				mShowInts(ws), mShowRects(es), mShowInts(ls)), nontriv)
		} else {
			c.Stat("hhea_derived", "outside:lsb!=xMin (known finding class)")
		}
	}
	// malformed stream for the decoder
	if hmtxHex == "-" || len(hmtxHex) > 8192 {
		return
	}
	hhea, hm := mustHex(hheaHex), mustHex(hmtxHex)
	for k := 0; k < 2; k++ {
		h2 := append([]byte(nil), hhea...)
		m2 := append([]byte(nil), hm...)
		mut := r.Intn(7)
		switch mut {
		case 0:
			m2 = m2[:r.Intn(len(m2)+1)]
		case 1:
			n := r.Range(0, len(ws)+3)
			h2[34], h2[35] = byte(n>>8), byte(n)
		case 2:
			h2 = h2[:r.Intn(len(h2)+1)]
		case 3:
			h2[r.Intn(len(h2))] ^= byte(1 << r.Intn(8))
		case 4:
			if len(m2) > 0 {
				m2[r.Intn(len(m2))] = byte(r.U64())
			}
		case 5:
			m2 = append(m2, r.Bytes(r.Range(1, 5))...)
		case 6:
			h2[18], h2[19], h2[20], h2[21] = byte(r.U64()), byte(r.U64()), byte(r.U64()), byte(r.U64())
		}
		hs := hx(m2)
		if r.Chance(1, 12) {
			hs = "-"
		}
		if len(h2) >= 22 {
			a := int(int16(uint16(h2[18])<<8 | uint16(h2[19])))
			b := int(int16(uint16(h2[20])<<8 | uint16(h2[21])))
			if caretTie(a, b) {
				c.Stat("caret_tie_seen", "yes")
			}
		}
		res := c.Case(Verdict, "metrics.hmtxdec", "hhea="+hx(h2)+" hmtx="+hs, true)
		c.Stat("hmtxdec_mutated", fmt.Sprintf("mut%d:%s", mut, outClass(res)))
	}
}

func rectsFor(r *Rng, ws []funit.Int16, mode int) []funit.Rect16 {
	es := make([]funit.Rect16, len(ws))
	for i := range es {
		es[i] = mRect(r, ws[i], mode)
	}
	if len(es) > 0 {
		switch r.Intn(8) {
		case 0:
			es[0] = funit.Rect16{}
		case 1:
			es[len(es)-1] = funit.Rect16{}
		case 2:
			for i := range es {
				es[i] = funit.Rect16{}
			}
		}
	}
	return es
}

func areaMetrics(c *Ctx) {
	r := c.Rng
	n := c.N
	// ---- (a) hmtx / hhea ----
	// every length of constant tail, exhaustively for small glyph counts
	maxN := 12
	if c.Tier == "thorough" {
		maxN = 40
	}
	for g := 1; g <= maxN; g++ {
		for tail := 1; tail <= g; tail++ {
			ws := widthsWithTail(r, g, tail, false, true)
			hmtxCase(c, ws, rectsFor(r, ws, 0), nil, "exhaustive-tail")
		}
	}
	for i := 0; i < n*4/10; i++ {
		var g int
		switch r.Intn(10) {
		case 0:
			g = r.Range(41, 300)
		case 1:
			if i%25 == 1 {
				g = Pick(r, []int{65535, 65534, 32768, 40000})
			} else {
				g = r.Range(300, 1500)
			}
		default:
			g = r.Range(1, 40)
		}
		tail := r.Range(1, g)
		if g > 2000 {
			tail = g - r.Range(0, 5)
		}
		mode := r.Intn(3) // 0 ordinary, 1 extreme inside hypothesis, 2 anything
		ws := widthsWithTail(r, g, tail, mode > 0, r.Bool())
		var es []funit.Rect16
		var ls []funit.Int16
		label := "widths+extents"
		if g > 2000 {
			// keep the case line small: one repeated box
			e := mRect(r, ws[g-1], 0)
			es = make([]funit.Rect16, g)
			for j := range es {
				es[j] = e
			}
			es[0] = funit.Rect16{}
			mode = 0
			label = "huge"
		} else {
			es = rectsFor(r, ws, mode)
		}
		switch r.Intn(10) {
		case 0: // explicit bearings equal to xMin
			ls = make([]funit.Int16, g)
			for j := range ls {
				ls[j] = es[j].LLx
			}
			label = "lsb=xMin"
		case 1: // explicit bearings, arbitrary (outside the hypothesis of hhea_derived)
			ls = make([]funit.Int16, g)
			for j := range ls {
				ls[j] = funit.Int16(mI16(r))
			}
			label = "lsb-free"
		case 2: // no extents
			es = nil
			ls = make([]funit.Int16, g)
			for j := range ls {
				ls[j] = funit.Int16(mI16(r))
			}
			label = "no-extents"
		}
		hmtxCase(c, ws, es, ls, label)
	}
	// the upper half of the glyph-count range: 32767, 32768, 32769, 40000, 65535 glyphs with that many
	// (or nearly that many) LONG metrics — pairwise different neighbouring widths given by an arithmetic
	// run `a^m^k` — and constant tails of length 0, 1, 2, many
	bigCounts := []int{32767, 32768, 32769, 65535}
	bigTails := []int{0, 300}
	if c.Tier == "thorough" {
		bigCounts = []int{32767, 32768, 32769, 40000, 65534, 65535}
		bigTails = []int{0, 1, 2, 300}
	}
	for _, g := range bigCounts {
		for _, tail := range bigTails {
			m := r.Range(20000, 32767)
			a := r.Range(0, m-1)
			long := g - tail
			lastLong := (a + long - 1) % m
			wArg := fmt.Sprintf("%d^%d^%d", a, m, long)
			if tail > 0 {
				wArg += fmt.Sprintf(",%d*%d", (lastLong+1)%m+1, tail) // a value different from the last long width
			}
			extArg, lsbArg := "-", fmt.Sprintf("%d^%d^%d", r.Range(0, 900), r.Range(901, 1000), g)
			if r.Bool() {
				extArg, lsbArg = fmt.Sprintf("%s*%d", mShowRect(mRect(r, 500, 0)), g), "-"
			}
			args := fmt.Sprintf("w=%s ext=%s lsb=%s asc=%d desc=%d gap=%d coff=%d rise=1 run=0", wArg, extArg, lsbArg, mI16(r), mI16(r), mI16(r), mI16(r))
			out := c.Case(Verdict, "metrics.hmtxenc", args, true)
			c.Stat("hmtx_kind", "32767..65535 glyphs, long metrics")
			c.Stat("hmtx_big", fmt.Sprintf("glyphs=%d tail=%d", g, tail))
			c.Case(Direct, "metrics.hmtxrt", fmt.Sprintf("w=%s ext=%s lsb=%s", wArg, extArg, lsbArg), true)
			if strings.HasPrefix(out, "ok:") {
				p := strings.Split(out[3:], ":")
				if tail == 0 || c.Tier == "thorough" { // the decoder on the (large) encoder output
					c.Case(Verdict, "metrics.hmtxdec", "hhea="+p[0]+" hmtx="+p[1], true)
				}
			}
		}
	}
	// truncated hmtx bodies: numberOfHMetrics = k, body of every even length from 0 to 4k+6 (and a few
	// odd ones): refused unless k whole long records and whole bearings are present
	for _, k := range []int{1, 2, 3, 6, Pick(r, []int{4, 5, 7, 9})} {
		hh := hheaStub(1, 0)
		hh[34], hh[35] = byte(k>>8), byte(k)
		body := r.Bytes(4*k + 8)
		for l := 0; l <= 4*k+6; l += 2 {
			c.Case(Direct, "metrics.hmtxtrunc", "hhea="+hx(hh)+" hmtx="+hx(body[:l]), true)
			c.Case(Verdict, "metrics.hmtxdec", "hhea="+hx(hh)+" hmtx="+hx(body[:l]), true)
			switch {
			case l < 2*k:
				c.Stat("hmtx_truncated", "below 2k bytes")
			case l < 4*k:
				c.Stat("hmtx_truncated", "between 2k and 4k bytes")
			default:
				c.Stat("hmtx_truncated", "complete")
			}
		}
		c.Case(Direct, "metrics.hmtxtrunc", "hhea="+hx(hh)+" hmtx="+hx(body[:4*k+1]), true)
		c.Case(Direct, "metrics.hmtxtrunc", "hhea="+hx(hh)+" hmtx="+hx(body[:2*k+1]), true)
	}
	// zero versus absent: all-zero widths / bearings / boxes are data, not "no data"
	for _, g := range []int{1, 2, 5} {
		zs := make([]funit.Int16, g)
		hmtxCase(c, zs, make([]funit.Rect16, g), nil, "all-zero")
		hmtxCase(c, zs, nil, make([]funit.Int16, g), "all-zero")
	}
	// nil / empty / mismatching slices (outside the stated domain: verdict only)
	for i := 0; i < n/25+6; i++ {
		g := r.Range(0, 5)
		ws := widthsWithTail(r, g, r.Range(0, g), true, false)
		es := rectsFor(r, ws, 2)
		var ls []funit.Int16
		switch i % 6 {
		case 0:
			ws = nil
		case 1:
			es = nil
		case 2:
			es = append(es, mRect(r, 0, 2))
		case 3:
			ls = make([]funit.Int16, g+r.Range(1, 2))
		case 4:
			if g > 0 {
				ls = make([]funit.Int16, g-1)
			}
		case 5:
			ws, es, ls = nil, nil, nil
		}
		hmtxCase(c, ws, es, ls, "irregular")
	}
	// caret slope: fromAngle(toAngle(rise, run)) against the exact-arithmetic model
	for i := 0; i < n/4; i++ {
		var rise, run int
		switch r.Intn(8) {
		case 0:
			rise, run = Pick(r, []int{-32768, -32767, -1, 0, 1, 32767}), Pick(r, []int{-32768, -32767, -1, 0, 1, 32767})
		case 1:
			k := r.Range(1, 40)
			rise, run = k*r.Range(-800, 800), k*r.Range(-800, 800)
		case 2:
			rise, run = r.Range(1, 3000), r.Range(0, 600)
		default:
			rise, run = r.Range(-32768, 32767), r.Range(-32768, 32767)
		}
		caretCase(c, rise, run, "random")
	}
	// the extremes, systematically: one component at +-32767, +-32766, -32768 or +-1, the other
	// sweeping 1..4096, both orientations (steep and flat), all sign combinations, in lowest terms or not
	bigs := []int{32767, -32767, 32766, -32766, -32768}
	sweep := 12
	extra := 150
	if c.Tier == "thorough" {
		sweep = 64
		extra = n / 3
	}
	for _, a := range bigs {
		for b := 1; b <= sweep; b++ {
			caretCase(c, a, b, "extreme-steep")
			caretCase(c, a, -b, "extreme-steep")
			caretCase(c, b, a, "extreme-flat")
			caretCase(c, -b, a, "extreme-flat")
		}
	}
	for i := 0; i < extra; i++ {
		a := Pick(r, []int{32767, -32767, 32766, -32766, -32768, 32765, 1, -1, 2})
		b := r.Range(1, 4096)
		if r.Chance(1, 5) {
			b = r.Range(4097, 32767)
		}
		if r.Bool() {
			b = -b
		}
		if r.Bool() {
			caretCase(c, a, b, "extreme-steep")
		} else {
			caretCase(c, b, a, "extreme-flat")
		}
	}

	// ---- (b) head + time ----
	zero := int64(-62135596800)
	epoch := int64(-2082844800)
	times := []int64{zero, epoch, epoch + 1, epoch - 1, 0, 1, -1, 1 << 31, 1<<31 - 1, 1 << 35, epoch + 1<<31, epoch + 1<<32, epoch + 1<<35,
		zero + 1, zero - 1, 1 << 55, -(1 << 55), 253402300799, epoch - 86400*365*50, 1 << 56, -(1 << 56), 1 << 60,
		-(1 << 60), 1 << 62, -(1 << 62), 1<<63 - 1, -(1 << 63), 1<<62 + 12345, -(1 << 62) - 12345}
	pickTime := func() string {
		var sec int64
		switch r.Intn(10) {
		case 0: // unset
			sec = zero
		case 1: // before 1904 (negative 1904-based value: top byte 0xFF)
			sec = epoch - int64(r.Range(1, 1<<40))
		case 2: // the epoch and its neighbours
			sec = epoch + int64(r.Range(-1, 1))
		case 3, 4: // ordinary
			sec = int64(r.Range(0, 1<<32))
		case 5: // far future / far past, magnitudes up to 2^62
			sec = int64(r.U64()>>2) - 1<<61
		case 6: // |1904-based value| >= 2^56: the top byte is in use
			sec = Pick(r, []int64{1, -1}) * (int64(1)<<56 + int64(r.U64()>>10))
		case 7: // extremes of int64
			sec = Pick(r, []int64{1 << 62, -(1 << 62), 1<<63 - 1, -(1 << 63), 1<<62 + 12345, -(1 << 62) - 12345, 1<<62 - 1})
		default:
			sec = Pick(r, times)
		}
		nsec := 0
		if r.Chance(1, 3) {
			nsec = r.Range(0, 999999999)
		}
		return fmt.Sprintf("%d:%d", sec, nsec)
	}
	for i := 0; i < len(times)+n/10; i++ {
		t := pickTime()
		if i < len(times) {
			t = fmt.Sprintf("%d:0", times[i])
		}
		c.Case(Verdict, "metrics.time", "t="+t, true)
		switch {
		case strings.HasPrefix(t, fmt.Sprint(zero)+":0"):
			c.Stat("time", "zero")
		case strings.HasPrefix(t, fmt.Sprint(epoch)+":"):
			c.Stat("time", "epoch-1904")
		default:
			c.Stat("time", "other")
		}
	}
	// zero versus absent: the all-zero head info (both times unset)
	c.Case(Direct, "metrics.headrt", "rev=0 y0=0 x0=0 nl=0 upm=0 created=-62135596800:0 modified=-62135596800:0 bbox=0:0:0:0 bold=0 italic=0 shadow=0 cond=0 extd=0 ppem=0 loca=0", true)
	for i := 0; i < n/5; i++ {
		rev := int(r.U64() & 0xFFFFFFFF)
		if r.Chance(1, 4) {
			rev = Pick(r, []int{0, 0x10000, 0xFFFFFFFF, 0x18000})
		}
		upm := Pick(r, []int{1000, 2048, 16, 16384, 0, 65535, r.Range(0, 65535)})
		args := fmt.Sprintf("rev=%d y0=%d x0=%d nl=%d upm=%d created=%s modified=%s bbox=%d:%d:%d:%d bold=%d italic=%d shadow=%d cond=%d extd=%d ppem=%d loca=%d",
			rev, r.Intn(2), r.Intn(2), r.Intn(2), upm, pickTime(), pickTime(), mI16(r), mI16(r), mI16(r), mI16(r),
			r.Intn(2), r.Intn(2), r.Intn(2), r.Intn(2), r.Intn(2), Pick(r, []int{7, 0, 65535, r.Range(0, 65535)}),
			Pick(r, []int{0, 1, -1, 2, -32768, 32767}))
		out := c.Case(Verdict, "metrics.headenc", args, true)
		// the property itself on the real code: Read(Encode(info)) = info (timestamps to the second);
		// times beyond +-2^62 s are outside the stated domain: diagnostic only
		inRange := true
		for _, p := range strings.Fields(args) {
			if strings.HasPrefix(p, "created=") || strings.HasPrefix(p, "modified=") {
				var sec int64
				fmt.Sscanf(p[strings.IndexByte(p, '=')+1:], "%d:", &sec)
				if sec > 1<<62 || sec < -(1<<62) {
					inRange = false
				}
				switch {
				case sec == zero:
					c.Stat("head_time_class", "unset")
				case sec < epoch:
					c.Stat("head_time_class", "before 1904")
				case sec <= epoch+1:
					c.Stat("head_time_class", "1904 epoch, +1s")
				case sec < 1<<33:
					c.Stat("head_time_class", "ordinary")
				default:
					c.Stat("head_time_class", "far future")
				}
			}
		}
		if inRange {
			c.Case(Direct, "metrics.headrt", args, true)
		} else {
			c.Stat("head_time_class", "outside +-2^62 s (diagnostic)")
			c.Case(Diagnostic, "metrics.headrt", args, true)
		}
		if !strings.HasPrefix(out, "ok:") {
			continue
		}
		c.Case(Verdict, "metrics.headdec", "b="+out[3:], true)
		b := mustHex(out[3:])
		for k := 0; k < 2; k++ {
			m := append([]byte(nil), b...)
			switch r.Intn(6) {
			case 0:
				m = m[:r.Intn(len(m)+1)]
			case 1:
				m[r.Intn(len(m))] ^= byte(1 << r.Intn(8))
			case 2:
				m[16], m[17] = byte(r.U64()), byte(r.U64()) // flags
			case 3:
				m[44], m[45] = byte(r.U64()), byte(r.U64()) // macStyle
			case 4:
				copy(m[20:36], r.Bytes(16)) // times
				if r.Bool() {
					copy(m[20:28], make([]byte, 8))
				}
			case 5:
				m = append(m, r.Bytes(r.Range(1, 8))...)
			}
			res := c.Case(Verdict, "metrics.headdec", "b="+hx(m), true)
			c.Stat("headdec_mutated", outClass(res))
		}
	}

	// ---- (c) maxp ----
	for i := 0; i < n/10+8; i++ {
		ng := Pick(r, []int{1, 2, 255, 256, 32767, 32768, 32769, 65535, r.Range(1, 65535), r.Range(1, 65535)})
		if i%8 == 7 {
			ng = Pick(r, []int{0, -1, 65536, 70000})
		}
		ttf := "-"
		if r.Bool() {
			v := make([]int, 13)
			for j := range v {
				v[j] = Pick(r, []int{0, 1, 65535, r.Range(0, 65535), r.Range(0, 300)})
			}
			ttf = ints(v)
		}
		switch i % 8 {
		case 1: // present but all zero: must stay present (version 1.0), not collapse to "absent"
			ttf = ints(make([]int, 13))
			c.Stat("maxp_ttf", "all-zero")
		case 2, 3: // a single non-zero maximum
			v := make([]int, 13)
			v[r.Intn(13)] = Pick(r, []int{1, 65535, r.Range(1, 65535)})
			ttf = ints(v)
			c.Stat("maxp_ttf", "single non-zero")
		default:
			if ttf == "-" {
				c.Stat("maxp_ttf", "absent")
			} else {
				c.Stat("maxp_ttf", "random")
			}
		}
		if ng >= 1 && ng < 65536 {
			c.Case(Direct, "metrics.maxprt", fmt.Sprintf("n=%d ttf=%s", ng, ttf), true)
		}
		out := c.Case(Verdict, "metrics.maxpenc", fmt.Sprintf("n=%d ttf=%s", ng, ttf), true)
		c.Stat("maxp_outcome", strings.SplitN(out, ":", 2)[0])
		if !strings.HasPrefix(out, "ok:") {
			continue
		}
		c.Case(Verdict, "metrics.maxpdec", "b="+out[3:], true)
		b := mustHex(out[3:])
		m := append([]byte(nil), b...)
		switch r.Intn(5) {
		case 0:
			m = m[:r.Intn(len(m)+1)]
		case 1:
			m[r.Intn(6)] ^= byte(1 << r.Intn(8))
		case 2:
			m[4], m[5] = 0, 0
		case 3:
			m[1], m[2] = byte(r.Intn(2)), byte(0x50*r.Intn(2))
		case 4:
			m = append(m, r.Bytes(3)...)
		}
		res := c.Case(Verdict, "metrics.maxpdec", "b="+hx(m), true)
		c.Stat("maxpdec_mutated", outClass(res))
	}

	// ---- (d) post header ----
	for i := 0; i < n/10+8; i++ {
		angle := Pick(r, []int{0, -12 * 65536, -786432 + 1, 65536, -2147483648, 2147483647, r.Range(-30*65536, 30*65536), int(int32(uint32(r.U64())))})
		args := fmt.Sprintf("angle=%d upos=%d uthick=%d fixed=%d", angle, mI16(r), mI16(r), r.Intn(2))
		if i == 0 {
			args = "angle=0 upos=0 uthick=0 fixed=0" // the all-zero header
		}
		c.Case(Direct, "metrics.postrt", args, true)
		out := c.Case(Verdict, "metrics.postenc", args, true)
		if !strings.HasPrefix(out, "ok:") {
			continue
		}
		c.Case(Verdict, "metrics.postdec", "b="+out[3:], true)
		b := mustHex(out[3:])
		m := append([]byte(nil), b...)
		switch r.Intn(5) {
		case 0:
			m = m[:r.Intn(len(m)+1)]
		case 1:
			m[r.Intn(len(m))] ^= byte(1 << r.Intn(8))
		case 2:
			copy(m[0:4], Pick(r, [][]byte{{0, 1, 0, 0}, {0, 3, 0, 0}, {0, 4, 0, 0}, {0, 2, 0x50, 0}, {0, 5, 0, 0}, {0, 0, 0, 0}}))
		case 3:
			copy(m[12:16], r.Bytes(4))
		case 4:
			m = append(m, r.Bytes(3)...)
		}
		if len(m) >= 4 && m[0] == 0 && m[1] == 2 && m[2] == 0 && m[3] == 0 {
			m[1] = 3 // version 2.0 carries glyph names (C14), not part of this model
		}
		res := c.Case(Verdict, "metrics.postdec", "b="+hx(m), true)
		c.Stat("postdec_mutated", outClass(res))
	}

	// ---- (e) OS/2 codec, writer-side derivations (area_metrics_os2.go) ----
	areaMetricsOs2(c)
	// ---- metric queries over exact rationals, fractional CFF widths, makeHmtx (area_metrics_q.go) ----
	areaMetricsQ(c)
	// ---- earlier results are not disturbed by later calls (area_metrics_alias.go) ----
	areaMetricsAlias(c)
	// ---- CID-keyed CFF fonts: per-FD matrices (area_metrics_cid.go) ----
	areaMetricsCID(c)

	// ---- whole fonts: derived fields inside (*sfnt.Font).Write output ----
	for i := 0; i < n/5+4; i++ {
		fontCase(c, i)
	}
}

// outClass: "ok" or the error class of a canonical output
func outClass(res string) string {
	if strings.HasPrefix(res, "ok:") {
		return "ok"
	}
	return res
}

// caretCase: V — fromAngle(toAngle(rise, run)) on the real code against the exact-arithmetic
// model; D — for a pair in lowest terms Decode∘Encode∘Decode is the identity on the caret fields.
func caretCase(c *Ctx, rise, run int, label string) {
	if caretTie(rise, run) {
		c.Stat("caret", "tie-skipped")
		return
	}
	c.Case(Verdict, "metrics.caret", fmt.Sprintf("rise=%d run=%d", rise, run), true)
	c.Stat("caret_gen", label)
	cr, cu := rise, run
	if cr == -32768 {
		cr = -32767
	}
	if cu == -32768 {
		cu = -32767
	}
	switch {
	case cu == 0:
		c.Stat("caret", "vertical")
	case cr == 0:
		c.Stat("caret", "horizontal")
	case gcd(abs(cr), abs(cu)) > 1:
		c.Stat("caret", "reducible")
	default:
		c.Stat("caret", "lowest-terms")
	}
	if abs(cr) == 32767 || abs(cu) == 32767 {
		c.Stat("caret_extreme", "|component|=32767")
	} else if abs(cr) == 32766 || abs(cu) == 32766 {
		c.Stat("caret_extreme", "|component|=32766")
	}
	if rise != -32768 && run != -32768 && gcd(abs(rise), abs(run)) == 1 {
		c.Case(Direct, "metrics.caretrt", fmt.Sprintf("rise=%d run=%d", rise, run), true)
	}
}

func abs(x int) int {
	if x < 0 {
		return -x
	}
	return x
}
func gcd(a, b int) int {
	for b != 0 {
		a, b = b, a%b
	}
	return a
}

// fontCase builds a small glyf or CFF font from (widths, boxes, code points), writes it with
// the real (*sfnt.Font).Write, cuts the tables out of the file and has the Lean spec folds
// recompute every derived field.
func fontCase(c *Ctx, i int) {
	r := c.Rng
	g := r.Range(1, 30)
	if i%9 == 8 {
		g = r.Range(100, 400)
	}
	useCFF := i%2 == 1
	mode := 0
	if !useCFF && r.Chance(1, 3) {
		mode = 1
	}
	fixed := r.Chance(1, 4)
	ws := make([]funit.Int16, g)
	fw := mWidth(r, false)
	for j := range ws {
		ws[j] = mWidth(r, mode == 1)
		if fixed {
			ws[j] = fw
			if r.Chance(1, 5) {
				ws[j] = 0
			}
		} else if r.Chance(1, 8) {
			ws[j] = 0
		}
	}
	if r.Chance(1, 3) { // a constant tail
		t := r.Range(1, g)
		for j := g - t; j < g; j++ {
			ws[j] = ws[g-t]
		}
	}
	es := rectsFor(r, ws, mode)

	f := &sfnt.Font{
		FamilyName: "Verif",
		UnitsPerEm: 1000,
		FontMatrix: matrix.Matrix{0.001, 0, 0, 0.001, 0, 0},
		Ascent:     funit.Int16(r.Range(0, 1000)),
		Descent:    funit.Int16(-r.Range(0, 400)),
		LineGap:    funit.Int16(r.Range(0, 300)),
		Weight:     400,
		Width:      5,
		IsRegular:  true,
	}
	if useCFF {
		o := &cff.Outlines{
			Private:  []*type1.PrivateDict{{BlueScale: 0.039625, BlueShift: 7, BlueFuzz: 1}},
			FDSelect: func(glyph.ID) int { return 0 },
		}
		for j := range ws {
			name := fmt.Sprintf("g%d", j)
			if j == 0 {
				name = ".notdef"
			}
			gl := cff.NewGlyph(name, float64(ws[j]))
			if !es[j].IsZero() {
				e := es[j]
				gl.MoveTo(float64(e.LLx), float64(e.LLy))
				gl.LineTo(float64(e.URx), float64(e.LLy))
				gl.LineTo(float64(e.URx), float64(e.URy))
				gl.LineTo(float64(e.LLx), float64(e.URy))
			}
			o.Glyphs = append(o.Glyphs, gl)
		}
		f.Outlines = o
	} else {
		o := &glyf.Outlines{Widths: ws, Maxp: &maxp.TTFInfo{MaxZones: 2}}
		for j := range ws {
			if es[j].IsZero() && r.Bool() {
				o.Glyphs = append(o.Glyphs, nil)
			} else {
				o.Glyphs = append(o.Glyphs, &glyf.Glyph{Rect16: es[j], Data: glyf.SimpleGlyph{}})
			}
		}
		f.Outlines = o
	}
	// code points
	lo, hi := 0, 0
	ncodes := r.Range(0, 6)
	if g == 1 {
		ncodes = 0 // only .notdef: nothing to map (codes mapped to glyph 0 are C09's business)
	}
	if ncodes > 0 {
		codes := map[int]glyph.ID{}
		mode := r.Intn(8)
		add := func(cp int) { codes[cp] = glyph.ID(r.Range(1, g-1)) }
		switch mode {
		case 0: // only supplementary-plane characters
			base := Pick(r, []int{0x1F600, 0x10000, 0x1F600, 0x20000, 0x10FFF0, r.Range(0x10000, 0x10FFFF-8)})
			for k := 0; k < ncodes; k++ {
				add(base + k)
			}
			c.Stat("font_codes", "only above U+FFFF")
		case 1: // lowest code exactly 0xFFFF
			add(0xFFFF)
			for len(codes) < ncodes {
				add(r.Range(0x10000, 0x10FFFF))
			}
			c.Stat("font_codes", "lowest = U+FFFF")
		case 2: // lowest code exactly 0x10000
			add(0x10000)
			for len(codes) < ncodes {
				add(r.Range(0x10001, 0x10FFFF))
			}
			c.Stat("font_codes", "lowest = U+10000")
		case 3: // mixed
			add(r.Range(1, 0xFFFE))
			add(r.Range(0x10000, 0x10FFFF))
			for len(codes) < ncodes {
				if r.Bool() {
					add(r.Range(1, 0xFFFF))
				} else {
					add(r.Range(0x10000, 0x10FFFF))
				}
			}
			c.Stat("font_codes", "BMP and above")
		case 4: // highest code exactly 0xFFFF / 0xFFFE
			add(Pick(r, []int{0xFFFF, 0xFFFE}))
			for len(codes) < ncodes {
				add(r.Range(1, 0xFFFD))
			}
			c.Stat("font_codes", "highest = U+FFFF/FFFE")
		default:
			for len(codes) < ncodes {
				cp := r.Range(1, 0xFFFF)
				if r.Intn(6) == 0 {
					cp = Pick(r, []int{0x20, 0xFFFF, 0xFFFE, 1})
				}
				add(cp)
			}
			c.Stat("font_codes", "BMP only")
		}
		first := true
		for cp, gid := range codes {
			if gid == 0 {
				continue // a code mapped to .notdef is not a character of the font
			}
			if first || cp < lo {
				lo = cp
			}
			if first || cp > hi {
				hi = cp
			}
			first = false
		}
		if hi > 0xFFFF {
			m := cmap.Format12{}
			for cp, gid := range codes {
				m[uint32(cp)] = gid
			}
			f.InstallCMap(m)
			c.Stat("font_cmap", "format12")
		} else {
			m := cmap.Format4{}
			for cp, gid := range codes {
				m[uint16(cp)] = gid
			}
			f.InstallCMap(m)
			c.Stat("font_cmap", "format4")
		}
	} else {
		c.Stat("font_cmap", "none")
	}

	var buf bytes.Buffer
	res := guard(func() string {
		_, err := f.Write(&buf)
		if err != nil {
			return "err:" + err.Error()
		}
		return "ok"
	})
	kind := "glyf"
	if useCFF {
		kind = "cff"
	}
	c.Stat("font_write", kind+":"+strings.SplitN(res, ":", 2)[0])
	if res != "ok" {
		c.Stat("font_write_fail", res[:min(60, len(res))])
		return
	}
	data := buf.Bytes()
	dir, err := header.Read(bytes.NewReader(data))
	if err != nil {
		c.Stat("font_write", "unreadable")
		return
	}
	tab := func(name string) string {
		rec, ok := dir.Toc[name]
		if !ok {
			return ""
		}
		return hx(data[rec.Offset : rec.Offset+rec.Length])
	}
	if !rsbFits(ws, es) {
		c.Stat("font_domain", "aw-xMax saturates")
	} else {
		c.Stat("font_domain", "aw-xMax fits int16")
	}
	c.Stat("font_glyphs", bucket(g))
	if fixed {
		c.Stat("font_pitch", "fixed-by-construction")
	} else {
		c.Stat("font_pitch", "free")
	}
	args := fmt.Sprintf("kind=%s w=%s ext=%s lo=%d hi=%d hhea=%s head=%s os2=%s post=%s", kind,
		mShowInts(ws), mShowRects(es), lo, hi, tab("hhea"), tab("head"), tab("OS/2"), tab("post")[:64])
	c.Case(Direct, "metrics.dfont", args, g >= 2)
}
