package main

// Area `shapespec` (property C06): Context.Apply of opentype/gtab against the Lean REFERENCE
// shaper Spec.Shape.shape (lean/SfntV/Spec/Shape.lean).  The case-line format, the decoder
// and the generators of tables are those of area `shape` (area_shape.go, same package).
//
// Streams:
//   D shapespec.apply    Go Apply on a fresh context, per sequence  =  Spec.shape inside Defined
//                        (outside Defined the driver prints the engine model's result)
//   G shapespec.region   the driver prints defined / undef:<reason>; this side prints defined,
//                        so the number of differing lines = number of cases outside Defined
//   D shapespec.exhaust  all sequences up to a length over a small alphabet, one digest each
//   G shapespec.exregion how many of those are inside Defined

import (
	"fmt"
	"hash/fnv"
	"strconv"
	"strings"

	"golang.org/x/text/language"
	"seehuhn.de/go/postscript/funit"
	"seehuhn.de/go/sfnt/glyph"
	"seehuhn.de/go/sfnt/opentype/anchor"
	"seehuhn.de/go/sfnt/opentype/classdef"
	"seehuhn.de/go/sfnt/opentype/coverage"
	"seehuhn.de/go/sfnt/opentype/gdef"
	"seehuhn.de/go/sfnt/opentype/gtab"
	"seehuhn.de/go/sfnt/opentype/gtab/testcases"
	"seehuhn.de/go/sfnt/opentype/markarray"
)

// ssApplyFresh runs one sequence on a fresh context.
func ssApplyFresh(c *shpCase, s []glyph.Info) string {
	out, ok := shpApply(gtab.NewContext(c.ll, c.gd, c.lookups), s)
	if !ok {
		return "panic"
	}
	return shpShowSeq(out)
}

func ssAllSeqs(alpha []int, maxlen int, f func(gids []int)) {
	var rec func(n int, cur []int)
	for n := 0; n <= maxlen; n++ {
		rec = func(k int, cur []int) {
			if k == 0 {
				f(cur)
				return
			}
			for _, a := range alpha {
				rec(k-1, append(cur, a))
			}
		}
		rec(n, nil)
	}
}

func ssMkSeq(gids []int) []glyph.Info {
	s := make([]glyph.Info, len(gids))
	for i, x := range gids {
		s[i] = glyph.Info{GID: glyph.ID(x), Text: []rune{rune(97 + i)}}
	}
	return s
}

func init() {
	areas["shapespec"] = areaShapeSpec

	ops["shapespec.apply"] = func(f Fields) string {
		c := shpDecode(f)
		parts := make([]string, len(c.hist))
		for i, s := range c.hist {
			parts[i] = ssApplyFresh(c, s)
		}
		return strings.Join(parts, "|")
	}
	ops["shapespec.region"] = func(f Fields) string {
		c := shpDecode(f)
		parts := make([]string, len(c.hist))
		for i := range c.hist {
			parts[i] = "defined"
		}
		return strings.Join(parts, "|")
	}
	ops["shapespec.exhaust"] = func(f Fields) string {
		c := shpDecode(f)
		var sb strings.Builder
		ssAllSeqs(f.Ints("alpha"), f.Int("maxlen"), func(gids []int) {
			h := fnv.New32a()
			h.Write([]byte(ssApplyFresh(c, ssMkSeq(gids))))
			fmt.Fprintf(&sb, "%04x", h.Sum32()%65536)
		})
		return sb.String()
	}
	ops["shapespec.exregion"] = func(f Fields) string {
		n := 0
		ssAllSeqs(f.Ints("alpha"), f.Int("maxlen"), func([]int) { n++ })
		return fmt.Sprintf("defined=%d/%d", n, n)
	}
}

// ---------------------------------------------------------------- generator

const (
	ssA, ssB, ssC, ssD = 1, 2, 3, 4
	ssL, ssL2          = 7, 8       // ligature class
	ssM, ssM2, ssM3    = 10, 11, 12 // marks
	ssU                = 14         // unclassified
)

type ssGen struct {
	*shpGen
}

func ssLookup(tp uint16, fl gtab.LookupFlags, set uint16, st ...gtab.Subtable) *gtab.LookupTable {
	return &gtab.LookupTable{Meta: &gtab.LookupMetaInfo{LookupType: tp, LookupFlags: fl, MarkFilteringSet: set}, Subtables: st}
}

// ssGdef: the standard classification of the alphabet, with attachment classes and two
// filtering sets.
func ssGdef() *gdef.Table {
	return &gdef.Table{
		GlyphClass: classdef.Table{ssA: gdef.GlyphClassBase, ssB: gdef.GlyphClassBase, ssC: gdef.GlyphClassBase, ssD: gdef.GlyphClassBase,
			ssL: gdef.GlyphClassLigature, ssL2: gdef.GlyphClassLigature,
			ssM: gdef.GlyphClassMark, ssM2: gdef.GlyphClassMark, ssM3: gdef.GlyphClassMark,
			// class 4 (component) and classes outside the format: no lookup flag may skip them
			ssU + 1: gdef.GlyphClassComponent, ssU + 2: 5, ssU + 3: 255},
		MarkAttachClass: classdef.Table{ssM: 1, ssM2: 2, ssM3: 1},
		MarkGlyphSets:   []coverage.Set{{ssM: true}, {ssM2: true, ssM3: true}},
	}
}

// ssFlags draws one of the flag words: every subset of the three ignore bits, combined with
// no mark selection / a filtering set / an attachment type.
func (g *ssGen) ssFlags() (gtab.LookupFlags, uint16) {
	r := g.r
	fl := gtab.LookupFlags(r.Intn(8) << 1) // IgnoreBaseGlyphs | IgnoreLigatures | IgnoreMarks subsets
	if r.Chance(1, 4) {
		fl |= gtab.RightToLeft
	}
	set := uint16(0)
	switch r.Intn(4) {
	case 0:
		fl |= gtab.UseMarkFilteringSet
		set = uint16(r.Intn(3)) // 2 = outside the GDEF sets
	case 1:
		fl |= gtab.LookupFlags(r.Range(1, 3) << 8)
	case 2:
		if r.Chance(1, 3) {
			fl |= gtab.UseMarkFilteringSet | gtab.LookupFlags(r.Range(1, 2)<<8)
			set = uint16(r.Intn(2))
		}
	}
	return fl, set
}

func (g *ssGen) classGlyph(cls int) glyph.ID {
	switch cls {
	case 1:
		return glyph.ID(g.r.Range(ssA, ssD))
	case 2:
		return glyph.ID(Pick(g.r, []int{ssL, ssL2}))
	case 3:
		return glyph.ID(Pick(g.r, []int{ssM, ssM2, ssM3}))
	case 4:
		return ssU + 1
	case 5:
		return ssU + 2
	case 6:
		return ssU + 3
	}
	return ssU
}

func ssText(gids []glyph.ID) []glyph.Info {
	s := make([]glyph.Info, len(gids))
	for i, x := range gids {
		s[i] = glyph.Info{GID: x, Text: []rune{rune(97 + i)}}
	}
	return s
}

// obligation 1: every flag subset x GDEF class of the first / middle / last glyph, for a
// ligature, a single substitution, a multiple substitution and a pair adjustment over the
// three glyphs.
func (g *ssGen) flagsByClass() *shpCase {
	r := g.r
	fl, set := g.ssFlags()
	cls := []int{r.Intn(7), r.Intn(7), r.Intn(7)} // GDEF classes 0-4, 5 and 255
	g0, g1, g2 := g.classGlyph(cls[0]), g.classGlyph(cls[1]), g.classGlyph(cls[2])
	g.c.Stat("obligation: flags x class (first,middle,last)", fmt.Sprintf("flags=%#06x classes=%d%d%d", int(fl), cls[0], cls[1], cls[2]))
	var st gtab.Subtable
	tp := uint16(4)
	switch r.Intn(5) {
	case 0:
		st = &gtab.Gsub4_1{Cov: coverage.Table{g0: 0}, Repl: [][]gtab.Ligature{{{In: []glyph.ID{g2}, Out: ssL2}, {In: []glyph.ID{g1, g2}, Out: ssL}}}}
	case 1:
		st = &gtab.Gsub4_1{Cov: coverage.Table{g0: 0}, Repl: [][]gtab.Ligature{{{In: []glyph.ID{g1, g2}, Out: ssL}, {In: []glyph.ID{g1}, Out: ssL2}}}}
	case 2:
		tp = 1
		st = &gtab.Gsub1_2{Cov: coverage.Table{g0: 0}, SubstituteGlyphIDs: []glyph.ID{ssD}}
		if g1 != g0 {
			st = &gtab.Gsub1_2{Cov: coverage.Table{g0: 0, g1: 1}, SubstituteGlyphIDs: []glyph.ID{ssD, ssC}}
			if g0 > g1 {
				st = &gtab.Gsub1_2{Cov: coverage.Table{g1: 0, g0: 1}, SubstituteGlyphIDs: []glyph.ID{ssC, ssD}}
			}
		}
	case 3:
		tp = 2
		st = &gtab.Gsub2_1{Cov: coverage.Table{g1: 0}, Repl: [][]glyph.ID{{g1, ssM, g1}}}
	default:
		tp = 2 + 100
		st = gtab.Gpos2_1{glyph.Pair{Left: g0, Right: g2}: &gtab.PairAdjust{First: &gtab.GposValueRecord{XAdvance: -30}, Second: &gtab.GposValueRecord{XPlacement: 7}},
			glyph.Pair{Left: g0, Right: g1}: &gtab.PairAdjust{First: &gtab.GposValueRecord{XAdvance: 11}}}
	}
	if tp > 100 {
		tp -= 100
	}
	seq := []glyph.ID{g0, g1, g2}
	if r.Bool() {
		seq = append(seq, g0, g2, g1, g2)
	}
	return &shpCase{ll: gtab.LookupList{ssLookup(tp, fl, set, st)}, gd: ssGdef(), lookups: []gtab.LookupIndex{0}, hist: [][]glyph.Info{ssText(seq)}}
}

// obligations 2 and 3: ligature sets with prefixes of one another in both orders; a second
// candidate matching across 0..3 skipped glyphs.
func (g *ssGen) ligatures() *shpCase {
	r := g.r
	k := r.Intn(4)
	order := r.Intn(2)
	g.c.Stat("obligation: ligature candidates", fmt.Sprintf("prefix order %d, second candidate across %d skipped", order, k))
	short := gtab.Ligature{In: []glyph.ID{ssB}, Out: ssL}
	long := gtab.Ligature{In: []glyph.ID{ssB, ssC}, Out: ssL2}
	other := gtab.Ligature{In: []glyph.ID{ssB, ssD}, Out: ssL}
	var set []gtab.Ligature
	if order == 0 {
		set = []gtab.Ligature{long, other, short}
	} else {
		set = []gtab.Ligature{short, long, other}
	}
	if r.Chance(1, 3) {
		set = []gtab.Ligature{long, other}
	}
	fl := gtab.LookupFlags(Pick(r, []int{8, 8, 0, 0x10, 0x100}))
	seq := []glyph.ID{ssA}
	for i := 0; i < k; i++ {
		seq = append(seq, glyph.ID(Pick(r, []int{ssM, ssM2})))
	}
	seq = append(seq, ssB)
	for i, n := 0, r.Intn(3); i < n; i++ {
		seq = append(seq, glyph.ID(Pick(r, []int{ssM, ssM2})))
	}
	seq = append(seq, glyph.ID(Pick(r, []int{ssC, ssD, ssA})), ssA, ssB)
	return &shpCase{ll: gtab.LookupList{ssLookup(4, fl, 0, &gtab.Gsub4_1{Cov: coverage.Table{ssA: 0}, Repl: [][]gtab.Ligature{set}})},
		gd: ssGdef(), lookups: []gtab.LookupIndex{0}, hist: [][]glyph.Info{ssText(seq)}}
}

// obligation 4: nested actions before / at / after an insertion and a deletion.  Parent and
// children use the same flags, so the components of a nested ligature are tagged uniformly
// (inside Defined) unless `mixed` is drawn.
func (g *ssGen) nestedLenChange() *shpCase {
	r := g.r
	fl := gtab.LookupFlags(Pick(r, []int{0, 0, 8}))
	cfl := fl
	mixed := r.Chance(1, 5)
	if mixed {
		cfl = gtab.LookupFlags(Pick(r, []int{0, 8}))
	}
	n := r.Range(3, 4)
	input := []glyph.ID{ssB, ssC, ssD}[:n-1]
	var acts []gtab.SeqLookup
	for i, m := 0, r.Range(1, 4); i < m; i++ {
		acts = append(acts, gtab.SeqLookup{SequenceIndex: uint16(r.Intn(n)), LookupListIndex: gtab.LookupIndex(r.Range(1, 3))})
	}
	g.c.Stat("obligation: nested length change", fmt.Sprintf("actions=%d mixed flags=%v", len(acts), mixed))
	var parent gtab.Subtable
	switch r.Intn(4) {
	case 0:
		parent = &gtab.SeqContext1{Cov: coverage.Table{ssA: 0}, Rules: [][]*gtab.SeqRule{{{Input: input, Actions: acts}}}}
	case 1:
		in := []coverage.Set{{ssA: true}}
		for _, x := range input {
			in = append(in, coverage.Set{x: true})
		}
		parent = &gtab.SeqContext3{Input: in, Actions: acts}
	case 2:
		in := []coverage.Set{{ssA: true}}
		for _, x := range input {
			in = append(in, coverage.Set{x: true})
		}
		parent = &gtab.ChainedSeqContext3{Input: in, Lookahead: []coverage.Set{{ssA: true, ssB: true}}, Actions: acts}
	default:
		parent = &gtab.ChainedSeqContext1{Cov: coverage.Table{ssA: 0}, Rules: [][]*gtab.ChainedSeqRule{{{Input: input, Lookahead: []glyph.ID{ssA}, Actions: acts}}}}
	}
	ptp := uint16(5)
	if _, ok := parent.(*gtab.SeqContext1); !ok {
		if _, ok := parent.(*gtab.SeqContext3); !ok {
			ptp = 6
		}
	}
	ll := gtab.LookupList{
		ssLookup(ptp, fl, 0, parent),
		ssLookup(2, cfl, 0, &gtab.Gsub2_1{Cov: coverage.Table{ssA: 0, ssB: 1, ssC: 2}, Repl: [][]glyph.ID{{ssA, ssA}, {ssB, ssD, ssB}, {ssC, ssM}}}),
		ssLookup(4, cfl, 0, &gtab.Gsub4_1{Cov: coverage.Table{ssA: 0, ssB: 1, ssC: 2}, Repl: [][]gtab.Ligature{
			{{In: []glyph.ID{ssB}, Out: ssA}, {In: []glyph.ID{ssA}, Out: ssA}}, {{In: []glyph.ID{ssC}, Out: ssB}, {In: []glyph.ID{ssD}, Out: ssC}}, {{In: []glyph.ID{ssD}, Out: ssC}}}}),
		ssLookup(1, cfl, 0, &gtab.Gsub1_2{Cov: coverage.Table{ssA: 0, ssB: 1, ssC: 2, ssD: 3}, SubstituteGlyphIDs: []glyph.ID{ssL, ssL2, ssU, ssU + 1}}),
	}
	seq := []glyph.ID{}
	if r.Bool() {
		seq = append(seq, ssB)
	}
	seq = append(seq, ssA)
	for _, x := range input {
		if fl != 0 {
			for i, m := 0, r.Intn(3); i < m; i++ {
				seq = append(seq, ssM)
			}
		}
		seq = append(seq, x)
	}
	if fl != 0 {
		for i, m := 0, r.Intn(3); i < m; i++ {
			seq = append(seq, ssM)
		}
	}
	seq = append(seq, ssA, ssB, ssC, ssD, ssA)
	return &shpCase{ll: ll, gd: ssGdef(), lookups: []gtab.LookupIndex{0}, hist: [][]glyph.Info{ssText(seq)}}
}

func ssPerms(n int) [][]int {
	if n == 0 {
		return [][]int{{}}
	}
	var out [][]int
	for _, p := range ssPerms(n - 1) {
		for i := 0; i <= len(p); i++ {
			q := append(append(append([]int{}, p[:i]...), n-1), p[i:]...)
			out = append(out, q)
		}
	}
	return out
}

// obligation 5: lookup order permutations of simple lookups that feed one another.
func (g *ssGen) orderPerms(emit func(*shpCase, string)) {
	r := g.r
	ll := gtab.LookupList{
		ssLookup(1, 0, 0, &gtab.Gsub1_2{Cov: coverage.Table{ssA: 0, ssB: 1}, SubstituteGlyphIDs: []glyph.ID{ssB, ssC}}),
		ssLookup(4, gtab.LookupFlags(Pick(r, []int{0, 8})), 0, &gtab.Gsub4_1{Cov: coverage.Table{ssB: 0}, Repl: [][]gtab.Ligature{{{In: []glyph.ID{ssC}, Out: ssA}, {In: []glyph.ID{ssB}, Out: ssD}}}}),
		ssLookup(2, 0, 0, &gtab.Gsub2_1{Cov: coverage.Table{ssA: 0, ssD: 1}, Repl: [][]glyph.ID{{ssB, ssC}, {ssA, ssA}}}),
	}
	seq := g.smallSeq(r.Range(2, 7), []int{ssA, ssB, ssC, ssD, ssM})
	for _, p := range ssPerms(3) {
		c := &shpCase{ll: ll, gd: ssGdef(), hist: [][]glyph.Info{seq}}
		for _, i := range p {
			c.lookups = append(c.lookups, gtab.LookupIndex(i))
		}
		g.c.Stat("obligation: lookup order", fmt.Sprint(p))
		emit(c, "lookup order permutation")
	}
}

func (g *ssGen) smallSeq(n int, alpha []int) []glyph.Info {
	gids := make([]glyph.ID, n)
	for i := range gids {
		gids[i] = glyph.ID(Pick(g.r, alpha))
	}
	return ssText(gids)
}

// type 8: reverse chaining substitution, with substitutes inside / outside its own context.
func (g *ssGen) reverse() *shpCase {
	r := g.r
	self := r.Bool()
	out := glyph.ID(ssC)
	if self {
		out = glyph.ID(Pick(r, []int{ssA, ssB}))
	}
	g.c.Stat("obligation: type 8", fmt.Sprintf("substitute in its own context coverage=%v", self))
	s := &gtab.Gsub8_1{Input: coverage.Table{ssA: 0}, SubstituteGlyphIDs: []glyph.ID{out}}
	switch r.Intn(3) {
	case 0:
		s.Lookahead = []coverage.Table{{ssA: 0, ssB: 1}}
	case 1:
		s.Backtrack = []coverage.Table{{ssA: 0, ssB: 1}}
	default:
		s.Backtrack = []coverage.Table{{ssA: 0}}
		s.Lookahead = []coverage.Table{{ssA: 0, ssB: 1}}
	}
	fl := gtab.LookupFlags(Pick(r, []int{0, 0, 8}))
	return &shpCase{ll: gtab.LookupList{ssLookup(8, fl, 0, s)}, gd: ssGdef(), lookups: []gtab.LookupIndex{0},
		hist: [][]glyph.Info{g.smallSeq(r.Range(1, 7), []int{ssA, ssA, ssA, ssB, ssM, ssC})}}
}

// chained contexts of all three formats whose coverage sets / rules mention glyphs the lookup
// ignores, with ignored glyphs before, inside and after the match; optionally nested inside a
// parent match whose window ends right behind the input (lookahead beyond the window).
func (g *ssGen) chained() *shpCase {
	r := g.r
	fl := gtab.LookupFlags(Pick(r, []int{8, 8, 8, 0, 0x10}))
	format := r.Range(1, 3)
	nested := r.Chance(1, 3)
	g.c.Stat("obligation: chained context", fmt.Sprintf("format %d, nested=%v, flags %#x", format, nested, int(fl)))
	pick := func() glyph.ID { return glyph.ID(Pick(r, []int{ssA, ssB, ssB, ssM, ssM2, ssC})) }
	nIn, nLook, nBack := r.Range(0, 2), r.Range(0, 2), r.Range(0, 1)
	var inG, lookG, backG []glyph.ID
	for i := 0; i < nIn; i++ {
		inG = append(inG, pick())
	}
	for i := 0; i < nLook; i++ {
		lookG = append(lookG, pick())
	}
	for i := 0; i < nBack; i++ {
		backG = append(backG, pick())
	}
	var acts []gtab.SeqLookup
	for i, m := 0, r.Range(1, 2); i < m; i++ {
		acts = append(acts, gtab.SeqLookup{SequenceIndex: uint16(r.Intn(nIn + 1)), LookupListIndex: 2})
	}
	var child gtab.Subtable
	switch format {
	case 1:
		child = &gtab.ChainedSeqContext1{Cov: coverage.Table{ssA: 0}, Rules: [][]*gtab.ChainedSeqRule{{{Backtrack: backG, Input: inG, Lookahead: lookG, Actions: acts}}}}
	case 2:
		cd := classdef.Table{ssA: 1, ssB: 2, ssM: 3, ssM2: 3, ssC: 4}
		cl := func(l []glyph.ID) []uint16 {
			out := make([]uint16, len(l))
			for i, x := range l {
				out[i] = cd[x]
			}
			return out
		}
		child = &gtab.ChainedSeqContext2{Cov: coverage.Table{ssA: 0}, Backtrack: cd, Input: cd, Lookahead: cd,
			Rules: [][]*gtab.ChainedClassSeqRule{{}, {{Backtrack: cl(backG), Input: cl(inG), Lookahead: cl(lookG), Actions: acts}}}}
	default:
		sets := func(l []glyph.ID) []coverage.Set {
			var out []coverage.Set
			for _, x := range l {
				s := coverage.Set{x: true}
				if r.Chance(1, 3) {
					s[pick()] = true
				}
				out = append(out, s)
			}
			return out
		}
		child = &gtab.ChainedSeqContext3{Backtrack: sets(backG), Input: append([]coverage.Set{{ssA: true}}, sets(inG)...), Lookahead: sets(lookG), Actions: acts}
	}
	ll := gtab.LookupList{
		ssLookup(5, 0, 0, &gtab.SeqContext3{Input: []coverage.Set{{ssA: true}}, Actions: []gtab.SeqLookup{{SequenceIndex: 0, LookupListIndex: 1}}}),
		ssLookup(6, fl, 0, child),
		ssLookup(1, 0, 0, &gtab.Gsub1_2{Cov: coverage.Table{ssA: 0, ssB: 1, ssC: 2, ssM: 3, ssM2: 4}, SubstituteGlyphIDs: []glyph.ID{ssL, ssL2, ssU, ssU + 1, ssU + 2}}),
	}
	if nested && nIn > 0 {
		// parent window = the child's input: a format 3 context over the same glyphs without flags
		in := []coverage.Set{{ssA: true}}
		for range inG {
			in = append(in, coverage.Set{ssA: true, ssB: true, ssC: true, ssM: true, ssM2: true})
		}
		ll[0] = ssLookup(5, 0, 0, &gtab.SeqContext3{Input: in, Actions: []gtab.SeqLookup{{SequenceIndex: 0, LookupListIndex: 1}}})
	}
	var seq []glyph.ID
	junk := func() {
		for i, m := 0, r.Intn(3); i < m; i++ {
			seq = append(seq, glyph.ID(Pick(r, []int{ssM, ssM2})))
		}
	}
	for i := len(backG) - 1; i >= 0; i-- {
		seq = append(seq, backG[i])
		junk()
	}
	seq = append(seq, ssA)
	for _, x := range append(append([]glyph.ID{}, inG...), lookG...) {
		junk()
		seq = append(seq, x)
	}
	junk()
	if r.Chance(1, 4) && len(seq) > 1 {
		seq = seq[:len(seq)-1]
	}
	c := &shpCase{ll: ll, gd: ssGdef(), lookups: []gtab.LookupIndex{1}, hist: [][]glyph.Info{ssText(seq)}}
	if nested {
		c.lookups = []gtab.LookupIndex{0}
	}
	return c
}

// three levels of contextual lookups with length-changing leaves: every fixStackInsert /
// fixStackMerge has to repair two or three stack entries at once.
func (g *ssGen) deepNest() *shpCase {
	r := g.r
	fl := gtab.LookupFlags(Pick(r, []int{0, 0, 8}))
	all := coverage.Set{ssA: true, ssB: true, ssC: true, ssD: true}
	acts := func(n, lo, hi int) []gtab.SeqLookup {
		var a []gtab.SeqLookup
		for i, m := 0, r.Range(1, 3); i < m; i++ {
			a = append(a, gtab.SeqLookup{SequenceIndex: uint16(r.Intn(n)), LookupListIndex: gtab.LookupIndex(r.Range(lo, hi))})
		}
		return a
	}
	n0 := r.Range(2, 4)
	in0 := []coverage.Set{{ssA: true}}
	for i := 1; i < n0; i++ {
		in0 = append(in0, all)
	}
	n1 := r.Range(1, 2)
	var in1 []glyph.ID
	for i := 1; i < n1; i++ {
		in1 = append(in1, glyph.ID(Pick(r, []int{ssA, ssB, ssC})))
	}
	g.c.Stat("obligation: deep nesting", fmt.Sprintf("inputs %d/%d, flags %#x", n0, n1, int(fl)))
	ll := gtab.LookupList{
		ssLookup(5, fl, 0, &gtab.SeqContext3{Input: in0, Actions: acts(n0, 1, 2)}),
		ssLookup(5, fl, 0, &gtab.SeqContext1{Cov: coverage.Table{ssA: 0, ssB: 1, ssC: 2}, Rules: [][]*gtab.SeqRule{
			{{Input: in1, Actions: acts(n1, 2, 5)}}, {{Input: in1, Actions: acts(n1, 2, 5)}}, {{Actions: acts(1, 3, 5)}}}}),
		ssLookup(6, 0, 0, &gtab.ChainedSeqContext3{Input: []coverage.Set{all}, Actions: acts(1, 3, 5)}),
		ssLookup(2, 0, 0, &gtab.Gsub2_1{Cov: coverage.Table{ssA: 0, ssB: 1, ssC: 2}, Repl: [][]glyph.ID{{ssA, ssB}, {ssB, ssM, ssC}, {ssC, ssA}}}),
		ssLookup(4, fl, 0, &gtab.Gsub4_1{Cov: coverage.Table{ssA: 0, ssB: 1, ssC: 2}, Repl: [][]gtab.Ligature{
			{{In: []glyph.ID{ssB}, Out: ssC}, {In: []glyph.ID{ssA}, Out: ssB}}, {{In: []glyph.ID{ssC}, Out: ssA}, {In: []glyph.ID{ssB}, Out: ssA}}, {{In: []glyph.ID{ssA}, Out: ssB}}}}),
		ssLookup(1, 0, 0, &gtab.Gsub1_2{Cov: coverage.Table{ssA: 0, ssB: 1, ssC: 2, ssD: 3}, SubstituteGlyphIDs: []glyph.ID{ssB, ssC, ssD, ssA}}),
	}
	seq := []glyph.ID{}
	for i, m := 0, r.Range(3, 8); i < m; i++ {
		if fl != 0 && r.Chance(1, 3) {
			seq = append(seq, ssM)
		}
		seq = append(seq, glyph.ID(Pick(r, []int{ssA, ssA, ssB, ssC})))
	}
	return &shpCase{ll: ll, gd: ssGdef(), lookups: []gtab.LookupIndex{0}, hist: [][]glyph.Info{ssText(seq)}}
}

// ---------------------------------------------------------------- family: ignored glyphs at the edges
//
// Every lookup with a backtrack / lookahead sequence (GSUB 8.1, chained context 1, 2, 3) under
// IgnoreMarks, backtrack length 1..3, lookahead length 0..2, with coverages that do / do not also
// list the ignored mark, applied to sequences whose very first and very last glyphs are ignored
// glyphs: one case line per lookup list, many sequences per line.
const ssEdgeCount = 4 * 3 * 3 * 2

func ssWords(alpha []glyph.ID, maxlen int) [][]glyph.ID {
	out := [][]glyph.ID{{}}
	prev := [][]glyph.ID{{}}
	for n := 1; n <= maxlen; n++ {
		var cur [][]glyph.ID
		for _, w := range prev {
			for _, a := range alpha {
				cur = append(cur, append(append([]glyph.ID{}, w...), a))
			}
		}
		out = append(out, cur...)
		prev = cur
	}
	return out
}

func ssEdgeCase(idx int) (*shpCase, string) {
	kind := []int{81, 61, 62, 63}[idx%4]
	idx /= 4
	bl := 1 + idx%3
	idx /= 3
	la := idx % 3
	idx /= 3
	withIgnored := idx%2 == 1
	ctx := []glyph.ID{ssB}
	if withIgnored {
		ctx = append(ctx, ssM)
	}
	covT := func() coverage.Table {
		t := coverage.Table{}
		for i, x := range ctx {
			t[x] = i
		}
		return t
	}
	covS := func() coverage.Set {
		t := coverage.Set{}
		for _, x := range ctx {
			t[x] = true
		}
		return t
	}
	acts := []gtab.SeqLookup{{SequenceIndex: 0, LookupListIndex: 1}}
	cd := classdef.Table{ssA: 1, ssB: 2}
	if withIgnored {
		cd[ssM] = 2
	}
	rep := func(n int, x glyph.ID) []glyph.ID {
		l := make([]glyph.ID, n)
		for i := range l {
			l[i] = x
		}
		return l
	}
	var st gtab.Subtable
	tp := uint16(6)
	switch kind {
	case 81:
		tp = 8
		s := &gtab.Gsub8_1{Input: coverage.Table{ssA: 0}, SubstituteGlyphIDs: []glyph.ID{ssC}}
		for i := 0; i < bl; i++ {
			s.Backtrack = append(s.Backtrack, covT())
		}
		for i := 0; i < la; i++ {
			s.Lookahead = append(s.Lookahead, covT())
		}
		st = s
	case 61:
		// glyph rules: one rule per choice "B everywhere" (the ignored glyph cannot be listed twice
		// in a glyph rule in a useful way: list it in the rule nearest to the input)
		r1 := &gtab.ChainedSeqRule{Backtrack: rep(bl, ssB), Lookahead: rep(la, ssB), Actions: acts}
		rules := []*gtab.ChainedSeqRule{r1}
		if withIgnored {
			b2 := rep(bl, ssB)
			b2[bl-1] = ssM // the farthest backtrack glyph is the ignored one
			l2 := rep(la, ssB)
			if la > 0 {
				l2[la-1] = ssM
			}
			rules = append(rules, &gtab.ChainedSeqRule{Backtrack: b2, Lookahead: l2, Actions: acts},
				&gtab.ChainedSeqRule{Backtrack: rep(bl, ssM), Lookahead: rep(la, ssM), Actions: acts})
		}
		st = &gtab.ChainedSeqContext1{Cov: coverage.Table{ssA: 0}, Rules: [][]*gtab.ChainedSeqRule{rules}}
	case 62:
		cl := func(n int) []uint16 {
			l := make([]uint16, n)
			for i := range l {
				l[i] = 2
			}
			return l
		}
		st = &gtab.ChainedSeqContext2{Cov: coverage.Table{ssA: 0}, Backtrack: cd, Input: cd, Lookahead: cd,
			Rules: [][]*gtab.ChainedClassSeqRule{{}, {{Backtrack: cl(bl), Lookahead: cl(la), Actions: acts}}}}
	default:
		s := &gtab.ChainedSeqContext3{Input: []coverage.Set{{ssA: true}}, Actions: acts}
		for i := 0; i < bl; i++ {
			s.Backtrack = append(s.Backtrack, covS())
		}
		for i := 0; i < la; i++ {
			s.Lookahead = append(s.Lookahead, covS())
		}
		st = s
	}
	ll := gtab.LookupList{
		ssLookup(tp, gtab.IgnoreMarks, 0, st),
		ssLookup(1, 0, 0, &gtab.Gsub1_2{Cov: coverage.Table{ssA: 0}, SubstituteGlyphIDs: []glyph.ID{ssC}}),
	}
	c := &shpCase{ll: ll, gd: ssGdef(), lookups: []gtab.LookupIndex{0}}
	pre := ssWords([]glyph.ID{ssM, ssB}, bl+1)
	if bl == 3 {
		pre = ssWords([]glyph.ID{ssM, ssB}, 3)
		pre = append(pre, []glyph.ID{ssM, ssB, ssB, ssB}, []glyph.ID{ssM, ssM, ssB, ssB}, []glyph.ID{ssB, ssM, ssM, ssB},
			[]glyph.ID{ssM, ssB, ssM, ssB, ssM, ssB})
	}
	suf := ssWords([]glyph.ID{ssM, ssB}, la+1)
	for _, p := range pre {
		for _, q := range suf {
			seq := append(append(append([]glyph.ID{}, p...), ssA), q...)
			c.hist = append(c.hist, ssText(seq))
		}
	}
	return c, fmt.Sprintf("type %d, backtrack %d, lookahead %d, ignored glyph in coverage=%v", kind, bl, la, withIgnored)
}

// ---------------------------------------------------------------- family: nested lookup out of reach
//
// Every contextual format as parent (input "A" or "A A", action at the last input glyph) and a
// nested lookup that would need a glyph just OUTSIDE the parent's match: the second glyph of a
// pair (formats 1 and 2), a ligature component, the input of a nested context (testcases 2_07:
// "child matches cannot extend beyond the parent match").  For comparison: nested lookups whose
// CONTEXT lies outside (lookahead of a chained context, lookahead of GSUB 8.1, the base glyph of a
// mark attachment) do reach it.
const ssReachKinds = 8
const ssReachCount = 6 * 2 * ssReachKinds * 2

func ssReachCase(idx int) (*shpCase, string) {
	pf := []int{51, 52, 53, 61, 62, 63}[idx%6]
	idx /= 6
	ignore := idx%2 == 1
	idx /= 2
	kind := idx % ssReachKinds
	idx /= ssReachKinds
	long := idx%2 == 1
	const V = glyph.ID(ssD)
	fl := gtab.LookupFlags(0)
	if ignore {
		fl = gtab.IgnoreMarks
	}
	vr := func(x int) *gtab.GposValueRecord { return &gtab.GposValueRecord{XAdvance: funit.Int16(x)} }
	var child gtab.Subtable
	ctp := uint16(2)
	name := ""
	switch kind {
	case 0:
		name = "pair format 1"
		child = gtab.Gpos2_1{glyph.Pair{Left: ssA, Right: V}: &gtab.PairAdjust{First: vr(-50)},
			glyph.Pair{Left: ssA, Right: ssA}: &gtab.PairAdjust{First: vr(-7), Second: vr(9)}}
	case 1:
		name = "pair format 2"
		child = &gtab.Gpos2_2{Cov: coverage.Set{ssA: true}, Class1: classdef.Table{ssA: 1}, Class2: classdef.Table{V: 1},
			Adjust: [][]*gtab.PairAdjust{{{}, {}}, {{First: vr(-3)}, {First: vr(-50), Second: vr(20)}}}}
	case 2:
		name = "ligature"
		ctp = 4
		child = &gtab.Gsub4_1{Cov: coverage.Table{ssA: 0}, Repl: [][]gtab.Ligature{{{In: []glyph.ID{V}, Out: ssL}, {In: []glyph.ID{ssA, V}, Out: ssL2}}}}
	case 3:
		name = "nested context input"
		ctp = 5
		child = &gtab.SeqContext1{Cov: coverage.Table{ssA: 0}, Rules: [][]*gtab.SeqRule{{{Input: []glyph.ID{V},
			Actions: []gtab.SeqLookup{{SequenceIndex: 0, LookupListIndex: 2}}}}}}
	case 4:
		name = "nested context 3 input"
		ctp = 5
		child = &gtab.SeqContext3{Input: []coverage.Set{{ssA: true}, {V: true, ssA: true}},
			Actions: []gtab.SeqLookup{{SequenceIndex: 1, LookupListIndex: 2}}}
	case 5:
		name = "nested chained lookahead (in reach)"
		ctp = 6
		child = &gtab.ChainedSeqContext1{Cov: coverage.Table{ssA: 0}, Rules: [][]*gtab.ChainedSeqRule{{{Lookahead: []glyph.ID{V},
			Actions: []gtab.SeqLookup{{SequenceIndex: 0, LookupListIndex: 2}}}}}}
	case 6:
		name = "nested reverse chaining lookahead (in reach)"
		ctp = 8
		child = &gtab.Gsub8_1{Input: coverage.Table{ssA: 0}, Lookahead: []coverage.Table{{V: 0}}, SubstituteGlyphIDs: []glyph.ID{ssB}}
	default:
		name = "nested pair, second glyph skipped glyphs away"
		child = gtab.Gpos2_1{glyph.Pair{Left: ssA, Right: V}: &gtab.PairAdjust{First: vr(-50), Second: vr(5)},
			glyph.Pair{Left: ssA, Right: ssM}: &gtab.PairAdjust{First: vr(-11)}}
	}
	cfl := fl
	if kind == 7 {
		cfl = 0 // the child sees the marks the parent ignores
	}
	mk := func(input []glyph.ID) gtab.Subtable {
		acts := []gtab.SeqLookup{{SequenceIndex: uint16(len(input) - 1), LookupListIndex: 1}}
		rest := input[1:]
		cd := classdef.Table{ssA: 1, V: 2}
		cls := make([]uint16, len(rest))
		sets := make([]coverage.Set, len(input))
		for i := range rest {
			cls[i] = 1
		}
		for i := range input {
			sets[i] = coverage.Set{ssA: true}
		}
		switch pf {
		case 51:
			return &gtab.SeqContext1{Cov: coverage.Table{ssA: 0}, Rules: [][]*gtab.SeqRule{{{Input: rest, Actions: acts}}}}
		case 52:
			return &gtab.SeqContext2{Cov: coverage.Table{ssA: 0}, Input: cd, Rules: [][]*gtab.ClassSeqRule{{}, {{Input: cls, Actions: acts}}}}
		case 53:
			return &gtab.SeqContext3{Input: sets, Actions: acts}
		case 61:
			return &gtab.ChainedSeqContext1{Cov: coverage.Table{ssA: 0}, Rules: [][]*gtab.ChainedSeqRule{{{Input: rest, Lookahead: []glyph.ID{V}, Actions: acts}}}}
		case 62:
			return &gtab.ChainedSeqContext2{Cov: coverage.Table{ssA: 0}, Backtrack: cd, Input: cd, Lookahead: cd,
				Rules: [][]*gtab.ChainedClassSeqRule{{}, {{Input: cls, Lookahead: []uint16{2}, Actions: acts}}}}
		}
		return &gtab.ChainedSeqContext3{Input: sets, Lookahead: []coverage.Set{{V: true}}, Actions: acts}
	}
	ptp := uint16(7)
	if pf > 60 {
		ptp = 8
	}
	c := &shpCase{gd: ssGdef(), lookups: []gtab.LookupIndex{0}}
	input := []glyph.ID{ssA}
	if long {
		input = []glyph.ID{ssA, ssA}
	}
	c.ll = gtab.LookupList{
		ssLookup(ptp, fl, 0, mk(input)),
		ssLookup(ctp, cfl, 0, child),
		ssLookup(1, 0, 0, &gtab.Gsub1_2{Cov: coverage.Table{ssA: 0, V: 1}, SubstituteGlyphIDs: []glyph.ID{ssC, ssB}}),
	}
	var seqs [][]glyph.ID
	for _, head := range [][]glyph.ID{{}, {ssB}, {ssM}} {
		for _, mid := range [][]glyph.ID{{}, {ssM}, {ssM, ssM2}} {
			for _, tail := range [][]glyph.ID{{V}, {V, ssA, V}, {ssA, V}, {}, {V, V}} {
				seq := append([]glyph.ID{}, head...)
				seq = append(seq, input...)
				seq = append(seq, mid...)
				seq = append(seq, tail...)
				seqs = append(seqs, seq)
			}
		}
	}
	for _, seq := range seqs {
		s := ssText(seq)
		for i := range s {
			if s[i].GID != ssM && s[i].GID != ssM2 {
				s[i].Advance = 500
			}
		}
		c.hist = append(c.hist, s)
	}
	return c, fmt.Sprintf("parent %d, ignore marks=%v, nested %s, parent input %d", pf, ignore, name, len(input))
}

// ---------------------------------------------------------------- family: anchors on an axis
//
// Mark-to-base and mark-to-mark with every combination of base (mark2) anchor and mark anchor from
// (0,0) [= no anchor], (0,y), (x,0), (x,y), (+-1, -+1): one line per combination, sequences
// "A m", "A m m2", "B A m m2".
var ssAxisAnchors = []anchor.Table{{}, {X: 0, Y: 120}, {X: 350, Y: 0}, {X: 350, Y: 120}, {X: -1, Y: 1}, {X: 0, Y: -1}}

const ssAxisCount = 6 * 6 * 2

func ssAxisCase(idx int) (*shpCase, string) {
	ba := ssAxisAnchors[idx%6]
	idx /= 6
	ma := ssAxisAnchors[idx%6]
	idx /= 6
	mkmk := idx%2 == 1
	var st gtab.Subtable
	tp := uint16(4)
	if mkmk {
		tp = 6
		st = &gtab.Gpos6_1{Mark1Cov: coverage.Table{ssM2: 0}, Mark2Cov: coverage.Table{ssM: 0},
			Mark1Array: []markarray.Record{{Class: 0, Table: ma}}, Mark2Array: [][]anchor.Table{{ba}}}
	} else {
		st = &gtab.Gpos4_1{MarkCov: coverage.Table{ssM: 0, ssM2: 1}, BaseCov: coverage.Table{ssA: 0},
			MarkArray: []markarray.Record{{Class: 0, Table: ma}, {Class: 1, Table: ma}}, BaseArray: [][]anchor.Table{{ba, ba}}}
	}
	c := &shpCase{ll: gtab.LookupList{ssLookup(tp, 0, 0, st)}, gd: ssGdef(), lookups: []gtab.LookupIndex{0}}
	for _, gids := range [][]glyph.ID{{ssA, ssM}, {ssA, ssM, ssM2}, {ssB, ssA, ssM, ssM2}} {
		s := ssText(gids)
		for i := range s {
			if s[i].GID == ssA || s[i].GID == ssB {
				s[i].Advance = 650
			}
		}
		c.hist = append(c.hist, s)
	}
	return c, fmt.Sprintf("mark-to-mark=%v base anchor (%d,%d) mark anchor (%d,%d)", mkmk, ba.X, ba.Y, ma.X, ma.Y)
}

// ---------------------------------------------------------------- family: every GDEF class under every flag subset
//
// A glyph X of GDEF class 0, 1, 2, 3, 4 (component), 5, 255 under each of the eight subsets of the
// ignore bits: X between the components of a ligature ("A X B": skipped X lets "A B" match), X as
// the target of a single substitution, X as the second glyph of a pair.
var ssClassValues = []uint16{0, 1, 2, 3, 4, 5, 255}

const ssClassCount = 7 * 8

func ssClassCase(idx int) (*shpCase, string) {
	cls := ssClassValues[idx%7]
	idx /= 7
	fl := gtab.LookupFlags(idx%8) << 1
	const X = glyph.ID(ssU + 4)
	gd := ssGdef()
	if cls != 0 {
		gd.GlyphClass[X] = cls
	}
	ll := gtab.LookupList{
		ssLookup(4, fl, 0, &gtab.Gsub4_1{Cov: coverage.Table{ssA: 0}, Repl: [][]gtab.Ligature{{{In: []glyph.ID{ssB}, Out: ssL}, {In: []glyph.ID{X, ssB}, Out: ssL2}}}}),
		ssLookup(1, fl, 0, &gtab.Gsub1_2{Cov: coverage.Table{ssB: 0, X: 1}, SubstituteGlyphIDs: []glyph.ID{ssC, ssD}}),
		ssLookup(2, fl, 0, gtab.Gpos2_1{glyph.Pair{Left: ssA, Right: ssB}: &gtab.PairAdjust{First: &gtab.GposValueRecord{XAdvance: -20}},
			glyph.Pair{Left: ssA, Right: X}: &gtab.PairAdjust{First: &gtab.GposValueRecord{XAdvance: -30}}}),
	}
	c := &shpCase{ll: ll, gd: gd, lookups: []gtab.LookupIndex{0, 1, 2}}
	for _, gids := range [][]glyph.ID{{ssA, X, ssB}, {X}, {ssA, X, X, ssB, X}, {X, ssA, ssB}, {ssA, X, ssA, ssB}} {
		c.hist = append(c.hist, ssText(gids))
	}
	return c, fmt.Sprintf("GDEF class %d, ignore bits %#x", cls, int(fl))
}

// ---------------------------------------------------------------- family: length change inside, ignored glyphs behind
//
// Every contextual format under IgnoreMarks, input "A" or "A A", optional lookahead B (chained
// formats), k = 0..3 ignored glyphs directly behind the matched input, and a nested lookup (flags 0)
// at the last input glyph that shortens ("A m" -> A, "A m m" -> A) or lengthens (A -> A A, A -> A m A)
// the sequence so that the context would match the result AGAIN: the scan must resume behind the
// (moved) end of the finished match.
const ssResumeCount = 6 * 4 * 4 * 2 * 2

func ssMkParent(pf int, fl gtab.LookupFlags, n int, la bool, acts []gtab.SeqLookup) *gtab.LookupTable {
	rest := make([]glyph.ID, n-1)
	cls := make([]uint16, n-1)
	sets := make([]coverage.Set, n)
	for i := range rest {
		rest[i], cls[i] = ssA, 1
	}
	for i := range sets {
		sets[i] = coverage.Set{ssA: true}
	}
	cd := classdef.Table{ssA: 1, ssB: 2}
	var lag []glyph.ID
	var lac []uint16
	var las []coverage.Set
	if la {
		lag, lac, las = []glyph.ID{ssB}, []uint16{2}, []coverage.Set{{ssB: true}}
	}
	switch pf {
	case 51:
		return ssLookup(5, fl, 0, &gtab.SeqContext1{Cov: coverage.Table{ssA: 0}, Rules: [][]*gtab.SeqRule{{{Input: rest, Actions: acts}}}})
	case 52:
		return ssLookup(5, fl, 0, &gtab.SeqContext2{Cov: coverage.Table{ssA: 0}, Input: cd, Rules: [][]*gtab.ClassSeqRule{{}, {{Input: cls, Actions: acts}}}})
	case 53:
		return ssLookup(5, fl, 0, &gtab.SeqContext3{Input: sets, Actions: acts})
	case 61:
		return ssLookup(6, fl, 0, &gtab.ChainedSeqContext1{Cov: coverage.Table{ssA: 0}, Rules: [][]*gtab.ChainedSeqRule{{{Input: rest, Lookahead: lag, Actions: acts}}}})
	case 62:
		return ssLookup(6, fl, 0, &gtab.ChainedSeqContext2{Cov: coverage.Table{ssA: 0}, Backtrack: cd, Input: cd, Lookahead: cd,
			Rules: [][]*gtab.ChainedClassSeqRule{{}, {{Input: cls, Lookahead: lac, Actions: acts}}}})
	}
	return ssLookup(6, fl, 0, &gtab.ChainedSeqContext3{Input: sets, Lookahead: las, Actions: acts})
}

func ssResumeCase(idx int) (*shpCase, string) {
	pf := []int{51, 52, 53, 61, 62, 63}[idx%6]
	idx /= 6
	k := idx % 4
	idx /= 4
	kind := idx % 4
	idx /= 4
	n := 1 + idx%2
	idx /= 2
	la := idx%2 == 1
	acts := []gtab.SeqLookup{{SequenceIndex: uint16(n - 1), LookupListIndex: gtab.LookupIndex(1 + kind)}}
	ll := gtab.LookupList{
		ssMkParent(pf, gtab.IgnoreMarks, n, la, acts),
		ssLookup(4, 0, 0, &gtab.Gsub4_1{Cov: coverage.Table{ssA: 0}, Repl: [][]gtab.Ligature{{{In: []glyph.ID{ssM}, Out: ssA}}}}),
		ssLookup(4, 0, 0, &gtab.Gsub4_1{Cov: coverage.Table{ssA: 0}, Repl: [][]gtab.Ligature{{{In: []glyph.ID{ssM, ssM}, Out: ssA}, {In: []glyph.ID{ssM}, Out: ssA}}}}),
		ssLookup(2, 0, 0, &gtab.Gsub2_1{Cov: coverage.Table{ssA: 0}, Repl: [][]glyph.ID{{ssA, ssA}}}),
		ssLookup(2, 0, 0, &gtab.Gsub2_1{Cov: coverage.Table{ssA: 0}, Repl: [][]glyph.ID{{ssA, ssM, ssA}}}),
	}
	unit := []glyph.ID{}
	for i := 0; i < n; i++ {
		unit = append(unit, ssA)
	}
	for i := 0; i < k; i++ {
		unit = append(unit, ssM)
	}
	c := &shpCase{ll: ll, gd: ssGdef(), lookups: []gtab.LookupIndex{0}}
	cat := func(parts ...[]glyph.ID) []glyph.ID {
		var out []glyph.ID
		for _, p := range parts {
			out = append(out, p...)
		}
		return out
	}
	b := []glyph.ID{ssB}
	for _, gids := range [][]glyph.ID{unit, cat(unit, b), cat(unit, unit), cat(unit, b, unit, b), cat(b, unit, unit, b), cat([]glyph.ID{ssM}, unit, []glyph.ID{ssA})} {
		c.hist = append(c.hist, ssText(gids))
	}
	return c, fmt.Sprintf("parent %d, %d ignored behind, nested kind %d, input %d, lookahead=%v", pf, k, kind, n, la)
}

// ---------------------------------------------------------------- family: the budget of nested lookups
//
// A context (format 3) with n actions, each running a contextual child lookup that has 0, 1 or 2
// actions of its own (single substitution B -> C -> D ...): only nested lookups count against the
// budget of 64, finished frames do not.
var ssBudgetN = []int{20, 21, 22, 25, 31, 32, 33, 63, 64, 65}

const ssBudgetCount = 10 * 3 * 3

func ssBudgetCase(idx int) (*shpCase, string) {
	n := ssBudgetN[idx%10]
	idx /= 10
	childActs := idx % 3
	idx /= 3
	cf := []int{53, 51, 63}[idx%3]
	acts := make([]gtab.SeqLookup, n)
	for i := range acts {
		acts[i] = gtab.SeqLookup{SequenceIndex: uint16(i % 2), LookupListIndex: 1}
	}
	var cacts []gtab.SeqLookup
	for i := 0; i < childActs; i++ {
		cacts = append(cacts, gtab.SeqLookup{SequenceIndex: 0, LookupListIndex: 2})
	}
	all := coverage.Set{}
	cov := coverage.Table{}
	for x := 20; x < 120; x++ {
		all[glyph.ID(x)] = true
		cov[glyph.ID(x)] = x - 20
	}
	var child gtab.Subtable
	switch cf {
	case 53:
		child = &gtab.SeqContext3{Input: []coverage.Set{all}, Actions: cacts}
	case 51:
		rules := make([][]*gtab.SeqRule, 100)
		for i := range rules {
			rules[i] = []*gtab.SeqRule{{Actions: cacts}}
		}
		child = &gtab.SeqContext1{Cov: cov, Rules: rules}
	default:
		child = &gtab.ChainedSeqContext3{Input: []coverage.Set{all}, Actions: cacts}
	}
	ll := gtab.LookupList{
		ssLookup(5, 0, 0, &gtab.SeqContext3{Input: []coverage.Set{all, all}, Actions: acts}),
		ssLookup(5, 0, 0, child),
		// every application moves the glyph one step: the result counts the nested lookups that ran
		ssLookup(1, 0, 0, &gtab.Gsub1_1{Cov: all, Delta: 1}),
	}
	c := &shpCase{ll: ll, gd: ssGdef(), lookups: []gtab.LookupIndex{0}}
	c.hist = [][]glyph.Info{ssText([]glyph.ID{20, 20}), ssText([]glyph.ID{20, 20, 20, 20, 20})}
	return c, fmt.Sprintf("%d actions, child format %d with %d actions", n, cf, childActs)
}

// ---------------------------------------------------------------- family: mark attachment classes beyond a byte
//
// GDEF mark attachment class of the mark m from {0, 1, 2, 255, 256, 257, 511, 65535}, lookups with
// MarkAttachmentType 1, 2, 255 (no IgnoreMarks, no filtering set), m between the glyphs of a
// ligature, of a pair and of a context: m is skipped iff its class differs from the type.
var ssAttachClasses = []uint16{0, 1, 2, 255, 256, 257, 511, 65535}

const ssAttachCount = 8 * 3

func ssAttachCase(idx int) (*shpCase, string) {
	cls := ssAttachClasses[idx%8]
	idx /= 8
	typ := []int{1, 2, 255}[idx%3]
	fl := gtab.LookupFlags(typ << 8)
	gd := ssGdef()
	if cls == 0 {
		delete(gd.MarkAttachClass, ssM)
	} else {
		gd.MarkAttachClass[ssM] = cls
	}
	ll := gtab.LookupList{
		ssLookup(4, fl, 0, &gtab.Gsub4_1{Cov: coverage.Table{ssA: 0}, Repl: [][]gtab.Ligature{{{In: []glyph.ID{ssB}, Out: ssL}, {In: []glyph.ID{ssM, ssB}, Out: ssL2}}}}),
		ssLookup(2, fl, 0, gtab.Gpos2_1{glyph.Pair{Left: ssA, Right: ssB}: &gtab.PairAdjust{First: &gtab.GposValueRecord{XAdvance: -20}},
			glyph.Pair{Left: ssA, Right: ssM}: &gtab.PairAdjust{First: &gtab.GposValueRecord{XAdvance: -30}}}),
		ssLookup(5, fl, 0, &gtab.SeqContext1{Cov: coverage.Table{ssA: 0}, Rules: [][]*gtab.SeqRule{{{Input: []glyph.ID{ssB},
			Actions: []gtab.SeqLookup{{SequenceIndex: 1, LookupListIndex: 3}}}}}}),
		ssLookup(1, 0, 0, &gtab.Gsub1_2{Cov: coverage.Table{ssB: 0, ssM: 1}, SubstituteGlyphIDs: []glyph.ID{ssC, ssD}}),
		ssLookup(1, fl, 0, &gtab.Gsub1_2{Cov: coverage.Table{ssM: 0}, SubstituteGlyphIDs: []glyph.ID{ssM3}}),
	}
	var hist [][]glyph.Info
	for _, gids := range [][]glyph.ID{{ssA, ssM, ssB}, {ssA, ssM, ssM, ssB, ssM}, {ssM}, {ssA, ssM2, ssM, ssB}} {
		hist = append(hist, ssText(gids))
	}
	// one line per lookup keeps the replays short; the family member is the ligature line, the
	// others follow through `more`
	c := &shpCase{ll: ll, gd: gd, lookups: []gtab.LookupIndex{0, 1, 2, 4}, hist: hist}
	return c, fmt.Sprintf("mark attachment class %d, lookup type %d", cls, typ)
}

// ---------------------------------------------------------------- family: class 0 in class-based contexts
//
// Class-based contexts (format 2, plain and chained) whose rules list CLASS 0 in the backtrack,
// input (beyond the first glyph) and lookahead sequences: "class 0 … includes all glyphs not
// assigned to another class", i.e. glyphs absent from the class definition (C) as well as glyphs
// explicitly mapped to 0 (D); B has class 2.
var ssClassZeroRules = [][3][]uint16{
	{{0}, {}, {}}, {{}, {0}, {}}, {{}, {}, {0}}, {{0}, {0}, {}}, {{0}, {}, {0}}, {{}, {0}, {0}}, {{0}, {0}, {0}},
	{{2}, {0}, {0, 2}}, {{0, 0}, {}, {2, 0}}, {{}, {0, 0}, {}}, {{}, {2, 0}, {}},
}

const ssClassZeroCount = 11 * 2

func ssClassZeroCase(idx int) (*shpCase, string) {
	rule := ssClassZeroRules[idx%11]
	idx /= 11
	chained := idx%2 == 1
	cd := classdef.Table{ssA: 1, ssB: 2, ssD: 0}
	acts := []gtab.SeqLookup{{SequenceIndex: 0, LookupListIndex: 1}}
	back, input, look := rule[0], rule[1], rule[2]
	var st gtab.Subtable
	tp := uint16(5)
	if chained {
		tp = 6
		st = &gtab.ChainedSeqContext2{Cov: coverage.Table{ssA: 0}, Backtrack: cd, Input: cd, Lookahead: cd,
			Rules: [][]*gtab.ChainedClassSeqRule{{}, {{Backtrack: back, Input: input, Lookahead: look, Actions: acts}}}}
	} else {
		back, look = nil, nil
		st = &gtab.SeqContext2{Cov: coverage.Table{ssA: 0}, Input: cd, Rules: [][]*gtab.ClassSeqRule{{}, {{Input: input, Actions: acts}}}}
	}
	ll := gtab.LookupList{
		ssLookup(tp, 0, 0, st),
		ssLookup(1, 0, 0, &gtab.Gsub1_2{Cov: coverage.Table{ssA: 0}, SubstituteGlyphIDs: []glyph.ID{ssL}}),
	}
	c := &shpCase{ll: ll, gd: ssGdef(), lookups: []gtab.LookupIndex{0}}
	alpha := []glyph.ID{ssB, ssC, ssD}
	for _, pre := range ssWordsLen(alpha, len(back)) {
		for _, mid := range ssWordsLen(alpha, len(input)) {
			for _, suf := range ssWordsLen(alpha, len(look)) {
				seq := append(append(append(append([]glyph.ID{}, pre...), ssA), mid...), suf...)
				c.hist = append(c.hist, ssText(seq))
			}
		}
	}
	return c, fmt.Sprintf("chained=%v backtrack %v input %v lookahead %v", chained, back, input, look)
}

func ssWordsLen(alpha []glyph.ID, n int) [][]glyph.ID {
	var out [][]glyph.ID
	for _, w := range ssWords(alpha, n) {
		if len(w) == n {
			out = append(out, w)
		}
	}
	return out
}

// positioning: value records, pairs (both formats), mark-to-base, mark-to-mark on
// base + marks clusters with advances.
func (g *ssGen) positioning() *shpCase {
	r := g.r
	vr := func() *gtab.GposValueRecord {
		return &gtab.GposValueRecord{XPlacement: funit.Int16(r.Range(-50, 50)), YPlacement: funit.Int16(r.Range(-50, 50)), XAdvance: funit.Int16(r.Range(-80, 80))}
	}
	// every coordinate independently from {0, 0, +-1, small, large}: anchors on an axis are anchors;
	// only (0, 0) is "no anchor" (the library stores a NULL anchor offset as the zero value, and the
	// reference keeps that convention)
	co := func() funit.Int16 {
		switch r.Intn(7) {
		case 0, 1:
			return 0
		case 2:
			return funit.Int16(Pick(r, []int{1, -1}))
		case 3:
			return funit.Int16(Pick(r, []int{3000, -3000, 12000}))
		}
		return funit.Int16(r.Range(-300, 800))
	}
	an := func() anchor.Table {
		a := anchor.Table{X: co(), Y: co()}
		g.c.Stat("anchor coordinates (x zero, y zero)", fmt.Sprintf("%v,%v", a.X == 0, a.Y == 0))
		return a
	}
	mkbase := &gtab.Gpos4_1{MarkCov: coverage.Table{ssM: 0, ssM2: 1, ssM3: 2}, BaseCov: coverage.Table{ssA: 0, ssB: 1, ssL: 2},
		MarkArray: []markarray.Record{{Class: 0, Table: an()}, {Class: 1, Table: an()}, {Class: 0, Table: an()}},
		BaseArray: [][]anchor.Table{{an(), an()}, {an(), {}}, {an(), an()}}}
	mkmk := &gtab.Gpos6_1{Mark1Cov: coverage.Table{ssM: 0, ssM2: 1, ssM3: 2}, Mark2Cov: coverage.Table{ssM: 0, ssM2: 1},
		Mark1Array: []markarray.Record{{Class: 0, Table: an()}, {Class: 1, Table: an()}, {Class: 0, Table: an()}},
		Mark2Array: [][]anchor.Table{{an(), an()}, {an(), an()}}}
	ll := gtab.LookupList{
		ssLookup(1, 0, 0, &gtab.Gpos1_1{Cov: coverage.Table{ssA: 0, ssM: 1}, Adjust: vr()}),
		ssLookup(2, gtab.LookupFlags(Pick(r, []int{0, 8})), 0, gtab.Gpos2_1{
			glyph.Pair{Left: ssA, Right: ssB}: &gtab.PairAdjust{First: vr()},
			glyph.Pair{Left: ssB, Right: ssA}: &gtab.PairAdjust{First: vr(), Second: vr()},
			glyph.Pair{Left: ssA, Right: ssA}: &gtab.PairAdjust{Second: vr()}}),
		ssLookup(2, gtab.LookupFlags(Pick(r, []int{0, 8})), 0, &gtab.Gpos2_2{Cov: coverage.Set{ssA: true, ssB: true, ssC: true},
			Class1: classdef.Table{ssB: 1}, Class2: classdef.Table{ssA: 1, ssC: 1},
			Adjust: [][]*gtab.PairAdjust{{{First: vr()}, {First: vr(), Second: vr()}}, {{}, {Second: vr()}}}}),
		ssLookup(4, 0, 0, mkbase),
		ssLookup(6, gtab.LookupFlags(Pick(r, []int{0, 0x100, 0x200})), 0, mkmk),
		ssLookup(1, 0, 0, &gtab.Gpos1_2{Cov: coverage.Table{ssB: 0, ssM2: 1}, Adjust: []*gtab.GposValueRecord{vr(), vr()}}),
	}
	c := &shpCase{ll: ll, gd: ssGdef()}
	switch r.Intn(4) {
	case 0:
		c.lookups = []gtab.LookupIndex{3, 4}
		g.c.Stat("obligation: positioning", "mark-to-base then mark-to-mark")
	case 1:
		c.lookups = []gtab.LookupIndex{gtab.LookupIndex(r.Intn(6))}
		g.c.Stat("obligation: positioning", "single lookup "+strconv.Itoa(int(c.lookups[0])))
	case 2:
		c.lookups = []gtab.LookupIndex{0, 1, 2, 5}
		g.c.Stat("obligation: positioning", "value records and pairs")
	default:
		for i := 0; i < 6; i++ {
			if r.Bool() {
				c.lookups = append(c.lookups, gtab.LookupIndex(i))
			}
		}
		g.c.Stat("obligation: positioning", "random subset in order")
	}
	var seq []glyph.Info
	next := rune(97)
	for i, n := 0, r.Range(1, 4); i < n; i++ {
		b := glyph.Info{GID: glyph.ID(Pick(r, []int{ssA, ssB, ssC, ssL})), Text: []rune{next}, Advance: funit.Int16(r.Range(300, 700))}
		next++
		seq = append(seq, b)
		for j, m := 0, Pick(r, []int{0, 0, 1, 2, 3}); j < m; j++ {
			mk := glyph.Info{GID: glyph.ID(Pick(r, []int{ssM, ssM2, ssM3})), Text: []rune{next}}
			next++
			if r.Chance(1, 8) {
				mk.Advance = funit.Int16(r.Range(1, 40))
			}
			seq = append(seq, mk)
		}
	}
	if r.Chance(1, 10) && len(seq) > 0 {
		seq[r.Intn(len(seq))].XOffset = funit.Int16(r.Range(-40, 40))
	}
	c.hist = [][]glyph.Info{seq}
	return c
}

// the repository's own GSUB test cases (testcases sections 1-5)
var ssFontGen *testcases.FontGen
var ssFontGenErr error

func (g *ssGen) repoCases(emit func(*shpCase, string)) {
	if ssFontGen == nil && ssFontGenErr == nil {
		ssFontGen, ssFontGenErr = testcases.NewFontGen()
	}
	if ssFontGenErr != nil {
		g.c.Stat("repository test cases", "font generator failed: "+ssFontGenErr.Error())
		return
	}
	for i, t := range testcases.Gsub {
		info, err := ssFontGen.GsubTestFont(i)
		if err != nil {
			g.c.Stat("repository test cases", "font failed")
			continue
		}
		seq := make([]glyph.Info, 0, len(t.In))
		for _, r := range t.In {
			seq = append(seq, glyph.Info{GID: ssFontGen.CMap.Lookup(r), Text: []rune{r}})
		}
		c := &shpCase{ll: info.Gsub.LookupList, gd: info.Gdef, lookups: info.Gsub.FindLookups(language.AmericanEnglish, nil), hist: [][]glyph.Info{seq}}
		g.c.Stat("repository test cases", "section "+t.Name[:1])
		emit(c, "repository test case")
	}
}

// ssDropBadIndices keeps the case inside the well-formed region: lookup indices in range.
func ssDropBadIndices(c *shpCase) {
	var l []gtab.LookupIndex
	for _, i := range c.lookups {
		if int(i) < len(c.ll) {
			l = append(l, i)
		}
	}
	c.lookups = l
}

func ssAlphabet(c *shpCase, r *Rng, n int) []int {
	// glyphs the tables mention first, then the standard alphabet
	pool := []int{ssA, ssB, ssM, ssC, ssD, ssM2, ssL}
	seen := map[int]bool{}
	var out []int
	for len(out) < n {
		x := Pick(r, pool)
		if !seen[x] {
			seen[x] = true
			out = append(out, x)
		}
	}
	return out
}

func areaShapeSpec(c *Ctx) {
	g := &ssGen{&shpGen{r: c.Rng, c: c}}
	r := c.Rng
	emit := func(sc *shpCase, origin string) {
		line, ok := shpEncode(sc)
		if !ok {
			c.Stat("skipped", "not representable ("+origin+")")
			return
		}
		nontrivial := shpLen(sc) > 0
		out := c.Case(Direct, "shapespec.apply", line, nontrivial)
		c.Case(Diagnostic, "shapespec.region", line, nontrivial)
		c.Stat("origin", origin)
		c.Stat("lookups applied", bucket(len(sc.lookups)))
		for _, s := range sc.hist {
			c.Stat("sequence length", bucket(len(s)))
		}
		for i, part := range strings.Split(out, "|") {
			switch {
			case part == "panic" || part == "timeout" || part == "skipped":
				c.Stat("outcome", part)
			case i < len(sc.hist) && part != shpShowSeq(sc.hist[i]):
				c.Stat("outcome", "ok, sequence changed")
			default:
				c.Stat("outcome", "ok, sequence unchanged")
			}
		}
		for _, i := range sc.lookups {
			if int(i) < len(sc.ll) {
				c.Stat("lookup flags (ignore bits, filtering set)", fmt.Sprintf("%#04x", int(sc.ll[i].Meta.LookupFlags)&0x1e))
				for _, s := range sc.ll[i].Subtables {
					c.Stat("subtable type applied at top level", fmt.Sprintf("%T", s))
				}
			}
		}
	}
	exhaust := func(sc *shpCase, origin string, nalpha, maxlen int) {
		sc2 := *sc
		sc2.hist = nil
		line, ok := shpEncode(&sc2)
		if !ok {
			return
		}
		alpha := ssAlphabet(sc, r, nalpha)
		args := fmt.Sprintf("%s alpha=%s maxlen=%d", line, ints(alpha), maxlen)
		c.Case(Direct, "shapespec.exhaust", args, true)
		c.Case(Diagnostic, "shapespec.exregion", args, true)
		c.Stat("exhaustive enumeration", fmt.Sprintf("%s: alphabet %d, length <= %d", origin, nalpha, maxlen))
	}

	g.repoCases(emit)
	// the whole family "trailing skipped glyphs consumed by a nested lookup" (area_shape.go), every run
	for i := 0; i < shpTrailingCount; i++ {
		sc, what := shpTrailingCase(i)
		c.Stat("obligation: trailing skipped glyphs (format)", what[:9])
		emit(sc, "trailing skipped family")
	}
	// the families "contextual nested in contextual" and "nested lookup with the parent's flags and
	// another mark filtering set" (area_shape.go), every run; one sequence per line
	for i := 0; i < shpNestedCtxCount; i++ {
		sc, what := shpNestedCtxCase(i)
		c.Stat("obligation: contextual nested in contextual (parent x child format)", what)
		emit(sc, "nested contextual family")
	}
	for i := 0; i < shpBetweenCount(); i++ {
		sc, what := shpBetweenCase(i)
		c.Stat("obligation: input positions between the components of a nested ligature", what[:9])
		emit(sc, "between-components family")
	}
	for i := 0; i < shpMarkSetCount; i++ {
		sc, what := shpMarkSetCase(i)
		c.Stat("obligation: nested lookup with the parent's flags and another filtering set", what[:9])
		emit(sc, "mark filtering set family")
	}
	// the families "ignored glyphs at the very start / end of the sequence" and "nested lookup that would
	// need a glyph just outside the parent's match", every run; many sequences per line
	for i := 0; i < ssEdgeCount; i++ {
		sc, what := ssEdgeCase(i)
		c.Stat("obligation: ignored glyphs at the edges", what)
		emit(sc, "edge family")
	}
	for i := 0; i < ssClassZeroCount; i++ {
		sc, what := ssClassZeroCase(i)
		c.Stat("obligation: class 0 in class-based contexts", what)
		emit(sc, "class zero family")
	}
	for i := 0; i < ssBudgetCount; i++ {
		sc, what := ssBudgetCase(i)
		c.Stat("obligation: budget of nested lookups", what)
		emit(sc, "budget family")
	}
	for i := 0; i < ssAttachCount; i++ {
		sc, what := ssAttachCase(i)
		c.Stat("obligation: mark attachment class x type", what)
		for _, lk := range [][]gtab.LookupIndex{{0}, {1}, {2}, {4}, {0, 1, 2, 4}} {
			sc2 := *sc
			sc2.lookups = lk
			emit(&sc2, "attachment class family")
		}
	}
	for i := 0; i < ssClassCount; i++ {
		sc, what := ssClassCase(i)
		c.Stat("obligation: GDEF class x ignore bits", what)
		emit(sc, "class family")
	}
	for i := 0; i < ssResumeCount; i++ {
		sc, what := ssResumeCase(i)
		c.Stat("obligation: length change with ignored glyphs behind the input", what[:9])
		emit(sc, "resume family")
	}
	for i := 0; i < ssAxisCount; i++ {
		sc, what := ssAxisCase(i)
		c.Stat("obligation: anchors on an axis", what)
		emit(sc, "axis anchor family")
	}
	for i := 0; i < ssReachCount; i++ {
		sc, what := ssReachCase(i)
		c.Stat("obligation: nested lookup out of reach", what)
		emit(sc, "reach family")
	}
	for c.evals < c.N && timeouts < maxTimeouts {
		g.wild = false
		g.gpos = false
		var sc *shpCase
		origin := ""
		switch x := r.Intn(20); {
		case x < 3:
			sc, origin = g.flagsByClass(), "flags x classes"
		case x < 5:
			sc, origin = g.ligatures(), "ligature candidates"
		case x < 8:
			sc, origin = g.nestedLenChange(), "nested length change"
		case x < 9:
			g.orderPerms(emit)
			continue
		case x < 10:
			sc, origin = g.reverse(), "reverse chaining"
		case x < 12:
			sc, origin = g.positioning(), "positioning"
		case x < 14:
			sc, origin = g.chained(), "chained context"
		case x < 15:
			sc, origin = g.deepNest(), "deep nesting"
		case x < 16:
			sc, origin = g.scenario(Pick(r, []int{0, 1, 4, 5})), "engine scenario"
		default:
			gd, gdNil := g.gdef()
			g.nsets = 0
			if gd != nil {
				g.nsets = len(gd.MarkGlyphSets)
			}
			kinds := shpGsubKinds
			if r.Chance(1, 3) {
				kinds = shpSimpleKinds
			} else if r.Chance(1, 4) {
				kinds = shpGposKinds
				g.gpos = true
			}
			sc = &shpCase{ll: g.lookupList(kinds), gd: gd, gdNil: gdNil}
			sc.lookups = g.lookupIndices()
			ssDropBadIndices(sc)
			sc.hist = [][]glyph.Info{g.sequence(Pick(r, []int{4, 8, 12, 12, 40}))}
			origin = "random tables"
		}
		emit(sc, origin)
		if c.Tier == "thorough" && r.Chance(1, 12) {
			exhaust(sc, origin, 4, 6)
		} else if c.Tier != "thorough" && r.Chance(1, 60) {
			exhaust(sc, origin, 3, 4)
		}
	}
}
