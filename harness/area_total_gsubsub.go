package main

// Area `total`, group `gsubsub` (property C02): verdict stream of the checked-index Lean model of
// gtab.readGsubSubtable and of the readers it dispatches to (readGsub1_1, 1_2, 2_1, 3_1, 4_1, 8_1).
//
// V lines `tmgsubsub.read bytes=<hex> pos=<n> type=<lookup type>` run the real reader (through
// gtab.VerifReadGsubSubtable) at position pos and print the outcome class (err:io | err:invalid |
// err:unsupported | panic; err:foreign when the (valid, type and format at most 9) dispatcher key belongs to the context / chained
// context / extension readers, which another group models) or "ok:" and the canonical subtable:
//   1.1;cov=<SET>;delta=<d>            SET   s-e    maximal runs of consecutive gids
//   1.2;cov=<COV>;subs=<g,g,…>         COV   s-e:i  maximal runs in which gid and coverage index
//   2.1;cov=<COV>;seqs=<SEQS>                       both step by one (i = index of s)
//   3.1;cov=<COV>;seqs=<SEQS>          SEQS  g.g.g|-|…
//   4.1;cov=<COV>;ligs=<LIGS>          LIGS  out<in.in,out<|-|…
//   8.1;in=<COV>;back=<COVS>;look=<COVS>;subs=<g,g,…>     COVS  <count>/<COV>/<COV>…
// The generator registers itself in totalModelGens["gsubsub"] and is called from areaTotal.

import (
	"fmt"
	"sort"
	"strconv"
	"strings"

	"seehuhn.de/go/sfnt/glyph"
	"seehuhn.de/go/sfnt/opentype/coverage"
	"seehuhn.de/go/sfnt/opentype/gtab"
)

// ---------------------------------------------------------------- canonical printer

func totalGsubsubShowCov(t coverage.Table) string {
	keys := make([]int, 0, len(t))
	for g := range t {
		keys = append(keys, int(g))
	}
	sort.Ints(keys)
	var sb strings.Builder
	for i := 0; i < len(keys); {
		j := i
		for j+1 < len(keys) && keys[j+1] == keys[j]+1 && t[glyph.ID(keys[j+1])] == t[glyph.ID(keys[j])]+1 {
			j++
		}
		if sb.Len() > 0 {
			sb.WriteByte(',')
		}
		sb.WriteString(strconv.Itoa(keys[i]))
		sb.WriteByte('-')
		sb.WriteString(strconv.Itoa(keys[j]))
		sb.WriteByte(':')
		sb.WriteString(strconv.Itoa(t[glyph.ID(keys[i])]))
		i = j + 1
	}
	return sb.String()
}

func totalGsubsubShowSet(s coverage.Set) string {
	keys := make([]int, 0, len(s))
	for g := range s {
		keys = append(keys, int(g))
	}
	sort.Ints(keys)
	var sb strings.Builder
	for i := 0; i < len(keys); {
		j := i
		for j+1 < len(keys) && keys[j+1] == keys[j]+1 {
			j++
		}
		if sb.Len() > 0 {
			sb.WriteByte(',')
		}
		sb.WriteString(strconv.Itoa(keys[i]))
		sb.WriteByte('-')
		sb.WriteString(strconv.Itoa(keys[j]))
		i = j + 1
	}
	return sb.String()
}

func totalGsubsubShowGids(gg []glyph.ID, sep string) string {
	var sb strings.Builder
	for i, g := range gg {
		if i > 0 {
			sb.WriteString(sep)
		}
		sb.WriteString(strconv.Itoa(int(g)))
	}
	return sb.String()
}

func totalGsubsubShowSeqs(ss [][]glyph.ID) string {
	parts := make([]string, len(ss))
	for i, s := range ss {
		if len(s) == 0 {
			parts[i] = "-"
		} else {
			parts[i] = totalGsubsubShowGids(s, ".")
		}
	}
	return strings.Join(parts, "|")
}

func totalGsubsubShowLigs(sets [][]gtab.Ligature) string {
	parts := make([]string, len(sets))
	for i, set := range sets {
		if len(set) == 0 {
			parts[i] = "-"
			continue
		}
		ll := make([]string, len(set))
		for j, l := range set {
			ll[j] = strconv.Itoa(int(l.Out)) + "<" + totalGsubsubShowGids(l.In, ".")
		}
		parts[i] = strings.Join(ll, ",")
	}
	return strings.Join(parts, "|")
}

func totalGsubsubShowCovs(tt []coverage.Table) string {
	var sb strings.Builder
	sb.WriteString(strconv.Itoa(len(tt)))
	for _, t := range tt {
		sb.WriteByte('/')
		sb.WriteString(totalGsubsubShowCov(t))
	}
	return sb.String()
}

func totalGsubsubShow(st gtab.Subtable) string {
	switch t := st.(type) {
	case *gtab.Gsub1_1:
		return "1.1;cov=" + totalGsubsubShowSet(t.Cov) + ";delta=" + strconv.Itoa(int(t.Delta))
	case *gtab.Gsub1_2:
		return "1.2;cov=" + totalGsubsubShowCov(t.Cov) + ";subs=" + totalGsubsubShowGids(t.SubstituteGlyphIDs, ",")
	case *gtab.Gsub2_1:
		return "2.1;cov=" + totalGsubsubShowCov(t.Cov) + ";seqs=" + totalGsubsubShowSeqs(t.Repl)
	case *gtab.Gsub3_1:
		return "3.1;cov=" + totalGsubsubShowCov(t.Cov) + ";seqs=" + totalGsubsubShowSeqs(t.Alternates)
	case *gtab.Gsub4_1:
		return "4.1;cov=" + totalGsubsubShowCov(t.Cov) + ";ligs=" + totalGsubsubShowLigs(t.Repl)
	case *gtab.Gsub8_1:
		return "8.1;in=" + totalGsubsubShowCov(t.Input) + ";back=" + totalGsubsubShowCovs(t.Backtrack) +
			";look=" + totalGsubsubShowCovs(t.Lookahead) + ";subs=" + totalGsubsubShowGids(t.SubstituteGlyphIDs, ",")
	}
	return fmt.Sprintf("other:%T", st)
}

// totalGsubsubForeign: the dispatcher key 10*type+format (uint16 arithmetic) selects a reader of
// another group (sequence context 5.x, chained context 6.x, extension 7.1).
func totalGsubsubForeign(b []byte, pos, tp int) bool {
	if pos < 0 || pos+2 > len(b) {
		return false
	}
	format := uint16(b[pos])<<8 | uint16(b[pos+1])
	if uint16(tp) > 9 || format > 9 {
		// rejected by the dispatcher guard (gsub.go:42) since the key-collision repair
		return false
	}
	key := uint16(10*uint16(tp) + format)
	switch key {
	case 51, 52, 53, 61, 62, 63, 71:
		return true
	}
	return false
}

// totalGsubsubClass: stat bucket of an outcome (ok:1.1 … ok:8.1, the error classes, panic).
func totalGsubsubClass(out string) string {
	if strings.HasPrefix(out, "ok:") {
		if i := strings.IndexByte(out, ';'); i >= 0 {
			return out[:i]
		}
	}
	return out
}

func init() {
	ops["tmgsubsub.read"] = func(f Fields) string {
		return totalCanonPanic(guard(func() string {
			b, pos, tp := f.Hex("bytes"), f.Int("pos"), f.Int("type")
			if pos < 0 {
				return "bad-case"
			}
			if totalGsubsubForeign(b, pos, tp) {
				return "err:foreign"
			}
			st, err := gtab.VerifReadGsubSubtable(b, int64(pos), uint16(tp))
			if err != nil {
				return totalErrClass(err)
			}
			return "ok:" + totalGsubsubShow(st)
		}))
	}
	totalModelGens["gsubsub"] = totalGsubsubGen
}

// ---------------------------------------------------------------- builder

// totalGsubsubW encodes big-endian 16-bit words (values are taken modulo 65536).
func totalGsubsubW(ws ...int) []byte {
	b := make([]byte, 0, 2*len(ws))
	for _, w := range ws {
		b = append(b, byte(w>>8), byte(w))
	}
	return b
}

func totalGsubsubCat(parts ...[]byte) []byte {
	var b []byte
	for _, p := range parts {
		b = append(b, p...)
	}
	return b
}

// totalGsubsubCov1 is coverage format 1 with the count word taken from the list.
func totalGsubsubCov1(gids ...int) []byte {
	return totalGsubsubW(append([]int{1, len(gids)}, gids...)...)
}

// totalGsubsubCov2 is coverage format 2 (start, end, startCoverageIndex).
func totalGsubsubCov2(ranges ...[3]int) []byte {
	ws := []int{2, len(ranges)}
	for _, g := range ranges {
		ws = append(ws, g[0], g[1], g[2])
	}
	return totalGsubsubW(ws...)
}

// totalGsubsubCovN is a valid coverage table of the given format with n glyphs from lo upwards
// (fewer when the glyph ids run out at 0xffff).
func totalGsubsubCovN(r *Rng, n, format, lo int) []byte {
	if format == 1 {
		ws := []int{1, 0}
		g, k := lo, 0
		for ; k < n && g <= 0xffff; k++ {
			ws = append(ws, g)
			if r.Chance(2, 3) {
				g++
			} else {
				g += r.Range(2, 9)
			}
		}
		ws[1] = k
		return totalGsubsubW(ws...)
	}
	ws := []int{2, 0}
	g, left, run, cnt := lo, n, 0, 0
	for left > 0 && g <= 0xffff {
		l := r.Range(1, left)
		if l > 4 && r.Bool() {
			l = r.Range(1, 4)
		}
		e := g + l - 1
		if e > 0xffff {
			e = 0xffff
		}
		ws = append(ws, g, e, run)
		run += e - g + 1
		left -= e - g + 1
		cnt++
		g = e + r.Range(1, 7)
	}
	ws[1] = cnt
	return totalGsubsubW(ws...)
}

// totalGsubsubRaw marks an explicit offset in a reference list (values >= 0 are part indices).
func totalGsubsubRaw(off int) int { return -off - 1 }

// totalGsubsubLayout places the parts one after the other behind a header of headLen bytes.
func totalGsubsubLayout(headLen int, parts [][]byte) (offs []int, tail []byte) {
	offs = make([]int, len(parts))
	at := headLen
	for i, p := range parts {
		offs[i] = at
		at += len(p)
		tail = append(tail, p...)
	}
	return offs, tail
}

func totalGsubsubRef(v int, offs []int) int {
	if v < 0 {
		return -v - 1
	}
	return offs[v]
}

// totalGsubsubSub11: [1, covOff, delta] cov.
func totalGsubsubSub11(cov []byte, delta int) []byte {
	return totalGsubsubCat(totalGsubsubW(1, 6, delta), cov)
}

// totalGsubsubSub12: [2, covOff, n, subst*n] cov.
func totalGsubsubSub12(cov []byte, subs []int) []byte {
	ws := append([]int{2, 6 + 2*len(subs), len(subs)}, subs...)
	return totalGsubsubCat(totalGsubsubW(ws...), cov)
}

// totalGsubsubSeq is the layout of 2.1 and 3.1: [1, covOff, n, off*n]; recs are the distinct
// records [m, gid*m], refs selects one per array entry (or a raw offset); the coverage table
// lies before or behind the records.
func totalGsubsubSeq(cov []byte, recs [][]int, refs []int, covFirst bool) []byte {
	parts := make([][]byte, 0, len(recs)+1)
	for _, s := range recs {
		parts = append(parts, totalGsubsubW(append([]int{len(s)}, s...)...))
	}
	covAt := len(parts)
	if covFirst {
		parts = append([][]byte{cov}, parts...)
		covAt = 0
	} else {
		parts = append(parts, cov)
	}
	offs, tail := totalGsubsubLayout(6+2*len(refs), parts)
	covOff := offs[covAt]
	if covFirst {
		offs = offs[1:]
	}
	ws := []int{1, covOff, len(refs)}
	for _, v := range refs {
		ws = append(ws, totalGsubsubRef(v, offs))
	}
	return totalGsubsubCat(totalGsubsubW(ws...), tail)
}

// totalGsubsubLig is one ligature record [out, cc, in…]; cc is the componentCount word as written.
type totalGsubsubLig struct {
	out, cc int
	in      []int
}

// totalGsubsubSet is one ligature set [m, off*m] followed by its distinct ligature records.
type totalGsubsubSet struct {
	ligs []totalGsubsubLig
	refs []int
}

func (s totalGsubsubSet) totalGsubsubEncode() []byte {
	parts := make([][]byte, len(s.ligs))
	for i, l := range s.ligs {
		parts[i] = totalGsubsubW(append([]int{l.out, l.cc}, l.in...)...)
	}
	offs, tail := totalGsubsubLayout(2+2*len(s.refs), parts)
	ws := []int{len(s.refs)}
	for _, v := range s.refs {
		ws = append(ws, totalGsubsubRef(v, offs))
	}
	return totalGsubsubCat(totalGsubsubW(ws...), tail)
}

// totalGsubsubSub41: [1, covOff, n, setOff*n] sets cov (or cov sets).
func totalGsubsubSub41(cov []byte, sets []totalGsubsubSet, refs []int, covFirst bool) []byte {
	parts := make([][]byte, 0, len(sets)+1)
	for _, s := range sets {
		parts = append(parts, s.totalGsubsubEncode())
	}
	covAt := len(parts)
	if covFirst {
		parts = append([][]byte{cov}, parts...)
		covAt = 0
	} else {
		parts = append(parts, cov)
	}
	offs, tail := totalGsubsubLayout(6+2*len(refs), parts)
	covOff := offs[covAt]
	if covFirst {
		offs = offs[1:]
	}
	ws := []int{1, covOff, len(refs)}
	for _, v := range refs {
		ws = append(ws, totalGsubsubRef(v, offs))
	}
	return totalGsubsubCat(totalGsubsubW(ws...), tail)
}

// totalGsubsubSub81: [1, inOff, nb, backOff*nb, nl, lookOff*nl, ng, subst*ng] covs.
func totalGsubsubSub81(covs [][]byte, in int, back, look, subs []int) []byte {
	offs, tail := totalGsubsubLayout(10+2*(len(back)+len(look)+len(subs)), covs)
	ws := []int{1, totalGsubsubRef(in, offs), len(back)}
	for _, v := range back {
		ws = append(ws, totalGsubsubRef(v, offs))
	}
	ws = append(ws, len(look))
	for _, v := range look {
		ws = append(ws, totalGsubsubRef(v, offs))
	}
	ws = append(ws, len(subs))
	ws = append(ws, subs...)
	return totalGsubsubCat(totalGsubsubW(ws...), tail)
}

// totalGsubsubCap41 is a 4.1 table whose size sum (the reader counts every visit) is exactly
// target: nA set offsets alias one set of m offsets that alias one ligature of k components,
// filled up with aliased empty sets (4 each) and at most one set with a single one-component
// ligature (10).  The result is nil when the target cannot be met.
func totalGsubsubCap41(m, k, target int) []byte {
	perA := 4 + m*(4+2*k)
	rest := target - 6
	nC := 0
	if rest%4 == 2 {
		nC = 1
		rest -= 10
	}
	if rest < 0 || rest%4 != 0 || perA%4 != 0 {
		return nil
	}
	nA := rest / perA
	nB := (rest - nA*perA) / 4
	in := make([]int, k-1)
	for i := range in {
		in[i] = i % 10
	}
	refsA := make([]int, m)
	sets := []totalGsubsubSet{
		{ligs: []totalGsubsubLig{{out: 4, cc: k, in: in}}, refs: refsA},
		{},
		{ligs: []totalGsubsubLig{{out: 5, cc: 1}}, refs: []int{0}},
	}
	var refs []int
	for i := 0; i < nA; i++ {
		refs = append(refs, 0)
	}
	for i := 0; i < nB; i++ {
		refs = append(refs, 1)
	}
	for i := 0; i < nC; i++ {
		refs = append(refs, 2)
	}
	n := len(refs)
	if n == 0 || n > 2000 {
		return nil
	}
	return totalGsubsubSub41(totalGsubsubCov2([3]int{10, 10 + n - 1, 0}), sets, refs, false)
}

// ---------------------------------------------------------------- structured inputs

// totalGsubsubTab is one input: the lookup type, the bytes and the position of the subtable; posx
// marks the inputs that are also read at positions inside, at the end of and beyond the data;
// plain marks the inputs of group (b) (format words and dispatcher keys), which do not count as
// nontrivial.
type totalGsubsubTab struct {
	name  string
	tp    int
	b     []byte
	pos   int
	posx  bool
	plain bool
}

func totalGsubsubGid(r *Rng) int {
	return Pick(r, []int{0, 1, 0xffff, r.Range(2, 500), r.Range(2, 500), r.Range(2, 500), r.Intn(65536)})
}

func totalGsubsubGidList(r *Rng, n int) []int {
	out := make([]int, n)
	for i := range out {
		out[i] = totalGsubsubGid(r)
	}
	return out
}

func totalGsubsubCount(r *Rng) int {
	switch r.Intn(10) {
	case 0:
		return 0
	case 1:
		return 1
	case 2:
		return 2
	case 3, 4, 5, 6:
		return r.Range(3, 12)
	case 7, 8:
		return r.Range(13, 60)
	}
	if r.Chance(1, 4) {
		return r.Range(200, 300)
	}
	return r.Range(61, 120)
}

// totalGsubsubCovFor is a valid coverage table for an array of n entries: the same number of
// glyphs, more, or fewer; sometimes one big range.
func totalGsubsubCovFor(r *Rng, n int) ([]byte, string) {
	lo := Pick(r, []int{0, 1, r.Range(2, 300), r.Range(2, 300), r.Range(300, 60000), 0xffff - n - r.Range(0, 3)})
	if lo < 0 {
		lo = 0
	}
	format := r.Range(1, 2)
	f := "cov" + strconv.Itoa(format)
	switch r.Intn(7) {
	case 0, 1:
		return totalGsubsubCovN(r, n+r.Range(1, 10), format, lo), f + "-larger"
	case 2, 3:
		if n > 0 {
			return totalGsubsubCovN(r, n-r.Range(1, n), format, lo), f + "-smaller"
		}
	case 4:
		if r.Chance(1, 3) {
			e := lo + Pick(r, []int{500, 5000, 20000})
			if e > 0xffff {
				e = 0xffff
			}
			return totalGsubsubCov2([3]int{lo, e, 0}), "cov2-bigrange"
		}
	}
	return totalGsubsubCovN(r, n, format, lo), f + "-equal"
}

// totalGsubsubRandValid builds a random (mostly) valid subtable of one of the six kinds.
func totalGsubsubRandValid(r *Rng) (tp int, b []byte, kind string) {
	switch r.Intn(6) {
	case 0: // 1.1
		delta := Pick(r, []int{0, 1, 0xffff, 0x8000, r.Intn(65536), r.Range(2, 300)})
		switch r.Intn(4) {
		case 0: // format 1 in any order with duplicates
			n := r.Range(0, 20)
			g := make([]int, n)
			lo := Pick(r, []int{0, r.Range(0, 300), 0xffff - 20})
			for i := range g {
				g[i] = lo + r.Intn(21)
			}
			return 1, totalGsubsubSub11(totalGsubsubCov1(g...), delta), "1.1:cov1-unordered"
		case 1: // format 2 with touching ranges
			var rr [][3]int
			s, run := r.Range(0, 300), 0
			for i, n := 0, r.Range(1, 8); i < n; i++ {
				e := s + r.Range(0, 12)
				rr = append(rr, [3]int{s, e, run})
				run += e - s + 1
				if r.Bool() {
					s = e
				} else {
					s = e + r.Range(1, 30)
				}
			}
			return 1, totalGsubsubSub11(totalGsubsubCov2(rr...), delta), "1.1:cov2-touching"
		}
		cov, ck := totalGsubsubCovFor(r, r.Range(0, 30))
		return 1, totalGsubsubSub11(cov, delta), "1.1:" + ck
	case 1: // 1.2
		n := totalGsubsubCount(r)
		cov, ck := totalGsubsubCovFor(r, n)
		return 1, totalGsubsubSub12(cov, totalGsubsubGidList(r, n)), "1.2:" + ck
	case 2, 3: // 2.1 and 3.1
		tp = r.Range(2, 3)
		n := totalGsubsubCount(r)
		cov, ck := totalGsubsubCovFor(r, n)
		nrec := n
		alias := "distinct"
		switch {
		case n >= 2 && r.Chance(1, 4):
			nrec, alias = 1, "all-one"
		case n >= 3 && r.Chance(1, 3):
			nrec, alias = r.Range(2, n-1), "shared"
		case n > 80:
			nrec, alias = r.Range(1, 20), "shared"
		}
		recs := make([][]int, nrec)
		for i := range recs {
			recs[i] = totalGsubsubGidList(r, Pick(r, []int{0, 1, 1, 2, r.Range(2, 6), r.Range(2, 6)}))
		}
		refs := make([]int, n)
		for i := range refs {
			if i < nrec {
				refs[i] = i
			} else {
				refs[i] = r.Intn(nrec)
			}
		}
		return tp, totalGsubsubSeq(cov, recs, refs, r.Chance(1, 3)), strconv.Itoa(tp) + ".1:" + ck + ":" + alias
	case 4: // 4.1
		n := totalGsubsubCount(r)
		if n > 60 {
			n = r.Range(13, 60)
		}
		cov, ck := totalGsubsubCovFor(r, n)
		nset := n
		alias := "distinct"
		switch {
		case n >= 2 && r.Chance(1, 4):
			nset, alias = 1, "all-one"
		case n >= 3 && r.Chance(1, 3):
			nset, alias = r.Range(2, n-1), "shared"
		case n > 20:
			nset, alias = r.Range(1, 8), "shared"
		}
		sets := make([]totalGsubsubSet, nset)
		for i := range sets {
			m := Pick(r, []int{0, 1, 1, 2, r.Range(2, 5)})
			nl := m
			if m >= 2 && r.Chance(1, 3) {
				nl = r.Range(1, m-1)
			}
			for j := 0; j < nl; j++ {
				cc := Pick(r, []int{1, 2, 2, 3, 5, r.Range(2, 8)})
				sets[i].ligs = append(sets[i].ligs, totalGsubsubLig{out: totalGsubsubGid(r), cc: cc, in: totalGsubsubGidList(r, cc-1)})
			}
			for j := 0; j < m; j++ {
				if j < nl {
					sets[i].refs = append(sets[i].refs, j)
				} else {
					sets[i].refs = append(sets[i].refs, r.Intn(nl))
				}
			}
		}
		refs := make([]int, n)
		for i := range refs {
			if i < nset {
				refs[i] = i
			} else {
				refs[i] = r.Intn(nset)
			}
		}
		return 4, totalGsubsubSub41(cov, sets, refs, r.Chance(1, 3)), "4.1:" + ck + ":" + alias
	}
	// 8.1
	ng := totalGsubsubCount(r)
	if ng > 120 {
		ng = r.Range(0, 40)
	}
	in, ck := totalGsubsubCovFor(r, ng)
	nb, nl := Pick(r, []int{0, 1, 2, 5, r.Range(0, 8)}), Pick(r, []int{0, 1, 2, 5, r.Range(0, 8)})
	covs := [][]byte{in}
	ncov := 1
	alias := "distinct"
	if nb+nl > 0 {
		ncov = 1 + nb + nl
		switch {
		case r.Chance(1, 4):
			ncov, alias = 1, "all-input"
		case nb+nl >= 2 && r.Chance(1, 3):
			ncov, alias = 1+r.Range(1, nb+nl-1), "shared"
		}
	}
	for len(covs) < ncov {
		covs = append(covs, totalGsubsubCovN(r, r.Range(0, 12), r.Range(1, 2), r.Range(0, 400)))
	}
	pick := func(n int) []int {
		out := make([]int, n)
		for i := range out {
			out[i] = r.Intn(ncov)
		}
		return out
	}
	back, look := pick(nb), pick(nl)
	if alias == "distinct" {
		for i := range back {
			back[i] = 1 + i
		}
		for i := range look {
			look[i] = 1 + nb + i
		}
	}
	return 8, totalGsubsubSub81(covs, 0, back, look, totalGsubsubGidList(r, ng)), "8.1:" + ck + ":" + alias
}

func totalGsubsubStructured(r *Rng) []totalGsubsubTab {
	var tt []totalGsubsubTab
	add := func(name string, tp int, b []byte) {
		tt = append(tt, totalGsubsubTab{name: name, tp: tp, b: b})
	}
	addPos := func(name string, tp int, b []byte) {
		tt = append(tt, totalGsubsubTab{name: name, tp: tp, b: b, posx: true})
	}
	plain := func(name string, tp int, b []byte) {
		tt = append(tt, totalGsubsubTab{name: name, tp: tp, b: b, plain: true})
	}
	type rg = [3]int
	W, cat, c1, c2, raw := totalGsubsubW, totalGsubsubCat, totalGsubsubCov1, totalGsubsubCov2, totalGsubsubRaw
	s11, s12, seq, s41, s81 := totalGsubsubSub11, totalGsubsubSub12, totalGsubsubSeq, totalGsubsubSub41, totalGsubsubSub81
	type lig = totalGsubsubLig
	type set = totalGsubsubSet
	rep := func(v, n int) []int {
		out := make([]int, n)
		for i := range out {
			out[i] = v
		}
		return out
	}
	span := func(lo, n int) []int {
		out := make([]int, n)
		for i := range out {
			out[i] = lo + i
		}
		return out
	}

	// ---- (a) 1.1
	for _, d := range []int{0, 1, 0xffff, 0x8000} {
		add("1.1-delta-cov1-max", 1, s11(c1(3, 0xffff), d))
		add("1.1-delta-cov2-top", 1, s11(c2(rg{0, 1, 0}, rg{0xfff0, 0xffff, 2}), d))
	}
	add("1.1-cov1-n0", 1, s11(c1(), 5))
	addPos("1.1-cov1-n1", 1, s11(c1(7), 1))
	add("1.1-cov1-n2", 1, s11(c1(7, 8), 0xfffe))
	add("1.1-cov1-0-1-max", 1, s11(c1(0, 1, 0xffff), 1))
	add("1.1-cov1-unordered-dup", 1, s11(c1(9, 3, 3, 4, 10, 9), 2))
	add("1.1-cov1-descending", 1, s11(c1(9, 7, 5, 3), 2))
	add("1.1-cov2-n0", 1, s11(c2(), 2))
	add("1.1-cov2-n1", 1, s11(c2(rg{3, 5, 0}), 2))
	add("1.1-cov2-touching", 1, s11(c2(rg{3, 5, 0}, rg{5, 8, 3}), 2))
	add("1.1-cov2-overlap", 1, s11(c2(rg{3, 5, 0}, rg{4, 8, 3}), 2))
	add("1.1-cov2-bad-index", 1, s11(c2(rg{3, 5, 0}, rg{7, 8, 4}), 2))
	add("1.1-cov2-end-lt-start", 1, s11(c2(rg{5, 3, 0}), 2))
	add("1.1-cov2-big", 1, s11(c2(rg{0, 5000, 0}), 1))
	add("1.1-cov2-full", 1, s11(c2(rg{0, 0xffff, 0}), 0x8000))
	add("1.1-cov-format0", 1, s11(W(0, 1, 7), 1))
	add("1.1-cov-format3", 1, s11(W(3, 1, 7), 1))
	add("1.1-cov1-count+1", 1, s11(W(1, 3, 7, 9), 1))
	add("1.1-cov1-count-max", 1, s11(W(1, 0xffff, 7, 9), 1))
	add("1.1-covoff-0", 1, W(1, 0, 7))            // coverage = the header: format 1, count 0
	add("1.1-covoff-0-tail", 1, W(1, 0, 2, 4, 5)) // format 1, count 0... delta word is the first gid
	add("1.1-covoff-2", 1, W(1, 2, 1, 3, 5, 0))   // covOff word = format 2, delta = rangeCount
	add("1.1-covoff-4", 1, W(1, 4, 1, 2, 7, 9))   // delta word = format 1
	add("1.1-covoff-4-delta2", 1, W(1, 4, 2, 1, 7, 9, 0))
	add("1.1-covoff-odd", 1, cat(W(1, 7, 3), []byte{0xaa}, c1(4, 6)))
	add("1.1-covoff-end", 1, W(1, 6, 3))
	add("1.1-covoff-end-1", 1, cat(W(1, 6, 3), []byte{0}))
	add("1.1-covoff-beyond", 1, W(1, 0x4000, 3, 1, 1, 7))
	add("1.1-covoff-max", 1, W(1, 0xffff, 3, 1, 1, 7))
	add("1.1-header-short", 1, W(1, 6))
	add("1.1-cov-far", 1, cat(W(1, 300, 9), make([]byte, 294), c1(2, 5)))

	// ---- (a) 1.2
	addPos("1.2-n0", 1, s12(c1(), nil))
	add("1.2-n0-cov3", 1, s12(c1(4, 5, 6), nil))
	add("1.2-n1", 1, s12(c1(7), []int{30}))
	addPos("1.2-n2", 1, s12(c1(7, 8), []int{0, 0xffff}))
	add("1.2-n2-cov2", 1, s12(c2(rg{7, 8, 0}), []int{1, 0}))
	add("1.2-cov-larger", 1, s12(c1(2, 4, 6, 8, 10), []int{30, 31}))
	add("1.2-cov2-larger", 1, s12(c2(rg{2, 4, 0}, rg{8, 12, 3}), []int{30, 31, 32, 33}))
	add("1.2-cov-smaller", 1, s12(c1(2, 4), []int{30, 31, 32, 33, 0xffff}))
	add("1.2-cov-empty", 1, s12(c2(), []int{30, 31}))
	add("1.2-cov2-big-prune", 1, s12(c2(rg{0, 5000, 0}), []int{9, 8, 7}))
	add("1.2-cov2-top-prune", 1, s12(c2(rg{0xf000, 0xffff, 0}), []int{0xffff, 0}))
	add("1.2-many", 1, s12(totalGsubsubCovN(r, 300, 2, 5), totalGsubsubGidList(r, 300)))
	add("1.2-many-cov1", 1, s12(totalGsubsubCovN(r, 120, 1, 0), totalGsubsubGidList(r, 100)))
	add("1.2-cov-invalid", 1, s12(c1(5, 5), []int{1, 2}))
	add("1.2-cov-descending", 1, s12(c1(9, 3), []int{1, 2}))
	add("1.2-cov2-touching", 1, s12(c2(rg{3, 5, 0}, rg{5, 8, 3}), []int{1, 2}))
	add("1.2-cov2-adjacent", 1, s12(c2(rg{3, 5, 0}, rg{6, 8, 3}), span(50, 6)))
	add("1.2-cov-format0", 1, s12(W(0, 0), []int{1, 2}))
	add("1.2-cov-format3", 1, s12(W(3, 0), []int{1, 2}))
	add("1.2-covoff-0", 1, W(2, 0, 2, 30, 31))             // coverage = header: format 2, rangeCount 0
	add("1.2-covoff-2", 1, W(2, 2, 1, 9, 9, 0))            // covOff word = format 2, n = 1 range (9,9,0)
	add("1.2-covoff-4", 1, W(2, 4, 1, 2, 7, 9))            // n word = format 1, subs[0] = count
	add("1.2-covoff-4-n2", 1, W(2, 4, 2, 1, 3, 5, 0))      // n word = format 2
	add("1.2-covoff-into-subs", 1, W(2, 6, 4, 1, 2, 5, 9)) // the substitutes are the coverage table
	add("1.2-covoff-end", 1, W(2, 8, 1, 30))
	add("1.2-covoff-beyond", 1, W(2, 0x7000, 1, 30, 1, 1, 7))
	add("1.2-count+1", 1, cat(W(2, 10, 3, 30, 31)))
	add("1.2-count-max", 1, cat(W(2, 10, 0xffff, 30, 31), c1(7)))
	add("1.2-count-into-cov", 1, cat(W(2, 8, 4, 30), c1(7, 9))) // the array runs over the coverage table

	// ---- (a) 2.1 and 3.1
	for _, tp := range []int{2, 3} {
		n := strconv.Itoa(tp) + ".1-"
		addPos(n+"n0", tp, seq(c1(), nil, nil, false))
		add(n+"n0-cov2", tp, seq(c1(4, 5), nil, nil, true))
		addPos(n+"n1", tp, seq(c1(7), [][]int{{30, 31}}, []int{0}, false))
		add(n+"n1-empty-seq", tp, seq(c1(7), [][]int{{}}, []int{0}, false))
		add(n+"n2", tp, seq(c1(7, 9), [][]int{{30}, {0, 1, 0xffff}}, []int{0, 1}, false))
		add(n+"n2-covfirst", tp, seq(c2(rg{7, 8, 0}), [][]int{{30}, {31, 32}}, []int{0, 1}, true))
		add(n+"n2-swapped", tp, seq(c1(7, 9), [][]int{{30}, {31, 32}}, []int{1, 0}, false))
		add(n+"n2-equal-offsets", tp, seq(c1(7, 9), [][]int{{30, 31}}, []int{0, 0}, false))
		add(n+"n5-lengths", tp, seq(c1(1, 2, 3, 4, 5), [][]int{{}, {1}, {1, 2}, {1, 2, 3, 4, 5}, {0xffff}}, []int{0, 1, 2, 3, 4}, false))
		add(n+"cov-larger", tp, seq(c1(2, 4, 6, 8, 10), [][]int{{30}, {31}}, []int{0, 1}, false))
		add(n+"cov2-larger", tp, seq(c2(rg{2, 4, 0}, rg{8, 12, 3}), [][]int{{30}, {31}, {32}, {33}}, []int{0, 1, 2, 3}, false))
		add(n+"cov-smaller", tp, seq(c1(2, 4), [][]int{{30}, {31}, {32}}, []int{0, 1, 2, raw(0x7000), raw(1)}, false))
		add(n+"cov-empty", tp, seq(c2(), [][]int{{30}}, []int{0, raw(0xffff)}, false))
		add(n+"cov2-big-prune", tp, seq(c2(rg{0, 5000, 0}), [][]int{{30}, {31, 32}}, []int{0, 1, 0}, false))
		add(n+"alias-all-300", tp, seq(c2(rg{100, 399, 0}), [][]int{{30, 31, 32}}, rep(0, 300), false))
		add(n+"alias-all-40-cov1", tp, seq(totalGsubsubCovN(r, 40, 1, 3), [][]int{{0xffff}}, rep(0, 40), true))
		add(n+"many", tp, seq(totalGsubsubCovN(r, 60, 2, 0), [][]int{{1}, {2, 3}, {}, {4, 5, 6}, {0xffff, 0}}, func() []int {
			out := make([]int, 60)
			for i := range out {
				out[i] = i % 5
			}
			return out
		}(), false))
		add(n+"off-0", tp, seq(c1(7, 9), [][]int{{30}}, []int{raw(0), 0}, false))         // record = header: m = 1, gid = covOff
		add(n+"off-2", tp, seq(c1(7, 9), [][]int{{30}}, []int{raw(2), 0}, false))         // m = covOff (12): runs through the table
		add(n+"off-4", tp, seq(c1(7, 9), [][]int{{30}}, []int{raw(4), 0}, false))         // m = n = 2: the two offsets as gids
		add(n+"off-into-cov", tp, seq(c1(7, 9), [][]int{{30}}, []int{0, raw(14)}, false)) // record = coverage: m = format word
		add(n+"off-into-cov-count", tp, seq(c1(7, 9), [][]int{{30}}, []int{0, raw(16)}, false))
		add(n+"off-end", tp, seq(c1(7, 9), [][]int{{30}}, []int{0, raw(20)}, false))
		add(n+"off-end-2", tp, seq(c1(7, 9), [][]int{{30}}, []int{0, raw(18)}, false))
		add(n+"off-beyond", tp, seq(c1(7, 9), [][]int{{30}}, []int{0, raw(0x7fff)}, false))
		add(n+"off-max", tp, seq(c1(7, 9), [][]int{{30}}, []int{raw(0xffff), 0}, false))
		add(n+"off-odd", tp, cat(W(1, 8, 1, 15), c1(7), []byte{0xee, 0, 2, 0, 30, 0, 31}))
		add(n+"seq-count+1", tp, cat(W(1, 8, 1, 14), c1(7), W(3, 30, 31)))
		add(n+"seq-count-max", tp, cat(W(1, 8, 1, 14), c1(7), W(0xffff, 30, 31)))
		add(n+"covoff-0", tp, W(1, 0, 1, 6, 2, 30, 31))       // coverage = header: format 1, count 0
		add(n+"covoff-4", tp, W(1, 4, 1, 2, 7, 9))            // n word = format 1, offset word = count 2
		add(n+"covoff-into-seq", tp, W(1, 8, 1, 8, 1, 1, 44)) // coverage and record share [1, 1, 44]
		add(n+"covoff-beyond", tp, cat(W(1, 0x6000, 1, 8), W(1, 30)))
		add(n+"cov-invalid", tp, seq(c1(9, 9), [][]int{{30}}, []int{0, 0}, false))
		add(n+"cov-format3", tp, seq(W(3, 0), [][]int{{30}}, []int{0}, false))
		add(n+"count-max", tp, cat(W(1, 8, 0xffff, 8), c1(7)))
		add(n+"count-into-cov", tp, cat(W(1, 8, 3, 14), c1(7, 9), W(1, 30))) // offsets 14, 1, 2
	}

	// ---- (a) 4.1
	one := func(out, cc int, in ...int) set { return set{ligs: []lig{{out, cc, in}}, refs: []int{0}} }
	addPos("4.1-n0", 4, s41(c1(), nil, nil, false))
	add("4.1-n0-cov2", 4, s41(c1(4, 5), nil, nil, true))
	addPos("4.1-n1", 4, s41(c1(7), []set{one(30, 3, 7, 8)}, []int{0}, false))
	add("4.1-n1-empty-set", 4, s41(c1(7), []set{{}}, []int{0}, false))
	add("4.1-n2", 4, s41(c1(7, 9), []set{
		{ligs: []lig{{30, 3, []int{7, 8}}, {31, 1, nil}}, refs: []int{0, 1}},
		one(0xffff, 2, 0)}, []int{0, 1}, false))
	add("4.1-n2-covfirst", 4, s41(c2(rg{7, 8, 0}), []set{one(30, 2, 1), one(31, 2, 0xffff)}, []int{0, 1}, true))
	for _, cc := range []int{1, 2, 5} {
		add("4.1-cc-"+strconv.Itoa(cc), 4, s41(c1(7), []set{one(30, cc, span(50, cc-1)...)}, []int{0}, false))
	}
	add("4.1-cc-0", 4, s41(c1(7), []set{one(30, 0)}, []int{0}, false)) // rejected since the zero-count repair (err:invalid); before: 65535 components, err:io
	add("4.1-cc-0-tail", 4, s41(c1(7), []set{one(30, 0, span(1, 40)...)}, []int{0}, false))
	add("4.1-cc-0-second", 4, s41(c1(7), []set{{ligs: []lig{{30, 2, []int{5}}, {31, 0, nil}}, refs: []int{0, 1}}}, []int{0}, false))
	add("4.1-cc+1", 4, s41(c1(7), []set{one(30, 4, 7, 8)}, []int{0}, true))
	add("4.1-cc-max", 4, s41(c1(7), []set{one(30, 0xffff, 7, 8)}, []int{0}, true))
	add("4.1-cc-runs-into-cov", 4, s41(c1(7, 9), []set{one(30, 5, 7, 8)}, []int{0}, false))
	add("4.1-lengths", 4, s41(c1(1, 2, 3, 4), []set{
		{},
		one(30, 1),
		{ligs: []lig{{30, 2, []int{0}}, {31, 3, []int{1, 0xffff}}, {0, 1, nil}}, refs: []int{0, 1, 2}},
		{ligs: []lig{{40, 5, []int{1, 2, 3, 4}}}, refs: []int{0, 0, 0}},
	}, []int{0, 1, 2, 3}, false))
	add("4.1-cov-larger", 4, s41(c1(2, 4, 6, 8, 10), []set{one(30, 2, 5), one(31, 1)}, []int{0, 1}, false))
	add("4.1-cov2-larger", 4, s41(c2(rg{2, 4, 0}, rg{8, 12, 3}), []set{one(30, 2, 5)}, []int{0, 0, 0, 0}, false))
	add("4.1-cov-smaller", 4, s41(c1(2, 4), []set{one(30, 2, 5), one(31, 1)}, []int{0, 1, raw(0x7000), raw(3)}, false))
	add("4.1-cov-empty", 4, s41(c2(), []set{one(30, 2, 5)}, []int{0, raw(0xffff)}, false))
	add("4.1-cov2-big-prune", 4, s41(c2(rg{0, 5000, 0}), []set{one(30, 2, 5), {}}, []int{0, 1, 0}, false))
	add("4.1-alias-sets", 4, s41(c2(rg{10, 49, 0}), []set{{ligs: []lig{{30, 3, []int{7, 8}}}, refs: rep(0, 6)}}, rep(0, 40), false))
	add("4.1-alias-two-equal", 4, s41(c1(7, 9, 11), []set{one(30, 2, 5), one(31, 2, 6)}, []int{0, 1, 0}, false))
	add("4.1-alias-ligs", 4, s41(c1(7), []set{{ligs: []lig{{30, 2, []int{5}}, {31, 2, []int{6}}}, refs: []int{0, 1, 0, 1, 1}}}, []int{0}, false))
	add("4.1-set-off-0", 4, s41(c1(7, 9), []set{one(30, 2, 5)}, []int{raw(0), 0}, false)) // set = header: m = 1, ligOff = covOff
	add("4.1-set-off-2", 4, s41(c1(7, 9), []set{one(30, 2, 5)}, []int{raw(2), 0}, false)) // m = covOff
	add("4.1-set-off-4", 4, s41(c1(7, 9), []set{one(30, 2, 5)}, []int{raw(4), 0}, false)) // m = n = 2, ligOffs = the set offsets
	add("4.1-set-off-into-cov", 4, s41(c1(7, 9), []set{one(30, 2, 5)}, []int{0, raw(20)}, false))
	add("4.1-set-off-into-cov-first", 4, s41(c1(2, 2), []set{one(30, 2, 5)}, []int{0, raw(10)}, true))
	add("4.1-set-off-end", 4, s41(c1(7, 9), []set{one(30, 2, 5)}, []int{0, raw(28)}, false))
	add("4.1-set-off-beyond", 4, s41(c1(7, 9), []set{one(30, 2, 5)}, []int{0, raw(0x7fff)}, false))
	add("4.1-set-off-max", 4, s41(c1(7, 9), []set{one(30, 2, 5)}, []int{raw(0xffff), 0}, false))
	add("4.1-lig-off-0", 4, s41(c1(7), []set{{ligs: []lig{{30, 2, []int{5}}}, refs: []int{raw(0)}}}, []int{0}, false))       // lig = the set: out = 1, cc = 0
	add("4.1-lig-off-0-m2", 4, s41(c1(7), []set{{ligs: []lig{{30, 2, []int{5}}}, refs: []int{raw(0), 0}}}, []int{0}, false)) // out = 2, cc = 0
	add("4.1-lig-off-2", 4, s41(c1(7), []set{{ligs: []lig{{30, 2, []int{5}}}, refs: []int{raw(2), 0}}}, []int{0}, false))    // out = 2, cc = 6?
	add("4.1-lig-off-beyond", 4, s41(c1(7), []set{{ligs: []lig{{30, 2, []int{5}}}, refs: []int{0, raw(0x7000)}}}, []int{0}, false))
	add("4.1-lig-off-max", 4, s41(c1(7), []set{{ligs: []lig{{30, 2, []int{5}}}, refs: []int{raw(0xffff)}}}, []int{0}, false))
	add("4.1-lig-off-into-next-set", 4, s41(c1(7, 9), []set{{ligs: []lig{{30, 2, []int{5}}}, refs: []int{0, raw(12)}}, one(31, 3, 8, 9)}, []int{0, 1}, false))
	add("4.1-lig-off-end", 4, s41(c1(7), []set{{ligs: []lig{{30, 2, []int{5}}}, refs: []int{0, raw(12)}}}, []int{0}, true))
	add("4.1-set-count+1", 4, cat(W(1, 8, 1, 14), c1(7), W(2, 6, 30, 1)))
	add("4.1-set-count-max", 4, cat(W(1, 8, 1, 14), c1(7), W(0xffff, 6, 30, 1)))
	add("4.1-covoff-0", 4, W(1, 0, 1, 8, 1, 4, 30, 1)) // coverage = header: format 1, count 0
	add("4.1-covoff-4", 4, W(1, 4, 1, 2, 7, 9, 30, 1)) // n word = format 1, count = offset word
	add("4.1-covoff-beyond", 4, cat(W(1, 0x6000, 1, 8), W(1, 4, 30, 1)))
	add("4.1-cov-invalid", 4, s41(c1(9, 9), []set{one(30, 2, 5)}, []int{0, 0}, false))
	add("4.1-cov-format0", 4, s41(W(0, 0), []set{one(30, 2, 5)}, []int{0}, false))
	add("4.1-count-max", 4, cat(W(1, 8, 0xffff, 8), c1(7)))
	add("4.1-many", 4, s41(totalGsubsubCovN(r, 80, 2, 20), []set{
		one(30, 2, 5), {}, {ligs: []lig{{30, 3, []int{7, 8}}, {31, 2, []int{7}}}, refs: []int{0, 1}}}, func() []int {
		out := make([]int, 80)
		for i := range out {
			out[i] = i % 3
		}
		return out
	}(), false))
	// the size cap: sum over every visit, 65534 is the largest value that passes
	// (the outcomes just below the cap are necessarily long: two of them only)
	for _, p := range [][3]int{{10, 18, 65534}, {10, 18, 65536}, {10, 18, 65540}, {100, 1, 65534}, {100, 1, 65536},
		{6, 5, 65536}, {2, 40, 65536}, {20, 2, 65544}, {6, 5, 30000}, {2, 40, 3000}} {
		if b := totalGsubsubCap41(p[0], p[1], p[2]); b != nil && len(b) < 3000 {
			add("4.1-cap-"+strconv.Itoa(p[2]), 4, b)
		}
	}
	{ // random parameters at the cap
		m, k := 2*r.Range(1, 8), r.Range(2, 30)
		for _, t := range []int{65536, 65538 + 2*r.Range(0, 40), 2 * r.Range(2000, 6000)} {
			if b := totalGsubsubCap41(m, k, t); b != nil && len(b) < 3000 {
				add("4.1-cap-random-"+strconv.Itoa(t), 4, b)
			}
		}
	}

	// ---- (a) 8.1
	cA, cB, cC := c1(7, 9), c2(rg{3, 5, 0}), c1()
	addPos("8.1-all-0", 8, s81([][]byte{c1()}, 0, nil, nil, nil))
	addPos("8.1-b0-l0", 8, s81([][]byte{cA}, 0, nil, nil, []int{30, 31}))
	add("8.1-b1-l0", 8, s81([][]byte{cA, cB}, 0, []int{1}, nil, []int{30, 31}))
	add("8.1-b0-l1", 8, s81([][]byte{cA, cB}, 0, nil, []int{1}, []int{30, 31}))
	add("8.1-b1-l1", 8, s81([][]byte{cA, cB, cC}, 0, []int{1}, []int{2}, []int{30, 31}))
	add("8.1-b2-l2", 8, s81([][]byte{cA, cB, cC, c1(1), c2(rg{0xffff, 0xffff, 0})}, 0, []int{1, 2}, []int{3, 4}, []int{0, 0xffff}))
	add("8.1-b5-l2", 8, s81([][]byte{cA, cB, cC}, 0, []int{1, 2, 1, 0, 2}, []int{2, 1}, []int{30, 31}))
	add("8.1-b2-l5", 8, s81([][]byte{cA, cB, cC}, 0, []int{2, 1}, []int{1, 2, 1, 0, 2}, []int{30, 31}))
	add("8.1-b5-l5-alias-input", 8, s81([][]byte{cA}, 0, rep(0, 5), rep(0, 5), []int{30, 31}))
	add("8.1-b5-l5-alias-one", 8, s81([][]byte{cA, cB}, 0, rep(1, 5), rep(1, 5), []int{30, 31}))
	add("8.1-in-larger", 8, s81([][]byte{c1(2, 4, 6, 8), cB}, 0, []int{1}, []int{1}, []int{30, 31}))
	add("8.1-in2-larger", 8, s81([][]byte{c2(rg{2, 4, 0}, rg{8, 12, 3}), cB}, 0, []int{1}, nil, []int{30, 31, 32, 33}))
	add("8.1-in-smaller", 8, s81([][]byte{c1(2, 4), cB}, 0, nil, []int{1}, []int{30, 31, 32, 33, 34}))
	add("8.1-in-empty", 8, s81([][]byte{c2(), cB}, 0, []int{1}, []int{1}, []int{30, 31}))
	add("8.1-ng0", 8, s81([][]byte{cA, cB}, 0, []int{1}, []int{1}, nil))
	add("8.1-in-big-prune", 8, s81([][]byte{c2(rg{0, 5000, 0}), cB}, 0, []int{1}, nil, []int{9, 8, 7}))
	add("8.1-back-big", 8, s81([][]byte{cA, c2(rg{0, 5000, 0})}, 0, []int{1, 1}, []int{1}, []int{9, 8}))
	add("8.1-many", 8, s81([][]byte{totalGsubsubCovN(r, 100, 2, 50), cB, cA}, 0, []int{1, 2}, []int{2}, totalGsubsubGidList(r, 100)))
	add("8.1-inoff-0", 8, s81([][]byte{cA}, raw(0), nil, nil, []int{30})) // coverage = header: format 1, count = inOff
	add("8.1-inoff-2", 8, s81([][]byte{cA}, raw(2), nil, nil, []int{30})) // format = the offset itself (2), count nb = 0
	add("8.1-inoff-4", 8, W(1, 4, 1, 2, 0, 1, 30, 7, 9))                  // nb word = format 1, backOff = count
	add("8.1-backoff-0", 8, s81([][]byte{cA}, 0, []int{raw(0)}, nil, []int{30, 31}))
	add("8.1-backoff-into-subs", 8, s81([][]byte{cA}, 0, []int{raw(10)}, nil, []int{1, 1, 31})) // [ng=3?]… the substitutes
	add("8.1-lookoff-into-subs", 8, s81([][]byte{cA}, 0, nil, []int{raw(12)}, []int{1, 1, 31}))
	add("8.1-backoff-end", 8, s81([][]byte{cA}, 0, []int{raw(24)}, nil, []int{30, 31}))
	add("8.1-backoff-beyond", 8, s81([][]byte{cA}, 0, []int{0, raw(0x7fff)}, nil, []int{30, 31}))
	add("8.1-lookoff-beyond", 8, s81([][]byte{cA}, 0, []int{0}, []int{0, raw(0xffff)}, []int{30, 31}))
	add("8.1-inoff-beyond", 8, s81([][]byte{cA}, raw(0x7000), []int{0}, []int{0}, []int{30, 31}))
	add("8.1-back-invalid", 8, s81([][]byte{cA, c1(5, 5)}, 0, []int{0, 1}, nil, []int{30, 31}))
	add("8.1-look-invalid", 8, s81([][]byte{cA, c1(5, 5)}, 0, []int{0}, []int{0, 1}, []int{30, 31}))
	add("8.1-look-format3", 8, s81([][]byte{cA, W(3, 0)}, 0, []int{0}, []int{1}, []int{30, 31}))
	add("8.1-in-invalid-back-unsupported", 8, s81([][]byte{c1(5, 5), W(3, 0)}, 0, []int{1}, nil, []int{30, 31}))
	add("8.1-in-unsupported-back-invalid", 8, s81([][]byte{W(0, 0), c1(5, 5)}, 0, []int{1}, nil, []int{30, 31}))
	add("8.1-nb-max", 8, cat(W(1, 12, 0xffff, 12, 0, 0), c1(7)))
	add("8.1-nl-max", 8, cat(W(1, 12, 0, 0xffff, 12, 0), c1(7)))
	add("8.1-ng-max", 8, cat(W(1, 10, 0, 0, 0xffff), c1(7)))
	add("8.1-ng+1", 8, cat(W(1, 14, 0, 0, 3, 30, 31)))
	add("8.1-header-short-4", 8, W(1, 4))
	add("8.1-header-short-6", 8, W(1, 6, 0))
	add("8.1-header-short-8", 8, W(1, 8, 0, 0))

	// ---- (b) format words and dispatcher keys
	// body: behind any format word a valid 1.1 (7, delta 1), 1.2 (7 -> 8), 2.1 / 3.1 (7 -> 4) and
	// 4.1 (7 -> ligature 1<); body8: a valid 8.1
	body := W(12, 1, 8, 1, 4, 1, 1, 7)
	body8 := cat(W(12, 0, 0, 1, 30), c1(7))
	for _, tp := range []int{1, 2, 3, 4, 8} {
		for _, fw := range []int{0, 1, 2, 3} {
			bd := body
			if tp == 8 {
				bd = body8
			}
			plain("type-"+strconv.Itoa(tp)+"-format-"+strconv.Itoa(fw), tp, cat(W(fw), bd))
		}
		plain("type-"+strconv.Itoa(tp)+"-format-only", tp, W(1))
		plain("type-"+strconv.Itoa(tp)+"-format-half", tp, []byte{0})
		plain("type-"+strconv.Itoa(tp)+"-empty", tp, nil)
	}
	plain("type-1-format-0xffff", 1, cat(W(0xffff), body))
	plain("type-1-format-0x0100", 1, cat(W(0x0100), body))
	plain("type-1-format-11-as-2.1", 1, cat(W(11), body))
	plain("type-1-format-31-as-4.1", 1, cat(W(31), body))
	plain("type-2-format-11-as-3.1", 2, cat(W(11), body))
	plain("type-3-format-11-as-4.1", 3, cat(W(11), body))
	plain("type-0-format-11-as-1.1", 0, cat(W(11), body))
	plain("type-0-format-12-as-1.2", 0, cat(W(12), body))
	plain("type-0-format-81-as-8.1", 0, cat(W(81), body8))
	plain("type-0-format-1", 0, cat(W(1), body))
	plain("type-9-format-1", 9, cat(W(1), body))
	plain("type-4-format-11-foreign-51", 4, cat(W(11), body))
	plain("type-4-format-12-foreign-52", 4, cat(W(12), body))
	plain("type-3-format-23-foreign-53", 3, cat(W(23), body))
	plain("type-0-format-61-foreign", 0, cat(W(61), body))
	plain("type-2-format-51-foreign-71", 2, cat(W(51), body))
	plain("type-5-format-1-foreign", 5, cat(W(1), body))
	plain("type-5-format-3-foreign", 5, cat(W(3), body))
	plain("type-6-format-2-foreign", 6, cat(W(2), body))
	plain("type-7-format-1-foreign", 7, cat(W(1), body))
	plain("type-6555-format-1-wrap-15", 6555, cat(W(1), body))
	plain("type-6554-format-1-wrap-5", 6554, cat(W(1), body))
	plain("type-65535-format-1", 65535, cat(W(1), body))
	plain("type-65535-format-21-as-1.1", 65535, cat(W(21), body))
	plain("type-32769-format-1-wrap-1.1", 32769, cat(W(1), body))
	plain("type-32769-format-2-wrap-1.2", 32769, cat(W(2), body))
	plain("type-32770-format-1-wrap-2.1", 32770, cat(W(1), body))
	plain("type-32772-format-1-wrap-4.1", 32772, cat(W(1), body))
	plain("type-32776-format-1-wrap-8.1", 32776, cat(W(1), body8))
	plain("type-32773-format-1-wrap-foreign-51", 32773, cat(W(1), body))
	plain("type-6560-format-7-wrap-foreign-71", 6560, cat(W(7), body))
	plain("type-1-format-65527-wrap-1.1", 1, cat(W(65527), body)) // 10 + 65527 = 65537 = 1 (mod 65536): invalid
	plain("type-2-format-65527-wrap-11", 2, cat(W(65527), body))  // 20 + 65527 = 11 (mod 65536): read as 1.1 before the repair
	// since the dispatcher repair (gsub.go:42: lookup type or format above 9 is rejected) every
	// "-as-", "-wrap-" and non-valid "-foreign-" case above is err:invalid on both sides; only the
	// valid keys of types 5, 6, 7 remain err:foreign
	plain("type-4-format-65497-wrap-1", 4, cat(W(65497), body))
	plain("type-65497-format-1-wrap", 65497, cat(W(1), body))
	plain("type-5-format-0xffcf-wrap-1", 5, cat(W(0xffcf), body))
	plain("type-0xffcf-format-1-wrap", 0xffcf, cat(W(1), body))
	plain("type-10-format-1", 10, cat(W(1), body))
	plain("type-1-format-10", 1, cat(W(10), body))
	plain("type-6-format-3-foreign", 6, cat(W(3), body))
	plain("type-7-format-2-invalid", 7, cat(W(2), body))
	return tt
}

// ---------------------------------------------------------------- GSUB seeds

type totalGsubsubSub struct {
	tp, pos int
}

// totalGsubsubWalk lists the subtables of lookup types 1, 2, 3, 4, 8 of a whole GSUB table
// (extension subtables resolved), with every access bounds-checked.
func totalGsubsubWalk(t []byte) []totalGsubsubSub {
	u16 := func(p int) (int, bool) {
		if p < 0 || p+2 > len(t) {
			return 0, false
		}
		return int(t[p])<<8 | int(t[p+1]), true
	}
	var out []totalGsubsubSub
	llOff, ok := u16(8)
	if !ok {
		return nil
	}
	count, ok := u16(llOff)
	if !ok {
		return nil
	}
	for i := 0; i < count; i++ {
		lo, ok := u16(llOff + 2 + 2*i)
		if !ok {
			break
		}
		lt := llOff + lo
		tp, ok1 := u16(lt)
		_, ok2 := u16(lt + 2)
		sc, ok3 := u16(lt + 4)
		if !ok1 || !ok2 || !ok3 {
			continue
		}
		for j := 0; j < sc; j++ {
			so, ok := u16(lt + 6 + 2*j)
			if !ok {
				break
			}
			sp, stp := lt+so, tp
			if tp == 7 {
				f, ok1 := u16(sp)
				et, ok2 := u16(sp + 2)
				hi, ok3 := u16(sp + 4)
				low, ok4 := u16(sp + 6)
				if !ok1 || !ok2 || !ok3 || !ok4 || f != 1 {
					continue
				}
				sp, stp = sp+hi<<16+low, et
			}
			switch stp {
			case 1, 2, 3, 4, 8:
				if sp >= 0 && sp+2 <= len(t) {
					out = append(out, totalGsubsubSub{stp, sp})
				}
			}
		}
	}
	return out
}

// totalGsubsubEncoded: one subtable of each kind written by the library's own encoders.
func totalGsubsubEncoded() []totalGsubsubTab {
	enc := func(st gtab.Subtable) (b []byte) {
		defer func() {
			if recover() != nil {
				b = nil
			}
		}()
		return gtab.VerifSubtableEncode(st)
	}
	type gid = glyph.ID
	list := []struct {
		name string
		tp   int
		st   gtab.Subtable
	}{
		{"enc:1.1", 1, &gtab.Gsub1_1{Cov: coverage.Set{3: true, 4: true, 9: true, 0xffff: true}, Delta: 0xfffe}},
		{"enc:1.2", 1, &gtab.Gsub1_2{Cov: coverage.Table{3: 0, 5: 1, 6: 2}, SubstituteGlyphIDs: []gid{7, 0, 0xffff}}},
		{"enc:2.1", 2, &gtab.Gsub2_1{Cov: coverage.Table{3: 0, 5: 1}, Repl: [][]gid{{1, 2, 3}, {4}}}},
		{"enc:3.1", 3, &gtab.Gsub3_1{Cov: coverage.Table{10: 0, 11: 1, 12: 2, 13: 3}, Alternates: [][]gid{{1}, {2, 3}, {4, 5, 6}, {7}}}},
		{"enc:4.1", 4, &gtab.Gsub4_1{Cov: coverage.Table{3: 0, 5: 1}, Repl: [][]gtab.Ligature{
			{{In: []gid{5, 6}, Out: 30}, {In: []gid{5}, Out: 31}, {In: []gid{}, Out: 32}},
			{{In: []gid{7, 7, 7, 7}, Out: 33}}}}},
		{"enc:8.1", 8, &gtab.Gsub8_1{Input: coverage.Table{3: 0, 4: 1},
			Backtrack:          []coverage.Table{{1: 0}, {2: 0, 3: 1}},
			Lookahead:          []coverage.Table{{9: 0, 20: 1, 21: 2}},
			SubstituteGlyphIDs: []gid{10, 11}}},
		{"enc:8.1-bare", 8, &gtab.Gsub8_1{Input: coverage.Table{7: 0}, SubstituteGlyphIDs: []gid{8}}},
	}
	var out []totalGsubsubTab
	for _, e := range list {
		if b := enc(e.st); len(b) > 0 {
			out = append(out, totalGsubsubTab{name: e.name, tp: e.tp, b: b})
		}
	}
	return out
}

// ---------------------------------------------------------------- generator

func totalGsubsubGen(c *Ctx, r *Rng, seeds []totalSeed) {
	budget := c.N / 3
	cnt, limit := 0, 0
	seen := map[string]bool{}
	emit := func(gen string, tp int, b []byte, pos int, nontrivial, force bool) bool {
		if !force && cnt >= limit {
			return false
		}
		key := strconv.Itoa(tp) + " " + strconv.Itoa(pos) + " " + string(b)
		if seen[key] {
			return false
		}
		seen[key] = true
		out := c.Case(Verdict, "tmgsubsub.read", "bytes="+hx(b)+" pos="+strconv.Itoa(pos)+" type="+strconv.Itoa(tp), nontrivial)
		cnt++
		c.Stat("tmgsubsub:read", totalGsubsubClass(out))
		c.Stat("tmgsubsub:gen", gen)
		c.Stat("tmgsubsub:bytes", bucket(len(b)))
		c.Stat("tmgsubsub:type", strconv.Itoa(tp))
		if pos > 0 {
			c.Stat("tmgsubsub:pos", bucket(pos))
		}
		return true
	}
	full := func() bool { return cnt >= limit }
	withPrefix := func(b []byte) ([]byte, int) {
		pre := r.Bytes(r.Range(1, 9))
		return totalGsubsubCat(pre, b), len(pre)
	}
	// pool: the inputs that are mutated in step 4
	var pool []totalGsubsubTab

	// 1. structured subtables (always): at pos 0, a third of them also behind a junk prefix, a few
	// at positions inside / at the end / beyond the end of the data
	tabs := totalGsubsubStructured(r)
	for _, t := range tabs {
		kind := "format-key"
		if !t.plain {
			kind = t.name
			if i := strings.IndexByte(kind, '-'); i >= 0 {
				kind = kind[:i]
			}
			pool = append(pool, t)
		}
		if emit("structured", t.tp, t.b, 0, !t.plain, true) {
			c.Stat("tmgsubsub:kind", kind)
		}
		if r.Chance(1, 3) || t.posx {
			pb, pp := withPrefix(t.b)
			emit("structured-prefix", t.tp, pb, pp, !t.plain, true)
			if t.posx {
				emit("structured-pos", t.tp, pb, len(pb), false, true)
				emit("structured-pos", t.tp, pb, pp+2, false, true)
				emit("structured-pos", t.tp, pb, 0, false, true)
			}
		}
		if t.posx {
			for _, p := range []int{len(t.b), len(t.b) + 1, len(t.b) + 1000, 1, 2, 4, len(t.b) - 1, len(t.b) - 2} {
				if p >= 0 {
					emit("structured-pos", t.tp, t.b, p, false, true)
				}
			}
		}
	}
	// a handful of large inputs (up to ~40 KB lines)
	{
		W, raw := totalGsubsubW, totalGsubsubRaw
		n := 1600
		ws := make([]int, 0, 2+n)
		ws = append(ws, 1, n)
		for k := 0; k < n; k++ {
			ws = append(ws, 2*k+k/1000)
		}
		bigCov := W(ws...)
		emit("large", 1, totalGsubsubSub11(bigCov, 0x8000), 0, true, true)
		c.Stat("tmgsubsub:large", "1.1-cov1-1600")
		emit("large", 1, totalGsubsubSub12(bigCov, totalGsubsubGidList(r, 1500)), 0, true, true)
		c.Stat("tmgsubsub:large", "1.2-n1500-cov1600")
		recs := make([][]int, 40)
		for i := range recs {
			recs[i] = totalGsubsubGidList(r, r.Range(0, 5))
		}
		refs := make([]int, 1600)
		for i := range refs {
			refs[i] = r.Intn(len(recs))
		}
		emit("large", 2, totalGsubsubSeq(bigCov, recs, refs, false), 0, true, true)
		c.Stat("tmgsubsub:large", "2.1-n1600-aliased")
		// 4.1 with 2000 distinct small sets, and the cap met by the sheer number of sets
		sets := make([]totalGsubsubSet, 1500)
		srefs := make([]int, len(sets))
		for i := range sets {
			sets[i] = totalGsubsubSet{ligs: []totalGsubsubLig{{out: i, cc: 2, in: []int{i + 1}}}, refs: []int{0}}
			srefs[i] = i
		}
		emit("large", 4, totalGsubsubSub41(totalGsubsubCov2([3]int{0, len(sets) - 1, 0}), sets, srefs, true), 0, true, true)
		c.Stat("tmgsubsub:large", "4.1-n1500-distinct")
		// the cap exceeded by the number of (aliased) sets alone: 6 + 18*4000
		emit("large", 4, totalGsubsubSub41(totalGsubsubCov2([3]int{0, 3999, 0}),
			[]totalGsubsubSet{{ligs: []totalGsubsubLig{{out: 30, cc: 5, in: []int{1, 2, 3, 4}}}, refs: []int{0}}}, make([]int, 4000), false), 0, true, true)
		c.Stat("tmgsubsub:large", "4.1-cap-n4000-aliased")
		back := make([]int, 600)
		for i := range back {
			back[i] = Pick(r, []int{0, 1, raw(0)})
		}
		emit("large", 8, totalGsubsubSub81([][]byte{totalGsubsubCov1(7, 9), totalGsubsubCov2([3]int{3, 5, 0})}, 0, back, back[:300], []int{30, 31}), 0, true, true)
		c.Stat("tmgsubsub:large", "8.1-nb600-nl300-aliased")
	}

	// one subtable of each kind from the library's own encoders
	for _, t := range totalGsubsubEncoded() {
		pool = append(pool, t)
		if emit("seed-enc", t.tp, t.b, 0, true, true) {
			c.Stat("tmgsubsub:seed", t.name)
		}
	}

	base := cnt
	rem := budget - base
	if rem < 0 {
		rem = 0
	}
	const parts = 16 // seeds 1, random valid 5, mutations 4, truncations 4, random 2
	phase := func(k int) { limit = base + rem*k/parts }

	// 2. the subtables of the GSUB seeds
	type seedSub struct {
		t   totalGsubsubTab
		src string
	}
	var subs []seedSub
	for _, s := range seeds {
		if s.dec != "gsub" {
			continue
		}
		for _, st := range totalGsubsubWalk(s.bytes) {
			if len(s.bytes) <= 1500 {
				subs = append(subs, seedSub{totalGsubsubTab{name: "seed", tp: st.tp, b: s.bytes, pos: st.pos}, s.src})
				continue
			}
			end := st.pos + 1500
			if end > len(s.bytes) {
				end = len(s.bytes)
			}
			subs = append(subs, seedSub{totalGsubsubTab{name: "seed-cut", tp: st.tp, b: s.bytes[st.pos:end]}, s.src})
		}
	}
	for i := len(subs) - 1; i > 0; i-- {
		j := r.Intn(i + 1)
		subs[i], subs[j] = subs[j], subs[i]
	}
	phase(1)
	for _, s := range subs {
		pool = append(pool, s.t)
		if full() {
			continue
		}
		if emit(s.t.name, s.t.tp, s.t.b, s.t.pos, true, false) {
			c.Stat("tmgsubsub:seed", s.src)
			c.Stat("tmgsubsub:kind", "seed-type-"+strconv.Itoa(s.t.tp))
		}
	}
	if len(subs) == 0 {
		c.Stat("tmgsubsub:seed", "none")
	}

	// 3. random valid subtables, a third of them behind a prefix
	phase(6)
	for it := 0; !full() && it < 20*rem+100; it++ {
		tp, b, kind := totalGsubsubRandValid(r)
		if len(b) > 2500 && r.Chance(3, 4) {
			continue
		}
		pos := 0
		if r.Chance(1, 3) {
			b, pos = withPrefix(b)
		}
		if emit("valid", tp, b, pos, true, false) {
			c.Stat("tmgsubsub:kind", kind)
			if len(pool) < 4000 {
				pool = append(pool, totalGsubsubTab{name: "valid", tp: tp, b: b, pos: pos})
			}
		}
	}

	// 4. mutations of the structured, seed and random valid inputs (type and position kept)
	phase(10)
	for it := 0; !full() && len(pool) > 0 && it < 20*rem+100; it++ {
		t := Pick(r, pool)
		if len(t.b) > 2500 && r.Chance(3, 4) {
			continue
		}
		m, what := totalMutate(r, t.b)
		if t.pos > 0 && r.Bool() && len(t.b) > t.pos {
			// mutate behind the position only
			var tail []byte
			tail, what = totalMutate(r, t.b[t.pos:])
			m = totalGsubsubCat(t.b[:t.pos], tail)
		}
		if emit("mutation", t.tp, m, t.pos, true, false) {
			c.Stat("tmgsubsub:mutation", what)
		}
	}

	// 5. truncation at every offset of the small structured inputs
	phase(14)
	var small []totalGsubsubTab
	for _, t := range tabs {
		if !t.plain && len(t.b) > 0 && len(t.b) <= 60 {
			small = append(small, t)
		}
	}
	// one input of each kind first (names begin with the kind: "1.1-", "4.1-", …), then any
	var order []totalGsubsubTab
	for _, k := range []string{"1.1-", "1.2-", "2.1-", "3.1-", "4.1-", "8.1-"} {
		var of []totalGsubsubTab
		for _, t := range small {
			if strings.HasPrefix(t.name, k) && len(t.b) >= 12 && len(t.b) <= 36 {
				of = append(of, t)
			}
		}
		if len(of) > 0 {
			order = append(order, Pick(r, of))
		}
	}
	for it := 0; !full() && len(small) > 0 && it < 30*len(small); it++ {
		t := Pick(r, small)
		if it < len(order) {
			t = order[it]
		}
		for n := 0; n < len(t.b); n++ {
			if emit("truncate-every", t.tp, t.b[:n], 0, false, false) {
				c.Stat("tmgsubsub:truncated", t.name)
			}
		}
	}

	// 6. random bytes, the format word forced to 1 or 2 half of the time
	limit = budget
	if limit < base {
		limit = base
	}
	for it := 0; !full() && it < 20*rem+100; it++ {
		b := r.Bytes(r.Range(0, 48))
		if r.Bool() && len(b) >= 2 {
			b[0], b[1] = 0, byte(r.Range(1, 2))
		}
		if r.Bool() { // small words: offsets and counts that stay inside the data
			for i := 2; i+1 < len(b); i += 2 {
				if r.Chance(2, 3) {
					b[i], b[i+1] = 0, byte(r.Intn(len(b)+2))
				}
			}
		}
		pos := 0
		if r.Chance(1, 5) {
			pos = r.Range(0, len(b)+2)
		}
		emit("random", Pick(r, []int{1, 2, 3, 4, 8}), b, pos, false, false)
	}
}
