package main

// C02, group `metrics`: verdict stream of the checked-index Lean models of hmtx.Decode,
// head.Read, os2.Read and post.Read (lean/SfntV/Model/TotalMetrics.lean).
//
//   tmmetrics.hmtx bytes=<hmtx hex | -> hhea=<hex>     ("-" = nil slice)
//   tmmetrics.head bytes=<hex>
//   tmmetrics.os2  bytes=<hex>
//   tmmetrics.post bytes=<hex>
//
// answer: ok:<canonical fields> | err:<class> | panic.  Floats are not compared: the caret angle
// of hmtx.Info is omitted; post.ItalicAngle (float64(int32)/65536, an exact conversion) is printed
// as the fixed-point integer ItalicAngle*65536 (exact), head.FontRevision is an integer type.

import (
	"bytes"
	"errors"
	"fmt"
	"io"
	"math"
	"strings"
	"time"

	"seehuhn.de/go/postscript/funit"

	"seehuhn.de/go/sfnt/head"
	"seehuhn.de/go/sfnt/hmtx"
	"seehuhn.de/go/sfnt/os2"
	"seehuhn.de/go/sfnt/parser"
	"seehuhn.de/go/sfnt/post"
)

func totalMetricsErr(err error) string {
	var e1 *parser.NotSupportedError
	var e2 *parser.InvalidFontError
	msg := err.Error()
	switch {
	case errors.As(err, &e1):
		return "err:unsupported"
	case errors.As(err, &e2):
		return "err:invalid"
	case err == io.EOF || err == io.ErrUnexpectedEOF:
		return "err:short"
	case strings.Contains(msg, "unsupported hhea version"):
		return "err:version"
	case strings.Contains(msg, "unsupported metric data format"):
		return "err:format"
	case strings.Contains(msg, "hmtx too short"):
		return "err:hmtx-short"
	}
	return "err:other:" + strings.ReplaceAll(msg, " ", "_")
}

func totalMetricsB01(b bool) string {
	if b {
		return "1"
	}
	return "0"
}

func totalMetricsInts16(l []funit.Int16) string {
	s := make([]string, len(l))
	for i, x := range l {
		s[i] = fmt.Sprint(int(x))
	}
	return strings.Join(s, ",")
}

func totalMetricsHmtxBytes(f Fields) []byte {
	if f["bytes"] == "-" {
		return nil
	}
	b := f.Hex("bytes")
	if b == nil {
		b = []byte{}
	}
	return b
}

func init() {
	ops["tmmetrics.hmtx"] = func(f Fields) string {
		return totalCanonPanic(guard(func() string {
			info, err := hmtx.Decode(f.Hex("hhea"), totalMetricsHmtxBytes(f))
			if err != nil {
				return totalMetricsErr(err)
			}
			return fmt.Sprintf("ok:%d,%d,%d,%d;w=%s;lsb=%s", info.Ascent, info.Descent, info.LineGap,
				info.CaretOffset, totalMetricsInts16(info.Widths), totalMetricsInts16(info.LSB))
		}))
	}
	ops["tmmetrics.head"] = func(f Fields) string {
		return totalCanonPanic(guard(func() string {
			h, err := head.Read(bytes.NewReader(f.Hex("bytes")))
			if err != nil {
				return totalMetricsErr(err)
			}
			return fmt.Sprintf("ok:rev=%d y0=%s x0=%s nl=%s upm=%d created=%d modified=%d bbox=%d:%d:%d:%d bold=%s italic=%s shadow=%s cond=%s extd=%s ppem=%d loca=%d",
				uint32(h.FontRevision), totalMetricsB01(h.HasYBaseAt0), totalMetricsB01(h.HasXBaseAt0),
				totalMetricsB01(h.IsNonlinear), h.UnitsPerEm, h.Created.Unix(), h.Modified.Unix(),
				h.FontBBox.LLx, h.FontBBox.LLy, h.FontBBox.URx, h.FontBBox.URy,
				totalMetricsB01(h.IsBold), totalMetricsB01(h.IsItalic), totalMetricsB01(h.HasShadow),
				totalMetricsB01(h.IsCondensed), totalMetricsB01(h.IsExtended), h.LowestRecPPEM, h.LocaFormat)
		}))
	}
	ops["tmmetrics.os2"] = func(f Fields) string {
		return totalCanonPanic(guard(func() string {
			o, err := os2.Read(bytes.NewReader(f.Hex("bytes")))
			if err != nil {
				return totalMetricsErr(err)
			}
			sub := []int{int(o.SubscriptXSize), int(o.SubscriptYSize), int(o.SubscriptXOffset), int(o.SubscriptYOffset),
				int(o.SuperscriptXSize), int(o.SuperscriptYSize), int(o.SuperscriptXOffset), int(o.SuperscriptYOffset),
				int(o.StrikeoutSize), int(o.StrikeoutPosition)}
			return fmt.Sprintf("ok:wc=%d wd=%d bold=%s italic=%s regular=%s oblique=%s first=%d last=%d asc=%d desc=%d wasc=%d wdesc=%d "+
				"gap=%d cap=%d xh=%d avg=%d sub=%s fam=%d panose=%s vendor=%s ur=%d,%d,%d,%d cpr=%d perm=%d nosub=%s bitmap=%s",
				int(o.WeightClass), int(o.WidthClass), totalMetricsB01(o.IsBold), totalMetricsB01(o.IsItalic),
				totalMetricsB01(o.IsRegular), totalMetricsB01(o.IsOblique),
				o.FirstCharIndex, o.LastCharIndex, o.Ascent, o.Descent, o.WinAscent, o.WinDescent, o.LineGap, o.CapHeight,
				o.XHeight, o.AvgGlyphWidth, ints(sub), o.FamilyClass, hx(o.Panose[:]), hx([]byte(o.Vendor)),
				o.UnicodeRange[0], o.UnicodeRange[1], o.UnicodeRange[2], o.UnicodeRange[3], uint64(o.CodePageRange),
				int(o.PermUse), totalMetricsB01(o.PermNoSubsetting), totalMetricsB01(o.PermOnlyBitmap))
		}))
	}
	ops["tmmetrics.post"] = func(f Fields) string {
		return totalCanonPanic(guard(func() string {
			b := f.Hex("bytes")
			p, err := post.Read(bytes.NewReader(b))
			if err != nil {
				return totalMetricsErr(err)
			}
			ver := uint32(b[0])<<24 | uint32(b[1])<<16 | uint32(b[2])<<8 | uint32(b[3])
			names := "-1;"
			if p.Names != nil {
				parts := make([]string, len(p.Names))
				for i, n := range p.Names {
					parts[i] = hx([]byte(n))
				}
				names = fmt.Sprintf("%d;", len(p.Names)) + strings.Join(parts, ",")
			}
			return fmt.Sprintf("ok:%d;%d,%d,%d,%s;", ver, int64(math.Round(p.ItalicAngle*65536)),
				p.UnderlinePosition, p.UnderlineThickness, totalMetricsB01(p.IsFixedPitch)) + names
		}))
	}
	totalModelGens["metrics"] = totalMetricsGen
}

// ---------------------------------------------------------------- generators

func totalMetricsI16(r *Rng) int {
	switch r.Intn(8) {
	case 0:
		return Pick(r, []int{-32768, -32767, 32767, 32766, 0, 1, -1})
	case 1, 2:
		return r.Range(-1200, 2400)
	}
	return r.Range(-32768, 32767)
}

func totalMetricsHhea(r *Rng, numLong int) []byte {
	var b []byte
	b = append(b, 0, 1, 0, 0)
	for i := 0; i < 15; i++ { // 15 int16 fields up to and including metricDataFormat
		b = append(b, totalBe16b(totalMetricsI16(r)&0xffff)...)
	}
	b[32], b[33] = 0, 0 // metricDataFormat
	return append(b, totalBe16b(numLong)...)
}

// totalMetricsGenHmtx: hhea + hmtx around every threshold of the decoding loop.
func totalMetricsGenHmtx(r *Rng) (hhea []byte, hm []byte, isNil bool, what string) {
	numGlyphs := Pick(r, []int{0, 1, 2, 3, 5, 17, r.Range(1, 40), r.Range(1, 300)})
	numLong := numGlyphs
	what = "long=all"
	switch r.Intn(8) {
	case 0:
		numLong, what = 0, "long=0"
	case 1:
		numLong, what = 1, "long=1"
	case 2:
		if numGlyphs > 0 {
			numLong, what = r.Range(0, numGlyphs), "long=some"
		}
	case 3:
		numLong, what = numGlyphs+r.Range(1, 3), "long>glyphs"
	case 4:
		numLong, what = Pick(r, []int{65535, 32768, 32767}), "long=huge"
	}
	for i := 0; i < numGlyphs; i++ {
		if i < numLong {
			hm = append(hm, totalBe16b(totalMetricsI16(r)&0xffff)...)
		}
		hm = append(hm, totalBe16b(totalMetricsI16(r)&0xffff)...)
	}
	hhea = totalMetricsHhea(r, numLong)
	switch r.Intn(14) {
	case 0: // odd tail
		hm = append(hm, byte(r.U64()))
		what += ",odd-tail"
	case 1: // extra trailing bearings (numGlyphs larger than NumOfLongHorMetrics)
		for k := r.Range(1, 9); k > 0; k-- {
			hm = append(hm, totalBe16b(totalMetricsI16(r)&0xffff)...)
		}
		what += ",extra-lsb"
	case 2: // cut one or two bytes
		if len(hm) > 0 {
			hm = hm[:len(hm)-r.Range(1, min(3, len(hm)))]
			what += ",cut"
		}
	case 3:
		hm, isNil = nil, true
		what += ",nil"
	case 4:
		hm = []byte{}
		what += ",empty"
	case 5:
		copy(hhea[0:4], Pick(r, [][]byte{{0, 1, 0, 1}, {0, 0, 0, 0}, {0, 2, 0, 0}, {1, 1, 0, 0}}))
		what += ",version"
	case 6:
		copy(hhea[32:34], totalBe16b(Pick(r, []int{1, 0xffff, 0x100, 0x8000})))
		what += ",format"
	case 7:
		hhea = hhea[:Pick(r, []int{0, 1, 35, 34, r.Intn(36)})]
		what += ",hhea-short"
	case 8:
		hhea = append(hhea, r.Bytes(r.Range(1, 5))...)
		what += ",hhea-long"
	}
	return
}

func totalMetricsGenHead(r *Rng) ([]byte, string) {
	tm := func() time.Time {
		switch r.Intn(6) {
		case 0:
			return time.Time{}
		case 1:
			return time.Unix(int64(r.U64()), 0)
		case 2:
			return time.Unix(-2082844800, 0)
		}
		return time.Unix(int64(r.Range(0, 2000000000)), 0)
	}
	info := &head.Info{
		FontRevision: head.Version(uint32(r.U64())), HasYBaseAt0: r.Bool(), HasXBaseAt0: r.Bool(), IsNonlinear: r.Bool(),
		UnitsPerEm: uint16(Pick(r, []int{0, 16, 1000, 2048, 16384, 65535, r.Intn(65536)})),
		Created:    tm(), Modified: tm(),
		FontBBox: funit.Rect16{LLx: funit.Int16(totalMetricsI16(r)), LLy: funit.Int16(totalMetricsI16(r)),
			URx: funit.Int16(totalMetricsI16(r)), URy: funit.Int16(totalMetricsI16(r))},
		IsBold: r.Bool(), IsItalic: r.Bool(), HasShadow: r.Bool(), IsCondensed: r.Bool(), IsExtended: r.Bool(),
		LowestRecPPEM: uint16(r.Intn(65536)), LocaFormat: int16(Pick(r, []int{0, 1, 2, -1, totalMetricsI16(r)})),
	}
	b := info.Encode()
	what := "valid"
	switch r.Intn(16) {
	case 0: // every checked field wrong in turn
		copy(b[0:4], Pick(r, [][]byte{{0, 1, 0, 1}, {0, 0, 0, 0}, {0, 2, 0, 0}, {1, 1, 0, 0}, {0, 1, 1, 0}}))
		what = "version"
	case 1:
		b[12+r.Intn(4)] ^= 1 << uint(r.Intn(8))
		what = "magic"
	case 2:
		copy(b[12:16], r.Bytes(4))
		what = "magic"
	case 3:
		b = b[:Pick(r, []int{0, 1, 53, 52, r.Intn(54)})]
		what = "short"
	case 4:
		b = append(b, r.Bytes(r.Range(1, 9))...)
		what = "long"
	case 5: // raw dates incl. the int64 extremes and 0
		for _, off := range []int{20, 28} {
			v := Pick(r, []uint64{0, 1, 1 << 63, 1<<63 - 1, ^uint64(0), r.U64(), 2082844800, uint64(1<<63 + 2082844800)})
			for k := 0; k < 8; k++ {
				b[off+k] = byte(v >> uint(56-8*k))
			}
		}
		what = "dates"
	case 6: // flags / macStyle / fields the decoder ignores
		copy(b[16:18], r.Bytes(2))
		copy(b[44:46], r.Bytes(2))
		copy(b[48:50], r.Bytes(2))
		copy(b[52:54], r.Bytes(2))
		copy(b[8:12], r.Bytes(4))
		what = "flags"
	}
	return b, what
}

// os2 struct boundaries: v0 68, v0ms 78, codePageRange 86, v2 96
func totalMetricsGenOs2(r *Rng) ([]byte, string) {
	b := r.Bytes(100)
	ver := Pick(r, []int{0, 1, 2, 3, 4, 5, 5, 4, 3, 2, 1, 0, 6, 0xffff, 0x100})
	copy(b, totalBe16b(ver))
	if r.Bool() { // the version-dependent masks
		copy(b[8:10], totalBe16b(Pick(r, []int{0, 2, 4, 8, 0x0e, 0x100, 0x200, 0x302, 0xfff0, 0xffff, r.Intn(65536)})))
		copy(b[62:64], totalBe16b(Pick(r, []int{0, 1, 0x20, 0x21, 0x40, 0x41, 0x60, 0x200, 0x240, 0x3ff, 0xffff, r.Intn(65536)})))
	}
	if r.Chance(1, 3) {
		copy(b[66:68], totalBe16b(Pick(r, []int{0xffff, 0xfffe, 0})))
	}
	if r.Chance(1, 3) { // xHeight / capHeight signs
		copy(b[86:88], totalBe16b(Pick(r, []int{0, 1, 0x7fff, 0x8000, 0xffff})))
		copy(b[88:90], totalBe16b(Pick(r, []int{0, 1, 0x7fff, 0x8000, 0xffff})))
	}
	n := Pick(r, []int{96, 96, 96, 100, 97, 95, 87, 86, 85, 79, 78, 77, 69, 68, 67, 66, 0, 1, 2, r.Intn(101)})
	return b[:n], fmt.Sprintf("v%d,len=%d", ver, n)
}

func totalMetricsPostHeader(r *Rng, version uint32) []byte {
	b := totalBe32b(int(version))
	b = append(b, r.Bytes(4)...)                            // italic angle
	b = append(b, totalBe16b(totalMetricsI16(r)&0xffff)...) // underline position
	b = append(b, totalBe16b(totalMetricsI16(r)&0xffff)...) // underline thickness
	b = append(b, totalBe32b(Pick(r, []int{0, 1, 2, 0x100, 0x80000000}))...)
	return append(b, r.Bytes(16)...)
}

func totalMetricsGenPost(r *Rng) ([]byte, string) {
	version := Pick(r, []uint32{0x00010000, 0x00020000, 0x00020000, 0x00020000, 0x00020000, 0x00020000, 0x00025000,
		0x00030000, 0x00040000, 0, 0x00010001, 0x00020001, 0xffffffff, 0x00050000})
	b := totalMetricsPostHeader(r, version)
	what := fmt.Sprintf("v%08x", version)
	if version != 0x00020000 {
		switch r.Intn(8) {
		case 0:
			b = b[:Pick(r, []int{0, 3, 4, 31, 30, r.Intn(32)})]
			what += ",short"
		case 1:
			b = append(b, r.Bytes(r.Range(1, 40))...)
			what += ",long"
		}
		return b, what
	}
	// version 2.0
	n := Pick(r, []int{0, 1, 2, 3, 8, r.Range(1, 30), r.Range(1, 30), r.Range(1, 400)})
	kind := r.Intn(10)
	idxs := make([]int, n)
	maxStr := -1
	next := 0 // next fresh string index
	for i := range idxs {
		var v int
		switch {
		case kind == 0: // all standard names
			v = r.Intn(258)
		case kind == 1: // thresholds
			v = Pick(r, []int{0, 257, 258, 259, 257, 258})
		case kind == 2 && r.Chance(1, 6): // far index: many strings are read in one go
			v = 258 + r.Range(0, 600)
		case kind == 3 && r.Chance(1, 10):
			v = Pick(r, []int{65535, 65534, 32768, 1000})
		default: // the encoder's shape: fresh strings in order, some repeats, some standard
			switch r.Intn(4) {
			case 0:
				v = r.Intn(258)
			case 1:
				if next > 0 {
					v = 258 + r.Intn(next)
				} else {
					v = 258
				}
			default:
				v = 258 + next
			}
		}
		if v >= 258 && v-258 >= next {
			next = v - 258 + 1
		}
		if v-258 > maxStr {
			maxStr = v - 258
		}
		idxs[i] = v
	}
	b = append(b, totalBe16b(n)...)
	for _, v := range idxs {
		b = append(b, totalBe16b(v)...)
	}
	nStr := maxStr + 1
	if nStr > 3000 {
		nStr = r.Range(0, 40) // strings missing: io error after a long run
		what += ",strings-missing"
	}
	for s := 0; s < nStr; s++ {
		l := Pick(r, []int{0, 1, 3, 7, r.Range(0, 20), r.Range(0, 20), 255, 254})
		if nStr > 50 {
			l = Pick(r, []int{0, 1, 2, r.Range(0, 6)})
		}
		b = append(b, byte(l))
		b = append(b, r.Bytes(l)...)
	}
	what += fmt.Sprintf(",kind%d", kind)
	switch r.Intn(12) {
	case 0: // count larger than the data
		copy(b[32:34], totalBe16b(Pick(r, []int{n + 1, n + 2, 0xffff, 0x8000, n + nStr + 1})))
		what += ",count-up"
	case 1:
		if n > 0 {
			copy(b[32:34], totalBe16b(r.Intn(n)))
			what += ",count-down"
		}
	case 2: // drop the last string or part of it
		cut := r.Range(1, 12)
		if cut > len(b)-32 {
			cut = len(b) - 32
		}
		b = b[:len(b)-cut]
		what += ",cut"
	case 3: // string length byte inflated
		if nStr > 0 && len(b) > 34+2*n {
			b[34+2*n] = Pick(r, []byte{255, 254, 128, byte(r.U64())})
			what += ",len-inflated"
		}
	case 4:
		b = append(b, r.Bytes(r.Range(1, 20))...)
		what += ",trailing"
	}
	return b, what
}

func totalMetricsGen(c *Ctx, r *Rng, seeds []totalSeed) {
	cls := func(out string) string {
		if i := strings.Index(out, ":"); i >= 0 {
			return out[:i]
		}
		return out
	}
	emit := func(fn, how, args string, n int) {
		out := c.Case(Verdict, "tmmetrics."+fn, args, n >= 4)
		c.Stat("tmmetrics:"+fn, cls(out))
		c.Stat("tmmetrics-how:"+fn, how+" -> "+cls(out))
		if strings.HasPrefix(out, "err:") {
			c.Stat("tmmetrics-err:"+fn, out)
		}
	}
	hm := func(how string, hhea, b []byte, isNil bool) {
		bs := hx(b)
		if isNil {
			bs = "-"
		}
		emit("hmtx", how, "bytes="+bs+" hhea="+hx(hhea), len(b)+len(hhea))
	}
	one := func(fn, how string, b []byte) { emit(fn, how, "bytes="+hx(b), len(b)) }

	mine := map[string][]totalSeed{}
	for _, s := range seeds {
		switch s.dec {
		case "hmtx", "head", "os2", "post":
			if len(s.bytes) <= 6000 {
				mine[s.dec] = append(mine[s.dec], s)
			}
		}
	}
	hheaOf := func(s totalSeed) []byte {
		return Fields{"x": strings.TrimPrefix(s.extra, " hhea=")}.Hex("x")
	}

	// 1. the valid tables of the seed pool, truncation at every offset of the small ones
	for _, fn := range []string{"hmtx", "head", "os2", "post"} {
		for k, s := range mine[fn] {
			if fn == "hmtx" {
				hh := hheaOf(s)
				hm("seed", hh, s.bytes, false)
				if k < 3 {
					for n := 0; n < len(s.bytes) && n < 200; n++ {
						hm("truncate-every", hh, s.bytes[:n], false)
					}
					for n := 0; n < len(hh); n++ {
						hm("truncate-hhea", hh[:n], s.bytes, false)
					}
					hm("nil", hh, nil, true)
				}
				continue
			}
			one(fn, "seed", s.bytes)
			if k < 3 {
				for n := 0; n < len(s.bytes) && n < 200; n++ {
					one(fn, "truncate-every", s.bytes[:n])
				}
			}
		}
	}
	// os2: every length 0..100 for every version 0..6 (struct boundaries 68, 78, 86, 96 ±1 included)
	for ver := 0; ver <= 6; ver++ {
		base := r.Bytes(100)
		copy(base, totalBe16b(ver))
		for _, n := range []int{0, 1, 2, 66, 67, 68, 69, 70, 76, 77, 78, 79, 80, 84, 85, 86, 87, 88, 94, 95, 96, 97, 98, 100} {
			one("os2", "boundary", base[:n])
		}
	}
	// post: the thresholds of the name index, one at a time
	for _, v := range []int{0, 1, 256, 257, 258, 259, 260, 300, 65535} {
		for _, strs := range []int{0, 1, 2, 3, 43} {
			b := totalMetricsPostHeader(r, 0x00020000)
			b = append(b, 0, 1)
			b = append(b, totalBe16b(v)...)
			for s := 0; s < strs; s++ {
				l := Pick(r, []int{0, 255, 1, 5})
				b = append(b, byte(l))
				b = append(b, r.Bytes(l)...)
			}
			one("post", "threshold", b)
		}
	}

	// 2. structured, mutated, random
	n := c.N / 3
	for i := 0; i < n; i++ {
		for _, fn := range []string{"hmtx", "head", "os2", "post"} {
			var b, hhea []byte
			isNil := false
			how := "structured"
			switch fn {
			case "hmtx":
				hhea, b, isNil, _ = totalMetricsGenHmtx(r)
			case "head":
				b, _ = totalMetricsGenHead(r)
			case "os2":
				b, _ = totalMetricsGenOs2(r)
			case "post":
				b, _ = totalMetricsGenPost(r)
			}
			switch k := r.Intn(10); {
			case k < 5:
			case k < 8: // mutation of a structured input or of a seed
				if ss := mine[fn]; len(ss) > 0 && r.Bool() {
					s := Pick(r, ss)
					b = s.bytes
					isNil = false
					if fn == "hmtx" {
						hhea = hheaOf(s)
					}
				}
				var h string
				if fn == "hmtx" && r.Chance(1, 3) {
					hhea, h = totalMutate(r, hhea)
				} else {
					if isNil {
						b, isNil = []byte{}, false
					}
					b, h = totalMutate(r, b)
				}
				how = "mutate:" + h
			case k < 9: // random bytes behind a plausible start
				l := Pick(r, []int{r.Intn(8), r.Range(30, 120), r.Range(0, 300)})
				rb := r.Bytes(l)
				if r.Bool() && len(b) >= 4 {
					copy(rb, b[:min(len(b), Pick(r, []int{2, 4, 34, 68}))])
				}
				b, isNil = rb, false
				how = "random"
			default: // truncation
				if len(b) > 0 {
					b = b[:r.Intn(len(b))]
				}
				how = "truncate"
			}
			if fn == "hmtx" {
				hm(how, hhea, b, isNil)
			} else {
				one(fn, how, b)
			}
		}
	}
}
