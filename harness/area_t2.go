package main

// Area t2: the Type 2 charstring decoder (property C05) and encoder (property C04).
//
// Streams of C05
//   V t2.dec      decodeCharString (real code) vs Lean `interp goQuirks`
//   D t2.spec     decodeCharString vs Lean `interp strict` (the specification) on well-formed programs
//   D t2.rejects  single-fault programs: the real code must report an error (spec: err)
//   G t2.dec      mutated programs that contain div/sqrt (float results, not modelled exactly)

import (
	"bytes"
	"encoding/hex"
	"fmt"
	"math"
	"strings"

	"seehuhn.de/go/geom/matrix"
	"seehuhn.de/go/postscript/cid"
	"seehuhn.de/go/postscript/type1"
	"seehuhn.de/go/sfnt/cff"
	"seehuhn.de/go/sfnt/glyph"
)

// ---------------------------------------------------------------- canonical output

func t2units(x float64) string {
	u := x * 65536
	r := math.Round(u)
	if u != r || math.IsNaN(u) || math.IsInf(u, 0) {
		return fmt.Sprintf("~%g", x)
	}
	return fmt.Sprintf("%d", int64(r))
}

func t2unitsList(xs []float64) string {
	s := make([]string, len(xs))
	for i, x := range xs {
		s[i] = t2units(x)
	}
	return strings.Join(s, ",")
}

func t2errClass(err error) string {
	m := err.Error()
	for _, p := range [][2]string{
		{"stack overflow", "overflow"}, {"stack underflow", "underflow"},
		{"incomplete type 2", "incomplete"}, {"subroutine index", "subr"},
		{"too late for stem", "late"}, {"too early for hintmask", "early"},
		{"invalid index", "index"}, {"invalid roll count", "roll"},
		{"invalid store index", "store"}, {"maximum call stack", "depth"},
		{"unsupported type 2 opcode", "badop"}, {"before moveTo", "nomove"},
	} {
		if strings.Contains(m, p[0]) {
			return p[1]
		}
	}
	return "other(" + strings.ReplaceAll(m, " ", "_") + ")"
}

func t2showGlyph(g *cff.Glyph) string {
	cmds := make([]string, len(g.Cmds))
	for i, c := range g.Cmds {
		switch c.Op {
		case cff.OpMoveTo:
			cmds[i] = "m:" + t2unitsList(c.Args)
		case cff.OpLineTo:
			cmds[i] = "l:" + t2unitsList(c.Args)
		case cff.OpCurveTo:
			cmds[i] = "c:" + t2unitsList(c.Args)
		case cff.OpHintMask, cff.OpCntrMask:
			b := make([]byte, len(c.Args))
			for j, a := range c.Args {
				b[j] = byte(a)
			}
			t := "h:"
			if c.Op == cff.OpCntrMask {
				t = "k:"
			}
			cmds[i] = t + hx(b)
		}
	}
	return fmt.Sprintf("ok w=%s hs=%s vs=%s cmds=%s", t2units(g.Width), t2unitsList(g.HStem),
		t2unitsList(g.VStem), strings.Join(cmds, ";"))
}

// ---------------------------------------------------------------- case line <-> environment

type t2env struct {
	ns, ng   int
	sd, gd   []byte         // default body of the unlisted subroutines
	subrs    map[int][]byte // listed entries
	gsubrs   map[int][]byte
	dw, nw   int64 // 16.16 units
	subrsOrd []int
	gsubrOrd []int
}

func newT2env() *t2env {
	return &t2env{sd: []byte{11}, gd: []byte{11}, subrs: map[int][]byte{}, gsubrs: map[int][]byte{}}
}

func (e *t2env) setSubr(glob bool, i int, body []byte) {
	if glob {
		if _, ok := e.gsubrs[i]; !ok {
			e.gsubrOrd = append(e.gsubrOrd, i)
		}
		e.gsubrs[i] = body
	} else {
		if _, ok := e.subrs[i]; !ok {
			e.subrsOrd = append(e.subrsOrd, i)
		}
		e.subrs[i] = body
	}
}

func t2entries(m map[int][]byte, ord []int) string {
	parts := make([]string, 0, len(ord))
	for _, i := range ord {
		parts = append(parts, fmt.Sprintf("%d:%s", i, hx(m[i])))
	}
	return strings.Join(parts, ";")
}

func (e *t2env) args(code []byte) string {
	return fmt.Sprintf("code=%s ns=%d sd=%s subrs=%s ng=%d gd=%s gsubrs=%s dw=%d nw=%d",
		hx(code), e.ns, hx(e.sd), t2entries(e.subrs, e.subrsOrd), e.ng, hx(e.gd),
		t2entries(e.gsubrs, e.gsubrOrd), e.dw, e.nw)
}

func t2table(n int, dflt []byte, ents []string) [][]byte {
	t := make([][]byte, n)
	for i := range t {
		t[i] = dflt
	}
	for _, e := range ents {
		var i int
		var h string
		if k := strings.IndexByte(e, ':'); k >= 0 {
			fmt.Sscan(e[:k], &i)
			h = e[k+1:]
		}
		b, err := hex.DecodeString(h)
		if err != nil {
			panic("bad hex in subr entry")
		}
		if i >= 0 && i < n {
			t[i] = b
		}
	}
	return t
}

func t2run(f Fields) (*cff.Glyph, error) {
	subrs := t2table(f.Int("ns"), f.Hex("sd"), f.List("subrs", ";"))
	gsubrs := t2table(f.Int("ng"), f.Hex("gd"), f.List("gsubrs", ";"))
	dw := float64(f.Int("dw")) / 65536
	nw := float64(f.Int("nw")) / 65536
	return cff.VerifT2Decode(f.Hex("code"), subrs, gsubrs, dw, nw)
}

func init() {
	dec := func(f Fields) string {
		g, err := t2run(f)
		if err != nil {
			return "err:" + t2errClass(err)
		}
		return t2showGlyph(g)
	}
	ops["t2.dec"] = dec
	ops["t2.spec"] = dec
	ops["t2.wf"] = func(f Fields) string {
		// the generator's claim travels in the case line (claim=wf+agrees|wf|nowf), so corpus and replay
		// lines work; the Lean driver evaluates wfCheck(P) / agreesCheck(P) on the bytes and must agree
		switch f["claim"] {
		case "wf+agrees":
			return "wf agrees"
		case "wf":
			return "wf"
		}
		return "nowf"
	}
	ops["t2.rejects"] = func(f Fields) string {
		_, err := t2run(f)
		if err != nil {
			return "err"
		}
		return "ok"
	}
	areas["t2"] = genT2
}

// ---------------------------------------------------------------- number encodings

func t2bias(n int) int {
	if n < 1240 {
		return 107
	} else if n < 33900 {
		return 1131
	}
	return 32768
}

// t2num encodes v (16.16 units); form: 0 = shortest, 1 = 28-form if integral, 2 = 255-form
func t2num(v int64, form int) []byte {
	if v%65536 == 0 && form != 2 {
		n := v / 65536
		if n >= -32768 && n <= 32767 {
			if form == 0 {
				switch {
				case n >= -107 && n <= 107:
					return []byte{byte(n + 139)}
				case n >= 108 && n <= 1131:
					n -= 108
					return []byte{byte(n>>8) + 247, byte(n)}
				case n <= -108 && n >= -1131:
					n = -n - 108
					return []byte{byte(n>>8) + 251, byte(n)}
				}
			}
			return []byte{28, byte(n >> 8), byte(n)}
		}
	}
	x := int32(v)
	return []byte{255, byte(x >> 24), byte(x >> 16), byte(x >> 8), byte(x)}
}

// ---------------------------------------------------------------- grammar generator

type t2g struct {
	r     *Rng
	c     *Ctx
	env   *t2env
	buf   []byte
	depth int  // operands currently on the stack
	dOK   bool // inside the domain where `interp strict` must agree (no mul, no off-axis flex1, |v|≤32000)
	exact bool // no inexact div/sqrt
	big   bool // allow |v| > 32000 (clamp quirk; V only)
	arith int  // chance (percent) that an operand is produced by an expression
	nest  int
	nsubr int // subroutines used so far
	small bool
	preDepth, lastOpLen int // operands on the stack at / byte length of the operator emitted last
	pure  bool // stay inside the static grammar: no subroutines, no value-dependent operators, canonical literals
	noWF  bool // outside the static grammar WF of Spec/T2.lean (subroutine, value-dependent operator, non-canonical or big literal)
	noAgr bool // uses add / sub / mul / flex1 / hflex1 (outside `Agrees`)
}

func (g *t2g) emit(b ...byte) { g.buf = append(g.buf, b...) }

var t2edges = []int64{0, 1, -1, 107, -107, 108, -108, 1131, -1131, 1132, -1132, 32000, -32000}

func (g *t2g) value() int64 {
	r := g.r
	if g.small {
		// hflex1 derives a delta -(dy1+dy2+dy5): keep it inside ±32000 (clamp quirk)
		return int64(r.Range(-9000*65536, 9000*65536))
	}
	switch r.Intn(12) {
	case 0, 1:
		return Pick(r, t2edges) * 65536
	case 2:
		return int64(r.Range(-32000*65536, 32000*65536)) // fraction k/65536
	case 3:
		return int64(r.Range(-300, 300))*65536 + int64(r.Range(0, 3))*16384
	case 4:
		if g.big {
			g.dOK = false
			return Pick(r, []int64{32767, -32768, 32001, -32001, 32500}) * 65536
		}
		return int64(r.Range(-2000, 2000)) * 65536
	case 5:
		return 0
	default:
		return int64(r.Range(-150, 150)) * 65536
	}
}

// lit pushes a literal operand
func (g *t2g) lit(v int64) {
	form := 0
	if !g.pure && g.r.Chance(1, 12) {
		form = g.r.Range(1, 2)
	}
	if form == 1 && v%65536 == 0 && v >= -1131*65536 && v <= 1131*65536 {
		g.noWF = true // 28-form of a small integer: not the canonical code `encode` produces
	}
	if v > 32000*65536 || v < -32000*65536 {
		g.noWF = true
	}
	b := t2num(v, form)
	g.c.Stat("t2.operand-encoding", fmt.Sprint(len(b), "-byte"))
	g.emit(b...)
	g.depth++
}

// litCanon pushes a literal in its canonical (shortest) encoding: the deciding operand of a
// value-dependent operator must be a `Tok.lit` of the grammar
func (g *t2g) litCanon(v int64) {
	g.emit(t2num(v, 0)...)
	g.depth++
}

func (g *t2g) opb(op int) {
	g.preDepth = g.depth
	g.lastOpLen = 1
	if op >= 256 {
		g.lastOpLen = 2
	}
	if op >= 256 {
		g.emit(12, byte(op))
	} else {
		g.emit(byte(op))
	}
}

// operand pushes one operand with value v (16.16 units), maybe through an expression
func (g *t2g) operand(v int64) {
	if g.depth+5 > 48 || g.nest > 2 || g.r.Intn(100) >= g.arith {
		g.lit(v)
		return
	}
	g.nest++
	defer func() { g.nest-- }()
	r := g.r
	st := func(n string) { g.c.Stat("t2.expression", n) }
	small := func(x int64) bool { return x > -32000*65536 && x < 32000*65536 }
	k := r.Intn(17)
	if g.pure && k == 14 {
		k = Pick(r, []int{2, 3, 6, 7, 9, 10, 13})
	}
	switch k {
	case 0:
		a := g.value()
		if small(v - a) {
			st("add")
			g.noAgr = true
			g.operand(a)
			g.operand(v - a)
			g.opb(0x0c0a)
			g.depth--
			return
		}
	case 1:
		a := g.value()
		if small(a - v) {
			st("sub")
			g.noAgr = true
			g.operand(a)
			g.operand(a - v)
			g.opb(0x0c0b)
			g.depth--
			return
		}
	case 2:
		st("neg")
		g.operand(-v)
		g.opb(0x0c0e)
		return
	case 3:
		if v >= 0 {
			st("abs")
			if r.Bool() {
				g.operand(-v)
			} else {
				g.operand(v)
			}
			g.opb(0x0c09)
			return
		}
	case 4:
		b := Pick(r, []int64{2, 4, -2, 8, 1, -1, 256})
		if small(v * b) {
			st("div")
			g.operand(v * b)
			g.litCanon(b * 65536)
			g.opb(0x0c0c)
			g.depth--
			return
		}
	case 5:
		if v >= 0 && v%65536 == 0 && v/65536 <= 170 {
			st("sqrt")
			k := v / 65536
			g.litCanon(k * k * 65536)
			g.opb(0x0c1a)
			return
		}
	case 6:
		st("exch-drop")
		g.operand(v)
		g.operand(g.value())
		g.opb(0x0c12)
		g.depth--
		return
	case 7:
		st("dup")
		g.operand(v)
		g.opb(0x0c1b)
		g.opb(0x0c1c)
		g.opb(0x0c12)
		return
	case 8:
		st("put-get")
		g.noAgr = true // get: inside WF (literal index written before), outside Agrees
		m := int64(r.Range(0, 31))
		g.operand(v)
		g.litCanon(m * 65536)
		g.opb(0x0c14)
		g.depth -= 2
		g.litCanon(m * 65536)
		g.opb(0x0c15)
		return
	case 9:
		st("ifelse")
		w := g.value()
		c1, c2 := g.value(), g.value()
		if c1 <= c2 {
			g.operand(v)
			g.lit(w)
		} else {
			g.lit(w)
			g.operand(v)
		}
		g.lit(c1)
		g.lit(c2)
		g.opb(0x0c16)
		g.depth -= 3
		return
	case 10:
		if v == 0 || v == 65536 {
			st("eq/and/or/not")
			a := g.value()
			switch r.Intn(4) {
			case 0:
				b := a
				if v == 0 {
					b = a + 65536
				}
				g.lit(a)
				g.lit(b)
				g.opb(0x0c0f)
				g.depth--
			case 1:
				g.lit(65536 * 3)
				if v == 0 {
					g.lit(0)
				} else {
					g.lit(-1)
				}
				g.opb(0x0c03)
				g.depth--
			case 2:
				g.lit(0)
				if v == 0 {
					g.lit(0)
				} else {
					g.lit(7 * 65536)
				}
				g.opb(0x0c04)
				g.depth--
			default:
				if v == 0 {
					g.lit(5 * 65536)
				} else {
					g.lit(0)
				}
				g.opb(0x0c05)
			}
			return
		}
	case 11:
		st("index")
		// v x y  2 index -> v x y v ; then keep only the copy: exch drop exch drop ... simpler: v 0 index exch drop
		g.operand(v)
		i := int64(0)
		if r.Bool() {
			i = -int64(r.Range(1, 3))
		}
		g.litCanon(i * 65536)
		g.opb(0x0c1d)
		g.opb(0x0c1c)
		g.opb(0x0c12)
		g.depth--
		return
	case 12:
		st("roll")
		// v x y 3 1 roll -> y v x ; drop -> y v ; exch drop -> v
		g.operand(v)
		g.lit(g.value())
		g.lit(g.value())
		g.litCanon(3 * 65536)
		j := Pick(r, []int64{1, -2, 4, -5})
		g.litCanon(j * 65536)
		g.opb(0x0c1e)
		g.depth -= 2
		g.opb(0x0c12)
		g.depth--
		g.opb(0x0c1c)
		g.opb(0x0c12)
		g.depth--
		return
	case 13:
		st("random-drop")
		g.operand(v)
		g.opb(0x0c17)
		g.opb(0x0c12)
		return
	case 14:
		if (!g.dOK || g.big) && g.nest == 1 {
			// mul: Go and the specification disagree (defect #18); V stream only
			st("mul")
			g.noAgr = true
			g.dOK = false
			g.lit(g.value())
			g.lit(g.value())
			g.opb(0x0c18)
			g.depth--
			return
		}
	case 15, 16:
		if g.env.ns > 0 || g.env.ng > 0 {
			// the operand comes out of a subroutine: `v return`
			st("subr-operand")
			save := g.buf
			g.buf = nil
			g.operand(v)
			g.emit(11)
			body := g.buf
			g.buf = save
			g.depth--
			g.call(body)
			g.depth++
			return
		}
	}
	g.lit(v)
}

// call emits `biased callsubr/callgsubr` for a new subroutine with the given body
func (g *t2g) call(body []byte) {
	glob := g.env.ng > 0 && (g.env.ns == 0 || g.r.Bool())
	n := g.env.ns
	used := g.env.subrs
	if glob {
		n = g.env.ng
		used = g.env.gsubrs
	}
	idx := -1
	for try := 0; try < 8; try++ {
		var i int
		switch g.r.Intn(4) {
		case 0:
			i = 0
		case 1:
			i = n - 1
		default:
			i = g.r.Intn(n)
		}
		if _, taken := used[i]; !taken {
			idx = i
			break
		}
	}
	if idx < 0 {
		// no free slot found: inline
		g.emit(body[:len(body)-1]...)
		return
	}
	g.env.setSubr(glob, idx, body)
	g.nsubr++
	g.emit(t2num(int64(idx-t2bias(n))*65536, 0)...) // canonical operand of the call
	if g.depth+1 > 48 {
		g.noWF = true
	}
	if glob {
		g.emit(29)
	} else {
		g.emit(10)
	}
}

// maybeWrap moves the bytes emitted since `from` into a subroutine
func (g *t2g) maybeWrap(from int) {
	if (g.env.ns == 0 && g.env.ng == 0) || !g.r.Chance(1, 6) || g.depth+1 > 48 {
		return
	}
	kind := "operands+operator in subr"
	if g.r.Bool() && g.preDepth+1 <= 48 && g.lastOpLen <= len(g.buf)-from {
		// only the operator goes into the subroutine; its operands are pushed by the caller
		from = len(g.buf) - g.lastOpLen
		kind = "operator only in subr (operands pushed by the caller)"
	}
	body := append(append([]byte{}, g.buf[from:]...), 11)
	g.buf = g.buf[:from]
	g.c.Stat("t2.subr-use", kind)
	g.call(body)
}

func (g *t2g) operands(n int) {
	for i := 0; i < n; i++ {
		g.operand(g.value())
	}
}

// pathOp emits one path operator with a legal operand count; room = free stack entries
func (g *t2g) pathOp() {
	r := g.r
	room := 48 - g.depth
	from := len(g.buf)
	maxn := func(unit, extra int) int { // number of repetitions
		m := (room - extra) / unit
		if m < 1 {
			m = 1
		}
		k := 1
		switch r.Intn(6) {
		case 0:
			k = m // fill the stack
		case 1:
			k = r.Range(1, m)
		default:
			k = r.Range(1, 3)
		}
		if k > m {
			k = m
		}
		return k
	}
	name := ""
	switch r.Intn(15) {
	case 0, 1:
		name = "rlineto"
		k := maxn(2, 0)
		if r.Chance(1, 5) && room >= 48 {
			k = 24
		}
		g.operands(2 * k)
		g.opb(5)
	case 2:
		name = "hlineto"
		g.operands(r.Range(1, min(room, 9)))
		g.opb(6)
	case 3:
		name = "vlineto"
		g.operands(r.Range(1, min(room, 9)))
		g.opb(7)
	case 4:
		name = "rrcurveto"
		g.operands(6 * maxn(6, 0))
		g.opb(8)
	case 5:
		name = "rcurveline"
		g.operands(6*maxn(6, 2) + 2)
		g.opb(24)
	case 6:
		name = "rlinecurve"
		g.operands(2*maxn(2, 6) + 6)
		g.opb(25)
	case 7:
		name = "hhcurveto"
		g.operands(4*maxn(4, 1) + r.Intn(2))
		g.opb(27)
	case 8:
		name = "vvcurveto"
		g.operands(4*maxn(4, 1) + r.Intn(2))
		g.opb(26)
	case 9:
		name = "hvcurveto"
		g.operands(4*maxn(4, 1) + r.Intn(2))
		g.opb(31)
	case 10:
		name = "vhcurveto"
		g.operands(4*maxn(4, 1) + r.Intn(2))
		g.opb(30)
	case 11:
		name = "hflex"
		g.operands(7)
		g.opb(0x0c22)
	case 12:
		name = "flex"
		g.operands(13)
		g.opb(0x0c23)
	case 13:
		name = "hflex1"
		g.noAgr = true
		g.small = true
		g.operands(9)
		g.small = false
		g.opb(0x0c24)
	default:
		name = "flex1"
		g.noAgr = true
		// literal operands so that the generator knows the sums
		var a [11]int64
		for i := range a {
			a[i] = int64(r.Range(-60, 60)) * 65536
		}
		onAxis := r.Bool()
		dx := a[0] + a[2] + a[4] + a[6] + a[8]
		dy := a[1] + a[3] + a[5] + a[7] + a[9]
		ax, ay := dx, dy
		if ax < 0 {
			ax = -ax
		}
		if ay < 0 {
			ay = -ay
		}
		if onAxis { // make the minor-axis sum zero: Go and the specification then agree
			if ax > ay {
				a[9] -= dy
			} else {
				a[8] -= dx
			}
			dx = a[0] + a[2] + a[4] + a[6] + a[8]
			dy = a[1] + a[3] + a[5] + a[7] + a[9]
			ax, ay = dx, dy
			if ax < 0 {
				ax = -ax
			}
			if ay < 0 {
				ay = -ay
			}
		}
		minor := dy
		if !(ax > ay) {
			minor = dx
		}
		if minor != 0 {
			g.c.Stat("t2.flex1", "off-axis (repaired defect C05-flex1)")
		} else {
			g.c.Stat("t2.flex1", "on-axis")
		}
		for _, x := range a {
			g.lit(x)
		}
		g.opb(0x0c25)
	}
	g.c.Stat("t2.path-operator", name)
	g.c.Stat("t2.operands-at-operator", bucket(g.depth))
	if g.depth >= 47 {
		g.c.Stat("t2.operand-run", fmt.Sprint(g.depth))
	}
	g.depth = 0
	g.maybeWrap(from)
}

type t2prog struct {
	code  []byte
	env   *t2env
	dOK   bool
	nsubr int
	wf    bool
	agr   bool
}

var t2tableSizes = []int{0, 0, 0, 1, 2, 5, 107, 108, 1239, 1240, 1241, 33899, 33900, 40000}

func genT2prog(c *Ctx, big bool) t2prog {
	r := c.Rng
	env := newT2env()
	mode := r.Intn(3) // 0: static grammar without calls, 1: static grammar with stack-neutral subroutines, 2: free
	if big {
		mode = 2
	}
	pure := mode != 2
	if mode == 1 || (mode == 2 && r.Chance(2, 3)) {
		env.ns = Pick(r, t2tableSizes)
		env.ng = Pick(r, t2tableSizes)
	}
	c.Stat("t2.subr-table-size", fmt.Sprint(env.ns))
	c.Stat("t2.subr-table-size", fmt.Sprint(env.ng))
	if r.Bool() {
		env.dw = int64(r.Range(0, 1000)) * 65536
		env.nw = int64(r.Range(-500, 1000)) * 65536
		if r.Chance(1, 4) {
			env.nw += int64(r.Range(0, 65535))
		}
	}
	g := &t2g{r: r, c: c, env: env, dOK: true, exact: true, big: big, pure: pure, arith: Pick(r, []int{0, 0, 10, 30})}

	// width: present on the first stack-clearing operator
	hasWidth := r.Bool()
	width := func() {
		if hasWidth {
			hasWidth = false
			g.operand(int64(r.Range(-300, 1200)) * 65536)
			c.Stat("t2.width", "explicit")
		}
	}

	// hint section
	stemCounts := []int{0, 0, 0, 1, 2, 3, 12, 23, 24, 25, 48, 96}
	nh, nv := Pick(r, stemCounts), Pick(r, stemCounts)
	if nh+nv > 96 {
		nv = 96 - nh
	}
	useMask := nh+nv > 0 && r.Bool()
	c.Stat("t2.stems", fmt.Sprintf("h%s+v%s", bucket(nh), bucket(nv)))
	implicitV := useMask && nv > 0 && nh > 0 && r.Bool()
	stems := func(n int, op int, last bool) {
		for n > 0 {
			from := len(g.buf)
			room := (48 - g.depth) / 2
			k := n
			if k > room {
				k = room
			}
			if r.Chance(1, 4) && k > 1 {
				k = r.Range(1, k)
			}
			for i := 0; i < k; i++ {
				g.operand(int64(r.Range(-50, 300)) * 65536)
				g.operand(int64(r.Range(1, 120)) * 65536)
			}
			n -= k
			if last && n == 0 && implicitV {
				c.Stat("t2.mask", "implicit-vstem")
				return // operands stay for the hintmask
			}
			g.opb(op)
			g.depth = 0
			g.maybeWrap(from)
		}
	}
	mask := func() {
		op := 19
		if r.Chance(1, 4) {
			op = 20
		}
		g.opb(op)
		g.depth = 0
		k := (nh + nv + 7) / 8
		g.emit(r.Bytes(k)...)
		c.Stat("t2.mask", fmt.Sprintf("%d-bytes", k))
	}
	if nh > 0 {
		width()
		op := 1
		if useMask && r.Chance(3, 4) {
			op = 18
		}
		stems(nh, op, false)
	}
	if nv > 0 {
		width()
		op := 3
		if useMask && r.Chance(3, 4) {
			op = 23
		}
		stems(nv, op, true)
	}
	if useMask {
		if !implicitV && g.depth == 0 {
			width()
		}
		mask()
		if r.Chance(1, 3) {
			mask()
		}
	}

	// subpaths
	nsub := r.Range(0, 3)
	if r.Chance(1, 10) {
		nsub = 0
	}
	for i := 0; i < nsub; i++ {
		width()
		from := len(g.buf)
		switch r.Intn(3) {
		case 0:
			g.operands(2)
			g.opb(21)
		case 1:
			g.operands(1)
			g.opb(22)
		default:
			g.operands(1)
			g.opb(4)
		}
		g.depth = 0
		g.maybeWrap(from)
		for k := r.Range(0, 4); k > 0; k-- {
			g.pathOp()
			if useMask && r.Chance(1, 5) {
				mask()
			}
			if len(g.buf) > 900 {
				break
			}
		}
	}
	width()
	g.emit(14)
	c.Stat("t2.program-bytes", bucket(len(g.buf)))
	c.Stat("t2.subrs-used", bucket(g.nsubr))
	return t2prog{code: g.buf, env: env, dOK: g.dOK, nsubr: g.nsubr, wf: !g.noWF, agr: !g.noAgr}
}

// chain builds d nested subroutines around `inner`; the outermost call is returned
func t2chain(c *Ctx, env *t2env, d int, inner []byte) []byte {
	body := append(append([]byte{}, inner...), 11)
	for lvl := d; lvl >= 1; lvl-- {
		glob := lvl%2 == 0
		n := env.ns
		if glob {
			n = env.ng
		}
		idx := lvl - 1
		if idx >= n {
			idx = n - 1
		}
		env.setSubr(glob, idx, body)
		call := t2num(int64(idx-t2bias(n))*65536, 0)
		if glob {
			call = append(call, 29)
		} else {
			call = append(call, 10)
		}
		if lvl > 1 {
			body = append(append([]byte{}, call...), 11)
		} else {
			body = call
		}
	}
	return body
}

func t2hasFloatOps(code []byte, env *t2env) bool {
	has := func(b []byte) bool {
		for i := 0; i+1 < len(b); i++ {
			if b[i] == 12 && (b[i+1] == 12 || b[i+1] == 26) {
				return true
			}
		}
		return false
	}
	if has(code) || has(env.sd) || has(env.gd) {
		return true
	}
	for _, b := range env.subrs {
		if has(b) {
			return true
		}
	}
	for _, b := range env.gsubrs {
		if has(b) {
			return true
		}
	}
	return false
}

func t2outClass(c *Ctx, group, out string) {
	if strings.HasPrefix(out, "ok") {
		c.Stat(group, "ok")
	} else {
		c.Stat(group, out)
	}
}

func genT2(c *Ctx) {
	r := c.Rng
	n := c.N

	// fixed probes (every run): the findings and the boundary programs
	genT2fixed(c)

	for i := 0; i < n; i++ {
		switch {
		case i%10 < 5:
			// well-formed grammar program: V, and D when inside the strict domain
			p := genT2prog(c, i%10 == 4)
			out := c.Case(Verdict, "t2.dec", p.env.args(p.code), len(p.code) > 8)
			t2outClass(c, "t2.outcome-wellformed", out)
			// is the program inside the domain of the theorems C05_progress / C05_quirks_irrelevant?  The
			// generator's own claim must coincide with the Lean checker (wfCheck / agreesCheck) run by the driver.
			dom := "nowf"
			switch {
			case p.wf && p.agr:
				dom = "wf agrees"
				c.Stat("t2.theorem-domain", "WF and Agrees (C05_progress + C05_quirks_irrelevant apply)")
			case p.wf:
				dom = "wf"
				c.Stat("t2.theorem-domain", "WF only (C05_progress applies; add/sub/mul/flex1/hflex1/get present)")
			default:
				c.Stat("t2.theorem-domain", "outside WF (non-literal deciding operand, non-canonical or big literal, free-mode program)")
			}
			if p.nsubr > 0 {
				c.Stat("t2.theorem-domain-calls", dom+" with "+bucket(p.nsubr)+" subroutine calls")
			}
			c.Case(Verdict, "t2.wf", p.env.args(p.code)+" claim="+strings.ReplaceAll(dom, " ", "+"), len(p.code) > 8)
			if p.dOK {
				c.Case(Direct, "t2.spec", p.env.args(p.code), len(p.code) > 8)
				if !strings.HasPrefix(out, "ok") {
					c.Stat("t2.ALARM", "well-formed program rejected: "+out)
				}
			} else {
				c.Stat("t2.outside-strict-domain", "mul / off-axis flex1 / |delta|>32000")
			}
		case i%10 < 9:
			// single mutation of a well-formed program
			p := genT2prog(c, r.Chance(1, 4))
			code := append([]byte{}, p.code...)
			target := &code
			var tkey int
			tglob := false
			if p.nsubr > 0 && r.Chance(1, 3) {
				// mutate a subroutine body instead
				if len(p.env.subrsOrd) > 0 && (len(p.env.gsubrOrd) == 0 || r.Bool()) {
					tkey = Pick(r, p.env.subrsOrd)
				} else {
					tkey = Pick(r, p.env.gsubrOrd)
					tglob = true
				}
				var b []byte
				if tglob {
					b = append([]byte{}, p.env.gsubrs[tkey]...)
				} else {
					b = append([]byte{}, p.env.subrs[tkey]...)
				}
				target = &b
			}
			b := *target
			kind := ""
			pos := r.Intn(len(b))
			switch r.Intn(8) {
			case 0:
				kind = "delete-byte"
				b = append(b[:pos:pos], b[pos+1:]...)
			case 1:
				kind = "replace-byte-random"
				b[pos] = byte(r.Intn(256))
			case 2:
				kind = "replace-by-operator"
				b[pos] = byte(r.Intn(32))
			case 3:
				kind = "insert-operator"
				op := []byte{byte(r.Intn(32))}
				if r.Bool() {
					op = []byte{12, byte(r.Intn(40))}
				}
				b = append(b[:pos:pos], append(op, b[pos:]...)...)
			case 4:
				kind = "insert-operand"
				b = append(b[:pos:pos], append(t2num(int64(r.Range(-200, 200))*65536, 0), b[pos:]...)...)
			case 5:
				kind = "truncate"
				b = b[:pos]
			case 6:
				kind = "duplicate-byte"
				b = append(b[:pos+1:pos+1], b[pos:]...)
			default:
				kind = "table-size"
				if r.Bool() {
					p.env.ns = Pick(r, t2tableSizes)
				} else {
					p.env.ng = Pick(r, t2tableSizes)
				}
			}
			if target == &code {
				code = b
			} else if tglob {
				p.env.gsubrs[tkey] = b
			} else {
				p.env.subrs[tkey] = b
			}
			c.Stat("t2.mutation", kind)
			k := Verdict
			if t2hasFloatOps(code, p.env) {
				k = Diagnostic
				c.Stat("t2.mutation", "contains div/sqrt -> diagnostic")
			}
			out := c.Case(k, "t2.dec", p.env.args(code), true)
			t2outClass(c, "t2.outcome-mutated", out)
		default:
			// random bytes biased towards operators
			env := newT2env()
			env.ns, env.ng = Pick(r, []int{0, 3, 300}), Pick(r, []int{0, 2})
			env.sd = []byte{byte(139 + r.Intn(20)), 11}
			l := r.Range(0, 40)
			code := make([]byte, l)
			for j := range code {
				switch r.Intn(4) {
				case 0:
					code[j] = byte(r.Intn(32))
				case 1:
					code[j] = byte(r.Intn(256))
				default:
					code[j] = byte(r.Range(32, 246))
				}
			}
			k := Verdict
			if t2hasFloatOps(code, env) {
				k = Diagnostic
			}
			out := c.Case(k, "t2.dec", env.args(code), l > 4)
			t2outClass(c, "t2.outcome-random", out)
		}
	}
}

// genT2fixed: boundary programs listed in DESIGN Appendix F and the single-fault classes
func genT2fixed(c *Ctx) {
	num := func(n int) []byte { return t2num(int64(n)*65536, 0) }
	cat := func(bs ...[]byte) []byte {
		var out []byte
		for _, b := range bs {
			out = append(out, b...)
		}
		return out
	}
	rep := func(n int, b []byte) []byte {
		var out []byte
		for i := 0; i < n; i++ {
			out = append(out, b...)
		}
		return out
	}
	mv := cat(num(10), num(20), []byte{21})

	// operand runs 47, 48, 49 before rlineto / hlineto
	for _, k := range []int{46, 47, 48, 49, 50} {
		env := newT2env()
		code := cat(mv, rep(k, num(3)), []byte{6, 14})
		c.Stat("t2.operand-run", fmt.Sprint(k))
		c.Case(Verdict, "t2.dec", env.args(code), true)
		if k <= 48 {
			c.Case(Direct, "t2.spec", env.args(code), true)
		} else {
			c.Stat("t2.fault-class", "overflow")
			c.Case(Direct, "t2.rejects", env.args(code), true)
		}
	}
	// subroutine tables around both bias thresholds: call first, last, and one past the end
	for _, n := range []int{1, 1239, 1240, 33899, 33900, 40000} {
		for _, glob := range []bool{false, true} {
			for _, idx := range []int{0, n - 1, n, -1} {
				env := newT2env()
				op := byte(10)
				body := cat(num(7), num(9), []byte{21, 11})
				if glob {
					env.ng = n
					op = 29
					if idx >= 0 && idx < n {
						env.setSubr(true, idx, body)
					}
				} else {
					env.ns = n
					if idx >= 0 && idx < n {
						env.setSubr(false, idx, body)
					}
				}
				code := cat(num(idx-t2bias(n)), []byte{op, 14})
				c.Stat("t2.subr-table-size", fmt.Sprint(n))
				c.Case(Verdict, "t2.dec", env.args(code), true)
				if idx >= 0 && idx < n {
					c.Case(Direct, "t2.spec", env.args(code), true)
				} else {
					c.Stat("t2.fault-class", "subr-index")
					c.Case(Direct, "t2.rejects", env.args(code), true)
				}
			}
		}
	}
	// call depth 1..11
	for _, d := range []int{1, 2, 9, 10, 11, 12} {
		env := newT2env()
		env.ns, env.ng = 20, 1240
		code := cat(t2chain(c, env, d, mv), []byte{14})
		c.Stat("t2.call-depth", fmt.Sprint(d))
		c.Case(Verdict, "t2.dec", env.args(code), true)
		if d <= 10 {
			c.Case(Direct, "t2.spec", env.args(code), true)
		} else {
			c.Stat("t2.fault-class", "call-depth")
			c.Case(Direct, "t2.rejects", env.args(code), true)
		}
	}
	// every arithmetic/storage/conditional operator with 0 .. arity+1 operands
	type ar struct {
		op, arity int
	}
	for _, a := range []ar{{0x0c03, 2}, {0x0c04, 2}, {0x0c05, 1}, {0x0c09, 1}, {0x0c0a, 2}, {0x0c0b, 2},
		{0x0c0c, 2}, {0x0c0e, 1}, {0x0c0f, 2}, {0x0c12, 1}, {0x0c14, 2}, {0x0c15, 1}, {0x0c16, 4},
		{0x0c17, 0}, {0x0c18, 2}, {0x0c1a, 1}, {0x0c1b, 1}, {0x0c1c, 2}, {0x0c1d, 2}, {0x0c1e, 4},
		{10, 1}, {29, 1}} {
		for k := 0; k <= a.arity+1; k++ {
			env := newT2env()
			env.ns, env.ng = 3, 3
			opb := []byte{byte(a.op)}
			if a.op > 255 {
				opb = []byte{12, byte(a.op)}
			}
			// operands 2 1 1 1 …: legal for index (1 index), roll (… 2 1 roll), put (x 1 put)
			pre := rep(k, num(1))
			if k > 0 && a.op == 0x0c1e {
				pre = cat(rep(k-2, num(5)), num(2), num(1))
				if k < 2 {
					pre = rep(k, num(1))
				}
			}
			if a.op == 10 || a.op == 29 {
				pre = cat(rep(max(k-1, 0), num(1)), rep(min(k, 1), num(-107)))
			}
			code := cat(pre, opb, rep(3, num(0)), []byte{0x0c, 0x12, 0x0c, 0x12}, []byte{14})
			c.Stat("t2.arith-operand-count", fmt.Sprintf("op%d:%d", a.op, k))
			c.Case(Verdict, "t2.dec", env.args(code), true)
			if k < a.arity {
				c.Stat("t2.fault-class", "underflow")
				c.Case(Direct, "t2.rejects", env.args(code), true)
			}
		}
	}
	// missing endchar, draw before the first move
	for _, code := range [][]byte{
		mv,
		cat(mv, num(1), num(2), []byte{5}),
		{},
		cat(mv, []byte{11}),
	} {
		c.Stat("t2.fault-class", "missing-endchar")
		c.Case(Verdict, "t2.dec", newT2env().args(code), true)
		c.Case(Direct, "t2.rejects", newT2env().args(code), true)
	}
	for _, code := range [][]byte{
		cat(num(1), num(2), []byte{5, 14}),
		cat(num(1), []byte{6, 14}),
		cat(rep(6, num(1)), []byte{8, 14}),
		cat(rep(4, num(1)), []byte{31, 14}),
		cat(rep(7, num(1)), []byte{12, 34, 14}),
	} {
		c.Stat("t2.fault-class", "draw-before-move")
		c.Case(Verdict, "t2.dec", newT2env().args(code), true)
		c.Case(Direct, "t2.rejects", newT2env().args(code), true)
	}
	// corners of TN5177 that lie outside the domain of the whole-program theorems: each is compared with the
	// specification interpreter once per run (a difference would be a finding)
	for name, code := range map[string][]byte{
		"seac-style endchar with 4 operands":          cat(num(0), num(0), num(65), num(66), []byte{14}),
		"width + seac-style endchar (5 operands)":     cat(num(500), num(0), num(0), num(65), num(66), []byte{14}),
		"deprecated dotsection":                       cat(mv, num(1), num(2), []byte{12, 0}, num(3), []byte{6, 14}),
		"flex with depth operand 0 / 1000":            cat(mv, rep(12, num(5)), num(0), []byte{12, 35}, rep(12, num(4)), num(1000), []byte{12, 35, 14}),
		"vstem operands directly on hintmask, no hstem": cat(num(10), num(20), []byte{19, 0x80}, mv, []byte{14}),
		"width + cntrmask with implicit vstem":         cat(num(300), num(10), num(20), []byte{1}, num(5), num(6), []byte{20, 0xc0}, mv, []byte{14}),
		"random as an operand":                         cat([]byte{12, 23, 12, 23}, []byte{21, 14}),
		"hstem after vstem":                            cat(num(1), num(2), []byte{3}, num(3), num(4), []byte{1}, mv, []byte{14}),
		"two movetos, no drawing":                      cat(mv, mv, []byte{14}),
	} {
		c.Stat("t2.outside-theorem-probe", name)
		c.Case(Verdict, "t2.dec", newT2env().args(code), true)
		c.Case(Direct, "t2.spec", newT2env().args(code), true)
	}
	// endchar with 0 / 1 / 2 / 3 / 4 / 5 operands (4 = the seac-like "adx ady bchar achar endchar" WITHOUT a width), at the
	// start of the charstring and after an operator that has already settled the width; default and nominal width are
	// non-zero and differ, adx is non-zero, so an operand wrongly read as the width shows in the glyph
	{
		wenv := func() *t2env { e := newT2env(); e.dw = 300 * 65536; e.nw = 100 * 65536; return e }
		type pre struct {
			name string
			code []byte
		}
		for _, pr := range []pre{
			{"first operator", nil},
			{"after hstem with width", cat(num(40), num(10), num(20), []byte{1})},
			{"after hstem without width", cat(num(10), num(20), []byte{1})},
			{"after rmoveto with width", cat(num(40), num(5), num(6), []byte{21})},
			{"after hmoveto without width", cat(num(5), []byte{22})},
			{"after hintmask with width", cat(num(40), num(10), num(20), []byte{19, 0x80})},
		} {
			for _, k := range []int{0, 1, 2, 3, 4, 5} {
				operands := [][]byte{num(7), num(9), num(65), num(66)}
				var body []byte
				switch {
				case k <= 4:
					body = cat(operands[4-k:]...)
					if k == 1 {
						body = num(250)
					}
				default:
					body = cat(num(250), num(7), num(9), num(65), num(66))
				}
				code := cat(pr.code, body, []byte{14})
				c.Stat("t2.endchar-operands", fmt.Sprintf("%d operands, %s", k, pr.name))
				c.Case(Verdict, "t2.dec", wenv().args(code), true)
				// the specification accepts 0 or 4 operands, plus one width operand when the width is still open
				legal := k == 0 || k == 4 || (pr.code == nil && (k == 1 || k == 5))
				if legal {
					c.Case(Direct, "t2.spec", wenv().args(code), true)
				}
			}
		}
	}
	for name, code := range map[string][]byte{
		"hintmask before any stem": {19, 0x80, 14},
		"stem after hintmask":      cat(num(1), num(2), []byte{1, 19, 0x80}, num(3), num(4), []byte{1, 14}),
	} {
		c.Stat("t2.outside-theorem-probe", name+" (must be rejected)")
		c.Case(Verdict, "t2.dec", newT2env().args(code), true)
		c.Case(Direct, "t2.rejects", newT2env().args(code), true)
	}
	// every comparison of operand VALUES in the decoder, at equality and next to it
	// flex1: |dx| vs |dy| of the first five pairs (tie -> the last operand is vertical), plain and inside a subroutine
	for _, t := range [][2]int{{20, 20}, {20, -20}, {-20, 20}, {-20, -20}, {0, 0}, {21, 20}, {20, 21}, {19, 20}, {20, 19},
		{-21, 20}, {20, -21}, {1, 0}, {0, 1}, {0, -1}, {-1, 0}} {
		a := []int{3, 4, 5, -2, -6, 7, 2, 1, 0, 0}
		sx, sy := 0, 0
		for i := 0; i < 8; i += 2 {
			sx += a[i]
			sy += a[i+1]
		}
		a[8], a[9] = t[0]-sx, t[1]-sy
		var ops []byte
		for _, v := range a {
			ops = append(ops, num(v)...)
		}
		ops = append(ops, num(9)...)
		ops = append(ops, 12, 37)
		c.Stat("t2.value-comparison-probe", fmt.Sprintf("flex1 dx=%d dy=%d", t[0], t[1]))
		code := cat(mv, ops, []byte{14})
		c.Case(Verdict, "t2.dec", newT2env().args(code), true)
		c.Case(Direct, "t2.spec", newT2env().args(code), true)
		env := newT2env()
		env.ns = 1
		env.setSubr(false, 0, cat(ops, []byte{11}))
		code = cat(mv, num(-107), []byte{10, 14})
		c.Case(Verdict, "t2.dec", env.args(code), true)
		c.Case(Direct, "t2.spec", env.args(code), true)
	}
	esc := func(b byte) []byte { return []byte{12, b} }
	for name, body := range map[string][]byte{
		"ifelse v1=v2":             cat(num(1), num(2), num(5), num(5), esc(22), num(7)),
		"ifelse v1<v2":             cat(num(1), num(2), num(5), num(6), esc(22), num(7)),
		"ifelse v1>v2":             cat(num(1), num(2), num(6), num(5), esc(22), num(7)),
		"roll j=0":                 cat(num(1), num(2), num(3), num(3), num(0), esc(30), num(7)),
		"roll j=n":                 cat(num(1), num(2), num(3), num(3), num(3), esc(30), num(7)),
		"roll j=-n":                cat(num(1), num(2), num(3), num(3), num(-3), esc(30), num(7)),
		"roll j=2n":                cat(num(1), num(2), num(3), num(3), num(6), esc(30), num(7)),
		"roll j=-1":                cat(num(1), num(2), num(3), num(3), num(-1), esc(30), num(7)),
		"roll j=n+1":               cat(num(1), num(2), num(3), num(3), num(4), esc(30), num(7)),
		"roll n=1":                 cat(num(1), num(2), num(3), num(1), num(5), esc(30), num(7)),
		"roll n=2 of 3":            cat(num(1), num(2), num(3), num(2), num(1), esc(30), num(7)),
		"index 0":                  cat(num(1), num(2), num(0), esc(29), num(7)),
		"index -1":                 cat(num(1), num(2), num(-1), esc(29), num(7)),
		"index = depth-1 (bottom)": cat(num(1), num(2), num(1), esc(29), num(7)),
		"sqrt 0":                   cat(num(0), esc(26), num(7)),
		"sqrt 4":                   cat(num(4), esc(26), num(7)),
		"div 6 3":                  cat(num(6), num(3), esc(12), num(7)),
		"div 0 5":                  cat(num(0), num(5), esc(12), num(7)),
		"div -6 3":                 cat(num(-6), num(3), esc(12), num(7)),
		"eq equal":                 cat(num(4), num(4), esc(15), num(7)),
		"eq unequal":               cat(num(4), num(5), esc(15), num(7)),
		"not 0":                    cat(num(0), esc(5), num(7)),
		"not 3":                    cat(num(3), esc(5), num(7)),
		"abs 0":                    cat(num(0), esc(9), num(7)),
		"abs -5":                   cat(num(-5), esc(9), num(7)),
		"and 0 3":                  cat(num(0), num(3), esc(3), num(7)),
		"or 0 0":                   cat(num(0), num(0), esc(4), num(7)),
		"put 0 get 0":              cat(num(9), num(0), esc(20), num(0), esc(21), num(7)),
		"put 31 get 31":            cat(num(9), num(31), esc(20), num(31), esc(21), num(7)),
		"neg 0":                    cat(num(0), esc(14), num(7)),
		"random":                   cat(esc(23), num(7)),
	} {
		c.Stat("t2.value-comparison-probe", name)
		code := cat(mv, body, []byte{5, 14})
		c.Case(Verdict, "t2.dec", newT2env().args(code), true)
		c.Case(Direct, "t2.spec", newT2env().args(code), true)
	}
	for name, body := range map[string][]byte{
		"roll n=depth+1":  cat(num(1), num(2), num(3), num(1), esc(30)),
		"roll n=-1":       cat(num(1), num(2), num(-1), num(1), esc(30)),
		"index = depth":   cat(num(1), num(2), num(2), esc(29)),
		"put 32":          cat(num(9), num(32), esc(20)),
		"put -1":          cat(num(9), num(-1), esc(20)),
		"get before put":  cat(num(0), esc(21)),
		"get 32 after put": cat(num(9), num(0), esc(20), num(32), esc(21)),
	} {
		c.Stat("t2.value-comparison-probe", name+" (must be rejected)")
		code := cat(mv, body, num(1), num(1), []byte{5, 14})
		c.Case(Verdict, "t2.dec", newT2env().args(code), true)
		c.Case(Direct, "t2.rejects", newT2env().args(code), true)
	}
	// value-dependent leniencies of the Go decoder (quirks divByZeroIsZero, sqrtNegIsZero, rollZeroRejected): model only
	for name, body := range map[string][]byte{
		"div by 0":    cat(num(5), num(0), esc(12), num(7)),
		"sqrt -4":     cat(num(-4), esc(26), num(7)),
		"roll n=0":    cat(num(1), num(2), num(0), num(1), esc(30)),
	} {
		c.Stat("t2.value-comparison-probe", name+" (Go-specific, model only)")
		c.Case(Verdict, "t2.dec", newT2env().args(cat(mv, body, []byte{5, 14})), true)
	}
	// operand families for every arithmetic / logic / conditional operator: cancelling pairs (x, -x), equal pairs, zeros,
	// +-1, +-32767, 16.16 fractions that cancel or are equal; the result becomes the dx of an rlineto
	{
		fx := func(v int64) []byte { return t2num(v, 0) }
		xs := []int64{65536, -65536, 3 * 65536, 32767 * 65536, -32767 * 65536, 32768, -32768, 1, -1, 5*65536 + 16384, -(7*65536 + 49152), 100 * 65536}
		var pairs [][2]int64
		for _, x := range xs {
			pairs = append(pairs, [2]int64{x, -x}, [2]int64{x, x}, [2]int64{0, x}, [2]int64{x, 0})
		}
		pairs = append(pairs, [2]int64{0, 0}, [2]int64{65536, -1}, [2]int64{65536, 65535}, [2]int64{3 * 65536, 2 * 65536}, [2]int64{2 * 65536, 3 * 65536},
			[2]int64{-65536, 1}, [2]int64{32767 * 65536, -32767*65536 + 1})
		type bop struct {
			name  string
			code  []byte
			exact bool // Go = specification for all operands (D t2.spec as well)
		}
		for _, o := range []bop{{"and", esc(3), true}, {"or", esc(4), true}, {"eq", esc(15), true}, {"add", esc(10), false},
			{"sub", esc(11), false}, {"mul", esc(24), false}, {"div", esc(12), false}} {
			for _, pq := range pairs {
				c.Stat("t2.operand-family", o.name)
				code := cat(mv, fx(pq[0]), fx(pq[1]), o.code, num(7), []byte{5, 14})
				c.Case(Verdict, "t2.dec", newT2env().args(code), true)
				if o.exact {
					c.Case(Direct, "t2.spec", newT2env().args(code), true)
				}
			}
		}
		// ifelse: s1 s2 v1 v2 -> s1 if v1 <= v2 else s2
		for _, pq := range pairs {
			c.Stat("t2.operand-family", "ifelse")
			code := cat(mv, num(11), num(22), fx(pq[0]), fx(pq[1]), esc(22), num(7), []byte{5, 14})
			c.Case(Verdict, "t2.dec", newT2env().args(code), true)
			c.Case(Direct, "t2.spec", newT2env().args(code), true)
		}
		for _, o := range []bop{{"not", esc(5), true}, {"neg", esc(14), true}, {"abs", esc(9), true}, {"sqrt", esc(26), false}} {
			vals := append([]int64{0, 4 * 65536, 2 * 65536, 16384}, xs...)
			if o.name == "sqrt" { // exact square roots only (the model takes the integer root of the 16.16 value) and negative operands
				vals = []int64{0, 65536, 4 * 65536, 9 * 65536, 100 * 65536, 16384, 65536 / 16, -65536, -1, -32768, -4 * 65536}
			}
			for _, x := range vals {
				c.Stat("t2.operand-family", o.name)
				code := cat(mv, fx(x), o.code, num(7), []byte{5, 14})
				c.Case(Verdict, "t2.dec", newT2env().args(code), true)
				// beyond +-32000 the decoder clamps the coordinate (known finding C05-clamp): model only
				if o.exact && x <= 32000*65536 && x >= -32000*65536 {
					c.Case(Direct, "t2.spec", newT2env().args(code), true)
				}
			}
		}
	}
	// the transient array (put / get) across subroutine calls: it belongs to the charstring, not to a call frame
	{
		call := func(glob bool, i int) []byte {
			if glob {
				return cat(num(i-107), []byte{29})
			}
			return cat(num(i-107), []byte{10})
		}
		put := func(v, i int) []byte { return cat(num(v), num(i), esc(20)) }
		get := func(i int) []byte { return cat(num(i), esc(21)) }
		use := cat(num(7), []byte{5}) // <value> 7 rlineto
		for _, glob := range []bool{false, true} {
			for _, slot := range []int{0, 5, 31} {
				type pg struct {
					name  string
					main  []byte
					subrs map[int][]byte
				}
				for _, p := range []pg{
					{"put in caller, empty call + return, get", cat(mv, put(9, slot), call(glob, 0), get(slot), use, []byte{14}),
						map[int][]byte{0: {11}}},
					{"put in caller, drawing call + return, get", cat(mv, put(9, slot), call(glob, 0), get(slot), use, []byte{14}),
						map[int][]byte{0: cat(num(3), num(4), []byte{5, 11})}},
					{"put inside callee, get after return", cat(mv, call(glob, 0), get(slot), use, []byte{14}),
						map[int][]byte{0: cat(put(13, slot), []byte{11})}},
					{"put in caller, get inside callee", cat(mv, put(17, slot), call(glob, 0), []byte{14}),
						map[int][]byte{0: cat(get(slot), use, []byte{11})}},
					{"put in caller, get two levels down", cat(mv, put(19, slot), call(glob, 0), []byte{14}),
						map[int][]byte{0: cat(call(glob, 1), []byte{11}), 1: cat(get(slot), use, []byte{11})}},
					{"put two levels down, get in caller", cat(mv, call(glob, 0), get(slot), use, []byte{14}),
						map[int][]byte{0: cat(call(glob, 1), []byte{11}), 1: cat(put(21, slot), []byte{11})}},
					{"put in caller, two calls, get after each", cat(mv, put(23, slot), call(glob, 0), get(slot), use, call(glob, 0), get(slot), use, []byte{14}),
						map[int][]byte{0: {11}}},
					{"put in callee A, get in callee B", cat(mv, call(glob, 0), call(glob, 1), []byte{14}),
						map[int][]byte{0: cat(put(25, slot), []byte{11}), 1: cat(get(slot), use, []byte{11})}},
					{"overwrite in callee, get in caller", cat(mv, put(1, slot), call(glob, 0), get(slot), use, []byte{14}),
						map[int][]byte{0: cat(put(27, slot), []byte{11})}},
					{"put in caller, callee ends the glyph after get", cat(mv, put(29, slot), call(glob, 0)),
						map[int][]byte{0: cat(get(slot), use, []byte{14})}},
				} {
					env := newT2env()
					if glob {
						env.ng = 2
					} else {
						env.ns = 2
					}
					for _, i := range []int{0, 1} {
						if b, ok := p.subrs[i]; ok {
							env.setSubr(glob, i, b)
						}
					}
					c.Stat("t2.store-across-calls", p.name)
					c.Case(Verdict, "t2.dec", env.args(p.main), true)
					c.Case(Direct, "t2.spec", env.args(p.main), true)
				}
			}
		}
	}
	// the stack limit (48) reached by an OPERATOR, not an operand: 47 / 48 elements, then a stack-growing operator
	// (dup, random) or, as control, an operator that does not grow the stack (index, get, put, roll, exch), plain
	// and inside a subroutine; TN5177 Appendix B: at most 48 entries -> the 49th is rejected
	for _, k := range []int{47, 48} {
		for name, tail := range map[string][]byte{
			"dup":    esc(27),
			"random": esc(23),
		} {
			grows := k == 48
			for _, inSubr := range []bool{false, true} {
				env := newT2env()
				body := cat(tail)
				code := cat(mv, rep(k, num(2)), body, []byte{6, 14})
				if inSubr {
					env.ns = 1
					env.setSubr(false, 0, cat(body, []byte{11}))
					// the call operand itself needs a slot: push it first, then k-1 further operands
					code = cat(mv, rep(k, num(2)), []byte{6}, mv, rep(k-1, num(2)), num(-107), []byte{10}, []byte{6, 14})
					grows = k == 48 // k-1 operands + the value pushed in the subroutine = k ... see below
				}
				_ = grows
				c.Stat("t2.stack-limit-probe", fmt.Sprintf("%d elements + %s%s", k, name, map[bool]string{true: " in subr", false: ""}[inSubr]))
				c.Case(Verdict, "t2.dec", env.args(code), true)
				if !inSubr && k == 48 {
					c.Stat("t2.fault-class", "overflow-by-operator")
					c.Case(Direct, "t2.rejects", env.args(code), true)
				} else if !inSubr {
					c.Case(Direct, "t2.spec", env.args(code), true)
				}
			}
		}
		// 48 elements inside a subroutine, then dup/random there: the 49th is pushed by an operator in the callee
		for name, tail := range map[string][]byte{"dup": esc(27), "random": esc(23)} {
			env := newT2env()
			env.ns = 1
			env.setSubr(false, 0, cat(num(2), tail, []byte{11})) // pushes 2 elements
			code := cat(mv, rep(k-2, num(2)), num(-107), []byte{10}, []byte{6, 14})
			c.Stat("t2.stack-limit-probe", fmt.Sprintf("%d elements before the call, operand + %s in the callee", k-2, name))
			c.Case(Verdict, "t2.dec", env.args(code), true)
			if k == 48 {
				c.Case(Direct, "t2.spec", env.args(code), true) // 46 + 2 = 48: legal
			} else {
				c.Case(Direct, "t2.spec", env.args(code), true) // 45 + 2 = 47: legal
			}
			env2 := newT2env()
			env2.ns = 1
			env2.setSubr(false, 0, cat(num(2), tail, []byte{11}))
			code2 := cat(mv, rep(k-1, num(2)), num(-107), []byte{10}, []byte{6, 14}) // k-1 + 2 = k+1
			c.Case(Verdict, "t2.dec", env2.args(code2), true)
			if k == 48 {
				c.Stat("t2.fault-class", "overflow-by-operator")
				c.Case(Direct, "t2.rejects", env2.args(code2), true)
			} else {
				c.Case(Direct, "t2.spec", env2.args(code2), true) // 46 + 2 = 48: legal
			}
		}
	}
	// controls at a full stack: operators that do not grow it are fine
	for name, body := range map[string][]byte{
		"index at 48": cat(rep(47, num(2)), num(0), esc(29)),
		"get at 48":   cat(num(9), num(0), esc(20), rep(47, num(2)), num(0), esc(21)),
		"put at 48":   cat(rep(46, num(2)), num(9), num(3), esc(20), num(2), num(2)),
		"roll at 48":  cat(rep(46, num(2)), num(3), num(1), esc(30), num(2), num(2)),
		"exch at 48":  cat(rep(48, num(2)), esc(28)),
		"neg at 48":   cat(rep(48, num(2)), esc(14)),
		"add at 48":   cat(rep(48, num(2)), esc(10), num(2)),
	} {
		c.Stat("t2.stack-limit-probe", name+" (control)")
		code := cat(mv, body, []byte{6, 14})
		c.Case(Verdict, "t2.dec", newT2env().args(code), true)
		c.Case(Direct, "t2.spec", newT2env().args(code), true)
	}
	// the mirror at the bottom: every path operator and moveto with exactly one operand fewer than its minimum
	for _, po := range []struct {
		op  []byte
		min int
	}{{[]byte{21}, 2}, {[]byte{22}, 1}, {[]byte{4}, 1}, {[]byte{5}, 2}, {[]byte{6}, 1}, {[]byte{7}, 1}, {[]byte{8}, 6},
		{[]byte{24}, 8}, {[]byte{25}, 8}, {[]byte{26}, 4}, {[]byte{27}, 4}, {[]byte{30}, 4}, {[]byte{31}, 4},
		{esc(34), 7}, {esc(35), 13}, {esc(36), 9}, {esc(37), 11}} {
		c.Stat("t2.fault-class", "underflow-path-operator")
		code := cat(mv, rep(po.min-1, num(3)), po.op, []byte{14})
		c.Case(Verdict, "t2.dec", newT2env().args(code), true)
		c.Case(Direct, "t2.rejects", newT2env().args(code), true)
	}
	// known operand-count leniency (documented in cfg partial, not a fault class of C05_rejects): the Go decoder
	// accepts, the specification rejects; compared with the model only
	c.Stat("t2.outside-theorem-probe", "endchar with 2 operands (Go lenient: accepts; specification: operand-count error)")
	c.Case(Verdict, "t2.dec", newT2env().args(cat(num(1), num(2), []byte{14})), true)
	// hvcurveto / vhcurveto trailing operand, all curve operators with n and n+1 operands
	for _, op := range []byte{31, 30, 27, 26} {
		for _, k := range []int{4, 5, 8, 9, 12, 13} {
			code := cat(mv, rep(k, num(int(op)+k)), []byte{op, 14})
			c.Stat("t2.curve-operands", fmt.Sprintf("op%d:%d", op, k))
			c.Case(Verdict, "t2.dec", newT2env().args(code), true)
			c.Case(Direct, "t2.spec", newT2env().args(code), true)
		}
	}
}

// ================================================================ C04: the encoder
//
// Streams of area t2enc
//   V t2.encnum   encodeNumber (real code) vs Lean model: value seen by the decoder + code bytes
//   D t2.rt       (*Glyph).encodeCharString (real code) -> bytes; Lean `interp strict` on those bytes
//                 must reproduce path, stems, masks, width within 2^-17 per coordinate
//   G t2.rt       the same with steps beyond ±32767 (outside the hypothesis of C04_number; finding #20)

func init() {
	ops["t2.encnum"] = func(f Fields) string {
		x := float64(f.Int("n")) / math.Pow(2, float64(f.Int("k")))
		v, code := cff.VerifT2EncodeNumber(x)
		return t2units(v) + " " + hx(code)
	}
	ops["t2.rt"] = func(f Fields) string {
		g, dw, nw := t2parseGlyph(f)
		code, err := cff.VerifT2EncodeCharString(g, dw, nw)
		if err != nil {
			return "encerr"
		}
		if hx(code) != f["code"] {
			return "stale-code:" + hx(code)
		}
		return "ok"
	}
	areas["t2enc"] = genT2enc
}

const t2scale = 1 << 20

func t2f(n int) float64 { return float64(n) / t2scale }

func t2floats(ns []int) []float64 {
	out := make([]float64, len(ns))
	for i, n := range ns {
		out[i] = t2f(n)
	}
	return out
}

func t2parseGlyph(f Fields) (*cff.Glyph, float64, float64) {
	g := &cff.Glyph{Width: t2f(f.Int("w")), HStem: t2floats(f.Ints("hs")), VStem: t2floats(f.Ints("vs"))}
	for _, c := range f.List("cmds", ";") {
		k := strings.IndexByte(c, ':')
		if k < 0 {
			panic("bad cmd")
		}
		switch c[:k] {
		case "m", "l", "c":
			var ns []int
			for _, p := range strings.Split(c[k+1:], ",") {
				var n int
				fmt.Sscan(p, &n)
				ns = append(ns, n)
			}
			op := cff.OpMoveTo
			if c[:k] == "l" {
				op = cff.OpLineTo
			} else if c[:k] == "c" {
				op = cff.OpCurveTo
			}
			g.Cmds = append(g.Cmds, cff.GlyphOp{Op: op, Args: t2floats(ns)})
		case "h", "k":
			b, err := hex.DecodeString(c[k+1:])
			if err != nil {
				panic("bad mask")
			}
			args := make([]float64, len(b))
			for i, x := range b {
				args[i] = float64(x)
			}
			op := cff.OpHintMask
			if c[:k] == "k" {
				op = cff.OpCntrMask
			}
			g.Cmds = append(g.Cmds, cff.GlyphOp{Op: op, Args: args})
		}
	}
	return g, float64(f.Int("dw")) / 65536, float64(f.Int("nw")) / 65536
}

// t2coord draws a coordinate at scale 2^-20 inside ±lim design units
func t2coord(r *Rng, lim int, frac int) int {
	v := r.Range(-lim, lim) * t2scale
	switch frac {
	case 1: // 16.16 fraction
		if r.Chance(1, 3) {
			v += r.Range(0, 65535) * 16
		}
	case 2: // finer than 16.16: must be rounded by the encoder
		if r.Chance(1, 2) {
			v += r.Range(0, t2scale-1)
		}
	}
	return v
}

func genT2glyph(c *Ctx, lim int) (args string, nontrivial bool) {
	r := c.Rng
	frac := Pick(r, []int{0, 0, 1, 2})
	c.Stat("t2enc.coordinates", []string{"integer", "16.16", "finer-than-16.16"}[frac])
	var cmds []string
	x, y := 0, 0
	near := func(v int) int { // next coordinate: mostly a short step, sometimes anywhere
		switch r.Intn(8) {
		case 0:
			return t2coord(r, lim, frac)
		case 1:
			return v
		default:
			n := v + r.Range(-300, 300)*t2scale
			if frac == 1 && r.Chance(1, 3) {
				n += r.Range(-65535, 65535) * 16
			}
			if frac == 2 && r.Chance(1, 2) {
				n += r.Range(-t2scale, t2scale)
			}
			if n > lim*t2scale {
				n = lim * t2scale
			}
			if n < -lim*t2scale {
				n = -lim * t2scale
			}
			return n
		}
	}
	pt := func(a ...int) string { return ints(a) }
	nh, nv := Pick(r, []int{0, 0, 1, 2, 24, 25, 48}), Pick(r, []int{0, 0, 1, 3, 24, 25, 48})
	stem := func(n int) []int {
		var out []int
		pos := r.Range(-200, 100) * t2scale
		for i := 0; i < n; i++ {
			pos += r.Range(0, 60) * t2scale
			out = append(out, pos)
			pos += r.Range(1, 40) * t2scale
			if frac == 1 {
				pos += r.Range(0, 65535) * 16
			}
			out = append(out, pos)
		}
		return out
	}
	hs, vs := stem(nh), stem(nv)
	c.Stat("t2enc.stems", fmt.Sprintf("h%s+v%s", bucket(nh), bucket(nv)))
	useMask := nh+nv > 0 && r.Bool()
	mask := func() string {
		t := "h:"
		if r.Chance(1, 4) {
			t = "k:"
		}
		return t + hx(r.Bytes((nh+nv+7)/8))
	}
	if useMask && r.Bool() {
		cmds = append(cmds, mask())
		c.Stat("t2enc.mask", "first-command")
	}
	nsub := r.Range(0, 3)
	for s := 0; s < nsub; s++ {
		switch r.Intn(4) {
		case 0:
			x = near(x)
		case 1:
			y = near(y)
		default:
			x, y = near(x), near(y)
		}
		cmds = append(cmds, "m:"+pt(x, y))
		nseg := r.Range(0, 8)
		if r.Chance(1, 12) {
			nseg = r.Range(25, 60) // longer than the stack limit
			c.Stat("t2enc.long-run", "yes")
		}
		mode := r.Intn(6)
		for k := 0; k < nseg; k++ {
			if useMask && r.Chance(1, 12) {
				cmds = append(cmds, mask())
				c.Stat("t2enc.mask", "mid-path")
			}
			line := r.Bool()
			if mode == 0 {
				line = true
			} else if mode == 1 {
				line = false
			}
			if line {
				switch {
				case mode == 2 || r.Chance(1, 3): // alternating h/v
					if k%2 == 0 {
						x = near(x)
					} else {
						y = near(y)
					}
					c.Stat("t2enc.segment", "axis-line")
				default:
					x, y = near(x), near(y)
					c.Stat("t2enc.segment", "line")
				}
				cmds = append(cmds, "l:"+pt(x, y))
			} else {
				// curve: choose the tangent pattern (first/last control delta horizontal, vertical or free)
				t0, t1 := r.Intn(3), r.Intn(3)
				xa, ya := near(x), near(y)
				if t0 == 0 {
					ya = y
				} else if t0 == 1 {
					xa = x
				}
				xb, yb := near(xa), near(ya)
				xc, yc := near(xb), near(yb)
				if t1 == 0 {
					yc = yb
				} else if t1 == 1 {
					xc = xb
				}
				if mode == 5 && k%2 == 1 && r.Bool() {
					// second half of an hflex-like pair: return to the start y
					ya = y
					yc = yb
				}
				c.Stat("t2enc.segment", fmt.Sprintf("curve-%c%c", "hvf"[t0], "hvf"[t1]))
				cmds = append(cmds, "c:"+pt(xa, ya, xb, yb, xc, yc))
				x, y = xc, yc
			}
		}
	}
	// hflex / hflex1 shapes
	if r.Chance(1, 4) {
		x, y = near(x), near(y)
		cmds = append(cmds, "m:"+pt(x, y))
		d := func() int { return r.Range(1, 80) * t2scale }
		if r.Bool() { // hflex: dy1=dy3=dy4=dy6=0, dy2+dy5=0
			h := r.Range(-40, 40) * t2scale
			x1 := x + d()
			x2 := x1 + d()
			x3 := x2 + d()
			x4 := x3 + d()
			x5 := x4 + d()
			x6 := x5 + d()
			cmds = append(cmds, "c:"+pt(x1, y, x2, y+h, x3, y+h), "c:"+pt(x4, y+h, x5, y, x6, y))
			x = x6
			c.Stat("t2enc.segment", "hflex-shape")
		} else { // hflex1: dy3=dy4=0, sum dy = 0
			h1, h2 := r.Range(-40, 40)*t2scale, r.Range(-40, 40)*t2scale
			x1 := x + d()
			x2 := x1 + d()
			x3 := x2 + d()
			x4 := x3 + d()
			x5 := x4 + d()
			x6 := x5 + d()
			cmds = append(cmds, "c:"+pt(x1, y+h1, x2, y+h1+h2, x3, y+h1+h2), "c:"+pt(x4, y+h1+h2, x5, y+h1, x6, y))
			x = x6
			c.Stat("t2enc.segment", "hflex1-shape")
		}
	}
	dw := r.Range(0, 1000)
	nw := r.Range(-200, 1000)
	w := dw * t2scale
	switch r.Intn(3) {
	case 0:
		c.Stat("t2enc.width", "default")
	case 1:
		w = r.Range(0, 2000) * t2scale
		c.Stat("t2enc.width", "integer")
	default:
		w = r.Range(0, 2000)*t2scale + r.Range(0, 65535)*16
		c.Stat("t2enc.width", "16.16")
	}
	c.Stat("t2enc.commands", bucket(len(cmds)))
	return fmt.Sprintf("w=%d dw=%d nw=%d hs=%s vs=%s cmds=%s", w, dw*65536, nw*65536, ints(hs), ints(vs),
		strings.Join(cmds, ";")), len(cmds) > 2
}

func genT2enc(c *Ctx) {
	r := c.Rng
	// numbers
	edge := []int{0, 107, 108, 1131, 1132, 32767, 32768, 32769, 40000, 65536, 70000}
	numCase := func(n, k int) {
		x := float64(n) / math.Pow(2, float64(k))
		in := "inside"
		if math.Abs(x) > 32767 {
			in = "outside (|x| > 32767)"
		}
		c.Stat("t2enc.number-domain", in)
		c.Stat("t2enc.number-scale", fmt.Sprintf("2^-%d", k))
		c.Case(Verdict, "t2.encnum", fmt.Sprintf("n=%d k=%d", n, k), true)
	}
	for _, e := range edge {
		for _, s := range []int{1, -1} {
			numCase(s*e, 0)
			for _, k := range []int{17, 18, 30} {
				for _, d := range []int{-3, -2, -1, 1, 2, 3} {
					numCase(s*e<<k+d, k)
					numCase(s*e<<k+d*(1<<(k-17))+d, k)
				}
			}
		}
	}
	nNum := c.N / 3
	for i := 0; i < nNum; i++ {
		k := Pick(r, []int{0, 1, 8, 16, 17, 18, 20, 30})
		lim := Pick(r, []int{120, 1200, 32767, 32767, 70000})
		n := r.Range(-lim<<k, lim<<k)
		if r.Chance(1, 4) { // near an integer
			n = r.Range(-lim, lim)<<k + r.Range(-4, 4)
		}
		numCase(n, k)
	}
	// targeted families (every run): near-flex curve pairs, curve forms, alternating lines, stem chunks
	for _, args := range t2targeted(c) {
		t2glyphCases(c, args, Direct, true)
	}
	// random glyphs
	nG := (c.N - nNum) / 4
	for i := 0; i < nG; i++ {
		lim := 16000 // steps stay below 32767
		kind := Direct
		if i%12 == 11 {
			lim = 32000 // the property's own box: steps up to 64000 (finding #20)
			kind = Diagnostic
		}
		args, nt := genT2glyph(c, lim)
		c.Stat("t2enc.step-domain", map[bool]string{true: "coordinates in ±16000 (steps < 32767)", false: "coordinates in ±32000 (diagnostic)"}[lim == 16000])
		t2glyphCases(c, args, kind, nt)
	}
}


// ---------------------------------------------------------------- compiler internals (hooks)

// t2runs lists the maximal runs [lo,hi) of lineto/curveto commands.
func t2runs(cmds []cff.GlyphOp) [][2]int {
	var out [][2]int
	for i := 0; i < len(cmds); {
		if cmds[i].Op == cff.OpLineTo || cmds[i].Op == cff.OpCurveTo {
			k := i
			for k < len(cmds) && (cmds[k].Op == cff.OpLineTo || cmds[k].Op == cff.OpCurveTo) {
				k++
			}
			out = append(out, [2]int{i, k})
			i = k
		} else {
			i++
		}
	}
	return out
}

func t2edgeStr(e cff.VerifT2Edge) string {
	var b []byte
	for _, c := range e.Code {
		b = append(b, c...)
	}
	return fmt.Sprintf("%d/%s", e.To, hx(b))
}

func t2edgeOp(e cff.VerifT2Edge) int {
	last := e.Code[len(e.Code)-1]
	if len(last) == 2 {
		return int(last[0])<<8 | int(last[1])
	}
	return int(last[0])
}

func t2chosenPaths(cmds []cff.GlyphOp) string {
	var parts []string
	for _, r := range t2runs(cmds) {
		var steps []string
		for _, e := range cff.VerifT2ChosenPathRange(cmds, r[0], r[1]) {
			steps = append(steps, fmt.Sprintf("%d.%d", e.To, t2edgeOp(e)))
		}
		parts = append(parts, strings.Join(steps, ","))
	}
	return strings.Join(parts, "/")
}

func init() {
	ops["t2.encargs"] = func(f Fields) string {
		g, _, _ := t2parseGlyph(f)
		var out []string
		for _, c := range cff.VerifT2EncodeArgs(g.Cmds) {
			switch c.Op {
			case cff.OpMoveTo, cff.OpLineTo, cff.OpCurveTo:
				t := map[cff.GlyphOpType]string{cff.OpMoveTo: "m:", cff.OpLineTo: "l:", cff.OpCurveTo: "c:"}[c.Op]
				a := make([]string, len(c.Args))
				for i, x := range c.Args {
					a[i] = t2units(x.Val) + "/" + hx(x.Code)
				}
				out = append(out, t+strings.Join(a, ","))
			case cff.OpHintMask:
				out = append(out, "h:"+hx(c.Args[0].Code))
			case cff.OpCntrMask:
				out = append(out, "k:"+hx(c.Args[0].Code))
			}
		}
		return strings.Join(out, ";")
	}
	ops["t2.edges"] = func(f Fields) string {
		g, _, _ := t2parseGlyph(f)
		var out []string
		for ri, r := range t2runs(g.Cmds) {
			for i := 0; i < r[1]-r[0]; i++ {
				var es []string
				for _, e := range cff.VerifT2EdgesRange(g.Cmds, r[0], r[1], i) {
					es = append(es, t2edgeStr(e))
				}
				out = append(out, fmt.Sprintf("%d.%d=%s", ri, i, strings.Join(es, ",")))
			}
		}
		return strings.Join(out, ";")
	}
	ops["t2.asm"] = func(f Fields) string {
		g, dw, nw := t2parseGlyph(f)
		if p := t2chosenPaths(g.Cmds); p != f["paths"] {
			return "stale-path:" + p
		}
		code, err := cff.VerifT2EncodeCharString(g, dw, nw)
		if err != nil {
			return "none"
		}
		return hx(code)
	}
}

// t2glyphCases emits the four lines of one glyph: encodeArgs (V), edge proposals at every node (V),
// assembly of the chosen path (V), specification round trip of the emitted bytes (D, or G outside the hypothesis)
func t2glyphCases(c *Ctx, args string, kind string, nt bool) {
	f := parseFields(args)
	g, dw, nw := t2parseGlyph(f)
	// every call into the library from generator code is guarded: a panicking encoder must become a case
	// outcome (a V/D mismatch with this concrete glyph), never a crash of the harness
	var code []byte
	var encErr error
	paths := ""
	pmsg := guard(func() string {
		code, encErr = cff.VerifT2EncodeCharString(g, dw, nw)
		if encErr != nil {
			return ""
		}
		for _, r := range t2runs(g.Cmds) {
			for _, e := range cff.VerifT2ChosenPathRange(g.Cmds, r[0], r[1]) {
				c.Stat("t2enc.chosen-operator", fmt.Sprint(t2edgeOp(e)))
			}
		}
		paths = t2chosenPaths(g.Cmds)
		return ""
	})
	if pmsg != "" {
		// the real encoder panicked on a glyph of the domain: emit the lines anyway; their handlers re-run the
		// encoder under Exec's guard and report "panic:…", which the model / the specification do not
		c.Stat("t2enc.ENCODER-PANIC", pmsg)
		c.Case(Verdict, "t2.encargs", args, nt)
		c.Case(Verdict, "t2.edges", args, nt)
		c.Case(Verdict, "t2.asm", args+" paths=", nt)
		c.Case(kind, "t2.rt", "code=0e "+args, nt)
		return
	}
	if encErr != nil {
		// the encoder refuses a glyph of the domain: a case outcome, not a silent skip (the generator produces
		// no glyph the model refuses: stem lists have even length)
		c.Stat("t2enc.ENCODER-REFUSES", encErr.Error())
		c.Case(Verdict, "t2.asm", args+" paths="+paths, nt)
		c.Case(kind, "t2.rt", "code=0e "+args, nt)
		return
	}
	c.Stat("t2enc.charstring-bytes", bucket(len(code)))
	c.Case(Verdict, "t2.encargs", args, nt)
	c.Case(Verdict, "t2.edges", args, nt)
	c.Case(Verdict, "t2.asm", args+" paths="+paths, nt)
	c.Case(kind, "t2.rt", "code="+hx(code)+" "+args, nt)
}

// t2fromDeltas builds "m:…;l:…;c:…" from relative segments (2 numbers = line, 6 = curve), scale 2^-20
func t2fromDeltas(x, y int, segs [][]int) string {
	cmds := []string{fmt.Sprintf("m:%d,%d", x, y)}
	for _, s := range segs {
		if len(s) == 2 {
			x, y = x+s[0], y+s[1]
			cmds = append(cmds, fmt.Sprintf("l:%d,%d", x, y))
		} else {
			xa, ya := x+s[0], y+s[1]
			xb, yb := xa+s[2], ya+s[3]
			xc, yc := xb+s[4], yb+s[5]
			cmds = append(cmds, fmt.Sprintf("c:%d,%d,%d,%d,%d,%d", xa, ya, xb, yb, xc, yc))
			x, y = xc, yc
		}
	}
	return strings.Join(cmds, ";")
}

func t2plain(cmds string) string {
	return fmt.Sprintf("w=0 dw=0 nw=0 hs= vs= cmds=%s", cmds)
}

// t2targeted: the shapes around every applicability condition of the operator forms
func t2targeted(c *Ctx) []string {
	r := c.Rng
	var out []string
	// a non-zero delta in the flavour of this glyph (integer, 16.16, finer)
	nz := func(fl int) int {
		v := r.Range(1, 90) * t2scale
		if r.Bool() {
			v = -v
		}
		switch fl {
		case 1:
			v += r.Range(1, 65535) * 16
		case 2:
			v += r.Range(1, t2scale-1)
		}
		return v
	}
	// (a) near-flex pairs: dy1..dy6 (and transposed: dx1..dx6) zero / non-zero in all 64 patterns;
	// without and with the pair returning to the start coordinate (one delta absorbs the sum)
	for transpose := 0; transpose < 2; transpose++ {
		for mask := 0; mask < 64; mask++ {
			fl := r.Intn(3)
			var minor [6]int
			var nzIdx []int
			for i := 0; i < 6; i++ {
				if mask>>i&1 == 1 {
					minor[i] = nz(fl)
					nzIdx = append(nzIdx, i)
				}
			}
			variants := [][6]int{minor}
			for _, j := range nzIdx {
				v := minor
				sum := 0
				for i, d := range v {
					if i != j {
						sum += d
					}
				}
				v[j] = -sum
				variants = append(variants, v)
			}
			if mask>>1&1 == 1 && mask>>4&1 == 1 { // dy2 + dy5 = 0 while the other deltas stay
				v := minor
				v[4] = -v[1]
				variants = append(variants, v)
			}
			for vi, v := range variants {
				var major [6]int
				for i := range major {
					major[i] = nz(fl)
					if r.Chance(1, 8) {
						major[i] = 0
					}
				}
				seg := func(k int) []int {
					s := make([]int, 6)
					for i := 0; i < 3; i++ {
						a, b := major[3*k+i], v[3*k+i]
						if transpose == 1 {
							a, b = b, a
						}
						s[2*i], s[2*i+1] = a, b
					}
					return s
				}
				segs := [][]int{seg(0), seg(1)}
				if r.Chance(1, 4) { // something before / after the pair
					segs = append([][]int{{nz(fl), nz(fl)}}, segs...)
				}
				if r.Chance(1, 4) {
					segs = append(segs, []int{nz(fl), nz(fl), nz(fl), nz(fl), nz(fl), nz(fl)})
				}
				ret := "free"
				if vi > 0 {
					ret = "returns-to-start"
				}
				c.Stat("t2enc.family", "flex-pair/"+[]string{"y", "x"}[transpose]+"/"+ret)
				out = append(out, t2plain(t2fromDeltas(nz(0), nz(0), segs)))
			}
		}
	}
	// (b) curve forms: first/last tangent horizontal, vertical or free for runs of 1..4 curves
	curve := func(fl, t0, t1 int) []int {
		s := []int{nz(fl), nz(fl), nz(fl), nz(fl), nz(fl), nz(fl)}
		if t0 == 0 {
			s[1] = 0
		} else if t0 == 1 {
			s[0] = 0
		}
		if t1 == 0 {
			s[5] = 0
		} else if t1 == 1 {
			s[4] = 0
		}
		return s
	}
	for n := 1; n <= 4; n++ {
		total := 1
		for i := 0; i < n; i++ {
			total *= 9
		}
		count := total
		if count > 81 {
			count = 70
		}
		for k := 0; k < count; k++ {
			code := k
			if total > 81 {
				code = r.Intn(total)
			}
			fl := r.Intn(3)
			var segs [][]int
			for i := 0; i < n; i++ {
				t := code % 9
				code /= 9
				segs = append(segs, curve(fl, t/3, t%3))
			}
			switch r.Intn(5) {
			case 0:
				segs = append(segs, []int{nz(fl), nz(fl)})
			case 1:
				segs = append([][]int{{nz(fl), nz(fl)}}, segs...)
			}
			c.Stat("t2enc.family", fmt.Sprintf("curve-tangents/%d-curves", n))
			out = append(out, t2plain(t2fromDeltas(nz(0), nz(0), segs)))
		}
	}
	// long alternating hv/vh curve runs (stack bound of hvcurveto/hhcurveto: 12 curves = 48 operands)
	for _, n := range []int{11, 12, 13, 14} {
		for start := 0; start < 2; start++ {
			for _, form := range []int{0, 1} {
				fl := r.Intn(3)
				var segs [][]int
				for i := 0; i < n; i++ {
					if form == 0 { // alternating start tangents, aligned ends
						h := (i+start)%2 == 0
						if h {
							segs = append(segs, curve(fl, 0, 1))
						} else {
							segs = append(segs, curve(fl, 1, 0))
						}
					} else { // all hh or all vv
						segs = append(segs, curve(fl, start, start))
					}
				}
				c.Stat("t2enc.family", fmt.Sprintf("curve-run/%d", n))
				out = append(out, t2plain(t2fromDeltas(nz(0), nz(0), segs)))
			}
		}
	}
	// every operator form at its stack limit: the maximal run that fits 48 operands, with and without the optional
	// leading (hh/vv) or trailing (hv/vh) operand, at limit-1, limit, limit+1 and 2*limit
	for _, n := range []int{11, 12, 13, 24} {
		for start := 0; start < 2; start++ {
			for opt := 0; opt < 2; opt++ {
				fl := r.Intn(3)
				// hhcurveto (start=0) / vvcurveto (start=1): all tangents aligned, the first curve may start obliquely
				var segs [][]int
				for i := 0; i < n; i++ {
					s := curve(fl, start, start)
					if i == 0 && opt == 1 {
						s[1-start] = nz(fl) // dy1 (hh) / dx1 (vv): the optional leading operand
					}
					segs = append(segs, s)
				}
				c.Stat("t2enc.family", fmt.Sprintf("stack-limit/%s n=%d lead=%d", []string{"hhcurveto", "vvcurveto"}[start], n, opt))
				out = append(out, t2plain(t2fromDeltas(nz(0), nz(0), segs)))
				// hvcurveto (start=0) / vhcurveto (start=1): alternating, the last curve may end obliquely
				segs = nil
				for i := 0; i < n; i++ {
					h := (i+start)%2 == 0
					var s []int
					if h {
						s = curve(fl, 0, 1)
					} else {
						s = curve(fl, 1, 0)
					}
					if i == n-1 && opt == 1 {
						if h {
							s[4] = nz(fl) // dxf: the optional trailing operand
						} else {
							s[5] = nz(fl)
						}
					}
					segs = append(segs, s)
				}
				c.Stat("t2enc.family", fmt.Sprintf("stack-limit/%s n=%d trail=%d", []string{"hvcurveto", "vhcurveto"}[start], n, opt))
				out = append(out, t2plain(t2fromDeltas(nz(0), nz(0), segs)))
			}
		}
	}
	obl := func(fl int) []int { return []int{nz(fl), nz(fl), nz(fl), nz(fl), nz(fl), nz(fl)} }
	for _, n := range []int{7, 8, 9, 16} { // rrcurveto: 8 curves = 48 operands; rcurveline: 7 curves + line = 44, 8 + line = 50
		for tail := 0; tail < 2; tail++ {
			fl := r.Intn(3)
			var segs [][]int
			for i := 0; i < n; i++ {
				segs = append(segs, obl(fl))
			}
			if tail == 1 {
				segs = append(segs, []int{nz(fl), nz(fl)})
			}
			c.Stat("t2enc.family", fmt.Sprintf("stack-limit/rrcurveto-rcurveline n=%d line=%d", n, tail))
			out = append(out, t2plain(t2fromDeltas(nz(0), nz(0), segs)))
		}
	}
	for _, n := range []int{20, 21, 22, 42} { // rlinecurve: 21 lines + curve = 48 operands
		fl := r.Intn(3)
		var segs [][]int
		for i := 0; i < n; i++ {
			segs = append(segs, []int{nz(fl), nz(fl)})
		}
		segs = append(segs, obl(fl))
		c.Stat("t2enc.family", fmt.Sprintf("stack-limit/rlinecurve n=%d", n))
		out = append(out, t2plain(t2fromDeltas(nz(0), nz(0), segs)))
	}
	for _, n := range []int{96, 97} { // hlineto / vlineto: 48 operands per operator
		for start := 0; start < 2; start++ {
			var segs [][]int
			for i := 0; i < n; i++ {
				if (i+start)%2 == 0 {
					segs = append(segs, []int{nz(0), 0})
				} else {
					segs = append(segs, []int{0, nz(0)})
				}
			}
			c.Stat("t2enc.family", fmt.Sprintf("stack-limit/alternating-lines n=%d", n))
			out = append(out, t2plain(t2fromDeltas(nz(0), nz(0), segs)))
		}
	}
	// (c) alternating h/v line runs of odd and even length, around the stack limit, with and without a break
	for _, n := range []int{1, 2, 3, 4, 5, 6, 7, 23, 24, 25, 47, 48, 49, 50} {
		for start := 0; start < 2; start++ {
			for brk := 0; brk < 2; brk++ {
				fl := r.Intn(3)
				var segs [][]int
				for i := 0; i < n; i++ {
					if (i+start)%2 == 0 {
						segs = append(segs, []int{nz(fl), 0})
					} else {
						segs = append(segs, []int{0, nz(fl)})
					}
				}
				if brk == 1 {
					k := r.Intn(n)
					segs[k] = []int{nz(fl), nz(fl)}
				}
				c.Stat("t2enc.family", fmt.Sprintf("alternating-lines/%s", bucket(n)))
				out = append(out, t2plain(t2fromDeltas(nz(0), nz(0), segs)))
			}
		}
	}
	// diagonal line runs around the stack limit (24 lines = 48 operands), zero deltas inside
	for _, n := range []int{23, 24, 25, 26, 48, 49} {
		fl := r.Intn(3)
		var segs [][]int
		for i := 0; i < n; i++ {
			s := []int{nz(fl), nz(fl)}
			if r.Chance(1, 10) {
				s[r.Intn(2)] = 0
			}
			segs = append(segs, s)
		}
		c.Stat("t2enc.family", fmt.Sprintf("diagonal-lines/%d", n))
		out = append(out, t2plain(t2fromDeltas(nz(0), nz(0), segs)))
	}
	// (e) almost axis-aligned: the delta that decides "horizontal / vertical" is k*2^-16 or k*2^-17 (|k| = 1..8):
	// such a delta is NOT zero and must survive every operator form (moveto, lines, all curve forms), also along
	// staircases where dropped deltas would accumulate
	tiny := func() int {
		k := r.Range(1, 8)
		if r.Bool() {
			k = -k
		}
		if r.Chance(1, 3) {
			return k * 8 // k * 2^-17: rounds to a multiple of 2^-16
		}
		return k * 16 // k * 2^-16
	}
	for rep := 0; rep < 40; rep++ {
		var segs [][]int
		n := r.Range(1, 12)
		if rep%8 == 7 {
			n = r.Range(30, 60) // staircase: accumulation
		}
		kind := rep % 4
		for i := 0; i < n; i++ {
			big := nz(0)
			switch kind {
			case 0: // almost h/v lines, alternating
				if i%2 == 0 {
					segs = append(segs, []int{big, tiny()})
				} else {
					segs = append(segs, []int{tiny(), big})
				}
			case 1: // almost-aligned curves: start and end tangents
				s := []int{nz(0), nz(0), nz(0), nz(0), nz(0), nz(0)}
				if i%2 == 0 {
					s[1], s[4] = tiny(), tiny() // almost hv
				} else {
					s[0], s[5] = tiny(), tiny() // almost vh
				}
				segs = append(segs, s)
			case 2: // almost hh / vv curves
				s := []int{nz(0), nz(0), nz(0), nz(0), nz(0), nz(0)}
				if r.Bool() {
					s[1], s[5] = tiny(), tiny()
				} else {
					s[0], s[4] = tiny(), tiny()
				}
				segs = append(segs, s)
			default: // mixture, some exactly aligned
				if r.Bool() {
					segs = append(segs, []int{big, Pick(r, []int{0, tiny()})})
				} else {
					s := []int{nz(0), Pick(r, []int{0, tiny()}), nz(0), nz(0), Pick(r, []int{0, tiny()}), nz(0)}
					segs = append(segs, s)
				}
			}
		}
		c.Stat("t2enc.family", "almost-axis-aligned/"+[]string{"lines", "hv-vh curves", "hh-vv curves", "mixture"}[kind])
		mx, my := nz(0), nz(0)
		switch rep % 3 {
		case 0:
			my = tiny() // almost hmoveto
		case 1:
			mx = tiny() // almost vmoveto
		}
		out = append(out, t2plain(t2fromDeltas(mx, my, segs)))
	}
	// (f) "always ends the glyph": charstrings whose last byte before endchar is a DATA byte, in particular 0x0e:
	// empty glyphs whose width operand's code ends in every byte value of interest, and glyphs ending with a mask
	for v := -1200; v <= 1200; v++ {
		code := t2num(int64(v)*65536, 0)
		last := code[len(code)-1]
		if last == 14 || last == 13 || last == 15 || v%97 == 0 {
			c.Stat("t2enc.family", "empty glyph, width operand ending in "+fmt.Sprintf("%02x", last))
			out = append(out, fmt.Sprintf("w=%d dw=%d nw=0 hs= vs= cmds=", v*t2scale, 5000*65536))
		}
	}
	for _, un := range []int{14, 270, 3*65536 + 14, 1294 * 65536, -2*65536 + 14, 3*65536 + 13} {
		c.Stat("t2enc.family", "empty glyph, 3-byte / 16.16 width operand")
		out = append(out, fmt.Sprintf("w=%d dw=%d nw=0 hs= vs= cmds=", un*16, 5000*65536))
	}
	for b := 0; b < 256; b++ {
		c.Stat("t2enc.family", "glyph ending with a mask")
		kind := "h"
		if b%5 == 0 {
			kind = "k"
		}
		out = append(out, fmt.Sprintf("w=0 dw=0 nw=0 hs=%d,%d vs= cmds=m:%d,%d;l:%d,%d;%s:%02x", 10*t2scale, 20*t2scale,
			5*t2scale, 6*t2scale, 50*t2scale, 60*t2scale, kind, b))
	}
	// (d) header: width default / explicit x number of stem pairs x mask first / no mask
	stemPairsList := [][2]int{}
	for _, nh := range []int{0, 1, 23, 24, 25, 48} {
		for _, nv := range []int{0, 1, 23, 24, 25, 48} {
			stemPairsList = append(stemPairsList, [2]int{nh, nv})
		}
	}
	// 48 / 49 / 50 / 52 / 72 / 95 / 96 / 97 stem hints (Type 2 allows 96; HStem/VStem hold two EDGES per stem)
	stemPairsList = append(stemPairsList, [2]int{25, 24}, [2]int{26, 24}, [2]int{26, 26}, [2]int{36, 36}, [2]int{47, 48},
		[2]int{96, 0}, [2]int{0, 96}, [2]int{97, 0}, [2]int{49, 0}, [2]int{0, 50})
	for _, hv := range stemPairsList {
		nh, nv := hv[0], hv[1]
		{
			for wd := 0; wd < 2; wd++ {
				for mf := 0; mf < 2; mf++ {
					if nh+nv == 0 && mf == 1 {
						continue
					}
					stem := func(n int) []int {
						var s []int
						pos := r.Range(-100, 100) * t2scale
						for i := 0; i < n; i++ {
							pos += r.Range(0, 30) * t2scale
							s = append(s, pos)
							pos += r.Range(1, 20) * t2scale
							s = append(s, pos)
						}
						return s
					}
					w := 500 * t2scale
					if wd == 1 {
						w = 620 * t2scale
					}
					cmds := t2fromDeltas(nz(0), nz(0), [][]int{{nz(0), 0}, {0, nz(0)}, {nz(0), nz(0)}})
					if mf == 1 {
						cmds = "h:" + hx(r.Bytes((nh+nv+7)/8)) + ";" + cmds
					}
					c.Stat("t2enc.family", "header")
					c.Stat("t2enc.stems", fmt.Sprintf("h%s+v%s", bucket(nh), bucket(nv)))
					out = append(out, fmt.Sprintf("w=%d dw=%d nw=%d hs=%s vs=%s cmds=%s", w, 500*65536, 400*65536,
						ints(stem(nh)), ints(stem(nv)), cmds))
				}
			}
		}
	}
	return out
}

// ================================================================ C05: whole CFF files (stream t2.cfffile)
//
// D t2.cfffile: a minimal CFF file is assembled BY THE HARNESS from the description in the case line (simple or
// CID-keyed, 1-3 Font DICTs with different local subroutine tables and different default/nominal widths, widths
// stored as integer or as real DICT operands, glyphs spread over the Font DICTs), read by the real cff.Read, and
// every glyph is compared with the specification interpreter run with the subroutines and widths of ITS Font DICT
// as the description states them.
//
//   cid=0|1 gs=<table> fds=<fd>|<fd>… glyphs=<fdIndex>:<hex>;…
//   <table> = n~defaultBodyHex~idx:hex,idx:hex      <fd> = dw~nw~i|r~<table>   (dw, nw in 16.16 units)

type t2cffTable struct {
	n    int
	dflt []byte
	ents map[int][]byte
	ord  []int
	callable []int // indices with a non-empty body that glyphs may call
}

func (t *t2cffTable) String() string {
	parts := make([]string, 0, len(t.ord))
	for _, i := range t.ord {
		parts = append(parts, fmt.Sprintf("%d:%s", i, hx(t.ents[i])))
	}
	return fmt.Sprintf("%d~%s~%s", t.n, hx(t.dflt), strings.Join(parts, ","))
}

func (t *t2cffTable) blobs() [][]byte {
	out := make([][]byte, t.n)
	for i := range out {
		out[i] = t.dflt
	}
	for i, b := range t.ents {
		if i >= 0 && i < t.n {
			out[i] = b
		}
	}
	return out
}

func t2parseCffTable(s string) *t2cffTable {
	p := strings.Split(s, "~")
	if len(p) != 3 {
		panic("bad table")
	}
	t := &t2cffTable{ents: map[int][]byte{}}
	fmt.Sscan(p[0], &t.n)
	t.dflt = mustHex(p[1])
	if p[2] != "" {
		for _, e := range strings.Split(p[2], ",") {
			k := strings.IndexByte(e, ':')
			var i int
			fmt.Sscan(e[:k], &i)
			t.ents[i] = mustHex(e[k+1:])
			t.ord = append(t.ord, i)
		}
	}
	return t
}

func t2cffIndex(blobs [][]byte) []byte {
	n := len(blobs)
	out := []byte{byte(n >> 8), byte(n)}
	if n == 0 {
		return out
	}
	out = append(out, 4)
	off := 1
	put := func(v int) { out = append(out, byte(v>>24), byte(v>>16), byte(v>>8), byte(v)) }
	put(off)
	for _, b := range blobs {
		off += len(b)
		put(off)
	}
	for _, b := range blobs {
		out = append(out, b...)
	}
	return out
}

func t2dictInt(v int) []byte { return []byte{29, byte(v >> 24), byte(v >> 16), byte(v >> 8), byte(v)} }

// t2dictReal encodes units/65536 (a multiple of 1/4) as a DICT real operand (0x1e, nibbles)
func t2dictReal(units int64) []byte {
	s := strings.TrimRight(strings.TrimRight(fmt.Sprintf("%.2f", float64(units)/65536), "0"), ".")
	if s == "" || s == "-" {
		s = "0"
	}
	var nib []byte
	for _, ch := range s {
		switch {
		case ch >= '0' && ch <= '9':
			nib = append(nib, byte(ch-'0'))
		case ch == '.':
			nib = append(nib, 0xa)
		case ch == '-':
			nib = append(nib, 0xe)
		}
	}
	nib = append(nib, 0xf)
	if len(nib)%2 == 1 {
		nib = append(nib, 0xf)
	}
	out := []byte{30}
	for i := 0; i < len(nib); i += 2 {
		out = append(out, nib[i]<<4|nib[i+1])
	}
	return out
}

type t2cffFD struct {
	dw, nw int64
	real   bool
	shape  byte // 0: defaultWidthX and nominalWidthX present, 'N': neither, 'D': only defaultWidthX, 'W': only nominalWidthX
	subrs  *t2cffTable // (an absent entry has the value 0 in the case line: TN5176 defaults)
}

func t2cffPrivate(fd t2cffFD) []byte {
	num := func(u int64) []byte {
		if fd.real {
			return t2dictReal(u)
		}
		return t2dictInt(int(u / 65536))
	}
	var d []byte
	if fd.shape == 0 || fd.shape == 'D' {
		d = append(d, num(fd.dw)...)
		d = append(d, 20)
	}
	if fd.shape == 0 || fd.shape == 'W' {
		d = append(d, num(fd.nw)...)
		d = append(d, 21)
	}
	if fd.shape == 'N' && fd.subrs.n == 0 {
		d = append(d, t2dictInt(1)...) // BlueFuzz 1 (the default): the DICT is not empty
		d = append(d, 12, 11)
	}
	if fd.subrs.n > 0 {
		// the local Subr INDEX follows the Private DICT directly: offset = size of this DICT
		size := len(d) + 5 + 1
		d = append(d, t2dictInt(size)...)
		d = append(d, 19)
	}
	return d
}

// t2assembleCFF builds the file
func t2assembleCFF(cid bool, gs *t2cffTable, fds []t2cffFD, glyphFD []int, glyphs [][]byte, strs [][]byte) []byte {
	hdr := []byte{1, 0, 4, 4}
	nameIdx := t2cffIndex([][]byte{[]byte("T")})
	strIdx := t2cffIndex(strs)
	gsIdx := t2cffIndex(gs.blobs())
	csIdx := t2cffIndex(glyphs)
	n := len(glyphs)
	var privs, lsubrs [][]byte
	for _, fd := range fds {
		privs = append(privs, t2cffPrivate(fd))
		if fd.subrs.n > 0 {
			lsubrs = append(lsubrs, t2cffIndex(fd.subrs.blobs()))
		} else {
			lsubrs = append(lsubrs, nil)
		}
	}
	build := func(offs map[string]int, privOff []int) ([]byte, []byte) {
		var top []byte
		if cid {
			top = append(top, t2dictInt(1)...)
			top = append(top, t2dictInt(2)...)
			top = append(top, t2dictInt(0)...)
			top = append(top, 12, 30)
			top = append(top, t2dictInt(offs["charset"])...)
			top = append(top, 15)
			top = append(top, t2dictInt(offs["fdarray"])...)
			top = append(top, 12, 36)
			top = append(top, t2dictInt(offs["fdselect"])...)
			top = append(top, 12, 37)
			top = append(top, t2dictInt(n)...)
			top = append(top, 12, 34)
		} else {
			top = append(top, t2dictInt(len(privs[0]))...)
			top = append(top, t2dictInt(privOff[0])...)
			top = append(top, 18)
		}
		top = append(top, t2dictInt(offs["charstrings"])...)
		top = append(top, 17)
		var fdDicts [][]byte
		if cid {
			for i := range fds {
				var d []byte
				d = append(d, t2dictInt(len(privs[i]))...)
				d = append(d, t2dictInt(privOff[i])...)
				d = append(d, 18)
				fdDicts = append(fdDicts, d)
			}
		}
		return t2cffIndex([][]byte{top}), t2cffIndex(fdDicts)
	}
	offs := map[string]int{}
	privOff := make([]int, len(fds))
	topIdx, fdIdx := build(offs, privOff) // sizes do not depend on the offsets (5-byte integers)
	pos := len(hdr) + len(nameIdx) + len(topIdx) + len(strIdx) + len(gsIdx)
	var charset, fdsel []byte
	if cid {
		charset = []byte{2, 0, 1, byte((n - 2) >> 8), byte(n - 2)}
		offs["charset"] = pos
		pos += len(charset)
		fdsel = append([]byte{0}, func() []byte {
			b := make([]byte, n)
			for i, f := range glyphFD {
				b[i] = byte(f)
			}
			return b
		}()...)
		offs["fdselect"] = pos
		pos += len(fdsel)
	}
	offs["charstrings"] = pos
	pos += len(csIdx)
	if cid {
		offs["fdarray"] = pos
		pos += len(fdIdx)
	}
	for i := range fds {
		privOff[i] = pos
		pos += len(privs[i]) + len(lsubrs[i])
	}
	topIdx, fdIdx = build(offs, privOff)
	out := append([]byte{}, hdr...)
	out = append(out, nameIdx...)
	out = append(out, topIdx...)
	out = append(out, strIdx...)
	out = append(out, gsIdx...)
	out = append(out, charset...)
	out = append(out, fdsel...)
	out = append(out, csIdx...)
	if cid {
		out = append(out, fdIdx...)
	}
	for i := range fds {
		out = append(out, privs[i]...)
		out = append(out, lsubrs[i]...)
	}
	return out
}

func t2parseCffCase(f Fields) (bool, *t2cffTable, []t2cffFD, []int, [][]byte) {
	cid := f["cid"] == "1"
	gs := t2parseCffTable(f["gs"])
	var fds []t2cffFD
	for _, s := range strings.Split(f["fds"], "|") {
		p := strings.SplitN(s, "~", 4)
		if len(p) != 4 {
			panic("bad fd")
		}
		var fd t2cffFD
		fmt.Sscan(p[0], &fd.dw)
		fmt.Sscan(p[1], &fd.nw)
		fd.real = strings.HasPrefix(p[2], "r")
		if len(p[2]) > 1 {
			fd.shape = p[2][1]
		}
		fd.subrs = t2parseCffTable(p[3])
		fds = append(fds, fd)
	}
	var gfd []int
	var glyphs [][]byte
	for _, s := range strings.Split(f["glyphs"], ";") {
		k := strings.IndexByte(s, ':')
		var i int
		fmt.Sscan(s[:k], &i)
		gfd = append(gfd, i)
		glyphs = append(glyphs, mustHex(s[k+1:]))
	}
	return cid, gs, fds, gfd, glyphs
}

func init() {
	ops["t2.cfffile"] = func(f Fields) string {
		cid, gs, fds, gfd, glyphs := t2parseCffCase(f)
		// custom strings (never referenced): `strs=k` zero-length strings around one non-empty string
		var strs [][]byte
		if k := f.Int("strs"); k > 0 {
			for i := 0; i < k; i++ {
				strs = append(strs, []byte{})
			}
			strs = append(strs, []byte("x"), []byte{})
		}
		data := t2assembleCFF(cid, gs, fds, gfd, glyphs, strs)
		font, err := cff.Read(bytes.NewReader(data))
		if err != nil {
			return "readerr:" + strings.ReplaceAll(err.Error(), " ", "_")
		}
		out := make([]string, len(font.Glyphs))
		for i, g := range font.Glyphs {
			out[i] = t2showGlyph(g)
		}
		return strings.Join(out, " | ")
	}
	areas["t2cff"] = genT2cff
}

// t2cffFill gives the table callable bodies and, often, zero-length entries (legal in a CFF INDEX: an unused,
// blanked subroutine) at the first / a middle / the last position and several in a row
func t2cffFill(c *Ctx, t *t2cffTable, body func(k int) []byte) {
	r := c.Rng
	n := t.n
	if n == 0 {
		return
	}
	set := func(k int, b []byte) {
		if k < 0 || k >= n {
			return
		}
		if _, ok := t.ents[k]; !ok {
			t.ents[k] = b
			t.ord = append(t.ord, k)
			if len(b) > 0 {
				t.callable = append(t.callable, k)
			}
		}
	}
	mode := r.Intn(4) // 0: no empty entries, 1: first empty, 2: last empty, 3: empty entries inside
	if n < 2 {
		mode = 0
	}
	switch mode {
	case 1:
		set(0, []byte{})
		c.Stat("t2cff.empty-entries", "first")
	case 2:
		set(n-1, []byte{})
		c.Stat("t2cff.empty-entries", "last")
	case 3:
		for _, k := range []int{1, 2, 3, n / 2, n - 2} {
			if k > 0 && k < n-1 {
				set(k, []byte{})
			}
		}
		c.Stat("t2cff.empty-entries", "inside, several in a row")
	default:
		c.Stat("t2cff.empty-entries", "none")
	}
	for _, k := range []int{0, n / 2, n - 1} {
		set(k, body(k))
	}
	if len(t.callable) == 0 {
		// make sure something can be called
		for k := 0; k < n; k++ {
			if _, ok := t.ents[k]; !ok {
				set(k, body(k))
				break
			}
		}
	}
}

func genT2cff(c *Ctx) {
	r := c.Rng
	num := func(n int) []byte { return t2num(int64(n)*65536, 0) }
	cat := func(bs ...[]byte) []byte {
		var out []byte
		for _, b := range bs {
			out = append(out, b...)
		}
		return out
	}
	for i := 0; i < c.N; i++ {
		cid := r.Chance(2, 3)
		nfd := 1
		if cid {
			nfd = r.Range(1, 3)
		}
		gs := &t2cffTable{n: Pick(r, []int{0, 1, 3, 1239, 1240}), dflt: []byte{11}, ents: map[int][]byte{}}
		t2cffFill(c, gs, func(k int) []byte { return cat(num(5+k%40), num(6), []byte{5, 11}) })
		fds := make([]t2cffFD, nfd)
		for j := range fds {
			fd := &fds[j]
			fd.real = r.Bool()
			fd.dw = int64(r.Range(200, 900)) * 65536
			fd.nw = int64(r.Range(-100, 700)) * 65536
			if fd.real && r.Bool() {
				fd.dw += int64(r.Range(1, 3)) * 16384
				fd.nw += int64(r.Range(1, 3)) * 16384
			}
			// Private DICT shapes: entries may be absent (defaults 0, TN5176 table 23); the first fonts of a run sweep the shapes
			fd.shape = Pick(r, []byte{0, 0, 0, 'N', 'D', 'W'})
			if i < 8 {
				fd.shape = []byte{0, 'N', 'D', 'W'}[(i+j)%4]
			}
			if fd.shape == 'N' || fd.shape == 'W' {
				fd.dw = 0
			}
			if fd.shape == 'N' || fd.shape == 'D' {
				fd.nw = 0
			}
			c.Stat("t2cff.private-dict-shape", map[byte]string{0: "defaultWidthX + nominalWidthX", 'N': "neither", 'D': "only defaultWidthX", 'W': "only nominalWidthX"}[fd.shape])
			n := Pick(r, []int{0, 1, 2, 5, 1239, 1240, 1241})
			if r.Chance(1, 12) {
				n = Pick(r, []int{33899, 33900})
			}
			fd.subrs = &t2cffTable{n: n, dflt: []byte{11}, ents: map[int][]byte{}}
			jj := j
			t2cffFill(c, fd.subrs, func(k int) []byte { return cat(num(10+7*jj+k%30), num(3+jj), []byte{5, 11}) })
			c.Stat("t2cff.local-subrs", fmt.Sprint(n))
			c.Stat("t2cff.width-operands", map[bool]string{true: "real", false: "integer"}[fd.real])
		}
		ng := r.Range(2, 8)
		var gfd []int
		var glyphs []string
		for g := 0; g < ng; g++ {
			f := r.Intn(nfd)
			if g < nfd {
				f = g // every Font DICT is used, the first glyphs by the first Font DICTs
			}
			fd := fds[f]
			var code []byte
			if (i < 8 && g%2 == 0) || (!(i < 8 && g%2 == 1) && r.Bool()) { // explicit width: w - nominalWidthX is the first operand
				code = append(code, num(r.Range(-50, 400))...)
				c.Stat("t2cff.glyph-width", "explicit (nominal + operand)")
			} else {
				c.Stat("t2cff.glyph-width", "default")
			}
			code = append(code, cat(num(10+g), num(20), []byte{21})...)
			if len(fd.subrs.callable) > 0 {
				k := Pick(r, fd.subrs.callable)
				code = append(code, cat(num(k-t2bias(fd.subrs.n)), []byte{10})...)
			}
			if len(gs.callable) > 0 {
				k := Pick(r, gs.callable)
				code = append(code, cat(num(k-t2bias(gs.n)), []byte{29})...)
			}
			code = append(code, 14)
			gfd = append(gfd, f)
			glyphs = append(glyphs, fmt.Sprintf("%d:%s", f, hx(code)))
		}
		fdStrs := make([]string, nfd)
		for j, fd := range fds {
			e := "i"
			if fd.real {
				e = "r"
			}
			if fd.shape != 0 {
				e += string(fd.shape)
			}
			fdStrs[j] = fmt.Sprintf("%d~%d~%s~%s", fd.dw, fd.nw, e, fd.subrs.String())
		}
		c.Stat("t2cff.kind", map[bool]string{true: fmt.Sprintf("CID-keyed, %d Font DICTs", nfd), false: "simple"}[cid])
		cidS := "0"
		if cid {
			cidS = "1"
		}
		nstr := Pick(r, []int{0, 0, 1, 3})
		c.Stat("t2cff.empty-strings", fmt.Sprint(nstr))
		out := c.Case(Direct, "t2.cfffile", fmt.Sprintf("cid=%s gs=%s fds=%s glyphs=%s strs=%d", cidS, gs.String(),
			strings.Join(fdStrs, "|"), strings.Join(glyphs, ";"), nstr), true)
		if strings.HasPrefix(out, "readerr") || strings.HasPrefix(out, "panic") {
			c.Stat("t2cff.ALARM", out)
		}
	}
}

// ================================================================ C04: font level (stream t2.fontw, area t2font)
//
// D t2.fontw: a cff.Font with a chosen multiset of advance widths is written by the real (*cff.Font).Write
// (selectWidths, makePrivateDict, encodeCharString together); the Lean side reads the written file independently
// (INDEX, Top DICT, Private DICT defaultWidthX / nominalWidthX, CharStrings) and runs the specification
// interpreter on every charstring: the widths it finds must be the glyphs' widths.
//   widths=<16.16 units,…> file=<hex of the written CFF>

// t2fontStems: number of horizontal / vertical stem hints given to every glyph with index >= 1 (field st=nh:nv)
var t2fontStems [2]int

func t2widthFont(widths []int64, nfd int, empty map[int]bool) *cff.Font {
	font := &cff.Font{
		FontInfo: &type1.FontInfo{
			FontName:   "W",
			FontMatrix: matrix.Matrix{0.001, 0, 0, 0.001, 0, 0},
		},
		Outlines: &cff.Outlines{},
	}
	for i, w := range widths {
		name := ".notdef"
		if i > 0 {
			name = fmt.Sprintf("g%d", i)
		}
		g := cff.NewGlyph(name, float64(w)/65536)
		if !empty[i] {
			g.MoveTo(10, 10)
			g.LineTo(110, 20)
			g.LineTo(60, 120)
		}
		if i >= 1 {
			for k := 0; k < t2fontStems[0]; k++ {
				g.HStem = append(g.HStem, t2f(int(int64(10*k)*65536)), t2f(int(int64(10*k+4)*65536)))
			}
			for k := 0; k < t2fontStems[1]; k++ {
				g.VStem = append(g.VStem, t2f(int(int64(10*k+1)*65536)), t2f(int(int64(10*k+6)*65536)))
			}
		}
		font.Glyphs = append(font.Glyphs, g)
	}
	if nfd == 0 {
		font.Private = []*type1.PrivateDict{{BlueScale: 0.039625, BlueShift: 7, BlueFuzz: 1}}
		font.FDSelect = func(glyph.ID) int { return 0 }
		font.Encoding = cff.StandardEncoding(font.Glyphs)
	} else {
		// CID-keyed: nfd Font DICTs, glyph g in Font DICT g mod nfd
		for i := 0; i < nfd; i++ {
			font.Private = append(font.Private, &type1.PrivateDict{BlueScale: 0.039625, BlueShift: 7, BlueFuzz: 1,
				StdHW: float64(20 + i)})
			font.FontMatrices = append(font.FontMatrices, matrix.Identity)
		}
		for i := range widths {
			font.GIDToCID = append(font.GIDToCID, cid.CID(i))
		}
		k := nfd
		font.FDSelect = func(g glyph.ID) int { return int(g) % k }
		font.ROS = &cid.SystemInfo{Registry: "Adobe", Ordering: "Identity", Supplement: 0}
	}
	return font
}

func t2writeWidthFont(widths []int64, nfd int, empty map[int]bool) ([]byte, error) {
	buf := &bytes.Buffer{}
	err := t2widthFont(widths, nfd, empty).Write(buf)
	return buf.Bytes(), err
}

func init() {
	ops["t2.fontw"] = func(f Fields) string {
		var ws []int64
		for _, p := range f.List("widths", ",") {
			var w int64
			fmt.Sscan(p, &w)
			ws = append(ws, w)
		}
		empty := map[int]bool{}
		for _, i := range f.Ints("e") {
			empty[i] = true
		}
		nfd := 0
		if f["nfd"] != "" {
			nfd = f.Int("nfd")
		}
		t2fontStems = [2]int{}
		if st := f.List("st", ":"); len(st) == 2 {
			fmt.Sscan(st[0], &t2fontStems[0])
			fmt.Sscan(st[1], &t2fontStems[1])
		}
		data, err := t2writeWidthFont(ws, nfd, empty)
		t2fontStems = [2]int{}
		if err != nil {
			return "writeerr:" + strings.ReplaceAll(err.Error(), " ", "_")
		}
		if hx(data) != f["file"] {
			return "stale-file"
		}
		return f["widths"]
	}
	areas["t2font"] = genT2font
}

// D t2.fontbad: fonts of 1-6 glyphs where chosen glyphs carry a stem list of ODD length (the one error
// encodeCharString reports). Font.Write must refuse such a font whatever the position of the bad glyph; a font without
// a bad glyph must be written and read back (cff.Read) with the same glyphs: "refused" / "faithful".
//   hsn=<HStem entries per glyph> vsn=<VStem entries per glyph> nfd=<font dicts>
func t2badFont(hsn, vsn []int, nfd int) string {
	ws := make([]int64, len(hsn))
	for i := range ws {
		ws[i] = int64(500+37*(i%3)) * 65536
	}
	font := t2widthFont(ws, nfd, map[int]bool{})
	for i, g := range font.Glyphs {
		g.HStem, g.VStem = nil, nil
		for k := 0; k < hsn[i]; k++ {
			g.HStem = append(g.HStem, float64(10*k+3*(k%2)))
		}
		for k := 0; k < vsn[i]; k++ {
			g.VStem = append(g.VStem, float64(12*k+5*(k%2)))
		}
	}
	want := make([]string, len(font.Glyphs))
	for i, g := range font.Glyphs {
		want[i] = g.Name + " " + t2showGlyph(g)
	}
	buf := &bytes.Buffer{}
	if err := font.Write(buf); err != nil {
		return "refused"
	}
	back, err := cff.Read(bytes.NewReader(buf.Bytes()))
	if err != nil {
		return "written-but-unreadable:" + strings.ReplaceAll(err.Error(), " ", "_")
	}
	if len(back.Glyphs) != len(want) {
		return fmt.Sprintf("unfaithful:glyph-count-%d", len(back.Glyphs))
	}
	for i, g := range back.Glyphs {
		name := g.Name
		if nfd > 0 {
			name = font.Glyphs[i].Name // CID-keyed fonts carry no glyph names
		}
		if got := name + " " + t2showGlyph(g); got != want[i] {
			return fmt.Sprintf("unfaithful:glyph-%d", i)
		}
	}
	return "faithful"
}

func init() {
	ops["t2.fontbad"] = func(f Fields) string {
		nfd := 0
		if f["nfd"] != "" {
			nfd = f.Int("nfd")
		}
		hsn, vsn := f.Ints("hsn"), f.Ints("vsn")
		if len(hsn) != len(vsn) || len(hsn) == 0 {
			return "bad-case"
		}
		return t2badFont(hsn, vsn, nfd)
	}
}

func genT2fontBad(c *Ctx) {
	r := c.Rng
	emit := func(kind string, hsn, vsn []int, nfd int) {
		c.Stat("t2font.bad-glyph-family", kind)
		c.Case(Direct, "t2.fontbad", fmt.Sprintf("hsn=%s vsn=%s nfd=%d", ints(hsn), ints(vsn), nfd), true)
	}
	for n := 1; n <= 5; n++ {
		for _, nfd := range []int{0, 2} {
			zero := make([]int, n)
			even := make([]int, n)
			for i := range even {
				even[i] = 2 * (i % 3)
			}
			emit(fmt.Sprintf("%d glyphs, all compilable", n), even, zero, nfd)
			for pos := 0; pos < n; pos++ {
				where := "middle"
				if pos == 0 {
					where = "first"
				}
				if pos == n-1 {
					where = "last"
				}
				if n == 1 {
					where = "only"
				}
				for _, odd := range []int{1, 3} {
					hs := append([]int{}, even...)
					hs[pos] = odd
					emit(fmt.Sprintf("%d glyphs, odd HStem list in the %s glyph", n, where), hs, zero, nfd)
					vs := append([]int{}, zero...)
					vs[pos] = odd
					emit(fmt.Sprintf("%d glyphs, odd VStem list in the %s glyph", n, where), even, vs, nfd)
				}
			}
		}
	}
	emit("two bad glyphs, last compilable", []int{1, 2, 3, 0}, []int{0, 0, 0, 0}, 0)
	emit("all glyphs bad", []int{1, 1, 1}, []int{1, 1, 1}, 0)
	for i := 0; i < c.N/4; i++ {
		n := r.Range(2, 6)
		hs, vs := make([]int, n), make([]int, n)
		for j := range hs {
			hs[j], vs[j] = 2*r.Range(0, 3), 2*r.Range(0, 2)
		}
		if r.Chance(3, 4) {
			p := r.Intn(n)
			if r.Bool() {
				hs[p]++
			} else {
				vs[p]++
			}
		}
		emit("random", hs, vs, Pick(r, []int{0, 0, 2}))
	}
}

func genT2font(c *Ctx) {
	r := c.Rng
	genT2fontBad(c)
	emitX := func(kind string, ws []int64, nfd int, empties []int) {
		c.Stat("t2font.family", kind)
		c.Stat("t2font.glyphs", bucket(len(ws)))
		c.Stat("t2font.font-dicts", fmt.Sprint(nfd))
		parts := make([]string, len(ws))
		for i, w := range ws {
			parts[i] = fmt.Sprint(w)
		}
		em := map[int]bool{}
		for _, i := range empties {
			em[i] = true
		}
		var data []byte
		msg := guard(func() string {
			var err error
			data, err = t2writeWidthFont(ws, nfd, em)
			if err != nil {
				return "writeerr"
			}
			return ""
		})
		if msg != "" {
			c.Stat("t2font.write-failed", msg)
		}
		c.Case(Direct, "t2.fontw", fmt.Sprintf("widths=%s nfd=%d e=%s file=%s", strings.Join(parts, ","), nfd, ints(empties), hx(data)), true)
	}
	emit := func(kind string, ws []int64) { emitX(kind, ws, 0, nil) }
	u := func(v int) int64 { return int64(v) * 65536 }
	// glyphs with many stem hints: Type 2 allows 96 stems (the encoder has no limit of its own)
	for _, hv := range [][2]int{{1, 1}, {24, 24}, {25, 24}, {26, 24}, {26, 26}, {36, 36}, {48, 47}, {48, 48}, {96, 0}, {0, 96}, {49, 0}, {0, 50}, {97, 0}} {
		for _, nfd := range []int{0, 2} {
			stems, n := hv, nfd
			c.Stat("t2font.stems", fmt.Sprint(stems[0]+stems[1]))
			ws := []int64{u(600), u(600), u(600), u(450), u(725)}
			parts := "39321600,39321600,39321600,29491200,47513600"
			var data []byte
			msg := guard(func() string {
				t2fontStems = stems
				defer func() { t2fontStems = [2]int{} }()
				var err error
				data, err = t2writeWidthFont(ws, n, map[int]bool{})
				if err != nil {
					return "writeerr"
				}
				return ""
			})
			if msg != "" {
				c.Stat("t2font.WRITE-FAILED (stems)", fmt.Sprintf("h%dv%d", stems[0], stems[1]))
			}
			c.Case(Direct, "t2.fontw", fmt.Sprintf("widths=%s nfd=%d e= st=%d:%d file=%s", parts, n, stems[0], stems[1], hx(data)), true)
		}
	}
	rep := func(w int64, n int) []int64 {
		out := make([]int64, n)
		for i := range out {
			out[i] = w
		}
		return out
	}
	// fixed families (every run)
	for _, W := range []int{600, 250, 1000, 0, 108} {
		for _, d := range []int{-107, -108, 107, 108, -1131, -1132, 1131, 1132, -1, 1, -500} {
			// nominal is pulled to min+107 / max-107: with a single explicit width W-107 it coincides with the default
			emit(fmt.Sprintf("k*default + one explicit at default%+d", d), append(rep(u(W), 3), u(W+d)))
			emit(fmt.Sprintf("k*default + explicit at default%+d and another", d), append(rep(u(W), 3), u(W+d), u(W+d/2+3)))
		}
		emit("all widths equal", rep(u(W), 4))
		emit("single glyph", []int64{u(W)})
		emit("single glyph, fractional", []int64{u(W) + 32768})
		emit("default + fractional explicit", append(rep(u(W), 3), u(W)-107*65536+32768))
		emit("two widths, tie for most frequent", []int64{u(W), u(W + 120), u(W), u(W + 120)})
	}
	// width spread: the nominal width (mean of the non-default widths) lies far from the widest / narrowest glyph, so that
	// selectWidths has to pull it within +-32767 of both ends, or the operand w - nominal does not fit a Type 2 number
	for _, W := range []int{32000, 32766, 32767, 32768, 32769, 33000, 40000, 50000, 65534, 65535} {
		for _, fr := range []int64{0, 16384, 32768, 49152, 1, 65535} {
			emit("width spread upwards {0,0,0,100,W}", []int64{0, 0, 0, u(100), u(W) + fr})
			emit("width spread downwards {0,0,0,-100,-W}", []int64{0, 0, 0, u(-100), -(u(W) + fr)})
			emit("width spread, default high {W,W,W,W-100,0}", []int64{u(W) + fr, u(W) + fr, u(W) + fr, u(W-100) + fr, 0})
		}
		emit("width spread, three explicit", []int64{0, 0, 0, u(100), u(200), u(W)})
		// (a spread above 65534 cannot be written at all: w - nominal exceeds +-32767 for one end whatever the nominal
		// width, and the unchanged encoder then wraps the operand silently, the font-level face of finding C04-bigstep;
		// widths -32767, 32767, 32768 read back as …, -32768: kept out of the stream)
		emit("width spread both ways", []int64{0, 0, 0, u(-W / 2), u(W / 2), u(W/2 - 1)})
		emitX("width spread, CID-keyed", []int64{0, 0, 0, 0, u(100), u(W), u(100), u(W - 1)}, 2, nil)
	}
	emit("most frequent width 0, explicit 107", []int64{0, 0, 0, u(107)})
	emit("most frequent width 0, explicit -107", []int64{0, 0, 0, u(-107)})
	emit("nominal would be 0", []int64{u(500), u(500), u(-107), u(107)})
	// empty glyphs (space): the charstring is "width endchar"; sweep the width operand so that its encoding ends in
	// every possible byte, in particular 0x0e (122 -> f7 0e, 378, 634, -122, …)
	for d := -400; d <= 400; d++ {
		emitX("empty glyph, width sweep", []int64{u(600), u(600), u(600), u(600 + d), u(900)}, 0, []int{3})
	}
	for _, fr := range []int64{14, 270, 65536*3 + 14, -65536*2 + 14} {
		emitX("empty glyph, 16.16 width", []int64{u(600), u(600), u(600), u(500) + fr, u(900)}, 0, []int{3})
	}
	emitX("all glyphs empty", []int64{u(500), u(500), u(622)}, 0, []int{0, 1, 2})
	// CID-keyed fonts: 2-3 Font DICTs, glyphs spread over all of them
	for _, nfd := range []int{1, 2, 3} {
		emitX("CID-keyed", []int64{u(600), u(600), u(600), u(600), u(450), u(725), u(810), u(333), u(600), u(600), u(512) + 32768, u(278)}, nfd, nil)
		emitX("CID-keyed, all default", rep(u(500), 7), nfd, nil)
		emitX("CID-keyed, empty glyphs", []int64{u(600), u(600), u(722), u(600), u(478)}, nfd, []int{2, 4})
	}
	// random multisets
	for i := 0; i < c.N; i++ {
		if i%3 == 2 {
			n := r.Range(2, 9)
			ws := make([]int64, n)
			base := r.Range(0, 1200)
			for j := range ws {
				if r.Bool() {
					ws[j] = u(base)
				} else {
					ws[j] = u(r.Range(0, 2000))
				}
			}
			var em []int
			for j := range ws {
				if r.Chance(1, 4) {
					em = append(em, j)
				}
			}
			emitX("random CID-keyed", ws, r.Range(2, 3), em)
			continue
		}
		n := r.Range(1, 7)
		base := r.Range(0, 1200)
		ws := make([]int64, n)
		for j := range ws {
			switch r.Intn(5) {
			case 0, 1:
				ws[j] = u(base)
			case 2:
				ws[j] = u(base + Pick(r, []int{-107, -108, 107, 108, -214, 214, -1131, 1131, 1132}))
			case 3:
				ws[j] = u(r.Range(0, 2000))
			default:
				ws[j] = u(r.Range(0, 2000)) + int64(r.Range(0, 3))*16384
			}
		}
		emit("random multiset", ws)
	}
}
