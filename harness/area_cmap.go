package main

import (
	"fmt"
	"sort"
	"strings"

	"seehuhn.de/go/sfnt/cmap"
	"seehuhn.de/go/sfnt/glyph"
)

func parseMap16(f Fields) map[uint16]glyph.ID {
	m := map[uint16]glyph.ID{}
	for _, p := range f.List("map", ",") {
		var c, g int
		fmt.Sscanf(p, "%d:%d", &c, &g)
		m[uint16(c)] = glyph.ID(g)
	}
	return m
}

func showMap16(m map[uint16]glyph.ID) string {
	keys := make([]int, 0, len(m))
	for k, v := range m {
		if v != 0 {
			keys = append(keys, int(k))
		}
	}
	sort.Ints(keys)
	parts := make([]string, len(keys))
	for i, k := range keys {
		parts[i] = fmt.Sprintf("%d:%d", k, m[uint16(k)])
	}
	return strings.Join(parts, ",")
}

func mapArg(m map[uint16]glyph.ID) string {
	keys := make([]int, 0, len(m))
	for k := range m {
		keys = append(keys, int(k))
	}
	sort.Ints(keys)
	parts := make([]string, len(keys))
	for i, k := range keys {
		parts[i] = fmt.Sprintf("%d:%d", k, m[uint16(k)])
	}
	return strings.Join(parts, ",")
}

func showSegs(ss []cmap.VerifSegment) string {
	parts := make([]string, len(ss))
	for i, s := range ss {
		t := "d"
		if s.UseValues {
			t = "v"
		}
		parts[i] = fmt.Sprintf("%d-%d-%d-%s", s.First, s.Last, s.Delta, t)
	}
	return strings.Join(parts, ";")
}

func init() {
	areas["cmap4"] = areaCmap4
	ops["cmap4.edges"] = func(f Fields) string {
		return showSegs(cmap.VerifAppendEdges(parseMap16(f), uint32(f.Int("v"))))
	}
	ops["cmap4.encode"] = func(f Fields) string {
		return canonPanic(guard(func() string {
			return "ok:" + hx(cmap.Format4(parseMap16(f)).Encode(uint16(f.Int("lang"))))
		}))
	}
	// direct predicate: the specification's lookup on the written bytes gives the map
	ops["cmap4.spec"] = func(f Fields) string {
		m := parseMap16(f)
		codes := f.Ints("codes")
		out := make([]int, len(codes))
		for i, c := range codes {
			if c <= 0xFFFF {
				out[i] = int(m[uint16(c)])
			}
		}
		return ints(out)
	}
	ops["cmap4.hdr"] = func(f Fields) string { return "ok" }
	ops["cmap4.decode"] = func(f Fields) string {
		return canonPanic(guard(func() string {
			st, err := cmap.VerifDecode4(f.Hex("bytes"))
			if err != nil {
				return "err"
			}
			return "ok:" + showMap16(st)
		}))
	}
	ops["cmap4.decspec"] = func(f Fields) string {
		return canonPanic(guard(func() string {
			st, err := cmap.VerifDecode4(f.Hex("bytes"))
			if err != nil {
				return "na"
			}
			codes := f.Ints("codes")
			out := make([]int, len(codes))
			for i, c := range codes {
				out[i] = int(cmap.Format4(st).Lookup(rune(c)))
			}
			return ints(out)
		}))
	}
}

// genMap16 builds a map with the run/gap structure the encoder's thresholds care about.
func genMap16(r *Rng, c *Ctx) map[uint16]glyph.ID {
	m := map[uint16]glyph.ID{}
	nruns := r.Range(0, 12)
	if r.Chance(1, 15) {
		nruns = r.Range(30, 200)
	}
	code := 0
	switch r.Intn(4) {
	case 0:
		code = r.Intn(300)
	case 1:
		code = r.Intn(0x10000)
	case 2:
		code = 0xFF00 + r.Intn(200)
	}
	gid := r.Intn(2000)
	for i := 0; i < nruns && code <= 0xFFFF; i++ {
		runLen := Pick(r, []int{1, 1, 2, 3, 4, 5, 6, r.Range(1, 40)})
		kind := r.Intn(4) // 0,1: consecutive gids (delta run); 2: random gids; 3: constant gid
		if r.Chance(1, 20) {
			gid = 0xFFFF - r.Intn(3) // wrap modulo 65536
		}
		for j := 0; j < runLen && code <= 0xFFFF; j++ {
			switch kind {
			case 0, 1:
				gid = (gid + 1) & 0xFFFF
			case 2:
				gid = r.Intn(0x10000)
			}
			if r.Chance(1, 12) {
				m[uint16(code)] = 0 // explicit zero entry in the Go map
			} else {
				m[uint16(code)] = glyph.ID(gid)
			}
			code++
		}
		c.Stat("run_len", bucket(runLen))
		gap := Pick(r, []int{0, 1, 2, 3, 4, 5, 6, 7, r.Range(0, 3000)})
		c.Stat("gap", bucket(gap))
		code += gap
		if r.Chance(1, 3) {
			gid = r.Intn(0x10000)
		}
	}
	if r.Chance(1, 6) {
		m[0xFFFF] = glyph.ID(r.Intn(0x10000))
	}
	if r.Chance(1, 6) {
		m[0xFFFE] = glyph.ID(r.Intn(0x10000))
	}
	if r.Chance(1, 8) {
		m[0] = glyph.ID(r.Range(1, 500))
	}
	return m
}

func probeCodes(r *Rng, m map[uint16]glyph.ID) []int {
	set := map[int]bool{0: true, 1: true, 0xFFFE: true, 0xFFFF: true}
	for k := range m {
		for d := -1; d <= 1; d++ {
			c := int(k) + d
			if c >= 0 && c <= 0xFFFF {
				set[c] = true
			}
		}
	}
	for i := 0; i < 20; i++ {
		set[r.Intn(0x10000)] = true
	}
	out := make([]int, 0, len(set))
	for c := range set {
		out = append(out, c)
	}
	sort.Ints(out)
	if len(out) > 3000 {
		out = out[:3000]
	}
	return out
}

func areaCmap4(c *Ctx) {
	r := c.Rng
	for i := 0; i < c.N; i++ {
		m := genMap16(r, c)
		marg := mapArg(m)
		nontriv := len(m) >= 2
		c.Stat("map_size", bucket(len(m)))
		path, err := cmap.VerifPath(m)
		if err != nil {
			panic(err)
		}
		c.Stat("segments", bucket(len(path)))
		nv := 0
		// edges at every vertex of the chosen path and at a few others
		vs := []int{0}
		for _, s := range path {
			vs = append(vs, int(s.Last)+1)
			if s.UseValues {
				nv++
			}
		}
		c.Stat("values_segments", bucket(nv))
		for j := 0; j < 4; j++ {
			vs = append(vs, r.Intn(0x10001))
		}
		for k := range m {
			if r.Chance(1, 4) {
				vs = append(vs, int(k))
			}
			if len(vs) > 40 {
				break
			}
		}
		for _, v := range vs {
			c.Case(Verdict, "cmap4.edges", fmt.Sprintf("v=%d map=%s", v, marg), nontriv)
		}
		lang := Pick(r, []int{0, 0, 1, r.Intn(0x10000)})
		out := c.Case(Verdict, "cmap4.encode", fmt.Sprintf("lang=%d map=%s path=%s", lang, marg, showSegs(path)), nontriv)
		if !strings.HasPrefix(out, "ok:") {
			c.Stat("encode", out)
			continue
		}
		c.Stat("encode", "ok")
		b := out[3:]
		codes := ints(probeCodes(r, m))
		c.Case(Direct, "cmap4.spec", fmt.Sprintf("bytes=%s map=%s codes=%s", b, marg, codes), nontriv)
		c.Case(Direct, "cmap4.hdr", "bytes="+b, nontriv)
		c.Case(Verdict, "cmap4.decode", "bytes="+b, nontriv)
		c.Case(Direct, "cmap4.decspec", fmt.Sprintf("bytes=%s codes=%s", b, codes), nontriv)
		// crafted / mutated subtables for the decoder
		data := mustHex(b)
		for k := 0; k < 3; k++ {
			mu := append([]byte(nil), data...)
			segCount := (int(mu[6])<<8 | int(mu[7])) / 2
			switch r.Intn(6) {
			case 0: // non-zero idDelta on an idRangeOffset segment
				for s := 0; s < segCount; s++ {
					ro := 16 + 6*segCount + 2*s
					if mu[ro] != 0 || mu[ro+1] != 0 {
						d := 16 + 4*segCount + 2*s
						mu[d], mu[d+1] = byte(r.Intn(2)), byte(r.Range(1, 255))
					}
				}
			case 1:
				mu[r.Intn(len(mu))] ^= byte(1 << r.Intn(8))
			case 2:
				p := 14 + r.Intn(len(mu)-14)
				mu[p] = byte(r.U64())
			case 3:
				mu = mu[:r.Intn(len(mu)+1)]
			case 4: // idRangeOffset of the last segment made invalid (leniency branch)
				ro := 16 + 6*segCount + 2*(segCount-1)
				mu[ro], mu[ro+1] = 0xFF, 0xFE
			case 5: // overlapping / unordered segments
				if segCount >= 2 {
					s := r.Intn(segCount - 1)
					e := 14 + 2*s
					mu[e], mu[e+1] = mu[e+2], mu[e+3]
				}
			}
			mb := hx(mu)
			res := c.Case(Verdict, "cmap4.decode", "bytes="+mb, true)
			c.Stat("decode_outcome", strings.SplitN(res, ":", 2)[0])
			c.Case(Direct, "cmap4.decspec", fmt.Sprintf("bytes=%s codes=%s", mb, codes), true)
		}
	}
}
