//go:build verif

package main

// C02, group cmapdir: verdict streams of the checked-index models of the cmap table directory
// and the small subtable decoders (lean/SfntV/Model/TotalCmapDir.lean).
//
//	tmcmapdir.decode bytes=<hex>            -> ok:<p.e.l:len:hash;...> | err:<malformed|version> | panic
//	tmcmapdir.get bytes=<hex> key=p.e.l     -> err:decode | err:<nosuch|macenc|unsupported|sub> |
//	                                           ok:f0:0:255 | ok:m16:<low>:<high> | ok:ext<format> | panic
//	tmcmapdir.f0 bytes=<hex> mac=0          -> ok:<hex of the 256 bytes> | err | panic
//	tmcmapdir.f0 bytes=0000<hex> mac=1      -> ok:<code:gid,...> | err | panic (MacRoman branch, via Table.Get key 1.0.0)
//	tmcmapdir.f6 bytes=<hex> mac=<0|1>      -> ok:<code:gid,...> | err | panic
//	tmcmapdir.lookup0 data=<hex256> r=<int> -> glyph (0 for negative runes and runes > 255)
//	tmcmapdir.lookup16 map=<c:g,...> r=<int> -> glyph
//	tmcmapdir.formats                       -> the keys of cmap.decoders, ascending

import (
	"fmt"
	"sort"
	"strconv"
	"strings"

	"seehuhn.de/go/sfnt/cmap"
	"seehuhn.de/go/sfnt/glyph"
)

func totalCmapdirHash(d []byte) uint64 {
	h := uint64(7)
	for _, x := range d {
		h = (h*31 + uint64(x)) % 1000000007
	}
	return h
}

func totalCmapdirKeyLess(a, b cmap.Key) bool {
	if a.PlatformID != b.PlatformID {
		return a.PlatformID < b.PlatformID
	}
	if a.EncodingID != b.EncodingID {
		return a.EncodingID < b.EncodingID
	}
	return a.Language < b.Language
}

func totalCmapdirShowTab(t cmap.Table) string {
	keys := make([]cmap.Key, 0, len(t))
	for k := range t {
		keys = append(keys, k)
	}
	sort.Slice(keys, func(i, j int) bool { return totalCmapdirKeyLess(keys[i], keys[j]) })
	parts := make([]string, len(keys))
	for i, k := range keys {
		d := t[k]
		parts[i] = fmt.Sprintf("%d.%d.%d:%d:%d", k.PlatformID, k.EncodingID, k.Language, len(d), totalCmapdirHash(d))
	}
	return "ok:" + strings.Join(parts, ";")
}

func totalCmapdirDecode(b []byte) string {
	return totalCanonPanic(guard(func() string {
		t, err := cmap.Decode(b)
		if err != nil {
			if strings.HasPrefix(err.Error(), "cmap: unknown table version") {
				return "err:version"
			}
			return "err:malformed"
		}
		return totalCmapdirShowTab(t)
	}))
}

func totalCmapdirParseKey(s string) cmap.Key {
	p := strings.Split(s, ".")
	if len(p) != 3 {
		panic("bad key")
	}
	var v [3]uint16
	for i := range v {
		n, err := strconv.ParseUint(p[i], 10, 16)
		if err != nil {
			panic("bad key")
		}
		v[i] = uint16(n)
	}
	return cmap.Key{PlatformID: v[0], EncodingID: v[1], Language: v[2]}
}

func totalCmapdirGet(b []byte, key cmap.Key) string {
	return totalCanonPanic(guard(func() string {
		t, err := cmap.Decode(b)
		if err != nil {
			return "err:decode"
		}
		st, err := t.Get(key)
		if err != nil {
			switch err.Error() {
			case "cmap: no such subtable":
				return "err:nosuch"
			case "cmap: unsupported Mac encoding":
				return "err:macenc"
			case "unsupported cmap format":
				return "err:unsupported"
			}
			return "err:sub"
		}
		d := t[key]
		format := int(d[0])<<8 | int(d[1])
		lo, hi := st.CodeRange()
		switch st.(type) {
		case *cmap.Format0:
			return fmt.Sprintf("ok:f0:%d:%d", lo, hi)
		case cmap.Format4:
			if format == 6 || format == 0 { // format 0 under a Macintosh key decodes into a Format4 map
				return fmt.Sprintf("ok:m16:%d:%d", lo, hi)
			}
		}
		return fmt.Sprintf("ok:ext%d", format)
	}))
}

func totalCmapdirF0(b []byte) string {
	return totalCanonPanic(guard(func() string {
		st, err := cmap.VerifDecode0(b)
		if err != nil {
			return "err"
		}
		return "ok:" + hx(st.Data[:])
	}))
}

// totalCmapdirF0Mac runs decodeFormat0 with the MacRoman code2rune: the hook VerifDecode0 only
// passes nil, so the branch is reached through the exported Table.Get with the key (1,0,0);
// the bytes must carry the format word 0 (Get dispatches on it).
func totalCmapdirF0Mac(b []byte) string {
	if len(b) < 2 || b[0] != 0 || b[1] != 0 {
		return "bad-case"
	}
	return totalCanonPanic(guard(func() string {
		key := cmap.Key{PlatformID: 1}
		st, err := cmap.Table{key: b}.Get(key)
		if err != nil {
			return "err"
		}
		m, ok := st.(cmap.Format4)
		if !ok {
			return fmt.Sprintf("wrong-type:%T", st)
		}
		keys := make([]int, 0, len(m))
		for k := range m {
			keys = append(keys, int(k))
		}
		sort.Ints(keys)
		parts := make([]string, len(keys))
		for i, k := range keys {
			parts[i] = fmt.Sprintf("%d:%d", k, m[uint16(k)])
		}
		return "ok:" + strings.Join(parts, ",")
	}))
}

func totalCmapdirF6(b []byte, mac bool) string {
	return totalCanonPanic(guard(func() string {
		m, err := cmap.VerifDecode6(b, mac)
		if err != nil {
			return "err"
		}
		keys := make([]int, 0, len(m))
		for k := range m {
			keys = append(keys, int(k))
		}
		sort.Ints(keys)
		parts := make([]string, len(keys))
		for i, k := range keys {
			parts[i] = fmt.Sprintf("%d:%d", k, m[uint16(k)])
		}
		return "ok:" + strings.Join(parts, ",")
	}))
}

// ---------------------------------------------------------------------------------------
// builders

func totalCmapdirPut32(b []byte, i int, v uint32) {
	b[i], b[i+1], b[i+2], b[i+3] = byte(v>>24), byte(v>>16), byte(v>>8), byte(v)
}

// totalCmapdirF6Bytes builds a format 6 subtable with explicit header fields.
func totalCmapdirF6Bytes(r *Rng, first, count, entries, lang int) []byte {
	b := make([]byte, 10+2*entries)
	b[1] = 6
	b[2], b[3] = byte(len(b)>>8), byte(len(b))
	b[4], b[5] = byte(lang>>8), byte(lang)
	b[6], b[7] = byte(first>>8), byte(first)
	b[8], b[9] = byte(count>>8), byte(count)
	for i := 0; i < entries; i++ {
		g := r.Intn(0x10000)
		switch r.Intn(6) {
		case 0:
			g = 0
		case 1:
			g = r.Range(1, 255)
		}
		b[10+2*i], b[11+2*i] = byte(g>>8), byte(g)
	}
	return b
}

// totalCmapdirSub returns a subtable with a valid format / length header for Decode; the
// body is valid for its own decoder most of the time.
func totalCmapdirSub(r *Rng, c *Ctx, lang int) []byte {
	format := Pick(r, []int{0, 0, 4, 4, 6, 6, 6, 12, 12, 2, 8, 10, 13, 14})
	c.Stat("tmcmapdir:subtable_format", fmt.Sprint(format))
	var b []byte
	switch format {
	case 0:
		st := &cmap.Format0{}
		copy(st.Data[:], r.Bytes(256))
		b = st.Encode(uint16(lang))
		if r.Chance(1, 6) { // wrong body length: decodeFormat0 answers with an error
			n := Pick(r, []int{10, 11, 261, 263, 300})
			b = append(b, r.Bytes(64)...)[:n]
			b[2], b[3] = byte(n>>8), byte(n)
		}
	case 4:
		m := cmap.Format4{}
		code := r.Intn(300)
		for i := r.Range(0, 12); i > 0; i-- {
			m[uint16(code)] = glyph.ID(r.Range(1, 900))
			code += r.Range(1, 3)
		}
		b = m.Encode(uint16(lang))
		if r.Chance(1, 8) && len(b) > 16 {
			b[r.Range(6, len(b)-1)] ^= byte(1 << r.Intn(8))
		}
	case 6:
		count := r.Range(0, 12)
		entries := count
		if r.Chance(1, 6) {
			entries = count + Pick(r, []int{1, 2, -1})
			if entries < 0 {
				entries = 0
			}
		}
		b = totalCmapdirF6Bytes(r, Pick(r, []int{r.Intn(300), 0, 0xFFFF, 0x10000 - count, 0x10001 - count}), count, entries, lang)
		if r.Chance(1, 6) && entries == count+1 {
			b[len(b)-2], b[len(b)-1] = 0, 0
		}
	case 12:
		m := cmap.Format12{}
		code := Pick(r, []int{r.Intn(300), 0x10000 + r.Intn(1000)})
		for i := r.Range(0, 12); i > 0; i-- {
			m[uint32(code)] = glyph.ID(r.Range(1, 900))
			code += r.Range(1, 3)
		}
		b = m.Encode(uint16(lang))
		if r.Chance(1, 8) && len(b) > 16 {
			b[r.Range(12, len(b)-1)] ^= byte(1 << r.Intn(8))
		}
	default:
		n := r.Range(12, 40)
		if format == 2 || format == 14 {
			n = r.Range(10, 40)
		}
		b = r.Bytes(n)
		b[0], b[1] = 0, byte(format)
		switch format {
		case 2:
			b[2], b[3] = byte(n>>8), byte(n)
			b[4], b[5] = byte(lang>>8), byte(lang)
		case 8, 10, 13:
			totalCmapdirPut32(b, 4, uint32(n))
			b[10], b[11] = byte(lang>>8), byte(lang)
		case 14:
			totalCmapdirPut32(b, 2, uint32(n))
		}
	}
	return b
}

type totalCmapdirRec struct {
	p, e int
	off  uint32
}

func totalCmapdirAssemble(recs []totalCmapdirRec, numTables int, body []byte) []byte {
	b := []byte{0, 0, byte(numTables >> 8), byte(numTables)}
	for _, x := range recs {
		b = append(b, byte(x.p>>8), byte(x.p), byte(x.e>>8), byte(x.e))
		b = append(b, 0, 0, 0, 0)
		totalCmapdirPut32(b, len(b)-4, x.off)
	}
	return append(b, body...)
}

// totalCmapdirTable builds a cmap table: a few subtables laid out after the header (with
// optional gaps), records in random order pointing at them (sharing allowed), and, with
// probability 1/2, one defect aimed at one guard of Decode.
func totalCmapdirTable(r *Rng, c *Ctx) ([]byte, string) {
	nSub := Pick(r, []int{0, 1, 1, 2, 3, 4, 6})
	nRec := nSub
	if nSub > 0 && r.Chance(1, 3) {
		nRec += r.Range(1, 3)
	}
	eoh := 4 + 8*nRec
	var body []byte
	offs := make([]int, nSub)
	lens := make([]int, nSub)
	for i := 0; i < nSub; i++ {
		if r.Chance(1, 5) {
			body = append(body, r.Bytes(r.Range(1, 5))...)
		}
		s := totalCmapdirSub(r, c, Pick(r, []int{0, 0, 1, 7}))
		offs[i] = eoh + len(body)
		lens[i] = len(s)
		body = append(body, s...)
	}
	if r.Chance(1, 6) {
		body = append(body, r.Bytes(r.Range(1, 12))...)
	}
	recs := make([]totalCmapdirRec, nRec)
	order := make([]int, nRec)
	for i := range order {
		order[i] = i % max(nSub, 1)
	}
	switch r.Intn(3) {
	case 0: // descending offsets: every insertion lands at the front
		sort.Sort(sort.Reverse(sort.IntSlice(order)))
	case 1:
		for i := len(order) - 1; i > 0; i-- {
			j := r.Intn(i + 1)
			order[i], order[j] = order[j], order[i]
		}
	}
	cands := [][2]int{{3, 10}, {0, 4}, {3, 1}, {0, 3}, {1, 0}, {1, 0}, {1, 1}, {4, 0}, {2, 2}, {0, 65535}}
	for i := range recs {
		k := Pick(r, cands)
		recs[i] = totalCmapdirRec{k[0], k[1], 0}
		if nSub > 0 {
			recs[i].off = uint32(offs[order[i]])
		}
	}
	b := totalCmapdirAssemble(recs, nRec, body)
	if nRec == 0 || !r.Chance(1, 2) {
		return b, "plain"
	}
	i := r.Intn(nRec)
	at := 4 + 8*i
	o := int(recs[i].off)
	switch r.Intn(14) {
	case 0: // platform out of range
		v := Pick(r, []int{5, 6, 0x100, 0xffff})
		b[at], b[at+1] = byte(v>>8), byte(v)
		return b, "platform>4"
	case 1: // version
		b[0], b[1] = byte(r.Intn(2)), byte(r.Range(1, 255))
		return b, "version"
	case 2: // numTables larger than the records present
		v := nRec + Pick(r, []int{1, 2, 100, 0xffff - nRec})
		b[2], b[3] = byte(v>>8), byte(v)
		return b, "numTables+"
	case 3: // numTables smaller: the last records become subtable space
		v := nRec - 1
		b[2], b[3] = byte(v>>8), byte(v)
		return b, "numTables-"
	case 4: // offset into the header / just below the end of the header
		totalCmapdirPut32(b, at+4, uint32(Pick(r, []int{0, 4, eoh - 1, eoh - 8})))
		return b, "offset<eoh"
	case 5: // offset around endOfData-10 and endOfData-12
		totalCmapdirPut32(b, at+4, uint32(len(b)-Pick(r, []int{9, 10, 11, 12, 13, 0, 1})))
		return b, "offset~eod"
	case 6: // huge offsets
		totalCmapdirPut32(b, at+4, Pick(r, []uint32{0xffffffff, 0xfffffff6, 0x80000000, 0x7fffffff, 0xfffffff5}))
		return b, "offset-huge"
	case 7: // shifted into a neighbour: partial overlap
		totalCmapdirPut32(b, at+4, uint32(o+Pick(r, []int{1, 2, -1, -2, 6})))
		return b, "offset-shift"
	case 8: // truncation inside the last subtable
		n := r.Range(1, 14)
		if n < len(b)-4 {
			b = b[:len(b)-n]
		}
		return b, "truncate-tail"
	case 9: // 16-bit / 32-bit length field of the subtable
		if o+12 <= len(b) {
			f := int(b[o])<<8 | int(b[o+1])
			v := Pick(r, []int{0, 9, 10, 11, 12, len(b) - o, len(b) - o + 1, len(b) - o - 1, 0xffff})
			switch f {
			case 0, 2, 4, 6:
				b[o+2], b[o+3] = byte(v>>8), byte(v)
			case 8, 10, 12, 13:
				totalCmapdirPut32(b, o+4, uint32(v))
			case 14:
				totalCmapdirPut32(b, o+2, uint32(v))
			}
		}
		return b, "length-field"
	case 10: // format word
		if o+2 <= len(b) {
			v := Pick(r, []int{1, 3, 5, 7, 9, 11, 15, 16, 0x100, 0xffff, 0, 2, 4, 6, 8, 10, 12, 13, 14})
			b[o], b[o+1] = byte(v>>8), byte(v)
		}
		return b, "format-word"
	case 11: // a length that grows into the next subtable
		if o+4 <= len(b) && b[o] == 0 && b[o+1] <= 6 {
			v := (int(b[o+2])<<8 | int(b[o+3])) + Pick(r, []int{1, 2, 10})
			b[o+2], b[o+3] = byte(v>>8), byte(v)
		}
		return b, "length-grow"
	case 12: // a length that shrinks: gap, still disjoint
		if o+4 <= len(b) && b[o] == 0 && b[o+1] <= 6 {
			v := (int(b[o+2])<<8 | int(b[o+3])) - Pick(r, []int{1, 2})
			b[o+2], b[o+3] = byte(v>>8), byte(v)
		}
		return b, "length-shrink"
	default: // language field seen / ignored
		if o+6 <= len(b) {
			b[o+4], b[o+5] = byte(r.U64()), byte(r.U64())
		}
		return b, "language"
	}
}

func totalCmapdirClass(s string) string {
	p := strings.SplitN(s, ":", 3)
	if p[0] == "ok" && len(p) >= 2 && (strings.HasPrefix(p[1], "f0") || strings.HasPrefix(p[1], "m16") || strings.HasPrefix(p[1], "ext")) {
		return p[0] + ":" + p[1]
	}
	if p[0] == "err" && len(p) >= 2 {
		return p[0] + ":" + p[1]
	}
	return p[0]
}

func totalCmapdirKeyStr(k cmap.Key) string {
	return fmt.Sprintf("%d.%d.%d", k.PlatformID, k.EncodingID, k.Language)
}

// totalCmapdirKeysOf: the keys of the records of a (possibly malformed) table, read leniently.
func totalCmapdirKeysOf(b []byte) []cmap.Key {
	var out []cmap.Key
	if len(b) < 4 {
		return nil
	}
	n := int(b[2])<<8 | int(b[3])
	for i := 0; i < n && 12+8*i <= len(b) && i < 8; i++ {
		k := cmap.Key{PlatformID: uint16(b[4+8*i])<<8 | uint16(b[5+8*i]), EncodingID: uint16(b[6+8*i])<<8 | uint16(b[7+8*i])}
		out = append(out, k)
	}
	return out
}

func init() {
	ops["tmcmapdir.decode"] = func(f Fields) string { return totalCmapdirDecode(f.Hex("bytes")) }
	ops["tmcmapdir.get"] = func(f Fields) string {
		return totalCmapdirGet(f.Hex("bytes"), totalCmapdirParseKey(f["key"]))
	}
	ops["tmcmapdir.f0"] = func(f Fields) string {
		if f["mac"] == "1" {
			return totalCmapdirF0Mac(f.Hex("bytes"))
		}
		return totalCmapdirF0(f.Hex("bytes"))
	}
	ops["tmcmapdir.f6"] = func(f Fields) string { return totalCmapdirF6(f.Hex("bytes"), f["mac"] == "1") }
	ops["tmcmapdir.lookup0"] = func(f Fields) string {
		return totalCanonPanic(guard(func() string {
			d := f.Hex("data")
			if len(d) != 256 {
				panic("data must be 256 bytes")
			}
			st := &cmap.Format0{}
			copy(st.Data[:], d)
			return fmt.Sprint(int(st.Lookup(rune(f.Int("r")))))
		}))
	}
	// direct predicate "Format0.Lookup returns a glyph for every rune" (the Lean side answers
	// every non-model total.* line with the constant "total"); data defaults to Data[i] = i.
	// Negative runes included: `total.cmapdir-lookup0 r=-1` panicked before the repair of
	// format0.go (finding C02-format0-lookup-negative).
	ops["total.cmapdir-lookup0"] = func(f Fields) string {
		return guard(func() string {
			st := &cmap.Format0{}
			if f["data"] != "" {
				copy(st.Data[:], f.Hex("data"))
			} else {
				for i := range st.Data {
					st.Data[i] = byte(i)
				}
			}
			_ = st.Lookup(rune(f.Int("r")))
			return "total"
		})
	}
	ops["tmcmapdir.lookup16"] = func(f Fields) string {
		return totalCanonPanic(guard(func() string {
			m := cmap.Format4{}
			if f["map"] != "" {
				for _, p := range strings.Split(f["map"], ",") {
					var c, g int
					if _, err := fmt.Sscanf(p, "%d:%d", &c, &g); err != nil {
						panic("bad map")
					}
					m[uint16(c)] = glyph.ID(g)
				}
			}
			return fmt.Sprint(int(m.Lookup(rune(f.Int("r")))))
		}))
	}
	ops["tmcmapdir.formats"] = func(f Fields) string {
		fs := cmap.VerifDecoderFormats()
		l := make([]int, len(fs))
		for i, x := range fs {
			l[i] = int(x)
		}
		sort.Ints(l)
		return ints(l)
	}

	totalModelGens["cmapdir"] = func(c *Ctx, r *Rng, seeds []totalSeed) {
		var cmaps [][]byte
		for _, s := range seeds {
			if s.dec == "cmap" && len(s.bytes) < 3000 {
				cmaps = append(cmaps, s.bytes)
			}
		}
		budget := c.N / 3
		if budget < 30 {
			budget = 30
		}
		runes := []int{-2147483648, -65536, -256, -1, 0, 1, 65, 127, 128, 254, 255, 256, 257, 65535, 65536, 65537, 0x10FFFF, 2147483647}

		c.Case(Verdict, "tmcmapdir.formats", "", true)

		// ---- Decode + Get ----
		decodeCase := func(b []byte, how string) {
			g := c.Case(Verdict, "tmcmapdir.decode", "bytes="+hx(b), len(b) >= 4)
			cl := totalCmapdirClass(g)
			c.Stat("tmcmapdir:decode", cl)
			c.Stat("tmcmapdir:decode_input", how+" -> "+cl)
			c.Stat("tmcmapdir:decode_len", bucket(len(b)))
		}
		getCase := func(b []byte, k cmap.Key, how string) {
			g := c.Case(Verdict, "tmcmapdir.get", "bytes="+hx(b)+" key="+totalCmapdirKeyStr(k), len(b) >= 4)
			c.Stat("tmcmapdir:get", totalCmapdirClass(g))
			c.Stat("tmcmapdir:get_input", how)
		}
		getAll := func(b []byte, how string) {
			ks := totalCmapdirKeysOf(b)
			seen := map[cmap.Key]bool{}
			t, derr := cmap.Decode(b)
			if derr != nil {
				// Get is only reachable through a decoded table: keep a thin stream of these
				if r.Chance(1, 5) && len(ks) > 0 {
					getCase(b, ks[0], how+"/undecodable")
				}
				return
			}
			for _, k := range ks {
				for _, l := range []uint16{0, 1, 7} {
					k.Language = l
					if _, ok := t[k]; !ok && (l != 0 || r.Chance(2, 3)) {
						continue
					}
					if !seen[k] {
						seen[k] = true
						getCase(b, k, how)
					}
				}
			}
			if r.Chance(1, 3) || len(ks) == 0 {
				getCase(b, cmap.Key{PlatformID: uint16(r.Intn(5)), EncodingID: uint16(r.Intn(11)), Language: uint16(r.Intn(2))}, how+"/random-key")
			}
		}
		// truncations of a small valid table at every offset
		{
			var small []byte
			for k := 0; k < 50; k++ {
				b, how := totalCmapdirTable(r, c)
				if how == "plain" && len(b) > 12 && len(b) < 120 {
					small = b
					break
				}
			}
			for n := 0; n <= len(small); n++ {
				decodeCase(small[:n], "truncate-every")
			}
		}
		// boundary tables written by hand
		for _, b := range [][]byte{
			{}, {0}, {0, 0, 0}, {0, 0, 0, 0}, {0, 1, 0, 0}, {0, 0, 0, 1}, {0, 0, 0, 1, 0, 0, 0, 0, 0, 0, 0},
			{0, 0, 0, 1, 0, 0, 0, 0, 0, 0, 0, 12}, // offset = endOfData: endOfData-10 wraps? (12-10 = 2 < 12)
			// one record, a 10-byte format 6 subtable exactly at the end
			{0, 0, 0, 1, 0, 3, 0, 1, 0, 0, 0, 12, 0, 6, 0, 10, 0, 0, 0, 0, 0, 0},
			// the same, one byte short
			{0, 0, 0, 1, 0, 3, 0, 1, 0, 0, 0, 12, 0, 6, 0, 10, 0, 0, 0, 0, 0},
			// format 12 with 11 bytes left (endOfData-12 check), 12 bytes left
			{0, 0, 0, 1, 0, 3, 0, 10, 0, 0, 0, 12, 0, 12, 0, 0, 0, 0, 0, 12, 0, 0, 0},
			{0, 0, 0, 1, 0, 3, 0, 10, 0, 0, 0, 12, 0, 12, 0, 0, 0, 0, 0, 12, 0, 0, 0, 0},
			// format 14, length 10
			{0, 0, 0, 1, 0, 0, 0, 5, 0, 0, 0, 12, 0, 14, 0, 0, 0, 10, 0, 0, 0, 0},
			// two records sharing one subtable (identical), mac language kept
			{0, 0, 0, 2, 0, 1, 0, 0, 0, 0, 0, 20, 0, 3, 0, 1, 0, 0, 0, 20, 0, 6, 0, 10, 0, 9, 0, 0, 0, 0},
			// two records, second starts inside the first (o+length > next start)
			{0, 0, 0, 2, 0, 1, 0, 0, 0, 0, 0, 22, 0, 3, 0, 1, 0, 0, 0, 20, 0, 6, 0, 12, 0, 6, 0, 10, 0, 0, 0, 0, 0, 0},
		} {
			decodeCase(b, "hand")
			getAll(b, "hand")
		}
		for k := 0; k < budget; k++ {
			switch {
			case k%10 == 9: // random bytes behind a plausible header
				b := r.Bytes(r.Range(0, 64))
				if len(b) >= 4 && r.Chance(3, 4) {
					b[0], b[1], b[2], b[3] = 0, 0, 0, byte(r.Intn(4))
				}
				decodeCase(b, "random")
			case k%10 == 8 && len(cmaps) > 0: // seeds and their mutations
				s := Pick(r, cmaps)
				if r.Chance(1, 3) {
					decodeCase(s, "seed")
					getAll(s, "seed")
				} else {
					m, how := totalMutate(r, s)
					decodeCase(m, "seed-mut:"+how)
					if r.Chance(1, 2) {
						getAll(m, "seed-mut")
					}
				}
			case k%10 == 7: // generic mutation of a generated table
				b, _ := totalCmapdirTable(r, c)
				m, how := totalMutate(r, b)
				decodeCase(m, "gen-mut:"+how)
				if r.Chance(1, 2) {
					getAll(m, "gen-mut")
				}
			default:
				b, how := totalCmapdirTable(r, c)
				decodeCase(b, how)
				getAll(b, how)
			}
		}

		// ---- decodeFormat0 ----
		f0Case := func(b []byte, how string) {
			g := c.Case(Verdict, "tmcmapdir.f0", "bytes="+hx(b)+" mac=0", len(b) >= 6)
			c.Stat("tmcmapdir:f0", totalCmapdirClass(g)+" "+how)
			// the Macintosh branch (code2rune != nil), reachable for bytes with format word 0
			if len(b) >= 2 && b[0] == 0 && b[1] == 0 {
				g := c.Case(Verdict, "tmcmapdir.f0", "bytes="+hx(b)+" mac=1", len(b) >= 6)
				c.Stat("tmcmapdir:f0mac", totalCmapdirClass(g)+" "+how)
			}
		}
		for n := 0; n <= 12; n++ {
			f0Case(make([]byte, n), "short")
		}
		{ // sparse tables: few non-zero glyphs, collisions impossible (MacRoman is injective)
			for k := 0; k < 8; k++ {
				b := make([]byte, 262)
				b[2], b[3] = 1, 6
				for i := r.Intn(6); i > 0; i-- {
					b[6+Pick(r, []int{0, 1, 65, 127, 128, 129, 0xDB, 0xF0, 254, 255, r.Intn(256)})] = byte(r.Range(1, 255))
				}
				f0Case(b, "len=262 sparse")
			}
		}
		for k := 0; k < budget/2; k++ {
			n := Pick(r, []int{262, 262, 262, 261, 263, 6, 5, 256, 300, r.Intn(300)})
			b := r.Bytes(n)
			if n >= 4 {
				b[0], b[1] = 0, 0
				b[2], b[3] = byte(n>>8), byte(n)
			}
			how := "len!=262"
			if n == 262 {
				how = "len=262"
			} else if n < 6 {
				how = "len<6"
			}
			f0Case(b, how)
		}

		// ---- decodeFormat6 ----
		f6Case := func(b []byte, mac bool, how string) {
			m := "0"
			if mac {
				m = "1"
			}
			g := c.Case(Verdict, "tmcmapdir.f6", "bytes="+hx(b)+" mac="+m, len(b) >= 10)
			c.Stat("tmcmapdir:f6", totalCmapdirClass(g)+" "+how)
		}
		{
			small := totalCmapdirF6Bytes(r, 65, 3, 3, 0)
			for n := 0; n <= len(small); n++ {
				f6Case(small[:n], false, "truncate-every")
			}
		}
		for k := 0; k < budget; k++ {
			count := Pick(r, []int{0, 1, 2, 3, r.Range(0, 40), r.Range(0, 300)})
			first := Pick(r, []int{0, 1, 32, r.Intn(300), r.Intn(0x10000), 0xFFFF, 0x10000 - count, 0x10001 - count, 0xFFFF - count})
			if first < 0 {
				first = 0
			}
			if first > 0xFFFF {
				first = 0xFFFF
			}
			entries := count
			how := "exact"
			switch r.Intn(12) {
			case 0:
				entries = count + 1 // excess word
				how = "excess-word"
			case 1:
				entries = count + 2
				how = "excess-2"
			case 2:
				if count > 0 {
					entries = count - 1
					how = "short-1"
				}
			case 3:
				count = Pick(r, []int{0xFFFF, 0x8000, 0x7FFF})
				entries = r.Intn(4)
				how = "count-huge"
			}
			b := totalCmapdirF6Bytes(r, first, count, entries, r.Intn(2))
			if how == "excess-word" {
				switch r.Intn(4) {
				case 0, 1:
					b[len(b)-2], b[len(b)-1] = 0, 0
					how = "excess-0000"
				case 2:
					b[len(b)-2], b[len(b)-1] = 0, byte(r.Range(1, 255))
					how = "excess-00xx"
				default:
					b[len(b)-2], b[len(b)-1] = byte(r.Range(1, 255)), 0
					how = "excess-xx00"
				}
			}
			switch r.Intn(16) {
			case 0:
				b = append(b, byte(r.U64())) // odd length
				how = "odd-length"
			case 1:
				b, how = totalMutate(r, b)
				how = "mut:" + how
			case 2:
				b = r.Bytes(r.Range(0, 40))
				how = "random"
			}
			if first+count > 0x10000 && how == "exact" {
				how = "first+count>0x10000"
			} else if first+count == 0x10000 && how == "exact" {
				how = "first+count=0x10000"
			}
			f6Case(b, r.Chance(1, 5), how)
		}

		// ---- Format0.Lookup, Format4.Lookup ----
		for k := 0; k < budget/2; k++ {
			d := r.Bytes(256)
			rr := Pick(r, runes)
			if r.Chance(1, 4) {
				rr = r.Range(-300, 600)
			}
			g := c.Case(Verdict, "tmcmapdir.lookup0", fmt.Sprintf("data=%s r=%d", hx(d), rr), true)
			cl := "in-range"
			if rr < 0 {
				cl = "negative"
			} else if rr > 255 {
				cl = ">255"
			}
			c.Stat("tmcmapdir:lookup0", cl+" -> "+totalCmapdirClass(strings.Map(func(x rune) rune {
				if x >= '0' && x <= '9' {
					return -1
				}
				return x
			}, "v"+g)))
		}
		for k := 0; k < budget/6; k++ {
			rr := Pick(r, []int{0, 1, 255, 256, 65535, 0x10FFFF, 2147483647, r.Intn(256), r.Intn(0x110000),
				-1, -2147483648, -256, -r.Range(1, 2147483647)})
			c.Case(Direct, "total.cmapdir-lookup0", fmt.Sprintf("r=%d", rr), true)
			c.Stat("tmcmapdir:lookup0_direct", fmt.Sprint("r<0:", rr < 0, " r>255:", rr > 255))
		}
		for k := 0; k < budget/6; k++ {
			var parts []string
			keys := []int{}
			for i := r.Range(0, 6); i > 0; i-- {
				key := Pick(r, []int{0, 1, 65, 255, 0xFFFF, 0xFFFE, r.Intn(0x10000)})
				keys = append(keys, key)
				parts = append(parts, fmt.Sprintf("%d:%d", key, r.Range(1, 0xFFFF)))
			}
			rr := Pick(r, runes)
			if len(keys) > 0 && r.Chance(1, 2) {
				rr = Pick(r, keys) + Pick(r, []int{0, 0, 0x10000, -0x10000, 1})
			}
			c.Case(Verdict, "tmcmapdir.lookup16", fmt.Sprintf("map=%s r=%d", strings.Join(parts, ","), rr), true)
			c.Stat("tmcmapdir:lookup16", fmt.Sprint(rr < 0, rr > 0xFFFF))
		}
	}
}
