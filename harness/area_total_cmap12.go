//go:build verif

package main

// C02, group cmap12: verdict stream of the checked-index model of cmap.decodeFormat12
// (lean/SfntV/Model/TotalCmap12.lean).
//
//	tmcmap12.decode bytes=<hex> -> ok:n=<entries>;<start>-<end>:<gid>,... | err | panic

import (
	"sort"
	"strconv"
	"strings"

	"seehuhn.de/go/sfnt/cmap"
	"seehuhn.de/go/sfnt/glyph"
)

type totalCmap12Group struct{ start, end, gid uint32 }

// totalCmap12Build encodes a format 12 subtable with an explicit nSegments field.
func totalCmap12Build(gs []totalCmap12Group, nSeg uint32) []byte {
	l := uint32(16 + 12*len(gs))
	b := []byte{0, 12, 0, 0, byte(l >> 24), byte(l >> 16), byte(l >> 8), byte(l), 0, 0, 0, 0,
		byte(nSeg >> 24), byte(nSeg >> 16), byte(nSeg >> 8), byte(nSeg)}
	for _, g := range gs {
		for _, v := range []uint32{g.start, g.end, g.gid} {
			b = append(b, byte(v>>24), byte(v>>16), byte(v>>8), byte(v))
		}
	}
	return b
}

// totalCmap12Show prints a decoded map as its size and its maximal runs.
func totalCmap12Show(m map[uint32]uint32) string {
	keys := make([]uint32, 0, len(m))
	for k := range m {
		keys = append(keys, k)
	}
	sort.Slice(keys, func(i, j int) bool { return keys[i] < keys[j] })
	var sb strings.Builder
	sb.WriteString("ok:n=" + strconv.Itoa(len(keys)) + ";")
	run := func(s, e, g uint32) {
		sb.WriteString(strconv.FormatUint(uint64(s), 10) + "-" + strconv.FormatUint(uint64(e), 10) + ":" + strconv.FormatUint(uint64(g), 10))
	}
	for i := 0; i < len(keys); {
		j := i
		for j+1 < len(keys) && keys[j+1] == keys[j]+1 && m[keys[j+1]] == m[keys[i]]+(keys[j+1]-keys[i]) {
			j++
		}
		if i > 0 {
			sb.WriteByte(',')
		}
		run(keys[i], keys[j], m[keys[i]])
		i = j + 1
	}
	return sb.String()
}

func totalCmap12Decode(b []byte) string {
	return totalCanonPanic(guard(func() string {
		m, err := cmap.VerifDecode12(b)
		if err != nil {
			return "err"
		}
		mm := make(map[uint32]uint32, len(m))
		for k, v := range m {
			mm[k] = uint32(v)
		}
		return totalCmap12Show(mm)
	}))
}

// totalCmap12Subtables extracts the format 12 subtables of a cmap table.
func totalCmap12Subtables(t []byte) [][]byte {
	var out [][]byte
	if len(t) < 4 {
		return nil
	}
	n := int(t[2])<<8 | int(t[3])
	seen := map[uint32]bool{}
	for i := 0; i < n && 12+8*i <= len(t); i++ {
		o := uint32(t[8+8*i])<<24 | uint32(t[9+8*i])<<16 | uint32(t[10+8*i])<<8 | uint32(t[11+8*i])
		if seen[o] || uint64(o)+12 > uint64(len(t)) {
			continue
		}
		seen[o] = true
		if t[o] != 0 || t[o+1] != 12 {
			continue
		}
		l := uint32(t[o+4])<<24 | uint32(t[o+5])<<16 | uint32(t[o+6])<<8 | uint32(t[o+7])
		if uint64(o)+uint64(l) > uint64(len(t)) || l < 16 {
			continue
		}
		out = append(out, append([]byte(nil), t[o:o+l]...))
	}
	return out
}

// totalCmap12Valid draws n monotone groups with a total of exactly `total` codes (n <= total).
func totalCmap12Valid(r *Rng, n, total int) []totalCmap12Group {
	if n == 0 {
		return nil
	}
	// split total into n positive parts
	parts := make([]int, n)
	for i := range parts {
		parts[i] = 1
	}
	rest := total - n
	for i := 0; i < n-1 && rest > 0; i++ {
		x := r.Intn(rest + 1)
		if r.Chance(1, 2) {
			x = r.Intn(x + 1)
		}
		parts[i] += x
		rest -= x
	}
	parts[n-1] += rest
	// shuffle the parts
	for i := n - 1; i > 0; i-- {
		j := r.Intn(i + 1)
		parts[i], parts[j] = parts[j], parts[i]
	}
	gs := make([]totalCmap12Group, n)
	var pos uint32
	tight := false
	switch r.Intn(4) {
	case 0:
		pos = 0
	case 1:
		pos = uint32(r.Intn(0x110000))
	case 2:
		pos = uint32(r.U64() >> 33)
	default: // the last group ends at (or just below) 0xFFFFFFFE
		tight = true
		pos = 0xFFFFFFFF - uint32(total) - uint32(r.Intn(2))
	}
	for i, p := range parts {
		if !tight && (i > 0 || r.Chance(1, 2)) {
			pos += uint32(r.Intn(3)) // 0: touching the previous group
			if i > 0 && r.Chance(1, 4) {
				pos += uint32(r.Intn(1000))
			}
		}
		maxG := 0x10000 - p // gid + p-1 <= 0xFFFF
		gid := 0
		switch r.Intn(4) {
		case 0:
			gid = maxG
		case 1:
			gid = 0
		default:
			gid = r.Intn(maxG + 1)
		}
		gs[i] = totalCmap12Group{pos, pos + uint32(p) - 1, uint32(gid)}
		pos += uint32(p)
	}
	return gs
}

func init() {
	ops["tmcmap12.decode"] = func(f Fields) string { return totalCmap12Decode(f.Hex("bytes")) }

	totalModelGens["cmap12"] = func(c *Ctx, r *Rng, seeds []totalSeed) {
		budget := c.N / 3
		if budget < 60 {
			budget = 60
		}
		emitted := 0
		emit := func(b []byte, kind string) {
			if len(b) > 6000 && kind != "big" {
				b = b[:6000]
			}
			res := c.Case(Verdict, "tmcmap12.decode", "bytes="+hx(b), true)
			cl := res
			if i := strings.IndexByte(cl, ':'); i >= 0 {
				cl = cl[:i]
			}
			c.Stat("tmcmap12:decode", cl)
			c.Stat("tmcmap12:kind", kind+"/"+cl)
			emitted++
		}

		// --- fixed boundary cases
		one := func(s, e, g uint32) []byte { return totalCmap12Build([]totalCmap12Group{{s, e, g}}, 1) }
		emit(totalCmap12Build(nil, 0), "fixed")
		emit(one(65, 90, 1), "fixed")
		emit(one(0, 0, 0), "fixed")
		emit(one(0, 65535, 0), "fixed")                    // exactly 65536 codes
		emit(one(0, 65536, 0), "fixed")                    // 65537 codes: gid bound
		emit(one(5, 4, 0), "fixed")                        // end < start
		emit(one(0xFFFFFFFF, 0xFFFFFFFF, 0), "fixed")      // end = 0xFFFFFFFF
		emit(one(0xFFFFFFFE, 0xFFFFFFFE, 7), "fixed")      // last legal code
		emit(one(0xFFFFFFFD, 0xFFFFFFFE, 0xFFFE), "fixed") // gid+c wraps in uint32
		emit(one(0xFFFF0000, 0xFFFFFFFE, 1), "fixed")
		emit(one(0xFFFF0000, 0xFFFFFFFF, 0), "fixed")
		emit(one(10, 10, 0xFFFF), "fixed")     // startGlyphID 0xFFFF, 1 code
		emit(one(10, 11, 0xFFFF), "fixed")     // startGlyphID 0xFFFF, 2 codes
		emit(one(10, 10, 0x10000), "fixed")    // startGlyphID > 0xFFFF
		emit(one(10, 10, 0xFFFFFFFF), "fixed") // gid + delta wraps
		emit(one(10, 11, 0xFFFFFFFF), "fixed") // gid + delta wraps to 0
		emit(one(0, 0xFFFFFFFE, 0), "fixed")   // huge range
		emit(one(1, 0, 0), "fixed")            // end-start+1 wraps to 0
		// startGlyphID+(end-start) wraps in uint32: the validity test passes, only the size cap rejects
		emit(one(0, 0xFFFFFFFE, 2), "gidwrap")
		emit(one(0, 0xFFFFFFFE, 1), "gidwrap") // sum = 0xFFFFFFFF: rejected by the test itself
		emit(totalCmap12Build([]totalCmap12Group{{0, 0, 0}, {1, 0xFFFFFFFE, 3}}, 2), "gidwrap")
		emit(totalCmap12Build([]totalCmap12Group{{0, 9, 0}, {10, 0xFFFFFFFE, 0xFFFF}}, 2), "gidwrap") // size reaches 0xFFFFFFFF, no wrap
		emit(totalCmap12Build([]totalCmap12Group{{0, 65534, 0}, {65535, 0xFFFFFFFE, 0xFFFF}}, 2), "gidwrap")
		emit(one(1, 0, 0xFFFFFFFF), "fixed")
		emit(totalCmap12Build([]totalCmap12Group{{0, 9, 1}, {10, 19, 11}}, 2), "fixed") // touching
		emit(totalCmap12Build([]totalCmap12Group{{0, 9, 1}, {9, 19, 11}}, 2), "fixed")  // overlapping by one
		emit(totalCmap12Build([]totalCmap12Group{{0, 9, 1}, {5, 7, 11}}, 2), "fixed")   // nested
		emit(totalCmap12Build([]totalCmap12Group{{20, 29, 1}, {0, 9, 11}}, 2), "fixed") // descending
		emit(totalCmap12Build([]totalCmap12Group{{0, 0, 1}, {0, 0, 1}}, 2), "fixed")    // i>0, start = prevEnd = 0
		emit(totalCmap12Build([]totalCmap12Group{{0, 0, 1}, {1, 1, 1}}, 2), "fixed")
		// nSegments field vs. actual length
		emit(totalCmap12Build([]totalCmap12Group{{0, 9, 1}}, 0), "nseg")
		emit(totalCmap12Build([]totalCmap12Group{{0, 9, 1}}, 2), "nseg")
		emit(totalCmap12Build(nil, 1), "nseg")
		emit(totalCmap12Build(nil, 1000001), "nseg")
		emit(totalCmap12Build(nil, 0xFFFFFFFF), "nseg")
		emit(totalCmap12Build([]totalCmap12Group{{0, 9, 1}}, 0x15555556), "nseg") // 16+n*12 = 28 mod 2^32
		emit(totalCmap12Build([]totalCmap12Group{{0, 9, 1}}, 0x80000001), "nseg")
		emit(totalCmap12Build([]totalCmap12Group{{0, 9, 1}}, 0x01000001), "nseg")
		// cumulative size: totals 65535 / 65536 / 65537 split over several groups
		for _, total := range []int{65535, 65536, 65537, 65538, 131072} {
			for _, n := range []int{1, 2, 3, 7, 40} {
				if n == 1 && total > 65536 {
					continue
				}
				var gs []totalCmap12Group
				if total <= 65536 {
					gs = totalCmap12Valid(r, n, total)
				} else {
					// every group individually legal, the sum is not
					gs = totalCmap12Valid(r, n-1, 65536-r.Intn(2))
					last := gs[len(gs)-1]
					have := 0
					for _, g := range gs {
						have += int(g.end-g.start) + 1
					}
					p := uint32(total - have)
					gs = append(gs, totalCmap12Group{last.end + 1 + uint32(r.Intn(3)), 0, uint32(r.Intn(int(0x10000 - p + 1)))})
					gs[len(gs)-1].end = gs[len(gs)-1].start + p - 1
				}
				emit(totalCmap12Build(gs, uint32(len(gs))), "cumulative")
			}
		}
		// two full groups: each passes every per-group test, the accumulated size does not
		emit(totalCmap12Build([]totalCmap12Group{{0, 65535, 0}, {65536, 131071, 0}}, 2), "cumulative")
		emit(totalCmap12Build([]totalCmap12Group{{0, 65535, 0}, {65536, 65536, 0}}, 2), "cumulative")
		emit(totalCmap12Build([]totalCmap12Group{{0, 32767, 0}, {65536, 98303, 32768}}, 2), "cumulative")

		// --- seeds: the format 12 subtables inside cmap tables
		var subs [][]byte
		for _, s := range seeds {
			if s.dec == "cmap" {
				subs = append(subs, totalCmap12Subtables(s.bytes)...)
			}
		}
		// (the seed pool's cmap tables carry no format 12 subtable at present) plus tables written
		// by the library's own encoder
		for k := 0; k < 6; k++ {
			m := cmap.Format12{}
			code := uint32(r.Intn(0x30000))
			gid := r.Range(1, 2000)
			for j, nj := 0, r.Range(0, 60); j < nj; j++ {
				if r.Chance(1, 4) {
					code += uint32(r.Range(1, 5000))
				}
				if r.Chance(1, 5) {
					gid = r.Range(0, 0xFFFF)
				}
				m[code] = glyph.ID(gid)
				code++
				gid = (gid + 1) & 0xFFFF
			}
			subs = append(subs, m.Encode(0))
		}
		ncm := 0
		for _, s := range seeds {
			if s.dec == "cmap" {
				ncm++
			}
		}
		c.Stat("tmcmap12:seeds", "cmap-tables="+strconv.Itoa(ncm)+",format12-subtables(incl. 6 encoded)="+strconv.Itoa(len(subs)))
		for i, s := range subs {
			if i >= 12 {
				break
			}
			emit(s, "seed")
		}
		pool := append([][]byte(nil), subs...)
		for i := 0; i < 8; i++ {
			pool = append(pool, totalCmap12Build(totalCmap12Valid(r, r.Range(1, 12), r.Range(12, 400)), 0))
			b := pool[len(pool)-1]
			n := (len(b) - 16) / 12
			b[12], b[13], b[14], b[15] = 0, 0, byte(n>>8), byte(n)
		}

		// --- truncations at every offset of a small valid table
		{
			b := totalCmap12Build([]totalCmap12Group{{65, 90, 1}, {97, 122, 27}}, 2)
			for i := 0; i < len(b); i++ {
				emit(b[:i], "truncate")
			}
			emit(append(append([]byte(nil), b...), 0), "extend")
		}

		for emitted < budget {
			switch r.Intn(10) {
			case 0, 1, 2: // structured valid
				n := r.Range(0, 40)
				total := n + r.Intn(200)
				if r.Chance(1, 6) {
					total = n + r.Intn(65536-n+1)
				}
				if n == 0 {
					total = 0
				}
				gs := totalCmap12Valid(r, n, total)
				emit(totalCmap12Build(gs, uint32(n)), "valid")
			case 3, 4: // structured with one defect
				n := r.Range(1, 40)
				gs := totalCmap12Valid(r, n, n+r.Intn(300))
				i := r.Intn(n)
				nseg := uint32(n)
				kind := "defect"
				switch r.Intn(9) {
				case 0: // overlap / touch / descend
					if i > 0 {
						gs[i].start = gs[i-1].end - uint32(r.Intn(2))
						if gs[i].end < gs[i].start {
							gs[i].end = gs[i].start
						}
					} else {
						gs[i].end = gs[i].start - 1
					}
				case 1:
					gs[i].end = 0xFFFFFFFF
				case 2:
					gs[i].gid = 0xFFFF
				case 3:
					gs[i].gid = 0x10000 - (gs[i].end - gs[i].start) - uint32(r.Intn(2))
				case 4:
					gs[i].gid = uint32(r.U64())
				case 5:
					gs[i].start, gs[i].end = gs[i].end, gs[i].start
					if i+1 < n {
						gs[i], gs[i+1] = gs[i+1], gs[i]
					}
				case 6:
					nseg = uint32(int(nseg) + r.Range(-2, 2))
				case 7:
					nseg = 1000001 + uint32(r.Intn(3))
				case 8:
					gs[i].end = gs[i].start + 65535 + uint32(r.Intn(2))
					gs[i].gid = 0
				}
				emit(totalCmap12Build(gs, nseg), kind)
			case 5, 6, 7: // mutation of a valid table
				b, _ := totalMutate(r, Pick(r, pool))
				emit(b, "mutate")
			case 8: // truncation / extension
				b := append([]byte(nil), Pick(r, pool)...)
				if r.Bool() {
					b = b[:r.Intn(len(b)+1)]
				} else {
					b = append(b, r.Bytes(r.Range(1, 13))...)
				}
				emit(b, "truncate")
			default: // random bytes, sometimes with a consistent header
				b := r.Bytes(r.Range(0, 80))
				if len(b) >= 16 && r.Bool() {
					n := (len(b) - 16) / 12
					b = b[:16+12*n]
					b[12], b[13], b[14], b[15] = 0, 0, 0, byte(n)
				}
				emit(b, "random")
			}
		}
	}
}
