//go:build verif

package main

// Area total, group glyflazy (property C02, lazy part for TrueType glyphs): verdict stream of the
// checked-index models of (*SimpleGlyph).Decode, decodeGlyphComposite and (*Glyph).Components
// (lean/SfntV/Model/TotalGlyfLazy.lean).
//
//	tmglyflazy.simple nc=<int16> bytes=<hex of Encoded>
//	    -> ok:<instructions hex>;<contours joined by |, points x/y/on joined by ,> | err | panic
//	tmglyflazy.comp bytes=<hex>   (decodeGlyphComposite through glyf.Decode of a one-glyph table
//	    with numberOfContours = -1, then Components())
//	    -> ok:<flags:gid:args hex joined by ,>;<n | i<instructions hex>>;<component ids> | err | panic

import (
	"fmt"
	"strconv"
	"strings"

	"seehuhn.de/go/sfnt/glyf"
)

func totalGlyflazySimpleOp(f Fields) string {
	return totalCanonPanic(guard(func() string {
		g := &glyf.SimpleGlyph{NumContours: int16(f.Int("nc")), Encoded: f.Hex("bytes")}
		info, err := g.Decode()
		if err != nil {
			return "err"
		}
		cs := make([]string, len(info.Contours))
		for i, c := range info.Contours {
			ps := make([]string, len(c))
			for j, p := range c {
				on := 0
				if p.OnCurve {
					on = 1
				}
				ps[j] = fmt.Sprintf("%d/%d/%d", p.X, p.Y, on)
			}
			cs[i] = strings.Join(ps, ",")
		}
		return "ok:" + hx(info.Instructions) + ";" + strings.Join(cs, "|")
	}))
}

func totalGlyflazyCompOp(f Fields) string {
	return totalCanonPanic(guard(func() string {
		body := f.Hex("bytes")
		data := make([]byte, 10+len(body))
		data[0], data[1] = 0xff, 0xff
		copy(data[10:], body)
		n := len(data)
		loca := []byte{0, 0, 0, 0, byte(n >> 24), byte(n >> 16), byte(n >> 8), byte(n)}
		gg, err := glyf.Decode(&glyf.Encoded{GlyfData: data, LocaData: loca, LocaFormat: 1})
		if err != nil {
			return "err"
		}
		if len(gg) != 1 || gg[0] == nil {
			return "bad-harness"
		}
		cg, ok := gg[0].Data.(glyf.CompositeGlyph)
		if !ok {
			return "bad-harness"
		}
		cs := make([]string, len(cg.Components))
		for i, c := range cg.Components {
			cs[i] = fmt.Sprintf("%d:%d:%s", uint16(c.Flags), uint16(c.GlyphIndex), hx(c.Data))
		}
		ins := "n"
		if cg.Instructions != nil {
			ins = "i" + hx(cg.Instructions)
		}
		ids := gg[0].Components()
		idl := "-"
		if ids != nil {
			s := make([]string, len(ids))
			for i, x := range ids {
				s[i] = strconv.Itoa(int(x))
			}
			idl = strings.Join(s, ",")
		}
		return "ok:" + strings.Join(cs, ",") + ";" + ins + ";" + idl
	}))
}

func totalGlyflazyBe16(v int) []byte { return []byte{byte(v >> 8), byte(v)} }

// totalGlyflazyCoordFlags: the 9 combinations (x: short+, short-, long, same) x (y: ...), as flag bits
// without ON_CURVE and REPEAT.
var totalGlyflazyXKinds = []byte{0x02 | 0x10, 0x02, 0x00, 0x10} // short positive, short negative, long, same
var totalGlyflazyYKinds = []byte{0x04 | 0x20, 0x04, 0x00, 0x20}

// totalGlyflazyBuild builds a VALID simple glyph description: contour sizes, per-point flags drawn
// from all x/y encodings, runs of equal flags compressed with REPEAT (counts forced to 0, 1, 255 now
// and then), instructions.
func totalGlyflazyBuild(c *Ctx, r *Rng) (nc int, enc []byte) {
	nc = Pick(r, []int{0, 1, 1, 2, 2, 3, 5, 8})
	np := 0
	var ends []int
	for i := 0; i < nc; i++ {
		sz := Pick(r, []int{0, 1, 2, 3, 4, 7, 12})
		if i == 0 && sz == 0 {
			sz = 1
		}
		if r.Chance(1, 40) {
			sz = Pick(r, []int{256, 257, 300, 600})
		}
		np += sz
		ends = append(ends, np-1) // sz == 0 repeats the previous end point (an empty contour)
	}
	for _, e := range ends {
		enc = append(enc, totalGlyflazyBe16(e)...)
	}
	il := Pick(r, []int{0, 0, 0, 1, 2, 5, 17})
	enc = append(enc, totalGlyflazyBe16(il)...)
	enc = append(enc, r.Bytes(il)...)
	// flags
	flags := make([]byte, np)
	for i := 0; i < np; {
		f := Pick(r, totalGlyflazyXKinds) | Pick(r, totalGlyflazyYKinds)
		if r.Bool() {
			f |= 0x01
		}
		if r.Chance(1, 10) {
			f |= 0xC0 & byte(r.U64()) // reserved bits
		}
		run := 1
		if r.Chance(1, 3) {
			run = Pick(r, []int{1, 2, 3, 5, 256, 257, 300})
		}
		for k := 0; k < run && i < np; k++ {
			flags[i] = f
			i++
		}
	}
	var fb []byte
	for i := 0; i < np; {
		j := i + 1
		for j < np && flags[j] == flags[i] && j-i < 256 {
			j++
		}
		run := j - i
		mode := r.Intn(4)
		switch {
		case run == 1 && mode == 0: // repeat count 0
			fb = append(fb, flags[i]|0x08, 0)
			c.Stat("tmglyflazy:repeat", "0")
		case run >= 2 && mode != 3:
			fb = append(fb, flags[i]|0x08, byte(run-1))
			c.Stat("tmglyflazy:repeat", bucket(run-1))
		default:
			run = 1
			fb = append(fb, flags[i])
		}
		i += run
	}
	enc = append(enc, fb...)
	var xb, yb []byte
	for _, f := range flags {
		switch {
		case f&0x02 != 0:
			xb = append(xb, byte(r.U64()))
		case f&0x10 == 0:
			xb = append(xb, totalGlyflazyBe16(Pick(r, []int{0, 1, 0x7fff, 0x8000, 0xffff, r.Intn(65536)}))...)
		}
		switch {
		case f&0x04 != 0:
			yb = append(yb, byte(r.U64()))
		case f&0x20 == 0:
			yb = append(yb, totalGlyflazyBe16(Pick(r, []int{0, 1, 0x7fff, 0x8000, 0xffff, r.Intn(65536)}))...)
		}
	}
	enc = append(enc, xb...)
	enc = append(enc, yb...)
	if r.Chance(1, 5) {
		enc = append(enc, r.Bytes(r.Range(1, 3))...) // padding, as glyf.Decode may deliver
	}
	c.Stat("tmglyflazy:built_points", bucket(np))
	return nc, enc
}

// totalGlyflazyWitness: 516 bytes, one contour of 65536 points (256 repeat pairs of 256 points,
// all coordinates "same as previous").
func totalGlyflazyWitness(np int) []byte {
	enc := append(totalGlyflazyBe16(np-1), 0, 0)
	for left := np; left > 0; left -= 256 {
		k := left
		if k > 256 {
			k = 256
		}
		enc = append(enc, 0x39, byte(k-1))
	}
	return enc
}

// totalGlyflazyComp builds a composite glyph body: n components with all argument/transform sizes.
func totalGlyflazyComp(c *Ctx, r *Rng) []byte {
	n := Pick(r, []int{1, 1, 2, 3, 4, 9})
	var b []byte
	instr := false
	for i := 0; i < n; i++ {
		fl := 0
		if r.Bool() {
			fl |= 0x0001 // ARG_1_AND_2_ARE_WORDS
		}
		tr := r.Intn(6)
		switch tr {
		case 1:
			fl |= 0x0008
		case 2:
			fl |= 0x0040
		case 3:
			fl |= 0x0080
		case 4:
			fl |= 0x0008 | 0x0040 | 0x0080 // precedence: scale wins
		case 5:
			fl |= 0x0040 | 0x0080
		}
		if r.Chance(1, 4) {
			fl |= 0x0100
			instr = true
		}
		if r.Chance(1, 3) {
			fl |= int(r.U64()) & 0xFE16 &^ 0x0100 // other bits
		}
		if i < n-1 {
			fl |= 0x0020
		}
		skip := 2
		if fl&1 != 0 {
			skip = 4
		}
		switch {
		case fl&0x0008 != 0:
			skip += 2
		case fl&0x0040 != 0:
			skip += 4
		case fl&0x0080 != 0:
			skip += 8
		}
		c.Stat("tmglyflazy:comp_skip", fmt.Sprint(skip))
		b = append(b, totalGlyflazyBe16(fl)...)
		b = append(b, totalGlyflazyBe16(r.Intn(65536))...)
		b = append(b, r.Bytes(skip)...)
	}
	tail := "none"
	if instr || r.Chance(1, 6) {
		switch r.Intn(6) {
		case 0: // nothing after the flag
		case 1:
			b = append(b, byte(r.U64()))
			tail = "1byte"
		case 2: // exact
			k := r.Intn(6)
			b = append(b, totalGlyflazyBe16(k)...)
			b = append(b, r.Bytes(k)...)
			tail = "exact"
		case 3: // length beyond the end
			k := r.Intn(6)
			b = append(b, totalGlyflazyBe16((k+r.Range(1, 60000))&0xffff)...)
			b = append(b, r.Bytes(k)...)
			tail = "beyond"
		case 4: // shorter than what is left
			k := r.Range(1, 6)
			b = append(b, totalGlyflazyBe16(r.Intn(k))...)
			b = append(b, r.Bytes(k)...)
			tail = "shorter"
		case 5:
			b = append(b, 0, 0)
			tail = "zero"
		}
	}
	c.Stat("tmglyflazy:comp_tail", fmt.Sprintf("flag=%v,%s", instr, tail))
	return b
}

type totalGlyflazyGlyph struct {
	nc   int
	body []byte
}

// totalGlyflazySeedGlyphs cuts the glyphs out of a glyf seed by parsing its loca table here.
func totalGlyflazySeedGlyphs(s totalSeed) (out []totalGlyflazyGlyph) {
	f := parseFields(strings.TrimSpace(s.extra))
	loca, ok := f["loca"]
	if !ok {
		return nil
	}
	lb := Fields{"loca": loca}.Hex("loca")
	var offs []int
	if f["fmt"] == "0" {
		for i := 0; i+1 < len(lb); i += 2 {
			offs = append(offs, 2*(int(lb[i])<<8|int(lb[i+1])))
		}
	} else {
		for i := 0; i+3 < len(lb); i += 4 {
			offs = append(offs, int(lb[i])<<24|int(lb[i+1])<<16|int(lb[i+2])<<8|int(lb[i+3]))
		}
	}
	for i := 0; i+1 < len(offs); i++ {
		a, b := offs[i], offs[i+1]
		if a < 0 || b > len(s.bytes) || b-a < 10 {
			continue
		}
		d := s.bytes[a:b]
		out = append(out, totalGlyflazyGlyph{int(int16(uint16(d[0])<<8 | uint16(d[1]))), d[10:]})
	}
	return out
}

func totalGlyflazyClass(out string) string {
	if i := strings.IndexByte(out, ':'); i >= 0 {
		return out[:i]
	}
	return out
}

func init() {
	ops["tmglyflazy.simple"] = totalGlyflazySimpleOp
	ops["tmglyflazy.comp"] = totalGlyflazyCompOp

	totalModelGens["glyflazy"] = func(c *Ctx, r *Rng, seeds []totalSeed) {
		simple := func(src string, nc int, b []byte, nontrivial bool) {
			if len(b) > 40000 {
				return
			}
			out := c.Case(Verdict, "tmglyflazy.simple", fmt.Sprintf("nc=%d bytes=%s", nc, hx(b)), nontrivial)
			c.Stat("tmglyflazy:simple", totalGlyflazyClass(out))
			c.Stat("tmglyflazy:simple_src", src+":"+totalGlyflazyClass(out))
		}
		comp := func(src string, b []byte, nontrivial bool) {
			if len(b) > 40000 {
				return
			}
			out := c.Case(Verdict, "tmglyflazy.comp", "bytes="+hx(b), nontrivial)
			c.Stat("tmglyflazy:comp", totalGlyflazyClass(out))
			c.Stat("tmglyflazy:comp_src", src+":"+totalGlyflazyClass(out))
		}
		budget := c.N / 3
		if budget < 60 {
			budget = 60
		}

		// glyphs of the valid glyf seeds
		var seedSimple, seedComp []totalGlyflazyGlyph
		for _, s := range seeds {
			if s.dec != "glyf" {
				continue
			}
			for _, g := range totalGlyflazySeedGlyphs(s) {
				if len(g.body) > 3000 {
					continue
				}
				if g.nc >= 0 {
					seedSimple = append(seedSimple, g)
				} else {
					seedComp = append(seedComp, g)
				}
			}
		}
		c.Stat("tmglyflazy:seed_glyphs", fmt.Sprintf("simple=%s,composite=%s", bucket(len(seedSimple)), bucket(len(seedComp))))

		// ---------------- (*SimpleGlyph).Decode
		// fixed boundary cases (every run)
		simple("fixed", 0, []byte{0, 0}, true)
		simple("fixed", 0, []byte{}, false)
		simple("fixed", 0, []byte{0}, false)
		simple("fixed", 0, []byte{0, 1}, false)        // instruction length beyond the end
		simple("fixed", 0, []byte{0, 1, 7}, true)      // one instruction byte
		simple("fixed", -1, []byte{0, 0, 0, 0}, false) // negative contour counts
		simple("fixed", -32768, []byte{0, 0, 0, 0}, false)
		simple("fixed", 0x7fff, []byte{0, 0, 0, 0}, false)  // 65536 bytes of end points missing
		simple("fixed", 1, []byte{0xff, 0xff, 0, 0}, false) // 65536 points announced, no flags
		simple("fixed", 1, []byte{0, 0}, false)
		simple("fixed", 1, []byte{0, 0, 0}, false)
		simple("fixed", 2, []byte{0, 1, 0, 0, 0, 0, 0x31, 0x31}, false)       // end points 1,0: numPoints 1, first end beyond
		simple("fixed", 2, []byte{0, 0, 0, 0, 0, 0, 0x31}, true)              // equal end points: empty second contour
		simple("fixed", 3, []byte{0, 1, 0, 0, 0, 1, 0, 0, 0x31, 0x31}, false) // non-monotone 1,0,1
		simple("fixed", 2, []byte{0, 5, 0, 1, 0, 0, 0x31, 0x31}, false)       // first end point beyond numPoints
		simple("fixed", 1, []byte{0, 2, 0, 0, 0x39, 0xff}, true)              // repeat count larger than what is left
		simple("fixed", 1, []byte{0, 2, 0, 0, 0x39, 1}, false)                // repeat count too small
		simple("fixed", 1, []byte{0, 2, 0, 0, 0x39}, false)                   // repeat count missing
		for _, np := range []int{255, 256, 257, 512, 4096} {
			simple("witness", 1, totalGlyflazyWitness(np), true)
		}
		// 516 bytes -> 65536 points: the cost of Decode is bounded by the 16-bit point count, with
		// up to 128 points per input byte
		simple("witness", 1, totalGlyflazyWitness(65536), true)
		// every x/y encoding with every other, one point each
		for _, xk := range totalGlyflazyXKinds {
			for _, yk := range totalGlyflazyYKinds {
				f := xk | yk | 1
				enc := []byte{0, 1, 0, 0, f, f}
				for _, k := range []byte{xk & 0x12, yk & 0x24} {
					for p := 0; p < 2; p++ {
						switch {
						case k&0x06 != 0:
							enc = append(enc, byte(r.U64()))
						case k&0x30 == 0:
							enc = append(enc, r.Bytes(2)...)
						}
					}
				}
				simple("xy-kinds", 1, enc, true)
				for cut := 6; cut < len(enc); cut++ {
					simple("xy-kinds-trunc", 1, enc[:cut], false)
				}
			}
		}
		// truncations at every offset of several valid glyphs
		for k := 0; k < 4; k++ {
			nc, enc := totalGlyflazyBuild(c, r)
			if len(enc) > 60 {
				continue
			}
			for cut := 0; cut <= len(enc); cut++ {
				simple("built-trunc", nc, enc[:cut], cut == len(enc))
			}
		}
		for k := 0; k < 3 && len(seedSimple) > 0; k++ {
			g := Pick(r, seedSimple)
			if len(g.body) > 120 {
				continue
			}
			for cut := 0; cut <= len(g.body); cut++ {
				simple("seed-trunc", g.nc, g.body[:cut], cut == len(g.body))
			}
		}
		for i := 0; c.count["V:tmglyflazy.simple"] < budget && i < 20*budget+1000 && timeouts < maxTimeouts; i++ {
			switch i % 8 {
			case 0, 1, 2:
				nc, enc := totalGlyflazyBuild(c, r)
				simple("built", nc, enc, true)
			case 3: // broken variants of a valid glyph
				nc, enc := totalGlyflazyBuild(c, r)
				e := append([]byte(nil), enc...)
				kind := r.Intn(6)
				switch kind {
				case 0: // wrong contour count
					nc = Pick(r, []int{0, -1, 0x7fff, nc + 1, nc - 1, -32768, 1})
				case 1: // an end point non-monotone / equal / beyond numPoints
					if nc > 0 {
						j := r.Intn(nc)
						copy(e[2*j:], totalGlyflazyBe16(Pick(r, []int{0, 0xffff, 0x7fff, int(e[2*j+1]) + 1, int(e[2*j+1]) - 1, 300})))
					}
				case 2: // instruction length beyond the end
					if len(e) >= 2*nc+2 {
						copy(e[2*nc:], totalGlyflazyBe16(Pick(r, []int{0xffff, len(e), len(e) - 2*nc - 2, len(e) - 2*nc - 1, 1})))
					}
				case 3: // swap two end points
					if nc >= 2 {
						j := r.Intn(nc - 1)
						e[2*j], e[2*j+1], e[2*j+2], e[2*j+3] = e[2*j+2], e[2*j+3], e[2*j], e[2*j+1]
					}
				case 4:
					e = e[:r.Intn(len(e)+1)]
				case 5:
					e, _ = totalMutate(r, e)
				}
				simple(fmt.Sprintf("broken%d", kind), nc, e, false)
			case 4:
				if len(seedSimple) > 0 {
					g := Pick(r, seedSimple)
					simple("seed", g.nc, g.body, true)
				} else {
					nc, enc := totalGlyflazyBuild(c, r)
					simple("built", nc, enc, true)
				}
			case 5:
				var nc int
				var e []byte
				if len(seedSimple) > 0 && r.Bool() {
					g := Pick(r, seedSimple)
					nc, e = g.nc, g.body
				} else {
					nc, e = totalGlyflazyBuild(c, r)
				}
				m, _ := totalMutate(r, e)
				simple("mutated", nc, m, false)
			case 6:
				simple("random", Pick(r, []int{0, 1, 1, 2, 3, -1, 0x7fff, r.Intn(65536) - 32768}), r.Bytes(r.Intn(40)), false)
			case 7: // any glyph (also composite ones) read with any contour count
				if len(seedComp) > 0 && r.Bool() {
					g := Pick(r, seedComp)
					simple("foreign", Pick(r, []int{g.nc, 0, 1, 2}), g.body, false)
				} else {
					simple("foreign", r.Intn(4), totalGlyflazyComp(c, r), false)
				}
			}
		}

		// ---------------- decodeGlyphComposite + Components
		comp("fixed", []byte{}, false)
		comp("fixed", []byte{0, 0, 0, 1}, false)                     // arguments missing
		comp("fixed", []byte{0, 0, 0, 1, 5, 6}, true)                // minimal component
		comp("fixed", []byte{0, 0x20, 0, 1, 5, 6}, false)            // MORE_COMPONENTS, nothing follows
		comp("fixed", []byte{1, 0, 0, 1, 5, 6}, true)                // instructions announced, none present
		comp("fixed", []byte{1, 0, 0, 1, 5, 6, 9}, true)             // one byte left
		comp("fixed", []byte{1, 0, 0, 1, 5, 6, 0, 0}, true)          // empty instructions (non-nil)
		comp("fixed", []byte{1, 0, 0, 1, 5, 6, 0xff, 0xff, 1}, true) // length beyond the end
		comp("fixed", []byte{1, 0, 0, 1, 5, 6, 0, 1, 1, 2, 3}, true) // length shorter than the rest
		comp("fixed", []byte{0, 0, 0, 1, 5, 6, 0, 1, 1, 2, 3}, true) // trailing bytes without the flag
		for k := 0; k < 4; k++ {
			b := totalGlyflazyComp(c, r)
			if len(b) > 60 {
				continue
			}
			for cut := 0; cut <= len(b); cut++ {
				comp("built-trunc", b[:cut], cut == len(b))
			}
		}
		for k := 0; k < 3 && len(seedComp) > 0; k++ {
			g := Pick(r, seedComp)
			if len(g.body) > 80 {
				continue
			}
			for cut := 0; cut <= len(g.body); cut++ {
				comp("seed-trunc", g.body[:cut], cut == len(g.body))
			}
		}
		for i := 0; c.count["V:tmglyflazy.comp"] < budget && i < 20*budget+1000 && timeouts < maxTimeouts; i++ {
			switch i % 6 {
			case 0, 1:
				comp("built", totalGlyflazyComp(c, r), true)
			case 2:
				if len(seedComp) > 0 {
					comp("seed", Pick(r, seedComp).body, true)
				} else {
					comp("built", totalGlyflazyComp(c, r), true)
				}
			case 3:
				b := totalGlyflazyComp(c, r)
				if len(seedComp) > 0 && r.Bool() {
					b = Pick(r, seedComp).body
				}
				m, _ := totalMutate(r, b)
				comp("mutated", m, false)
			case 4:
				comp("random", r.Bytes(r.Intn(40)), false)
			case 5: // a simple glyph body read as a composite one
				if len(seedSimple) > 0 && r.Bool() {
					comp("foreign", Pick(r, seedSimple).body, false)
				} else {
					_, enc := totalGlyflazyBuild(c, r)
					comp("foreign", enc, false)
				}
			}
		}
	}
}
