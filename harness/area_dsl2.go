package main

// Area dsl, second part: Parse∘Explain round trips on the real code for the forms the Lean model
// does not cover yet (GSUB 5/6, GPOS 1–4).  The lookup list is regenerated from the seed in the
// case line; the comparison is structural (canonical print of both sides) and done here, the
// Lean side only fixes the expected verdict "same".

import (
	"bufio"
	"fmt"
	"io"
	"os"
	"os/exec"
	"reflect"
	"runtime"
	"sort"
	"strings"
	"sync"
	"sync/atomic"
	"time"

	"seehuhn.de/go/postscript/funit"
	"seehuhn.de/go/sfnt/glyph"
	"seehuhn.de/go/sfnt/opentype/anchor"
	"seehuhn.de/go/sfnt/opentype/classdef"
	"seehuhn.de/go/sfnt/opentype/coverage"
	"seehuhn.de/go/sfnt/opentype/gtab"
	"seehuhn.de/go/sfnt/opentype/gtab/builder"
	"seehuhn.de/go/sfnt/opentype/markarray"
)

// canon prints a value canonically: pointers followed, nil and empty slices/maps alike, map
// keys sorted, an all-zero value record like a nil one.
func canon(v reflect.Value, sb *strings.Builder) {
	switch v.Kind() {
	case reflect.Ptr, reflect.Interface:
		if v.IsNil() {
			sb.WriteString("nil")
			return
		}
		if v.Kind() == reflect.Ptr && v.Elem().Type() == reflect.TypeOf(gtab.GposValueRecord{}) && v.Elem().IsZero() {
			sb.WriteString("nil")
			return
		}
		if v.Kind() == reflect.Interface {
			sb.WriteString(v.Elem().Type().String())
		}
		canon(v.Elem(), sb)
	case reflect.Slice, reflect.Array:
		sb.WriteByte('[')
		for i := 0; i < v.Len(); i++ {
			if i > 0 {
				sb.WriteByte(' ')
			}
			canon(v.Index(i), sb)
		}
		sb.WriteByte(']')
	case reflect.Map:
		keys := v.MapKeys()
		strs := make([]string, len(keys))
		for i, k := range keys {
			var kb, vb strings.Builder
			canon(k, &kb)
			canon(v.MapIndex(k), &vb)
			strs[i] = fmt.Sprintf("%020s=%s", kb.String(), vb.String())
		}
		sort.Strings(strs)
		sb.WriteString("{" + strings.Join(strs, " ") + "}")
	case reflect.Struct:
		sb.WriteByte('(')
		for i := 0; i < v.NumField(); i++ {
			if i > 0 {
				sb.WriteByte(' ')
			}
			canon(v.Field(i), sb)
		}
		sb.WriteByte(')')
	default:
		fmt.Fprint(sb, v.Interface())
	}
}

func canonLookups(ll gtab.LookupList) string {
	var sb strings.Builder
	for _, l := range ll {
		fmt.Fprintf(&sb, "<%d,%d:", l.Meta.LookupType, l.Meta.LookupFlags)
		for _, st := range l.Subtables {
			canon(reflect.ValueOf(&st).Elem(), &sb)
			sb.WriteByte('|')
		}
		sb.WriteByte('>')
	}
	return sb.String()
}

type g2 struct {
	r *Rng
	n int // glyphs 1..n-1 are used
}

func (g g2) gid() glyph.ID { return glyph.ID(g.r.Range(3, g.n-1)) }
func (g g2) gids(lo, hi int) []glyph.ID {
	k := g.r.Range(lo, hi)
	out := make([]glyph.ID, k)
	for i := range out {
		out[i] = g.gid()
	}
	return out
}
func (g g2) cov() []glyph.ID {
	var out []glyph.ID
	for x := 3; x < g.n; x++ {
		if g.r.Chance(1, 5) {
			out = append(out, glyph.ID(x))
		}
	}
	if len(out) == 0 {
		out = []glyph.ID{g.gid()}
	}
	return out
}
func (g g2) set() coverage.Set {
	s := coverage.Set{}
	for _, x := range g.cov() {
		s[x] = true
	}
	return s
}
func (g g2) sets(lo, hi int) []coverage.Set {
	k := g.r.Range(lo, hi)
	out := make([]coverage.Set, k)
	for i := range out {
		out[i] = g.set()
	}
	return out
}
func (g g2) actions(seqLen int) []gtab.SeqLookup {
	k := g.r.Range(0, 3)
	var out []gtab.SeqLookup
	for i := 0; i < k; i++ {
		out = append(out, gtab.SeqLookup{SequenceIndex: uint16(g.r.Intn(seqLen)), LookupListIndex: gtab.LookupIndex(g.r.Intn(5))})
	}
	return out
}

// classes draws a class table with classes 1..k all non-empty.
func (g g2) classes(k int) classdef.Table {
	t := classdef.Table{}
	for c := 1; c <= k; c++ {
		t[g.gid()] = uint16(c)
	}
	// the draws may collide: make sure every class 1..k is present
	for c := 1; c <= k; c++ {
		present := false
		for _, v := range t {
			if int(v) == c {
				present = true
			}
		}
		for !present {
			x := g.gid()
			if _, used := t[x]; !used {
				t[x] = uint16(c)
				present = true
			}
		}
	}
	for i := g.r.Intn(4); i > 0; i-- {
		x := g.gid()
		if _, used := t[x]; !used {
			t[x] = uint16(g.r.Range(1, k))
		}
	}
	return t
}
func (g g2) classSeq(k, lo, hi int) []uint16 {
	n := g.r.Range(lo, hi)
	out := make([]uint16, n)
	for i := range out {
		out[i] = uint16(g.r.Intn(k + 1))
	}
	return out
}
func (g g2) i16() funit.Int16 {
	return funit.Int16(Pick(g.r, []int{0, 1, -1, 5, -20, 500, -32768, 32767, 12}))
}
func (g g2) value(dy bool) *gtab.GposValueRecord {
	if g.r.Chance(1, 4) {
		return nil
	}
	v := &gtab.GposValueRecord{XPlacement: g.i16(), YPlacement: g.i16(), XAdvance: g.i16()}
	if dy || g.r.Chance(1, 3) {
		v.YAdvance = Pick(g.r, []funit.Int16{7, -3, 1000})
	}
	return v
}
func (g g2) pair(dy bool) *gtab.PairAdjust {
	p := &gtab.PairAdjust{First: g.value(dy)}
	if g.r.Bool() {
		p.Second = g.value(false)
	}
	return p
}

// genForm draws one subtable of the named form.
func (g g2) genForm(form string) gtab.Subtable {
	r := g.r
	switch form {
	case "gsub5.1", "gpos7.1":
		cov := g.cov()
		rules := make([][]*gtab.SeqRule, len(cov))
		for i := range rules {
			for k := r.Range(1, 2); k > 0; k-- {
				in := g.gids(0, 2)
				rules[i] = append(rules[i], &gtab.SeqRule{Input: in, Actions: g.actions(len(in) + 1)})
			}
		}
		return &gtab.SeqContext1{Cov: covOf(cov), Rules: rules}
	case "gsub5.2", "gpos7.2":
		k := r.Range(1, 3)
		cls := g.classes(k)
		rules := make([][]*gtab.ClassSeqRule, k+1)
		total := 0
		for c := range rules {
			for j := r.Intn(3); j > 0; j-- {
				in := g.classSeq(k, 0, 2)
				rules[c] = append(rules[c], &gtab.ClassSeqRule{Input: in, Actions: g.actions(len(in) + 1)})
				total++
			}
		}
		if total == 0 {
			rules[r.Intn(k+1)] = []*gtab.ClassSeqRule{{Input: nil, Actions: g.actions(1)}}
		}
		return &gtab.SeqContext2{Cov: covOf(g.cov()), Input: cls, Rules: rules}
	case "gsub5.3", "gpos7.3":
		in := g.sets(1, 3)
		return &gtab.SeqContext3{Input: in, Actions: g.actions(len(in))}
	case "gsub6.1", "gpos8.1":
		cov := g.cov()
		rules := make([][]*gtab.ChainedSeqRule, len(cov))
		for i := range rules {
			for k := r.Range(1, 2); k > 0; k-- {
				in := g.gids(0, 2)
				rules[i] = append(rules[i], &gtab.ChainedSeqRule{Backtrack: g.gids(0, 2), Input: in, Lookahead: g.gids(0, 2), Actions: g.actions(len(in) + 1)})
			}
		}
		return &gtab.ChainedSeqContext1{Cov: covOf(cov), Rules: rules}
	case "gsub6.2", "gpos8.2":
		k := r.Range(1, 2)
		kb, kl := r.Range(1, 2), r.Range(1, 2)
		rules := make([][]*gtab.ChainedClassSeqRule, k+1)
		total := 0
		for c := range rules {
			for j := r.Intn(3); j > 0; j-- {
				in := g.classSeq(k, 0, 2)
				rules[c] = append(rules[c], &gtab.ChainedClassSeqRule{Backtrack: g.classSeq(kb, 0, 2), Input: in,
					Lookahead: g.classSeq(kl, 0, 2), Actions: g.actions(len(in) + 1)})
				total++
			}
		}
		if total == 0 {
			rules[0] = []*gtab.ChainedClassSeqRule{{Actions: g.actions(1)}}
		}
		return &gtab.ChainedSeqContext2{Cov: covOf(g.cov()), Backtrack: g.classes(kb), Input: g.classes(k), Lookahead: g.classes(kl), Rules: rules}
	case "gsub6.3", "gpos8.3":
		in := g.sets(1, 2)
		return &gtab.ChainedSeqContext3{Backtrack: g.sets(0, 2), Input: in, Lookahead: g.sets(0, 2), Actions: g.actions(len(in))}
	case "gpos1.1", "gpos1.1dy":
		v := g.value(form == "gpos1.1dy")
		return &gtab.Gpos1_1{Cov: covOf(g.cov()), Adjust: v}
	case "gpos1.2":
		cov := g.cov()
		adj := make([]*gtab.GposValueRecord, len(cov))
		for i := range adj {
			adj[i] = g.value(false)
		}
		return &gtab.Gpos1_2{Cov: covOf(cov), Adjust: adj}
	case "gpos2.1":
		m := gtab.Gpos2_1{}
		for k := r.Range(1, 5); k > 0; k-- {
			m[glyph.Pair{Left: g.gid(), Right: g.gid()}] = g.pair(false)
		}
		return m
	case "gpos2.2":
		k1, k2 := r.Range(1, 2), r.Range(1, 2)
		c1, c2 := g.classes(k1), g.classes(k2)
		adj := make([][]*gtab.PairAdjust, k1+1)
		for i := range adj {
			adj[i] = make([]*gtab.PairAdjust, k2+1)
			for j := range adj[i] {
				adj[i][j] = g.pair(false)
			}
		}
		cov := coverage.Set{}
		for x := range c1 {
			cov[x] = true
		}
		cov[g.gid()] = true
		return &gtab.Gpos2_2{Cov: cov, Class1: c1, Class2: c2, Adjust: adj}
	case "gpos3.1":
		cov := g.cov()
		recs := make([]gtab.EntryExitRecord, len(cov))
		for i := range recs {
			recs[i] = gtab.EntryExitRecord{Entry: anchor.Table{X: g.i16(), Y: g.i16()}, Exit: anchor.Table{X: g.i16(), Y: g.i16()}}
		}
		return &gtab.Gpos3_1{Cov: covOf(cov), Records: recs}
	case "gpos4.1":
		k := r.Range(1, 3)
		marks := g.cov()
		for len(marks) < k {
			marks = g.cov()
		}
		ma := make([]markarray.Record, len(marks))
		for i := range ma {
			c := r.Intn(k)
			if i < k {
				c = i
			}
			ma[i] = markarray.Record{Class: uint16(c), Table: anchor.Table{X: g.i16(), Y: g.i16()}}
		}
		bases := g.cov()
		ba := make([][]anchor.Table, len(bases))
		for i := range ba {
			ba[i] = make([]anchor.Table, k)
			for j := range ba[i] {
				ba[i][j] = anchor.Table{X: g.i16(), Y: g.i16()}
			}
		}
		return &gtab.Gpos4_1{MarkCov: covOf(marks), BaseCov: covOf(bases), MarkArray: ma, BaseArray: ba}
	}
	panic("unknown form " + form)
}

var dslForms2 = []string{"gsub5.1", "gsub5.2", "gsub5.3", "gsub6.1", "gsub6.2", "gsub6.3",
	"gpos1.1", "gpos1.2", "gpos2.1", "gpos2.2", "gpos3.1", "gpos4.1",
	"gpos7.1", "gpos7.2", "gpos7.3", "gpos8.1", "gpos8.2", "gpos8.3"}

func formType(form string) (isGpos bool, typ uint16) {
	isGpos = strings.HasPrefix(form, "gpos")
	typ = uint16(form[4] - '0')
	return
}

func dslSeedFont(named bool) dslFont {
	if named {
		return simpleFont
	}
	return dslFont{n: 29}
}

func init() {
	ops["dsl.rtseed"] = func(f Fields) string {
		return dslCanonPanic(guard(func() string {
			var seed uint64
			fmt.Sscan(f["seed"], &seed)
			form := f["form"]
			g := g2{r: NewRng(seed), n: 29}
			isGpos, typ := formType(form)
			l := &gtab.LookupTable{Meta: &gtab.LookupMetaInfo{LookupType: typ, LookupFlags: gtab.LookupFlags(g.r.Intn(16))}}
			for k := f.Int("subtables"); k > 0; k-- {
				l.Subtables = append(l.Subtables, g.genForm(form))
			}
			ll := gtab.LookupList{l}
			d := dslSeedFont(f["named"] == "1")
			font := dslFontOf(parseFields(d.args()))
			var txt string
			if isGpos {
				font.Gpos = &gtab.Info{LookupList: ll}
				txt = strings.Join(builder.ExplainGpos(font), "\n")
			} else {
				font.Gsub = &gtab.Info{LookupList: ll}
				txt = builder.ExplainGsub(font)
			}
			font.Gsub, font.Gpos = nil, nil
			ll2, err := builder.Parse(font, txt)
			if err != nil {
				return "parse-error:" + strings.Join(strings.Fields(err.Error()), " ") + " text=" + strings.Join(strings.Fields(txt), " ")
			}
			a, b := canonLookups(ll), canonLookups(ll2)
			if a != b {
				return "differs:text=" + strings.Join(strings.Fields(txt), " ") + " want=" + a + " got=" + b
			}
			return "same"
		}))
	}
}

// genSeeded emits one seeded round-trip case.
func genSeeded(c *Ctx) {
	r := c.Rng
	form := Pick(r, dslForms2)
	named := r.Chance(2, 3)
	k := Pick(r, []int{1, 1, 2})
	c.Stat("rtseed.form", form)
	c.Stat("rtseed.font", map[bool]string{true: "named+cmap", false: "unnamed, no cmap"}[named])
	nm := 0
	if named {
		nm = 1
	}
	out := c.Case(Direct, "dsl.rtseed", fmt.Sprintf("seed=%d form=%s named=%d subtables=%d", r.U64()>>16, form, nm, k), true)
	if i := strings.IndexByte(out, ':'); i >= 0 {
		out = out[:i]
	}
	c.Stat("rtseed.outcome", out)
}

// ---- canonical one-line forms of the contextual subtables (kinds l … q) ----

func showActs(a []gtab.SeqLookup) string {
	p := make([]string, len(a))
	for i, x := range a {
		p[i] = fmt.Sprintf("%d@%d", x.LookupListIndex, x.SequenceIndex)
	}
	return strings.Join(p, ".")
}

func readActs(s string) []gtab.SeqLookup {
	if s == "" {
		return nil
	}
	var out []gtab.SeqLookup
	for _, e := range strings.Split(s, ".") {
		var i, p int
		fmt.Sscanf(e, "%d@%d", &i, &p)
		out = append(out, gtab.SeqLookup{SequenceIndex: uint16(p), LookupListIndex: gtab.LookupIndex(i)})
	}
	return out
}

func u16Str(l []uint16) string {
	p := make([]string, len(l))
	for i, x := range l {
		p[i] = fmt.Sprint(x)
	}
	return strings.Join(p, ".")
}

func readU16s(s string) []uint16 {
	var out []uint16
	for _, g := range readGids(s, ".") {
		out = append(out, uint16(g))
	}
	return out
}

func showSets(ss []coverage.Set) string {
	p := make([]string, len(ss))
	for i, s := range ss {
		gl := s.Glyphs()
		if len(gl) == 0 {
			p[i] = "e"
		} else {
			p[i] = gidsStr(gl, ".")
		}
	}
	return strings.Join(p, ",")
}

func readSets(s string) []coverage.Set {
	if s == "" {
		return nil
	}
	var out []coverage.Set
	for _, e := range strings.Split(s, ",") {
		set := coverage.Set{}
		if e != "e" {
			for _, g := range readGids(e, ".") {
				set[g] = true
			}
		}
		out = append(out, set)
	}
	return out
}

func showCtxSub(st gtab.Subtable) (string, bool) {
	switch l := st.(type) {
	case *gtab.SeqContext1:
		gl, ok := covOrder(l.Cov)
		if !ok || len(gl) != len(l.Rules) {
			return "noncanonical-coverage", true
		}
		p := make([]string, len(gl))
		for i, g := range gl {
			rs := make([]string, len(l.Rules[i]))
			for j, r := range l.Rules[i] {
				rs[j] = gidsStr(r.Input, ".") + "~" + showActs(r.Actions)
			}
			p[i] = fmt.Sprintf("%d>%s", g, strings.Join(rs, "+"))
		}
		return "l:" + strings.Join(p, ","), true
	case *gtab.SeqContext2:
		gl, ok := covOrder(l.Cov)
		if !ok {
			return "noncanonical-coverage", true
		}
		p := make([]string, len(l.Rules))
		for i, rules := range l.Rules {
			rs := make([]string, len(rules))
			for j, r := range rules {
				rs[j] = u16Str(r.Input) + "~" + showActs(r.Actions)
			}
			p[i] = strings.Join(rs, "+")
		}
		return "m:" + gidsStr(gl, ".") + ":" + showClasses(l.Input) + ":" + strings.Join(p, ","), true
	case *gtab.SeqContext3:
		return "n:" + showSets(l.Input) + ":" + showActs(l.Actions), true
	case *gtab.ChainedSeqContext1:
		gl, ok := covOrder(l.Cov)
		if !ok || len(gl) != len(l.Rules) {
			return "noncanonical-coverage", true
		}
		p := make([]string, len(gl))
		for i, g := range gl {
			rs := make([]string, len(l.Rules[i]))
			for j, r := range l.Rules[i] {
				rs[j] = gidsStr(r.Backtrack, ".") + "~" + gidsStr(r.Input, ".") + "~" + gidsStr(r.Lookahead, ".") + "~" + showActs(r.Actions)
			}
			p[i] = fmt.Sprintf("%d>%s", g, strings.Join(rs, "+"))
		}
		return "o:" + strings.Join(p, ","), true
	case *gtab.ChainedSeqContext2:
		gl, ok := covOrder(l.Cov)
		if !ok {
			return "noncanonical-coverage", true
		}
		p := make([]string, len(l.Rules))
		for i, rules := range l.Rules {
			rs := make([]string, len(rules))
			for j, r := range rules {
				rs[j] = u16Str(r.Backtrack) + "~" + u16Str(r.Input) + "~" + u16Str(r.Lookahead) + "~" + showActs(r.Actions)
			}
			p[i] = strings.Join(rs, "+")
		}
		return "p:" + gidsStr(gl, ".") + ":" + showClasses(l.Backtrack) + ":" + showClasses(l.Input) + ":" +
			showClasses(l.Lookahead) + ":" + strings.Join(p, ","), true
	case *gtab.ChainedSeqContext3:
		return "q:" + showSets(l.Backtrack) + ":" + showSets(l.Input) + ":" + showSets(l.Lookahead) + ":" + showActs(l.Actions), true
	}
	return "", false
}

func splitRules(s string) []string {
	if s == "" {
		return nil
	}
	return strings.Split(s, "+")
}

func readCtxSub(kind, body string) gtab.Subtable {
	parts := strings.Split(body, ":")
	switch kind {
	case "l":
		gl, rhs := readPairs(body)
		rules := make([][]*gtab.SeqRule, len(gl))
		for i, r := range rhs {
			for _, e := range splitRules(r) {
				f := strings.Split(e, "~")
				rules[i] = append(rules[i], &gtab.SeqRule{Input: readGids(f[0], "."), Actions: readActs(f[1])})
			}
		}
		return &gtab.SeqContext1{Cov: covOf(gl), Rules: rules}
	case "m":
		per := strings.Split(parts[2], ",")
		rules := make([][]*gtab.ClassSeqRule, len(per))
		for i, r := range per {
			for _, e := range splitRules(r) {
				f := strings.Split(e, "~")
				rules[i] = append(rules[i], &gtab.ClassSeqRule{Input: readU16s(f[0]), Actions: readActs(f[1])})
			}
		}
		return &gtab.SeqContext2{Cov: covOf(readGids(parts[0], ".")), Input: readClasses(parts[1]), Rules: rules}
	case "n":
		return &gtab.SeqContext3{Input: readSets(parts[0]), Actions: readActs(parts[1])}
	case "o":
		gl, rhs := readPairs(body)
		rules := make([][]*gtab.ChainedSeqRule, len(gl))
		for i, r := range rhs {
			for _, e := range splitRules(r) {
				f := strings.Split(e, "~")
				rules[i] = append(rules[i], &gtab.ChainedSeqRule{Backtrack: readGids(f[0], "."), Input: readGids(f[1], "."),
					Lookahead: readGids(f[2], "."), Actions: readActs(f[3])})
			}
		}
		return &gtab.ChainedSeqContext1{Cov: covOf(gl), Rules: rules}
	case "p":
		per := strings.Split(parts[4], ",")
		rules := make([][]*gtab.ChainedClassSeqRule, len(per))
		for i, r := range per {
			for _, e := range splitRules(r) {
				f := strings.Split(e, "~")
				rules[i] = append(rules[i], &gtab.ChainedClassSeqRule{Backtrack: readU16s(f[0]), Input: readU16s(f[1]),
					Lookahead: readU16s(f[2]), Actions: readActs(f[3])})
			}
		}
		return &gtab.ChainedSeqContext2{Cov: covOf(readGids(parts[0], ".")), Backtrack: readClasses(parts[1]),
			Input: readClasses(parts[2]), Lookahead: readClasses(parts[3]), Rules: rules}
	case "q":
		return &gtab.ChainedSeqContext3{Backtrack: readSets(parts[0]), Input: readSets(parts[1]), Lookahead: readSets(parts[2]),
			Actions: readActs(parts[3])}
	}
	return nil
}

// genCtxLookup draws a contextual lookup (GSUB 5/6 or GPOS 7/8) inside the language's domain over
// glyphs 3 … n-1.
func genCtxLookup(c *Ctx, n int, gpos bool) *gtab.LookupTable {
	r := c.Rng
	g := g2{r: r, n: n}
	chained := r.Bool()
	typ, prefix := 5, "gsub5."
	switch {
	case gpos && chained:
		typ, prefix = 8, "gpos8."
	case gpos:
		typ, prefix = 7, "gpos7."
	case chained:
		typ, prefix = 6, "gsub6."
	}
	l := &gtab.LookupTable{Meta: &gtab.LookupMetaInfo{LookupType: uint16(typ), LookupFlags: gtab.LookupFlags(r.Intn(16))}}
	k := Pick(r, []int{1, 1, 2, 3})
	c.Stat("rt.subtables", fmt.Sprint(k))
	for ; k > 0; k-- {
		form := prefix + fmt.Sprint(r.Range(1, 3))
		c.Stat("rt.form", form)
		l.Subtables = append(l.Subtables, g.genForm(form))
	}
	return l
}

// ---- the ops that call Parse run in a worker process ----
//
// A Parse that does not terminate cannot be stopped from inside the process, and it may allocate
// without bound (a range loop that wraps around appends glyph ids for ever: 256 MiB in 1.5 s).
// So these ops are executed by a child process (this binary, started with VERIF_DSL_WORKER=1),
// one case per line over a pipe.  The child watches itself: when its heap passes 96 MiB or a
// case runs longer than 2 s it exits, and the parent reports the outcome "runaway" for that case
// and starts a new child.

var dslWorkerOps = []string{"dsl.parse", "dsl.total", "dsl.roundtrip", "dsl.modelrt", "dsl.rtseed", "dsl.goroutines", "dsl.flags",
	"dsl.rtrepeat", "dsl.parserepeat", "dsl.meaning", "dsl.comments", "dsl.goroutinesrep", "dsl.glyphbound"}

var dslImpl = map[string]opFn{}

// dslWrapOps redirects the Parse-calling ops to the worker (idempotent; called at the end of the
// init functions of both dsl files so that the order of initialisation does not matter).
func dslWrapOps() {
	for _, op := range dslWorkerOps {
		if _, done := dslImpl[op]; done {
			continue
		}
		fn, ok := ops[op]
		if !ok {
			continue
		}
		dslImpl[op] = fn
		name := op
		ops[op] = func(f Fields) string { return dslWorkerCall(name, f) }
	}
}

type dslWorkerProc struct {
	cmd     *exec.Cmd
	in      io.WriteCloser
	out     *bufio.Reader
	outFile io.ReadCloser
}

var (
	dslW         *dslWorkerProc
	dslWmu       sync.Mutex
	dslLastRtKey string
	dslLastRtOut string
)

func dslWorkerStart() (*dslWorkerProc, error) {
	exe, err := os.Executable()
	if err != nil {
		return nil, err
	}
	cmd := exec.Command(exe)
	cmd.Env = append(os.Environ(), "VERIF_DSL_WORKER=1")
	cmd.Stderr = io.Discard
	in, err := cmd.StdinPipe()
	if err != nil {
		return nil, err
	}
	out, err := cmd.StdoutPipe()
	if err != nil {
		return nil, err
	}
	if err := cmd.Start(); err != nil {
		return nil, err
	}
	return &dslWorkerProc{cmd: cmd, in: in, out: bufio.NewReaderSize(out, 1<<20), outFile: out}, nil
}

func dslWorkerCall(op string, f Fields) string {
	if os.Getenv("VERIF_DSL_WORKER") == "1" { // already the worker
		return dslImpl[op](f)
	}
	dslWmu.Lock()
	defer dslWmu.Unlock()
	if op == "dsl.modelrt" || op == "dsl.roundtrip" { // the same computation on the same arguments
		key := fmt.Sprint(f)
		if key == dslLastRtKey {
			return dslLastRtOut
		}
		out := dslWorkerRun(op, f)
		dslLastRtKey, dslLastRtOut = key, out
		return out
	}
	return dslWorkerRun(op, f)
}

func dslWorkerRun(op string, f Fields) string {
	if dslW == nil {
		w, err := dslWorkerStart()
		if err != nil {
			return "worker-failed:" + strings.ReplaceAll(err.Error(), "\n", " ")
		}
		dslW = w
	}
	w := dslW
	keys := make([]string, 0, len(f))
	for k := range f {
		keys = append(keys, k)
	}
	sort.Strings(keys)
	var sb strings.Builder
	sb.WriteString(op)
	for _, k := range keys {
		sb.WriteString(" " + k + "=" + f[k])
	}
	sb.WriteByte('\n')
	if f, ok := w.outFile.(interface{ SetReadDeadline(time.Time) error }); ok {
		_ = f.SetReadDeadline(time.Now().Add(6 * time.Second))
	}
	if _, err := io.WriteString(w.in, sb.String()); err == nil {
		if s, err := w.out.ReadString('\n'); err == nil {
			return strings.TrimSuffix(s, "\n")
		}
	}
	// the worker died (watchdog) or hangs: get rid of it
	_ = w.cmd.Process.Kill()
	_ = w.cmd.Wait()
	dslW = nil
	return "runaway"
}

// dslWorkerMain is the child's loop.
func dslWorkerMain() {
	var started atomic.Int64
	go func() {
		var ms runtime.MemStats
		for {
			time.Sleep(20 * time.Millisecond)
			runtime.ReadMemStats(&ms)
			st := started.Load()
			if ms.HeapAlloc > 96<<20 || (st != 0 && time.Now().UnixNano()-st > int64(2*time.Second)) {
				os.Exit(3)
			}
		}
	}()
	in := bufio.NewReaderSize(os.Stdin, 1<<20)
	out := bufio.NewWriter(os.Stdout)
	for {
		line, err := in.ReadString('\n')
		if err != nil {
			return
		}
		line = strings.TrimSuffix(line, "\n")
		op, rest := line, ""
		if i := strings.IndexByte(line, ' '); i >= 0 {
			op, rest = line[:i], line[i+1:]
		}
		res := "unknown-op"
		if fn, ok := dslImpl[op]; ok {
			started.Store(time.Now().UnixNano())
			res = guard(func() string { return fn(parseFields(rest)) })
			started.Store(0)
		}
		res = strings.Map(func(r rune) rune {
			if r == '\n' {
				return ' '
			}
			return r
		}, res)
		fmt.Fprintln(out, res)
		out.Flush()
	}
}

func init() {
	dslWrapOps()
	if os.Getenv("VERIF_DSL_WORKER") == "1" {
		if len(dslImpl) < len(dslWorkerOps) {
			// the other dsl file is initialised later: its init calls dslWorkerEnter too
			return
		}
		dslWorkerMain()
		os.Exit(0)
	}
}

// dslWorkerEnter starts the worker loop once all ops are registered (see init above).
func dslWorkerEnter() {
	dslWrapOps()
	if os.Getenv("VERIF_DSL_WORKER") == "1" && len(dslImpl) == len(dslWorkerOps) {
		dslWorkerMain()
		os.Exit(0)
	}
}

// ---- the meaning of a chained context rule written in the notation ----
//
// The notation lists the backtrack sequence in logical (reading) order; the font stores it
// closest-to-the-input first.  A round trip cannot see a parser and a printer that both forget
// the reversal, so this stream judges the parsed structure against the TEXT: the case line
// carries the entries in the order written (fields back, look), the text is put together here
// (not by Explain), and the Lean side expects back reversed and look unchanged.

func init() {
	ops["dsl.meaning"] = func(f Fields) string {
		return dslCanonPanic(guard(func() string {
			ll, err := builder.Parse(dslFontOf(f), string(f.Hex("text")))
			if err != nil {
				return "parse-error:" + strings.Join(strings.Fields(err.Error()), " ")
			}
			if len(ll) == 0 || len(ll[0].Subtables) == 0 {
				return "no-subtable"
			}
			gl := func(l []glyph.ID) string { return gidsStr(l, ",") }
			switch st := ll[0].Subtables[0].(type) {
			case *gtab.ChainedSeqContext1:
				for _, rs := range st.Rules {
					if len(rs) > 0 {
						return "back=" + gl(rs[0].Backtrack) + ";look=" + gl(rs[0].Lookahead)
					}
				}
			case *gtab.ChainedSeqContext2:
				for _, rs := range st.Rules {
					if len(rs) > 0 {
						return "back=" + strings.ReplaceAll(u16Str(rs[0].Backtrack), ".", ",") + ";look=" +
							strings.ReplaceAll(u16Str(rs[0].Lookahead), ".", ",")
					}
				}
			case *gtab.ChainedSeqContext3:
				return "back=" + showSets(st.Backtrack) + ";look=" + showSets(st.Lookahead)
			}
			return fmt.Sprintf("other-%T", ll[0].Subtables[0])
		}))
	}
	dslWorkerEnter()
}

// genMeaning writes one chained rule with at least two different backtrack entries in each of the
// three formats and asks what Parse makes of it.
func genMeaning(c *Ctx) {
	r := c.Rng
	d := simpleFont
	pickG := func() int { return r.Range(3, 28) }
	spell := func(g int) string {
		if r.Bool() {
			return d.names[g]
		}
		return fmt.Sprint(g)
	}
	distinct := func(k int) []int {
		seen := map[int]bool{}
		var out []int
		for len(out) < k {
			g := pickG()
			if !seen[g] {
				seen[g] = true
				out = append(out, g)
			}
		}
		return out
	}
	kw := Pick(r, []string{"GSUB6", "GPOS8"})
	flags := Pick(r, []string{"", "", " -marks", " -ligs -rtl"})
	nb, nl := r.Range(2, 3), r.Range(0, 2)
	format := r.Range(1, 3)
	c.Stat("meaning.format", fmt.Sprint(format))
	var text, back, look string
	join := func(xs []string, sep string) string { return strings.Join(xs, sep) }
	switch format {
	case 1:
		bs, ls, in := distinct(nb), distinct(nl), distinct(r.Range(1, 2))
		var bt, lt, it, bf, lf []string
		for _, g := range bs {
			bt, bf = append(bt, spell(g)), append(bf, fmt.Sprint(g))
		}
		for _, g := range ls {
			lt, lf = append(lt, spell(g)), append(lf, fmt.Sprint(g))
		}
		for _, g := range in {
			it = append(it, spell(g))
		}
		text = kw + ":" + flags + " " + join(bt, " ") + " | " + join(it, " ") + " | " + join(lt, " ") + " -> 1@0"
		back, look = join(bf, ","), join(lf, ",")
	case 2:
		// classes 1..nb for the backtrack, 1..max(nl,1) for the lookahead, one input class
		gs := distinct(nb + nl + 2)
		var defs, bt, lt, bf, lf []string
		perm := make([]int, nb)
		for i := range perm {
			perm[i] = i
		}
		for i := nb - 1; i > 0; i-- {
			j := r.Intn(i + 1)
			perm[i], perm[j] = perm[j], perm[i]
		}
		for i := 0; i < nb; i++ {
			defs = append(defs, fmt.Sprintf("backtrackclass :b%d: = [%s]", i+1, spell(gs[i])))
		}
		defs = append(defs, fmt.Sprintf("inputclass :i: = [%s]", spell(gs[nb])))
		for i := 0; i < nl; i++ {
			defs = append(defs, fmt.Sprintf("lookaheadclass :l%d: = [%s]", i+1, spell(gs[nb+1+i])))
		}
		for _, i := range perm { // the rule uses the backtrack classes in some order, each once
			bt, bf = append(bt, fmt.Sprintf(":b%d:", i+1)), append(bf, fmt.Sprint(i+1))
		}
		for i := 0; i < nl; i++ {
			lt, lf = append(lt, fmt.Sprintf(":l%d:", i+1)), append(lf, fmt.Sprint(i+1))
		}
		text = kw + ":" + flags + " " + join(defs, "\n\t") + "\n\t/" + spell(gs[nb]) + "/ " + join(bt, " ") + " | :i: | " + join(lt, " ") + " -> 0@0"
		back, look = join(bf, ","), join(lf, ",")
	default:
		mkset := func() ([]int, string, string) {
			g := distinct(r.Range(1, 2))
			sort.Ints(g)
			var t, f []string
			for _, x := range g {
				t, f = append(t, spell(x)), append(f, fmt.Sprint(x))
			}
			return g, "[" + join(t, " ") + "]", join(f, ".")
		}
		var bt, lt, bf, lf []string
		seen := map[string]bool{}
		for len(bt) < nb {
			_, t, f := mkset()
			if !seen[f] {
				seen[f] = true
				bt, bf = append(bt, t), append(bf, f)
			}
		}
		for i := 0; i < nl; i++ {
			_, t, f := mkset()
			lt, lf = append(lt, t), append(lf, f)
		}
		_, it, _ := mkset()
		text = kw + ":" + flags + " " + join(bt, " ") + " | " + it + " | " + join(lt, " ") + " -> 1@0 2@0"
		back, look = join(bf, ","), join(lf, ",")
	}
	c.Case(Direct, "dsl.meaning", fmt.Sprintf("%s fmt=%d back=%s look=%s text=%s", d.args(), format, back, look, hx([]byte(text))), true)
}

// ---- every glyph of a parsed lookup list belongs to the font ----

var glyphIDType = reflect.TypeOf(glyph.ID(0))

// maxGlyph walks a value and returns the largest glyph id in it (-1: none).  The offset of a GSUB
// 1.1 table is a glyph.ID too but not a glyph: there the glyphs are the covered ones and their images.
func maxGlyph(v reflect.Value) int {
	best := -1
	up := func(x int) {
		if x > best {
			best = x
		}
	}
	switch v.Kind() {
	case reflect.Ptr, reflect.Interface:
		if !v.IsNil() {
			if s, ok := v.Interface().(*gtab.Gsub1_1); ok {
				for g := range s.Cov {
					up(int(g))
					up(int(g + s.Delta))
				}
				return best
			}
			up(maxGlyph(v.Elem()))
		}
	case reflect.Slice, reflect.Array:
		for i := 0; i < v.Len(); i++ {
			up(maxGlyph(v.Index(i)))
		}
	case reflect.Map:
		for _, k := range v.MapKeys() {
			up(maxGlyph(k))
			up(maxGlyph(v.MapIndex(k)))
		}
	case reflect.Struct:
		for i := 0; i < v.NumField(); i++ {
			up(maxGlyph(v.Field(i)))
		}
	default:
		if v.Type() == glyphIDType {
			up(int(v.Uint()))
		}
	}
	return best
}

// dslGlyphBound: a text that Parse accepts yields lookups whose glyphs all exist in the font, and
// (when all lookups belong to one table) Explain can write them again.
func dslGlyphBound(f Fields) string {
	return dslCanonPanic(guard(func() string {
		font := dslFontOf(f)
		n := f.Int("n")
		ll, err := builder.Parse(font, string(f.Hex("text")))
		if err != nil {
			return "sound"
		}
		for _, l := range ll {
			for _, st := range l.Subtables {
				if m := maxGlyph(reflect.ValueOf(&st).Elem()); m >= n {
					return fmt.Sprintf("glyph-outside-font:%d", m)
				}
			}
		}
		gsub, gpos := 0, 0
		for _, l := range ll {
			for _, st := range l.Subtables {
				name := fmt.Sprintf("%T", st)
				switch {
				case strings.Contains(name, "Gsub"):
					gsub++
				case strings.Contains(name, "Gpos"):
					gpos++
				case l.Meta.LookupType <= 6:
					gsub++
				default:
					gpos++
				}
			}
		}
		out := guard(func() string {
			defer func() { font.Gsub, font.Gpos = nil, nil }()
			switch {
			case gpos == 0 && gsub > 0:
				font.Gsub = &gtab.Info{LookupList: ll}
				_ = builder.ExplainGsub(font)
			case gsub == 0 && gpos > 0:
				font.Gpos = &gtab.Info{LookupList: ll}
				_ = builder.ExplainGpos(font)
			}
			return "sound"
		})
		if strings.HasPrefix(out, "panic:") {
			return "explain-panic"
		}
		return out
	}))
}
